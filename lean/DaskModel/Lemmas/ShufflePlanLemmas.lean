import DaskModel.Model.ShufflePlan
import DaskModel.Lemmas.StructuralLemmas
/-! Helper lemmas for the `_shuffle` / `slicing.take` plan of C24 (Model/ShufflePlan.lean). -/
namespace Dask.Structural
open Dask.Chunks

theorem splitBy_flatten_s {α} : ∀ (cs : List Nat) (xs : List α), xs.length = sum cs → (splitBy cs xs).flatten = xs
  | [], xs, h => by
    have : xs = [] := by simpa [sum] using h
    subst this; simp [splitBy]
  | c :: cs, xs, h => by
    rw [sum_cons] at h
    simp only [splitBy, List.flatten_cons]
    rw [splitBy_flatten_s cs (xs.drop c) (by simp; omega), List.take_append_drop]

theorem splitBy_lengths {α} : ∀ (cs : List Nat) (xs : List α), xs.length = sum cs → (splitBy cs xs).map List.length = cs
  | [], _, _ => by simp [splitBy]
  | c :: cs, xs, h => by
    rw [sum_cons] at h
    simp only [splitBy, List.map_cons, List.length_take]
    rw [splitBy_lengths cs (xs.drop c) (by simp; omega)]
    congr 1; omega

theorem identityFrom_cons (ctr c : Nat) (cs : List Nat) :
    identityFrom ctr (c :: cs) = List.range' ctr c :: identityFrom (ctr + c) cs := by
  unfold identityFrom
  simp only [splitBy, sum_cons]
  rw [← List.range'_append_1]
  simp

theorem alreadyLoop_iff : ∀ (cs : List Nat) (is : List (List Nat)) (ctr : Nat), is.length = cs.length →
    (alreadyLoop ctr is cs = true ↔ is = identityFrom ctr cs)
  | [], [], ctr, _ => by simp [alreadyLoop, identityFrom, splitBy]
  | [], _ :: _, _, h => by simp at h
  | _ :: _, [], _, h => by simp at h
  | c :: cs, idx :: is, ctr, h => by
    rw [identityFrom_cons]
    simp only [alreadyLoop]
    have ih := alreadyLoop_iff cs is (ctr + c) (by simpa using h)
    by_cases hi : idx = List.range' ctr c
    · simp [hi, ih]
    · simp [hi]

theorem identityFrom_length (ctr : Nat) : ∀ (cs : List Nat), (identityFrom ctr cs).length = cs.length := by
  intro cs
  induction cs generalizing ctr with
  | nil => simp [identityFrom, splitBy]
  | cons c cs ih => rw [identityFrom_cons]; simp [ih]

theorem alreadyShuffled_iff (old : List Nat) (indexer : List (List Nat)) :
    alreadyShuffled old indexer = true ↔ indexer = identityIndexer old := by
  unfold alreadyShuffled identityIndexer
  constructor
  · intro h
    simp only [Bool.and_eq_true, beq_iff_eq] at h
    exact (alreadyLoop_iff old indexer 0 h.1).1 h.2
  · intro h
    have hl : indexer.length = old.length := by rw [h, identityFrom_length]
    simp only [Bool.and_eq_true, beq_iff_eq]
    exact ⟨hl, (alreadyLoop_iff old indexer 0 hl).2 h⟩

theorem identityIndexer_flatten (old : List Nat) : (identityIndexer old).flatten = List.range (sum old) := by
  unfold identityIndexer identityFrom
  rw [splitBy_flatten_s old _ (by simp), List.range_eq_range']

/-- chunkEvery -/
theorem chunkEvery_flatten (k : Nat) (hk : 0 < k) : ∀ (fuel : Nat) (xs : List Nat), xs.length ≤ fuel →
    (chunkEvery k fuel xs).flatten = xs
  | 0, xs, h => by
    have : xs = [] := List.eq_nil_of_length_eq_zero (by omega)
    subst this; simp [chunkEvery]
  | fuel + 1, xs, h => by
    unfold chunkEvery
    split
    · rename_i h0; simp [h0]
    · rename_i h0
      have hpos : 0 < xs.length := List.length_pos_iff.2 h0
      simp only [List.flatten_cons]
      rw [chunkEvery_flatten k hk fuel (xs.drop k) (by simp; omega), List.take_append_drop]

theorem chunkEvery_ne_nil (k : Nat) (hk : 0 < k) : ∀ (fuel : Nat) (xs : List Nat), ∀ g ∈ chunkEvery k fuel xs, g ≠ []
  | 0, xs, g, hg => by simp [chunkEvery] at hg
  | fuel + 1, xs, g, hg => by
    unfold chunkEvery at hg
    split at hg
    · simp at hg
    · rename_i h0
      rcases List.mem_cons.1 hg with rfl | hg
      · intro h
        have hpos : 0 < xs.length := List.length_pos_iff.2 h0
        have : (xs.take k).length = 0 := by rw [h]; rfl
        rw [List.length_take] at this; omega
      · exact chunkEvery_ne_nil k hk fuel _ g hg


theorem shuffleChunkCode_eq {α} [Inhabited α] (old : List Nat) (blocks : List (List α)) (T : List Nat) :
    shuffleChunkCode old blocks T = shuffleChunk old blocks T := by
  unfold shuffleChunkCode
  dsimp only
  split
  · rename_i c run hruns
    unfold shuffleChunk
    dsimp only
    rw [hruns]
    simp only [List.flatMap_cons, List.flatMap_nil, List.append_nil, List.map_map]
    apply List.map_congr_left
    intro p hp
    simp only [Function.comp]
    have hp' : p < T.length := by simpa using hp
    have hrun : run = (sortPairs T).map (·.1) := by
      have := runsBy_flatten (sourceOf old) ((sortPairs T).map (·.1))
      rw [hruns] at this; simpa using this
    have hpm : (T[p], p) ∈ sortPairs T := (mem_sortPairs T (T[p], p)).2 (by simp [List.getElem?_eq_getElem hp'])
    have hps : p ∈ (sortPairs T).map (·.2) := List.mem_map.2 ⟨_, hpm, rfl⟩
    have hi := List.idxOf_lt_length_of_mem hps
    generalize List.idxOf p (List.map (fun x => x.2) (sortPairs T)) = i at *
    have hir : i < run.length := by rw [hrun]; simpa using hi
    simp only [List.getD_eq_getElem?_getD, List.getElem?_map, List.getElem?_eq_getElem hir, Option.map_some, Option.getD_some]
  · rfl

theorem validate_ok_mem {old : List Nat} {indexer : List (List Nat)} (h : validateIndexer old indexer = .ok ()) :
    indexer ≠ [] ∧ (∀ g ∈ indexer, g ≠ []) ∧ ∀ g ∈ indexer, ∀ i ∈ g, i < sum old := by
  unfold validateIndexer at h
  split at h
  · cases h
  · rename_i h1
    split at h
    · cases h
    · rename_i h2
      refine ⟨fun h0 => h1 (Or.inl h0), fun g hg h0 => h1 (Or.inr (h0 ▸ hg)), fun g hg i hi => ?_⟩
      simp only [List.any_eq_true, decide_eq_true_eq, not_exists, not_and] at h2
      have := h2 g hg i hi
      omega

end Dask.Structural
