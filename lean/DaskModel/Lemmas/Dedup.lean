import DaskModel.Model.SortValues
import DaskModel.Lemmas.ShufflePerm
/-! Lemmas for the `drop_duplicates` models (`Model/SortValues.lean`): `keep="last"` / `"first"` commute with
    key-compatible filters, are idempotent, the tree path and the shuffle path with an order-preserving shuffle
    equal the global result; for an arbitrary-order shuffle the key column is still right; refutation witness for
    arrival-order shuffles. Core Lean only. -/
namespace Dask.SortValues
open Dask.Shuffle
variable {β : Type}

/-! ### drop_duplicates -/

theorem flatten_map_perm' {γ δ : Type} (L : List γ) (f g : γ → List δ) (h : ∀ a ∈ L, (f a).Perm (g a)) :
    (L.map f).flatten.Perm (L.map g).flatten := by
  induction L with
  | nil => simp
  | cons a as ih =>
    simp only [List.map_cons, List.flatten_cons]
    exact List.Perm.append (h a List.mem_cons_self) (ih fun b hb => h b (List.mem_cons_of_mem _ hb))

theorem dedupLast_nil (key : β → Nat) : dedupLast key [] = [] := rfl

theorem dedupLast_cons (key : β → Nat) (x : β) (xs : List β) :
    dedupLast key (x :: xs) =
      if xs.any (fun y => key y == key x) then dedupLast key xs else x :: dedupLast key xs := rfl

theorem any_key_dedupLast (key : β → Nat) (k : Nat) : ∀ l : List β,
    (dedupLast key l).any (fun y => key y == k) = l.any (fun y => key y == k)
  | [] => rfl
  | x :: xs => by
    have ih := any_key_dedupLast key k xs
    rw [dedupLast_cons]
    split
    · rename_i h
      rw [ih, List.any_cons]
      by_cases hk : key x = k
      · subst hk; simp [h]
      · simp [hk]
    · rw [List.any_cons, List.any_cons, ih]

theorem dedupLast_append (key : β → Nat) (b : List β) : ∀ a : List β,
    dedupLast key (a ++ b) =
      (dedupLast key a).filter (fun x => !(b.any fun y => key y == key x)) ++ dedupLast key b
  | [] => by simp [dedupLast_nil]
  | x :: xs => by
    have ih := dedupLast_append key b xs
    rw [List.cons_append, dedupLast_cons, dedupLast_cons, List.any_append, ih]
    cases h1 : xs.any (fun y => key y == key x) <;> cases h2 : b.any (fun y => key y == key x) <;>
      simp [h2]

theorem dedupLast_filter (key : β → Nat) (c : β → Bool) (hc : ∀ x y, key x = key y → c x = c y) : ∀ l : List β,
    dedupLast key (l.filter c) = (dedupLast key l).filter c
  | [] => rfl
  | x :: xs => by
    have ih := dedupLast_filter key c hc xs
    have hany : c x = true → (xs.filter c).any (fun y => key y == key x) = xs.any fun y => key y == key x := by
      intro hcx
      rw [List.any_filter]
      apply List.any_congr rfl
      intro y
      by_cases hk : key y = key x
      · simp [hk, hc y x hk, hcx]
      · simp [hk]
    rw [List.filter_cons, dedupLast_cons]
    cases hcx : c x
    · simp only [Bool.false_eq_true, if_false]
      rw [ih]
      split
      · rfl
      · rw [List.filter_cons, hcx]; simp
    · simp only [if_true]
      rw [dedupLast_cons, hany hcx, ih]
      split
      · rfl
      · rw [List.filter_cons, hcx]; simp

theorem dedupLast_idem (key : β → Nat) : ∀ l : List β, dedupLast key (dedupLast key l) = dedupLast key l
  | [] => rfl
  | x :: xs => by
    have ih := dedupLast_idem key xs
    rw [dedupLast_cons]
    split
    · exact ih
    · rename_i h
      rw [dedupLast_cons, any_key_dedupLast, ih]
      simp [h]

theorem any_key_flatten_dedupLast (key : β → Nat) (k : Nat) : ∀ ps : List (List β),
    ((ps.map (dedupLast key)).flatten).any (fun y => key y == k) = ps.flatten.any (fun y => key y == k)
  | [] => rfl
  | p :: ps => by
    simp only [List.map_cons, List.flatten_cons, List.any_append]
    rw [any_key_dedupLast, any_key_flatten_dedupLast key k ps]

/-- **tree path, keep = last**: de-duplicating every partition first changes nothing -/
theorem dedupLast_tree (key : β → Nat) : ∀ parts : List (List β),
    dedupLast key (parts.map (dedupLast key)).flatten = dedupLast key parts.flatten
  | [] => rfl
  | p :: ps => by
    simp only [List.map_cons, List.flatten_cons]
    rw [dedupLast_append, dedupLast_append, dedupLast_idem, dedupLast_tree key ps]
    congr 1
    apply List.filter_congr
    intro x _
    rw [any_key_flatten_dedupLast]

theorem dedupFirst_filter (key : β → Nat) (c : β → Bool) (hc : ∀ x y, key x = key y → c x = c y) (l : List β) :
    dedupFirst key (l.filter c) = (dedupFirst key l).filter c := by
  unfold dedupFirst
  rw [← List.filter_reverse, dedupLast_filter key c hc, List.filter_reverse]

theorem dedupFirst_tree (key : β → Nat) (parts : List (List β)) :
    dedupFirst key (parts.map (dedupFirst key)).flatten = dedupFirst key parts.flatten := by
  unfold dedupFirst
  congr 1
  rw [List.reverse_flatten, List.reverse_flatten, List.map_map]
  have : (parts.map ((List.reverse) ∘ fun l => (dedupLast key l.reverse).reverse)) =
      (parts.map List.reverse).map (dedupLast key) := by
    simp [Function.comp_def]
  rw [this, ← List.map_reverse, dedupLast_tree]

theorem dedup_filter (first : Bool) (key : β → Nat) (c : β → Bool) (hc : ∀ x y, key x = key y → c x = c y)
    (l : List β) : dedup first key (l.filter c) = (dedup first key l).filter c := by
  cases first
  · exact dedupLast_filter key c hc l
  · exact dedupFirst_filter key c hc l

/-- **`drop_duplicates` through `TreeReduce` (split_out = 1) equals pandas on the whole frame** — same rows in
    the same order, for `keep = "first"` and `keep = "last"`, every partitioning -/
theorem dedupTree_eq (first : Bool) (key : β → Nat) (parts : List (List β)) :
    dedupTree first key parts = dedup first key parts.flatten := by
  unfold dedupTree
  cases first
  · exact dedupLast_tree key parts
  · exact dedupFirst_tree key parts

/-- the frame the shuffle of `ShuffleReduce` sees: every chunk-de-duplicated row tagged with its hash class -/
def tagged (first : Bool) (key : β → Nat) (hash : Nat → Nat) (n : Nat) (parts : List (List β)) : List (List (Nat × β)) :=
  (parts.map (dedup first key)).map fun rows => rows.map fun r => (hash (key r) % n, r)

theorem tagged_flatten (first : Bool) (key : β → Nat) (hash : Nat → Nat) (n : Nat) (parts : List (List β)) :
    (tagged first key hash n parts).flatten =
      (parts.map (dedup first key)).flatten.map fun r => (hash (key r) % n, r) := by
  unfold tagged
  rw [List.map_flatten]

theorem tagged_target_lt (first : Bool) (key : β → Nat) (hash : Nat → Nat) (n : Nat) (hn : 0 < n)
    (parts : List (List β)) : ∀ rows ∈ tagged first key hash n parts, ∀ r ∈ rows, r.1 < n := by
  intro rows hrows r hr
  unfold tagged at hrows
  obtain ⟨l, _, rfl⟩ := List.mem_map.mp hrows
  obtain ⟨x, _, rfl⟩ := List.mem_map.mp hr
  exact Nat.mod_lt _ hn

/-- **`drop_duplicates` through `ShuffleReduce` with an ORDER-PRESERVING shuffle** (every output = the rows of its
    class in input order — what `task_shuffle_exact_valid` / `simple_shuffle_exact` prove for the task shuffles):
    output `p` is exactly the rows of pandas' global result whose key hashes to `p`, in pandas' order -/
theorem dedupShuffleWith_getElem? (sh : List (List (Nat × β)) → Nat → List (List (Nat × β))) (first : Bool)
    (key : β → Nat) (hash : Nat → Nat) (n : Nat) (parts : List (List β)) (p : Nat)
    (hsh : (sh (tagged first key hash n parts) n)[p]? =
      some ((tagged first key hash n parts).flatten.filter fun r => r.1 == p)) :
    (dedupShuffleWith sh first key hash n parts)[p]? =
      some ((dedup first key parts.flatten).filter fun r => hash (key r) % n == p) := by
  unfold dedupShuffleWith
  simp only
  rw [List.getElem?_map]
  have : (sh ((parts.map (dedup first key)).map fun rows => rows.map fun r => (hash (key r) % n, r)) n)[p]? =
      some ((tagged first key hash n parts).flatten.filter fun r => r.1 == p) := hsh
  rw [this]
  simp only [Option.map_some, Option.some.injEq]
  rw [tagged_flatten, List.filter_map, List.map_map]
  have hid : ((fun (x : Nat × β) => x.2) ∘ fun r => (hash (key r) % n, r)) = id := rfl
  rw [hid, List.map_id]
  rw [dedup_filter first key _ (by intro x y h; simp [Function.comp, h])]
  have := dedupTree_eq first key parts
  unfold dedupTree at this
  rw [this]
  rfl

/-- … hence the whole result is, as a multiset, pandas' `drop_duplicates` of the whole frame -/
theorem dedupShuffleWith_perm (sh : List (List (Nat × β)) → Nat → List (List (Nat × β))) (first : Bool)
    (key : β → Nat) (hash : Nat → Nat) (n : Nat) (hn : 0 < n) (parts : List (List β))
    (hlen : (sh (tagged first key hash n parts) n).length = n)
    (hsh : ∀ p, p < n → (sh (tagged first key hash n parts) n)[p]? =
      some ((tagged first key hash n parts).flatten.filter fun r => r.1 == p)) :
    (dedupShuffleWith sh first key hash n parts).flatten.Perm (dedup first key parts.flatten) := by
  have h := eq_map_range_of_getElem? (dedupShuffleWith sh first key hash n parts) n
    (fun p => (dedup first key parts.flatten).filter fun r => hash (key r) % n == p)
    (by unfold dedupShuffleWith; simp only [List.length_map]; exact hlen)
    (fun p hp => dedupShuffleWith_getElem? sh first key hash n parts p (hsh p hp))
  rw [h]
  exact classes_mod_flatten_perm (fun r => hash (key r)) _ n hn

/-! #### any shuffle (arrival order): the distinct keys are still right -/

theorem dedupLast_keys_nodup (key : β → Nat) : ∀ l : List β, ((dedupLast key l).map key).Nodup
  | [] => by simp [dedupLast_nil]
  | x :: xs => by
    rw [dedupLast_cons]
    split
    · exact dedupLast_keys_nodup key xs
    · rename_i h
      rw [List.map_cons, List.nodup_cons]
      refine ⟨?_, dedupLast_keys_nodup key xs⟩
      intro hmem
      obtain ⟨y, hy, hk⟩ := List.mem_map.mp hmem
      have : (dedupLast key xs).any (fun y => key y == key x) = true :=
        List.any_eq_true.mpr ⟨y, hy, by simp [hk]⟩
      rw [any_key_dedupLast] at this
      exact h this

theorem mem_keys_dedupLast (key : β → Nat) (l : List β) (k : Nat) : k ∈ (dedupLast key l).map key ↔ k ∈ l.map key := by
  have := any_key_dedupLast key k l
  simp only [List.mem_map]
  constructor
  · rintro ⟨y, hy, rfl⟩
    have h : (dedupLast key l).any (fun z => key z == key y) = true := List.any_eq_true.mpr ⟨y, hy, by simp⟩
    rw [any_key_dedupLast] at h
    obtain ⟨z, hz, hk⟩ := List.any_eq_true.mp h
    exact ⟨z, hz, by simpa using hk⟩
  · rintro ⟨y, hy, rfl⟩
    have h : l.any (fun z => key z == key y) = true := List.any_eq_true.mpr ⟨y, hy, by simp⟩
    rw [← any_key_dedupLast] at h
    obtain ⟨z, hz, hk⟩ := List.any_eq_true.mp h
    exact ⟨z, hz, by simpa using hk⟩

theorem dedupFirst_keys_nodup (key : β → Nat) (l : List β) : ((dedupFirst key l).map key).Nodup := by
  unfold dedupFirst
  rw [List.map_reverse]
  unfold List.Nodup
  rw [List.pairwise_reverse]
  exact (dedupLast_keys_nodup key _).imp Ne.symm

theorem mem_keys_dedupFirst (key : β → Nat) (l : List β) (k : Nat) : k ∈ (dedupFirst key l).map key ↔ k ∈ l.map key := by
  unfold dedupFirst
  rw [List.map_reverse, List.mem_reverse, mem_keys_dedupLast, List.map_reverse, List.mem_reverse]

theorem dedup_keys_nodup (first : Bool) (key : β → Nat) (l : List β) : ((dedup first key l).map key).Nodup := by
  cases first
  · exact dedupLast_keys_nodup key l
  · exact dedupFirst_keys_nodup key l

theorem mem_keys_dedup (first : Bool) (key : β → Nat) (l : List β) (k : Nat) :
    k ∈ (dedup first key l).map key ↔ k ∈ l.map key := by
  cases first
  · exact mem_keys_dedupLast key l k
  · exact mem_keys_dedupFirst key l k

/-- the key column of `drop_duplicates` does not depend on the order of the rows (nor on `keep`) -/
theorem dedup_keys_perm (f₁ f₂ : Bool) (key : β → Nat) (l₁ l₂ : List β) (h : l₁.Perm l₂) :
    ((dedup f₁ key l₁).map key).Perm ((dedup f₂ key l₂).map key) := by
  rw [List.perm_ext_iff_of_nodup (dedup_keys_nodup f₁ key l₁) (dedup_keys_nodup f₂ key l₂)]
  intro k
  rw [mem_keys_dedup, mem_keys_dedup]
  exact (h.map key).mem_iff

/-- **any shuffle that delivers the right rows to every output, in ANY order** (the partd-based disk shuffle
    collects pieces in arrival order): the key column of the result is still pandas' — `unique`, `nunique` and
    the set of distinct keys of `drop_duplicates` do not depend on the order -/
theorem dedupShuffleWith_keys_any (sh : List (List (Nat × β)) → Nat → List (List (Nat × β))) (first : Bool)
    (key : β → Nat) (hash : Nat → Nat) (n : Nat) (hn : 0 < n) (parts : List (List β))
    (hlen : (sh (tagged first key hash n parts) n).length = n)
    (hsh : ∀ p, p < n → ((sh (tagged first key hash n parts) n).getD p []).Perm
      ((tagged first key hash n parts).flatten.filter fun r => r.1 == p)) :
    ((dedupShuffleWith sh first key hash n parts).flatten.map key).Perm
      ((dedup first key parts.flatten).map key) := by
  have hB := dedupShuffleWith_perm (orderedShuffle) first key hash n hn parts
    (by simp [orderedShuffle])
    (fun p hp => by unfold orderedShuffle; rw [List.getElem?_map, List.getElem?_range hp]; rfl)
  refine List.Perm.trans ?_ (hB.map key)
  have eA : dedupShuffleWith sh first key hash n parts =
      (List.range n).map fun p => dedup first key (((sh (tagged first key hash n parts) n).getD p []).map (·.2)) := by
    apply eq_map_range_of_getElem?
    · unfold dedupShuffleWith; simp only [List.length_map]; exact hlen
    · intro p hp
      unfold dedupShuffleWith
      simp only
      rw [List.getElem?_map]
      have hp' : p < (sh (tagged first key hash n parts) n).length := by omega
      have : (sh ((parts.map (dedup first key)).map fun rows => rows.map fun r => (hash (key r) % n, r)) n)[p]? =
          some ((sh (tagged first key hash n parts) n).getD p []) := by
        show (sh (tagged first key hash n parts) n)[p]? = _
        rw [List.getD_eq_getElem?_getD, List.getElem?_eq_getElem hp']
        rfl
      rw [this]
      rfl
  have eB : dedupShuffleWith orderedShuffle first key hash n parts =
      (List.range n).map fun p => dedup first key
        (((tagged first key hash n parts).flatten.filter fun r => r.1 == p).map (·.2)) := by
    show ((List.range n).map fun p => (tagged first key hash n parts).flatten.filter fun r => r.1 == p).map
      (fun p => dedup first key (p.map (·.2))) = _
    rw [List.map_map]
    rfl
  rw [eA, eB, List.map_flatten, List.map_flatten, List.map_map, List.map_map]
  apply flatten_map_perm'
  intro p hp
  simp only [Function.comp]
  exact dedup_keys_perm first first key _ _ ((hsh p (List.mem_range.mp hp)).map _)

/-- **which duplicate survives does depend on the order**: a shuffle that hands the pieces over in another
    partition order (here: reversed — a possible arrival order) keeps a different row than pandas for
    `keep = "first"`; the refutation behind the finding for `shuffle_method="disk"` -/
theorem dedup_arrival_order_refuted :
    ¬ ∀ (sh : List (List (Nat × (Nat × Nat))) → Nat → List (List (Nat × (Nat × Nat)))),
        (∀ ps n, (sh ps n).length = n ∧ ∀ p, p < n → ((sh ps n).getD p []).Perm (ps.flatten.filter fun r => r.1 == p)) →
        ∀ parts : List (List (Nat × Nat)),
          (dedupShuffleWith sh true (·.1) id 1 parts).flatten.Perm (dedup true (·.1) parts.flatten) := by
  intro h
  have := h (fun ps n => orderedShuffle ps.reverse n)
    (by
      intro ps n
      refine ⟨by simp [orderedShuffle], ?_⟩
      intro p hp
      unfold orderedShuffle
      rw [List.getD_eq_getElem?_getD, List.getElem?_map, List.getElem?_range hp]
      simp only [Option.map_some, Option.getD_some]
      apply List.Perm.filter
      exact List.Perm.flatten (List.reverse_perm ps))
    [[(7, 0)], [(7, 1)]]
  revert this
  decide

end Dask.SortValues
