import DaskModel.Model.Meta
/-! Helper lemmas for `Model/Meta.lean`. No Mathlib. -/
namespace Dask.Meta
open Dask.Elemwise

theorem optAll_map_some {α β : Type} (l : List α) (f : α → Option β) (g : α → β) (h : ∀ x ∈ l, f x = some (g x)) :
    optAll (l.map f) = some (l.map g) := by
  induction l with
  | nil => rfl
  | cons a r ih =>
    simp only [List.map_cons, optAll, h a (by simp)]
    rw [ih (fun x hx => h x (by simp [hx]))]
    rfl

theorem optAll_congr {α β : Type} (l : List α) (f g : α → Option β) (h : ∀ x ∈ l, f x = g x) :
    optAll (l.map f) = optAll (l.map g) := by
  have : l.map f = l.map g := List.map_congr_left h
  rw [this]

/-- every entry of a successful `optAll` is `some` -/
theorem optAll_some_mem {α β : Type} (l : List α) (f : α → Option β) (r : List β) (h : optAll (l.map f) = some r) :
    ∀ x ∈ l, ∃ y, f x = some y := by
  induction l generalizing r with
  | nil => simp
  | cons a t ih =>
    intro x hx
    simp only [List.map_cons] at h
    cases hfa : f a with
    | none => rw [hfa] at h; simp [optAll] at h
    | some y =>
      rw [hfa] at h
      simp only [optAll] at h
      cases hr : optAll (t.map f) with
      | none => rw [hr] at h; simp at h
      | some r' =>
        rcases List.mem_cons.mp hx with hx | hx
        · exact ⟨y, by rw [hx, hfa]⟩
        · exact ih r' hr x hx

theorem optAll_map_some_id {α : Type} (l : List α) : optAll (l.map some) = some l := by
  induction l with
  | nil => rfl
  | cons a r ih => simp [optAll, ih]

theorem range_map_getElem? {α : Type} (l : List α) : optAll ((List.range l.length).map fun i => l[i]?) = some l := by
  have : (List.range l.length).map (fun i => l[i]?) = l.map some := by
    apply List.ext_getElem?
    intro i
    simp only [List.getElem?_map]
    by_cases h : i < l.length
    · rw [List.getElem?_range h, List.getElem?_eq_getElem h]
      simp [List.getElem?_eq_getElem h]
    · have h1 : (List.range l.length)[i]? = none := List.getElem?_eq_none (by simpa using h)
      have h2 : l[i]? = none := List.getElem?_eq_none (by omega)
      rw [h1, h2]
      rfl
  rw [this, optAll_map_some_id]

end Dask.Meta
