import DaskModel.Model.SliceND
import DaskModel.Lemmas.SlicePlan
import DaskModel.Lemmas.SliceInt
/-! C20, N-d: the three `itertools.product`s of `slice_slices_and_integers` zipped together are the product of the
    per-axis (output coordinate, item) pairs. -/
namespace Dask.SliceND
open Dask.Slice1D Dask.Store

/-! ### `itertools.product` -/

theorem product_map {α β : Type} (f : α → β) : ∀ (L : List (List α)),
    product (L.map (List.map f)) = (product L).map (List.map f) := by
  intro L
  induction L with
  | nil => rfl
  | cons xs rest ih =>
    simp only [List.map_cons, product, ih, List.flatMap_map, List.map_flatMap, List.map_map]
    rfl

theorem zip_map_same {α β γ : Type} (f : α → β) (g : α → γ) : ∀ (l : List α),
    (l.map f).zip (l.map g) = l.map (fun x => (f x, g x)) := by
  intro l
  induction l with
  | nil => rfl
  | cons x xs ih => simp [ih]

/-! ### well-formed index: as many entries as axes, integers in bounds (what `normalize_index` guarantees) -/

def WF : List (List Nat) → List Idx → Prop
  | _ :: cs, .sl _ :: is => WF cs is
  | c :: cs, .int i :: is => (0 ≤ i ∧ i < ((c.sum : Nat) : Int)) ∧ WF cs is
  | [], [] => True
  | _, _ => False

theorem sortedItems_int (c : List Nat) (i : Int) (h0 : 0 ≤ i) (h1 : i < ((c.sum : Nat) : Int)) :
    ∃ blk off l, sortedItems c (.int i) = [(blk, BIdx.int off)] ∧ c[blk]? = some l ∧ 0 ≤ off ∧ off < l ∧
      (((c.take blk).sum : Nat) : Int) + off = i := by
  obtain ⟨blk, off, l, hs, hl, ho0, ho1, hsum⟩ := slice1dInt_spec c i h0 h1
  exact ⟨blk, off, l, by simp [sortedItems, slice1dAny, hs, sortByKey, insertByKey], hl, ho0, ho1, hsum⟩

/-! ### out names: the product over the kept axes is the full product with the dropped coordinates filtered out -/

def axisOutAll : List (List Nat) → List Idx → List (List (Option Nat))
  | c :: cs, i :: is => axisOut i (sortedItems c i).length :: axisOutAll cs is
  | _, _ => []

theorem outNames_eq : ∀ (chunks : List (List Nat)) (index : List Idx), WF chunks index →
    product (outFactors chunks index) = (product (axisOutAll chunks index)).map (List.filterMap id) := by
  intro chunks
  induction chunks with
  | nil =>
    intro index _
    cases index <;> simp [outFactors, axisOutAll, product]
  | cons c cs ih =>
    intro index hwf
    cases index with
    | nil => simp [WF] at hwf
    | cons i is =>
      cases i with
      | sl s =>
        simp only [WF] at hwf
        simp only [outFactors, axisOutAll, axisOut, product, ih is hwf, List.flatMap_map, List.map_flatMap,
          List.map_map]
        congr 1
      | int v =>
        simp only [WF] at hwf
        obtain ⟨blk, off, l, hs, _⟩ := sortedItems_int c v hwf.1.1 hwf.1.2
        simp only [outFactors, axisOutAll, axisOut, hs, List.length_singleton, List.range_one, List.map_cons,
          List.map_nil, product, List.flatMap_cons, List.flatMap_nil, List.append_nil, ih is hwf.2, List.map_map]
        congr 1

/-! ### the per-axis pairs project onto the three factor lists -/

theorem axisOut_length (i : Idx) (len : Nat) : (axisOut i len).length = len := by
  cases i with
  | sl s => simp only [axisOut, outRange]; split <;> simp
  | int v => simp [axisOut]

theorem axisPairs_fst (c : List Nat) (i : Idx) : (axisPairs c i).map (·.1) = axisOut i (sortedItems c i).length := by
  unfold axisPairs
  rw [List.map_fst_zip]
  rw [axisOut_length]
  exact Nat.le_refl _

theorem axisPairs_snd (c : List Nat) (i : Idx) : (axisPairs c i).map (·.2) = sortedItems c i := by
  unfold axisPairs
  rw [List.map_snd_zip]
  rw [axisOut_length]
  exact Nat.le_refl _

theorem axisPairsAll_fst : ∀ (chunks : List (List Nat)) (index : List Idx),
    (axisPairsAll chunks index).map (List.map (·.1)) = axisOutAll chunks index := by
  intro chunks
  induction chunks with
  | nil => intro index; cases index <;> rfl
  | cons c cs ih =>
    intro index
    cases index with
    | nil => rfl
    | cons i is => simp only [axisPairsAll, axisOutAll, List.map_cons, axisPairs_fst, ih]

theorem axisPairsAll_snd : ∀ (chunks : List (List Nat)) (index : List Idx),
    (axisPairsAll chunks index).map (List.map (·.2)) = sortedAll chunks index := by
  intro chunks
  induction chunks with
  | nil => intro index; cases index <;> rfl
  | cons c cs ih =>
    intro index
    cases index with
    | nil => rfl
    | cons i is => simp only [axisPairsAll, sortedAll, List.map_cons, axisPairs_snd, ih]

/-- **The graph of `slice_slices_and_integers`**: zipping the three products gives exactly one task per combination
    of per-axis (output coordinate, item) pairs. -/
theorem tasks_eq (chunks : List (List Nat)) (index : List Idx) (hwf : WF chunks index) :
    tasks chunks index = (product (axisPairsAll chunks index)).map toTask := by
  unfold tasks outNames inNames allSlices
  rw [outNames_eq chunks index hwf, ← axisPairsAll_fst, ← axisPairsAll_snd]
  generalize axisPairsAll chunks index = P
  have e1 : (P.map (List.map (·.2))).map (fun (l : List (Nat × BIdx)) => l.map Prod.fst)
      = P.map (List.map (fun (p : Option Nat × (Nat × BIdx)) => p.2.1)) := by
    simp [List.map_map, Function.comp]
  have e2 : (P.map (List.map (·.2))).map (fun (l : List (Nat × BIdx)) => l.map Prod.snd)
      = P.map (List.map (fun (p : Option Nat × (Nat × BIdx)) => p.2.2)) := by
    simp [List.map_map, Function.comp]
  rw [e1, e2, product_map, product_map, product_map, List.map_map, zip_map_same, zip_map_same]
  apply List.map_congr_left
  intro t _
  simp [toTask, List.filterMap_map, Function.comp]

/-! ### one slice axis: the output coordinate `o` carries the `o`-th item in output order -/

theorem insertByKey_map {α β : Type} (g : α → β) (p : Nat × α) : ∀ (d : List (Nat × α)),
    insertByKey (p.1, g p.2) (d.map fun kv => (kv.1, g kv.2)) = (insertByKey p d).map fun kv => (kv.1, g kv.2) := by
  intro d
  induction d with
  | nil => rfl
  | cons q qs ih =>
    simp only [List.map_cons, insertByKey]
    split
    · rfl
    · simp only [List.map_cons, ih]

theorem sortByKey_map {α β : Type} (g : α → β) : ∀ (d : List (Nat × α)),
    sortByKey (d.map fun kv => (kv.1, g kv.2)) = (sortByKey d).map fun kv => (kv.1, g kv.2) := by
  intro d
  induction d with
  | nil => rfl
  | cons p ps ih =>
    simp only [List.map_cons, sortByKey, ih]
    exact insertByKey_map g p _

/-- the plan of a slice axis in output order, each item tagged with its output coordinate -/
def enumOut (lengths : List Nat) (s : PSlice) : List (Option Nat × (Nat × BIdx)) :=
  let items := outputOrder s (slice1d lengths.sum lengths s)
  ((List.range items.length).map some).zip (items.map fun kv => (kv.1, BIdx.sl kv.2))

theorem sortByKey_length {α : Type} : ∀ (d : List (Nat × α)), (sortByKey d).length = d.length := by
  have hins : ∀ (p : Nat × α) (d : List (Nat × α)), (insertByKey p d).length = d.length + 1 := by
    intro p d
    induction d with
    | nil => rfl
    | cons q qs ih =>
      simp only [insertByKey]
      split
      · simp
      · simp [ih]
  intro d
  induction d with
  | nil => rfl
  | cons p ps ih => simp [sortByKey, hins, ih]

theorem reverse_zip' {α β : Type} {l : List α} {l' : List β} (h : l.length = l'.length) :
    (l.zip l').reverse = l.reverse.zip l'.reverse := by
  rw [List.zip_eq_zipWith, List.zip_eq_zipWith]
  exact List.reverse_zipWith h

/-- positive step: the pairs are the enumerated plan; negative step: the same pairs, listed backwards
    (`range(len(d))[::-1]` zipped with `sorted(items)`). -/
theorem axisPairs_slice (lengths : List Nat) (s : PSlice) :
    axisPairs lengths (.sl s) = if negStep s then (enumOut lengths s).reverse else enumOut lengths s := by
  unfold axisPairs enumOut sortedItems slice1dAny axisOut outRange outputOrder
  rw [sortByKey_map]
  simp only [List.length_map, sortByKey_length]
  by_cases hneg : negStep s = true
  · simp only [hneg, if_true, List.length_reverse, sortByKey_length, List.map_reverse]
    rw [reverse_zip' (by simp [sortByKey_length]), List.reverse_reverse]
  · simp only [hneg, if_false, Bool.false_eq_true, sortByKey_length]

theorem mem_axisPairs_slice (lengths : List Nat) (s : PSlice) (p : Option Nat × (Nat × BIdx)) :
    p ∈ axisPairs lengths (.sl s) ↔ p ∈ enumOut lengths s := by
  rw [axisPairs_slice]
  split <;> simp

/-- what a member of `enumOut` is: output coordinate `o` with the `o`-th item of the plan in output order -/
theorem mem_enumOut (lengths : List Nat) (s : PSlice) (p : Option Nat × (Nat × BIdx)) :
    p ∈ enumOut lengths s ↔ ∃ o kv, (outputOrder s (slice1d lengths.sum lengths s))[o]? = some kv ∧
      p = (some o, (kv.1, BIdx.sl kv.2)) := by
  unfold enumOut
  simp only
  generalize outputOrder s (slice1d lengths.sum lengths s) = items
  constructor
  · intro h
    obtain ⟨k, hk⟩ := List.getElem?_of_mem h
    rw [List.getElem?_zip_eq_some] at hk
    obtain ⟨h1, h2⟩ := hk
    rw [List.getElem?_map] at h1 h2
    cases hr : (List.range items.length)[k]? with
    | none => rw [hr] at h1; simp at h1
    | some o =>
      rw [hr] at h1
      have ho : o = k := by
        rw [List.getElem?_range] at hr
        · injection hr with hr; exact hr.symm
        · by_cases hlt : k < items.length
          · exact hlt
          · rw [List.getElem?_eq_none (by simp; omega)] at hr; cases hr
      subst ho
      cases hi : items[o]? with
      | none => rw [hi] at h2; simp at h2
      | some kv =>
        rw [hi] at h2
        simp only [Option.map_some, Option.some.injEq] at h1 h2
        exact ⟨o, kv, hi, Prod.ext h1.symm h2.symm⟩
  · rintro ⟨o, kv, hi, rfl⟩
    have hlt : o < items.length := by
      by_cases hlt : o < items.length
      · exact hlt
      · rw [List.getElem?_eq_none (by omega)] at hi; cases hi
    apply List.mem_of_getElem? (i := o)
    rw [List.getElem?_zip_eq_some]
    constructor
    · rw [List.getElem?_map, List.getElem?_range hlt]; rfl
    · rw [List.getElem?_map, hi]; rfl

/-! ### element level: what block `o` reads is the stretch of the selection at its lazy offset -/

theorem flatMap_getElem {α β : Type} (f : α → List β) : ∀ (L : List α) (o q : Nat) (a : α) (b : β),
    L[o]? = some a → (f a)[q]? = some b →
    (L.flatMap f)[((L.take o).map (fun x => (f x).length)).sum + q]? = some b := by
  intro L
  induction L with
  | nil => intro o q a b h; simp at h
  | cons x xs ih =>
    intro o q a b h hq
    cases o with
    | zero =>
      simp only [List.getElem?_cons_zero, Option.some.injEq] at h
      subst h
      have hlt : q < (f x).length := by
        by_cases hlt : q < (f x).length
        · exact hlt
        · rw [List.getElem?_eq_none (by omega)] at hq; cases hq
      simp only [List.take_zero, List.map_nil, List.sum_nil, Nat.zero_add, List.flatMap_cons]
      rw [List.getElem?_append_left hlt]
      exact hq
    | succ o =>
      simp only [List.getElem?_cons_succ] at h
      simp only [List.take_succ_cons, List.map_cons, List.sum_cons, List.flatMap_cons]
      rw [List.getElem?_append_right (by omega)]
      have : (f x).length + ((xs.take o).map (fun x => (f x).length)).sum + q - (f x).length
          = ((xs.take o).map (fun x => (f x).length)).sum + q := by omega
      rw [this]
      exact ih o q a b h hq

theorem sum_map_cast {α : Type} (f : α → Nat) : ∀ (L : List α),
    (L.map (fun x => ((f x : Nat) : Int))).sum = (((L.map f).sum : Nat) : Int) := by
  intro L
  induction L with
  | nil => rfl
  | cons x xs ih => simp only [List.map_cons, List.sum_cons, ih]; omega

end Dask.SliceND
