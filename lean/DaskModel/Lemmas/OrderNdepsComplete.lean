import DaskModel.Lemmas.OrderNdeps
import DaskModel.Lemmas.ToposortWalk
import DaskModel.Props.C07
/-! Completeness of the Kahn-style count `ndependencies` on consistent inputs (`dependents` = the reverse of
`dependencies`, both closed and duplicate-free, as `order` builds them): no KeyError, the driver's fuel suffices, and on
an acyclic graph every key receives a total. Counting invariant `NdInv`. -/
namespace Dask.Order
open Dask.GraphAlg

/-- what `order` guarantees about the two mappings it hands to `ndependencies` -/
structure NdWF (deps dnts : Graph) : Prop where
  keysNodup : (deps.map Prod.fst).Nodup
  depsNodup : ∀ k ds, deps.lookup k = some ds → ds.Nodup
  closed : ∀ k ds, deps.lookup k = some ds → ∀ d ∈ ds, d ∈ deps.map Prod.fst
  dntsDom : ∀ k ∈ deps.map Prod.fst, ∃ ps, dnts.lookup k = some ps
  dntsNodup : ∀ k ps, dnts.lookup k = some ps → ps.Nodup
  dntsRev : ∀ k ps, dnts.lookup k = some ps → ∀ p, p ∈ ps ↔ Edge deps p k

/-- how many of the dependencies `ds` are already processed -/
def cnt (P ds : List Key) : Nat := (ds.filter (fun d => decide (d ∈ P))).length

theorem cnt_le (P ds : List Key) : cnt P ds ≤ ds.length := List.length_filter_le _ _

theorem cnt_eq_length_iff (P : List Key) : ∀ ds : List Key, cnt P ds = ds.length ↔ ∀ d ∈ ds, d ∈ P
  | [] => by simp [cnt]
  | d :: ds => by
    have ih := cnt_eq_length_iff P ds
    have hle := cnt_le P ds
    unfold cnt at ih hle ⊢
    by_cases h : d ∈ P
    · simp only [List.filter_cons, h, decide_true, if_true, List.length_cons, List.mem_cons, forall_eq_or_imp, true_and]
      rw [← ih]; omega
    · simp only [List.filter_cons, h, decide_false, List.length_cons, List.mem_cons, forall_eq_or_imp, false_and,
        iff_false]
      simp only [Bool.false_eq_true, if_false]
      omega

theorem cnt_nil (ds : List Key) : cnt [] ds = 0 := by simp [cnt]

theorem cnt_step (Q : List Key) (d : Key) (ds : List Key) :
    cnt Q (d :: ds) = cnt Q ds + (if d ∈ Q then 1 else 0) := by
  unfold cnt
  by_cases h : d ∈ Q <;> simp [h]

theorem cnt_cons {key : Key} {P : List Key} (hk : key ∉ P) : ∀ ds : List Key, ds.Nodup →
    cnt (key :: P) ds = cnt P ds + (if key ∈ ds then 1 else 0)
  | [], _ => by simp [cnt]
  | d :: ds, hn => by
    have hn' := List.nodup_cons.mp hn
    have ih := cnt_cons hk ds hn'.2
    rw [cnt_step, cnt_step, ih]
    by_cases hd : d = key
    · subst hd
      have h1 : d ∉ ds := hn'.1
      simp [hk, h1]
    · have hkd : key ≠ d := fun e => hd e.symm
      by_cases hP : d ∈ P <;> by_cases hks : key ∈ ds <;> simp [hd, hkd, hP, hks]

theorem cnt_mono (key : Key) (P ds : List Key) : cnt P ds ≤ cnt (key :: P) ds := by
  unfold cnt
  apply filter_length_le
  intro x _ hx
  simp only [decide_eq_true_eq] at hx ⊢
  exact List.mem_cons_of_mem _ hx

/-! ### `relax` -/

theorem relax_spec : ∀ (ps : List Key) (need : List (Key × Int)) (cur : List Key), ps.Nodup →
    (∀ p ∈ ps, ∃ v, need.lookup p = some v) →
    ∃ need', relax ps need cur = some (need', (ps.filter (fun p => need.lookup p == some 1)).reverse ++ cur) ∧
      ∀ q, need'.lookup q = if q ∈ ps then (need.lookup q).map (· - 1) else need.lookup q
  | [], need, cur, _, _ => ⟨need, by simp [relax], by simp⟩
  | p :: ps, need, cur, hn, hs => by
    have hn' := List.nodup_cons.mp hn
    obtain ⟨v, hv⟩ := hs p (by simp)
    have hother : ∀ q, q ≠ p → (dset need p (v - 1)).lookup q = need.lookup q := by
      intro q hq; rw [dset_lookup]; simp [hq]
    obtain ⟨need', h1, h2⟩ := relax_spec ps (dset need p (v - 1)) (if v - 1 = 0 then p :: cur else cur) hn'.2
      (by
        intro q hq
        have : q ≠ p := fun e => hn'.1 (e ▸ hq)
        rw [hother q this]
        exact hs q (List.mem_cons_of_mem _ hq))
    refine ⟨need', ?_, ?_⟩
    · unfold relax
      simp only [hv]
      rw [h1]
      congr 2
      have hf : ps.filter (fun q => (dset need p (v - 1)).lookup q == some 1) =
          ps.filter (fun q => need.lookup q == some 1) := by
        apply List.filter_congr
        intro q hq
        have : q ≠ p := fun e => hn'.1 (e ▸ hq)
        rw [hother q this]
      rw [hf, List.filter_cons]
      by_cases h1v : v = 1
      · subst h1v
        simp [hv]
      · have : ¬ (v - 1 = 0) := by omega
        simp [hv, h1v, this]
    · intro q
      rw [h2 q]
      by_cases hq : q = p
      · subst hq
        simp [hn'.1, dset_lookup, hv]
      · by_cases hqs : q ∈ ps
        · simp [hqs, hother q hq]
        · simp [hqs, hq, hother q hq]

/-! ### the counting invariant -/

/-- `P`: the keys whose dependents have been relaxed (= the keys of `result` at the head of the `while` loop);
    `pend`: keys taken out of `current` / roots not yet relaxed -/
structure NdInv (deps : Graph) (P : List Key) (need : List (Key × Int)) (cur pend : List Key) : Prop where
  need_eq : ∀ p ds, deps.lookup p = some ds → need.lookup p = some ((ds.length : Int) - (cnt P ds : Int))
  cur_ready : ∀ p ∈ cur, p ∉ P ∧ ∃ ds, deps.lookup p = some ds ∧ ds ≠ [] ∧ cnt P ds = ds.length
  cur_nodup : cur.Nodup
  P_nodup : P.Nodup
  P_keys : ∀ p ∈ P, p ∈ deps.map Prod.fst
  P_closed : ∀ p ∈ P, ∀ ds, deps.lookup p = some ds → cnt P ds = ds.length
  ready_seen : ∀ p ds, deps.lookup p = some ds → ds ≠ [] → cnt P ds = ds.length → p ∈ cur ∨ p ∈ P ∨ p ∈ pend
  roots_seen : ∀ p, deps.lookup p = some [] → p ∈ P ∨ p ∈ pend

/-- relaxing the dependents of `key` (all of whose dependencies are processed) keeps the invariant -/
theorem process_inv {deps dnts : Graph} (wf : NdWF deps dnts) {P : List Key} {need : List (Key × Int)}
    {cur pend : List Key} {key : Key} {ps : List Key} (hi : NdInv deps P need cur (key :: pend))
    (hkP : key ∉ P) (hkc : key ∉ cur) (hkk : key ∈ deps.map Prod.fst) (hps : dnts.lookup key = some ps)
    (hready : ∀ ds, deps.lookup key = some ds → cnt P ds = ds.length) :
    ∃ need' cur', relax ps need cur = some (need', cur') ∧ NdInv deps (key :: P) need' cur' pend := by
  have hpsn := wf.dntsNodup key ps hps
  have hrev := wf.dntsRev key ps hps
  obtain ⟨need', hrel, hlook⟩ := relax_spec ps need cur hpsn (by
    intro p hp
    obtain ⟨ds, hds, _⟩ := (hrev p).mp hp
    exact ⟨_, hi.need_eq p ds hds⟩)
  refine ⟨need', _, hrel, ?_⟩
  -- membership in the new stack
  have hmem : ∀ q, q ∈ (ps.filter (fun p => need.lookup p == some 1)).reverse ++ cur ↔
      (q ∈ ps ∧ need.lookup q = some 1) ∨ q ∈ cur := by
    intro q
    simp [List.mem_append, List.mem_reverse, List.mem_filter]
  have hedge : ∀ p ds, deps.lookup p = some ds → (p ∈ ps ↔ key ∈ ds) := by
    intro p ds hds
    rw [hrev p]
    constructor
    · rintro ⟨ds', h1, h2⟩
      unfold deps? at h1; rw [hds] at h1; cases h1; exact h2
    · intro h; exact ⟨ds, hds, h⟩
  have hcnt : ∀ p ds, deps.lookup p = some ds → cnt (key :: P) ds = cnt P ds + (if p ∈ ps then 1 else 0) := by
    intro p ds hds
    rw [cnt_cons hkP ds (wf.depsNodup p ds hds)]
    by_cases h : key ∈ ds
    · simp [h, (hedge p ds hds).mpr h]
    · have : p ∉ ps := fun hp => h ((hedge p ds hds).mp hp)
      simp [h, this]
  refine ⟨?_, ?_, ?_, ?_, ?_, ?_, ?_, ?_⟩
  · -- need_eq
    intro p ds hds
    rw [hlook p, hi.need_eq p ds hds, hcnt p ds hds]
    by_cases hp : p ∈ ps
    · simp only [hp, if_true, Option.map_some, Option.some.injEq]; omega
    · simp [hp]
  · -- cur_ready
    intro q hq
    rcases (hmem q).mp hq with ⟨hqs, hq1⟩ | hqc
    · obtain ⟨ds, hds, hkd⟩ := (hrev q).mp hqs
      unfold deps? at hds
      have hne := hi.need_eq q ds hds
      rw [hq1] at hne
      have hc1 : (ds.length : Int) - (cnt P ds : Int) = 1 := by
        simp only [Option.some.injEq] at hne; omega
      have hle := cnt_le P ds
      have hqP : q ∉ P := by
        intro hqP
        have := hi.P_closed q hqP ds hds
        omega
      have hqk : q ≠ key := by
        intro e
        subst e
        have := hready ds hds
        omega
      refine ⟨by simp [hqP, hqk], ds, hds, ?_, ?_⟩
      · intro e; subst e; simp at hkd
      · rw [hcnt q ds hds]; simp only [hqs, if_true]; omega
    · obtain ⟨h1, ds, hds, hne, hc⟩ := hi.cur_ready q hqc
      have hqk : q ≠ key := fun e => hkc (e ▸ hqc)
      refine ⟨by simp [h1, hqk], ds, hds, hne, ?_⟩
      have := cnt_mono key P ds
      have := cnt_le (key :: P) ds
      omega
  · -- cur_nodup
    rw [List.nodup_append]
    refine ⟨nodup_reverse (hpsn.filter _), hi.cur_nodup, ?_⟩
    intro a ha b hb e
    subst e
    simp only [List.mem_reverse, List.mem_filter, beq_iff_eq] at ha
    obtain ⟨_, ds, hds, _, hc⟩ := hi.cur_ready a hb
    have := hi.need_eq a ds hds
    rw [ha.2] at this
    simp only [Option.some.injEq] at this
    omega
  · exact List.nodup_cons.mpr ⟨hkP, hi.P_nodup⟩
  · intro p hp
    rcases List.mem_cons.mp hp with rfl | hp
    · exact hkk
    · exact hi.P_keys p hp
  · -- P_closed
    intro p hp ds hds
    have hmono := cnt_mono key P ds
    have hle := cnt_le (key :: P) ds
    rcases List.mem_cons.mp hp with rfl | hp
    · have := hready ds hds; omega
    · have := hi.P_closed p hp ds hds; omega
  · -- ready_seen
    intro p ds hds hne hc
    by_cases hold : cnt P ds = ds.length
    · rcases hi.ready_seen p ds hds hne hold with h | h | h
      · exact Or.inl ((hmem p).mpr (Or.inr h))
      · exact Or.inr (Or.inl (List.mem_cons_of_mem _ h))
      · rcases List.mem_cons.mp h with rfl | h
        · exact Or.inr (Or.inl (by simp))
        · exact Or.inr (Or.inr h)
    · have hle := cnt_le P ds
      have hcn := hcnt p ds hds
      have hpps : p ∈ ps := by
        refine Classical.byContradiction fun hn => ?_
        simp only [hn, if_false] at hcn; omega
      simp only [hpps, if_true] at hcn
      refine Or.inl ((hmem p).mpr (Or.inl ⟨hpps, ?_⟩))
      rw [hi.need_eq p ds hds]
      congr 1; omega
  · intro p hp
    rcases hi.roots_seen p hp with h | h
    · exact Or.inl (List.mem_cons_of_mem _ h)
    · rcases List.mem_cons.mp h with rfl | h
      · exact Or.inl (by simp)
      · exact Or.inr h

/-! ### phase 1: the roots -/

theorem ndRoots_inv {deps dnts : Graph} (wf : NdWF deps dnts) : ∀ (ks P : List Key) (need : List (Key × Int))
    (cur : List Key), NdInv deps P need cur ks → ks.Nodup → (∀ k ∈ ks, k ∉ P ∧ deps.lookup k = some []) →
    ∃ need' cur', ndRoots dnts ks need cur = some (need', cur') ∧ NdInv deps (ks.reverse ++ P) need' cur' []
  | [], P, need, cur, hi, _, _ => ⟨need, cur, by simp [ndRoots], by simpa using hi⟩
  | k :: ks, P, need, cur, hi, hn, hk => by
    have hn' := List.nodup_cons.mp hn
    obtain ⟨hkP, hk0⟩ := hk k (by simp)
    have hkk : k ∈ deps.map Prod.fst := lookup_some_mem_keys deps k [] hk0
    obtain ⟨ps, hps⟩ := wf.dntsDom k hkk
    have hkc : k ∉ cur := by
      intro hc
      obtain ⟨_, ds, hds, hne, _⟩ := hi.cur_ready k hc
      rw [hk0] at hds; cases hds; exact hne rfl
    obtain ⟨need1, cur1, hrel, hi1⟩ := process_inv wf hi hkP hkc hkk hps (by
      intro ds hds; rw [hk0] at hds; cases hds; simp [cnt])
    obtain ⟨need2, cur2, hrest, hi2⟩ := ndRoots_inv wf ks (k :: P) need1 cur1 hi1 hn'.2 (by
      intro k' hk'
      have hne : k' ≠ k := fun e => hn'.1 (e ▸ hk')
      exact ⟨by simp [hne, (hk k' (List.mem_cons_of_mem _ hk')).1], (hk k' (List.mem_cons_of_mem _ hk')).2⟩)
    refine ⟨need2, cur2, ?_, ?_⟩
    · unfold ndRoots
      simp only [hps, hrel]
      exact hrest
    · simpa using hi2

/-! ### phase 2: the `while current:` loop -/

theorem sumTotals_isSome (r : List (Key × Nat)) : ∀ ds : List Key, (∀ d ∈ ds, d ∈ r.map Prod.fst) →
    ∃ s, sumTotals r ds = some s
  | [], _ => ⟨0, rfl⟩
  | c :: cs, h => by
    obtain ⟨b, hb⟩ := sumTotals_isSome r cs (fun d hd => h d (List.mem_cons_of_mem _ hd))
    have hc := (lookup_isSome_iff_mem_keys r c).mpr (h c (by simp))
    obtain ⟨a, ha⟩ := Option.isSome_iff_exists.mp hc
    exact ⟨a + b, by simp [sumTotals, ha, hb]⟩

theorem ndLoop_complete {deps dnts : Graph} (wf : NdWF deps dnts) : ∀ (fuel : Nat) (st : NdSt),
    NdInv deps (st.result.map Prod.fst) st.need st.current [] →
    (deps.map Prod.fst).length < fuel + (st.result.map Prod.fst).length →
    ∃ total need', ndLoop deps dnts fuel st = some (some total) ∧ NdInv deps (total.map Prod.fst) need' [] []
  | 0, st, hi, hf => by
    exfalso
    have := List.Nodup.length_le_of_subset hi.P_nodup (fun x hx => hi.P_keys x hx)
    omega
  | fuel + 1, st, hi, hf => by
    unfold ndLoop
    cases hcur : st.current with
    | nil =>
      refine ⟨st.result, st.need, rfl, ?_⟩
      rw [hcur] at hi; exact hi
    | cons key rest =>
      simp only
      rw [hcur] at hi
      obtain ⟨hkP, ds, hds, hne, hc⟩ := hi.cur_ready key (by simp)
      have hkk : key ∈ deps.map Prod.fst := lookup_some_mem_keys deps key ds hds
      have hcn := List.nodup_cons.mp hi.cur_nodup
      obtain ⟨s, hs⟩ := sumTotals_isSome st.result ds ((cnt_eq_length_iff _ ds).mp hc)
      obtain ⟨ps, hps⟩ := wf.dntsDom key hkk
      have hi' : NdInv deps (st.result.map Prod.fst) st.need rest [key] := by
        refine ⟨hi.need_eq, fun p hp => hi.cur_ready p (List.mem_cons_of_mem _ hp), hcn.2, hi.P_nodup, hi.P_keys,
          hi.P_closed, ?_, ?_⟩
        · intro p ds' h1 h2 h3
          rcases hi.ready_seen p ds' h1 h2 h3 with h | h | h
          · rcases List.mem_cons.mp h with rfl | h
            · exact Or.inr (Or.inr (by simp))
            · exact Or.inl h
          · exact Or.inr (Or.inl h)
          · simp at h
        · intro p hp
          rcases hi.roots_seen p hp with h | h
          · exact Or.inl h
          · simp at h
      obtain ⟨need1, cur1, hrel, hi1⟩ := process_inv wf hi' hkP hcn.1 hkk hps (by
        intro ds' hds'; rw [hds] at hds'; cases hds'; exact hc)
      simp only [hds, hs, hps, hrel]
      have hkeys : (rset st.result key (1 + s)).map Prod.fst = key :: st.result.map Prod.fst := by
        rw [rset_keys]; simp [hkP]
      have hlt : (st.result.map Prod.fst).length < (deps.map Prod.fst).length :=
        length_lt_of_missing hi.P_nodup hi.P_keys hkk hkP
      apply ndLoop_complete wf fuel
      · simp only [hkeys]; exact hi1
      · simp only [hkeys, List.length_cons]; omega

/-! ### on a DAG every key is processed -/

theorem all_processed {deps : Graph} {P : List Key} {need : List (Key × Int)} (hi : NdInv deps P need [] []) :
    ∀ ys : List Key, (∀ pre k post, ys = pre ++ k :: post → ∀ d, Edge deps k d → d ∈ post) →
    (∀ k ∈ ys, k ∈ deps.map Prod.fst) → ∀ k ∈ ys, k ∈ P
  | [], _, _, k, hk => by simp at hk
  | y :: l, h, hk, k, hkm => by
    have ih := all_processed hi l (fun pre k' post e d hd => h (y :: pre) k' post (by simp [e]) d hd)
      (fun k' hk' => hk k' (List.mem_cons_of_mem _ hk'))
    rcases List.mem_cons.mp hkm with rfl | hkm
    · obtain ⟨ds, hds⟩ := Option.isSome_iff_exists.mp ((lookup_isSome_iff_mem_keys deps k).mpr (hk k (by simp)))
      have hall : ∀ d ∈ ds, d ∈ P := fun d hd => ih d (h [] k l rfl d ⟨ds, hds, hd⟩)
      have hc := (cnt_eq_length_iff P ds).mpr hall
      by_cases hne : ds = []
      · subst hne
        rcases hi.roots_seen k hds with h' | h'
        · exact h'
        · simp at h'
      · rcases hi.ready_seen k ds hds hne hc with h' | h' | h'
        · simp at h'
        · exact h'
        · simp at h'
    · exact ih k hkm

theorem lookup_map_values {β γ : Type} (f : β → γ) : ∀ (l : List (Key × β)) (k : Key),
    (l.map (fun e => (e.1, f e.2))).lookup k = (l.lookup k).map f
  | [], _ => rfl
  | (k0, v0) :: rest, k => by
    simp only [List.map_cons, List.lookup]
    cases (k == k0)
    · exact lookup_map_values f rest k
    · rfl

theorem mem_of_lookup_some {β : Type} : ∀ (l : List (Key × β)) (k : Key) (v : β), l.lookup k = some v → (k, v) ∈ l
  | [], _, _, h => by simp at h
  | (k0, v0) :: rest, k, v, h => by
    simp only [List.lookup] at h
    split at h
    · rename_i heq
      have : k = k0 := by simpa using heq
      cases h; subst this; simp
    · exact List.mem_cons_of_mem _ (mem_of_lookup_some rest k v h)

/-- a closed acyclic graph with duplicate-free keys has a topological listing of all its keys (from C07) -/
theorem exists_topo_listing (deps : Graph) (hn : (deps.map Prod.fst).Nodup)
    (hcl : ∀ k ds, deps.lookup k = some ds → ∀ d ∈ ds, d ∈ deps.map Prod.fst) (hac : ∀ k, ¬ Path deps k k) :
    ∃ ys : List Key, (∀ pre k post, ys = pre ++ k :: post → ∀ d, Edge deps k d → d ∈ post) ∧
      (∀ k ∈ ys, k ∈ deps.map Prod.fst) ∧ ∀ k ∈ deps.map Prod.fst, k ∈ ys := by
  have hclosed : Closed deps := by
    rintro a b ⟨ds, h1, h2⟩
    exact (lookup_isSome_iff_mem_keys deps b).mpr (hcl a ds h1 b h2)
  have hk : ∀ k ∈ deps.map Prod.fst, (deps? deps k).isSome :=
    fun k hk => (lookup_isSome_iff_mem_keys deps k).mpr hk
  rcases Dask.C07.toposort_total deps (deps.map Prod.fst) hclosed hn hk with ⟨xs, hx⟩ | ⟨c, hc⟩
  · refine ⟨xs.reverse, ?_, ?_, ?_⟩
    · intro pre k post e d hd
      have e' : xs = post.reverse ++ k :: pre.reverse := by
        have := congrArg List.reverse e
        simpa using this
      have := Dask.C07.toposort_respects_deps hx post.reverse k pre.reverse e' d hd
      simpa using this
    · intro k hkm
      have hr := (Dask.C07.toposort_mem_iff_reach hx k).mp (List.mem_reverse.mp hkm)
      clear hkm
      induction hr with
      | start h => exact h
      | step _ e _ => obtain ⟨ds, h1, h2⟩ := e; exact hcl _ ds h1 _ h2
    · intro k hkm
      exact List.mem_reverse.mpr (Dask.C07.toposort_contains_keys hx k hkm)
  · obtain ⟨k, _, hp⟩ := Dask.C07.toposort_cycle_reachable_cycle hc
    exact absurd hp (hac k)

/-- **totality of `ndependencies`** on consistent inputs, with the fuel the driver uses: no KeyError, no fuel
    exhaustion; and the final state satisfies the counting invariant with an empty stack -/
theorem ndependencies_total {deps dnts : Graph} (wf : NdWF deps dnts) :
    ∃ total need', ndependencies deps dnts (ndFuel deps) =
        some (.ok (deps.map (fun e => (e.1, e.2.length))) total) ∧
      NdInv deps (total.map Prod.fst) need' [] [] := by
  have hroots := ndRootKeys_no_edges deps wf.keysNodup
  have hi0 : NdInv deps [] (deps.map (fun e => (e.1, (e.2.length : Int)))) [] (ndRootKeys deps) := by
    refine ⟨?_, by simp, by simp, by simp, by simp, by simp, ?_, ?_⟩
    · intro p ds hds
      rw [lookup_map_values (fun ds : List Key => (ds.length : Int)), hds]
      simp [cnt_nil]
    · intro p ds _ hne hc
      rw [cnt_nil] at hc
      exact absurd (List.length_eq_zero_iff.mp hc.symm) hne
    · intro p hp
      right
      unfold ndRootKeys
      exact List.mem_map.mpr ⟨(p, []), List.mem_filter.mpr ⟨mem_of_lookup_some deps p [] hp, by simp⟩, rfl⟩
  obtain ⟨need1, cur1, h1, hi1⟩ := ndRoots_inv wf (ndRootKeys deps) [] _ [] hi0 (ndRootKeys_nodup deps wf.keysNodup)
    (fun k hk => ⟨by simp, hroots k hk⟩)
  have hkeys : ((ndRootKeys deps).map (fun k => (k, 1))).reverse.map Prod.fst = (ndRootKeys deps).reverse := by
    rw [List.map_reverse, List.map_map]
    congr 1
    exact List.map_id'' (fun _ => rfl) _
  obtain ⟨total, need', h2, hi2⟩ := ndLoop_complete wf (ndFuel deps)
    { need := need1, result := ((ndRootKeys deps).map (fun k => (k, 1))).reverse, current := cur1 }
    (by simp only [hkeys]; simpa using hi1)
    (by simp only [ndFuel, List.length_map]; omega)
  refine ⟨total, need', ?_, hi2⟩
  unfold ndependencies
  simp only [h1, h2]

/-- **completeness**: on an acyclic consistent input every key receives a total -/
theorem ndependencies_complete {deps dnts : Graph} (wf : NdWF deps dnts) (hac : ∀ k, ¬ Path deps k k) :
    ∃ total, ndependencies deps dnts (ndFuel deps) = some (.ok (deps.map (fun e => (e.1, e.2.length))) total) ∧
      ∀ k ∈ deps.map Prod.fst, k ∈ total.map Prod.fst := by
  obtain ⟨total, need', h, hi⟩ := ndependencies_total wf
  obtain ⟨ys, h1, h2, h3⟩ := exists_topo_listing deps wf.keysNodup wf.closed hac
  exact ⟨total, h, fun k hk => all_processed hi ys h1 h2 k (h3 k hk)⟩

/-! ### the mappings `order` hands over after the normalisation loop are consistent -/

theorem lookup_map_self_iff {β : Type} (f : Key → β) (l : List Key) (k : Key) (v : β) :
    (l.map (fun k => (k, f k))).lookup k = some v ↔ k ∈ l ∧ v = f k := by
  constructor
  · intro h
    have hk : k ∈ (l.map (fun k => (k, f k))).map Prod.fst :=
      (lookup_isSome_iff_mem_keys _ k).mp (by simp [h])
    have hk' : k ∈ l := by
      rw [List.map_map] at hk
      obtain ⟨x, hx, rfl⟩ := List.mem_map.mp hk
      exact hx
    rw [lookup_map_self f l k hk'] at h
    exact ⟨hk', by cases h; rfl⟩
  · rintro ⟨hk, rfl⟩
    exact lookup_map_self f l k hk

theorem edge_aliveDeps_iff (g : Graph) (st : StripSt) (a b : Key) :
    Edge (aliveDeps g st) a b ↔ a ∈ st.alive ∧ b ∈ curDeps g st a := by
  unfold Edge deps? aliveDeps
  constructor
  · rintro ⟨ds, h1, h2⟩
    obtain ⟨ha, rfl⟩ := (lookup_map_self_iff (fun k => curDeps g st k) st.alive a ds).mp h1
    exact ⟨ha, h2⟩
  · rintro ⟨ha, hb⟩
    exact ⟨_, lookup_map_self (fun k => curDeps g st k) st.alive a ha, hb⟩

/-- an edge of the normalised graph is an edge of the original one -/
theorem edge_of_alive {g : Graph} {st : StripSt} (hi : SInv g st) {a b : Key} (e : Edge (aliveDeps g st) a b) :
    Edge g a b := by
  obtain ⟨ha, hb⟩ := (edge_aliveDeps_iff g st a b).mp e
  rw [curDeps_eq, List.mem_filter] at hb
  obtain ⟨ds, hds⟩ := Option.isSome_iff_exists.mp ((lookup_isSome_iff_mem_keys g a).mpr (hi.aliveKeys a ha))
  refine ⟨ds, hds, ?_⟩
  have := hb.1
  simpa [depsOf, hds] using this

theorem path_of_alive {g : Graph} {st : StripSt} (hi : SInv g st) {a b : Key} (p : Path (aliveDeps g st) a b) :
    Path g a b := by
  induction p with
  | single e => exact Path.single (edge_of_alive hi e)
  | cons e _ ih => exact Path.cons (edge_of_alive hi e) ih

theorem alive_wf {g : Graph} {st : StripSt} (hi : SInv g st) (hdn : ∀ k, (depsOf g k).Nodup)
    (hcl : ∀ k, ∀ d ∈ depsOf g k, d ∈ g.map Prod.fst) : NdWF (aliveDeps g st) (aliveDependents g st) := by
  refine ⟨?_, ?_, ?_, ?_, ?_, ?_⟩
  · rw [aliveDeps_keys]; exact hi.aliveNodup
  · intro k ds h
    obtain ⟨_, rfl⟩ := (lookup_map_self_iff (fun k => curDeps g st k) st.alive k ds).mp h
    rw [curDeps_eq]; exact (hdn k).filter _
  · intro k ds h d hd
    obtain ⟨_, rfl⟩ := (lookup_map_self_iff (fun k => curDeps g st k) st.alive k ds).mp h
    rw [curDeps_eq, List.mem_filter] at hd
    rw [aliveDeps_keys]
    rcases hi.cover d (hcl k d hd.1) with h' | h'
    · exact h'
    · have := hd.2; simp [h'] at this
  · intro k hk
    rw [aliveDeps_keys] at hk
    exact ⟨_, lookup_map_self (fun k => curDependents g st k) st.alive k hk⟩
  · intro k ps h
    obtain ⟨_, rfl⟩ := (lookup_map_self_iff (fun k => curDependents g st k) st.alive k ps).mp h
    exact hi.aliveNodup.filter _
  · intro k ps h p
    obtain ⟨hk, rfl⟩ := (lookup_map_self_iff (fun k => curDependents g st k) st.alive k ps).mp h
    rw [mem_curDependents, edge_aliveDeps_iff, curDeps_eq, List.mem_filter]
    have : k ∉ st.removed := hi.disj k hk
    constructor
    · rintro ⟨h1, h2⟩; exact ⟨h1, h2, by simpa using this⟩
    · rintro ⟨h1, h2, _⟩; exact ⟨h1, h2⟩

end Dask.Order
