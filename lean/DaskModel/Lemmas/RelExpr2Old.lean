/- Extension round (C43): the old single-source fragment inside the new language — `den2` of an expression that
   `toOld` translates is the old `den` with row identities `i ↦ [j, i]`; hence the old proved checker is a sound leaf
   oracle of the new one. -/
import DaskModel.Lemmas.RelExpr2Sound
import DaskModel.Props.C43
namespace Dask.RelExpr2
open Dask.RelExpr (Cell BinOp getCell colIdx b2c notC Src)

def liftRow {α} (j : Nat) (ir : Nat × α) : RId × α := ([j, ir.1], ir.2)

def liftVal (j : Nat) : Dask.RelExpr.Val → Val2
  | .frame cols rows => .frame cols (rows.map (liftRow j))
  | .series rows => .series (rows.map (liftRow j))
  | .scalar c => .scalar c

theorem ids_lift {α} (j : Nat) (rows : List (Nat × α)) : ids (rows.map (liftRow j)) = (Dask.RelExpr.ids rows).map (fun i => [j, i]) := by
  simp [ids, Dask.RelExpr.ids, liftRow, List.map_map, Function.comp_def]

theorem ids_lift_beq {α β} (j : Nat) (xs : List (Nat × α)) (ys : List (Nat × β)) :
    (ids (xs.map (liftRow j)) == ids (ys.map (liftRow j))) = (Dask.RelExpr.ids xs == Dask.RelExpr.ids ys) := by
  rw [ids_lift, ids_lift]
  have hinj : ∀ a b : Nat, [j, a] = [j, b] → a = b := by intro a b h; simpa using h
  by_cases h : Dask.RelExpr.ids xs = Dask.RelExpr.ids ys
  · rw [h, beq_self_eq_true, beq_self_eq_true]
  · have : ¬ (Dask.RelExpr.ids xs).map (fun i => [j, i]) = (Dask.RelExpr.ids ys).map (fun i => [j, i]) := by
      intro he
      exact h ((List.map_inj_right hinj).mp he)
    rw [beq_eq_false_iff_ne.mpr this, beq_eq_false_iff_ne.mpr h]

theorem keepRows_lift {α} (j : Nat) (rows : List (Nat × α)) (ps : List (Nat × Cell)) :
    keepRows (rows.map (liftRow j)) (ps.map (liftRow j)) =
    ((rows.zip ps).filterMap (fun (r, q) => if q.2 == some 1 then some r else none)).map (liftRow j) := by
  unfold keepRows
  induction rows generalizing ps with
  | nil => simp
  | cons r rs ih =>
    cases ps with
    | nil => simp
    | cons q qs =>
      simp only [List.map_cons, List.zip_cons_cons, List.filterMap_cons]
      by_cases hq : (q.2 == some 1) = true
      · simp only [liftRow, hq, if_true, List.map_cons]
        rw [← ih qs]
      · simp only [liftRow, hq, Bool.false_eq_true, if_false]
        rw [← ih qs]

theorem zipmap_lift {α β γ} (j : Nat) (rows : List (Nat × α)) (vs : List (Nat × β)) (g : α → β → γ) :
    ((rows.map (liftRow j)).zip (vs.map (liftRow j))).map (fun rq => (rq.1.1, g rq.1.2 rq.2.2)) =
    ((rows.zip vs).map (fun (r, q) => (r.1, g r.2 q.2))).map (liftRow j) := by
  induction rows generalizing vs with
  | nil => simp
  | cons r rs ih =>
    cases vs with
    | nil => simp
    | cons q qs =>
      simp only [List.map_cons, List.zip_cons_cons]
      rw [ih qs]; rfl

theorem isLit_some {e : E2} {k : Int} (h : isLit e = some k) : e = .lit k := by
  cases e <;> simp [isLit] at h
  subst h; rfl

theorem map_lift_map {α β} (j : Nat) (rows : List (Nat × α)) (g : α → β) :
    (rows.map (liftRow j)).map (fun ir => (ir.1, g ir.2)) = (rows.map (fun (i, r) => (i, g r))).map (liftRow j) := by
  simp [List.map_map, Function.comp_def, liftRow]

open Dask.RelExpr in
/-- the embedding: on the old fragment `den2` is the old `den` with lifted row identities -/
theorem toOld_den (ss : List Src) : ∀ (e : E2) (j : Nat) (e0 : E) (s : Src), toOld e = some (j, e0) → ss[j]? = some s →
    den2 ss e = (den s e0).map (liftVal j) := by
  intro e
  induction e with
  | src k =>
    intro j e0 s h hs
    simp only [toOld, Option.some.injEq, Prod.mk.injEq] at h
    obtain ⟨rfl, rfl⟩ := h
    simp [den2, hs, den, srcV, liftVal, liftRow, List.map_map, Function.comp_def]
  | proj cs f ih =>
    intro j e0 s h hs
    simp only [toOld, Option.map_eq_some_iff] at h
    obtain ⟨⟨j', f0⟩, hf, heq⟩ := h
    simp only [Prod.mk.injEq] at heq
    obtain ⟨rfl, rfl⟩ := heq
    simp only [den2, ih _ _ s hf hs, den]
    cases hd : den s f0 with
    | none => rfl
    | some v =>
      cases v with
      | frame cols rows =>
        simp only [Option.map_some, Option.bind_some, liftVal, projV, hasCols]
        by_cases hg : (cs.all fun c => (colIdx cols c).isSome) = true
        · simp only [hg, if_true, Option.map_some, liftVal, map_lift_map _ rows (fun r => cs.map (getCell cols r))]
        · simp [hg]
      | series _ => rfl
      | scalar _ => rfl
  | col f n ih =>
    intro j e0 s h hs
    simp only [toOld, Option.map_eq_some_iff] at h
    obtain ⟨⟨j', f0⟩, hf, heq⟩ := h
    simp only [Prod.mk.injEq] at heq
    obtain ⟨rfl, rfl⟩ := heq
    simp only [den2, ih _ _ s hf hs, den]
    cases hd : den s f0 with
    | none => rfl
    | some v =>
      cases v with
      | frame cols rows =>
        simp only [Option.map_some, Option.bind_some, liftVal, colV]
        by_cases hg : (colIdx cols n).isSome = true
        · simp only [hg, if_true, Option.map_some, liftVal, map_lift_map _ rows (fun r => getCell cols r n)]
        · simp [hg]
      | series _ => rfl
      | scalar _ => rfl
  | filter f p ihf ihp =>
    intro j e0 s h hs
    simp only [toOld, Option.bind_eq_some_iff] at h
    obtain ⟨⟨jf, f0⟩, hf, ⟨jp, p0⟩, hp, hif⟩ := h
    split at hif
    · rename_i hj
      simp only [Option.some.injEq, Prod.mk.injEq] at hif
      obtain ⟨rfl, rfl⟩ := hif
      have hj' : jp = jf := hj.symm
      subst hj'
      simp only [den2, ihf _ _ s hf hs, ihp _ _ s hp hs, den]
      cases hdf : den s f0 with
      | none => rfl
      | some vf =>
        cases hdp : den s p0 with
        | none => cases vf <;> rfl
        | some vp =>
          cases vf with
          | frame cols rows =>
            cases vp with
            | series ps =>
              simp only [Option.map_some, Option.bind_some, liftVal, filterV, ids_lift_beq]
              by_cases hg : (Dask.RelExpr.ids rows == Dask.RelExpr.ids ps) = true
              · simp only [hg, if_true, Option.map_some, liftVal, keepRows_lift]
              · simp [hg]
            | frame _ _ => rfl
            | scalar _ => rfl
          | series xs =>
            cases vp with
            | series ps =>
              simp only [Option.map_some, Option.bind_some, liftVal, filterV, ids_lift_beq]
              by_cases hg : (Dask.RelExpr.ids xs == Dask.RelExpr.ids ps) = true
              · simp only [hg, if_true, Option.map_some, liftVal, keepRows_lift]
              · simp [hg]
            | frame _ _ => rfl
            | scalar _ => rfl
          | scalar _ => cases vp <;> rfl
    · simp at hif
  | lit k => intro j e0 s h; simp [toOld] at h
  | not a ih =>
    intro j e0 s h hs
    simp only [toOld, Option.map_eq_some_iff] at h
    obtain ⟨⟨j', a0⟩, ha, heq⟩ := h
    simp only [Prod.mk.injEq] at heq
    obtain ⟨rfl, rfl⟩ := heq
    simp only [den2, ih _ _ s ha hs, den]
    cases hd : den s a0 with
    | none => rfl
    | some v =>
      cases v with
      | frame _ _ => rfl
      | series xs => simp [liftVal, notV, List.map_map, Function.comp_def, liftRow]
      | scalar _ => rfl
  | merge _ _ _ _ _ _ => intro j e0 s h; simp [toOld] at h
  | concat _ _ _ _ => intro j e0 s h; simp [toOld] at h
  | index _ _ => intro j e0 s h; simp [toOld] at h
  | len _ _ => intro j e0 s h; simp [toOld] at h
  | assign f n v ihf ihv =>
    intro j e0 s h hs
    simp only [toOld, Option.bind_eq_some_iff] at h
    obtain ⟨⟨jf, f0⟩, hf, hm⟩ := h
    cases hl : isLit v with
    | some k =>
      have hv : v = .lit k := isLit_some hl
      subst hv
      simp only [hl, Option.some.injEq, Prod.mk.injEq] at hm
      obtain ⟨rfl, rfl⟩ := hm
      simp only [den2, ihf _ _ s hf hs, den]
      cases hdf : den s f0 with
      | none => rfl
      | some vf =>
        cases vf with
        | frame cols rows =>
          simp only [Option.map_some, Option.bind_some, liftVal, assignV]
          cases hc : colIdx cols n with
          | none => simp [liftVal, List.map_map, Function.comp_def, liftRow]
          | some i => simp [liftVal, List.map_map, Function.comp_def, liftRow]
        | series _ => rfl
        | scalar _ => rfl
    | none =>
      simp only [hl, Option.bind_eq_some_iff] at hm
      obtain ⟨⟨jv, v0⟩, hv, hif⟩ := hm
      split at hif
      · rename_i hj
        simp only [Option.some.injEq, Prod.mk.injEq] at hif
        obtain ⟨rfl, rfl⟩ := hif
        have hj' : jv = jf := hj.symm
        subst hj'
        simp only [den2, ihf _ _ s hf hs, ihv _ _ s hv hs, den]
        cases hdf : den s f0 with
        | none => rfl
        | some vf =>
          cases hdv : den s v0 with
          | none => cases vf <;> rfl
          | some vv =>
            cases vf with
            | frame cols rows =>
              cases vv with
              | series vs =>
                simp only [Option.map_some, Option.bind_some, liftVal, assignV, ids_lift_beq]
                by_cases hg : (Dask.RelExpr.ids rows == Dask.RelExpr.ids vs) = true
                · simp only [hg, if_true]
                  cases hc : colIdx cols n with
                  | none => simp only [Option.map_some, liftVal, zipmap_lift jv rows vs (fun r q => r ++ [q])]
                  | some i => simp only [Option.map_some, liftVal, zipmap_lift jv rows vs (fun r q => r.set i q)]
                · simp [hg]
              | scalar c =>
                simp only [Option.map_some, Option.bind_some, liftVal, assignV]
                cases hc : colIdx cols n with
                | none => simp [liftVal, List.map_map, Function.comp_def, liftRow]
                | some i => simp [liftVal, List.map_map, Function.comp_def, liftRow]
              | frame _ _ => rfl
            | series _ => cases vv <;> rfl
            | scalar _ => cases vv <;> rfl
      · simp at hif
  | bin op a b iha ihb =>
    intro j e0 s h hs
    simp only [toOld] at h
    cases hlb : isLit b with
    | some k =>
      have hb : b = .lit k := isLit_some hlb
      subst hb
      simp only [hlb, Option.map_eq_some_iff] at h
      obtain ⟨⟨ja, a0⟩, ha, heq⟩ := h
      simp only [Prod.mk.injEq] at heq
      obtain ⟨rfl, rfl⟩ := heq
      simp only [den2, iha _ _ s ha hs, den]
      cases hd : den s a0 with
      | none => rfl
      | some v =>
        cases v with
        | frame _ _ => rfl
        | series xs => simp [liftVal, binV, List.map_map, Function.comp_def, liftRow]
        | scalar c => simp [liftVal, binV]
    | none =>
      cases hla : isLit a with
      | some k =>
        have ha : a = .lit k := isLit_some hla
        subst ha
        simp only [hlb, hla, Option.map_eq_some_iff] at h
        obtain ⟨⟨jb, b0⟩, hb, heq⟩ := h
        simp only [Prod.mk.injEq] at heq
        obtain ⟨rfl, rfl⟩ := heq
        simp only [den2, ihb _ _ s hb hs, den]
        cases hd : den s b0 with
        | none => rfl
        | some v =>
          cases v with
          | frame _ _ => rfl
          | series xs => simp [liftVal, binV, List.map_map, Function.comp_def, liftRow]
          | scalar c => simp [liftVal, binV]
      | none =>
        simp only [hlb, hla, Option.bind_eq_some_iff] at h
        obtain ⟨⟨ja, a0⟩, ha, ⟨jb, b0⟩, hb, hif⟩ := h
        split at hif
        · rename_i hj
          simp only [Option.some.injEq, Prod.mk.injEq] at hif
          obtain ⟨rfl, rfl⟩ := hif
          have hj' : jb = ja := hj.symm
          subst hj'
          simp only [den2, iha _ _ s ha hs, ihb _ _ s hb hs, den]
          cases hda : den s a0 with
          | none => rfl
          | some va =>
            cases hdb : den s b0 with
            | none => cases va <;> rfl
            | some vb =>
              cases va with
              | frame _ _ => cases vb <;> rfl
              | series xs =>
                cases vb with
                | series ys =>
                  simp only [Option.map_some, Option.bind_some, liftVal, binV, ids_lift_beq]
                  by_cases hg : (Dask.RelExpr.ids xs == Dask.RelExpr.ids ys) = true
                  · simp only [hg, if_true, Option.map_some, liftVal, zipmap_lift jb xs ys (fun x y => op.app x y)]
                  · simp [hg]
                | scalar c => simp [liftVal, binV, List.map_map, Function.comp_def, liftRow]
                | frame _ _ => rfl
              | scalar c =>
                cases vb with
                | series ys => simp [liftVal, binV, List.map_map, Function.comp_def, liftRow]
                | scalar d => simp [liftVal, binV]
                | frame _ _ => rfl
        · simp at hif

/-- the old proved checker, applied to sub-steps inside the old fragment, is a sound leaf oracle -/
theorem oldOK_sound (ss : List Src) (hwf : ∀ s ∈ ss, Dask.C43.WF s) (a b : E2)
    (h : oldOK (ss.map (·.cols)) a b = true) : den2 ss a = den2 ss b := by
  unfold oldOK at h
  split at h
  · rename_i j a0 j' b0 ha hb
    simp only [Bool.and_eq_true, beq_iff_eq] at h
    obtain ⟨rfl, h⟩ := h
    simp only [List.getElem?_map] at h
    cases hs : ss[j]? with
    | none => simp [hs] at h
    | some s =>
      simp only [hs, Option.map_some] at h
      have hmem : s ∈ ss := List.mem_of_getElem? hs
      rw [toOld_den ss a j a0 s ha hs, toOld_den ss b j b0 s hb hs,
        Dask.C43.checkStep_sound s (hwf s hmem) a0 b0 h]
  · simp at h

end Dask.RelExpr2
