import DaskModel.Model.BagOps
import DaskModel.Lemmas.BagReduce
/-! Helper lemmas for C48 `foldby`: association lists as Python dicts, `reduceby`, merging dicts, and the
invariant principle for the plain (no `empty_safe_*`) tree. -/
namespace Dask.BagOps
open Dask.BagReduce

/-! ### the plain tree -/

section Plain
variable {α β : Type} (R : List α → β → Prop)

theorem plainLoop_inv (agg : List β → β)
    (hagg : ∀ (qs : List (List α)) (rs : List β), All2 R qs rs → R qs.flatten (agg rs))
    (se : Nat) (hse : 0 < se) (fuel : Nat) {qs : List (List α)} {xs : List β} (h : All2 R qs xs)
    {ys : List β} (hl : plainLoop agg se fuel xs = some ys) :
    ∃ qs', All2 R qs' ys ∧ qs'.flatten = qs.flatten := by
  induction fuel generalizing qs xs with
  | zero => simp [plainLoop] at hl
  | succ fuel ih =>
    simp only [plainLoop] at hl
    split at hl
    · have hlen := h.length_eq
      have hp : All2 (All2 R) (partitionAll se qs) (partitionAll se xs) := by
        simp only [partitionAll, hlen]; exact h.partitionAllF se _
      have hlev : All2 R ((partitionAll se qs).map List.flatten) ((partitionAll se xs).map agg) := by
        generalize partitionAll se qs = qss at hp
        generalize partitionAll se xs = xss at hp
        induction hp with
        | nil => exact .nil
        | cons hg _ ih2 => exact .cons (hagg _ _ hg) ih2
      obtain ⟨qs', h1, h2⟩ := ih hlev hl
      refine ⟨qs', h1, ?_⟩
      rw [h2, ← List.flatten_flatten]
      exact congrArg List.flatten (partitionAll_flatten se hse qs)
    · cases hl; exact ⟨qs, h, rfl⟩

theorem plainTree_inv (agg : List β → β)
    (hagg : ∀ (qs : List (List α)) (rs : List β), All2 R qs rs → R qs.flatten (agg rs))
    (se : Nat) {qs : List (List α)} {xs : List β} (h : All2 R qs xs) (r : β) (ht : plainTree agg se xs = some r) :
    R qs.flatten r := by
  simp only [plainTree] at ht
  split at ht
  · cases ht
  · next hc =>
    simp only [Option.map_eq_some_iff] at ht
    obtain ⟨ys, hl, rfl⟩ := ht
    by_cases hx : xs = []
    · subst hx
      cases h
      simp only [List.length_nil, Nat.zero_add, plainLoop] at hl
      split at hl
      · next hlt => simp at hlt
      · cases hl; exact hagg [] [] .nil
    · have hse : 0 < se := by
        have : 0 < xs.length := List.length_pos_iff.mpr hx
        omega
      obtain ⟨qs', h1, h2⟩ := plainLoop_inv R agg hagg se hse _ h hl
      rw [← h2]; exact hagg _ _ h1

theorem plainLoop_terminates (agg : List β → β) (se fuel : Nat) (xs : List β) (hse : 2 ≤ se ∨ xs.length ≤ se)
    (hf : xs.length < fuel) : (plainLoop agg se fuel xs).isSome := by
  induction fuel generalizing xs with
  | zero => omega
  | succ fuel ih =>
    simp only [plainLoop]
    split
    · next hlt =>
      have hse2 : 2 ≤ se := by omega
      have h1 := partitionAllF_length se (by omega) xs.length xs (Nat.le_refl _)
      have h2 : (partitionAll se xs).length * 2 ≤ (partitionAll se xs).length * se := Nat.mul_le_mul_left _ hse2
      apply ih _ (Or.inl hse2)
      simp only [List.length_map]
      simp only [partitionAll] at h2 ⊢
      omega
    · rfl

theorem plainTree_isSome (agg : List β → β) (se : Nat) (hse : 2 ≤ se) (xs : List β) : (plainTree agg se xs).isSome := by
  simp only [plainTree]
  split
  · omega
  · simp only [Option.isSome_map]
    exact plainLoop_terminates agg se _ xs (Or.inl hse) (by omega)

end Plain

/-! ### association lists as dicts -/

theorem lookup_alUpdate {β : Type} (k κ : Nat) (f : Option β → β) (d : List (Nat × β)) :
    (alUpdate k f d).lookup κ = if κ = k then some (f (d.lookup k)) else d.lookup κ := by
  induction d with
  | nil =>
    simp only [alUpdate, List.lookup_cons, List.lookup_nil]
    by_cases h : κ = k
    · subst h; simp
    · have : (κ == k) = false := by simpa using h
      simp [h, this]
  | cons kv rest ih =>
    obtain ⟨k', v⟩ := kv
    simp only [alUpdate]
    by_cases hk : k' = k
    · subst hk
      simp only [if_true, List.lookup_cons]
      by_cases h : κ = k'
      · subst h; simp
      · have : (κ == k') = false := by simpa using h
        simp [h, this]
    · simp only [hk, if_false, List.lookup_cons]
      by_cases h : κ = k'
      · subst h
        have h1 : κ ≠ k := hk
        have h2 : (k == κ) = false := by simpa using (Ne.symm h1)
        simp [h1, h2]
      · have h3 : (κ == k') = false := by simpa using h
        by_cases h4 : k = k'
        · exact absurd h4.symm hk
        · have h5 : (k == k') = false := by simpa using h4
          simp only [h3, h5]
          exact ih

theorem keys_alUpdate_nodup {β : Type} (k : Nat) (f : Option β → β) (d : List (Nat × β))
    (h : (d.map (·.1)).Nodup) : ((alUpdate k f d).map (·.1)).Nodup ∧
      ∀ x, x ∈ (alUpdate k f d).map (·.1) ↔ x = k ∨ x ∈ d.map (·.1) := by
  induction d with
  | nil => simp [alUpdate]
  | cons kv rest ih =>
    obtain ⟨k', v⟩ := kv
    simp only [List.map_cons, List.nodup_cons] at h
    obtain ⟨ih1, ih2⟩ := ih h.2
    simp only [alUpdate]
    by_cases hk : k' = k
    · subst hk
      simp only [if_true, List.map_cons, List.nodup_cons]
      exact ⟨h, by intro x; simp⟩
    · simp only [hk, if_false, List.map_cons, List.nodup_cons, List.mem_cons]
      refine ⟨⟨?_, ih1⟩, ?_⟩
      · intro hmem
        rcases (ih2 k').mp hmem with h1 | h1
        · exact hk h1
        · exact h.1 h1
      · intro x
        rw [ih2 x]
        constructor
        · rintro (h1 | h1 | h1)
          · exact Or.inr (Or.inl h1)
          · exact Or.inl h1
          · exact Or.inr (Or.inr h1)
        · rintro (h1 | h1 | h1)
          · exact Or.inr (Or.inl h1)
          · exact Or.inl h1
          · exact Or.inr (Or.inr h1)

/-- folding items into a dict: the entry of `κ` is the fold of the matching items, starting from the old
    entry (or the initial value) -/
theorem lookup_foldl_update {γ β : Type} (kf : γ → Nat) (op : β → γ → β) (i0 : β) (items : List γ)
    (d : List (Nat × β)) (κ : Nat) :
    (items.foldl (fun d x => alUpdate (kf x) (fun o => op (o.getD i0) x) d) d).lookup κ =
      if items.filter (fun x => kf x == κ) = [] then d.lookup κ
      else some ((items.filter (fun x => kf x == κ)).foldl op ((d.lookup κ).getD i0)) := by
  induction items generalizing d with
  | nil => simp
  | cons x xs ih =>
    simp only [List.foldl_cons, List.filter_cons]
    rw [ih]
    by_cases hx : kf x = κ
    · subst hx
      simp only [beq_self_eq_true, if_true, lookup_alUpdate, List.foldl_cons]
      by_cases hf : xs.filter (fun y => kf y == kf x) = []
      · simp [hf]
      · simp [hf]
    · have h1 : (kf x == κ) = false := by simpa using hx
      have h2 : ¬ κ = kf x := fun h => hx h.symm
      simp only [h1, Bool.false_eq_true, if_false, lookup_alUpdate, h2]

theorem foldl_update_nodup {γ β : Type} (kf : γ → Nat) (op : β → γ → β) (i0 : β) (items : List γ)
    (d : List (Nat × β)) (h : (d.map (·.1)).Nodup) :
    ((items.foldl (fun d x => alUpdate (kf x) (fun o => op (o.getD i0) x) d) d).map (·.1)).Nodup := by
  induction items generalizing d with
  | nil => simpa using h
  | cons x xs ih => simp only [List.foldl_cons]; exact ih _ (keys_alUpdate_nodup _ _ d h).1

/-- a dict with distinct keys holds at most one item per key, the one `lookup` finds -/
theorem filter_key_of_nodup {β : Type} (d : List (Nat × β)) (h : (d.map (·.1)).Nodup) (κ : Nat) :
    d.filter (fun kv => kv.1 == κ) = match d.lookup κ with | none => [] | some v => [(κ, v)] := by
  induction d with
  | nil => simp
  | cons kv rest ih =>
    obtain ⟨k, v⟩ := kv
    simp only [List.map_cons, List.nodup_cons] at h
    simp only [List.filter_cons, List.lookup_cons]
    by_cases hk : k = κ
    · subst hk
      simp only [beq_self_eq_true, if_true]
      have : rest.filter (fun kv => kv.1 == k) = [] := by
        rw [List.filter_eq_nil_iff]
        intro kv hkv hcon
        have : kv.1 = k := by simpa using hcon
        exact h.1 (List.mem_map.mpr ⟨kv, hkv, this⟩)
      simp [this]
    · have h1 : (k == κ) = false := by simpa using hk
      have h2 : (κ == k) = false := by simpa using (Ne.symm hk)
      simp only [h1, h2, Bool.false_eq_true, if_false]
      exact ih h.2

/-! ### seeded folds (`merge_with(reduce(f))`, `reduceby` without initial) -/

section Seed
variable {α β : Type}
/-- one step of a seeded left fold on an optional total -/
def seedStep {γ : Type} (op : β → γ → β) (seed : γ → β) (o : Option β) (x : γ) : Option β :=
  some (seedUpd op seed x o)

theorem lookup_foldl_seed {γ : Type} (kf : γ → Nat) (op : β → γ → β) (seed : γ → β) (items : List γ)
    (d : List (Nat × β)) (κ : Nat) :
    (items.foldl (fun d x => alUpdate (kf x) (seedUpd op seed x) d) d).lookup κ =
      (items.filter fun x => kf x == κ).foldl (seedStep op seed) (d.lookup κ) := by
  induction items generalizing d with
  | nil => simp
  | cons x xs ih =>
    simp only [List.foldl_cons, List.filter_cons]
    rw [ih]
    by_cases hx : kf x = κ
    · subst hx
      simp only [beq_self_eq_true, if_true, lookup_alUpdate, List.foldl_cons, seedStep]
    · have h1 : (kf x == κ) = false := by simpa using hx
      have h2 : ¬ κ = kf x := fun h => hx h.symm
      simp only [h1, Bool.false_eq_true, if_false, lookup_alUpdate, h2]

theorem foldl_seed_nodup {γ : Type} (kf : γ → Nat) (op : β → γ → β) (seed : γ → β) (items : List γ)
    (d : List (Nat × β)) (h : (d.map (·.1)).Nodup) :
    ((items.foldl (fun d x => alUpdate (kf x) (seedUpd op seed x) d) d).map (·.1)).Nodup := by
  induction items generalizing d with
  | nil => simpa using h
  | cons x xs ih => simp only [List.foldl_cons]; exact ih _ (keys_alUpdate_nodup _ _ d h).1

theorem foldl_seedStep_some {γ : Type} (op : β → γ → β) (seed : γ → β) (a : β) (xs : List γ) :
    xs.foldl (seedStep op seed) (some a) = some (xs.foldl op a) := by
  induction xs generalizing a with
  | nil => rfl
  | cons x xs ih => simp only [List.foldl_cons, seedStep, seedUpd]; exact ih _

/-- a seeded fold from nothing is `functools.reduce` -/
theorem foldl_seedStep_none (op : β → β → β) (xs : List β) :
    xs.foldl (seedStep op id) none = pyReduce op xs := by
  cases xs with
  | nil => rfl
  | cons x xs => simp only [List.foldl_cons, seedStep, seedUpd, id, pyReduce]; exact foldl_seedStep_some op id x xs

end Seed

end Dask.BagOps
