import DaskModel.Model.SetItemND
import DaskModel.Lemmas.SetItemPlan
/-! C21, N-d: the loop over the dimensions of a block is the conjunction of the per-axis block plans, and over all
    blocks the assigned (array position, value position) vectors are exactly the per-axis products. -/
namespace Dask.SetItemND
open Dask.Slice1D Dask.SetItem Dask.Store

/-! ### the loop over the dimensions of one block -/

/-- block index of one axis for the block `[loc0, loc1)`; `none` = the block does not overlap the index -/
def axisBI : AIdx → (Int × Int) → Option BIx
  | .sl start stop step, (loc0, loc1) => (blockSlice start stop step loc0 loc1).map fun b => BIx.sl b.bstart b.bstop step
  | .int i, (loc0, loc1) => if loc0 ≤ i ∧ i < loc1 then some (BIx.int (i - loc0)) else none
  | .arr index, (loc0, loc1) =>
    if (blockIndexInt index loc0 loc1).isEmpty then none else some (BIx.arr (blockIndexInt index loc0 loc1))

/-- (`block_index_size`, `n_preceding`) of one axis that is not indexed by an integer -/
def axisSizes : AIdx → (Int × Int) → Option (Option Int × Option Int)
  | .sl start stop step, (loc0, loc1) => (blockSlice start stop step loc0 loc1).map fun b => (some b.size, some b.npre)
  | .int _, _ => none
  | .arr _, _ => some (none, none)

/-- the per-axis block indices of one block, all axes; `none` as soon as one axis does not overlap -/
def axisBIs : List (AIdx × (Int × Int)) → Option (List BIx)
  | [] => some []
  | d :: rest =>
    match axisBI d.1 d.2, axisBIs rest with
    | some b, some bs => some (b :: bs)
    | _, _ => none

/-- **The loop is the conjunction of the axes**: it succeeds iff every axis overlaps the block, and then
    `block_indices` is the list of the per-axis block indices (in axis order). -/
theorem loopDims_blockIndices : ∀ (dims : List (AIdx × (Int × Int))) (st : LoopState),
    (loopDims dims st).map (·.blockIndices) = (axisBIs dims).map (st.blockIndices ++ ·) := by
  intro dims
  induction dims with
  | nil => intro st; simp [loopDims, axisBIs]
  | cons d rest ih =>
    intro st
    obtain ⟨idx, loc0, loc1⟩ := d
    cases idx with
    | sl start stop step =>
      simp only [loopDims, axisBIs, axisBI]
      cases hb : blockSlice start stop step loc0 loc1 with
      | none => simp
      | some b =>
        simp only [Option.map_some]
        rw [ih]
        cases axisBIs rest <;> simp
    | int i =>
      simp only [loopDims, axisBIs, axisBI]
      by_cases h : loc0 ≤ i ∧ i < loc1
      · simp only [h, and_self, if_true]
        rw [ih]
        cases axisBIs rest <;> simp
      · simp [h]
    | arr index =>
      simp only [loopDims, axisBIs, axisBI]
      by_cases h : (blockIndexInt index loc0 loc1).isEmpty
      · simp [h]
      · simp only [h, if_false, Bool.false_eq_true]
        rw [ih]
        cases axisBIs rest <;> simp

/-- …and `block_indices_shape` / `block_preceding_sizes` collect, for the axes that are not indexed by an integer,
    the per-axis `block_index_size` / `n_preceding` (in axis order). -/
theorem loopDims_sizes : ∀ (dims : List (AIdx × (Int × Int))) (st st' : LoopState), loopDims dims st = some st' →
    st'.shape = st.shape ++ (dims.filterMap fun d => (axisSizes d.1 d.2).map (·.1)) ∧
    st'.preceding = st.preceding ++ (dims.filterMap fun d => (axisSizes d.1 d.2).map (·.2)) := by
  intro dims
  induction dims with
  | nil => intro st st' h; simp only [loopDims, Option.some.injEq] at h; subst h; simp
  | cons d rest ih =>
    intro st st' h
    obtain ⟨idx, loc0, loc1⟩ := d
    cases idx with
    | sl start stop step =>
      simp only [loopDims] at h
      cases hb : blockSlice start stop step loc0 loc1 with
      | none => rw [hb] at h; cases h
      | some b =>
        rw [hb] at h
        simp only at h
        obtain ⟨h1, h2⟩ := ih _ st' h
        have e : axisSizes (AIdx.sl start stop step, (loc0, loc1)).1 (AIdx.sl start stop step, (loc0, loc1)).2
            = some (some b.size, some b.npre) := by simp [axisSizes, hb]
        simp only [List.filterMap_cons, e, Option.map_some]
        exact ⟨by rw [h1]; simp, by rw [h2]; simp⟩
    | int i =>
      simp only [loopDims] at h
      by_cases hc : loc0 ≤ i ∧ i < loc1
      · rw [if_pos hc] at h
        obtain ⟨h1, h2⟩ := ih _ st' h
        have e : axisSizes (AIdx.int i, (loc0, loc1)).1 (AIdx.int i, (loc0, loc1)).2 = none := rfl
        simp only [List.filterMap_cons, e, Option.map_none]
        exact ⟨h1, h2⟩
      · rw [if_neg hc] at h; cases h
    | arr index =>
      simp only [loopDims] at h
      by_cases hc : (blockIndexInt index loc0 loc1).isEmpty
      · rw [if_pos hc] at h; cases h
      · rw [if_neg hc] at h
        obtain ⟨h1, h2⟩ := ih _ st' h
        have e : axisSizes (AIdx.arr index, (loc0, loc1)).1 (AIdx.arr index, (loc0, loc1)).2 = some (none, none) := rfl
        simp only [List.filterMap_cons, e, Option.map_some]
        exact ⟨by rw [h1]; simp, by rw [h2]; simp⟩

/-! ### N-d: what all blocks together assign -/

/-- `NDIn Fs chunks b t`: the block with coordinates `b` contains the vector `t` — on every axis `t_k` is among
    what the axis' block `b_k` holds (`Fs_k (loc0, loc1)`) -/
def NDIn {γ : Type} : List ((Int × Int) → List γ) → List (List Nat) → List Nat → List γ → Prop
  | F :: Fs, c :: cs, k :: ks, x :: xs =>
    (∃ loc : Int × Int, (locations c)[k]? = some loc ∧ x ∈ F loc) ∧ NDIn Fs cs ks xs
  | [], [], [], [] => True
  | _, _, _, _ => False

/-- `NDAny Fs chunks t`: on every axis `t_k` is held by some block of that axis -/
def NDAny {γ : Type} : List ((Int × Int) → List γ) → List (List Nat) → List γ → Prop
  | F :: Fs, c :: cs, x :: xs => x ∈ (locations c).flatMap F ∧ NDAny Fs cs xs
  | [], [], [] => True
  | _, _, _ => False

theorem ndIn_cover {γ : Type} : ∀ (Fs : List ((Int × Int) → List γ)) (cs : List (List Nat)) (t : List γ),
    NDAny Fs cs t ↔ ∃ b, NDIn Fs cs b t := by
  intro Fs
  induction Fs with
  | nil =>
    intro cs t
    cases cs with
    | nil =>
      cases t with
      | nil => exact ⟨fun _ => ⟨[], trivial⟩, fun _ => trivial⟩
      | cons x xs =>
        constructor
        · intro h; exact absurd h (by simp [NDAny])
        · rintro ⟨b, hb⟩; cases b <;> simp [NDIn] at hb
    | cons c cs =>
      constructor
      · intro h; exact absurd h (by simp [NDAny])
      · rintro ⟨b, hb⟩; cases b <;> cases t <;> simp [NDIn] at hb
  | cons F Fs ih =>
    intro cs t
    cases cs with
    | nil =>
      constructor
      · intro h; exact absurd h (by simp [NDAny])
      · rintro ⟨b, hb⟩; cases b <;> cases t <;> simp [NDIn] at hb
    | cons c cs =>
      cases t with
      | nil =>
        constructor
        · intro h; exact absurd h (by simp [NDAny])
        · rintro ⟨b, hb⟩; cases b <;> simp [NDIn] at hb
      | cons x xs =>
        simp only [NDAny]
        rw [ih cs xs, List.mem_flatMap]
        constructor
        · rintro ⟨⟨loc, hloc, hx⟩, b, hb⟩
          obtain ⟨k, hk⟩ := List.mem_iff_getElem?.mp hloc
          exact ⟨k :: b, ⟨loc, hk, hx⟩, hb⟩
        · rintro ⟨b, hb⟩
          cases b with
          | nil => simp [NDIn] at hb
          | cons k ks =>
            simp only [NDIn] at hb
            obtain ⟨⟨loc, hk, hx⟩, hrest⟩ := hb
            exact ⟨⟨loc, List.mem_of_getElem? hk, hx⟩, ks, hrest⟩

/-- what the block `[loc0, loc1)` of one axis assigns: pairs (array position, position in the value along the
    matching value axis; `none` for an integer index, which has no value axis). `vlen` = length of that value axis. -/
def axisBlockPairs (idx : AIdx) (vlen : Nat) (loc : Int × Int) : List (Int × Option Nat) :=
  match idx with
  | .sl start stop step => (blockAssign (List.range vlen) start stop step loc.1 loc.2).map fun p => (p.1, some p.2)
  | .int i => if loc.1 ≤ i ∧ i < loc.2 then [(i, none)] else []
  | .arr index => (blockAssignInt index (List.range vlen) loc.1 loc.2).map fun p => (p.1, some p.2)

/-- NumPy's assignment along one axis: the `p`-th selected position receives value position `p` -/
def axisSelected (idx : AIdx) (vlen : Nat) : List (Int × Option Nat) :=
  match idx with
  | .sl start stop step => ((rangeUp start stop step).zip (List.range vlen)).map fun p => (p.1, some p.2)
  | .int i => [(i, none)]
  | .arr index => (index.zip (List.range vlen)).map fun p => (p.1, some p.2)

/-- well-formed parsed index on an axis with chunk lengths `c` -/
def AxisOK (c : List Nat) : AIdx → Prop
  | .sl start stop step => 0 < step ∧ 0 ≤ start ∧ start ≤ stop ∧ stop ≤ ((c.sum : Nat) : Int)
  | .int i => 0 ≤ i ∧ i < ((c.sum : Nat) : Int)
  | .arr index => ∀ v ∈ index, 0 ≤ v ∧ v < ((c.sum : Nat) : Int)

theorem int_axis_blocks (c : List Nat) (i : Int) (h0 : 0 ≤ i) (h1 : i < ((c.sum : Nat) : Int)) (x : Int × Option Nat) :
    x ∈ (locations c).flatMap (axisBlockPairs (.int i) 0) ↔ x = (i, none) := by
  simp only [List.mem_flatMap, axisBlockPairs]
  constructor
  · rintro ⟨loc, _, hx⟩
    by_cases hc : loc.1 ≤ i ∧ i < loc.2
    · rw [if_pos hc] at hx; simpa using hx
    · rw [if_neg hc] at hx; cases hx
  · rintro rfl
    obtain ⟨p, hp, hp1, hp2⟩ := locationsFrom_cover c 0 i h0 (by omega)
    exact ⟨p, hp, by rw [if_pos ⟨hp1, hp2⟩]; simp⟩

/-- one axis: over all blocks, exactly NumPy's pairs -/
theorem axis_blocks_selected (c : List Nat) (idx : AIdx) (vlen : Nat) (hok : AxisOK c idx) (x : Int × Option Nat) :
    x ∈ (locations c).flatMap (axisBlockPairs idx vlen) ↔ x ∈ axisSelected idx vlen := by
  cases idx with
  | sl start stop step =>
    obtain ⟨hs, h0, hss, hstop⟩ := hok
    have h := setitem1d_pairs (List.range vlen) c start stop step hs h0 hss hstop
    simp only [axisSelected, ← h, List.mem_map, List.mem_flatMap, axisBlockPairs]
    constructor
    · rintro ⟨loc, hloc, p, hp, rfl⟩
      exact ⟨p, ⟨loc, hloc, hp⟩, rfl⟩
    · rintro ⟨p, ⟨loc, hloc, hp⟩, rfl⟩
      exact ⟨loc, hloc, p, hp, rfl⟩
  | int i =>
    obtain ⟨h0, h1⟩ := hok
    have : ∀ (loc : Int × Int), axisBlockPairs (.int i) vlen loc = axisBlockPairs (.int i) 0 loc := fun _ => rfl
    simp only [axisSelected, List.mem_singleton]
    rw [← int_axis_blocks c i h0 h1 x]
    simp only [List.mem_flatMap, this]
  | arr index =>
    simp only [AxisOK] at hok
    simp only [axisSelected, List.mem_map, List.mem_flatMap, axisBlockPairs, blockAssignInt_eq, List.mem_filter,
      Bool.and_eq_true, decide_eq_true_eq]
    constructor
    · rintro ⟨loc, _, p, ⟨hp, _⟩, rfl⟩
      exact ⟨p, hp, rfl⟩
    · rintro ⟨p, hp, rfl⟩
      have hmem : p.1 ∈ index := (List.of_mem_zip hp).1
      obtain ⟨hv0, hv1⟩ := hok p.1 hmem
      obtain ⟨loc, hloc, hl1, hl2⟩ := locationsFrom_cover c 0 p.1 hv0 (by omega)
      exact ⟨loc, hloc, p, ⟨hp, hl1, hl2⟩, rfl⟩

/-! ### N-d statement -/

/-- per-axis block contents for a list of (parsed index, length of the matching value axis) -/
def fsOf : List (AIdx × Nat) → List ((Int × Int) → List (Int × Option Nat))
  | [] => []
  | a :: as => axisBlockPairs a.1 a.2 :: fsOf as

/-- NumPy's N-d assignment `x[i_1, …, i_n] = v` as a relation on vectors of (array position, value position) pairs -/
def NDSelected : List (AIdx × Nat) → List (List Nat) → List (Int × Option Nat) → Prop
  | a :: as, _ :: cs, x :: xs => x ∈ axisSelected a.1 a.2 ∧ NDSelected as cs xs
  | [], [], [] => True
  | _, _, _ => False

def AxesOK : List (AIdx × Nat) → List (List Nat) → Prop
  | a :: as, c :: cs => AxisOK c a.1 ∧ AxesOK as cs
  | [], [] => True
  | _, _ => False

theorem ndAny_selected : ∀ (axes : List (AIdx × Nat)) (cs : List (List Nat)) (t : List (Int × Option Nat)),
    AxesOK axes cs → (NDAny (fsOf axes) cs t ↔ NDSelected axes cs t) := by
  intro axes
  induction axes with
  | nil =>
    intro cs t _
    cases cs <;> cases t <;> simp [fsOf, NDAny, NDSelected]
  | cons a as ih =>
    intro cs t hok
    cases cs with
    | nil => simp [AxesOK] at hok
    | cons c cs =>
      cases t with
      | nil => simp [fsOf, NDAny, NDSelected]
      | cons x xs =>
        simp only [AxesOK] at hok
        simp only [fsOf, NDAny, NDSelected]
        rw [axis_blocks_selected c a.1 a.2 hok.1 x, ih cs xs hok.2]

end Dask.SetItemND
