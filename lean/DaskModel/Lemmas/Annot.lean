import DaskModel.Model.Annot
/-! Helper lemmas for `Model/Annot.lean` (`_fuse_annotations`). No Mathlib. -/
namespace Dask.Annot

/-! ### dict -/

theorem lookup_setKey_same {α : Type} (m : List (String × α)) (k : String) (v : α) : lookup (setKey m k v) k = some v := by
  induction m with
  | nil => simp [setKey, lookup]
  | cons p r ih =>
    obtain ⟨k', v'⟩ := p
    by_cases h : k' = k
    · simp [setKey, lookup, h]
    · simp [setKey, lookup, h, ih]

theorem lookup_setKey_ne {α : Type} (m : List (String × α)) (k k' : String) (v : α) (h : k' ≠ k) :
    lookup (setKey m k v) k' = lookup m k' := by
  induction m with
  | nil => simp [setKey, lookup, Ne.symm h]
  | cons p r ih =>
    obtain ⟨k0, v0⟩ := p
    by_cases h0 : k0 = k
    · subst h0
      simp [setKey, lookup, Ne.symm h]
    · by_cases h1 : k0 = k'
      · subst h1
        simp [setKey, lookup, h0]
      · simp [setKey, lookup, h0, h1, ih]

theorem mem_of_lookup {α : Type} (m : List (String × α)) (k : String) (v : α) (h : lookup m k = some v) : (k, v) ∈ m := by
  induction m with
  | nil => simp [lookup] at h
  | cons p r ih =>
    obtain ⟨k0, v0⟩ := p
    by_cases h0 : k0 = k
    · simp [lookup, h0] at h
      subst h0; subst h
      simp
    · simp [lookup, h0] at h
      simp [ih h]

/-! ### collecting values -/

theorem mem_collect (key : String) (args : List Ann) (a : Ann) (v : Val) (ha : a ∈ args) (hv : lookup a key = some v) :
    v ∈ collect key args := by
  unfold collect
  simp only [List.mem_filterMap]
  exact ⟨a, ha, hv⟩

theorem ints_mem (vs : List Val) (l : List Int) (h : ints vs = some l) (i : Int) (hi : Val.int i ∈ vs) : i ∈ l := by
  induction vs generalizing l with
  | nil => simp at hi
  | cons v r ih =>
    cases v with
    | int j =>
      simp only [ints] at h
      cases hr : ints r with
      | none => rw [hr] at h; simp at h
      | some lr =>
        rw [hr] at h; simp at h; subst h
        rcases List.mem_cons.mp hi with hi | hi
        · injection hi with hi; simp [hi]
        · simp [ih lr hr hi]
    | res _ => simp [ints] at h
    | set _ => simp [ints] at h
    | bool _ => simp [ints] at h
    | other _ => simp [ints] at h

theorem ress_mem (vs : List Val) (l : List (List (String × Int))) (h : ress vs = some l) (m : List (String × Int))
    (hi : Val.res m ∈ vs) : m ∈ l := by
  induction vs generalizing l with
  | nil => simp at hi
  | cons v r ih =>
    cases v with
    | res j =>
      simp only [ress] at h
      cases hr : ress r with
      | none => rw [hr] at h; simp at h
      | some lr =>
        rw [hr] at h; simp at h; subst h
        rcases List.mem_cons.mp hi with hi | hi
        · injection hi with hi; simp [hi]
        · simp [ih lr hr hi]
    | int _ => simp [ress] at h
    | set _ => simp [ress] at h
    | bool _ => simp [ress] at h
    | other _ => simp [ress] at h

theorem sets_mem (vs : List Val) (l : List (List Nat)) (h : sets vs = some l) (m : List Nat)
    (hi : Val.set m ∈ vs) : m ∈ l := by
  induction vs generalizing l with
  | nil => simp at hi
  | cons v r ih =>
    cases v with
    | set j =>
      simp only [sets] at h
      cases hr : sets r with
      | none => rw [hr] at h; simp at h
      | some lr =>
        rw [hr] at h; simp at h; subst h
        rcases List.mem_cons.mp hi with hi | hi
        · injection hi with hi; simp [hi]
        · simp [ih lr hr hi]
    | int _ => simp [sets] at h
    | res _ => simp [sets] at h
    | bool _ => simp [sets] at h
    | other _ => simp [sets] at h

theorem bools_mem (vs : List Val) (l : List Bool) (h : bools vs = some l) (m : Bool)
    (hi : Val.bool m ∈ vs) : m ∈ l := by
  induction vs generalizing l with
  | nil => simp at hi
  | cons v r ih =>
    cases v with
    | bool j =>
      simp only [bools] at h
      cases hr : bools r with
      | none => rw [hr] at h; simp at h
      | some lr =>
        rw [hr] at h; simp at h; subst h
        rcases List.mem_cons.mp hi with hi | hi
        · injection hi with hi; simp [hi]
        · simp [ih lr hr hi]
    | int _ => simp [bools] at h
    | res _ => simp [bools] at h
    | set _ => simp [bools] at h
    | other _ => simp [bools] at h

/-! ### the combiners -/

theorem le_foldl_max (xs : List Int) (x : Int) : x ≤ xs.foldl (fun a b => if a < b then b else a) x := by
  induction xs generalizing x with
  | nil => simp
  | cons y r ih =>
    simp only [List.foldl_cons]
    by_cases h : x < y
    · simp only [h, if_true]
      exact Int.le_trans (Int.le_of_lt h) (ih y)
    · simp only [h, if_false]
      exact ih x

theorem maxList_ge (x : Int) (xs : List Int) (y : Int) (hy : y ∈ x :: xs) : y ≤ maxList x xs := by
  unfold maxList
  induction xs generalizing x with
  | nil => simp at hy; subst hy; simp
  | cons z r ih =>
    simp only [List.foldl_cons]
    rcases List.mem_cons.mp hy with hy | hy
    · subst hy
      by_cases h : y < z
      · simp only [h, if_true]
        exact Int.le_trans (Int.le_of_lt h) (le_foldl_max r z)
      · simp only [h, if_false]
        exact le_foldl_max r y
    · by_cases h : x < z
      · simp only [h, if_true]
        exact ih z hy
      · simp only [h, if_false]
        rcases List.mem_cons.mp hy with hy | hy
        · subst hy
          have : y ≤ x := by omega
          exact Int.le_trans this (le_foldl_max r x)
        · exact ih x (by simp [hy])

/-- the inner fold of `merge_with(max)`: bindings only grow -/
theorem mwm_inner_mono (d : List (String × Int)) (acc : List (String × Int)) (k : String) (w : Int)
    (h : lookup acc k = some w) :
    ∃ w', lookup (d.foldl (fun acc kv =>
        match lookup acc kv.1 with
        | none => setKey acc kv.1 kv.2
        | some v => setKey acc kv.1 (if v < kv.2 then kv.2 else v)) acc) k = some w' ∧ w ≤ w' := by
  induction d generalizing acc w with
  | nil => exact ⟨w, h, Int.le_refl _⟩
  | cons p r ih =>
    obtain ⟨k0, v0⟩ := p
    simp only [List.foldl_cons]
    by_cases hk : k0 = k
    · subst hk
      rw [h]
      simp only
      obtain ⟨w', hw', hle⟩ := ih (setKey acc k0 (if w < v0 then v0 else w)) (if w < v0 then v0 else w)
        (lookup_setKey_same _ _ _)
      refine ⟨w', hw', ?_⟩
      by_cases hlt : w < v0
      · simp only [hlt, if_true] at hle; omega
      · simp only [hlt, if_false] at hle; exact hle
    · cases hl : lookup acc k0 with
      | none =>
        simp only
        exact ih (setKey acc k0 v0) w (by rw [lookup_setKey_ne _ _ _ _ (Ne.symm hk)]; exact h)
      | some v =>
        simp only
        exact ih (setKey acc k0 (if v < v0 then v0 else v)) w (by rw [lookup_setKey_ne _ _ _ _ (Ne.symm hk)]; exact h)

theorem mwm_inner_ge (d : List (String × Int)) (acc : List (String × Int)) (k : String) (v : Int) (hm : (k, v) ∈ d) :
    ∃ w', lookup (d.foldl (fun acc kv =>
        match lookup acc kv.1 with
        | none => setKey acc kv.1 kv.2
        | some v => setKey acc kv.1 (if v < kv.2 then kv.2 else v)) acc) k = some w' ∧ v ≤ w' := by
  induction d generalizing acc with
  | nil => simp at hm
  | cons p r ih =>
    simp only [List.foldl_cons]
    rcases List.mem_cons.mp hm with hm | hm
    · subst hm
      simp only
      cases hl : lookup acc k with
      | none =>
        simp only
        exact mwm_inner_mono r _ k v (lookup_setKey_same _ _ _)
      | some u =>
        simp only
        obtain ⟨w', hw', hle⟩ := mwm_inner_mono r (setKey acc k (if u < v then v else u)) k (if u < v then v else u)
          (lookup_setKey_same _ _ _)
        refine ⟨w', hw', ?_⟩
        by_cases hlt : u < v
        · simp only [hlt, if_true] at hle; exact hle
        · simp only [hlt, if_false] at hle; omega
    · exact ih _ hm

theorem mwm_outer_mono (ds : List (List (String × Int))) (acc : List (String × Int)) (k : String) (w : Int)
    (h : lookup acc k = some w) :
    ∃ w', lookup (ds.foldl (fun acc d => d.foldl (fun acc kv =>
        match lookup acc kv.1 with
        | none => setKey acc kv.1 kv.2
        | some v => setKey acc kv.1 (if v < kv.2 then kv.2 else v)) acc) acc) k = some w' ∧ w ≤ w' := by
  induction ds generalizing acc w with
  | nil => exact ⟨w, h, Int.le_refl _⟩
  | cons d r ih =>
    simp only [List.foldl_cons]
    obtain ⟨w1, h1, hle1⟩ := mwm_inner_mono d acc k w h
    obtain ⟨w2, h2, hle2⟩ := ih _ w1 h1
    exact ⟨w2, h2, Int.le_trans hle1 hle2⟩

/-- `merge_with(max, *dicts)`: every binding of every dict is dominated by the result -/
theorem mergeWithMax_ge (ds : List (List (String × Int))) (d : List (String × Int)) (hd : d ∈ ds) (k : String) (v : Int)
    (hm : (k, v) ∈ d) : ∃ w, lookup (mergeWithMax ds) k = some w ∧ v ≤ w := by
  unfold mergeWithMax
  generalize ([] : List (String × Int)) = acc
  induction ds generalizing acc with
  | nil => simp at hd
  | cons d0 r ih =>
    simp only [List.foldl_cons]
    rcases List.mem_cons.mp hd with hd | hd
    · subst hd
      obtain ⟨w1, h1, hle1⟩ := mwm_inner_ge d acc k v hm
      obtain ⟨w2, h2, hle2⟩ := mwm_outer_mono r _ k w1 h1
      exact ⟨w2, h2, Int.le_trans hle1 hle2⟩
    · exact ih hd _

theorem interAll_sub (s : List Nat) (ss : List (List Nat)) (x : Nat) (hx : x ∈ interAll s ss) :
    ∀ t ∈ s :: ss, x ∈ t := by
  unfold interAll at hx
  simp only [List.mem_filter, List.all_eq_true] at hx
  intro t ht
  rcases List.mem_cons.mp ht with ht | ht
  · subst ht; exact hx.1
  · have := hx.2 t ht
    simpa using this

/-! ### the rule loop -/

theorem foldl_applyRule_none (args : List Ann) (rules : List (String × Rule)) :
    rules.foldl (applyRule args) none = none := by
  induction rules with
  | nil => rfl
  | cons r rs ih => simp [List.foldl_cons, applyRule, ih]

/-- keys without a rule keep the merged value -/
theorem fuse_loop_other (args : List Ann) (rules : List (String × Rule)) (a f : Ann) (k : String)
    (hk : ∀ r ∈ rules, r.1 ≠ k) (h : rules.foldl (applyRule args) (some a) = some f) : lookup f k = lookup a k := by
  induction rules generalizing a with
  | nil => simp at h; subst h; rfl
  | cons r rs ih =>
    simp only [List.foldl_cons] at h
    have hr : r.1 ≠ k := hk r (by simp)
    have hrs : ∀ r ∈ rs, r.1 ≠ k := fun x hx => hk x (by simp [hx])
    cases hc : collect r.1 args with
    | nil =>
      have hstep : applyRule args (some a) r = some a := by simp [applyRule, hc]
      rw [hstep] at h
      exact ih a hrs h
    | cons v vs =>
      cases hcomb : combine r.2 (v :: vs) with
      | none =>
        have hstep : applyRule args (some a) r = none := by simp [applyRule, hc, hcomb]
        rw [hstep, foldl_applyRule_none] at h
        simp at h
      | some c =>
        have hstep : applyRule args (some a) r = some (setKey a r.1 c) := by simp [applyRule, hc, hcomb]
        rw [hstep] at h
        rw [ih _ hrs h, lookup_setKey_ne _ _ _ _ (Ne.symm hr)]

/-- a key with a rule (rule keys pairwise distinct) whose collected values are non-empty ends up combined -/
theorem fuse_loop_rule (args : List Ann) (rules : List (String × Rule)) (a f : Ann) (k : String) (rule : Rule)
    (hnd : (rules.map (·.1)).Nodup) (hmem : (k, rule) ∈ rules) (v : Val) (vs : List Val)
    (hc : collect k args = v :: vs)
    (h : rules.foldl (applyRule args) (some a) = some f) :
    ∃ c, combine rule (v :: vs) = some c ∧ lookup f k = some c := by
  induction rules generalizing a with
  | nil => simp at hmem
  | cons r rs ih =>
    simp only [List.foldl_cons] at h
    simp only [List.map_cons, List.nodup_cons] at hnd
    rcases List.mem_cons.mp hmem with hm | hm
    · -- this is the rule for k
      subst hm
      cases hcomb : combine rule (v :: vs) with
      | none =>
        have hstep : applyRule args (some a) (k, rule) = none := by simp [applyRule, hc, hcomb]
        rw [hstep, foldl_applyRule_none] at h
        simp at h
      | some c =>
        have hstep : applyRule args (some a) (k, rule) = some (setKey a k c) := by simp [applyRule, hc, hcomb]
        rw [hstep] at h
        refine ⟨c, rfl, ?_⟩
        have hother : ∀ r ∈ rs, r.1 ≠ k := by
          intro r hr heq
          apply hnd.1
          rw [← heq]
          exact List.mem_map.mpr ⟨r, hr, rfl⟩
        rw [fuse_loop_other args rs _ f k hother h]
        exact lookup_setKey_same _ _ _
    · -- a later rule
      cases hc0 : collect r.1 args with
      | nil =>
        have hstep : applyRule args (some a) r = some a := by simp [applyRule, hc0]
        rw [hstep] at h
        exact ih a hnd.2 hm h
      | cons v0 vs0 =>
        cases hcomb : combine r.2 (v0 :: vs0) with
        | none =>
          have hstep : applyRule args (some a) r = none := by simp [applyRule, hc0, hcomb]
          rw [hstep, foldl_applyRule_none] at h
          simp at h
        | some c =>
          have hstep : applyRule args (some a) r = some (setKey a r.1 c) := by simp [applyRule, hc0, hcomb]
          rw [hstep] at h
          exact ih _ hnd.2 hm h

end Dask.Annot
