import DaskModel.Lemmas.LegacyOpt
/-! The substitution lemma for `dask.core.subs` and the equational ("solution") view of graph values (C09). -/
namespace Dask.TaskTerm

theorem inKeys_props {K : List Obj} {k : Obj} (h : inKeys K k = true) :
    k.keyTyped = true ∧ k.hashable = true ∧ k ∈ K := by
  simp only [inKeys, Bool.and_eq_true, List.contains_eq_mem, decide_eq_true_eq] at h
  exact ⟨h.1.1, h.1.2, h.2⟩

theorem beq_eq_true_iff (a b : Obj) : (a == b) = true ↔ a = b := ⟨eq_of_beq, fun h => h ▸ beq_self_eq_true a⟩

mutual
/-- **Substitution lemma**: if the environment already gives `key` the value of `val`, replacing occurrences of `key`
    by `val` (as `dask.core.subs` does) does not change the value of any term. -/
theorem subs_eval (K : List Obj) (env : Obj → Option Obj) (key val : Obj) (hk : inKeys K key = true)
    (hv : env key = evalObj K env val) : ∀ o, evalObj K env (subs key val o) = evalObj K env o
  | .tuple (h :: args) => by
    by_cases hc : h.callable = true
    · simp only [subs, hc, if_true, evalObj, subsArgs_eval K env key val hk hv args]
    · simp only [subs, hc, Bool.false_eq_true, if_false]
      by_cases he : (Obj.tuple (h :: args) == key) = true
      · have := (beq_eq_true_iff _ _).mp he
        simp only [he, if_true]
        rw [this]
        have hkt := inKeys_props hk
        cases key with
        | tuple ks =>
          cases ks with
          | nil => simp [evalObj, hk, hv]
          | cons k0 ks' =>
            have hc' : k0.callable = false := by
              cases this; simpa using hc
            simp [evalObj, hc', hk, hv]
        | _ => cases this
      · simp only [he, Bool.false_eq_true, if_false]
  | .tuple [] => by
    by_cases he : (Obj.tuple [] == key) = true
    · have := (beq_eq_true_iff _ _).mp he
      simp only [subs, he, if_true]
      rw [← this] at hk hv
      simp [evalObj, hk, hv]
    · simp only [subs, he, Bool.false_eq_true, if_false]
  | .list xs => by
    have hne : (Obj.list xs == key) = false := by
      rw [Bool.eq_false_iff]; intro he
      have := (beq_eq_true_iff _ _).mp he
      have hkt := (inKeys_props hk).1
      rw [← this] at hkt; simp [Obj.keyTyped] at hkt
    simp only [subs, hne, Bool.false_eq_true, if_false, evalObj, subsList_eval K env key val hk hv xs]
  | .dict kvs => by
    have hne : (Obj.dict kvs == key) = false := by
      rw [Bool.eq_false_iff]; intro he
      have := (beq_eq_true_iff _ _).mp he
      have hkt := (inKeys_props hk).1
      rw [← this] at hkt; simp [Obj.keyTyped] at hkt
    simp only [subs, hne, Bool.false_eq_true, if_false, evalObj, subsVals_eval K env key val hk hv kvs]
  | .int n => by
    by_cases he : (Obj.int n == key) = true
    · have := (beq_eq_true_iff _ _).mp he
      simp only [subs, he, if_true]
      rw [← this] at hk hv
      simp [evalObj, hk, hv]
    · simp only [subs, he, Bool.false_eq_true, if_false]
  | .str s => by
    by_cases he : (Obj.str s == key) = true
    · have := (beq_eq_true_iff _ _).mp he
      simp only [subs, he, if_true]
      rw [← this] at hk hv
      simp [evalObj, hk, hv]
    · simp only [subs, he, Bool.false_eq_true, if_false]
  | .none => by
    have hne : (Obj.none == key) = false := by
      rw [Bool.eq_false_iff]; intro he
      have := (beq_eq_true_iff _ _).mp he
      have hkt := (inKeys_props hk).1
      rw [← this] at hkt; simp [Obj.keyTyped] at hkt
    simp only [subs, hne, Bool.false_eq_true, if_false]
  | .fn f => by
    have hne : (Obj.fn f == key) = false := by
      rw [Bool.eq_false_iff]; intro he
      have := (beq_eq_true_iff _ _).mp he
      have hkt := (inKeys_props hk).1
      rw [← this] at hkt; simp [Obj.keyTyped] at hkt
    simp only [subs, hne, Bool.false_eq_true, if_false]
  | .quoted v => by
    have hne : (Obj.quoted v == key) = false := by
      rw [Bool.eq_false_iff]; intro he
      have := (beq_eq_true_iff _ _).mp he
      have hkt := (inKeys_props hk).1
      rw [← this] at hkt; simp [Obj.keyTyped] at hkt
    simp only [subs, hne, Bool.false_eq_true, if_false]
  | .app f a k => by
    have hne : (Obj.app f a k == key) = false := by
      rw [Bool.eq_false_iff]; intro he
      have := (beq_eq_true_iff _ _).mp he
      have hkt := (inKeys_props hk).1
      rw [← this] at hkt; simp [Obj.keyTyped] at hkt
    simp only [subs, hne, Bool.false_eq_true, if_false]
theorem subsList_eval (K : List Obj) (env : Obj → Option Obj) (key val : Obj) (hk : inKeys K key = true)
    (hv : env key = evalObj K env val) : ∀ xs, evalObjs K env (subsList key val xs) = evalObjs K env xs
  | [] => by simp [subsList]
  | x :: xs => by
    simp only [subsList, evalObjs, subs_eval K env key val hk hv x, subsList_eval K env key val hk hv xs]
theorem subsVals_eval (K : List Obj) (env : Obj → Option Obj) (key val : Obj) (hk : inKeys K key = true)
    (hv : env key = evalObj K env val) : ∀ kvs, evalVals K env (subsVals key val kvs) = evalVals K env kvs
  | [] => by simp [subsVals]
  | (k, v) :: rest => by
    simp only [subsVals, evalVals, subs_eval K env key val hk hv v, subsVals_eval K env key val hk hv rest]
theorem subsArgs_eval (K : List Obj) (env : Obj → Option Obj) (key val : Obj) (hk : inKeys K key = true)
    (hv : env key = evalObj K env val) : ∀ xs, evalObjs K env (subsArgs key val xs) = evalObjs K env xs
  | [] => by simp [subsArgs]
  | x :: xs => by
    have ih := subsArgs_eval K env key val hk hv xs
    cases x with
    | tuple ys =>
      cases ys with
      | nil =>
        -- the empty tuple: `arg in {key}` test
        simp only [subsArgs, evalObjs, ih]
        by_cases he : ((Obj.tuple []).hashable && Obj.tuple [] == key) = true
        · simp only [he, if_true]
          have h2 : Obj.tuple [] = key := (beq_eq_true_iff _ _).mp (by simp only [Bool.and_eq_true] at he; exact he.2)
          rw [← h2] at hk hv
          simp [evalObj, hk, hv]
        · simp only [he, Bool.false_eq_true, if_false]
      | cons h as =>
        simp only [subsArgs, evalObjs, ih]
        by_cases hc : h.callable = true
        · simp only [hc, if_true, subs_eval K env key val hk hv (.tuple (h :: as))]
        · simp only [hc, Bool.false_eq_true, if_false]
          by_cases he : ((Obj.tuple (h :: as)).hashable && Obj.tuple (h :: as) == key) = true
          · simp only [he, if_true]
            have h2 : Obj.tuple (h :: as) = key :=
              (beq_eq_true_iff _ _).mp (by simp only [Bool.and_eq_true] at he; exact he.2)
            have hc' : h.callable = false := by simpa using hc
            rw [← h2] at hk hv
            simp [evalObj, hc', hk, hv]
          · simp only [he, Bool.false_eq_true, if_false]
    | list ys =>
      simp only [subsArgs, evalObjs, ih, evalObj, subsList_eval K env key val hk hv ys]
    | int n =>
      simp only [subsArgs, evalObjs, ih]
      by_cases he : ((Obj.int n).hashable && Obj.int n == key) = true
      · simp only [he, if_true]
        have h2 : Obj.int n = key := (beq_eq_true_iff _ _).mp (by simp only [Bool.and_eq_true] at he; exact he.2)
        rw [← h2] at hk hv
        simp [evalObj, hk, hv]
      · simp only [he, Bool.false_eq_true, if_false]
    | str s =>
      simp only [subsArgs, evalObjs, ih]
      by_cases he : ((Obj.str s).hashable && Obj.str s == key) = true
      · simp only [he, if_true]
        have h2 : Obj.str s = key := (beq_eq_true_iff _ _).mp (by simp only [Bool.and_eq_true] at he; exact he.2)
        rw [← h2] at hk hv
        simp [evalObj, hk, hv]
      · simp only [he, Bool.false_eq_true, if_false]
    | none =>
      have hne : ((Obj.none).hashable && Obj.none == key) = false := by
        rw [Bool.eq_false_iff]; intro he
        have h2 : Obj.none = key := (beq_eq_true_iff _ _).mp (by simp only [Bool.and_eq_true] at he; exact he.2)
        have hkt := (inKeys_props hk).1
        rw [← h2] at hkt; simp [Obj.keyTyped] at hkt
      simp only [subsArgs, evalObjs, ih, hne, Bool.false_eq_true, if_false]
    | fn f =>
      have hne : ((Obj.fn f).hashable && Obj.fn f == key) = false := by
        rw [Bool.eq_false_iff]; intro he
        have h2 : Obj.fn f = key := (beq_eq_true_iff _ _).mp (by simp only [Bool.and_eq_true] at he; exact he.2)
        have hkt := (inKeys_props hk).1
        rw [← h2] at hkt; simp [Obj.keyTyped] at hkt
      simp only [subsArgs, evalObjs, ih, hne, Bool.false_eq_true, if_false]
    | quoted v =>
      have hne : ((Obj.quoted v).hashable && Obj.quoted v == key) = false := by
        rw [Bool.eq_false_iff]; intro he
        have h2 : Obj.quoted v = key := (beq_eq_true_iff _ _).mp (by simp only [Bool.and_eq_true] at he; exact he.2)
        have hkt := (inKeys_props hk).1
        rw [← h2] at hkt; simp [Obj.keyTyped] at hkt
      simp only [subsArgs, evalObjs, ih, hne, Bool.false_eq_true, if_false]
    | dict kvs =>
      simp only [subsArgs, evalObjs, ih, evalObj, subsVals_eval K env key val hk hv kvs]
    | app f a k =>
      have hne : ((Obj.app f a k).hashable && Obj.app f a k == key) = false := by
        rw [Bool.eq_false_iff]; intro he
        have h2 : Obj.app f a k = key := (beq_eq_true_iff _ _).mp (by simp only [Bool.and_eq_true] at he; exact he.2)
        have hkt := (inKeys_props hk).1
        rw [← h2] at hkt; simp [Obj.keyTyped] at hkt
      simp only [subsArgs, evalObjs, ih, hne, Bool.false_eq_true, if_false]
end

end Dask.TaskTerm

namespace Dask.TaskTerm

/-! ### graph values as solutions of the graph's equations -/

/-- `ρ` satisfies the equations of the legacy graph `g` (key set `K`; keys outside `g` are given by `cache`) -/
def Solution (g : LGraph) (K : List Obj) (cache ρ : Obj → Option Obj) : Prop :=
  ∀ k, ρ k = match g.lookup k with
    | some t => evalObj K ρ t
    | none => cache k

/-- the value of a term depends on the environment only through the keys it references -/
theorem evalObj_congr_refs (K : List Obj) (hKt : ∀ k ∈ K, k.keyTyped = true) (env env' : Obj → Option Obj) (o : Obj)
    (h : ∀ d ∈ legacyRefs K o, env d = env' d) : evalObj K env o = evalObj K env' o := by
  have hVK : ∀ k ∈ legacyRefs K o, k ∈ K := fun k hk => legacyRefs_mem K o k hk
  have h1 := evalObj_restrict K (legacyRefs K o) env env hVK hKt (fun _ _ => rfl) o (fun _ hd => hd)
  have h2 := evalObj_restrict K (legacyRefs K o) env env' hVK hKt h o (fun _ hd => hd)
  rw [← h1, h2]

/-- **On a DAG the equations determine the values**: two solutions coincide. -/
theorem solution_unique (g : LGraph) (K : List Obj) (hKt : ∀ k ∈ K, k.keyTyped = true) (cache : Obj → Option Obj)
    (rank : Obj → Nat)
    (hdag : ∀ k t, g.lookup k = some t → ∀ d ∈ legacyRefs K t, rank d < rank k)
    (ρ ρ' : Obj → Option Obj) (h : Solution g K cache ρ) (h' : Solution g K cache ρ') : ∀ k, ρ k = ρ' k := by
  have key : ∀ n k, rank k < n → ρ k = ρ' k := by
    intro n
    induction n with
    | zero => intro k hk; omega
    | succ n ih =>
      intro k hk
      rw [h k, h' k]
      cases hl : g.lookup k with
      | none => rfl
      | some t =>
        simp only
        apply evalObj_congr_refs K hKt
        intro d hd
        exact ih d (by have := hdag k t hl d hd; omega)
  intro k
  exact key (rank k + 1) k (Nat.lt_succ_self _)

/-- replace the definition of key `b` -/
def setEntry (g : LGraph) (b : Obj) (t : Obj) : LGraph :=
  g.map fun kv => if kv.1 == b then (kv.1, t) else kv

theorem lookup_setEntry (g : LGraph) (b t k : Obj) :
    (setEntry g b t).lookup k = if k = b then (g.lookup k).map (fun _ => t) else g.lookup k := by
  induction g with
  | nil => simp [setEntry]
  | cons kv rest ih =>
    obtain ⟨k', v'⟩ := kv
    unfold setEntry at ih ⊢
    simp only [List.map_cons]
    by_cases hkb : (k' == b) = true
    · have hkb' : k' = b := eq_of_beq hkb
      simp only [hkb, if_true, List.lookup]
      by_cases hk : (k == k') = true
      · have : k = k' := eq_of_beq hk
        subst this; subst hkb'
        simp
      · have hk' : (k == k') = false := by simpa using hk
        simp only [hk', ih]
    · have hkb' : (k' == b) = false := by simpa using hkb
      simp only [hkb', Bool.false_eq_true, if_false, List.lookup]
      by_cases hk : (k == k') = true
      · have : k = k' := eq_of_beq hk
        subst this
        have hne : k ≠ b := fun e => by subst e; simp at hkb'
        simp [hne]
      · have hk' : (k == k') = false := by simpa using hk
        simp only [hk', ih]

/-- **Inlining one key into one task keeps the graph's meaning**: the graph obtained by substituting the definition
    of `a` for `a` inside the definition of `b` (`subs(dsk[b], a, dsk[a])`, the step `inline`, `inline_functions`,
    `fuse_linear` and `fuse` are built from) has exactly the same solutions. -/
theorem inline_step_solutions_iff (g : LGraph) (K : List Obj) (cache ρ : Obj → Option Obj) (a b ta tb : Obj)
    (hab : a ≠ b) (ha : g.lookup a = some ta) (hb : g.lookup b = some tb) (haK : inKeys K a = true) :
    Solution (setEntry g b (subs a ta tb)) K cache ρ ↔ Solution g K cache ρ := by
  have hla : (setEntry g b (subs a ta tb)).lookup a = some ta := by
    rw [lookup_setEntry]; simp [hab, ha]
  constructor
  · intro h k
    have hk := h k
    rw [lookup_setEntry] at hk
    by_cases hkb : k = b
    · subst hkb
      simp only [if_true, hb, Option.map_some] at hk
      have hva : ρ a = evalObj K ρ ta := by have := h a; rw [hla] at this; exact this
      rw [hb, hk, subs_eval K ρ a ta haK hva]
    · simp only [hkb, if_false] at hk
      exact hk
  · intro h k
    rw [lookup_setEntry]
    by_cases hkb : k = b
    · subst hkb
      have hva : ρ a = evalObj K ρ ta := by have := h a; rw [ha] at this; exact this
      have := h k
      rw [hb] at this
      simp only [if_true, hb, Option.map_some, subs_eval K ρ a ta haK hva]
      exact this
    · simp only [hkb, if_false]
      exact h k

/-- remove the entry of key `a` -/
def dropEntry (g : LGraph) (a : Obj) : LGraph := g.filter fun kv => !(kv.1 == a)

theorem lookup_dropEntry (g : LGraph) (a k : Obj) :
    (dropEntry g a).lookup k = if k = a then none else g.lookup k := by
  induction g with
  | nil => simp [dropEntry]
  | cons kv rest ih =>
    obtain ⟨k', v'⟩ := kv
    unfold dropEntry at ih ⊢
    by_cases hka : (k' == a) = true
    · have hka' : k' = a := eq_of_beq hka
      simp only [List.filter_cons, hka, Bool.not_true, Bool.false_eq_true, if_false, ih, List.lookup]
      by_cases hk : k = a
      · simp [hk]
      · have : (k == k') = false := by
          rw [Bool.eq_false_iff]; intro hc
          exact hk ((eq_of_beq hc).trans hka')
        simp [hk, this]
    · have hka' : (k' == a) = false := by simpa using hka
      simp only [List.filter_cons, hka', Bool.not_false, if_true, List.lookup]
      by_cases hk : (k == k') = true
      · have : k = k' := eq_of_beq hk
        subst this
        have hne : k ≠ a := fun e => by subst e; simp at hka'
        simp [hne]
      · have hk' : (k == k') = false := by simpa using hk
        simp only [hk', ih]

/-- **Deleting a key nobody references keeps the other values**: every solution of `g` solves the graph without `a`
    (whose key set no longer contains `a`), provided no remaining task references `a`. This is the step that removes a
    fused / inlined / culled key. -/
theorem drop_unreferenced_solution (g : LGraph) (K : List Obj) (hKt : ∀ k ∈ K, k.keyTyped = true)
    (cache ρ : Obj → Option Obj) (a : Obj)
    (hunref : ∀ k t, k ≠ a → g.lookup k = some t → a ∉ legacyRefs K t)
    (h : Solution g K cache ρ) :
    ∀ k, k ≠ a → ρ k = match (dropEntry g a).lookup k with
      | some t => evalObj (K.filter (fun x => !(x == a))) ρ t
      | none => cache k := by
  intro k hk
  rw [lookup_dropEntry, if_neg hk, h k]
  cases hl : g.lookup k with
  | none => rfl
  | some t =>
    simp only
    symm
    apply evalObj_restrict K (K.filter (fun x => !(x == a))) ρ ρ
    · intro x hx; exact (List.mem_filter.mp hx).1
    · exact hKt
    · intro _ _; rfl
    · intro d hd
      rw [List.mem_filter]
      refine ⟨legacyRefs_mem K t d hd, ?_⟩
      have : d ≠ a := fun e => hunref k t hk hl (e ▸ hd)
      simpa using this

end Dask.TaskTerm

namespace Dask.TaskTerm

/-! ### soundness of the `fuseOK` checker -/

theorem finalTerm_eval (g : LGraph) (K S : List Obj) (cache ρ : Obj → Option Obj) (hsol : Solution g K cache ρ)
    (hS : ∀ c ∈ S, inKeys K c = true) : ∀ (fuel : Nat) (t : Obj),
    evalObj K ρ (finalTerm g K S fuel t) = evalObj K ρ t
  | 0, t => rfl
  | fuel + 1, t => by
    unfold finalTerm
    -- fold invariant: the accumulated term keeps the value of `t`
    have key : ∀ (cs : List Obj) (acc : Obj), evalObj K ρ acc = evalObj K ρ t →
        evalObj K ρ (cs.foldl (fun acc c =>
          if S.contains c then
            match g.lookup c with
            | some tc => subs c (finalTerm g K S fuel tc) acc
            | none => acc
          else acc) acc) = evalObj K ρ t := by
      intro cs
      induction cs with
      | nil => intro acc h; simpa using h
      | cons c cs ih =>
        intro acc h
        simp only [List.foldl_cons]
        apply ih
        by_cases hc : S.contains c = true
        · simp only [hc, if_true]
          cases hl : g.lookup c with
          | none => simpa using h
          | some tc =>
            simp only
            have hcS : c ∈ S := by simpa using hc
            have hv : ρ c = evalObj K ρ (finalTerm g K S fuel tc) := by
              rw [finalTerm_eval g K S cache ρ hsol hS fuel tc]
              have := hsol c
              rw [hl] at this
              exact this
            rw [subs_eval K ρ c _ (hS c hcS) hv acc, h]
        · simp only [hc, Bool.false_eq_true, if_false]
          exact h
    exact key _ t rfl

/-- **Soundness of the checker**: if `fuseOK g h S req` accepts, then every valuation that satisfies the equations of
    the input graph satisfies the equations of the output graph (over the output's own key set), and every requested
    key is a key of the output. With `dag_values_unique` the requested values are therefore unchanged. -/
theorem fuseOK_sound (g h : LGraph) (S req : List Obj) (hok : fuseOK g h S req = true)
    (hKt : ∀ k ∈ g.map Prod.fst, k.keyTyped = true) (cache ρ : Obj → Option Obj)
    (hsol : Solution g (g.map Prod.fst) cache ρ) :
    (∀ k ∈ req, k ∈ h.map Prod.fst) ∧
    ∀ k t, (k, t) ∈ h → ρ k = evalObj (h.map Prod.fst) ρ t := by
  unfold fuseOK at hok
  simp only [Bool.and_eq_true, List.all_eq_true, List.contains_eq_mem, decide_eq_true_eq, Bool.or_eq_true] at hok
  obtain ⟨⟨⟨⟨h1, h2⟩, h3⟩, h4⟩, h5⟩ := hok
  refine ⟨h4, ?_⟩
  intro k t hkt
  have hk1 := h1 (k, t) hkt
  simp only at hk1
  cases hl : g.lookup k with
  | none => rw [hl] at hk1; cases hk1
  | some t0 =>
    rw [hl] at hk1
    have hteq : t = finalTerm g (g.map Prod.fst) S (g.length + 1) t0 := eq_of_beq hk1
    have hρ : ρ k = evalObj (g.map Prod.fst) ρ t0 := by
      have := hsol k; rw [hl] at this; exact this
    rw [hρ, ← finalTerm_eval g (g.map Prod.fst) S cache ρ hsol h5 (g.length + 1) t0, ← hteq]
    symm
    apply evalObj_restrict (g.map Prod.fst) (h.map Prod.fst) ρ ρ
    · intro x hx
      obtain ⟨⟨k', t'⟩, hm, rfl⟩ := List.mem_map.mp hx
      have := h1 (k', t') hm
      simp only at this
      cases hl' : g.lookup k' with
      | none => rw [hl'] at this; cases this
      | some t'' => exact lookup_isSome_mem_keys g k' (by simp [hl'])
    · exact hKt
    · intro _ _; rfl
    · intro d hd
      exact h3 (k, t) hkt d hd

end Dask.TaskTerm
