import DaskModel.Model.Chunks
import DaskModel.Lemmas.ChunksPlanner
/-! Helper development for C23 (rechunk half): the loop invariant of `_intersect_1d` over the merged
breakpoints, and the value semantics of a correct plan. -/
namespace Dask.Chunks

/-! ### the five transitions of `_intersect_1d`'s loop body that occur for positive chunks -/

theorem step_oo (a b : Nat) (st : St) (lb br : Nat) (h : br ≠ lb) :
    step a b st (.o, lb) (.o, br) =
      { lastEnd := br - lb, oldIdx := st.oldIdx + 1, lastOEnd := br - lb, ret := st.ret,
        retNext := st.retNext ++ [⟨st.oldIdx, 0, br - lb⟩] } := by
  simp [step, h]

theorem step_on_tie (a b : Nat) (st : St) (lb : Nat) :
    step a b st (.o, lb) (.n, lb) =
      { lastEnd := 0, oldIdx := st.oldIdx, lastOEnd := st.lastOEnd, ret := st.ret, retNext := st.retNext } := by
  simp [step]

theorem step_on (a b : Nat) (st : St) (lb br : Nat) (h : br ≠ lb) :
    step a b st (.o, lb) (.n, br) =
      { lastEnd := br - lb, oldIdx := st.oldIdx, lastOEnd := st.lastOEnd, ret := st.ret,
        retNext := st.retNext ++ [⟨st.oldIdx, 0, br - lb⟩] } := by
  simp [step, h]

theorem step_no (a b : Nat) (st : St) (lb br : Nat) (h : br ≠ lb) :
    step a b st (.n, lb) (.o, br) =
      { lastEnd := br - lb + st.lastEnd, oldIdx := st.oldIdx + 1, lastOEnd := br - lb + st.lastEnd, ret := finish st,
        retNext := [⟨st.oldIdx, st.lastEnd, br - lb + st.lastEnd⟩] } := by
  simp [step, h, finish]

theorem step_nn (a b : Nat) (st : St) (lb br : Nat) (h : br ≠ lb) :
    step a b st (.n, lb) (.n, br) =
      { lastEnd := br - lb + st.lastEnd, oldIdx := st.oldIdx, lastOEnd := st.lastOEnd, ret := finish st,
        retNext := [⟨st.oldIdx, st.lastEnd, br - lb + st.lastEnd⟩] } := by
  simp [step, h, finish]

/-! ### breakpoints -/

/-- the breakpoints after the first one -/
def tl (a : Nat) (xs : List Nat) : List Nat := (cumsumFrom a xs).tail

theorem tl_nil (a : Nat) : tl a [] = [] := rfl
theorem tl_cons (a c : Nat) (cs : List Nat) : tl a (c :: cs) = cumsumFrom (a + c) cs := rfl
theorem cumsumFrom_eq (a : Nat) (xs : List Nat) : cumsumFrom a xs = a :: tl a xs := by
  cases xs <;> rfl

theorem merge_nil_left (cn : List Nat) : merge [] cn = cn.map (fun b => (Lab.n, b)) := by
  cases cn <;> simp [merge]

theorem merge_cons_cons (a b : Nat) (co cn : List Nat) :
    merge (a :: co) (b :: cn) = if a ≤ b then (Lab.o, a) :: merge co (b :: cn) else (Lab.n, b) :: merge (a :: co) cn := by
  simp [merge]

theorem merge_cons_nil (a : Nat) (co : List Nat) : merge (a :: co) [] = (Lab.o, a) :: merge co [] := by
  simp [merge]


/-! ### what a correct plan is -/

/-- piece `pc` reads the global range `[a, b)` out of its old chunk -/
def PieceOK (old : List Nat) (a b : Nat) (pc : Piece) : Prop :=
  ∃ pre c post, old = pre ++ c :: post ∧ pc.idx = pre.length ∧ sum pre + pc.start = a ∧ sum pre + pc.stop = b
    ∧ pc.stop ≤ c ∧ pc.start < pc.stop

/-- the pieces read the consecutive global ranges from `a` to `b` -/
def Chain (old : List Nat) : List Piece → Nat → Nat → Prop
  | [], a, b => a = b
  | pc :: ps, a, b => ∃ mid, PieceOK old a mid pc ∧ Chain old ps mid b

/-- group `j` of the plan reads exactly the global range of new chunk `j` -/
def Good (old : List Nat) : Nat → List Nat → List (List Piece) → Prop
  | _, [], [] => True
  | a, m :: ms, g :: gs => Chain old g a (a + m) ∧ Good old (a + m) ms gs
  | _, _, _ => False

theorem PieceOK.lt {old a b pc} (h : PieceOK old a b pc) : a < b := by
  obtain ⟨pre, c, post, _, _, h1, h2, _, h3⟩ := h; omega

theorem Chain.le {old} : ∀ {P a b}, Chain old P a b → a ≤ b
  | [], a, b, h => by simp [Chain] at h; omega
  | pc :: ps, a, b, h => by
    obtain ⟨mid, h1, h2⟩ := h
    have := h1.lt; have := Chain.le h2; omega

theorem Chain.snoc {old} : ∀ {P a b b' pc}, Chain old P a b → PieceOK old b b' pc → Chain old (P ++ [pc]) a b'
  | [], a, b, b', pc, h, hp => by
    simp only [Chain] at h; subst h
    exact ⟨b', hp, rfl⟩
  | q :: ps, a, b, b', pc, h, hp => by
    obtain ⟨mid, h1, h2⟩ := h
    exact ⟨mid, h1, Chain.snoc h2 hp⟩

theorem Chain.ne_nil {old P a b} (h : Chain old P a b) (hab : a < b) : P ≠ [] := by
  intro hP; subst hP; simp [Chain] at h; omega

theorem Good.snoc {old} : ∀ {nd : List Nat} {R : List (List Piece)} {a m g}, Good old a nd R →
    Chain old g (a + sum nd) (a + sum nd + m) → Good old a (nd ++ [m]) (R ++ [g])
  | [], [], a, m, g, _, hc => by
    simp only [sum, List.foldr_nil, Nat.add_zero] at hc
    exact ⟨hc, trivial⟩
  | [], _ :: _, _, _, _, h, _ => by simp [Good] at h
  | _ :: _, [], _, _, _, h, _ => by simp [Good] at h
  | n :: nd, r :: R, a, m, g, h, hc => by
    obtain ⟨h1, h2⟩ := h
    refine ⟨h1, Good.snoc h2 ?_⟩
    rw [sum_cons] at hc
    have e : a + n + sum nd = a + (n + sum nd) := by omega
    rw [e]; exact hc

theorem Good.length {old} : ∀ {nd : List Nat} {R : List (List Piece)} {a}, Good old a nd R → R.length = nd.length
  | [], [], _, _ => rfl
  | [], _ :: _, _, h => by simp [Good] at h
  | _ :: _, [], _, h => by simp [Good] at h
  | _ :: nd, _ :: R, _, h => by simp [Good.length h.2]


/-! ### the loop invariant -/

def PartialGood (old nd : List Nat) (p : Nat) (R : List (List Piece)) (P : List Piece) : Prop :=
  (nd = [] ∧ R = [] ∧ P = [] ∧ p = 0) ∨ (∃ ndi m, nd = ndi ++ [m] ∧ Good old 0 ndi R ∧ Chain old P (sum ndi) p)

def InvO (old new : List Nat) (p : Nat) (L : List (Lab × Nat)) (st : St) : Prop :=
  ∃ pre oldRest nd nr, old = pre ++ oldRest ∧ new = nd ++ nr ∧ st.oldIdx = pre.length ∧ p = sum pre ∧ sum pre ≤ sum nd ∧
    PartialGood old nd (sum pre) st.ret st.retNext ∧ L = merge (tl (sum pre) oldRest) (cumsumFrom (sum nd) nr)

def InvN (old new : List Nat) (y : Nat) (L : List (Lab × Nat)) (st : St) : Prop :=
  ∃ pre oldRest nd nr, old = pre ++ oldRest ∧ new = nd ++ nr ∧ st.oldIdx = pre.length ∧ y = sum nd ∧ sum pre ≤ sum nd ∧
    st.lastEnd = sum nd - sum pre ∧ (∀ c post, oldRest = c :: post → sum nd < sum pre + c) ∧
    (oldRest = [] → sum pre = sum nd) ∧ Good old 0 nd (finish st) ∧ L = merge (tl (sum pre) oldRest) (tl (sum nd) nr)

def Inv (old new : List Nat) : Lab × Nat → List (Lab × Nat) → St → Prop
  | (.o, p), L, st => InvO old new p L st
  | (.n, y), L, st => InvN old new y L st

theorem sum_pos_of_mem {l : List Nat} (h : ∀ c ∈ l, 0 < c) (hne : l ≠ []) : 0 < sum l := by
  cases l with
  | nil => exact absurd rfl hne
  | cons a t => rw [sum_cons]; have := h a (by simp); omega

theorem eq_nil_of_sum_zero {l : List Nat} (h : ∀ c ∈ l, 0 < c) (hs : sum l = 0) : l = [] := by
  cases l with
  | nil => rfl
  | cons a t => rw [sum_cons] at hs; have := h a (by simp); omega

/-- finishing a partial group that has reached the end of its new chunk -/
theorem PartialGood.finish {old nd : List Nat} {st : St} (hposn : ∀ c ∈ nd, 0 < c)
    (h : PartialGood old nd (sum nd) st.ret st.retNext) : Good old 0 nd (finish st) := by
  rcases h with ⟨h1, h2, h3, _⟩ | ⟨ndi, m, h1, h2, h3⟩
  · subst h1; simp [Chunks.finish, h2, h3, Good]
  · subst h1
    have hm : 0 < m := hposn m (by simp)
    have h3' : Chain old st.retNext (sum ndi) (sum ndi + m) := by
      rw [sum_append] at h3; exact h3
    have hne := h3'.ne_nil (by omega)
    simp only [Chunks.finish, hne, ne_eq, not_false_eq_true, if_true]
    exact Good.snoc h2 (by simpa using h3')


theorem sum_snoc (pre : List Nat) (c : Nat) : sum (pre ++ [c]) = sum pre + c := by
  rw [sum_append, sum_cons]; rfl

section Steps
variable {old new : List Nat} (hpo : ∀ c ∈ old, 0 < c) (hpn : ∀ c ∈ new, 0 < c) (hsum : sum old = sum new)
include hpo hpn hsum

theorem stepO (a b p : Nat) (cur : Lab × Nat) (rest : List (Lab × Nat)) (st : St)
    (h : InvO old new p (cur :: rest) st) : Inv old new cur rest (step a b st (.o, p) cur) := by
  obtain ⟨pre, oldRest, nd, nr, hold, hnew, hidx, hp, hle, hpg, hL⟩ := h
  subst hp
  have hposnd : ∀ c ∈ nd, 0 < c := fun c hc => hpn c (by rw [hnew]; exact List.mem_append_left _ hc)
  cases oldRest with
  | nil =>
    -- old exhausted: only the final new breakpoint (a tie) remains
    rw [tl_nil, merge_nil_left, cumsumFrom_eq, List.map_cons] at hL
    injection hL with hcur hrest
    subst hcur
    have hso : sum old = sum pre := by rw [hold, List.append_nil]
    have hsn : sum new = sum nd + sum nr := by rw [hnew, sum_append]
    have hy : sum nd = sum pre := by omega
    have hnr : nr = [] :=
      eq_nil_of_sum_zero (fun c hc => hpn c (by rw [hnew]; exact List.mem_append_right _ hc)) (by omega)
    rw [hy, step_on_tie]
    show InvN old new (sum pre) rest _
    have hgood : Good old 0 nd (finish st) := by
      have : PartialGood old nd (sum nd) st.ret st.retNext := by rw [hy]; exact hpg
      exact this.finish hposnd
    exact ⟨pre, [], nd, nr, hold, hnew, hidx, hy.symm, hle, (by simp [hy]), (fun c post hc => by cases hc),
      (fun _ => hy.symm), hgood, (by rw [hrest, tl_nil, merge_nil_left])⟩
  | cons c post =>
    have hc : 0 < c := hpo c (by rw [hold]; simp)
    rw [tl_cons, cumsumFrom_eq (sum pre + c), cumsumFrom_eq (sum nd), merge_cons_cons] at hL
    by_cases hcy : sum pre + c ≤ sum nd
    · -- next breakpoint is the end of the current old chunk
      rw [if_pos hcy] at hL
      injection hL with hcur hrest
      subst hcur
      rw [step_oo _ _ _ _ _ (by omega)]
      show InvO old new (sum pre + c) rest _
      have hpiece : PieceOK old (sum pre) (sum pre + c) ⟨st.oldIdx, 0, sum pre + c - sum pre⟩ :=
        ⟨pre, c, post, hold, hidx, (by simp), (by simp), (by simp), (by simp; omega)⟩
      have hpg' : PartialGood old nd (sum (pre ++ [c])) st.ret (st.retNext ++ [⟨st.oldIdx, 0, sum pre + c - sum pre⟩]) := by
        rcases hpg with ⟨h1, _, _, _⟩ | ⟨ndi, m, h1, h2, h3⟩
        · subst h1
          have : sum ([] : List Nat) = 0 := rfl
          omega
        · right
          refine ⟨ndi, m, h1, h2, ?_⟩
          rw [sum_snoc]
          exact h3.snoc hpiece
      exact ⟨pre ++ [c], post, nd, nr, (by rw [hold]; simp), hnew, (by simp [hidx]), (sum_snoc pre c).symm,
        (by rw [sum_snoc]; exact hcy), hpg', (by rw [hrest, sum_snoc, ← cumsumFrom_eq (sum nd)])⟩
    · -- next breakpoint is a new-chunk boundary inside (or at the start of) the current old chunk
      rw [if_neg hcy] at hL
      injection hL with hcur hrest
      subst hcur
      have hrest' : rest = merge (tl (sum pre) (c :: post)) (tl (sum nd) nr) := by
        rw [hrest, tl_cons, cumsumFrom_eq (sum pre + c)]
      by_cases hty : sum nd = sum pre
      · rw [hty, step_on_tie]
        show InvN old new (sum pre) rest _
        have hgood : Good old 0 nd (finish st) := by
          have : PartialGood old nd (sum nd) st.ret st.retNext := by rw [hty]; exact hpg
          exact this.finish hposnd
        exact ⟨pre, c :: post, nd, nr, hold, hnew, hidx, hty.symm, hle, (by simp [hty]),
          (fun c' post' hcp => by injection hcp with h1 _; subst h1; omega), (fun h => by cases h), hgood, hrest'⟩
      · rw [step_on _ _ _ _ _ hty]
        show InvN old new (sum nd) rest _
        have hpiece : PieceOK old (sum pre) (sum nd) ⟨st.oldIdx, 0, sum nd - sum pre⟩ :=
          ⟨pre, c, post, hold, hidx, (by simp), (by simp; omega), (by simp; omega), (by simp; omega)⟩
        have hpg' : PartialGood old nd (sum nd) st.ret (st.retNext ++ [⟨st.oldIdx, 0, sum nd - sum pre⟩]) := by
          rcases hpg with ⟨h1, _, _, _⟩ | ⟨ndi, m, h1, h2, h3⟩
          · subst h1
            have : sum ([] : List Nat) = 0 := rfl
            omega
          · exact Or.inr ⟨ndi, m, h1, h2, h3.snoc hpiece⟩
        have hgood := PartialGood.finish (old := old) (nd := nd)
          (st := ⟨sum nd - sum pre, st.oldIdx, st.lastOEnd, st.ret, st.retNext ++ [⟨st.oldIdx, 0, sum nd - sum pre⟩]⟩) hposnd hpg'
        exact ⟨pre, c :: post, nd, nr, hold, hnew, hidx, rfl, hle, rfl,
          (fun c' post' hcp => by injection hcp with h1 _; subst h1; omega), (fun h => by cases h), hgood, hrest'⟩

theorem stepN (a b y : Nat) (cur : Lab × Nat) (rest : List (Lab × Nat)) (st : St)
    (h : InvN old new y (cur :: rest) st) : Inv old new cur rest (step a b st (.n, y) cur) := by
  obtain ⟨pre, oldRest, nd, nr, hold, hnew, hidx, hy, hle, hlast, hlt, hend, hgood, hL⟩ := h
  subst hy
  have hso : sum old = sum pre + sum oldRest := by rw [hold, sum_append]
  have hsn : sum new = sum nd + sum nr := by rw [hnew, sum_append]
  cases nr with
  | nil =>
    exfalso
    have hnr0 : sum ([] : List Nat) = 0 := rfl
    cases oldRest with
    | nil => rw [tl_nil, tl_nil] at hL; simp [merge] at hL
    | cons c post =>
      have := hlt c post rfl
      rw [sum_cons] at hso
      omega
  | cons m nr' =>
    have hm : 0 < m := hpn m (by rw [hnew]; simp)
    rw [sum_cons] at hsn
    cases oldRest with
    | nil =>
      exfalso
      have := hend rfl
      have h0 : sum ([] : List Nat) = 0 := rfl
      omega
    | cons c post =>
      have hc : 0 < c := hpo c (by rw [hold]; simp)
      have hltc := hlt c post rfl
      rw [tl_cons, tl_cons, cumsumFrom_eq (sum pre + c), cumsumFrom_eq (sum nd + m), merge_cons_cons] at hL
      by_cases hcy : sum pre + c ≤ sum nd + m
      · -- the current old chunk ends first
        rw [if_pos hcy] at hL
        injection hL with hcur hrest
        subst hcur
        rw [step_no _ _ _ _ _ (by omega)]
        show InvO old new (sum pre + c) rest _
        have hpiece : PieceOK old (sum nd) (sum pre + c) ⟨st.oldIdx, st.lastEnd, sum pre + c - sum nd + st.lastEnd⟩ :=
          ⟨pre, c, post, hold, hidx, (by simp; omega), (by simp; omega), (by simp; omega), (by simp; omega)⟩
        have hpg : PartialGood old (nd ++ [m]) (sum (pre ++ [c])) (finish st)
            [⟨st.oldIdx, st.lastEnd, sum pre + c - sum nd + st.lastEnd⟩] := by
          right
          refine ⟨nd, m, rfl, hgood, ?_⟩
          rw [sum_snoc]
          exact ⟨sum pre + c, hpiece, rfl⟩
        exact ⟨pre ++ [c], post, nd ++ [m], nr', (by rw [hold]; simp), (by rw [hnew]; simp), (by simp [hidx]),
          (sum_snoc pre c).symm, (by rw [sum_snoc, sum_snoc]; exact hcy), hpg,
          (by rw [hrest, sum_snoc, sum_snoc, ← cumsumFrom_eq (sum nd + m)])⟩
      · -- the next new chunk ends inside the current old chunk
        rw [if_neg hcy] at hL
        injection hL with hcur hrest
        subst hcur
        rw [step_nn _ _ _ _ _ (by omega)]
        show InvN old new (sum nd + m) rest _
        have hpiece : PieceOK old (sum nd) (sum nd + m) ⟨st.oldIdx, st.lastEnd, sum nd + m - sum nd + st.lastEnd⟩ :=
          ⟨pre, c, post, hold, hidx, (by simp; omega), (by simp; omega), (by simp; omega), (by simp; omega)⟩
        have hgood' : Good old 0 (nd ++ [m]) (finish st ++ [[⟨st.oldIdx, st.lastEnd, sum nd + m - sum nd + st.lastEnd⟩]]) :=
          Good.snoc hgood (by simp only [Nat.zero_add]; exact ⟨sum nd + m, hpiece, rfl⟩)
        refine ⟨pre, c :: post, nd ++ [m], nr', hold, (by rw [hnew]; simp), hidx, (sum_snoc nd m).symm,
          (by rw [sum_snoc]; omega), (by rw [sum_snoc]; simp; omega),
          (fun c' post' hcp => by injection hcp with h1 _; subst h1; rw [sum_snoc]; omega), (fun h => by cases h), ?_,
          (by rw [hrest, sum_snoc, tl_cons, cumsumFrom_eq (sum pre + c)])⟩
        simpa [Chunks.finish] using hgood'

theorem loop_good (a b : Nat) : ∀ (L : List (Lab × Nat)) (prev : Lab × Nat) (st : St),
    Inv old new prev L st → Good old 0 new (finish (loop a b prev L st))
  | [], prev, st, h => by
    simp only [loop]
    obtain ⟨lab, v⟩ := prev
    cases lab with
    | o =>
      obtain ⟨pre, oldRest, nd, nr, _, _, _, _, _, _, hL⟩ := h
      exfalso
      rw [cumsumFrom_eq (sum nd)] at hL
      cases hm : tl (sum pre) oldRest with
      | nil => rw [hm, merge_nil_left] at hL; simp at hL
      | cons x xs => rw [hm, merge_cons_cons] at hL; split at hL <;> simp at hL
    | n =>
      obtain ⟨pre, oldRest, nd, nr, hold, hnew, _, _, _, _, hlt, hend, hgood, hL⟩ := h
      have hso : sum old = sum pre + sum oldRest := by rw [hold, sum_append]
      have hsn : sum new = sum nd + sum nr := by rw [hnew, sum_append]
      have hnr : nr = [] := by
        cases nr with
        | nil => rfl
        | cons m nr' =>
          exfalso
          rw [tl_cons, cumsumFrom_eq] at hL
          cases hm : tl (sum pre) oldRest with
          | nil => rw [hm, merge_nil_left] at hL; simp at hL
          | cons x xs => rw [hm, merge_cons_cons] at hL; split at hL <;> simp at hL
      subst hnr
      rw [List.append_nil] at hnew
      rw [hnew]; exact hgood
  | cur :: rest, prev, st, h => by
    simp only [loop]
    obtain ⟨lab, v⟩ := prev
    cases lab with
    | o => exact loop_good a b rest cur _ (stepO hpo hpn hsum a b v cur rest st h)
    | n => exact loop_good a b rest cur _ (stepN hpo hpn hsum a b v cur rest st h)

end Steps

/-- **intersect1d_covers** (helper form): for positive old/new chunks of equal total, the plan of `_intersect_1d`
    lists, for every new chunk, pieces that are in order, inside their old chunk, non-empty, and that read
    exactly the global range of that new chunk. -/
theorem intersect1d_good {old new : List Nat} (hpo : ∀ c ∈ old, 0 < c) (hpn : ∀ c ∈ new, 0 < c)
    (hsum : sum old = sum new) (hne : old ≠ []) :
    ∃ plan, intersect1d old new = some plan ∧ Good old 0 new plan := by
  unfold intersect1d
  rw [if_neg hne]
  unfold cumsum0
  rw [cumsumFrom_eq 0 old, cumsumFrom_eq 0 new, merge_cons_cons, if_pos (Nat.le_refl 0)]
  refine ⟨_, rfl, ?_⟩
  apply loop_good hpo hpn hsum
  show InvO old new 0 _ _
  exact ⟨[], old, [], new, rfl, rfl, rfl, rfl, Nat.le_refl _, Or.inl ⟨rfl, rfl, rfl, rfl⟩, (by rw [← cumsumFrom_eq 0 new]; rfl)⟩


/-! ### values: applying a good plan to the old blocks gives the new blocks -/

theorem splitBy_getD_pre {α} : ∀ (pre : List Nat) (c : Nat) (post : List Nat) (xs : List α),
    (splitBy (pre ++ c :: post) xs).getD pre.length [] = (xs.drop (sum pre)).take c
  | [], c, post, xs => by simp [splitBy, sum]
  | p :: pre, c, post, xs => by
    simp only [List.cons_append, splitBy, List.length_cons, List.getD_cons_succ, sum_cons]
    rw [splitBy_getD_pre pre c post (xs.drop p), List.drop_drop]

/-- the slice `getitem(old_block, slice(start, stop))` a piece denotes -/
def pieceSlice {α} (blocks : List (List α)) (p : Piece) : List α :=
  ((blocks.getD p.idx []).drop p.start).take (p.stop - p.start)

theorem piece_values {α} {old : List Nat} {a b : Nat} {pc : Piece} (xs : List α) (h : PieceOK old a b pc) :
    pieceSlice (splitBy old xs) pc = (xs.drop a).take (b - a) := by
  obtain ⟨pre, c, post, hold, hidx, ha, hb, hle, hlt⟩ := h
  unfold pieceSlice
  rw [hold, hidx, splitBy_getD_pre, List.drop_take, List.take_take, List.drop_drop]
  have e1 : min (pc.stop - pc.start) (c - pc.start) = b - a := by omega
  have e2 : sum pre + pc.start = a := ha
  rw [e1, e2]

theorem take_append_take_drop {α} (l : List α) (m k : Nat) : l.take m ++ (l.drop m).take k = l.take (m + k) := by
  rw [List.take_add]

theorem chain_values {α} {old : List Nat} (xs : List α) : ∀ {g : List Piece} {a b : Nat}, Chain old g a b →
    g.flatMap (pieceSlice (splitBy old xs)) = (xs.drop a).take (b - a)
  | [], a, b, h => by simp only [Chain] at h; subst h; simp
  | pc :: ps, a, b, h => by
    obtain ⟨mid, h1, h2⟩ := h
    have hlt := h1.lt
    have hle := h2.le
    rw [List.flatMap_cons, piece_values xs h1, chain_values xs h2]
    have e : xs.drop mid = (xs.drop a).drop (mid - a) := by rw [List.drop_drop]; congr 1; omega
    rw [e, take_append_take_drop]
    congr 1; omega

theorem applyPlan_eq {α} (blocks : List (List α)) (plan : List (List Piece)) :
    applyPlan blocks plan = plan.map (fun g => g.flatMap (pieceSlice blocks)) := rfl

theorem good_values {α} {old : List Nat} (xs : List α) : ∀ {new : List Nat} {plan : List (List Piece)} {a : Nat},
    Good old a new plan → applyPlan (splitBy old xs) plan = splitBy new (xs.drop a)
  | [], [], _, _ => by simp [applyPlan_eq, splitBy]
  | [], _ :: _, _, h => by simp [Good] at h
  | _ :: _, [], _, h => by simp [Good] at h
  | m :: ms, g :: gs, a, h => by
    obtain ⟨h1, h2⟩ := h
    have ih := good_values xs h2
    rw [applyPlan_eq] at ih ⊢
    simp only [List.map_cons, splitBy]
    rw [ih, chain_values xs h1, List.drop_drop]
    congr 2; omega

theorem splitBy_flatten {α} : ∀ (cs : List Nat) (xs : List α), xs.length = sum cs → (splitBy cs xs).flatten = xs
  | [], xs, h => by
    have : xs = [] := List.eq_nil_of_length_eq_zero (by simpa [sum] using h)
    subst this; rfl
  | c :: cs, xs, h => by
    rw [sum_cons] at h
    simp only [splitBy, List.flatten_cons]
    rw [splitBy_flatten cs (xs.drop c) (by simp; omega), List.take_append_drop]

end Dask.Chunks
