import DaskModel.Model.LegacyInline
import DaskModel.Lemmas.LegacyInline1
import DaskModel.Lemmas.LegacyInline2
import DaskModel.Lemmas.Pickle
/-! C09 extension round, part 3: the two loops of `inline` on a replace order with the properties C07 proves about
`toposort` (`TopoOK`). -/
namespace Dask.TaskTerm

/-- what `toposort` guarantees about `replaceorder` (C07): graph keys only, dependencies first, every key to inline -/
structure TopoOK (g : LGraph) (S order : List Obj) : Prop where
  inG : ∀ k ∈ order, (g.lookup k).isSome
  depsFirst : ∀ pre key post, order = pre ++ key :: post → ∀ t, g.lookup key = some t →
    ∀ d ∈ legacyRefs (g.map Prod.fst) t, d ∈ pre
  start : ∀ k ∈ S, k ∈ g.map Prod.fst → k ∈ order

/-- an iteration order of a set visits exactly its members -/
def IterOK (iter : List Obj → List Obj) : Prop := ∀ l x, x ∈ iter l ↔ x ∈ l

theorem mem_of_mem_dedup : ∀ (xs : List Obj) (x : Obj), x ∈ dedup xs → x ∈ xs
  | [], _, h => by simp [dedup] at h
  | y :: ys, x, h => by
    unfold dedup at h
    split at h
    · exact List.mem_cons_of_mem _ (mem_of_mem_dedup ys x h)
    · rcases List.mem_cons.mp h with rfl | h
      · simp
      · exact List.mem_cons_of_mem _ (mem_of_mem_dedup ys x h)

theorem mem_interS {iter : List Obj → List Obj} (hiter : IterOK iter) (S K : List Obj) (t x : Obj) :
    x ∈ interS iter S K t ↔ x ∈ legacyRefs K t ∧ x ∈ S := by
  unfold interS refSet
  rw [hiter, List.mem_filter]
  constructor
  · rintro ⟨h1, h2⟩; exact ⟨mem_of_mem_dedup _ _ h1, by simpa using h2⟩
  · rintro ⟨h1, h2⟩; exact ⟨mem_dedup _ _ h1, by simpa using h2⟩

theorem lookup_some_mem (g : LGraph) (k t : Obj) (h : g.lookup k = some t) : (k, t) ∈ g := by
  induction g with
  | nil => simp at h
  | cons kv rest ih =>
    obtain ⟨k', v'⟩ := kv
    simp only [List.lookup] at h
    split at h
    · rename_i heq
      have : k = k' := eq_of_beq heq
      cases h; subst this; simp
    · exact List.mem_cons_of_mem _ (ih h)

theorem lookup_of_mem_nodupL (g : LGraph) (hnd : (g.map Prod.fst).Nodup) (k t : Obj) (h : (k, t) ∈ g) :
    g.lookup k = some t := by
  induction g with
  | nil => simp at h
  | cons kv rest ih =>
    obtain ⟨k', v'⟩ := kv
    simp only [List.map_cons, List.nodup_cons] at hnd
    rcases List.mem_cons.mp h with he | hm
    · cases he; simp [List.lookup]
    · have hne : (k == k') = false := by
        rw [Bool.eq_false_iff]; intro hc
        have : k = k' := eq_of_beq hc
        subst this
        exact hnd.1 (List.mem_map.mpr ⟨(k, t), hm, rfl⟩)
      simp only [List.lookup, hne]
      exact ih hnd.2 hm

theorem mem_keys_lookup_isSome (g : LGraph) (k : Obj) (h : k ∈ g.map Prod.fst) : (g.lookup k).isSome := by
  induction g with
  | nil => simp at h
  | cons kv rest ih =>
    obtain ⟨k', v'⟩ := kv
    simp only [List.lookup]
    by_cases hk : (k == k') = true
    · simp [hk]
    · have hk' : (k == k') = false := by simpa using hk
      simp only [hk']
      apply ih
      simp only [List.map_cons, List.mem_cons] at h
      rcases h with rfl | h
      · simp at hk'
      · exact h

/-! ### `substDeps` -/

theorem substDeps_total (look : Obj → Option Obj) : ∀ (ds : List Obj) (val : Obj), (∀ d ∈ ds, (look d).isSome) →
    ∃ v, substDeps look ds val = some v
  | [], val, _ => ⟨val, rfl⟩
  | d :: ds, val, h => by
    obtain ⟨r, hr⟩ := Option.isSome_iff_exists.mp (h d (by simp))
    obtain ⟨v, hv⟩ := substDeps_total look ds (subs d r val) (fun d' hd' => h d' (List.mem_cons_of_mem _ hd'))
    exact ⟨v, by simp only [substDeps, hr, hv]⟩

theorem substDeps_eval (K : List Obj) (env : Obj → Option Obj) (look : Obj → Option Obj) :
    ∀ (ds : List Obj) (val v : Obj), substDeps look ds val = some v →
      (∀ d ∈ ds, inKeys K d = true ∧ ∀ r, look d = some r → env d = evalObj K env r) →
      evalObj K env v = evalObj K env val
  | [], val, v, h, _ => by simp only [substDeps, Option.some.injEq] at h; rw [h]
  | d :: ds, val, v, h, hd => by
    simp only [substDeps] at h
    cases hr : look d with
    | none => rw [hr] at h; cases h
    | some r =>
      rw [hr] at h
      simp only at h
      rw [substDeps_eval K env look ds _ v h (fun d' hd' => hd d' (List.mem_cons_of_mem _ hd'))]
      obtain ⟨h1, h2⟩ := hd d (by simp)
      exact subs_eval K env d r h1 (h2 r hr) val

theorem substDeps_refs (K : List Obj) (look : Obj → Option Obj) :
    ∀ (ds : List Obj) (val v : Obj), substDeps look ds val = some v → ∀ x ∈ legacyRefs K v,
      (x ∈ legacyRefs K val ∧ x ∉ ds) ∨ ∃ d ∈ ds, ∃ r, look d = some r ∧ x ∈ legacyRefs K r
  | [], val, v, h, x, hx => by
    simp only [substDeps, Option.some.injEq] at h
    subst h
    exact Or.inl ⟨hx, by simp⟩
  | d :: ds, val, v, h, x, hx => by
    simp only [substDeps] at h
    cases hr : look d with
    | none => rw [hr] at h; cases h
    | some r =>
      rw [hr] at h
      simp only at h
      rcases substDeps_refs K look ds _ v h x hx with ⟨h1, h2⟩ | ⟨d', hd', r', hr', hx'⟩
      · rcases legacyRefs_subs K d r val x h1 with ⟨h3, h4⟩ | h3
        · refine Or.inl ⟨h3, ?_⟩
          simp only [List.mem_cons, not_or]
          exact ⟨h4, h2⟩
        · exact Or.inr ⟨d, by simp, r, hr, h3⟩
      · exact Or.inr ⟨d', List.mem_cons_of_mem _ hd', r', hr', hx'⟩

/-! ### one entry -/

/-- `v` is a correct, completely inlined replacement of the entry `k ↦ t` -/
structure GoodRepl (g : LGraph) (S : List Obj) (rank : Obj → Nat) (k t v : Obj) : Prop where
  ev : ∀ cache ρ, Solution g (g.map Prod.fst) cache ρ → evalObj (g.map Prod.fst) ρ v = evalObj (g.map Prod.fst) ρ t
  rk : ∀ x ∈ legacyRefs (g.map Prod.fst) v, rank x < rank k
  cl : ∀ x ∈ legacyRefs (g.map Prod.fst) v, x ∉ S

theorem subst_good {iter : List Obj → List Obj} (hiter : IterOK iter) (g : LGraph)
    (hKt : ∀ k ∈ g.map Prod.fst, k.keyTyped = true) (rank : Obj → Nat) (hdag : DagL g rank) (S : List Obj)
    (look : Obj → Option Obj) (key t : Obj) (hl : g.lookup key = some t)
    (hlook : ∀ d ∈ interS iter S (g.map Prod.fst) t, ∃ r td, look d = some r ∧ g.lookup d = some td ∧ GoodRepl g S rank d td r) :
    ∃ v, substDeps look (interS iter S (g.map Prod.fst) t) t = some v ∧ GoodRepl g S rank key t v := by
  obtain ⟨v, hv⟩ := substDeps_total look (interS iter S (g.map Prod.fst) t) t (fun d hd => by
    obtain ⟨r, _, hr, _⟩ := hlook d hd; simp [hr])
  refine ⟨v, hv, ?_, ?_, ?_⟩
  · intro cache ρ hsol
    apply substDeps_eval _ ρ look _ t v hv
    intro d hd
    obtain ⟨r, td, hr, htd, hg⟩ := hlook d hd
    refine ⟨legacyRefs_inKeys _ hKt t d ((mem_interS hiter S _ t d).mp hd).1, ?_⟩
    intro r' hr'
    rw [hr] at hr'; cases hr'
    have := hsol d
    rw [htd] at this
    rw [this, hg.ev cache ρ hsol]
  · intro x hx
    rcases substDeps_refs _ look _ t v hv x hx with ⟨h1, _⟩ | ⟨d, hd, r', hr', hx'⟩
    · exact hdag key t hl x h1
    · obtain ⟨r, td, hr, htd, hg⟩ := hlook d hd
      rw [hr] at hr'; cases hr'
      have h1 := hg.rk x hx'
      have h2 := hdag key t hl d ((mem_interS hiter S _ t d).mp hd).1
      omega
  · intro x hx hxS
    rcases substDeps_refs _ look _ t v hv x hx with ⟨h1, h2⟩ | ⟨d, hd, r', hr', hx'⟩
    · exact h2 ((mem_interS hiter S _ t x).mpr ⟨h1, hxS⟩)
    · obtain ⟨r, td, hr, htd, hg⟩ := hlook d hd
      rw [hr] at hr'; cases hr'
      exact hg.cl x hx' hxS

/-! ### the `keysubs` loop -/

structure KInv (g : LGraph) (S : List Obj) (rank : Obj → Nat) (pre : List Obj) (ks : LGraph) : Prop where
  dom : ∀ k, (ks.lookup k).isSome ↔ k ∈ pre
  good : ∀ k v, ks.lookup k = some v → ∃ t, g.lookup k = some t ∧ GoodRepl g S rank k t v

theorem keysubsLoop_spec {iter : List Obj → List Obj} (hiter : IterOK iter) (g : LGraph)
    (hKt : ∀ k ∈ g.map Prod.fst, k.keyTyped = true) (rank : Obj → Nat) (hdag : DagL g rank) (S order : List Obj)
    (hto : TopoOK g S order) : ∀ (rest pre : List Obj) (ks : LGraph), order = pre ++ rest → KInv g S rank pre ks →
    ∃ ks', keysubsLoop iter g (g.map Prod.fst) S rest ks = some ks' ∧ KInv g S rank order ks'
  | [], pre, ks, ho, hi => by
    simp only [List.append_nil] at ho
    subst ho
    exact ⟨ks, rfl, hi⟩
  | key :: rest, pre, ks, ho, hi => by
    obtain ⟨t, hl⟩ := Option.isSome_iff_exists.mp (hto.inG key (by rw [ho]; simp))
    have hlook : ∀ d ∈ interS iter S (g.map Prod.fst) t,
        ∃ r td, replaceOf g ks d = some r ∧ g.lookup d = some td ∧ GoodRepl g S rank d td r := by
      intro d hd
      have hdp : d ∈ pre := hto.depsFirst pre key rest ho t hl d ((mem_interS hiter S _ t d).mp hd).1
      obtain ⟨r, hr⟩ := Option.isSome_iff_exists.mp ((hi.dom d).mpr hdp)
      obtain ⟨td, htd, hg⟩ := hi.good d r hr
      exact ⟨r, td, by simp only [replaceOf, hr], htd, hg⟩
    obtain ⟨v, hv, hg⟩ := subst_good hiter g hKt rank hdag S (replaceOf g ks) key t hl hlook
    have hi' : KInv g S rank (pre ++ [key]) (dictSet ks key v) := by
      refine ⟨?_, ?_⟩
      · intro k
        rw [Dask.Pickle.lookup_dictSet]
        by_cases hk : k = key
        · subst hk; simp
        · simp only [hk, if_false, List.mem_append, List.mem_singleton, or_false]
          exact hi.dom k
      · intro k v' hkv
        rw [Dask.Pickle.lookup_dictSet] at hkv
        by_cases hk : k = key
        · subst hk
          simp only [if_true, Option.some.injEq] at hkv
          subst hkv
          exact ⟨t, hl, hg⟩
        · simp only [hk, if_false] at hkv
          exact hi.good k v' hkv
    obtain ⟨ks', hks', hinv⟩ := keysubsLoop_spec hiter g hKt rank hdag S order hto rest (pre ++ [key])
      (dictSet ks key v) (by rw [ho]; simp) hi'
    exact ⟨ks', by simp only [keysubsLoop, hl, hv, hks'], hinv⟩

/-! ### the loop over the remaining entries -/

def RInv (g : LGraph) (S : List Obj) (rank : Obj → Nat) (acc : LGraph) : Prop :=
  ∀ k v, acc.lookup k = some v → ∃ t, g.lookup k = some t ∧ GoodRepl g S rank k t v

theorem restLoop_spec {iter : List Obj → List Obj} (hiter : IterOK iter) (g : LGraph)
    (hKt : ∀ k ∈ g.map Prod.fst, k.keyTyped = true) (rank : Obj → Nat) (hdag : DagL g rank) (S order : List Obj)
    (hto : TopoOK g S order) (ks : LGraph) (hks : KInv g S rank order ks) :
    ∀ (rest acc : LGraph), (∀ kv ∈ rest, g.lookup kv.1 = some kv.2) → RInv g S rank acc →
    ∃ acc', restLoop iter (g.map Prod.fst) S ks rest acc = some acc' ∧ RInv g S rank acc' ∧
      (∀ k, (acc.lookup k).isSome → (acc'.lookup k).isSome) ∧ (∀ kv ∈ rest, (acc'.lookup kv.1).isSome)
  | [], acc, _, hi => ⟨acc, rfl, hi, fun _ h => h, by simp⟩
  | (key, t) :: rest, acc, hr, hi => by
    have hrest : ∀ kv ∈ rest, g.lookup kv.1 = some kv.2 := fun kv h => hr kv (List.mem_cons_of_mem _ h)
    by_cases hin : (acc.lookup key).isSome = true
    · obtain ⟨acc', h1, h2, h3, h4⟩ := restLoop_spec hiter g hKt rank hdag S order hto ks hks rest acc hrest hi
      refine ⟨acc', by simp only [restLoop, hin, if_true, h1], h2, h3, ?_⟩
      intro kv hkv
      rcases List.mem_cons.mp hkv with rfl | hkv
      · exact h3 _ hin
      · exact h4 kv hkv
    · have hl : g.lookup key = some t := hr (key, t) (by simp)
      have hlook : ∀ d ∈ interS iter S (g.map Prod.fst) t,
          ∃ r td, (fun d => ks.lookup d) d = some r ∧ g.lookup d = some td ∧ GoodRepl g S rank d td r := by
        intro d hd
        obtain ⟨hd1, hd2⟩ := (mem_interS hiter S _ t d).mp hd
        have hdo : d ∈ order := hto.start d hd2 (legacyRefs_mem _ t d hd1)
        obtain ⟨r, hr'⟩ := Option.isSome_iff_exists.mp ((hks.dom d).mpr hdo)
        obtain ⟨td, htd, hg⟩ := hks.good d r hr'
        exact ⟨r, td, hr', htd, hg⟩
      obtain ⟨v, hv, hg⟩ := subst_good hiter g hKt rank hdag S (fun d => ks.lookup d) key t hl hlook
      have hi' : RInv g S rank (dictSet acc key v) := by
        intro k v' hkv
        rw [Dask.Pickle.lookup_dictSet] at hkv
        by_cases hk : k = key
        · subst hk
          simp only [if_true, Option.some.injEq] at hkv
          subst hkv
          exact ⟨t, hl, hg⟩
        · simp only [hk, if_false] at hkv
          exact hi k v' hkv
      obtain ⟨acc', h1, h2, h3, h4⟩ := restLoop_spec hiter g hKt rank hdag S order hto ks hks rest
        (dictSet acc key v) hrest hi'
      have hmono : ∀ k, (acc.lookup k).isSome → ((dictSet acc key v).lookup k).isSome := by
        intro k hk
        rw [Dask.Pickle.lookup_dictSet]
        split
        · rfl
        · exact hk
      refine ⟨acc', by simp only [restLoop, hin, Bool.false_eq_true, if_false, hv, h1], h2,
        fun k hk => h3 k (hmono k hk), ?_⟩
      intro kv hkv
      rcases List.mem_cons.mp hkv with rfl | hkv
      · apply h3
        rw [Dask.Pickle.lookup_dictSet]
        simp
      · exact h4 kv hkv

/-- **The two loops of `inline`** on a replace order with the properties of a `toposort` result: they return, the result
    has the keys of the input, and every entry is a correct, completely inlined replacement of the input's entry. -/
theorem inlineWith_spec {iter : List Obj → List Obj} (hiter : IterOK iter) (g : LGraph)
    (hnd : (g.map Prod.fst).Nodup) (hKt : ∀ k ∈ g.map Prod.fst, k.keyTyped = true) (rank : Obj → Nat)
    (hdag : DagL g rank) (S order : List Obj) (hto : TopoOK g S order) :
    ∃ h, inlineWith iter order g S = some h ∧ (∀ k, (h.lookup k).isSome ↔ (g.lookup k).isSome) ∧
      ∀ k v, h.lookup k = some v → ∃ t, g.lookup k = some t ∧ GoodRepl g S rank k t v := by
  obtain ⟨ks, hks, hki⟩ := keysubsLoop_spec hiter g hKt rank hdag S order hto order [] [] (by simp)
    ⟨by simp, by simp⟩
  obtain ⟨h, hh, hri, _, hall⟩ := restLoop_spec hiter g hKt rank hdag S order hto ks hki g ks
    (fun kv hkv => lookup_of_mem_nodupL g hnd kv.1 kv.2 hkv) hki.good
  refine ⟨h, by simp only [inlineWith, hks, hh], ?_, hri⟩
  intro k
  constructor
  · intro hk
    obtain ⟨v, hv⟩ := Option.isSome_iff_exists.mp hk
    obtain ⟨t, ht, _⟩ := hri k v hv
    simp [ht]
  · intro hk
    obtain ⟨t, ht⟩ := Option.isSome_iff_exists.mp hk
    exact hall (k, t) (lookup_some_mem g k t ht)

end Dask.TaskTerm
