import DaskModel.Model.IntDaskIndex
/-
Lemmas for `Props/C20x.lean` (`int_dask_index_den`): the chunk function reads, as global positions, the entries of
the (normalised) index that lie in its block; the aggregation loop keeps the invariant `Rel` (an entry below the
running offset points at its own value in the outputs collected so far, every other entry is still 0).
-/
namespace Dask.IntDaskIndex

theorem blocksFrom_cons (acc c : Nat) (cs : List Nat) :
    blocksFrom acc (c :: cs) = (acc, c) :: blocksFrom (acc + c) cs := by
  simp [blocksFrom, offsetsFrom]

/-- the outputs collected from the blocks starting at `xoff`: the entries of `J` in each block, block after block -/
def outsFrom (J : List Int) : Nat → List Nat → List Int
  | _, [] => []
  | xoff, c :: cs => J.filter (inBlock xoff c) ++ outsFrom J (xoff + c) cs

/-- the chunk function, read as global positions, keeps exactly the normalised entries inside its block, in order -/
theorem chunkGlobal_eq (xsize off len : Nat) (idx : List Int) :
    chunkGlobal xsize off len idx = (idx.map (norm xsize)).filter (inBlock off len) := by
  unfold chunkGlobal chunkFn
  induction idx with
  | nil => rfl
  | cons v vs ih =>
    simp only [List.map_cons, List.filter_cons]
    by_cases h : (off : Int) ≤ norm xsize v ∧ norm xsize v < (off : Int) + len
    · have h1 : decide (0 ≤ norm xsize v - off ∧ norm xsize v - off < (len : Int)) = true := by
        simp only [decide_eq_true_eq]; omega
      have h2 : inBlock off len (norm xsize v) = true := by simp only [inBlock, decide_eq_true_eq]; exact h
      rw [h1, h2]
      simp only [if_true, List.map_cons]
      rw [ih]
      congr 1
      omega
    · have h1 : decide (0 ≤ norm xsize v - off ∧ norm xsize v - off < (len : Int)) = false := by
        simp only [decide_eq_false_iff_not]; omega
      have h2 : inBlock off len (norm xsize v) = false := by simp only [inBlock, decide_eq_false_iff_not]; exact h
      rw [h1, h2]
      simpa using ih

theorem flatMap_blocksFrom (xsize : Nat) (idx : List Int) (cs : List Nat) (xoff : Nat) :
    (blocksFrom xoff cs).flatMap (fun b => chunkGlobal xsize b.1 b.2 idx)
      = outsFrom (idx.map (norm xsize)) xoff cs := by
  induction cs generalizing xoff with
  | nil => simp [blocksFrom, offsetsFrom, outsFrom]
  | cons c cs ih =>
    rw [blocksFrom_cons, List.flatMap_cons, ih, outsFrom, chunkGlobal_eq]

theorem chunkOutputs_eq (lengths : List Nat) (idx : List Int) :
    chunkOutputs lengths idx = outsFrom (idx.map (norm lengths.sum)) 0 lengths :=
  flatMap_blocksFrom lengths.sum idx lengths 0

theorem lastCum_eq (xoff c : Nat) (J : List Int) (cum : Int) :
    lastCum xoff c cum J = cum + (J.filter (inBlock xoff c)).length := by
  induction J generalizing cum with
  | nil => simp [lastCum]
  | cons v vs ih =>
    rw [lastCum, ih, List.filter_cons]
    by_cases h : inBlock xoff c v = true
    · simp only [h, if_true, List.length_cons]; omega
    · simp only [h]; simp

/-- the invariant of the aggregation loop for one (value, idx_final entry) pair -/
def Rel (xoff : Nat) (pre : List Int) (v f : Int) : Prop :=
  (v < xoff → ∃ k : Nat, f = k ∧ pre[k]? = some v) ∧ ((xoff : Int) ≤ v → f = 0)

theorem stepGo_spec (xoff c : Nat) (pre : List Int) :
    ∀ (rest done fin : List Int), fin.length = rest.length →
      (∀ vf ∈ rest.zip fin, Rel xoff pre vf.1 vf.2) →
      (stepGo xoff c pre.length ((done.filter (inBlock xoff c)).length) rest fin).length = rest.length ∧
      ∀ vf ∈ rest.zip (stepGo xoff c pre.length ((done.filter (inBlock xoff c)).length) rest fin),
        Rel (xoff + c) (pre ++ (done ++ rest).filter (inBlock xoff c)) vf.1 vf.2 := by
  intro rest
  induction rest with
  | nil => intro done fin _ _; simp [stepGo]
  | cons v vs ih =>
    intro done fin hlen hrel
    cases fin with
    | nil => simp at hlen
    | cons f fs =>
      have hlen' : fs.length = vs.length := by simpa using hlen
      have hv : Rel xoff pre v f := hrel (v, f) (by simp)
      have hrest : ∀ vf ∈ vs.zip fs, Rel xoff pre vf.1 vf.2 := fun vf h => hrel vf (by simp [h])
      have hcum : ((done.filter (inBlock xoff c)).length : Int) + (if inBlock xoff c v then 1 else 0)
          = (((done ++ [v]).filter (inBlock xoff c)).length : Int) := by
        rw [List.filter_append, List.length_append, List.filter_cons]
        by_cases h : inBlock xoff c v = true
        · simp [h]
        · simp [h]
      have hih := ih (done ++ [v]) fs hlen' hrest
      have happ : done ++ [v] ++ vs = done ++ v :: vs := by simp
      rw [happ] at hih
      simp only [stepGo]
      rw [hcum]
      refine ⟨by rw [List.length_cons, hih.1, List.length_cons], ?_⟩
      intro vf hvf
      rw [List.zip_cons_cons, List.mem_cons] at hvf
      rcases hvf with rfl | hvf
      · -- the head
        show Rel (xoff + c) _ v _
        by_cases hb : inBlock xoff c v = true
        · have hb' : (xoff : Int) ≤ v ∧ v < (xoff : Int) + c := by simpa [inBlock] using hb
          have hf : f = 0 := hv.2 hb'.1
          simp only [hb, if_true]
          constructor
          · intro _
            refine ⟨pre.length + (done.filter (inBlock xoff c)).length, ?_, ?_⟩
            · rw [← hcum, hf]; simp only [hb, if_true]; push_cast; omega
            · rw [List.getElem?_append_right (by omega), List.filter_append, List.filter_cons]
              simp only [hb, if_true]
              rw [Nat.add_sub_cancel_left, List.getElem?_append_right (by omega)]
              simp
          · intro h; push_cast at h; omega
        · have hb' : ¬ ((xoff : Int) ≤ v ∧ v < (xoff : Int) + c) := by simpa [inBlock] using hb
          simp only [hb]
          constructor
          · intro h
            have hlt : v < (xoff : Int) := by push_cast at h; omega
            obtain ⟨k, hk, hpk⟩ := hv.1 hlt
            refine ⟨k, by simp [hk], ?_⟩
            have hkl : k < pre.length := by
              rcases List.getElem?_eq_some_iff.mp hpk with ⟨h, _⟩; exact h
            rw [List.getElem?_append_left hkl]; exact hpk
          · intro h
            have : (xoff : Int) ≤ v := by push_cast at h; omega
            simp [hv.2 this]
      · exact hih.2 vf hvf

theorem aggLoop_spec (J : List Int) :
    ∀ (cs : List Nat) (xoff : Nat) (pre fin : List Int), fin.length = J.length →
      (∀ vf ∈ J.zip fin, Rel xoff pre vf.1 vf.2) →
      (aggLoop J cs xoff pre.length fin).length = J.length ∧
      ∀ vf ∈ J.zip (aggLoop J cs xoff pre.length fin),
        Rel (xoff + cs.sum) (pre ++ outsFrom J xoff cs) vf.1 vf.2 := by
  intro cs
  induction cs with
  | nil =>
    intro xoff pre fin hlen hrel
    simp only [aggLoop, outsFrom, List.sum_nil, Nat.add_zero, List.append_nil]
    exact ⟨hlen, hrel⟩
  | cons c cs ih =>
    intro xoff pre fin hlen hrel
    have hs := stepGo_spec xoff c pre J [] fin hlen hrel
    simp only [List.filter_nil, List.length_nil, List.nil_append] at hs
    have hco : (pre.length : Int) + lastCum xoff c 0 J = ((pre ++ J.filter (inBlock xoff c)).length : Nat) := by
      rw [lastCum_eq, List.length_append]; push_cast; omega
    have h := ih (xoff + c) (pre ++ J.filter (inBlock xoff c)) _ hs.1 hs.2
    simp only [aggLoop]
    rw [hco]
    have hsum : xoff + (c :: cs).sum = xoff + c + cs.sum := by simp [List.sum_cons]; omega
    rw [hsum, outsFrom, ← List.append_assoc]
    exact h

theorem takeAll_of_zip {α : Type} (outs : List α) :
    ∀ (J : List α) (fin : List Int), fin.length = J.length →
      (∀ vf ∈ J.zip fin, pyGet outs vf.2 = some vf.1) → takeAll outs fin = some J := by
  intro J
  induction J with
  | nil => intro fin hlen _; cases fin with
    | nil => rfl
    | cons _ _ => simp at hlen
  | cons v vs ih =>
    intro fin hlen h
    cases fin with
    | nil => simp at hlen
    | cons f fs =>
      have h1 : pyGet outs f = some v := h (v, f) (by simp)
      have h2 := ih fs (by simpa using hlen) (fun vf hvf => h vf (by simp [hvf]))
      simp [takeAll, h1, h2]

theorem takeAll_length {α : Type} (outs : List α) :
    ∀ (fin : List Int) (r : List α), takeAll outs fin = some r → r.length = fin.length := by
  intro fin
  induction fin with
  | nil => intro r h; simp [takeAll] at h; simp [← h]
  | cons f fs ih =>
    intro r h
    simp only [takeAll] at h
    cases h1 : pyGet outs f with
    | none => simp [h1] at h
    | some a =>
      cases h2 : takeAll outs fs with
      | none => simp [h1, h2] at h
      | some r' =>
        simp [h1, h2] at h
        rw [← h, List.length_cons, ih r' h2, List.length_cons]

theorem norm_bounds (n : Nat) (v : Int) (h : -(n : Int) ≤ v ∧ v < n) : 0 ≤ norm n v ∧ norm n v < n := by
  unfold norm; split <;> omega

theorem norm_oob (n : Nat) (v : Int) (h : ¬ (-(n : Int) ≤ v ∧ v < n)) : norm n v < 0 ∨ norm n v ≥ n := by
  unfold norm; split <;> omega

/-- one chunk of idx, all entries in bounds: the aggregation returns the normalised entries themselves -/
theorem aggregate_den (lengths : List Nat) (idx : List Int)
    (hb : ∀ v ∈ idx, -(lengths.sum : Int) ≤ v ∧ v < lengths.sum) :
    aggregate lengths idx (chunkOutputs lengths idx) = some (idx.map (norm lengths.sum)) := by
  have hJ : ∀ v ∈ idx.map (norm lengths.sum), 0 ≤ v ∧ v < (lengths.sum : Int) := by
    intro v hv
    obtain ⟨w, hw, rfl⟩ := List.mem_map.mp hv
    exact norm_bounds _ _ (hb w hw)
  generalize hJd : idx.map (norm lengths.sum) = J at hJ
  have hnot : outOfBounds lengths.sum J = false := by
    unfold outOfBounds
    rw [List.any_eq_false]
    intro v hv
    have := hJ v hv
    simp only [Bool.or_eq_true, decide_eq_true_eq, not_or]
    omega
  unfold aggregate
  simp only [hJd, hnot, Bool.false_eq_true, if_false]
  rw [chunkOutputs_eq, hJd]
  have hinit : ∀ vf ∈ J.zip (J.map fun _ => (0 : Int)), Rel 0 [] vf.1 vf.2 := by
    intro vf hvf
    have h1 := (List.of_mem_zip hvf).1
    have h2 := (List.of_mem_zip hvf).2
    obtain ⟨_, _, h0⟩ := List.mem_map.mp h2
    constructor
    · intro hlt; have := (hJ _ h1).1; simp at hlt; omega
    · intro _; exact h0.symm
  have hs := aggLoop_spec J lengths 0 [] (J.map fun _ => (0 : Int)) (by simp) hinit
  simp only [List.length_nil, List.nil_append, Nat.zero_add] at hs
  apply takeAll_of_zip _ J _ hs.1
  intro vf hvf
  have hr := hs.2 vf hvf
  have hv := hJ _ (List.of_mem_zip hvf).1
  obtain ⟨k, hk, hpk⟩ := hr.1 hv.2
  unfold pyGet
  rw [hk]
  simp only [Int.natCast_nonneg, if_true, Int.toNat_natCast]
  exact hpk

/-- one chunk of idx with an entry out of bounds: IndexError -/
theorem aggregate_oob {α : Type} (lengths : List Nat) (idx : List Int) (outs : List α)
    (hb : ∃ v ∈ idx, ¬ (-(lengths.sum : Int) ≤ v ∧ v < lengths.sum)) :
    aggregate lengths idx outs = none := by
  obtain ⟨v, hv, hnb⟩ := hb
  have : outOfBounds lengths.sum (idx.map (norm lengths.sum)) = true := by
    unfold outOfBounds
    rw [List.any_eq_true]
    refine ⟨norm lengths.sum v, List.mem_map.mpr ⟨v, hv, rfl⟩, ?_⟩
    have := norm_oob _ _ hnb
    simp only [Bool.or_eq_true, decide_eq_true_eq]
    omega
  unfold aggregate
  simp [this]

end Dask.IntDaskIndex
