import DaskModel.Lemmas.SchedLoop
/-! Consequences of the invariant at the end of a run (success or failure), recursive evaluation of an
acyclic graph, and the `get_async` wrapper. -/
namespace Dask.Sched
variable {α : Type}

/-! ### what an acyclic graph denotes -/

theorem denote_stable {g : Graph} (P : Params α) (rank : Key → Nat)
    (hrank : ∀ k deps d, g.get? k = some (.task deps) → d ∈ deps → rank d < rank k) :
    ∀ fuel k, rank k < fuel → denote g P fuel k = denote g P (rank k + 1) k := by
  intro fuel
  induction fuel using Nat.strongRecOn with
  | _ fuel ih =>
    intro k hk
    cases fuel with
    | zero => omega
    | succ fuel =>
      cases hg : g.get? k with
      | none => simp [denote, hg]
      | some node =>
        cases node with
        | data => simp [denote, hg]
        | task deps =>
          simp only [denote, hg]
          congr 1
          apply List.map_congr_left
          intro d hd
          have hr := hrank k deps d hg hd
          rw [ih fuel (by omega) d (by omega), ih (rank k) (by omega) d hr]

/-- recursive evaluation (with enough fuel) is a fixed point of the graph equations -/
theorem denote_isDen {g : Graph} (P : Params α) (rank : Key → Nat)
    (hrank : ∀ k deps d, g.get? k = some (.task deps) → d ∈ deps → rank d < rank k) :
    IsDen g P (fun k => denote g P (rank k + 1) k) := by
  constructor
  · intro k deps hg
    simp only [denote, hg]
    congr 1
    apply List.map_congr_left
    intro d hd
    exact denote_stable P rank hrank (rank k) d (hrank k deps d hg hd)
  · intro k hg
    simp [denote, hg]

/-! ### the state when the loop has ended successfully -/

theorem Inv.done_all_finished {g : Graph} {results : List Key} {s : State α} (h : Inv g results s)
    (hl : loopCond s = false) {k : Key} (hs : s.seen k) (ht : isTask g k) : k ∈ s.finished := by
  obtain ⟨hw, hr, hrun⟩ := (loopCond_false_iff s).mp hl
  rcases h.cover k hs ht with ⟨w, hw'⟩ | h1 | h1 | h1
  · rw [hw k] at hw'; cases hw'
  · rw [hr] at h1; cases h1
  · rw [hrun] at h1; cases h1
  · exact h1

theorem Inv.done_done {g : Graph} {results : List Key} {s : State α} (h : Inv g results s)
    (hl : loopCond s = false) {k : Key} (hs : s.seen k) : done g s k := by
  rcases h.seenGraph k hs with hd | ht
  · exact Or.inl hd
  · exact Or.inr (h.done_all_finished hl hs ht)

/-- every requested key is in the cache at the end -/
theorem Inv.done_result_cached {g : Graph} {results : List Key} {s : State α} (h : Inv g results s)
    (hl : loopCond s = false) {r : Key} (hr : r ∈ results) (hs : s.seen r) : ∃ v, s.cache.get? r = some v := by
  apply (h.cacheIff r hs).mpr
  refine ⟨h.done_done hl hs, ?_⟩
  intro hrel
  exact (h.relOnly r hrel).2.1 hr

/-- every other computed value has been released at the end -/
theorem Inv.done_released {g : Graph} {results : List Key} {s : State α} (h : Inv g results s)
    (hl : loopCond s = false) {d : Key} (hs : s.seen d) (hr : d ∉ results) : d ∈ s.released := by
  apply Classical.byContradiction
  intro hnr
  cases hwd : s.waitingData.get? d with
  | none => exact hnr ((h.relIff d hs).mp hwd)
  | some l =>
    have hne := h.wdLive d l hwd hr
    obtain ⟨j, hj⟩ := List.exists_mem_of_ne_nil l hne
    obtain ⟨hjd, hjf⟩ := (h.wdExact d l hwd j).mp hj
    have hjt := h.toStatic.task_of_dep ((h.dtsIff d j).mp hjd)
    exact hjf (h.done_all_finished hl hjt.1 hjt.2)

/-- no leak: the cache at the end holds exactly the requested keys -/
theorem Inv.done_no_leak {g : Graph} {results : List Key} {s : State α} (h : Inv g results s)
    (hl : loopCond s = false) {d : Key} {v : α} (hc : s.cache.get? d = some v) : d ∈ results := by
  apply Classical.byContradiction
  intro hr
  have hs := h.cacheSeen d v hc
  have hrel := h.done_released hl hs hr
  exact ((h.cacheIff d hs).mp ⟨v, hc⟩).2 hrel

/-! ### the state when a task has failed -/

/-- `DependsOn s k j`: `j` depends (transitively) on `k` -/
inductive DependsOn (s : State α) (k : Key) : Key → Prop where
  | direct {j : Key} : k ∈ s.depsOf j → DependsOn s k j
  | trans {j m : Key} : m ∈ s.depsOf j → DependsOn s k m → DependsOn s k j

/-- nothing that depends on an unfinished task is ready, running or finished -/
theorem Inv.blocked_by_unfinished {g : Graph} {results : List Key} {s : State α} (h : Inv g results s)
    {k : Key} (hkt : isTask g k) (hkf : k ∉ s.finished) {j : Key} (hd : DependsOn s k j) :
    j ∉ s.ready ∧ j ∉ s.running ∧ j ∉ s.finished := by
  have hknd : ¬ done g s k := by
    rintro (h1 | h1)
    · exact not_data_of_task hkt h1
    · exact hkf h1
  induction hd with
  | @direct j hjk =>
    have hna : ¬ (j ∈ s.ready ∨ j ∈ s.running ∨ j ∈ s.finished) := fun hact => hknd (h.activeDone j hact k hjk)
    exact ⟨fun h1 => hna (Or.inl h1), fun h1 => hna (Or.inr (Or.inl h1)), fun h1 => hna (Or.inr (Or.inr h1))⟩
  | @trans j m hjm hmk ih =>
    have hmt : isTask g m := by
      cases hmk with
      | direct h1 => exact (h.toStatic.task_of_dep h1).2
      | trans h1 _ => exact (h.toStatic.task_of_dep h1).2
    have hmnf : m ∉ s.finished := ih.2.2
    have hna : ¬ (j ∈ s.ready ∨ j ∈ s.running ∨ j ∈ s.finished) := by
      intro hact
      rcases h.activeDone j hact m hjm with h1 | h1
      · exact not_data_of_task hmt h1
      · exact hmnf h1
    exact ⟨fun h1 => hna (Or.inl h1), fun h1 => hna (Or.inr (Or.inl h1)), fun h1 => hna (Or.inr (Or.inr h1))⟩

/-! ### start of the run -/

/-- what `start_state_from_dask` has to establish -/
structure StartOK (cfg : Cfg) (den : Key → α) (st0 : State α) : Prop where
  inv : Inv cfg.g cfg.results st0
  sound : CacheSound den st0
  running : st0.running = []
  finished : st0.finished = []
  resultsSeen : ∀ r ∈ cfg.results, st0.seen r

def sys0 (st0 : State α) : Sys α :=
  { st := st0, pending := [], log := [(Ev.start, ({} : State α)), (Ev.startState, st0)] }

theorem StartOK.sysInv {cfg : Cfg} {den : Key → α} {st0 : State α} (h : StartOK cfg den st0) :
    SysInv cfg den (sys0 st0) := by
  refine ⟨h.inv, h.sound, by simp [sys0, pendKeys], ?_, by simp [sys0], by simp, by simp [sys0], ?_, ?_, ?_, ?_, ?_, ?_, ?_, ?_⟩
  · intro k
    simp [sys0, pendKeys, h.running]
  · simp [sys0, preKeys]
  · intro k
    simp [sys0, preKeys, h.running, h.finished]
  · simp [sys0, postKeys]
  · intro k
    simp [sys0, postKeys, h.finished]
  · intro e he k hk
    simp only [sys0, List.mem_cons, List.not_mem_nil, or_false] at he
    rcases he with rfl | rfl <;> cases hk
  · intro e he b hk
    simp only [sys0, List.mem_cons, List.not_mem_nil, or_false] at he
    rcases he with rfl | rfl <;> cases hk
  · intro l1 l2 hl k hk
    have hsub : postKeys l1 = [] := by
      apply postKeys_nil_of_no_post
      intro e he k' hk'
      have he' : e ∈ (sys0 st0).log := by rw [hl]; exact List.mem_append_left _ he
      simp only [sys0, List.mem_cons, List.not_mem_nil, or_false] at he'
      rcases he' with rfl | rfl <;> cases hk'
    rw [hsub] at hk
    cases hk
  · intro e he
    simp only [sys0, List.mem_cons, List.not_mem_nil, or_false] at he
    rcases he with rfl | rfl
    · intro d v hv; cases hv
    · exact h.sound

/-- acyclic graph: the "Found no accessible jobs" error is unreachable -/
theorem StartOK.accessible {cfg : Cfg} {den : Key → α} {st0 : State α} (h : StartOK cfg den st0)
    (rank : Key → Nat) (hrank : ∀ k deps d, cfg.g.get? k = some (.task deps) → d ∈ deps → rank d < rank k) :
    ¬ (!st0.waiting.isEmpty ∧ st0.ready.isEmpty) := by
  rintro ⟨hw, hr⟩
  have hr' : st0.ready = [] := List.isEmpty_iff.mp hr
  have hw' : ∃ k w, st0.waiting.get? k = some w := by
    apply Classical.byContradiction
    intro hno
    have : st0.waiting.isEmpty = true := by
      rw [Map.isEmpty_iff]
      intro k
      cases hk : st0.waiting.get? k with
      | none => rfl
      | some w => exact absurd ⟨k, w, hk⟩ hno
    rw [this] at hw
    cases hw
  exact h.inv.ready_of_waiting rank hrank h.running hw' hr'

/-- the size of `seen`: an upper bound on the number of tasks, hence on the loop iterations -/
theorem nodup_length_le_of_keys {β : Type} (m : Map β) (l : List Key) (hn : l.Nodup)
    (hsub : ∀ k ∈ l, ∃ v, m.get? k = some v) : l.length ≤ m.length := by
  induction m generalizing l with
  | nil =>
    cases l with
    | nil => simp
    | cons a l => obtain ⟨v, hv⟩ := hsub a (by simp); simp at hv
  | cons p m ih =>
    obtain ⟨k0, v0⟩ := p
    have h1 : (srem k0 l).length ≤ m.length := by
      apply ih _ (nodup_srem hn)
      intro k hk
      obtain ⟨hkl, hne⟩ := mem_srem.mp hk
      obtain ⟨v, hv⟩ := hsub k hkl
      rw [Map.get?_cons] at hv
      have : ¬ k0 = k := fun e => hne e.symm
      simp only [this, if_false] at hv
      exact ⟨v, hv⟩
    by_cases hk0 : k0 ∈ l
    · have := length_srem_of_mem hn hk0
      simp only [List.length_cons]
      omega
    · have : srem k0 l = l := by
        unfold srem
        apply List.filter_eq_self.mpr
        intro x hx
        have : x ≠ k0 := fun e => hk0 (e ▸ hx)
        simp [this]
      rw [this] at h1
      simp only [List.length_cons]
      omega

theorem Inv.finished_le {g : Graph} {results : List Key} {s : State α} (h : Inv g results s) :
    s.finished.length ≤ s.dependencies.length :=
  nodup_length_le_of_keys s.dependencies s.finished h.finishedNodup (fun k hk => (h.finishedTask k hk).1)

/-- every state the loop can be in (between iterations: outcome `starved`; at the end: `done`; at a failure:
`failed`) satisfies the system invariant, for every adversary -/
theorem reach_inv {cfg : Cfg} (P : Params α) {den : Key → α} (hden : IsDen cfg.g P den)
    (hnw : 1 ≤ cfg.nw) (hcs : cfg.cs = -1 ∨ 1 ≤ cfg.cs)
    (rank : Key → Nat) (hrank : ∀ k deps d, cfg.g.get? k = some (.task deps) → d ∈ deps → rank d < rank k)
    {st0 : State α} (hs : StartOK cfg den st0) {choices : List Nat} {s' : Sys α} {o : Outcome}
    (hrun : mainLoop cfg P choices (sys0 st0) = .ok (s', o)) :
    (∃ rest, BatchInv cfg den rest s') ∧ s'.st.dependencies = st0.dependencies ∧
    (∀ k, k ∈ s'.st.finished → P.fails k = false) ∧
    (o = .done → SysInv cfg den s' ∧ loopCond s'.st = false) ∧
    (∀ k, o = .failed k → P.fails k = true ∧ ∃ rest', BatchInv cfg den rest' s' ∧ k ∈ rest'.map (·.1)) ∧
    LogExt (sys0 st0).log s'.log := by
  rcases mainLoop_spec P hden hnw hcs rank hrank choices (sys0 st0) hs.sysInv with
    ⟨hbad, _⟩ | ⟨s1, o1, hok, hdone, hstarved, hfailed, _, hdeps, hfok, hlog⟩
  · rw [hbad] at hrun; cases hrun
  · rw [hok] at hrun
    cases hrun
    refine ⟨?_, hdeps, ?_, hdone, hfailed, hlog⟩
    · cases o with
      | done => exact ⟨[], (hdone rfl).1⟩
      | starved => exact ⟨[], (hstarved rfl).1⟩
      | failed k =>
        obtain ⟨_, rest', hB, _⟩ := hfailed k rfl
        exact ⟨rest', hB⟩
    · intro k hk
      rcases hfok k hk with h1 | h1
      · have : (sys0 st0).st.finished = [] := hs.finished
        rw [this] at h1
        cases h1
      · exact h1

/-! ### the `get_async` wrapper -/

theorem getAsync_eq {cfg : Cfg} {P : Params α} {st0 : State α} (hst : startState cfg P = .ok st0)
    (hacc : ¬ (!st0.waiting.isEmpty ∧ st0.ready.isEmpty)) (choices : List Nat) :
    getAsync cfg P choices =
      match mainLoop cfg P choices (sys0 st0) with
      | .error e => { log := (sys0 st0).log ++ [(.finish true, st0)], outcome := .error e, final := st0 }
      | .ok (s, .done) => { log := s.log ++ [(.finish false, s.st)], outcome := .ok .done, final := s.st }
      | .ok (s, o) => { log := s.log ++ [(.finish true, s.st)], outcome := .ok o, final := s.st } := by
  unfold getAsync
  simp only [hst]
  rw [if_neg hacc]
  rfl

mutual
theorem nestedGet_congr {look1 look2 : Key → Option α} :
    ∀ (r : Req), (∀ k ∈ r.flat, look1 k = look2 k) → nestedGet look1 r = nestedGet look2 r
  | .key k, h => by
    simp only [nestedGet]
    rw [h k (by simp [Req.flat])]
  | .list rs, h => by
    simp only [nestedGet]
    rw [nestedGetList_congr rs (by simpa [Req.flat] using h)]
theorem nestedGetList_congr {look1 look2 : Key → Option α} :
    ∀ (rs : List Req), (∀ k ∈ Req.flatList rs, look1 k = look2 k) → nestedGetList look1 rs = nestedGetList look2 rs
  | [], _ => rfl
  | r :: rs, h => by
    simp only [nestedGetList]
    rw [nestedGet_congr r (fun k hk => h k (by simp [Req.flatList, hk])),
        nestedGetList_congr rs (fun k hk => h k (by simp [Req.flatList, hk]))]
end

end Dask.Sched
