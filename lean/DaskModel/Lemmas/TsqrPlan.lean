import DaskModel.Model.TsqrPlan
import DaskModel.Props.C31
/-!
Helper lemmas for `Props/C31xPlan.lean`: prefix sums of a chunk list (`List.take`/`sum`), `cumsumBlocks` by index, under
shift and append, and the recursive branch's slices in global row coordinates.
-/
namespace Dask.TsqrPlan
open Dask.Contraction

theorem cumsumBlocks_length (t : Nat) (xs : List Nat) : (cumsumBlocks t xs).length = xs.length := by
  induction xs generalizing t with
  | nil => rfl
  | cons x xs ih => simp [cumsumBlocks, ih]

theorem cumsumBlocks_getElem? (t : Nat) (xs : List Nat) (i : Nat) :
    (cumsumBlocks t xs)[i]? = (xs[i]?).map fun x => (t + (xs.take i).sum, t + (xs.take i).sum + x) := by
  induction xs generalizing t i with
  | nil => simp [cumsumBlocks]
  | cons x xs ih =>
    cases i with
    | zero => simp [cumsumBlocks]
    | succ i =>
      simp only [cumsumBlocks, List.getElem?_cons_succ, ih, List.take_succ_cons, List.sum_cons]
      cases xs[i]? with
      | none => rfl
      | some y => simp only [Option.map_some, Nat.add_assoc]

theorem cumsumBlocks_shift (t : Nat) (xs : List Nat) :
    cumsumBlocks t xs = (cumsumBlocks 0 xs).map fun p => (t + p.1, t + p.2) := by
  apply List.ext_getElem?
  intro i
  simp only [cumsumBlocks_getElem?, List.getElem?_map]
  cases xs[i]? with
  | none => rfl
  | some y => simp [Nat.add_assoc]

theorem cumsumBlocks_append (t : Nat) (xs ys : List Nat) :
    cumsumBlocks t (xs ++ ys) = cumsumBlocks t xs ++ cumsumBlocks (t + xs.sum) ys := by
  induction xs generalizing t with
  | nil => simp [cumsumBlocks]
  | cons x xs ih => simp [cumsumBlocks, ih, Nat.add_assoc]

theorem take_sum_succ (xs : List Nat) (i : Nat) (h : i < xs.length) :
    (xs.take (i + 1)).sum = (xs.take i).sum + xs[i] := by
  induction xs generalizing i with
  | nil => simp at h
  | cons x xs ih =>
    cases i with
    | zero => simp
    | succ i =>
      simp only [List.take_succ_cons, List.sum_cons, List.getElem_cons_succ]
      rw [ih i (by simpa using h)]
      omega

theorem take_sum_mono (xs : List Nat) {i j : Nat} (h : i ≤ j) : (xs.take i).sum ≤ (xs.take j).sum := by
  induction xs generalizing i j with
  | nil => simp
  | cons x xs ih =>
    cases i with
    | zero => simp
    | succ i =>
      cases j with
      | zero => omega
      | succ j =>
        simp only [List.take_succ_cons, List.sum_cons]
        have := ih (i := i) (j := j) (by omega)
        omega

theorem take_sum_le (xs : List Nat) (i : Nat) : (xs.take i).sum ≤ xs.sum := by
  by_cases h : i ≤ xs.length
  · have := take_sum_mono xs h
    rwa [List.take_of_length_le (Nat.le_refl _)] at this
  · rw [List.take_of_length_le (by omega)]

/-- the end of slice `i` is at most the start of every later slice -/
theorem take_sum_step_le (xs : List Nat) {i j : Nat} (hij : i < j) (hi : i < xs.length) :
    (xs.take i).sum + xs[i] ≤ (xs.take j).sum := by
  rw [← take_sum_succ xs i hi]
  exact take_sum_mono xs hij

/-- every position below the total lies in some slice -/
theorem take_sum_cover (xs : List Nat) (t : Nat) (h : t < xs.sum) :
    ∃ i, ∃ hi : i < xs.length, (xs.take i).sum ≤ t ∧ t < (xs.take i).sum + xs[i] := by
  induction xs generalizing t with
  | nil => simp at h
  | cons x xs ih =>
    by_cases hx : t < x
    · exact ⟨0, by simp, by simp, by simpa using hx⟩
    · simp only [List.sum_cons] at h
      obtain ⟨i, hi, h1, h2⟩ := ih (t - x) (by omega)
      refine ⟨i + 1, by simpa using hi, ?_, ?_⟩
      · simp only [List.take_succ_cons, List.sum_cons]; omega
      · simp only [List.take_succ_cons, List.sum_cons, List.getElem_cons_succ]; omega

/-! ### the keyed slice lists -/

/-- block `js[t]` reads rows `ps[t]` of source block 0 -/
def keyed (js : List Nat) (ps : List (Nat × Nat)) : List QSlice :=
  List.zipWith (fun j p => (⟨j, 0, p.1, p.2⟩ : QSlice)) js ps

theorem singleSlicesFrom_eq (idx : Nat) (ps : List (Nat × Nat)) :
    singleSlicesFrom idx ps = keyed (List.range' idx ps.length) ps := by
  induction ps generalizing idx with
  | nil => simp [singleSlicesFrom, keyed]
  | cons p ps ih =>
    obtain ⟨s, e⟩ := p
    simp only [singleSlicesFrom, ih, keyed, List.length_cons, List.range'_succ, List.zipWith_cons_cons]

theorem singleSlicesFrom_getElem? (idx : Nat) (ps : List (Nat × Nat)) (i : Nat) :
    (singleSlicesFrom idx ps)[i]? = (ps[i]?).map fun p => (⟨idx + i, 0, p.1, p.2⟩ : QSlice) := by
  induction ps generalizing idx i with
  | nil => simp [singleSlicesFrom]
  | cons p ps ih =>
    obtain ⟨s, e⟩ := p
    cases i with
    | zero => simp [singleSlicesFrom]
    | succ i =>
      simp only [singleSlicesFrom, List.getElem?_cons_succ, ih]
      cases ps[i]? with
      | none => rfl
      | some y => simp only [Option.map_some]; congr 2; omega


/-- a slice of block `src` of a row-chunked array, in the row coordinates of the whole array (`base g` = first row of
    block `g`) -/
def globalSlice (base : Nat → Nat) (s : QSlice) : QSlice := ⟨s.blk, 0, base s.src + s.start, base s.src + s.stop⟩

theorem groupSlices_global (base : Nat → Nat) (gi : Nat) (g : List (Nat × Nat)) :
    (groupSlices gi g).map (globalSlice base) = keyed (g.map (·.1)) (cumsumBlocks (base gi) (g.map (·.2))) := by
  rw [cumsumBlocks_shift (base gi)]
  simp only [groupSlices, keyed, List.map_zipWith, List.zipWith_map_right, globalSlice]

theorem recSlicesFrom_global (base : Nat → Nat) (gi V : Nat) (gs : List (List (Nat × Nat)))
    (hb : ∀ p, p < gs.length → base (gi + p) = V + ((vchunksOf gs).take p).sum) :
    (recSlicesFrom gi gs).map (globalSlice base)
      = keyed (gs.flatten.map (·.1)) (cumsumBlocks V (gs.flatten.map (·.2))) := by
  induction gs generalizing gi V with
  | nil => simp [recSlicesFrom, keyed, cumsumBlocks]
  | cons g gs ih =>
    have h0 : base gi = V := by simpa using hb 0 (by simp)
    have hstep : ∀ p, p < gs.length → base (gi + 1 + p) = V + (g.map (·.2)).sum + ((vchunksOf gs).take p).sum := by
      intro p hp
      have := hb (p + 1) (by simpa using hp)
      simp only [vchunksOf, List.map_cons, List.take_succ_cons, List.sum_cons] at this ⊢
      rw [show gi + 1 + p = gi + (p + 1) by omega, this]
      omega
    simp only [recSlicesFrom, List.map_append, groupSlices_global, ih (gi + 1) _ hstep, h0, List.flatten_cons,
      cumsumBlocks_append, keyed]
    rw [List.zipWith_append]
    simp [cumsumBlocks_length]

theorem expected_fst (cc idx : Nat) (chunks : List Nat) :
    (Dask.C31.expected cc idx chunks).map (·.1) = List.range' idx chunks.length := by
  induction chunks generalizing idx with
  | nil => rfl
  | cons a rest ih => simp [Dask.C31.expected, ih, List.range'_succ]

theorem expected_snd (cc idx : Nat) (chunks : List Nat) :
    (Dask.C31.expected cc idx chunks).map (·.2) = rRows cc chunks := by
  induction chunks generalizing idx with
  | nil => rfl
  | cons a rest ih => simp [Dask.C31.expected, ih, rRows]

theorem expectedBlocks_eq (cc idx : Nat) (chunks : List Nat) :
    expectedBlocks cc idx chunks = Dask.C31.expected cc idx chunks := by
  induction chunks generalizing idx with
  | nil => rfl
  | cons a rest ih => simp [Dask.C31.expected, expectedBlocks, ih]

/-- first row of block `g` of an array with row chunks `vch` -/
def blockStart (vch : List Nat) (g : Nat) : Nat := (vch.take g).sum

theorem recSlices_global_of_flatten (cc : Nat) (chunks : List Nat) (gs : List (List (Nat × Nat)))
    (hf : gs.flatten = Dask.C31.expected cc 0 chunks) :
    (recSlices gs).map (globalSlice (blockStart (vchunksOf gs))) = singleSlices cc chunks := by
  rw [recSlices, recSlicesFrom_global _ 0 0 gs (by intro p _; simp [blockStart]), hf, expected_fst, expected_snd,
    singleSlices, singleSlicesFrom_eq, cumsumBlocks_length]
  simp [rRows]


theorem mem_cumsumBlocks (t : Nat) (xs : List Nat) (p : Nat × Nat) (h : p ∈ cumsumBlocks t xs) :
    t ≤ p.1 ∧ p.1 ≤ p.2 ∧ p.2 ≤ t + xs.sum := by
  induction xs generalizing t with
  | nil => simp [cumsumBlocks] at h
  | cons x xs ih =>
    simp only [cumsumBlocks, List.mem_cons] at h
    rcases h with rfl | h
    · simp
    · have := ih (t + x) h
      simp only [List.sum_cons]
      omega

theorem mem_zipWith_exists {α β γ : Type} (f : α → β → γ) (as : List α) (bs : List β) (x : γ)
    (h : x ∈ List.zipWith f as bs) : ∃ a ∈ as, ∃ b ∈ bs, x = f a b := by
  induction as generalizing bs with
  | nil => simp at h
  | cons a as ih =>
    cases bs with
    | nil => simp at h
    | cons b bs =>
      simp only [List.zipWith_cons_cons, List.mem_cons] at h
      rcases h with rfl | h
      · exact ⟨a, by simp, b, by simp, rfl⟩
      · obtain ⟨a', ha, b', hb, e⟩ := ih bs h
        exact ⟨a', by simp [ha], b', by simp [hb], e⟩

theorem mem_groupSlices (gi : Nat) (g : List (Nat × Nat)) (s : QSlice) (h : s ∈ groupSlices gi g) :
    s.src = gi ∧ s.start ≤ s.stop ∧ s.stop ≤ (g.map (·.2)).sum := by
  obtain ⟨j, _, se, hse, rfl⟩ := mem_zipWith_exists _ _ _ _ h
  have := mem_cumsumBlocks 0 _ se hse
  exact ⟨rfl, this.2.1, by simpa using this.2.2⟩

/-- a slice of the recursive branch reads an existing block of the stacked array and stays inside it (Python would
    clip a slice that does not) -/
theorem mem_recSlicesFrom (gi : Nat) (gs : List (List (Nat × Nat))) (s : QSlice) (h : s ∈ recSlicesFrom gi gs) :
    ∃ p, ∃ hp : p < (vchunksOf gs).length, s.src = gi + p ∧ s.start ≤ s.stop ∧ s.stop ≤ (vchunksOf gs)[p] := by
  induction gs generalizing gi with
  | nil => simp [recSlicesFrom] at h
  | cons g gs ih =>
    simp only [recSlicesFrom, List.mem_append] at h
    rcases h with h | h
    · have := mem_groupSlices gi g s h
      exact ⟨0, by simp [vchunksOf], by simpa using this.1, this.2.1, by simpa [vchunksOf] using this.2.2⟩
    · obtain ⟨p, hp, h1, h2, h3⟩ := ih (gi + 1) h
      refine ⟨p + 1, by simpa [vchunksOf] using hp, by omega, h2, ?_⟩
      simpa [vchunksOf] using h3

theorem singleSlicesFrom_length (idx : Nat) (ps : List (Nat × Nat)) : (singleSlicesFrom idx ps).length = ps.length := by
  induction ps generalizing idx with
  | nil => rfl
  | cons p ps ih => obtain ⟨s, e⟩ := p; simp [singleSlicesFrom, ih]

theorem singleSlices_length (cc : Nat) (chunks : List Nat) : (singleSlices cc chunks).length = chunks.length := by
  simp [singleSlices, singleSlicesFrom_length, cumsumBlocks_length, rRows]

/-- slice `i` of the single-core branch: starts at `Σ_{j<i} min(m_j, c)`, `min(m_i, c)` rows -/
theorem singleSlices_getElem? (cc : Nat) (chunks : List Nat) (i : Nat) (h : i < chunks.length) :
    (singleSlices cc chunks)[i]? =
      some ⟨i, 0, ((rRows cc chunks).take i).sum, ((rRows cc chunks).take i).sum + min chunks[i] cc⟩ := by
  simp only [singleSlices, singleSlicesFrom_getElem?, cumsumBlocks_getElem?, rRows, List.getElem?_map,
    List.getElem?_eq_getElem h, Option.map_some, Nat.zero_add]

end Dask.TsqrPlan
