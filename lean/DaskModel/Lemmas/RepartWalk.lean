import DaskModel.Lemmas.RepartWalk2
/-! C44/C41: `RepartitionDivisions._layer` — the two walks proved correct: for every truthful frame with
    partitions in index order and all legal old/new division vectors the layer is built (no IndexError / KeyError),
    evaluates, returns the rows in the same order and is truthful for the new divisions. Core Lean only. -/
namespace Dask.Repart
open Dask.Divs

section
variable {α : Type} (key : α → Nat)

/-- one `out1` task evaluated on the partitions (total version: a missing partition is empty) -/
def pieceAt (parts : List (List α)) (s : Slice) : List α :=
  boundarySlice key (parts.getD s.src []) s.lo s.hi s.rb

theorem filter_lt_of_all {p : List α} {h : Nat} (hall : ∀ r ∈ p, key r < h) :
    p.filter (fun r => decide (key r < h)) = p := by
  rw [List.filter_eq_self]; intro r hr; simpa using hall r hr

theorem filter_lt_nil_of_all {p : List α} {h : Nat} (hall : ∀ r ∈ p, h ≤ key r) :
    p.filter (fun r => decide (key r < h)) = [] := by
  rw [List.filter_eq_nil_iff]; intro r hr
  have := hall r hr
  simp only [decide_eq_true_eq]; omega

/-- sorted split with a lower bound: rows below `low`, then rows in `[low, hi)` = rows below `hi` -/
theorem filter_split_mid {p : List α} (hs : KeySorted key p) {low hi : Nat} (hlh : low ≤ hi) :
    p.filter (fun r => decide (key r < low)) ++
      p.filter (fun r => decide (low ≤ key r) && (decide (key r < hi) || (false && key r == hi))) =
    p.filter (fun r => decide (key r < hi)) := by
  have hq := filter_split_sorted key low _ (hs.filter (fun r => decide (key r < hi)))
  rw [List.filter_filter, List.filter_filter] at hq
  rw [← hq]
  congr 1
  · apply List.filter_congr
    intro r _
    by_cases h1 : key r < low
    · have : key r < hi := by omega
      simp [h1, this]
    · simp [h1]
  · apply List.filter_congr
    intro r _
    simp [Bool.and_comm]

/-- marking the last slice: rows in `[lo, hi)` followed by the rows with key `hi` = rows in `[lo, hi]` -/
theorem filter_split_closed {p : List α} (hs : KeySorted key p) {lo hi : Nat} (hlh : lo ≤ hi) :
    p.filter (fun r => decide (lo ≤ key r) && (decide (key r < hi) || (false && key r == hi))) ++
      p.filter (fun r => decide (key r = hi)) =
    p.filter (fun r => decide (lo ≤ key r) && (decide (key r < hi) || (true && key r == hi))) := by
  have hq := filter_split_sorted key hi _
    (hs.filter (fun r => decide (lo ≤ key r) && (decide (key r < hi) || (true && key r == hi))))
  rw [List.filter_filter, List.filter_filter] at hq
  rw [← hq]
  congr 1
  · apply List.filter_congr
    intro r _
    by_cases h1 : key r < hi
    · simp [h1]
    · simp [h1]
  · apply List.filter_congr
    intro r _
    by_cases h1 : key r = hi
    · simp [h1, hlh]
    · by_cases h2 : hi ≤ key r
      · have : ¬ key r < hi := by omega
        simp [h1, h2, this]
      · simp [h1, h2]

/-! ### what a truthful, index-ordered frame provides -/

/-- the frame: truthful for `a` (a legal division vector), every partition in index order -/
structure FrameOK (a : List Nat) (parts : List (List α)) : Prop where
  truthful : Truthful key a parts
  sorted : ∀ p ∈ parts, KeySorted key p
  valid : ValidDivs a

variable {key}

theorem FrameOK.len {a : List Nat} {parts : List (List α)} (f : FrameOK key a parts) :
    parts.length + 1 = a.length := f.truthful.1

theorem FrameOK.asorted {a : List Nat} {parts : List (List α)} (f : FrameOK key a parts) :
    a.Pairwise (· ≤ ·) := f.truthful.2.1

theorem FrameOK.keys_ge {a : List Nat} {parts : List (List α)} (f : FrameOK key a parts) {p : Nat} {P : List α}
    {x : Nat} (hP : parts[p]? = some P) (hx : a[p]? = some x) : ∀ r ∈ P, x ≤ key r := by
  intro r hr
  have hp : p < parts.length := (List.getElem?_eq_some_iff.mp hP).1
  have hy := List.getElem?_eq_getElem (l := a) (i := p + 1) (by have := f.len; omega)
  exact (f.truthful.2.2 p P x _ hP hx hy r hr).1

theorem FrameOK.keys_lt {a : List Nat} {parts : List (List α)} (f : FrameOK key a parts) {p : Nat} {P : List α}
    {y : Nat} (hP : parts[p]? = some P) (hy : a[p + 1]? = some y) (hnl : p + 1 < parts.length) :
    ∀ r ∈ P, key r < y := by
  intro r hr
  have hx := List.getElem?_eq_getElem (l := a) (i := p) (by have := f.len; omega)
  rcases (f.truthful.2.2 p P _ y hP hx hy r hr).2 with h | ⟨h, _⟩
  · exact h
  · omega

/-- every row of the partitions before `q` (`q` not beyond the last partition) has a key below `a[q]` -/
theorem FrameOK.take_lt {a : List Nat} {parts : List (List α)} (f : FrameOK key a parts) {q : Nat} {x : Nat}
    (hq : q < parts.length) (hx : a[q]? = some x) : ∀ r ∈ (parts.take q).flatten, key r < x := by
  intro r hr
  obtain ⟨P, hP, hrP⟩ := List.mem_flatten.mp hr
  obtain ⟨p, hp, hpe⟩ := List.getElem_of_mem hP
  have hpq : p < q := by simp only [List.length_take] at hp; omega
  have hPp : parts[p]? = some P := by
    rw [List.getElem_take] at hpe
    rw [List.getElem?_eq_getElem (by omega), hpe]
  have hy := List.getElem?_eq_getElem (l := a) (i := p + 1) (by have := f.len; omega)
  have h1 := f.keys_lt hPp hy (by omega) r hrP
  have h2 := sorted_get_le' f.asorted (show p + 1 ≤ q by omega) hy hx
  omega

theorem take_succ_getElem? {β : Type} (l : List β) (q : Nat) (x : β) (h : l[q]? = some x) :
    l.take (q + 1) = l.take q ++ [x] := by
  rw [List.take_succ, h]; rfl

/-- appending one more slice of partition `cur` -/
theorem sem_step {a : List Nat} {parts : List (List α)} (f : FrameOK key a parts) (cur low hi : Nat) (P : List α)
    (hP : parts[cur]? = some P) (hlh : low ≤ hi)
    (hprev : ∀ r ∈ (parts.take cur).flatten, key r < low) (pcs : List (List α))
    (hG : pcs.flatten = ((parts.take (cur + 1)).flatten).filter (fun r => decide (key r < low))) :
    (pcs ++ [pieceAt key parts ⟨cur, low, hi, false⟩]).flatten =
      ((parts.take (cur + 1)).flatten).filter (fun r => decide (key r < hi)) := by
  have hsP : KeySorted key P := f.sorted P (List.mem_of_getElem? hP)
  have hpiece : pieceAt key parts ⟨cur, low, hi, false⟩ = boundarySlice key P low hi false := by
    unfold pieceAt
    simp [List.getD_eq_getElem?_getD, hP]
  rw [List.flatten_append, hG, take_succ_getElem? parts cur P hP]
  simp only [List.flatten_append, List.flatten_cons, List.flatten_nil, List.append_nil, List.filter_append]
  rw [filter_lt_of_all key hprev, filter_lt_of_all key (fun r hr => Nat.lt_of_lt_of_le (hprev r hr) hlh), hpiece,
    List.append_assoc]
  congr 1
  exact filter_split_mid key hsP hlh

/-- moving on to the next partition once the slices reached its lower division -/
theorem sem_next {a : List Nat} {parts : List (List α)} (f : FrameOK key a parts) (cur hi : Nat)
    (hcur : cur + 1 < parts.length) (hhi : a[cur + 1]? = some hi) :
    ((parts.take (cur + 1)).flatten).filter (fun r => decide (key r < hi)) =
      ((parts.take (cur + 1 + 1)).flatten).filter (fun r => decide (key r < hi)) := by
  have hP := List.getElem?_eq_getElem hcur
  rw [take_succ_getElem? parts (cur + 1) _ hP]
  simp only [List.flatten_append, List.flatten_cons, List.flatten_nil, List.append_nil, List.filter_append]
  rw [filter_lt_nil_of_all key (f.keys_ge hP hhi), List.append_nil]

/-! ### the first walk -/

/-- partition the next slice is cut from: `i - 1` during the first walk, the last partition afterwards -/
def curOf (a : List Nat) (s : W1) : Nat := min (s.i - 1) (a.length - 2)

/-- one iteration of the first walk / of the tail: record the slice `(src, low, hi)` and move on -/
def push (s : W1) (src hi i' j' : Nat) : W1 :=
  { s with d := ⟨src, s.low, hi, false⟩ :: s.d, low := hi, i := i', j := j', c := hi :: s.c }

variable (key)

/-- invariant of the first walk (and of the right-hand tail); `c`, `d` are kept most recent first -/
structure W1Inv (parts : List (List α)) (a b : List Nat) (b0 aL bL : Nat) (s : W1) : Prop where
  i1 : 1 ≤ s.i ∧ s.i ≤ a.length
  dlen : s.i ≤ s.d.length + 1
  cub : s.low ≤ bL
  lowi : s.i = a.length → aL ≤ s.low
  lastsrc : s.i = a.length → ∀ sl, s.d.head? = some sl → sl.src + 2 = a.length
  lastlo : s.j = b.length → ∀ sl y, s.d.head? = some sl → b[b.length - 2]? = some y → y ≤ sl.lo
  lole : ∀ sl, s.d.head? = some sl → sl.lo ≤ sl.hi
  j1 : 1 ≤ s.j ∧ s.j ≤ b.length
  jend : s.j = b.length → s.i = a.length
  chead : s.c.head? = some s.low
  clen : s.c.length = s.d.length + 1
  csorted : s.c.reverse.Pairwise (· ≤ ·)
  cfirst : s.c.reverse[0]? = some b0
  link : ∀ t sl, s.d.reverse[t]? = some sl →
    s.c.reverse[t]? = some sl.lo ∧ s.c.reverse[t + 1]? = some sl.hi ∧ sl.rb = false ∧ sl.src + 2 ≤ a.length
  lowa : ∀ x, a[s.i]? = some x → s.low ≤ x
  lowb : ∀ y, b[s.j]? = some y → s.low ≤ y
  bcov : ∀ j' y, j' < s.j → b[j']? = some y → y ∈ s.c
  prev : ∀ r ∈ (parts.take (curOf a s)).flatten, key r < s.low
  sem : (s.d.reverse.map (pieceAt key parts)).flatten =
    ((parts.take (curOf a s + 1)).flatten).filter (fun r => decide (key r < s.low))

variable {key}

theorem W1Inv.le_low {parts : List (List α)} {a b : List Nat} {b0 aL bL : Nat} {s : W1} (h : W1Inv key parts a b b0 aL bL s) :
    ∀ x ∈ s.c, x ≤ s.low := by
  intro x hx
  have hlast : s.c.reverse.getLast? = some s.low := by rw [List.getLast?_reverse]; exact h.chead
  exact le_last_of_mono _ _ h.csorted hlast x (List.mem_reverse.mpr hx)

theorem push_inv {parts : List (List α)} {a b : List Nat} {b0 aL bL : Nat} (f : FrameOK key a parts)
    (haL : a.getLast? = some aL) {s : W1}
    (h : W1Inv key parts a b b0 aL bL s) (hjb : s.j < b.length) (src hi i' j' : Nat) (hsrc : src = curOf a s)
    (c1 : s.low ≤ hi) (c2 : i' = s.i ∨ (i' = s.i + 1 ∧ a[s.i]? = some hi))
    (c3 : j' = s.j ∨ (j' = s.j + 1 ∧ b[s.j]? = some hi))
    (c4 : ∀ x, a[i']? = some x → hi ≤ x) (c5 : ∀ y, b[j']? = some y → hi ≤ y)
    (c6 : j' = b.length → i' = a.length) (c7 : hi ≤ bL) :
    W1Inv key parts a b b0 aL bL (push s src hi i' j') := by
  have hlen := f.len
  have ha2 := f.valid.1
  have hia : ∀ x, a[s.i]? = some x → s.i < a.length := fun x hx => (List.getElem?_eq_some_iff.mp hx).1
  have hK : s.d.reverse.length = s.d.length := List.length_reverse
  have hcK : s.c.reverse.length = s.d.length + 1 := by rw [List.length_reverse, h.clen]
  have hlastc : s.c.reverse[s.d.length]? = some s.low := by
    have : s.c.reverse.getLast? = some s.low := by rw [List.getLast?_reverse]; exact h.chead
    rw [List.getLast?_eq_getElem?, hcK] at this
    simpa using this
  have hcurdef : curOf a s = min (s.i - 1) (a.length - 2) := rfl
  have hcurlt : src < parts.length := by rw [hsrc, hcurdef]; omega
  have hP := List.getElem?_eq_getElem hcurlt
  have hstep := sem_step f src s.low hi _ hP c1 (by rw [hsrc]; exact h.prev)
    (s.d.reverse.map (pieceAt key parts)) (by rw [hsrc]; exact h.sem)
  have hdrev : (push s src hi i' j').d.reverse = s.d.reverse ++ [⟨src, s.low, hi, false⟩] := by
    simp [push]
  have hcrev : (push s src hi i' j').c.reverse = s.c.reverse ++ [hi] := by simp [push]
  have hsemflat : ((push s src hi i' j').d.reverse.map (pieceAt key parts)).flatten =
      ((parts.take (src + 1)).flatten).filter (fun r => decide (key r < hi)) := by
    rw [hdrev, List.map_append]; exact hstep
  have haLidx : a[a.length - 1]? = some aL := by rw [← List.getLast?_eq_getElem?]; exact haL
  refine ⟨?_, ?_, c7, ?_, ?_, ?_, ?_, ?_, c6, rfl, by simp [push, h.clen], ?_, ?_, ?_, c4, c5, ?_, ?_, ?_⟩
  · rcases c2 with rfl | ⟨rfl, hx⟩
    · exact ⟨h.i1.1, h.i1.2⟩
    · have := hia _ hx
      exact ⟨by show 1 ≤ s.i + 1; omega, by show s.i + 1 ≤ a.length; omega⟩
  · show i' ≤ (⟨src, s.low, hi, false⟩ :: s.d).length + 1
    have := h.dlen
    simp only [List.length_cons]
    rcases c2 with rfl | ⟨rfl, _⟩ <;> omega
  · intro hi0
    have hi' : i' = a.length := hi0
    show aL ≤ hi
    rcases c2 with rfl | ⟨rfl, hx⟩
    · have := h.lowi hi'; omega
    · have : a[s.i]? = a[a.length - 1]? := by congr 1; omega
      rw [this, haLidx] at hx
      cases hx; exact Nat.le_refl _
  · intro hi0 sl hsl
    have hi' : i' = a.length := hi0
    simp only [push, List.head?_cons, Option.some.injEq] at hsl
    subst hsl
    show src + 2 = a.length
    rw [hsrc, hcurdef]
    rcases c2 with rfl | ⟨rfl, hx⟩
    · omega
    · have := hia _ hx; omega
  · intro hj0 sl y hsl hy
    have hj' : j' = b.length := hj0
    simp only [push, List.head?_cons, Option.some.injEq] at hsl
    subst hsl
    show y ≤ s.low
    rcases c3 with rfl | ⟨rfl, _⟩
    · omega
    · exact h.le_low y (h.bcov (b.length - 2) y (by have := h.j1.1; omega) hy)
  · intro sl hsl
    simp only [push, List.head?_cons, Option.some.injEq] at hsl
    subst hsl
    exact c1
  · rcases c3 with rfl | ⟨rfl, _⟩
    · exact ⟨h.j1.1, h.j1.2⟩
    · exact ⟨by show 1 ≤ s.j + 1; omega, by show s.j + 1 ≤ b.length; omega⟩
  · rw [hcrev, List.pairwise_append]
    refine ⟨h.csorted, List.pairwise_singleton _ _, ?_⟩
    intro x hx y hy
    simp only [List.mem_singleton] at hy
    subst hy
    have := h.le_low x (List.mem_reverse.mp hx)
    omega
  · rw [hcrev, List.getElem?_append_left (by omega)]; exact h.cfirst
  · intro t sl ht
    rw [hdrev] at ht
    rw [hcrev]
    rcases Nat.lt_or_ge t s.d.length with hlt | hge
    · rw [List.getElem?_append_left (by omega)] at ht
      obtain ⟨e1, e2, e3, e4⟩ := h.link t sl ht
      refine ⟨?_, ?_, e3, e4⟩
      · rw [List.getElem?_append_left (by omega)]; exact e1
      · rw [List.getElem?_append_left (by omega)]; exact e2
    · have hte : t = s.d.length := by
        have := (List.getElem?_eq_some_iff.mp ht).1
        simp only [List.length_append, List.length_reverse, List.length_cons, List.length_nil] at this
        omega
      subst hte
      rw [List.getElem?_append_right (by omega)] at ht
      simp only [List.length_reverse, Nat.sub_self, List.getElem?_cons_zero, Option.some.injEq] at ht
      subst ht
      refine ⟨?_, ?_, rfl, ?_⟩
      · rw [List.getElem?_append_left (by omega)]; exact hlastc
      · rw [List.getElem?_append_right (by omega), hcK]; simp
      · show src + 2 ≤ a.length
        omega
  · intro j'' y hj'' hy
    show y ∈ hi :: s.c
    rcases c3 with rfl | ⟨rfl, hb⟩
    · exact List.mem_cons_of_mem _ (h.bcov j'' y hj'' hy)
    · rcases Nat.lt_or_ge j'' s.j with hlt | hge
      · exact List.mem_cons_of_mem _ (h.bcov j'' y hlt hy)
      · have : j'' = s.j := by
          have : j'' < s.j + 1 := hj''
          omega
        subst this
        rw [hb] at hy; cases hy
        exact List.mem_cons_self
  · -- rows of earlier partitions are below the new `low`
    show ∀ r ∈ (parts.take (min (i' - 1) (a.length - 2))).flatten, key r < hi
    rcases c2 with rfl | ⟨rfl, hx⟩
    · intro r hr
      have := h.prev r hr
      omega
    · have hial := hia _ hx
      rcases Nat.lt_or_ge (s.i + 1) a.length with hlt | hge
      · have : min (s.i + 1 - 1) (a.length - 2) = s.i := by omega
        rw [this]
        exact f.take_lt (by omega) hx
      · intro r hr
        have e : min (s.i + 1 - 1) (a.length - 2) = curOf a s := by rw [hcurdef]; have := h.i1.1; omega
        rw [e] at hr
        have := h.prev r hr
        omega
  · show ((push s src hi i' j').d.reverse.map (pieceAt key parts)).flatten =
      ((parts.take (min (i' - 1) (a.length - 2) + 1)).flatten).filter (fun r => decide (key r < hi))
    rw [hsemflat]
    rcases c2 with rfl | ⟨rfl, hx⟩
    · rw [hsrc]; rfl
    · have hial := hia _ hx
      rcases Nat.lt_or_ge (s.i + 1) a.length with hlt | hge
      · have hs1 : src = s.i - 1 := by rw [hsrc, hcurdef]; omega
        have e1 : min (s.i + 1 - 1) (a.length - 2) = src + 1 := by have := h.i1.1; omega
        rw [e1]
        have e2 : a[src + 1]? = some hi := by
          rw [← hx]; congr 1; have := h.i1.1; omega
        exact sem_next f src hi (by have := h.i1.1; omega) e2
      · have e : min (s.i + 1 - 1) (a.length - 2) = src := by rw [hsrc, hcurdef]; have := h.i1.1; omega
        rw [e]

theorem push_eq1 (s : W1) (ai : Nat) :
    ({ s with d := ⟨s.i - 1, s.low, ai, false⟩ :: s.d, low := ai, i := s.i + 1, c := ai :: s.c } : W1) =
      push s (s.i - 1) ai (s.i + 1) s.j := rfl

theorem push_eq2 (s : W1) (bj : Nat) :
    ({ s with d := ⟨s.i - 1, s.low, bj, false⟩ :: s.d, low := bj, j := s.j + 1, c := bj :: s.c } : W1) =
      push s (s.i - 1) bj s.i (s.j + 1) := rfl

theorem push_eq3 (s : W1) (bj j' : Nat) :
    ({ s with d := ⟨s.i - 1, s.low, bj, false⟩ :: s.d, low := bj, j := j', i := s.i + 1, c := bj :: s.c } : W1) =
      push s (s.i - 1) bj (s.i + 1) j' := rfl

/-- **the first walk terminates** within its fuel, never indexes out of range, keeps the invariant, and ends with
    all old divisions consumed -/
theorem walk1_total {parts : List (List α)} {a b : List Nat} {b0 aL bL : Nat} (f : FrameOK key a parts)
    (hbs : b.Pairwise (· ≤ ·)) (haL : a.getLast? = some aL) (hbL : b.getLast? = some bL) (hends : aL ≤ bL) :
    ∀ (fuel : Nat) (s : W1), W1Inv key parts a b b0 aL bL s → (a.length - s.i) + (b.length - s.j) ≤ fuel →
      ∃ s', walk1 a b fuel s = some s' ∧ W1Inv key parts a b b0 aL bL s' ∧ s'.i = a.length := by
  have hexit : ∀ s : W1, W1Inv key parts a b b0 aL bL s → ¬ (s.i < a.length ∧ s.j < b.length) → s.i = a.length := by
    intro s h hn
    rcases Nat.lt_or_ge s.i a.length with hlt | hge
    · have hj : s.j = b.length := by
        have := h.j1.2
        apply Nat.le_antisymm this
        apply Nat.le_of_not_lt
        intro hjl; exact hn ⟨hlt, hjl⟩
      exact h.jend hj
    · have := h.i1.2; omega
  intro fuel
  induction fuel with
  | zero =>
    intro s h hm
    have hn : ¬ (s.i < a.length ∧ s.j < b.length) := by
      intro ⟨h1, h2⟩; omega
    exact ⟨s, by simp only [walk1, hn, if_false], h, hexit s h hn⟩
  | succ fuel ih =>
    intro s h hm
    by_cases hc : s.i < a.length ∧ s.j < b.length
    · obtain ⟨hia, hjb⟩ := hc
      have hai := List.getElem?_eq_getElem hia
      have hbj := List.getElem?_eq_getElem hjb
      have hsrc1 : s.i - 1 = curOf a s := by unfold curOf; omega
      have hanext : ∀ x, a[s.i + 1]? = some x → a[s.i] ≤ x :=
        fun x hx => sorted_get_le' f.asorted (Nat.le_succ _) hai hx
      have hbnext : ∀ y, b[s.j + 1]? = some y → b[s.j] ≤ y :=
        fun y hy => sorted_get_le' hbs (Nat.le_succ _) hbj hy
      -- the last old division is at most the last new one
      have haidx : a[a.length - 1]? = some aL := by rw [← List.getLast?_eq_getElem?]; exact haL
      have hbidx : b[b.length - 1]? = some bL := by rw [← List.getLast?_eq_getElem?]; exact hbL
      have haile : a[s.i] ≤ aL := sorted_get_le' f.asorted (show s.i ≤ a.length - 1 by omega) hai haidx
      have hbjle : b[s.j] ≤ bL := sorted_get_le' hbs (show s.j ≤ b.length - 1 by omega) hbj hbidx
      have hblast : s.j + 1 = b.length → b[s.j] = bL := by
        intro he
        have : b[s.j]? = b[b.length - 1]? := by congr 1; omega
        rw [hbj, hbidx] at this
        exact Option.some.inj this
      simp only [walk1, hia, hjb, and_self, if_true, hai, hbj, Option.bind_eq_bind, Option.bind_some]
      by_cases hlt : a[s.i] < b[s.j]
      · simp only [hlt, if_true]
        rw [push_eq1]
        have hinv := push_inv f haL h hjb (s.i - 1) a[s.i] (s.i + 1) s.j hsrc1 (h.lowa _ hai) (Or.inr ⟨rfl, hai⟩) (Or.inl rfl)
          hanext (by intro y hy; rw [hbj] at hy; cases hy; omega) (by intro he; omega) (by omega)
        exact ih _ hinv (by show a.length - (s.i + 1) + (b.length - s.j) ≤ fuel; omega)
      · simp only [hlt, if_false]
        by_cases hgt : a[s.i] > b[s.j]
        · simp only [hgt, if_true]
          rw [push_eq2]
          have hinv := push_inv f haL h hjb (s.i - 1) b[s.j] s.i (s.j + 1) hsrc1 (h.lowb _ hbj) (Or.inl rfl) (Or.inr ⟨rfl, hbj⟩)
            (by intro x hx; rw [hai] at hx; cases hx; omega) hbnext
            (by
              intro he
              have := hblast he
              omega) hbjle
          exact ih _ hinv (by show a.length - s.i + (b.length - (s.j + 1)) ≤ fuel; omega)
        · simp only [hgt, if_false]
          have heq : a[s.i] = b[s.j] := by omega
          rw [push_eq3]
          -- the `j` update
          have hinv : ∀ j', (j' = s.j + 1 → (a.length = s.i + 1 ∨ ∃ n, a[s.i + 1]? = some n ∧ a[s.i] < n)) →
              (j' = s.j ∨ j' = s.j + 1) → W1Inv key parts a b b0 aL bL (push s (s.i - 1) b[s.j] (s.i + 1) j') := by
            intro j' hadv hj'
            refine push_inv f haL h hjb (s.i - 1) b[s.j] (s.i + 1) j' hsrc1 (h.lowb _ hbj) (Or.inr ⟨rfl, by rw [hai, heq]⟩) ?_
              (by intro x hx; have := hanext x hx; omega) ?_ ?_ hbjle
            · rcases hj' with rfl | rfl
              · exact Or.inl rfl
              · exact Or.inr ⟨rfl, hbj⟩
            · intro y hy
              rcases hj' with rfl | rfl
              · rw [hbj] at hy; cases hy; exact Nat.le_refl _
              · exact hbnext y hy
            · intro he
              rcases hj' with rfl | rfl
              · omega
              · rcases hadv rfl with h1 | ⟨n, hn, hlt'⟩
                · omega
                · exfalso
                  have h1 := hblast he
                  have hnidx := (List.getElem?_eq_some_iff.mp hn).1
                  have h2 := sorted_get_le' f.asorted (show s.i + 1 ≤ a.length - 1 by omega) hn haidx
                  omega
          cases hnext : a[s.i + 1]? with
          | none =>
            simp only [Bool.or_false]
            by_cases hl : a.length = s.i + 1
            · have hb' : (a.length == s.i + 1) = true := by simpa using hl
              simp only [hb', if_true]
              exact ih _ (hinv (s.j + 1) (fun _ => Or.inl hl) (Or.inr rfl))
                (by show a.length - (s.i + 1) + (b.length - (s.j + 1)) ≤ fuel; omega)
            · have : (a.length == s.i + 1) = false := by simpa using hl
              simp only [this, Bool.false_eq_true, if_false]
              exact ih _ (hinv s.j (fun he => by omega) (Or.inl rfl))
                (by show a.length - (s.i + 1) + (b.length - s.j) ≤ fuel; omega)
          | some n =>
            simp only
            by_cases hadv : (a.length == s.i + 1 || decide (a[s.i] < n)) = true
            · simp only [hadv, if_true]
              refine ih _ (hinv (s.j + 1) (fun _ => ?_) (Or.inr rfl))
                (by show a.length - (s.i + 1) + (b.length - (s.j + 1)) ≤ fuel; omega)
              simp only [Bool.or_eq_true, beq_iff_eq, decide_eq_true_eq] at hadv
              rcases hadv with h1 | h1
              · exact Or.inl h1
              · exact Or.inr ⟨n, hnext, h1⟩
            · have : (a.length == s.i + 1 || decide (a[s.i] < n)) = false := by simpa using hadv
              simp only [this, Bool.false_eq_true, if_false]
              exact ih _ (hinv s.j (fun he => by omega) (Or.inl rfl))
                (by show a.length - (s.i + 1) + (b.length - s.j) ≤ fuel; omega)
    · exact ⟨s, by simp only [walk1, hc, if_false], h, hexit s h hc⟩

/-! ### the tail after the first walk, marking the last slice -/

theorem tail_total {parts : List (List α)} {a b : List Nat} {b0 aL bL : Nat} (f : FrameOK key a parts)
    (hbs : b.Pairwise (· ≤ ·)) (haL : a.getLast? = some aL) (hbL : b.getLast? = some bL) :
    ∀ (bs : List Nat) (s : W1), W1Inv key parts a b b0 aL bL s → s.i = a.length → bs = b.drop s.j →
      ∃ s', tailRight a bs s.low s.c s.d = (s'.c, s'.d) ∧ W1Inv key parts a b b0 aL bL s' ∧
        s'.i = a.length ∧ s'.j = b.length
  | [], s, h, hi, hbsd => by
    refine ⟨s, rfl, h, hi, ?_⟩
    have := h.j1.2
    have hl : (b.drop s.j).length = 0 := by rw [← hbsd]; rfl
    simp only [List.length_drop] at hl
    omega
  | bj :: rest, s, h, hi, hbsd => by
    have hjlt : s.j < b.length := by
      apply Nat.lt_of_not_le
      intro hge
      rw [List.drop_eq_nil_of_le hge] at hbsd
      cases hbsd
    have hbj : b[s.j]? = some bj := by
      have := congrArg (fun l => l[0]?) hbsd
      simp only [List.getElem?_cons_zero, List.getElem?_drop, Nat.add_zero] at this
      exact this.symm
    have hrest : rest = b.drop (s.j + 1) := by
      have := congrArg List.tail hbsd
      simp only [List.tail_cons, List.tail_drop] at this
      exact this
    have hbidx : b[b.length - 1]? = some bL := by rw [← List.getLast?_eq_getElem?]; exact hbL
    have ha2 := f.valid.1
    have hinv := push_inv f haL h hjlt (a.length - 2) bj s.i (s.j + 1)
      (by unfold curOf; have := h.i1.1; omega) (h.lowb _ hbj) (Or.inl rfl) (Or.inr ⟨rfl, hbj⟩)
      (by intro x hx; have := (List.getElem?_eq_some_iff.mp hx).1; omega)
      (fun y hy => sorted_get_le' hbs (Nat.le_succ _) hbj hy) (fun _ => hi)
      (sorted_get_le' hbs (show s.j ≤ b.length - 1 by omega) hbj hbidx)
    obtain ⟨s', h1, h2, h3, h4⟩ := tail_total f hbs haL hbL rest (push s (a.length - 2) bj s.i (s.j + 1)) hinv hi hrest
    exact ⟨s', h1, h2, h3, h4⟩

theorem FrameOK.keys_le_last {a : List Nat} {parts : List (List α)} {aL : Nat} (f : FrameOK key a parts)
    (haL : a.getLast? = some aL) {p : Nat} {P : List α} (hP : parts[p]? = some P) : ∀ r ∈ P, key r ≤ aL := by
  intro r hr
  have hp : p < parts.length := (List.getElem?_eq_some_iff.mp hP).1
  have hlen := f.len
  have hx := List.getElem?_eq_getElem (l := a) (i := p) (by omega)
  have hy := List.getElem?_eq_getElem (l := a) (i := p + 1) (by omega)
  have haidx : a[a.length - 1]? = some aL := by rw [← List.getLast?_eq_getElem?]; exact haL
  have hle := sorted_get_le' f.asorted (show p + 1 ≤ a.length - 1 by omega) hy haidx
  rcases (f.truthful.2.2 p P _ _ hP hx hy r hr).2 with h | ⟨_, h⟩ <;> omega

/-- closing the last slice: the rows below `bL`, then the rows of the last partition with key `bL`, are all rows -/
theorem close_last {a : List Nat} {parts : List (List α)} {aL bL : Nat} (f : FrameOK key a parts)
    (haL : a.getLast? = some aL) (hle : aL ≤ bL) (P : List α) (hP : parts[a.length - 2]? = some P) :
    (parts.flatten).filter (fun r => decide (key r < bL)) ++ P.filter (fun r => decide (key r = bL)) =
      parts.flatten := by
  have hlen := f.len
  have ha2 := f.valid.1
  have hpl : a.length - 2 < parts.length := by omega
  have htake : parts = parts.take (a.length - 2) ++ [P] := by
    have h1 := take_succ_getElem? parts (a.length - 2) P hP
    have h2 : parts.take (a.length - 2 + 1) = parts := List.take_of_length_le (by omega)
    rw [h2] at h1; exact h1
  have haidx : a[a.length - 1]? = some aL := by rw [← List.getLast?_eq_getElem?]; exact haL
  have hq := List.getElem?_eq_getElem (l := a) (i := a.length - 2) (by omega)
  have hprev := f.take_lt hpl hq
  have hqle := sorted_get_le' f.asorted (show a.length - 2 ≤ a.length - 1 by omega) hq haidx
  have hsP := f.sorted P (List.mem_of_getElem? hP)
  have hkeys := f.keys_le_last haL hP
  have hsplit := filter_split_sorted key bL P hsP
  have heq : P.filter (fun r => decide (bL ≤ key r)) = P.filter (fun r => decide (key r = bL)) := by
    apply List.filter_congr
    intro r hr
    have := hkeys r hr
    by_cases h1 : key r = bL
    · simp [h1]
    · have : ¬ bL ≤ key r := by omega
      simp [h1, this]
  conv => lhs; rw [htake]
  conv => rhs; rw [htake]
  simp only [List.flatten_append, List.flatten_cons, List.flatten_nil, List.append_nil, List.filter_append]
  rw [filter_lt_of_all key (fun r hr => by have := hprev r hr; omega), List.append_assoc, ← heq, hsplit]

/-! ### what the second walk and the evaluation get -/

variable (key)

/-- state of affairs after the first walk and the right-hand part (before the last slice is marked) -/
structure EndOK (parts : List (List α)) (a b : List Nat) (b0 bL : Nat) (c : List Nat) (d : List Slice) : Prop where
  dpos : 1 ≤ d.length
  cs : CsOK b c.reverse d.length bL
  c0 : c.reverse[0]? = some b0
  link : ∀ t sl, d.reverse[t]? = some sl →
    c.reverse[t]? = some sl.lo ∧ c.reverse[t + 1]? = some sl.hi ∧ sl.rb = false ∧ sl.src + 2 ≤ a.length
  lasthd : ∀ sl, d.head? = some sl → sl.src + 2 = a.length ∧ sl.lo ≤ sl.hi ∧ sl.hi = bL
  sem : (d.reverse.map (pieceAt key parts)).flatten = (parts.flatten).filter (fun r => decide (key r < bL))

variable {key}

theorem end_facts {parts : List (List α)} {a b : List Nat} {b0 aL bL bL2 : Nat} (f : FrameOK key a parts)
    (hbv : ValidDivs b) (haL : a.getLast? = some aL) (hbL : b.getLast? = some bL)
    (hbL2 : b[b.length - 2]? = some bL2) (hends : aL ≤ bL) {s : W1}
    (h : W1Inv key parts a b b0 aL bL s) (hi : s.i = a.length) :
    ∃ c d, dlRight a b aL bL bL2 s = some (c, d) ∧ EndOK key parts a b b0 bL c d := by
  have hbs : b.Pairwise (· ≤ ·) := hbv.2.2
  have hlen := f.len
  have ha2 := f.valid.1
  have hbidx : b[b.length - 1]? = some bL := by rw [← List.getLast?_eq_getElem?]; exact hbL
  -- facts shared by both branches, for an end state `e` with `i = len a`
  have common : ∀ e : W1, W1Inv key parts a b b0 aL bL e → e.i = a.length → e.low = bL →
      1 ≤ e.d.length ∧
      (∀ sl, e.d.head? = some sl → sl.src + 2 = a.length ∧ sl.lo ≤ sl.hi ∧ sl.hi = bL) ∧
      (e.d.reverse.map (pieceAt key parts)).flatten = (parts.flatten).filter (fun r => decide (key r < bL)) := by
    intro e he hei hlow
    have hd1 : 1 ≤ e.d.length := by have := he.dlen; omega
    refine ⟨hd1, ?_, ?_⟩
    · intro sl hsl
      refine ⟨he.lastsrc hei sl hsl, he.lole sl hsl, ?_⟩
      -- the head of `d` is the last slice: its `hi` is the last temporary division
      have hidx : e.d.reverse[e.d.length - 1]? = some sl := by
        rw [List.getElem?_reverse (by omega)]
        have : e.d.length - 1 - (e.d.length - 1) = 0 := by omega
        rw [this]
        cases hd : e.d with
        | nil => rw [hd] at hsl; cases hsl
        | cons x xs => rw [hd] at hsl; simpa using hsl
      obtain ⟨_, h2, _, _⟩ := he.link _ sl hidx
      have hlast : e.c.reverse.getLast? = some e.low := by rw [List.getLast?_reverse]; exact he.chead
      rw [List.getLast?_eq_getElem?, List.length_reverse, he.clen] at hlast
      have e1 : e.d.length - 1 + 1 = e.d.length + 1 - 1 := by omega
      rw [e1, hlast] at h2
      have := Option.some.inj h2
      omega
    · have hsem := he.sem
      have hcur : curOf a e + 1 = parts.length := by unfold curOf; omega
      rw [hcur, List.take_length, hlow] at hsem
      exact hsem
  unfold dlRight
  by_cases htail : aL < bL ∨ bL = bL2
  · rw [if_pos htail]
    obtain ⟨e, he1, he2, he3, he4⟩ := tail_total f hbs haL hbL (b.drop s.j) s h hi rfl
    have hlow : e.low = bL := by
      have h1 := he2.cub
      have h2 := he2.le_low bL (he2.bcov (b.length - 1) bL (by have := he2.j1.1; omega) hbidx)
      omega
    obtain ⟨hd1, hhd, hsem⟩ := common e he2 he3 hlow
    have hlastc : e.c.reverse.getLast? = some bL := by rw [List.getLast?_reverse, ← hlow]; exact he2.chead
    have hcK : e.c.reverse.length = e.d.length + 1 := by rw [List.length_reverse, he2.clen]
    have hatK : e.c.reverse[e.d.length]? = some bL := by
      have := hlastc
      rw [List.getLast?_eq_getElem?, hcK] at this
      simpa using this
    refine ⟨e.c, e.d, by rw [he1], hd1, ?_, he2.cfirst, he2.link, hhd, hsem⟩
    refine ⟨he2.csorted, by omega, hatK, hlastc, hbL, hbs, ?_, ?_⟩
    · intro y hy
      obtain ⟨j', hj', hje⟩ := List.getElem_of_mem hy
      exact List.mem_reverse.mpr (he2.bcov j' y (by omega) (by rw [List.getElem?_eq_getElem hj', hje]))
    · intro bL2' hb2' heq v hv hK
      rw [hbL2] at hb2'; cases hb2'
      -- the last slice starts at or above the previous new division, which is `bL` again
      cases hd : e.d with
      | nil => rw [hd] at hd1; simp at hd1
      | cons x xs =>
        have hxs : e.d.head? = some x := by rw [hd]; rfl
        have h1 := he2.lastlo he4 x bL2 hxs hbL2
        have hidx : e.d.reverse[e.d.length - 1]? = some x := by
          rw [List.getElem?_reverse (by omega)]
          have : e.d.length - 1 - (e.d.length - 1) = 0 := by omega
          rw [this, hd]; rfl
        obtain ⟨h2, _, _, _⟩ := he2.link _ x hidx
        rw [h2] at hv
        have := Option.some.inj hv
        have hvle : x.lo ≤ bL := le_last_of_mono _ _ he2.csorted hlastc x.lo (List.mem_of_getElem? h2)
        omega
  · rw [if_neg htail]
    have hnd : ¬ (isSingleLastDiv a && decide (s.i < a.length)) = true := by
      have : ¬ s.i < a.length := by omega
      simp [this]
    rw [if_neg hnd]
    have haLbL : aL = bL := by
      have : ¬ aL < bL := fun hh => htail (Or.inl hh)
      omega
    have hne2 : bL ≠ bL2 := fun hh => htail (Or.inr hh)
    have hlow : s.low = bL := by
      have h1 := h.cub
      have h2 := h.lowi hi
      omega
    obtain ⟨hd1, hhd, hsem⟩ := common s h hi hlow
    have hcK : s.c.reverse.length = s.d.length + 1 := by rw [List.length_reverse, h.clen]
    have hlastc : s.c.reverse.getLast? = some bL := by rw [List.getLast?_reverse, ← hlow]; exact h.chead
    have hatK0 : s.c.reverse[s.d.length]? = some bL := by
      have := hlastc
      rw [List.getLast?_eq_getElem?, hcK] at this
      simpa using this
    have hrev : (aL :: s.c).reverse = s.c.reverse ++ [aL] := by simp
    refine ⟨aL :: s.c, s.d, rfl, hd1, ?_, ?_, ?_, hhd, hsem⟩
    · rw [hrev]
      refine ⟨?_, by simp only [List.length_append, hcK, List.length_cons, List.length_nil]; omega, ?_, ?_, hbL, hbs, ?_, ?_⟩
      · rw [List.pairwise_append]
        refine ⟨h.csorted, List.pairwise_singleton _ _, ?_⟩
        intro x hx y hy
        simp only [List.mem_singleton] at hy
        subst hy
        have := h.le_low x (List.mem_reverse.mp hx)
        omega
      · rw [List.getElem?_append_left (by omega)]; exact hatK0
      · rw [List.getLast?_append]; simp [haLbL]
      · intro y hy
        obtain ⟨j', hj', hje⟩ := List.getElem_of_mem hy
        have hyj : b[j']? = some y := by rw [List.getElem?_eq_getElem hj', hje]
        rcases Nat.lt_or_ge j' s.j with hlt | hge
        · exact List.mem_append_left _ (List.mem_reverse.mpr (h.bcov j' y hlt hyj))
        · -- not yet consumed: at least `low = bL`, hence `bL` itself
          have hsj : s.j < b.length := by omega
          have hbj := List.getElem?_eq_getElem hsj
          have h1 := h.lowb _ hbj
          have h2 := sorted_get_le' hbs hge hbj hyj
          have h3 := sorted_get_le' hbs (show j' ≤ b.length - 1 by omega) hyj hbidx
          have : y = aL := by omega
          rw [this]
          exact List.mem_append_right _ (List.mem_singleton.mpr rfl)
      · intro bL2' hb2' heq
        rw [hbL2] at hb2'; cases hb2'
        exact absurd heq.symm hne2
    · rw [hrev, List.getElem?_append_left (by omega)]; exact h.cfirst
    · intro t sl ht
      have htlt : t < s.d.length := by
        have := (List.getElem?_eq_some_iff.mp ht).1
        simpa using this
      obtain ⟨e1, e2, e3, e4⟩ := h.link t sl ht
      rw [hrev]
      refine ⟨?_, ?_, e3, e4⟩
      · rw [List.getElem?_append_left (by omega)]; exact e1
      · rw [List.getElem?_append_left (by omega)]; exact e2

theorem init_inv {parts : List (List α)} {a b : List Nat} {b0 a0 aL bL : Nat} (f : FrameOK key a parts)
    (hbv : ValidDivs b) (hb0 : b[0]? = some b0) (ha0 : a[0]? = some a0) (hle0 : b0 ≤ a0)
    (hbL : b.getLast? = some bL) :
    W1Inv key parts a b b0 aL bL { i := 1, j := 1, low := b0, c := [b0], d := [] } := by
  have ha2 := f.valid.1
  have hb2 := hbv.1
  have hlen := f.len
  have hbs := hbv.2.2
  have hbidx : b[b.length - 1]? = some bL := by rw [← List.getLast?_eq_getElem?]; exact hbL
  refine ⟨⟨Nat.le_refl _, by show 1 ≤ a.length; omega⟩, by simp, ?_, ?_, ?_, ?_, ?_,
    ⟨Nat.le_refl _, by show 1 ≤ b.length; omega⟩, ?_, rfl, rfl,
    List.pairwise_singleton _ _, rfl, ?_, ?_, ?_, ?_, ?_, ?_⟩
  · exact sorted_get_le' hbs (Nat.zero_le _) hb0 hbidx
  · intro h; simp only at h; omega
  · intro _ sl hsl; simp at hsl
  · intro h; simp only at h; omega
  · intro sl hsl; simp at hsl
  · intro h; simp only at h; omega
  · intro t sl ht; simp at ht
  · intro x hx
    have := sorted_get_le' f.asorted (Nat.zero_le 1) ha0 hx
    show b0 ≤ x; omega
  · intro y hy
    exact sorted_get_le' hbs (Nat.zero_le 1) hb0 hy
  · intro j' y hj' hy
    have : j' = 0 := by simp only at hj'; omega
    subst this
    rw [hb0] at hy; cases hy
    exact List.mem_singleton.mpr rfl
  · intro r hr
    have : curOf a ({ i := 1, j := 1, low := b0, c := [b0], d := [] } : W1) = 0 := by unfold curOf; simp
    rw [this] at hr
    simp at hr
  · have hc : curOf a ({ i := 1, j := 1, low := b0, c := [b0], d := [] } : W1) = 0 := by unfold curOf; simp
    rw [hc]
    have hP := List.getElem?_eq_getElem (l := parts) (i := 0) (by omega)
    rw [take_succ_getElem? parts 0 _ hP]
    simp only [List.reverse_nil, List.map_nil, List.flatten_nil, List.take_zero, List.nil_append, List.flatten_cons,
      List.append_nil]
    symm
    apply filter_lt_nil_of_all key
    intro r hr
    have := f.keys_ge hP ha0 r hr
    show b0 ≤ key r; omega

/-- **`RepartitionDivisions._layer` is correct.** For every frame that is truthful for the old divisions `a`
    (a legal division vector) with partitions in index order, and every legal new division vector `b` accepted by
    the guards (`force`: `b[0] ≤ a[0]`, `a[-1] ≤ b[-1]`; otherwise equal ends): the layer is built without
    IndexError / KeyError, evaluates without a missing key, returns the rows of the frame in the same order, and the
    result is truthful for `b`. -/
theorem divisions_walk_correct {parts : List (List α)} {a b : List Nat} {force : Bool} (f : FrameOK key a parts)
    (hbv : ValidDivs b) {g : Nat × Nat × Nat × Nat} (hg : dlGuards a b force = some g) :
    ∃ out, repartitionDivisions key parts a b force = some out ∧ out.flatten = parts.flatten ∧
      Truthful key b out := by
  have ha2 := f.valid.1
  have hb2 := hbv.1
  have hlen := f.len
  have hbs := hbv.2.2
  -- the guards
  obtain ⟨a0, ha0⟩ : ∃ a0, a.head? = some a0 := by
    cases a with | nil => simp at ha2 | cons x _ => exact ⟨x, rfl⟩
  obtain ⟨b0, hb0⟩ : ∃ b0, b.head? = some b0 := by
    cases b with | nil => simp at hb2 | cons x _ => exact ⟨x, rfl⟩
  obtain ⟨aL, haL⟩ : ∃ aL, a.getLast? = some aL := by
    cases h : a.getLast? with
    | none => rw [List.getLast?_eq_none_iff] at h; subst h; simp at ha2
    | some v => exact ⟨v, rfl⟩
  obtain ⟨bL, hbL⟩ : ∃ bL, b.getLast? = some bL := by
    cases h : b.getLast? with
    | none => rw [List.getLast?_eq_none_iff] at h; subst h; simp at hb2
    | some v => exact ⟨v, rfl⟩
  have hbL2 : b[b.length - 2]? = some b[b.length - 2] := List.getElem?_eq_getElem (by omega)
  have hguard : g = (b0, aL, bL, b[b.length - 2]) ∧ b0 ≤ a0 ∧ aL ≤ bL := by
    unfold dlGuards at hg
    have h1 : ¬ a.length < 2 := by omega
    have h2 : ¬ b.length < 2 := by omega
    simp only [h1, h2, if_false, ha0, hb0, haL, hbL, hbL2, Option.bind_eq_bind, Option.bind_some] at hg
    by_cases hcond : (if force = true then decide (a0 < b0 ∨ aL > bL) else decide (a0 ≠ b0 ∨ aL ≠ bL)) = true
    · rw [if_pos hcond] at hg; cases hg
    · rw [if_neg hcond] at hg
      refine ⟨(Option.some.inj hg).symm, ?_⟩
      cases force with
      | true =>
        simp only [if_true, decide_eq_true_eq] at hcond
        omega
      | false =>
        simp only [Bool.false_eq_true, if_false, decide_eq_true_eq, ne_eq] at hcond
        omega
  obtain ⟨rfl, hle0, hends⟩ := hguard
  have ha0' : a[0]? = some a0 := by cases a with | nil => cases ha0 | cons x _ => simpa using ha0
  have hb0' : b[0]? = some b0 := by cases b with | nil => cases hb0 | cons x _ => simpa using hb0
  -- first walk, right-hand part
  have hinit := init_inv (aL := aL) f hbv hb0' ha0' hle0 hbL
  obtain ⟨s1, hw1, hinv1, hi1⟩ := walk1_total f hbs haL hbL hends (a.length + b.length) _ hinit
    (by show a.length - 1 + (b.length - 1) ≤ a.length + b.length; omega)
  obtain ⟨c, d, hright, hend⟩ := end_facts f hbv haL hbL hbL2 hends hinv1 hi1
  -- marking the last slice
  obtain ⟨x, xs, hd⟩ : ∃ x xs, d = x :: xs := by
    cases d with
    | nil => have := hend.dpos; simp at this
    | cons x xs => exact ⟨x, xs, rfl⟩
  subst hd
  have hmark : dlMarkLast (x :: xs) = some ({ x with rb := true } :: xs) := rfl
  obtain ⟨hxsrc, hxle, hxhi⟩ := hend.lasthd x rfl
  have hK : (x :: xs).length = xs.length + 1 := rfl
  have hxidx : (x :: xs).reverse[xs.length]? = some x := by simp
  obtain ⟨hxlo, hxhi', hxrb, _⟩ := hend.link xs.length x hxidx
  -- second walk
  have hcs := hend.cs
  obtain ⟨outIdx, hw2, hflatIdx, hgroups⟩ := walk2_spec b c.reverse (x :: xs).length bL b[b.length - 2] hcs hend.dpos
    hb2 hbv.2.1 hbL2 (b.drop 1) 1 0 rfl (Nat.le_refl _) (Nat.zero_le _)
    (by intro t v y ht; omega)
    (by
      intro t v y _ hv hy
      simp only [Nat.sub_self] at hy
      rw [hb0'] at hy; cases hy
      exact sorted_get_le' hcs.sorted (Nat.zero_le t) hend.c0 hv)
    (by
      intro he
      have := congrArg List.length he
      simp only [List.length_drop, List.length_nil] at this
      omega)
  -- the layer
  have hlayer : divisionsLayer a b force = some
      { slices := ({ x with rb := true } :: xs).reverse, out := outIdx, c := c.reverse } := by
    unfold divisionsLayer
    simp only [hg, Option.bind_eq_bind, Option.bind_some, hw1, hright, hmark, List.length_cons] at hw2 ⊢
    simp only [hw2, Option.bind_some, Option.pure_def]
  -- evaluation of the slices
  have hmlink : ∀ t sl, ({ x with rb := true } :: xs).reverse[t]? = some sl →
      c.reverse[t]? = some sl.lo ∧ c.reverse[t + 1]? = some sl.hi ∧ sl.src + 2 ≤ a.length ∧
      (sl.rb = true → t = xs.length) := by
    intro t sl ht
    simp only [List.reverse_cons] at ht
    rcases Nat.lt_or_ge t xs.length with hlt | hge
    · rw [List.getElem?_append_left (by simpa using hlt)] at ht
      have : (x :: xs).reverse[t]? = some sl := by
        simp only [List.reverse_cons]
        rw [List.getElem?_append_left (by simpa using hlt)]; exact ht
      obtain ⟨e1, e2, e3, e4⟩ := hend.link t sl this
      exact ⟨e1, e2, e4, fun h => by rw [e3] at h; cases h⟩
    · have hte : t = xs.length := by
        have := (List.getElem?_eq_some_iff.mp ht).1
        simp only [List.length_append, List.length_reverse, List.length_cons, List.length_nil] at this
        omega
      subst hte
      rw [List.getElem?_append_right (by simp)] at ht
      simp only [List.length_reverse, Nat.sub_self, List.getElem?_cons_zero, Option.some.injEq] at ht
      subst ht
      exact ⟨hxlo, hxhi', by show x.src + 2 ≤ a.length; omega, fun _ => rfl⟩
  have hpieces : ({ x with rb := true } :: xs).reverse.mapM
      (fun s => (parts[s.src]?).map fun p => boundarySlice key p s.lo s.hi s.rb) =
      some (({ x with rb := true } :: xs).reverse.map (pieceAt key parts)) := by
    apply mapM_eq_map
    intro sl hsl
    obtain ⟨t, ht, hte⟩ := List.getElem_of_mem hsl
    obtain ⟨_, _, hsrc, _⟩ := hmlink t sl (by rw [List.getElem?_eq_getElem ht, hte])
    have hp : sl.src < parts.length := by omega
    unfold pieceAt
    simp [List.getElem?_eq_getElem hp, List.getD_eq_getElem?_getD]
  -- rows: the marked pieces are all rows in order
  have hPlast := List.getElem?_eq_getElem (l := parts) (i := a.length - 2) (by omega)
  have hpflat : (({ x with rb := true } :: xs).reverse.map (pieceAt key parts)).flatten = parts.flatten := by
    have hsem := hend.sem
    simp only [List.reverse_cons, List.map_append, List.map_cons, List.map_nil, List.flatten_append,
      List.flatten_cons, List.flatten_nil, List.append_nil] at hsem ⊢
    have hx' : pieceAt key parts { x with rb := true } =
        pieceAt key parts x ++ (parts[a.length - 2]).filter (fun r => decide (key r = bL)) := by
      have hsP := f.sorted _ (List.getElem_mem (l := parts) (n := a.length - 2) (by omega))
      have hsrc : x.src = a.length - 2 := by omega
      unfold pieceAt
      simp only [hsrc, List.getD_eq_getElem?_getD, hPlast, Option.getD_some]
      have := filter_split_closed key hsP (lo := x.lo) (hi := x.hi) hxle
      unfold boundarySlice
      rw [hxrb, hxhi] at *
      exact this.symm
    rw [hx', ← List.append_assoc, hsem]
    exact close_last f haL hends _ hPlast
  have hKlen : (({ x with rb := true } :: xs).reverse.map (pieceAt key parts)).length = xs.length + 1 := by simp
  have hbound : ∀ ks ∈ outIdx, ∀ k ∈ ks,
      k < (({ x with rb := true } :: xs).reverse.map (pieceAt key parts)).length := by
    intro ks hks k hk
    have : k ∈ outIdx.flatten := List.mem_flatten.mpr ⟨ks, hks, hk⟩
    rw [hflatIdx] at this
    rw [hKlen]
    have := (List.mem_range'_1.mp this).2
    simp only [List.length_cons] at this
    omega
  refine ⟨outIdx.map fun ks =>
    (ks.map fun k => (({ x with rb := true } :: xs).reverse.map (pieceAt key parts)).getD k []).flatten, ?_, ?_, ?_⟩
  · unfold repartitionDivisions
    rw [hlayer]
    simp only [Option.bind_some]
    unfold evalDivisions
    simp only [hpieces, Option.bind_eq_bind, Option.bind_some]
    exact out_eval _ outIdx hbound
  · rw [flatten_map_flatten, hflatIdx]
    have : List.range' 0 ((x :: xs).length - 0) =
        List.range (({ x with rb := true } :: xs).reverse.map (pieceAt key parts)).length := by
      rw [hKlen, List.range_eq_range']; simp
    rw [this, range_map_getD, hpflat]
  · have hol : outIdx.length = b.length - 1 := by
      have := walk2_length _ _ _ _ _ _ _ _ _ _ hw2
      simpa using this
    refine ⟨by simp only [List.length_map]; omega, hbs, ?_⟩
    intro gi p lo hi hp hlo hhi r hr
    simp only [List.getElem?_map, Option.map_eq_some_iff] at hp
    obtain ⟨ks, hks, rfl⟩ := hp
    obtain ⟨pc, hpc, hrpc⟩ := List.mem_flatten.mp hr
    obtain ⟨t, ht, rfl⟩ := List.mem_map.mp hpc
    obtain ⟨lo', hi', ct, ct1, e1, e2, e3, e4, e5, e6, e7⟩ := hgroups gi ks hks t ht
    simp only [Nat.sub_self, Nat.zero_add] at e1
    rw [hlo] at e1; cases e1
    have e2' : b[gi + 1]? = some hi' := by rw [← e2]; congr 1; omega
    rw [hhi] at e2'; cases e2'
    -- the piece
    have htK : t < xs.length + 1 := by
      have := hbound ks (List.mem_of_getElem? hks) t ht
      rw [hKlen] at this; exact this
    have hsl := List.getElem?_eq_getElem (l := ({ x with rb := true } :: xs).reverse) (i := t) (by simpa using htK)
    obtain ⟨m1, m2, _, m4⟩ := hmlink t _ hsl
    have hgd : (({ x with rb := true } :: xs).reverse.map (pieceAt key parts)).getD t [] =
        pieceAt key parts (({ x with rb := true } :: xs).reverse[t]'(by simpa using htK)) := by
      rw [List.getD_eq_getElem?_getD, List.getElem?_map, hsl]; rfl
    rw [hgd] at hrpc
    unfold pieceAt at hrpc
    obtain ⟨_, hrlo, hrhi⟩ := mem_boundarySlice hrpc
    rw [e3] at m1; rw [e4] at m2
    have := Option.some.inj m1
    have := Option.some.inj m2
    simp only [List.length_map]
    refine ⟨by omega, ?_⟩
    rcases hrhi with h1 | ⟨h1, h2⟩
    · left; omega
    · right
      have := m4 h1
      have := e7 (by simp only [List.length_cons]; omega)
      exact ⟨by omega, by omega⟩

end
end Dask.Repart
