import DaskModel.Lemmas.SpecResolve
/-! Soundness of the checker `fuseSpecOK` for real outputs of `fuse_linear_task_spec` / `GraphNode.fuse`. -/
namespace Dask.TaskTerm

theorem Func.eq_of_beq : ∀ a b : Func, Func.beq a b = true → a = b
  | .call a, .call b, h => by simp [Func.beq] at h; rw [h]
  | .identityCast a, .identityCast b, h => by simp [Func.beq] at h; rw [h]
  | .toContainer a, .toContainer b, h => by simp [Func.beq] at h; rw [h]
  | .bindFirst, .bindFirst, _ => rfl
  | .constNone, .constNone, _ => rfl
  | .call _, .identityCast _, h | .call _, .toContainer _, h | .call _, .bindFirst, h | .call _, .constNone, h
  | .identityCast _, .call _, h | .identityCast _, .toContainer _, h | .identityCast _, .bindFirst, h
  | .identityCast _, .constNone, h
  | .toContainer _, .call _, h | .toContainer _, .identityCast _, h | .toContainer _, .bindFirst, h
  | .toContainer _, .constNone, h
  | .bindFirst, .call _, h | .bindFirst, .identityCast _, h | .bindFirst, .toContainer _, h | .bindFirst, .constNone, h
  | .constNone, .call _, h | .constNone, .identityCast _, h | .constNone, .toContainer _, h | .constNone, .bindFirst, h => by
    simp [Func.beq] at h

mutual
theorem Node.eq_of_beq : ∀ a b : Node, a.beq b = true → a = b
  | .alias a, b, h => by cases b <;> simp_all [Node.beq]
  | .data a, b, h => by cases b <;> simp_all [Node.beq]
  | .ref a, b, h => by cases b <;> simp_all [Node.beq]
  | .raw a, b, h => by cases b <;> simp_all [Node.beq]
  | .task f a k, b, h => by
    cases b <;> simp [Node.beq] at h
    rename_i g b l
    rw [Func.eq_of_beq f g h.1.1, eq_of_beqNodes a b h.1.2, eq_of_beqKwNodes k l h.2]
theorem eq_of_beqNodes : ∀ a b : List Node, beqNodes a b = true → a = b
  | [], b, h => by cases b <;> simp_all [beqNodes]
  | x :: xs, b, h => by
    cases b with
    | nil => simp [beqNodes] at h
    | cons y ys =>
      simp [beqNodes] at h
      rw [Node.eq_of_beq x y h.1, eq_of_beqNodes xs ys h.2]
theorem eq_of_beqKwNodes : ∀ a b : List (Obj × Node), beqKwNodes a b = true → a = b
  | [], b, h => by cases b <;> simp_all [beqKwNodes]
  | (k, x) :: xs, b, h => by
    cases b with
    | nil => simp [beqKwNodes] at h
    | cons y ys =>
      obtain ⟨k', y⟩ := y
      simp [beqKwNodes] at h
      rw [h.1.1, Node.eq_of_beq x y h.1.2, eq_of_beqKwNodes xs ys h.2]
end

theorem Func.beq_refl : ∀ a : Func, Func.beq a a = true
  | .call a => by simp [Func.beq]
  | .identityCast a => by simp [Func.beq]
  | .toContainer a => by simp [Func.beq]
  | .bindFirst => rfl
  | .constNone => rfl

mutual
theorem Node.beq_refl : ∀ a : Node, a.beq a = true
  | .alias a => by simp [Node.beq]
  | .data a => by simp [Node.beq]
  | .ref a => by simp [Node.beq]
  | .raw a => by simp [Node.beq]
  | .task f a k => by simp [Node.beq, Func.beq_refl f, beqNodes_refl a, beqKwNodes_refl k]
theorem beqNodes_refl : ∀ a : List Node, beqNodes a a = true
  | [] => by simp [beqNodes]
  | x :: xs => by simp [beqNodes, Node.beq_refl x, beqNodes_refl xs]
theorem beqKwNodes_refl : ∀ a : List (Obj × Node), beqKwNodes a a = true
  | [] => by simp [beqKwNodes]
  | (k, x) :: xs => by simp [beqKwNodes, Node.beq_refl x, beqKwNodes_refl xs]
end

instance : DecidableEq Node := fun a b =>
  decidable_of_iff (a.beq b = true) ⟨Node.eq_of_beq a b, fun h => h ▸ Node.beq_refl a⟩

theorem nodupKeys_nodup : ∀ l : List Obj, nodupKeys l = true → l.Nodup
  | [], _ => List.nodup_nil
  | x :: xs, h => by
    simp only [nodupKeys, Bool.and_eq_true, Bool.not_eq_true'] at h
    refine List.nodup_cons.mpr ⟨?_, nodupKeys_nodup xs h.2⟩
    intro hm
    have : xs.contains x = true := by simpa using hm
    rw [this] at h; exact absurd h.1 (by simp)

theorem lookup_of_mem_nodup {α : Type} : ∀ {g : List (Obj × α)} {k : Obj} {v : α}, (g.map Prod.fst).Nodup → (k, v) ∈ g →
    g.lookup k = some v
  | [], _, _, _, h => by simp at h
  | (k', v') :: rest, k, v, hn, h => by
    simp only [List.map_cons, List.nodup_cons] at hn
    rcases List.mem_cons.mp h with h1 | h2
    · cases h1; simp [List.lookup]
    · have hne : (k == k') = false := by
        rw [Bool.eq_false_iff]; intro hc
        have hkk : k = k' := eq_of_beq hc
        exact hn.1 (List.mem_map.mpr ⟨(k, v), h2, hkk⟩)
      simp only [List.lookup, hne]
      exact lookup_of_mem_nodup hn.2 h2

/-- in a duplicate-free concatenation each element comes from one piece only -/
theorem flatMap_nodup_unique {β : Type} (f : β → List Obj) : ∀ (l : List β), (l.flatMap f).Nodup →
    ∀ a b x, a ∈ l → b ∈ l → x ∈ f a → x ∈ f b → a = b
  | [], _, _, _, _, ha, _, _, _ => by simp at ha
  | c :: rest, h, a, b, x, ha, hb, hxa, hxb => by
    simp only [List.flatMap_cons] at h
    have hd := (List.nodup_append.mp h)
    rcases List.mem_cons.mp ha with rfl | ha' <;> rcases List.mem_cons.mp hb with rfl | hb'
    · rfl
    · exact absurd rfl (hd.2.2 x hxa x (List.mem_flatMap.mpr ⟨b, hb', hxb⟩))
    · exact absurd rfl (hd.2.2 x hxb x (List.mem_flatMap.mpr ⟨a, ha', hxa⟩))
    · exact flatMap_nodup_unique f rest hd.2.1 a b x ha' hb' hxa hxb

/-! ### what the checker establishes -/

structure FusedEntryOK (g : NGraph) (req : List Obj) (out : FGraph) (k : Obj) (inner : NGraph) (top : Obj)
    (ext : List Obj) : Prop where
  innerSub : ∀ c n, (c, n) ∈ inner → g.lookup c = some n
  innerNodup : (inner.map Prod.fst).Nodup
  topIn : top ∈ inner.map Prod.fst
  keyOK : k = top ∨ (g.lookup k = none ∧ (∀ x n, (x, n) ∈ g → k ∉ n.deps) ∧ out.lookup top = some (.plain (.alias k)))
  extOK : ∀ c n, (c, n) ∈ inner → ∀ d ∈ n.deps, d ∈ inner.map Prod.fst ∨ d ∈ ext
  priv : ∀ c ∈ inner.map Prod.fst, c ≠ top →
    c ∉ req ∧ out.lookup c = none ∧ ∀ x n, (x, n) ∈ g → x ∉ inner.map Prod.fst → c ∉ n.deps

def PlainEntryOK (g : NGraph) (out : FGraph) (k : Obj) (n : Node) : Prop :=
  g.lookup k = some n ∨ ∃ nk inner ext, n = .alias nk ∧ g.lookup nk = none ∧ out.lookup nk = some (.fused inner k ext)

structure FuseOK (g : NGraph) (req : List Obj) (out : FGraph) : Prop where
  outNodup : (out.map Prod.fst).Nodup
  plainOK : ∀ k n, (k, FNode.plain n) ∈ out → PlainEntryOK g out k n
  fusedOK : ∀ k inner top ext, (k, FNode.fused inner top ext) ∈ out → FusedEntryOK g req out k inner top ext
  cover : ∀ k n, (k, n) ∈ g → out.lookup k = some (.plain n) ∨ k ∈ innerKeysOf out
  disjoint : (innerKeysOf out).Nodup
  reqKept : ∀ k ∈ req, (g.lookup k).isSome → (out.lookup k).isSome

theorem fuseEntryOK_plain {g : NGraph} {req : List Obj} {out : FGraph} {k : Obj} {n : Node}
    (h : fuseEntryOK g req out k (.plain n) = true) : PlainEntryOK g out k n := by
  simp only [fuseEntryOK, Bool.or_eq_true] at h
  rcases h with h | h
  · left
    cases hl : g.lookup k with
    | none => rw [hl] at h; cases h
    | some n' => rw [hl] at h; simp only at h; rw [Node.eq_of_beq n n' h]
  · right
    cases n with
    | alias nk =>
      simp only [Bool.and_eq_true, Option.isNone_iff_eq_none] at h
      cases ho : out.lookup nk with
      | none => rw [ho] at h; simp at h
      | some fn =>
        rw [ho] at h
        cases fn with
        | plain _ => simp at h
        | fused inner top ext =>
          simp only [beq_iff_eq] at h
          exact ⟨nk, inner, ext, rfl, h.1, by rw [ho, h.2]⟩
    | data _ => simp at h
    | ref _ => simp at h
    | raw _ => simp at h
    | task _ _ _ => simp at h

theorem fuseEntryOK_fused {g : NGraph} {req : List Obj} {out : FGraph} {k : Obj} {inner : NGraph} {top : Obj}
    {ext : List Obj} (h : fuseEntryOK g req out k (.fused inner top ext) = true) :
    FusedEntryOK g req out k inner top ext := by
  simp only [fuseEntryOK, Bool.and_eq_true, List.all_eq_true, Bool.or_eq_true, List.contains_eq_mem,
    decide_eq_true_eq, beq_iff_eq, Bool.not_eq_true', decide_eq_false_iff_not] at h
  obtain ⟨⟨⟨⟨⟨h1, h2⟩, h3⟩, h4⟩, h5⟩, h6⟩ := h
  refine ⟨?_, nodupKeys_nodup _ h2, h3, ?_, ?_, ?_⟩
  · intro c n hcn
    have := h1 (c, n) hcn
    cases hl : g.lookup c with
    | none => rw [hl] at this; cases this
    | some n' => rw [hl] at this; simp only at this; rw [Node.eq_of_beq n n' this]
  · rcases h4 with h4 | h4
    · exact Or.inl h4
    · right
      obtain ⟨⟨h41, h42⟩, h43⟩ := h4
      refine ⟨by simpa using h41, ?_, ?_⟩
      · intro x n hxn hk
        have := (List.any_eq_false.mp h42) (x, n) hxn
        simp at this
        exact this hk
      · cases ho : out.lookup top with
        | none => rw [ho] at h43; cases h43
        | some fn =>
          rw [ho] at h43
          cases fn with
          | fused _ _ _ => simp at h43
          | plain n =>
            cases n <;> simp at h43
            rw [h43]
  · intro c n hcn d hd
    exact h5 (c, n) hcn d hd
  · intro c hc hct
    rcases h6 c hc with h | h
    · exact absurd h hct
    · obtain ⟨⟨h61, h62⟩, h63⟩ := h
      refine ⟨h61, by simpa using h62, ?_⟩
      intro x n hxn hxi
      rcases h63 (x, n) hxn with h | h
      · exact absurd h hxi
      · exact h

theorem fuseSpecOK_spec {g : NGraph} {req : List Obj} {out : FGraph} (h : fuseSpecOK g req out = true) :
    FuseOK g req out := by
  simp only [fuseSpecOK, Bool.and_eq_true, List.all_eq_true, Bool.or_eq_true] at h
  obtain ⟨⟨⟨⟨h1, h2⟩, h3⟩, h4⟩, h5⟩ := h
  refine ⟨nodupKeys_nodup _ h1, ?_, ?_, ?_, nodupKeys_nodup _ h4, ?_⟩
  · intro k n hm; exact fuseEntryOK_plain (h2 (k, .plain n) hm)
  · intro k inner top ext hm; exact fuseEntryOK_fused (h2 (k, .fused inner top ext) hm)
  · intro k n hm
    rcases h3 (k, n) hm with h | h
    · left
      cases ho : out.lookup k with
      | none => rw [ho] at h; cases h
      | some fn =>
        rw [ho] at h
        cases fn with
        | fused _ _ _ => simp at h
        | plain n' => simp only at h; rw [Node.eq_of_beq n' n h]
    · right; simpa using h
  · intro k hk hg
    rcases h5 k hk with h | h
    · rw [Option.isNone_iff_eq_none.mp h] at hg; cases hg
    · exact h

end Dask.TaskTerm

namespace Dask.TaskTerm

/-! ### soundness -/

/-- an original key whose value can be observed in both graphs: present in both, or in neither -/
def Vis (g : NGraph) (out : FGraph) (k : Obj) : Prop :=
  (g.lookup k = none ∧ out.lookup k = none) ∨ ((g.lookup k).isSome ∧ (out.lookup k).isSome)

theorem chain_of_inner {out : FGraph} {k : Obj} (h : k ∈ innerKeysOf out) :
    ∃ k' inner top ext, (k', FNode.fused inner top ext) ∈ out ∧ k ∈ inner.map Prod.fst := by
  unfold innerKeysOf at h
  obtain ⟨⟨k', fn⟩, hm, hk⟩ := List.mem_flatMap.mp h
  cases fn with
  | plain _ => simp [FNode.innerKeys] at hk
  | fused inner top ext => exact ⟨k', inner, top, ext, hm, hk⟩

theorem same_chain {g : NGraph} {req : List Obj} {out : FGraph} (H : FuseOK g req out)
    {k1 k2 : Obj} {i1 i2 : NGraph} {t1 t2 : Obj} {e1 e2 : List Obj}
    (h1 : (k1, FNode.fused i1 t1 e1) ∈ out) (h2 : (k2, FNode.fused i2 t2 e2) ∈ out) {x : Obj}
    (hx1 : x ∈ i1.map Prod.fst) (hx2 : x ∈ i2.map Prod.fst) : i1 = i2 ∧ t1 = t2 := by
  have := flatMap_nodup_unique (fun kn : Obj × FNode => kn.2.innerKeys) out H.disjoint _ _ x h1 h2 hx1 hx2
  cases this
  exact ⟨rfl, rfl⟩

/-- the top key of a fused entry is a key of the output graph -/
theorem top_in_out {g : NGraph} {req : List Obj} {out : FGraph} (H : FuseOK g req out)
    {k' : Obj} {inner : NGraph} {top : Obj} {ext : List Obj} (hm : (k', FNode.fused inner top ext) ∈ out) :
    (out.lookup top).isSome := by
  rcases (H.fusedOK _ _ _ _ hm).keyOK with rfl | ⟨_, _, h⟩
  · rw [lookup_of_mem_nodup H.outNodup hm]; rfl
  · rw [h]; rfl

/-- a dependency of an entry of `g` that is not a key of `g` is not a key of the output either -/
theorem dep_ext_vis {g : NGraph} {req : List Obj} {out : FGraph} (H : FuseOK g req out)
    {x : Obj} {n : Node} (hxn : (x, n) ∈ g) {d : Obj} (hd : d ∈ n.deps) (hg : g.lookup d = none) :
    out.lookup d = none := by
  cases ho : out.lookup d with
  | none => rfl
  | some fn =>
    exfalso
    have hm := mem_of_lookup out d fn ho
    cases fn with
    | plain n' =>
      rcases H.plainOK d n' hm with h | ⟨nk, inner, ext, _, _, h3⟩
      · rw [hg] at h; cases h
      · have hf := H.fusedOK _ _ _ _ (mem_of_lookup out nk _ h3)
        obtain ⟨⟨c, m⟩, hcm, hc⟩ := List.mem_map.mp hf.topIn
        simp only at hc; subst hc
        rw [hf.innerSub _ m hcm] at hg; cases hg
    | fused inner top ext =>
      have hf := H.fusedOK _ _ _ _ hm
      rcases hf.keyOK with rfl | ⟨_, h2, _⟩
      · obtain ⟨⟨c, m⟩, hcm, hc⟩ := List.mem_map.mp hf.topIn
        simp only at hc; subst hc
        rw [hf.innerSub _ m hcm] at hg; cases hg
      · exact h2 x n hxn hd

/-- a dependency of an untouched entry is observable -/
theorem dep_vis_plain {g : NGraph} {req : List Obj} {out : FGraph} (H : FuseOK g req out)
    {x : Obj} {n : Node} (hxn : (x, n) ∈ g) (hox : out.lookup x = some (.plain n)) {d : Obj} (hd : d ∈ n.deps) :
    Vis g out d := by
  cases hg : g.lookup d with
  | none => exact Or.inl ⟨hg, dep_ext_vis H hxn hd hg⟩
  | some m =>
    right
    refine ⟨by rw [hg]; rfl, ?_⟩
    rcases H.cover d m (mem_of_lookup g d m hg) with h | h
    · rw [h]; rfl
    · obtain ⟨k2, i2, t2, e2, hm2, hd2⟩ := chain_of_inner h
      have hf2 := H.fusedOK _ _ _ _ hm2
      by_cases hdt : d = t2
      · subst hdt; exact top_in_out H hm2
      · exfalso
        have hp := hf2.priv d hd2 hdt
        by_cases hxi : x ∈ i2.map Prod.fst
        · by_cases hxt : x = t2
          · subst hxt
            rcases hf2.keyOK with rfl | ⟨_, h2, h3⟩
            · rw [lookup_of_mem_nodup H.outNodup hm2] at hox; cases hox
            · rw [h3] at hox
              cases hox
              exact h2 x _ hxn (by simp [Node.deps])
          · have := (hf2.priv x hxi hxt).2.1
            rw [this] at hox; cases hox
        · exact hp.2.2 x n hxn hxi hd

/-- a dependency of a fused entry's inner node that is not computed inside is observable -/
theorem dep_vis_inner {g : NGraph} {req : List Obj} {out : FGraph} (H : FuseOK g req out)
    {k' : Obj} {inner : NGraph} {top : Obj} {ext : List Obj} (hm : (k', FNode.fused inner top ext) ∈ out)
    {c : Obj} {n : Node} (hcn : (c, n) ∈ inner) {d : Obj} (hd : d ∈ n.deps) (hdi : d ∉ inner.map Prod.fst) :
    Vis g out d := by
  have hf := H.fusedOK _ _ _ _ hm
  have hgc : g.lookup c = some n := hf.innerSub c n hcn
  have hxn : (c, n) ∈ g := mem_of_lookup g c n hgc
  have hci : c ∈ inner.map Prod.fst := List.mem_map.mpr ⟨(c, n), hcn, rfl⟩
  cases hg : g.lookup d with
  | none => exact Or.inl ⟨hg, dep_ext_vis H hxn hd hg⟩
  | some m =>
    right
    refine ⟨by rw [hg]; rfl, ?_⟩
    rcases H.cover d m (mem_of_lookup g d m hg) with h | h
    · rw [h]; rfl
    · obtain ⟨k2, i2, t2, e2, hm2, hd2⟩ := chain_of_inner h
      have hf2 := H.fusedOK _ _ _ _ hm2
      by_cases hdt : d = t2
      · subst hdt; exact top_in_out H hm2
      · exfalso
        have hp := hf2.priv d hd2 hdt
        by_cases hxi : c ∈ i2.map Prod.fst
        · obtain ⟨rfl, _⟩ := same_chain H hm hm2 hci hxi
          exact hdi hd2
        · exact hp.2.2 c n hxn hxi hd

/-- the values computed inside a fused task, as a family indexed by the evaluation depth of the outer graph -/
def innerFam (out : FGraph) (cache : Obj → Option Obj) (inner : NGraph) (ext : List Obj) : Nat → Obj → Option Obj :=
  fun F => evalKeyN inner (extCache ext (evalKeyF out cache F)) F

theorem monoFam_innerFam (out : FGraph) (cache : Obj → Option Obj) (inner : NGraph) (ext : List Obj) :
    MonoFam (innerFam out cache inner ext) := fun F =>
  evalKeyN_mono inner (extCache_mono ext (evalKeyF_succ out cache F)) (Nat.le_succ F)

theorem evalKeyF_fused {out : FGraph} {cache : Obj → Option Obj} {k' : Obj} {inner : NGraph} {top : Obj} {ext : List Obj}
    (hl : out.lookup k' = some (.fused inner top ext)) (F : Nat) :
    evalKeyF out cache (F + 1) k' = innerFam out cache inner ext F top := by
  simp [evalKeyF, hl, evalFNode, innerFam]

theorem evalKeyF_plain {out : FGraph} {cache : Obj → Option Obj} {k : Obj} {n : Node}
    (hl : out.lookup k = some (.plain n)) (F : Nat) :
    evalKeyF out cache (F + 1) k = evalNode (evalKeyF out cache F) n := by
  simp [evalKeyF, hl, evalFNode]

/-- **forward**: what the input graph computes, the output graph computes -/
theorem fuse_forward {g : NGraph} {req : List Obj} {out : FGraph} (H : FuseOK g req out) (cache : Obj → Option Obj) :
    ∀ f,
      (∀ k v, Vis g out k → evalKeyN g cache f k = some v → ComputesF out cache k v) ∧
      (∀ k' inner top ext, (k', FNode.fused inner top ext) ∈ out → ∀ c ∈ inner.map Prod.fst, ∀ v,
        evalKeyN g cache f c = some v → ∃ F, innerFam out cache inner ext F c = some v) := by
  intro f
  induction f with
  | zero => exact ⟨fun k v _ h => by simp [evalKeyN] at h, fun _ _ _ _ _ c _ v h => by simp [evalKeyN] at h⟩
  | succ f ih =>
    obtain ⟨ihA, ihB⟩ := ih
    -- inner keys first
    have hB : ∀ k' inner top ext, (k', FNode.fused inner top ext) ∈ out → ∀ c ∈ inner.map Prod.fst, ∀ v,
        evalKeyN g cache (f + 1) c = some v → ∃ F, innerFam out cache inner ext F c = some v := by
      intro k' inner top ext hm c hc v h
      have hf := H.fusedOK _ _ _ _ hm
      obtain ⟨⟨c', n⟩, hcn, hcc⟩ := List.mem_map.mp hc
      simp only at hcc; subst hcc
      have hgc : g.lookup c' = some n := hf.innerSub c' n hcn
      simp only [evalKeyN, hgc] at h
      obtain ⟨F, hF⟩ := transfer (monoFam_innerFam out cache inner ext) h (fun d hd w hw => by
        by_cases hdi : d ∈ inner.map Prod.fst
        · exact ihB k' inner top ext hm d hdi w hw
        · have hvis := dep_vis_inner H hm hcn hd hdi
          obtain ⟨F0, hF0⟩ := ihA d w hvis hw
          refine ⟨F0 + 1, ?_⟩
          have hde : d ∈ ext := by
            rcases hf.extOK c' n hcn d hd with h | h
            · exact absurd h hdi
            · exact h
          simp only [innerFam, evalKeyN, lookup_none_of_not_mem inner d hdi, extCache]
          rw [if_pos (by simpa using hde)]
          exact evalKeyF_succ out cache F0 d w hF0)
      refine ⟨F + 1, ?_⟩
      simp only [innerFam, evalKeyN, lookup_of_mem_nodup hf.innerNodup hcn]
      refine evalNode_mono ?_ (hF F (Nat.le_refl _))
      exact evalKeyN_mono inner (extCache_mono ext (evalKeyF_succ out cache F)) (Nat.le_refl F)
    refine ⟨?_, hB⟩
    intro k v hvis h
    rcases hvis with ⟨hg, ho⟩ | ⟨hg, ho⟩
    · exact ⟨1, by simpa [evalKeyN, evalKeyF, hg, ho] using h⟩
    · cases hgk : g.lookup k with
      | none => rw [hgk] at hg; cases hg
      | some n =>
        cases hok : out.lookup k with
        | none => rw [hok] at ho; cases ho
        | some fn =>
          have hmo := mem_of_lookup out k fn hok
          have hxn := mem_of_lookup g k n hgk
          cases fn with
          | plain n' =>
            rcases H.plainOK k n' hmo with h1 | ⟨nk, inner, ext, h1, _, h3⟩
            · rw [hgk] at h1; cases h1
              simp only [evalKeyN, hgk] at h
              obtain ⟨F, hF⟩ := transfer (monoFam_evalKeyF out cache) h
                (fun d hd w hw => ihA d w (dep_vis_plain H hxn hok hd) hw)
              exact ⟨F + 1, by rw [evalKeyF_plain hok]; exact hF F (Nat.le_refl _)⟩
            · subst h1
              have hmf := mem_of_lookup out nk _ h3
              have hf := H.fusedOK _ _ _ _ hmf
              obtain ⟨F, hF⟩ := hB nk inner k ext hmf k hf.topIn v h
              refine ⟨F + 2, ?_⟩
              rw [evalKeyF_plain hok]
              simp only [evalNode]
              rw [evalKeyF_fused h3]; exact hF
          | fused inner top ext =>
            have hf := H.fusedOK _ _ _ _ hmo
            rcases hf.keyOK with rfl | ⟨h1, _, _⟩
            · obtain ⟨F, hF⟩ := hB k inner k ext hmo k hf.topIn v h
              exact ⟨F + 1, by rw [evalKeyF_fused hok]; exact hF⟩
            · rw [hgk] at h1; cases h1

end Dask.TaskTerm

namespace Dask.TaskTerm

/-- values computed inside a fused task are values of the input graph (given that the observable keys agree) -/
theorem fuse_backward_inner {g : NGraph} {req : List Obj} {out : FGraph} (H : FuseOK g req out) (cache : Obj → Option Obj)
    (f : Nat) (hA : ∀ k v, Vis g out k → evalKeyF out cache f k = some v → Computes g cache k v)
    {k' : Obj} {inner : NGraph} {top : Obj} {ext : List Obj} (hm : (k', FNode.fused inner top ext) ∈ out) :
    ∀ (j : Nat) (c v : Obj), c ∈ inner.map Prod.fst →
      evalKeyN inner (extCache ext (evalKeyF out cache f)) j c = some v → Computes g cache c v := by
  have hf := H.fusedOK _ _ _ _ hm
  intro j
  induction j with
  | zero => intro c v _ h; simp [evalKeyN] at h
  | succ j ih =>
    intro c v hc h
    obtain ⟨⟨c', n⟩, hcn, hcc⟩ := List.mem_map.mp hc
    simp only at hcc; subst hcc
    have hgc : g.lookup c' = some n := hf.innerSub c' n hcn
    simp only [evalKeyN, lookup_of_mem_nodup hf.innerNodup hcn] at h
    obtain ⟨F, hF⟩ := transfer (monoFam_evalKeyN g cache) h (fun d hd w hw => by
      by_cases hdi : d ∈ inner.map Prod.fst
      · exact ih d w hdi hw
      · cases j with
        | zero => simp [evalKeyN] at hw
        | succ j0 =>
          simp only [evalKeyN, lookup_none_of_not_mem inner d hdi, extCache] at hw
          split at hw
          · exact hA d w (dep_vis_inner H hm hcn hd hdi) hw
          · cases hw)
    exact ⟨F + 1, by simpa [evalKeyN, hgc] using hF F (Nat.le_refl _)⟩

/-- **backward**: what the output graph computes for an observable key, the input graph computes -/
theorem fuse_backward {g : NGraph} {req : List Obj} {out : FGraph} (H : FuseOK g req out) (cache : Obj → Option Obj) :
    ∀ f k v, Vis g out k → evalKeyF out cache f k = some v → Computes g cache k v := by
  intro f
  induction f with
  | zero => intro k v _ h; simp [evalKeyF] at h
  | succ f ih =>
    intro k v hvis h
    rcases hvis with ⟨hg, ho⟩ | ⟨hg, ho⟩
    · exact ⟨1, by simpa [evalKeyN, evalKeyF, hg, ho] using h⟩
    · cases hgk : g.lookup k with
      | none => rw [hgk] at hg; cases hg
      | some n =>
        cases hok : out.lookup k with
        | none => rw [hok] at ho; cases ho
        | some fn =>
          have hmo := mem_of_lookup out k fn hok
          have hxn := mem_of_lookup g k n hgk
          cases fn with
          | plain n' =>
            rw [evalKeyF_plain hok] at h
            rcases H.plainOK k n' hmo with h1 | ⟨nk, inner, ext, h1, _, h3⟩
            · rw [hgk] at h1; cases h1
              obtain ⟨F, hF⟩ := transfer (monoFam_evalKeyN g cache) h
                (fun d hd w hw => ih d w (dep_vis_plain H hxn hok hd) hw)
              exact ⟨F + 1, by simpa [evalKeyN, hgk] using hF F (Nat.le_refl _)⟩
            · subst h1
              have hmf := mem_of_lookup out nk _ h3
              have hf := H.fusedOK _ _ _ _ hmf
              simp only [evalNode] at h
              cases f with
              | zero => simp [evalKeyF] at h
              | succ f0 =>
                rw [evalKeyF_fused h3] at h
                have hA0 : ∀ k v, Vis g out k → evalKeyF out cache f0 k = some v → Computes g cache k v :=
                  fun k v hv hk => ih k v hv (evalKeyF_succ out cache f0 k v hk)
                exact fuse_backward_inner H cache f0 hA0 hmf f0 k v hf.topIn h
          | fused inner top ext =>
            have hf := H.fusedOK _ _ _ _ hmo
            rcases hf.keyOK with rfl | ⟨h1, _, _⟩
            · rw [evalKeyF_fused hok] at h
              exact fuse_backward_inner H cache f ih hmo f k v hf.topIn h
            · rw [hgk] at h1; cases h1

/-- **Soundness of the checker.** If `fuseSpecOK g req out` accepts then every requested key of the input graph is a
    key of the output graph, and every key that is in both graphs (in particular every requested key) computes the same
    value in both — whatever the cache holds for the keys outside the graph. -/
theorem fuseSpecOK_sound (g : NGraph) (req : List Obj) (out : FGraph) (hok : fuseSpecOK g req out = true)
    (cache : Obj → Option Obj) :
    (∀ k ∈ req, (g.lookup k).isSome → (out.lookup k).isSome) ∧
    ∀ k, (g.lookup k).isSome → (out.lookup k).isSome → ∀ v, ComputesF out cache k v ↔ Computes g cache k v := by
  have H := fuseSpecOK_spec hok
  refine ⟨H.reqKept, fun k hg ho v => ⟨?_, ?_⟩⟩
  · rintro ⟨f, hf⟩; exact fuse_backward H cache f k v (Or.inr ⟨hg, ho⟩) hf
  · rintro ⟨f, hf⟩; exact (fuse_forward H cache f).1 k v (Or.inr ⟨hg, ho⟩) hf

end Dask.TaskTerm
