import DaskModel.Lemmas.Subs
/-! C09 extension round, part 2: the references of a substituted term. -/
namespace Dask.TaskTerm

theorem refLeaf_props (K : List Obj) (o y : Obj) (h : y ∈ (if (o.hashable && K.contains o) = true then [o] else [])) :
    y = o ∧ o.hashable = true := by
  split at h
  · rename_i hc
    simp only [Bool.and_eq_true] at hc
    exact ⟨by simpa using h, hc.1⟩
  · simp at h

/-- `if o == key then val else o` for an object whose only possible reference is itself -/
theorem refs_ite_top (K : List Obj) (key val o x : Obj) (hleaf : ∀ y ∈ legacyRefs K o, y = o)
    (h : x ∈ legacyRefs K (if (o == key) = true then val else o)) :
    (x ∈ legacyRefs K o ∧ x ≠ key) ∨ x ∈ legacyRefs K val := by
  split at h
  · exact Or.inr h
  · rename_i hne
    refine Or.inl ⟨h, ?_⟩
    intro e
    have := hleaf x h
    subst this; subst e
    simp at hne

/-- `arg in {key}` for an argument whose only possible reference is itself (and then it is hashable) -/
theorem refs_ite_arg (K : List Obj) (key val o x : Obj) (hleaf : ∀ y ∈ legacyRefs K o, y = o ∧ o.hashable = true)
    (h : x ∈ legacyRefs K (if (o.hashable && o == key) = true then val else o)) :
    (x ∈ legacyRefs K o ∧ x ≠ key) ∨ x ∈ legacyRefs K val := by
  split at h
  · exact Or.inr h
  · rename_i hne
    refine Or.inl ⟨h, ?_⟩
    intro e
    obtain ⟨h1, h2⟩ := hleaf x h
    subst h1; subst e
    simp [h2] at hne

theorem leaf_int (K : List Obj) (n : Int) : ∀ y ∈ legacyRefs K (.int n), y = .int n ∧ (Obj.int n).hashable = true := by
  intro y hy; simp only [legacyRefs] at hy; exact refLeaf_props K _ y hy
theorem leaf_str (K : List Obj) (s : String) : ∀ y ∈ legacyRefs K (.str s), y = .str s ∧ (Obj.str s).hashable = true := by
  intro y hy; simp only [legacyRefs] at hy; exact refLeaf_props K _ y hy
theorem leaf_none (K : List Obj) : ∀ y ∈ legacyRefs K .none, y = .none ∧ (Obj.none).hashable = true := by
  intro y hy; simp only [legacyRefs] at hy; exact refLeaf_props K _ y hy
theorem leaf_fn (K : List Obj) (f : Nat) : ∀ y ∈ legacyRefs K (.fn f), y = .fn f ∧ (Obj.fn f).hashable = true := by
  intro y hy; simp only [legacyRefs] at hy; exact refLeaf_props K _ y hy
theorem leaf_quoted (K : List Obj) (q : Obj) : ∀ y ∈ legacyRefs K (.quoted q), y = .quoted q ∧ (Obj.quoted q).hashable = true := by
  intro y hy; simp only [legacyRefs] at hy; exact refLeaf_props K _ y hy
theorem leaf_app (K : List Obj) (f : Nat) (a : List Obj) (kw : List (Obj × Obj)) :
    ∀ y ∈ legacyRefs K (.app f a kw), y = .app f a kw ∧ (Obj.app f a kw).hashable = true := by
  intro y hy; simp only [legacyRefs] at hy; exact refLeaf_props K _ y hy
theorem leaf_unit (K : List Obj) : ∀ y ∈ legacyRefs K (.tuple []), y = .tuple [] ∧ (Obj.tuple []).hashable = true := by
  intro y hy
  simp only [legacyRefs] at hy
  split at hy
  · exact ⟨by simpa using hy, rfl⟩
  · simp at hy
theorem leaf_tuple (K : List Obj) (h : Obj) (as : List Obj) (hc : h.callable = false) :
    ∀ y ∈ legacyRefs K (.tuple (h :: as)), y = .tuple (h :: as) ∧ (Obj.tuple (h :: as)).hashable = true := by
  intro y hy
  simp only [legacyRefs, hc, Bool.false_eq_true, if_false] at hy
  exact refLeaf_props K _ y hy

mutual
/-- **References after a substitution**: a reference of `subs(t, key, val)` is a reference of `t` other than `key`, or a
    reference of `val`. -/
theorem legacyRefs_subs (K : List Obj) (key val : Obj) :
    ∀ o x, x ∈ legacyRefs K (subs key val o) → (x ∈ legacyRefs K o ∧ x ≠ key) ∨ x ∈ legacyRefs K val
  | .tuple (h :: args), x, hx => by
    by_cases hc : h.callable = true
    · simp only [subs, hc, if_true, legacyRefs] at hx ⊢
      exact legacyRefsList_subsArgs K key val args x hx
    · have hc' : h.callable = false := by simpa using hc
      simp only [subs, hc, Bool.false_eq_true, if_false] at hx
      exact refs_ite_top K key val _ x (fun y hy => (leaf_tuple K h args hc' y hy).1) hx
  | .tuple [], x, hx => by
    simp only [subs] at hx
    exact refs_ite_top K key val _ x (fun y hy => (leaf_unit K y hy).1) hx
  | .list xs, x, hx => by
    simp only [subs] at hx
    split at hx
    · exact Or.inr hx
    · simp only [legacyRefs] at hx ⊢
      exact legacyRefsList_subsList K key val xs x hx
  | .dict kvs, x, hx => by
    simp only [subs] at hx
    split at hx
    · exact Or.inr hx
    · simp only [legacyRefs] at hx ⊢
      exact legacyRefsVals_subsVals K key val kvs x hx
  | .int n, x, hx => by
    simp only [subs] at hx
    exact refs_ite_top K key val _ x (fun y hy => (leaf_int K n y hy).1) hx
  | .str s, x, hx => by
    simp only [subs] at hx
    exact refs_ite_top K key val _ x (fun y hy => (leaf_str K s y hy).1) hx
  | .none, x, hx => by
    simp only [subs] at hx
    exact refs_ite_top K key val _ x (fun y hy => (leaf_none K y hy).1) hx
  | .fn f, x, hx => by
    simp only [subs] at hx
    exact refs_ite_top K key val _ x (fun y hy => (leaf_fn K f y hy).1) hx
  | .quoted q, x, hx => by
    simp only [subs] at hx
    exact refs_ite_top K key val _ x (fun y hy => (leaf_quoted K q y hy).1) hx
  | .app f a kw, x, hx => by
    simp only [subs] at hx
    exact refs_ite_top K key val _ x (fun y hy => (leaf_app K f a kw y hy).1) hx
theorem legacyRefsList_subsList (K : List Obj) (key val : Obj) :
    ∀ xs x, x ∈ legacyRefsList K (subsList key val xs) → (x ∈ legacyRefsList K xs ∧ x ≠ key) ∨ x ∈ legacyRefs K val
  | [], x, hx => by simp [subsList, legacyRefsList] at hx
  | y :: ys, x, hx => by
    simp only [subsList, legacyRefsList, List.mem_append] at hx ⊢
    rcases hx with hx | hx
    · rcases legacyRefs_subs K key val y x hx with ⟨h1, h2⟩ | h
      · exact Or.inl ⟨Or.inl h1, h2⟩
      · exact Or.inr h
    · rcases legacyRefsList_subsList K key val ys x hx with ⟨h1, h2⟩ | h
      · exact Or.inl ⟨Or.inr h1, h2⟩
      · exact Or.inr h
theorem legacyRefsVals_subsVals (K : List Obj) (key val : Obj) :
    ∀ kvs x, x ∈ legacyRefsVals K (subsVals key val kvs) → (x ∈ legacyRefsVals K kvs ∧ x ≠ key) ∨ x ∈ legacyRefs K val
  | [], x, hx => by simp [subsVals, legacyRefsVals] at hx
  | (k, y) :: ys, x, hx => by
    simp only [subsVals, legacyRefsVals, List.mem_append] at hx ⊢
    rcases hx with hx | hx
    · rcases legacyRefs_subs K key val y x hx with ⟨h1, h2⟩ | h
      · exact Or.inl ⟨Or.inl h1, h2⟩
      · exact Or.inr h
    · rcases legacyRefsVals_subsVals K key val ys x hx with ⟨h1, h2⟩ | h
      · exact Or.inl ⟨Or.inr h1, h2⟩
      · exact Or.inr h
theorem legacyRefsList_subsArgs (K : List Obj) (key val : Obj) :
    ∀ xs x, x ∈ legacyRefsList K (subsArgs key val xs) → (x ∈ legacyRefsList K xs ∧ x ≠ key) ∨ x ∈ legacyRefs K val
  | [], x, hx => by simp [subsArgs, legacyRefsList] at hx
  | a :: rest, x, hx => by
    have ih := legacyRefsList_subsArgs K key val rest x
    have comb : ∀ (a' : Obj), (x ∈ legacyRefs K a' → (x ∈ legacyRefs K a ∧ x ≠ key) ∨ x ∈ legacyRefs K val) →
        x ∈ legacyRefsList K (a' :: subsArgs key val rest) →
        (x ∈ legacyRefsList K (a :: rest) ∧ x ≠ key) ∨ x ∈ legacyRefs K val := by
      intro a' ha' hm
      simp only [legacyRefsList, List.mem_append] at hm ⊢
      rcases hm with hm | hm
      · rcases ha' hm with ⟨h1, h2⟩ | h
        · exact Or.inl ⟨Or.inl h1, h2⟩
        · exact Or.inr h
      · rcases ih hm with ⟨h1, h2⟩ | h
        · exact Or.inl ⟨Or.inr h1, h2⟩
        · exact Or.inr h
    cases a with
    | tuple ys =>
      cases ys with
      | nil =>
        simp only [subsArgs] at hx
        exact comb _ (fun h => refs_ite_arg K key val _ x (leaf_unit K) h) hx
      | cons h as =>
        simp only [subsArgs] at hx
        by_cases hc : h.callable = true
        · simp only [hc, if_true] at hx
          exact comb _ (fun h' => legacyRefs_subs K key val _ x h') hx
        · have hc' : h.callable = false := by simpa using hc
          simp only [hc, Bool.false_eq_true, if_false] at hx
          exact comb _ (fun h' => refs_ite_arg K key val _ x (leaf_tuple K h as hc') h') hx
    | list ys =>
      simp only [subsArgs] at hx
      refine comb _ (fun h' => ?_) hx
      simp only [legacyRefs] at h' ⊢
      exact legacyRefsList_subsList K key val ys x h'
    | dict kvs =>
      simp only [subsArgs] at hx
      refine comb _ (fun h' => ?_) hx
      simp only [legacyRefs] at h' ⊢
      exact legacyRefsVals_subsVals K key val kvs x h'
    | int n =>
      simp only [subsArgs] at hx
      exact comb _ (fun h' => refs_ite_arg K key val _ x (leaf_int K n) h') hx
    | str s =>
      simp only [subsArgs] at hx
      exact comb _ (fun h' => refs_ite_arg K key val _ x (leaf_str K s) h') hx
    | none =>
      simp only [subsArgs] at hx
      exact comb _ (fun h' => refs_ite_arg K key val _ x (leaf_none K) h') hx
    | fn f =>
      simp only [subsArgs] at hx
      exact comb _ (fun h' => refs_ite_arg K key val _ x (leaf_fn K f) h') hx
    | quoted q =>
      simp only [subsArgs] at hx
      exact comb _ (fun h' => refs_ite_arg K key val _ x (leaf_quoted K q) h') hx
    | app f a kw =>
      simp only [subsArgs] at hx
      exact comb _ (fun h' => refs_ite_arg K key val _ x (leaf_app K f a kw) h') hx
end

mutual
theorem legacyRefs_hashable (K : List Obj) : ∀ o d, d ∈ legacyRefs K o → d.hashable = true
  | .tuple (h :: args), d, hd => by
    by_cases hc : h.callable = true
    · simp only [legacyRefs, hc, if_true] at hd
      exact legacyRefsList_hashable K args d hd
    · have hc' : h.callable = false := by simpa using hc
      obtain ⟨h1, h2⟩ := leaf_tuple K h args hc' d hd
      rw [h1]; exact h2
  | .tuple [], d, hd => by obtain ⟨h1, h2⟩ := leaf_unit K d hd; rw [h1]; exact h2
  | .list xs, d, hd => by simp only [legacyRefs] at hd; exact legacyRefsList_hashable K xs d hd
  | .dict kvs, d, hd => by simp only [legacyRefs] at hd; exact legacyRefsVals_hashable K kvs d hd
  | .int n, d, hd => by obtain ⟨h1, h2⟩ := leaf_int K n d hd; rw [h1]; exact h2
  | .str s, d, hd => by obtain ⟨h1, h2⟩ := leaf_str K s d hd; rw [h1]; exact h2
  | .none, d, hd => by obtain ⟨h1, h2⟩ := leaf_none K d hd; rw [h1]; exact h2
  | .fn f, d, hd => by obtain ⟨h1, h2⟩ := leaf_fn K f d hd; rw [h1]; exact h2
  | .quoted q, d, hd => by obtain ⟨h1, h2⟩ := leaf_quoted K q d hd; rw [h1]; exact h2
  | .app f a kw, d, hd => by obtain ⟨h1, h2⟩ := leaf_app K f a kw d hd; rw [h1]; exact h2
theorem legacyRefsList_hashable (K : List Obj) : ∀ xs d, d ∈ legacyRefsList K xs → d.hashable = true
  | [], d, hd => by simp [legacyRefsList] at hd
  | x :: xs, d, hd => by
    simp only [legacyRefsList, List.mem_append] at hd
    rcases hd with hd | hd
    · exact legacyRefs_hashable K x d hd
    · exact legacyRefsList_hashable K xs d hd
theorem legacyRefsVals_hashable (K : List Obj) : ∀ kvs d, d ∈ legacyRefsVals K kvs → d.hashable = true
  | [], d, hd => by simp [legacyRefsVals] at hd
  | (_, x) :: xs, d, hd => by
    simp only [legacyRefsVals, List.mem_append] at hd
    rcases hd with hd | hd
    · exact legacyRefs_hashable K x d hd
    · exact legacyRefsVals_hashable K xs d hd
end

/-- every reference is a hashable key-typed key: the guarded membership test accepts it -/
theorem legacyRefs_inKeys (K : List Obj) (hKt : ∀ k ∈ K, k.keyTyped = true) (o d : Obj) (hd : d ∈ legacyRefs K o) :
    inKeys K d = true := by
  have hm := legacyRefs_mem K o d hd
  have hh : d.hashable = true := legacyRefs_hashable K o d hd
  simp [inKeys, hKt d hm, hh, hm]

end Dask.TaskTerm
