import DaskModel.Model.Config
/-! Helper lemmas for C17 (config store): association-list algebra, path prefixing, single-assign undo. -/
namespace Dask.Config

variable {α : Type}

theorem dget_dset_self (d : List (String × α)) (k : String) (v : α) : dget (dset d k v) k = some v := by
  induction d with
  | nil => simp [dset, dget]
  | cons h t ih =>
    obtain ⟨k', v'⟩ := h
    by_cases hk : k' = k
    · simp [dset, dget, hk]
    · simp [dset, dget, hk, ih]

theorem dget_dset_other (d : List (String × α)) (k k2 : String) (v : α) (h : k ≠ k2) :
    dget (dset d k v) k2 = dget d k2 := by
  induction d with
  | nil => simp [dset, dget, h]
  | cons hd t ih =>
    obtain ⟨k', v'⟩ := hd
    by_cases hk : k' = k
    · subst hk; simp [dset, dget, h]
    · by_cases hk2 : k' = k2
      · subst hk2; simp [dset, dget, hk]
      · simp [dset, dget, hk, hk2, ih]

/-- overwrite then overwrite = overwrite -/
theorem dset_dset_same (d : List (String × α)) (k : String) (v w : α) : dset (dset d k v) k w = dset d k w := by
  induction d with
  | nil => simp [dset]
  | cons h t ih =>
    obtain ⟨k', v'⟩ := h
    by_cases hk : k' = k
    · simp [dset, hk]
    · simp [dset, hk, ih]

/-- writing back the value that is already there changes nothing (positions included) -/
theorem dset_of_dget (d : List (String × α)) (k : String) (old : α) (h : dget d k = some old) : dset d k old = d := by
  induction d with
  | nil => simp [dget] at h
  | cons hd t ih =>
    obtain ⟨k', v'⟩ := hd
    by_cases hk : k' = k
    · simp [dget, hk] at h; simp [dset, hk, h]
    · simp [dget, hk] at h; simp [dset, hk, ih h]

/-- "replace" rollback: overwrite then write the old value back -/
theorem dset_dset_of_dget (d : List (String × α)) (k : String) (v old : α) (h : dget d k = some old) :
    dset (dset d k v) k old = d := by
  rw [dset_dset_same, dset_of_dget d k old h]

/-- "insert" rollback: a key that was absent is appended and popped again -/
theorem dpop_dset_of_none (d : List (String × α)) (k : String) (v : α) (h : dget d k = none) :
    dpop (dset d k v) k = d := by
  induction d with
  | nil => simp [dset, dpop]
  | cons hd t ih =>
    obtain ⟨k', v'⟩ := hd
    by_cases hk : k' = k
    · simp [dget, hk] at h
    · simp [dget, hk] at h; simp [dset, dpop, hk, ih h]

theorem dhas_dset_self (d : List (String × α)) (k : String) (v : α) : dhas (dset d k v) k = true := by
  simp [dhas, dget_dset_self]

/-! ### paths -/

def Op.path : Op → List String
  | .replace p _ => p
  | .insert p => p

/-- prefix the path of a record entry -/
def Op.pre (p : List String) : Op → Op
  | .replace q old => .replace (p ++ q) old
  | .insert q => .insert (p ++ q)

theorem Op.pre_nil (op : Op) : Op.pre [] op = op := by cases op <;> simp [Op.pre]

theorem Op.pre_pre (p q : List String) (op : Op) : Op.pre p (Op.pre q op) = Op.pre (p ++ q) op := by
  cases op <;> simp [Op.pre]

/-- The `path` accumulator of `_assign` only prefixes the recorded paths. -/
theorem assign_path (keys : List String) (v : Cfg) (d : Dict) (path : List String) (record : Bool) :
    assign keys v d path record =
      (assign keys v d [] record).map (fun r => (r.1, r.2.map (Op.pre path))) := by
  induction keys generalizing d path record with
  | nil => simp [assign]
  | cons k ks ih =>
    cases ks with
    | nil =>
      cases record
      · simp [assign]
      · simp only [assign]
        cases dget d (canonicalName k d) <;> simp [Op.pre]
    | cons k2 ks =>
      simp only [assign]
      cases hg : dget d (canonicalName k d) with
      | none =>
        simp only []
        rw [ih [] (path ++ [canonicalName k d]) false, ih [] ([] ++ [canonicalName k d]) false]
        cases assign (k2 :: ks) v [] [] false with
        | none => simp
        | some r => cases record <;> simp [Op.pre]
      | some c =>
        cases c with
        | leaf _ => simp
        | node sub =>
          simp only []
          rw [ih sub (path ++ [canonicalName k d]) record, ih sub ([] ++ [canonicalName k d]) record]
          cases assign (k2 :: ks) v sub [] record with
          | none => simp
          | some r => simp [Op.pre_pre]

/-- undoing an entry whose path goes through `key` = undoing the rest of the path inside `d[key]` -/
theorem undoOp_pre (key : String) (op : Op) (hp : op.path ≠ []) (D sub : Dict)
    (hD : dget D key = some (.node sub)) :
    undoOp (Op.pre [key] op) D = (undoOp op sub).map (fun s => dset D key (.node s)) := by
  cases op with
  | replace p old =>
    cases p with
    | nil => simp [Op.path] at hp
    | cons a as => simp [Op.pre, undoOp, replaceAt, hD]
  | insert p =>
    cases p with
    | nil => simp [Op.path] at hp
    | cons a as => simp [Op.pre, undoOp, popAt, hD]

/-- **Single assignment**: a successful recorded `_assign` appends exactly one record entry, and undoing that
entry gives back the dictionary exactly as it was (positions included). -/
theorem assign_undo (keys : List String) (v : Cfg) (d d' : Dict) (r : List Op)
    (h : assign keys v d [] true = some (d', r)) :
    ∃ op, r = [op] ∧ op.path ≠ [] ∧ undoOp op d' = some d := by
  induction keys generalizing d d' r with
  | nil => simp [assign] at h
  | cons k ks ih =>
    cases ks with
    | nil =>
      simp only [assign, List.nil_append, if_true, Option.some.injEq, Prod.mk.injEq] at h
      obtain ⟨hd, hr⟩ := h
      cases hg : dget d (canonicalName k d) with
      | none =>
        rw [hg] at hr
        refine ⟨_, hr.symm, by simp [Op.path], ?_⟩
        subst hd
        simp [undoOp, popAt, dpop_dset_of_none _ _ _ hg]
      | some old =>
        rw [hg] at hr
        refine ⟨_, hr.symm, by simp [Op.path], ?_⟩
        subst hd
        simp [undoOp, replaceAt, dset_dset_of_dget _ _ _ _ hg]
    | cons k2 ks =>
      simp only [assign, List.nil_append] at h
      cases hg : dget d (canonicalName k d) with
      | none =>
        rw [hg] at h
        simp only [] at h
        cases ha : assign (k2 :: ks) v [] [canonicalName k d] false with
        | none => rw [ha] at h; simp at h
        | some res =>
          rw [ha] at h
          simp only [if_true, Option.some.injEq, Prod.mk.injEq] at h
          obtain ⟨hd, hr⟩ := h
          refine ⟨_, hr.symm, by simp [Op.path], ?_⟩
          subst hd
          simp [undoOp, popAt, dpop_dset_of_none _ _ _ hg]
      | some c =>
        rw [hg] at h
        cases c with
        | leaf _ => simp at h
        | node sub =>
          simp only [] at h
          rw [assign_path] at h
          cases ha : assign (k2 :: ks) v sub [] true with
          | none => rw [ha] at h; simp at h
          | some res =>
            obtain ⟨sub', r0⟩ := res
            rw [ha] at h
            simp only [Option.map_some, Option.some.injEq, Prod.mk.injEq] at h
            obtain ⟨hd, hr⟩ := h
            obtain ⟨op0, hr0, hp0, hu0⟩ := ih sub sub' r0 ha
            subst hr0
            refine ⟨Op.pre [canonicalName k d] op0, by simpa using hr.symm, ?_, ?_⟩
            · cases op0 <;> simp [Op.pre, Op.path]
            · subst hd
              rw [undoOp_pre _ _ hp0 _ sub' (dget_dset_self _ _ _), hu0]
              simp [dset_dset_of_dget _ _ _ _ hg]

/-- A raising `_assign` (`none`) is the only other outcome; nothing to undo: the model returns no state.
    (That the *real* code has not mutated anything at that point is validated by the correspondence check.) -/
theorem undoAll_append (a b : List Op) (d : Dict) :
    undoAll (a ++ b) d = (undoAll a d).bind (undoAll b) := by
  induction a generalizing d with
  | nil => simp [undoAll]
  | cons op ops ih =>
    simp only [List.cons_append, undoAll]
    cases undoOp op d with
    | none => simp
    | some d1 => simp [ih]

/-- The loop of `set.__init__`: whatever happens (all ops applied, or one raised), rolling back the entries
recorded by this loop restores the dictionary the loop started from. -/
theorem applyOps_undo (ops : List (Option (List String × Cfg))) (d : Dict) (rec : List Op) :
    ∀ d' rec', (applyOps ops d rec = .inl (d', rec') ∨ applyOps ops d rec = .inr (d', rec')) →
      ∃ r, rec' = rec ++ r ∧ undoAll r.reverse d' = some d := by
  induction ops generalizing d rec with
  | nil =>
    intro d' rec' h
    simp only [applyOps] at h
    rcases h with h | h
    · simp only [Sum.inl.injEq, Prod.mk.injEq] at h
      exact ⟨[], by simp [h.2], by simp [undoAll, h.1]⟩
    · simp at h
  | cons o ops ih =>
    intro d' rec' h
    cases o with
    | none =>
      simp only [applyOps] at h
      rcases h with h | h
      · simp at h
      · simp only [Sum.inr.injEq, Prod.mk.injEq] at h
        exact ⟨[], by simp [h.2], by simp [undoAll, h.1]⟩
    | some kv =>
      obtain ⟨keys, v⟩ := kv
      simp only [applyOps] at h
      cases ha : assign keys v d [] true with
      | none =>
        rw [ha] at h
        rcases h with h | h
        · simp at h
        · simp only [Sum.inr.injEq, Prod.mk.injEq] at h
          exact ⟨[], by simp [h.2], by simp [undoAll, h.1]⟩
      | some res =>
        obtain ⟨d1, r1⟩ := res
        rw [ha] at h
        simp only [] at h
        obtain ⟨op, hr1, _, hu⟩ := assign_undo keys v d d1 r1 ha
        obtain ⟨r2, hrec, hu2⟩ := ih d1 (rec ++ r1) d' rec' h
        refine ⟨r1 ++ r2, by simp [hrec], ?_⟩
        rw [List.reverse_append, undoAll_append, hu2]
        subst hr1
        simp [undoAll, hu]

end Dask.Config

/-! ### `altName` is an involution on names that do not mix `-` and `_` -/
namespace Dask.Config
open Dask.PyStr

theorem replaceCharL_not_mem (a b : Char) (l : List Char) (h : a ∉ l) : replaceCharL a b l = l := by
  induction l with
  | nil => rfl
  | cons c r ih =>
    simp only [List.mem_cons, not_or] at h
    have hc : ¬ c = a := fun e => h.1 e.symm
    simp [replaceCharL, hc, ih h.2]

theorem replaceCharL_removes (a b : Char) (hab : a ≠ b) (l : List Char) : a ∉ replaceCharL a b l := by
  induction l with
  | nil => simp [replaceCharL]
  | cons c r ih =>
    simp only [replaceCharL, List.mem_cons, not_or]
    refine ⟨?_, ih⟩
    by_cases hc : c = a
    · simp [hc, hab]
    · simp only [hc, if_false]; exact fun e => hc e.symm

theorem replaceCharL_adds (a b : Char) (l : List Char) (h : a ∈ l) : b ∈ replaceCharL a b l := by
  induction l with
  | nil => cases h
  | cons c r ih =>
    simp only [List.mem_cons] at h
    simp only [replaceCharL, List.mem_cons]
    by_cases hc : c = a
    · simp [hc]
    · rcases h with h | h
      · exact absurd h.symm hc
      · exact Or.inr (ih h)

theorem replaceCharL_inv (a b : Char) (l : List Char) (hb : b ∉ l) : replaceCharL b a (replaceCharL a b l) = l := by
  induction l with
  | nil => rfl
  | cons c r ih =>
    simp only [List.mem_cons, not_or] at hb
    have hcb : ¬ c = b := fun e => hb.1 e.symm
    by_cases hc : c = a
    · simp [replaceCharL, hc, ih hb.2]
    · simp [replaceCharL, hc, hcb, ih hb.2]

/-- For a name that is all-hyphen or all-underscore (or has neither), the alternative spelling of the
alternative spelling is the name itself. (For a mixed name such as `a_b-c` it is not: `a-b-c` ↦ `a_b_c`.) -/
theorem altName_invol (k : String) (h : ¬ (hasChar '_' k = true ∧ hasChar '-' k = true)) :
    altName (altName k) = k := by
  by_cases hu : hasChar '_' k = true
  · have hd : '-' ∉ k.toList := by
      intro hm
      exact h ⟨hu, by simpa [hasChar] using hm⟩
    have hA : altName k = replaceChar '_' '-' k := by simp [altName, hu]
    have h1 : hasChar '_' (replaceChar '_' '-' k) = false := by
      have := replaceCharL_removes '_' '-' (by decide) k.toList
      simpa [hasChar, replaceChar] using this
    have hB : altName (replaceChar '_' '-' k) = replaceChar '-' '_' (replaceChar '_' '-' k) := by
      simp [altName, h1]
    rw [hA, hB]
    simp only [replaceChar, String.toList_ofList, replaceCharL_inv '_' '-' k.toList hd, String.ofList_toList]
  · have hu' : hasChar '_' k = false := by simpa using hu
    have hA : altName k = replaceChar '-' '_' k := by simp [altName, hu']
    by_cases hd : '-' ∈ k.toList
    · have h1 : hasChar '_' (replaceChar '-' '_' k) = true := by
        have := replaceCharL_adds '-' '_' k.toList hd
        simpa [hasChar, replaceChar] using this
      have hnu : '_' ∉ k.toList := by simpa [hasChar] using hu
      have hB : altName (replaceChar '-' '_' k) = replaceChar '_' '-' (replaceChar '-' '_' k) := by
        simp [altName, h1]
      rw [hA, hB]
      simp only [replaceChar, String.toList_ofList, replaceCharL_inv '-' '_' k.toList hnu, String.ofList_toList]
    · have e : replaceChar '-' '_' k = k := by
        simp [replaceChar, replaceCharL_not_mem '-' '_' k.toList hd]
      rw [hA, e, hA, e]

end Dask.Config
