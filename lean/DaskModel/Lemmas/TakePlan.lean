import DaskModel.Model.Take
/-! Lemmas for the integer-list `take` plan: the no-op shortcut and the regrouping of the indexer. -/
namespace Dask.Take

theorem diffsAreOne_spec : ∀ (xs : List Int) (a : Int), diffsAreOne (a :: xs) = true →
    a :: xs = (List.range (xs.length + 1)).map (fun (i : Nat) => a + (i : Int)) := by
  intro xs
  induction xs with
  | nil => intro a _; simp
  | cons b rest ih =>
    intro a h
    simp only [diffsAreOne, Bool.and_eq_true, decide_eq_true_eq] at h
    have hb : b = a + 1 := by omega
    have := ih b h.2
    rw [List.range_succ_eq_map, List.map_cons, List.map_map]
    congr 1
    · simp
    · refine this.trans ?_
      apply List.map_congr_left
      intro i _
      simp only [Function.comp, Nat.succ_eq_add_one]
      rw [hb]; omega

/-- the no-op shortcut fires only for the full `arange` -/
theorem takeIsIdentity_sound (n : Nat) (index : List Int) (h : takeIsIdentity n index = some true) :
    index = (List.range n).map (fun (i : Nat) => (i : Int)) := by
  unfold takeIsIdentity at h
  by_cases hl : index.length = n
  · simp only [hl, if_true] at h
    cases index with
    | nil => cases h
    | cons a rest =>
      simp only [Option.some.injEq, Bool.and_eq_true, decide_eq_true_eq] at h
      have := diffsAreOne_spec rest a h.2
      rw [this, h.1]
      simp only [List.length_cons] at hl
      rw [hl]
      apply List.map_congr_left
      intro i _; omega
  · simp [hl] at h

/-- …and it fires for it (so the model and the code agree on when nothing is to be done) -/
theorem takeIsIdentity_complete (n : Nat) (hn : 0 < n) :
    takeIsIdentity n ((List.range n).map (fun (i : Nat) => (i : Int))) = some true := by
  have key : ∀ (m : Nat) (a : Int), diffsAreOne ((List.range (m + 1)).map (fun (i : Nat) => a + (i : Int))) = true := by
    intro m
    induction m with
    | zero => intro a; rfl
    | succ m ih =>
      intro a
      rw [List.range_succ_eq_map, List.map_cons, List.map_map]
      have hrw : (List.range (m + 1)).map ((fun i : Nat => a + (i : Int)) ∘ Nat.succ)
          = (List.range (m + 1)).map (fun (i : Nat) => (a + 1) + (i : Int)) := by
        apply List.map_congr_left
        intro i _; simp only [Function.comp, Nat.succ_eq_add_one]; omega
      rw [hrw]
      have := ih (a + 1)
      rw [List.range_succ_eq_map, List.map_cons] at this ⊢
      simp only [diffsAreOne, Bool.and_eq_true, decide_eq_true_eq]
      refine ⟨by omega, ?_⟩
      exact this
  obtain ⟨m, rfl⟩ : ∃ m, n = m + 1 := ⟨n - 1, by omega⟩
  unfold takeIsIdentity
  simp only [List.length_map, List.length_range, if_true]
  have h0 := key m 0
  have e : (List.range (m + 1)).map (fun (i : Nat) => (0 : Int) + (i : Int)) = (List.range (m + 1)).map (fun (i : Nat) => (i : Int)) := by
    apply List.map_congr_left; intro i _; omega
  rw [e] at h0
  rw [List.range_succ_eq_map, List.map_cons] at h0 ⊢
  simp only [Option.some.injEq, Bool.and_eq_true, decide_eq_true_eq]
  exact ⟨by simp, h0⟩

theorem groupsOfAux_flatten (avg : Nat) (havg : 0 < avg) : ∀ (fuel : Nat) (xs : List Int), xs.length ≤ fuel →
    (groupsOfAux avg fuel xs).flatten = xs := by
  intro fuel
  induction fuel with
  | zero =>
    intro xs h
    have : xs = [] := List.length_eq_zero_iff.mp (by omega)
    simp [groupsOfAux, this]
  | succ fuel ih =>
    intro xs h
    simp only [groupsOfAux]
    cases he : xs.isEmpty with
    | true =>
      simp only [if_true, List.flatten_nil]
      exact (List.isEmpty_iff.mp he).symm
    | false =>
      have hne : xs.length ≠ 0 := by
        intro h0
        have : xs = [] := List.length_eq_zero_iff.mp h0
        rw [this] at he; simp at he
      simp only [Bool.false_eq_true, if_false, List.flatten_cons]
      rw [ih (xs.drop avg) (by rw [List.length_drop]; omega), List.take_append_drop]

theorem groupsOf_flatten (avg : Nat) (havg : 0 < avg) (xs : List Int) : (groupsOf avg xs).flatten = xs :=
  groupsOfAux_flatten avg havg xs.length xs (Nat.le_refl _)

theorem mergeGroups_flatten (limit : Nat) : ∀ (gs : List (List Int)) (cur : List Int),
    (mergeGroups limit gs cur).flatten = cur ++ gs.flatten := by
  intro gs
  induction gs with
  | nil =>
    intro cur
    simp only [mergeGroups]
    split
    · simp
    · rename_i h
      have : cur = [] := List.length_eq_zero_iff.mp (by omega)
      simp [this]
  | cons g gs ih =>
    intro cur
    simp only [mergeGroups]
    split
    · simp [ih]
    · split
      · simp [ih]
      · simp [ih]

end Dask.Take
