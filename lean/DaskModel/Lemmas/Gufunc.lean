import DaskModel.Model.Gufunc
import DaskModel.Lemmas.Blockwise
import DaskModel.Props.C10
import DaskModel.Props.C19
/-! Helper lemmas for `Model/Gufunc.lean` (C35 extension): the K13 coordinates of the index strings `apply_gufunc` builds,
    per-axis reads of the loop dimensions. No Mathlib. -/
namespace Dask.Gufunc
open Dask.Blockwise Dask.Elemwise
open Dask.MapBlocks (loopDims)

theorem loopDims_eq_range' (mx n : Nat) : loopDims mx n = List.range' (mx - n) n := by
  unfold loopDims
  rw [List.range'_eq_map_range]
  apply List.map_congr_left
  intro a _
  omega

theorem loopDims_full (mx : Nat) : loopDims mx mx = List.range mx := by
  rw [loopDims_eq_range', Nat.sub_self, List.range_eq_range']

theorem idxOf_range (mx s : Nat) (h : s < mx) : (List.range mx).idxOf s = s := by
  have := List.Nodup.idxOf_getElem (List.nodup_range (n := mx)) s (by simpa using h)
  simpa using this

theorem traverse_append {α β : Type} (f : α → Option β) (a b : List α) :
    traverse f (a ++ b) = (traverse f a).bind fun x => (traverse f b).map fun y => x ++ y := by
  induction a with
  | nil => simp [traverse]
  | cons x r ih =>
    simp only [List.cons_append, traverse]
    cases f x with
    | none => simp
    | some v =>
      simp only [ih]
      cases traverse f r with
      | none => simp
      | some xs =>
        cases traverse f b with
        | none => simp
        | some ys => simp

/-- loop part -/
theorem spec_loop (mx : Nat) (dims : List (Nat × Nat)) (conc : Bool) (o : List Nat) (ho : o.length = mx) :
    ∀ (n s : Nat) (nbs : List Nat), s + n ≤ mx → nbs.length = n →
      traverse (specCoord (List.range mx) dims conc o) ((List.range' s n).zip nbs) =
        some (List.zipWith (fun nb v => Coord.one (argBlock nb v)) nbs (o.drop s)) := by
  intro n
  induction n with
  | zero =>
    intro s nbs _ hl
    have : nbs = [] := List.eq_nil_of_length_eq_zero hl
    subst this
    simp [traverse]
  | succ n ih =>
    intro s nbs hs hl
    cases nbs with
    | nil => simp at hl
    | cons nb t =>
      have hslt : s < o.length := by omega
      have hmem : s ∈ List.range mx := by simp; omega
      simp only [List.range'_succ, List.zip_cons_cons, traverse]
      have h1 : specCoord (List.range mx) dims conc o (s, nb) = some (Coord.one (argBlock nb o[s])) := by
        unfold specCoord argBlock
        simp only [hmem, if_true]
        by_cases hnb : nb = 1
        · simp [hnb]
        · simp only [hnb, if_false]
          rw [idxOf_range mx s (by omega), List.getElem?_eq_getElem hslt]
          rfl
      rw [h1, ih (s + 1) t (by omega) (by simpa using hl)]
      have hd := List.drop_eq_getElem_cons hslt
      rw [hd, List.zipWith_cons_cons]

/-- core part -/
theorem spec_core (out : List Nat) (dims : List (Nat × Nat)) (o : List Nat) (ps : List (Nat × Nat))
    (h : ∀ p ∈ ps, p.1 ∉ out ∧ ∃ d, dget dims p.1 = some d ∧ (p.2 ≠ 1 → d = p.2)) :
    traverse (specCoord out dims true o) ps = some (ps.map fun p => Coord.many (List.range p.2)) := by
  apply traverse_some_map
  intro p hp
  obtain ⟨hno, d, hd, hc⟩ := h p hp
  unfold specCoord
  simp only [hno, if_false, hd, Option.map_some]
  by_cases h1 : p.2 = 1
  · simp [h1, List.range_succ]
  · simp [h1, hc h1]

section
variable {ν : Type} [DecidableEq ν]

theorem symOf_inDims (mx : Nat) (names : List ν) (a : GArg) (cd : List ν) :
    (inDims mx a cd).map (symOf mx names) =
      List.range' (mx - nLoop a cd) (nLoop a cd) ++ cd.map (fun n => mx + names.idxOf n) := by
  unfold inDims
  rw [List.map_append, List.map_map, List.map_map, loopDims_eq_range']
  congr 1
  simp [Function.comp_def, symOf]

theorem symOf_outInd (mx : Nat) (names : List ν) :
    ((loopDims mx mx).map Dim.loop).map (symOf mx names) = List.range mx := by
  rw [List.map_map, loopDims_full]
  simp [Function.comp_def, symOf]

/-- the coordinates K13 delivers for argument `k` of the `blockwise` call `apply_gufunc` builds -/
theorem index_strings_spec (mx : Nat) (names : List ν) (a : GArg) (cd : List ν) (k : Nat) (lnb cnb : List Nat)
    (dums : List Nat) (dims : List (Nat × Nat)) (o : List Nat)
    (hn : nLoop a cd ≤ mx) (hl : lnb.length = nLoop a cd) (hc : cnb.length = cd.length)
    (hdn : dums.Nodup) (hge : ∀ s ∈ dums, mx ≤ s) (hcover : ∀ n ∈ cd, mx + names.idxOf n ∈ dums)
    (hdims : ∀ s ∈ dums, ∃ d, dget dims s = some d)
    (hcons : ∀ p ∈ (cd.map fun n => mx + names.idxOf n).zip cnb, p.2 ≠ 1 → dget dims p.1 = some p.2)
    (ho : o.length = mx) :
    argCoords (((loopDims mx mx).map Dim.loop).map (symOf mx names)) dums dims true o
        (bwArg mx names k (inDims mx a cd) (lnb ++ cnb)) =
      some (List.zipWith (fun nb v => Coord.one (argBlock nb v)) lnb (o.drop (mx - nLoop a cd))
            ++ cnb.map fun nb => Coord.many (List.range nb)) := by
  rw [symOf_outInd]
  have hind : (bwArg mx names k (inDims mx a cd) (lnb ++ cnb)).ind =
      List.range' (mx - nLoop a cd) (nLoop a cd) ++ cd.map (fun n => mx + names.idxOf n) := symOf_inDims mx names a cd
  have wf : Dask.C10.WF (List.range mx) dums dims o (bwArg mx names k (inDims mx a cd) (lnb ++ cnb)) := by
    refine ⟨List.nodup_range, hdn, ?_, ?_, by simpa using ho, hdims⟩
    · intro s hs hm
      have := hge s hs
      simp at hm
      omega
    · intro s hs
      rw [hind] at hs
      rcases List.mem_append.mp hs with h | h
      · left
        simp [List.mem_range'_1] at h ⊢
        omega
      · right
        obtain ⟨n, hn', rfl⟩ := List.mem_map.mp h
        exact hcover n hn'
  rw [Dask.C10.coordmap_spec _ _ _ _ _ _ wf]
  unfold argCoordsSpec
  rw [hind]
  show traverse _ ((List.range' (mx - nLoop a cd) (nLoop a cd) ++ cd.map (fun n => mx + names.idxOf n)).zip (lnb ++ cnb)) = _
  rw [List.zip_append (by simp [hl]), traverse_append]
  rw [spec_loop mx dims true o ho (nLoop a cd) (mx - nLoop a cd) lnb (by omega) hl]
  rw [spec_core (List.range mx) dims o ((cd.map fun n => mx + names.idxOf n).zip cnb)]
  · simp only [Option.bind_some, Option.map_some]
    congr 2
    have h1 : ((cd.map fun n => mx + names.idxOf n).zip cnb).map (fun p => Coord.many (List.range p.2)) =
        (((cd.map fun n => mx + names.idxOf n).zip cnb).map Prod.snd).map (fun nb => Coord.many (List.range nb)) := by
      rw [List.map_map]; rfl
    rw [h1, List.map_snd_zip (by simp [hc])]
  · intro p hp
    have hm : p.1 ∈ cd.map fun n => mx + names.idxOf n := (List.of_mem_zip hp).1
    obtain ⟨n, hn', hpn⟩ := List.mem_map.mp hm
    have hd := hcover n hn'
    rw [hpn] at hd
    refine ⟨?_, ?_⟩
    · have := hge p.1 hd
      simp
      omega
    · obtain ⟨d, hdd⟩ := hdims p.1 hd
      refine ⟨d, hdd, ?_⟩
      intro h1
      have := hcons p hp h1
      rw [hdd] at this
      injection this
end

theorem locate_lt_sum (c : List Nat) (i : Nat) (p : Nat × Nat) (h : locate c i = some p) : i < c.sum := by
  induction c generalizing i p with
  | nil => simp [locate] at h
  | cons x t ih =>
    simp only [locate] at h
    by_cases hlt : i < x
    · simp only [List.sum_cons]; omega
    · simp only [hlt, if_false] at h
      cases hr : locate t (i - x) with
      | none => rw [hr] at h; simp at h
      | some q =>
        have := ih (i - x) q hr
        simp only [List.sum_cons]; omega

theorem axisRead_eq (cOut cArg : List Nat) (i b l : Nat) (hl : locate cOut i = some (b, l))
    (harg : cArg = cOut ∨ cArg = [1]) :
    axisRead cArg (Coord.one (argBlock cArg.length b)) l = some (if cArg.sum = 1 then 0 else i) := by
  have h := Dask.C19.elemwise_axis_den cOut cArg i (locate_lt_sum cOut i _ hl) harg
  unfold argPos at h
  simp only [hl, Option.bind_eq_bind, Option.bind_some] at h
  unfold axisRead
  simp only
  rw [← h]
  cases cArg[argBlock cArg.length b]? <;> rfl

theorem locateAll_length : ∀ (oc : List (List Nat)) (l : List Nat) (bl : List (Nat × Nat)),
    locateAll oc l = some bl → bl.length = oc.length ∧ l.length = oc.length
  | [], [], bl, h => by simp [locateAll] at h; subst h; simp
  | [], _ :: _, _, h => by simp [locateAll] at h
  | _ :: _, [], _, h => by simp [locateAll] at h
  | c :: cs, i :: is, bl, h => by
    simp only [locateAll] at h
    cases hp : locate c i with
    | none => rw [hp] at h; simp at h
    | some p =>
      rw [hp] at h
      cases hr : locateAll cs is with
      | none => rw [hr] at h; simp at h
      | some r =>
        rw [hr] at h
        simp at h
        subst h
        have := locateAll_length cs is r hr
        simp [this.1, this.2]

theorem locateAll_drop : ∀ (s : Nat) (oc : List (List Nat)) (l : List Nat) (bl : List (Nat × Nat)),
    locateAll oc l = some bl → locateAll (oc.drop s) (l.drop s) = some (bl.drop s)
  | 0, _, _, _, h => by simpa using h
  | s + 1, [], [], bl, h => by simp [locateAll] at h; subst h; simp [locateAll]
  | _ + 1, [], _ :: _, _, h => by simp [locateAll] at h
  | _ + 1, _ :: _, [], _, h => by simp [locateAll] at h
  | s + 1, c :: cs, i :: is, bl, h => by
    simp only [locateAll] at h
    cases hp : locate c i with
    | none => rw [hp] at h; simp at h
    | some p =>
      rw [hp] at h
      cases hr : locateAll cs is with
      | none => rw [hr] at h; simp at h
      | some r =>
        rw [hr] at h
        simp at h
        subst h
        simpa using locateAll_drop s cs is r hr

theorem axesRead_eq : ∀ (lch oc : List (List Nat)) (l : List Nat) (bl : List (Nat × Nat)),
    locateAll oc l = some bl → lch.length ≤ oc.length → (∀ p ∈ lch.zip oc, p.1 = p.2 ∨ p.1 = [1]) →
    axesRead lch (List.zipWith (fun nb v => Coord.one (argBlock nb v)) (lch.map List.length) (bl.map (·.1))) (bl.map (·.2))
      = some (List.zipWith (fun c i => if c.sum = 1 then 0 else i) lch l)
  | [], _, _, _, _, _, _ => by simp [axesRead]
  | _ :: _, [], _, _, _, hlen, _ => by simp at hlen
  | _ :: _, _ :: _, [], _, h, _, _ => by simp [locateAll] at h
  | cA :: lch, c :: cs, i :: is, bl, h, hlen, hall => by
    simp only [locateAll] at h
    cases hp : locate c i with
    | none => rw [hp] at h; simp at h
    | some p =>
      rw [hp] at h
      cases hr : locateAll cs is with
      | none => rw [hr] at h; simp at h
      | some r =>
        rw [hr] at h
        simp at h
        subst h
        obtain ⟨b, l0⟩ := p
        have h1 := axisRead_eq c cA i b l0 hp (hall (cA, c) (by simp))
        have h2 := axesRead_eq lch cs is r hr (by simpa using hlen) (fun q hq => hall q (by simp [hq]))
        simp only [List.map_cons, List.zipWith_cons_cons, axesRead, h1, h2, Option.map_some]

/-! ### what a call reads -/

/-- what `gufunc_eq_vectorize` needs to know about one argument of the `blockwise` call -/
structure ArgOK {σ : Type} (mx : Nat) (out dums : List Nat) (dims : List (Nat × Nat)) (oc : List (List Nat))
    (a : LArg σ) (bw : Arg) : Prop where
  n_le : a.lchunks.length ≤ mx
  chunks_ok : ∀ p ∈ a.lchunks.zip (oc.drop (mx - a.lchunks.length)), p.1 = p.2 ∨ p.1 = [1]
  coords : ∀ o : List Nat, o.length = mx → argCoords out dums dims true o bw =
    some (List.zipWith (fun nb v => Coord.one (argBlock nb v)) (a.lchunks.map List.length) (o.drop (mx - a.lchunks.length))
          ++ a.cnb.map fun nb => Coord.many (List.range nb))

theorem wholeCore_all (cnb : List Nat) :
    (List.zipWith wholeCore cnb (cnb.map fun nb => Coord.many (List.range nb))).all id = true := by
  induction cnb with
  | nil => rfl
  | cons x t ih =>
    simp only [List.map_cons, List.zipWith_cons_cons, List.all_cons, ih, Bool.and_true]
    simp [wholeCore]

theorem argRead_eq {σ : Type} (mx : Nat) (out dums : List Nat) (dims : List (Nat × Nat)) (oc : List (List Nat))
    (l : List Nat) (bl : List (Nat × Nat)) (a : LArg σ) (bw : Arg)
    (hoc : oc.length = mx) (hloc : locateAll oc l = some bl) (ok : ArgOK mx out dums dims oc a bw) :
    argRead mx out dums dims (bl.map (·.1)) (bl.map (·.2)) a bw = some (a.val (npIdx mx a l)) := by
  obtain ⟨hbl, hll⟩ := locateAll_length oc l bl hloc
  have hn := ok.n_le
  unfold argRead
  rw [ok.coords (bl.map (·.1)) (by simp [hbl, hoc])]
  simp only [Option.bind_eq_bind, Option.bind_some]
  have hA : (List.zipWith (fun nb v => Coord.one (argBlock nb v)) (a.lchunks.map List.length)
      ((bl.map (·.1)).drop (mx - a.lchunks.length))).length = a.lchunks.length := by
    simp [hbl, hoc]; omega
  rw [List.drop_left' hA, List.take_left' hA]
  simp only [wholeCore_all, List.length_map]
  simp only [Bool.true_and, decide_true, if_true]
  rw [← List.map_drop, ← List.map_drop]
  have hd := locateAll_drop (mx - a.lchunks.length) oc l bl hloc
  rw [axesRead_eq a.lchunks _ _ _ hd (by simp [hoc]; omega) ok.chunks_ok]
  rfl

theorem locateAll_some : ∀ (oc : List (List Nat)) (l : List Nat), l.length = oc.length → (∀ p ∈ oc.zip l, p.2 < p.1.sum) →
    ∃ bl, locateAll oc l = some bl
  | [], [], _, _ => ⟨[], rfl⟩
  | [], _ :: _, h, _ => by simp at h
  | _ :: _, [], h, _ => by simp at h
  | c :: cs, i :: is, h, hin => by
    obtain ⟨p, hp⟩ := Dask.C19.locate_some_of_lt c i (hin (c, i) (by simp))
    obtain ⟨r, hr⟩ := locateAll_some cs is (by simpa using h) (fun q hq => hin q (by simp [hq]))
    exact ⟨p :: r, by simp [locateAll, hp, hr]⟩

section
variable {ν : Type} [DecidableEq ν]

theorem le_foldl_max (l : List Nat) (m x : Nat) (h : x ≤ m ∨ x ∈ l) : x ≤ l.foldl max m := by
  induction l generalizing m with
  | nil => simpa using h
  | cons a r ih =>
    simp only [List.foldl_cons]
    apply ih
    rcases h with h | h
    · left; omega
    · rcases List.mem_cons.mp h with h | h
      · left; omega
      · right; exact h

theorem plan_ok_fields (sig : Sig ν) (args : List GArg) (os : List (ν × Nat)) (allow : Bool) (P : Plan ν)
    (h : plan sig args os allow = .ok P) :
    guards sig args os allow = none ∧
    P.mx = maxLoop ((args.zip sig.ins).map fun p => nLoop p.1 p.2) ∧
    P.outInd = (loopDims P.mx P.mx).map Dim.loop ∧
    P.inDims = (args.zip sig.ins).map (fun p => inDims P.mx p.1 p.2) ∧
    P.coreShapes = coreShapes sig.ins args os ∧
    outCores P.coreShapes sig.outs = .ok P.outCore := by
  unfold plan at h
  split at h
  · cases h
  · rename_i hg
    simp only at h
    split at h
    · cases h
    · rename_i oc hoc
      injection h with h
      subst h
      exact ⟨hg, rfl, rfl, rfl, rfl, hoc⟩

/-- every argument's loop-dimension count is at most `max_loopdims` -/
theorem nLoop_le_mx (sig : Sig ν) (args : List GArg) (k : Nat) (a : GArg) (cd : List ν)
    (ha : args[k]? = some a) (hc : sig.ins[k]? = some cd) :
    nLoop a cd ≤ maxLoop ((args.zip sig.ins).map fun p => nLoop p.1 p.2) := by
  unfold maxLoop
  apply le_foldl_max
  right
  apply List.mem_map.mpr
  refine ⟨(a, cd), ?_, rfl⟩
  apply List.mem_iff_getElem?.mpr
  exact ⟨k, by simp [List.getElem?_zip_eq_some, ha, hc]⟩

/-- a list whose duplicate-free version has at most one element is constant -/
theorem eraseDups_le_one {α : Type} [BEq α] [LawfulBEq α] (l : List α) (h : l.eraseDups.length ≤ 1) :
    ∀ x ∈ l, ∀ y ∈ l, x = y := by
  cases l with
  | nil => intro x hx; simp at hx
  | cons a r =>
    rw [List.eraseDups_cons] at h
    have hnil : (r.filter fun b => !b == a).eraseDups = [] := by
      apply List.eq_nil_of_length_eq_zero
      simp only [List.length_cons] at h
      omega
    have hf : r.filter (fun b => !b == a) = [] := by
      cases hr : r.filter (fun b => !b == a) with
      | nil => rfl
      | cons b t => rw [hr, List.eraseDups_cons] at hnil; cases hnil
    have hall : ∀ x ∈ a :: r, x = a := by
      intro x hx
      rcases List.mem_cons.mp hx with hx | hx
      · exact hx
      · have := List.filter_eq_nil_iff.mp hf x hx
        simpa using this
    intro x hx y hy
    rw [hall x hx, hall y hy]

end

/-! ### the signature automaton -/

def WordOK (n : List Char) : Prop := n ≠ [] ∧ ∀ c ∈ n, isWord c = true

theorem run_append (a b : List Char) : ∀ s, run s (a ++ b) = (run s a).bind fun s' => run s' b := by
  induction a with
  | nil => intro s; simp [run]
  | cons c r ih =>
    intro s
    simp only [List.cons_append, run]
    cases step s c with
    | none => simp
    | some s' => simp [ih]

theorem run_word (w : List Char) (hw : ∀ c ∈ w, isWord c = true) : ∀ (o : Bool) (cur : List Char) (nm : List (List Char))
    (ins outs : List (List (List Char))),
    run ⟨o, .name, cur, nm, ins, outs⟩ w = some ⟨o, .name, cur ++ w, nm, ins, outs⟩ := by
  induction w with
  | nil => intro o cur nm ins outs; simp [run]
  | cons c r ih =>
    intro o cur nm ins outs
    have hc := hw c (by simp)
    simp only [run, step, hc, if_true]
    rw [ih (fun x hx => hw x (by simp [hx]))]
    simp

/-- the state after a complete argument -/
def done (o : Bool) (ins outs : List (List (List Char))) (arg : List (List Char)) : St :=
  if o then ⟨true, .afterArg, [], [], ins, outs ++ [arg]⟩ else ⟨false, .afterArg, [], [], ins ++ [arg], outs⟩

theorem pushArg_eq (o : Bool) (ph : Ph) (cur : List Char) (nm : List (List Char)) (ins outs : List (List (List Char)))
    (arg : List (List Char)) : St.pushArg ⟨o, ph, cur, nm, ins, outs⟩ arg = done o ins outs arg := by
  cases o <;> simp [St.pushArg, done]

theorem names_run : ∀ (names : List (List Char)), names ≠ [] → (∀ n ∈ names, WordOK n) →
    ∀ (o : Bool) (ph : Ph) (cur0 : List Char) (nm : List (List Char)) (ins outs : List (List (List Char))),
    (ph = .arg0 ∨ ph = .nameComma) →
    run ⟨o, ph, cur0, nm, ins, outs⟩ (renderNames names ++ [')']) = some (done o ins outs (nm ++ names))
  | [], h, _ => absurd rfl h
  | [n], _, hw => by
    intro o ph cur0 nm ins outs hph
    obtain ⟨hne, hwn⟩ := hw n (by simp)
    cases n with
    | nil => exact absurd rfl hne
    | cons c w =>
      have hc := hwn c (by simp)
      have hcp : c ≠ ')' := by intro e; subst e; revert hc; decide
      have h1 : step ⟨o, ph, cur0, nm, ins, outs⟩ c = some ⟨o, .name, [c], nm, ins, outs⟩ := by
        rcases hph with rfl | rfl <;> simp [step, hc, hcp]
      simp only [renderNames, List.cons_append, run, h1]
      rw [run_append, run_word w (fun x hx => hwn x (by simp [hx]))]
      simp only [Option.bind_some, run, step]
      have : isWord ')' = false := by decide
      simp [this, pushArg_eq]
  | n :: m :: r, _, hw => by
    intro o ph cur0 nm ins outs hph
    obtain ⟨hne, hwn⟩ := hw n (by simp)
    cases n with
    | nil => exact absurd rfl hne
    | cons c w =>
      have hc := hwn c (by simp)
      have hcp : c ≠ ')' := by intro e; subst e; revert hc; decide
      have h1 : step ⟨o, ph, cur0, nm, ins, outs⟩ c = some ⟨o, .name, [c], nm, ins, outs⟩ := by
        rcases hph with rfl | rfl <;> simp [step, hc, hcp]
      simp only [renderNames, List.cons_append, List.append_assoc, run, h1]
      rw [run_append, run_word w (fun x hx => hwn x (by simp [hx]))]
      have hcomma : isWord ',' = false := by decide
      simp only [Option.bind_some, List.cons_append, run, step, hcomma]
      simp only [Bool.false_eq_true, if_false, if_true]
      have ih := names_run (m :: r) (by simp) (fun x hx => hw x (by simp [hx])) o .nameComma [] (nm ++ [c :: w]) ins outs (Or.inr rfl)
      simp only [List.cons_append, List.nil_append] at ih ⊢
      rw [ih]
      simp


theorem arg_run (names : List (List Char)) (hw : ∀ n ∈ names, WordOK n) (o : Bool) (ph : Ph)
    (ins outs : List (List (List Char))) (hph : ph = .start ∨ ph = .argComma) :
    run ⟨o, ph, [], [], ins, outs⟩ (renderArg names) = some (done o ins outs names) := by
  have h1 : step ⟨o, ph, [], [], ins, outs⟩ '(' = some ⟨o, .arg0, [], [], ins, outs⟩ := by
    rcases hph with rfl | rfl <;> simp [step]
  unfold renderArg
  simp only [List.cons_append, run, h1]
  cases names with
  | nil =>
    simp only [renderNames, List.nil_append, run, step]
    simp [pushArg_eq]
  | cons n r =>
    have := names_run (n :: r) (by simp) hw o .arg0 [] [] ins outs (Or.inl rfl)
    simpa using this

/-- the state after a complete argument list -/
def doneAll (o : Bool) (ins outs : List (List (List Char))) (args : List (List (List Char))) : St :=
  if o then ⟨true, .afterArg, [], [], ins, outs ++ args⟩ else ⟨false, .afterArg, [], [], ins ++ args, outs⟩

theorem args_run : ∀ (args : List (List (List Char))), args ≠ [] → (∀ a ∈ args, ∀ n ∈ a, WordOK n) →
    ∀ (o : Bool) (ph : Ph) (ins outs : List (List (List Char))), (ph = .start ∨ ph = .argComma) →
    run ⟨o, ph, [], [], ins, outs⟩ (renderArgs args) = some (doneAll o ins outs args)
  | [], h, _ => absurd rfl h
  | [a], _, hw => by
    intro o ph ins outs hph
    simp only [renderArgs]
    rw [arg_run a (hw a (by simp)) o ph ins outs hph]
    cases o <;> simp [done, doneAll]
  | a :: b :: r, _, hw => by
    intro o ph ins outs hph
    simp only [renderArgs]
    rw [run_append, arg_run a (hw a (by simp)) o ph ins outs hph]
    simp only [Option.bind_some]
    cases o with
    | false =>
      have ih := args_run (b :: r) (by simp) (fun x hx => hw x (by simp [hx])) false .argComma (ins ++ [a]) outs (Or.inr rfl)
      simp only [done, Bool.false_eq_true, if_false, run, step]
      simp only [if_true]
      rw [ih]
      simp [doneAll]
    | true =>
      have ih := args_run (b :: r) (by simp) (fun x hx => hw x (by simp [hx])) true .argComma ins (outs ++ [a]) (Or.inr rfl)
      simp only [done, if_true, run, step]
      rw [ih]
      simp [doneAll]

/-- a signature whose names are non-empty words and which has at least one output -/
def SigOK (s : Sig (List Char)) : Prop :=
  s.outs ≠ [] ∧ (∀ a ∈ s.ins, ∀ n ∈ a, WordOK n) ∧ (∀ a ∈ s.outs, ∀ n ∈ a, WordOK n)

theorem arrow_run (ph : Ph) (ins : List (List (List Char))) (hph : ph = .start ∨ ph = .afterArg) :
    run ⟨false, ph, [], [], ins, []⟩ ['-', '>'] = some ⟨true, .start, [], [], ins, []⟩ := by
  rcases hph with rfl | rfl <;> simp [run, step]

theorem parseStripped_render (s : Sig (List Char)) (h : SigOK s) : parseStripped (render s) = some s := by
  obtain ⟨hne, hi, ho⟩ := h
  unfold parseStripped render
  have hsplit : renderArgs s.ins ++ '-' :: '>' :: renderArgs s.outs = renderArgs s.ins ++ (['-', '>'] ++ renderArgs s.outs) := by simp
  rw [hsplit, run_append]
  have hout := args_run s.outs hne ho true .start
  cases hins : s.ins with
  | nil =>
    simp only [renderArgs, run, Option.bind_some]
    rw [run_append, arrow_run .start [] (Or.inl rfl)]
    simp only [Option.bind_some]
    rw [hout [] [] (Or.inl rfl)]
    simp only [doneAll, if_true, List.nil_append, and_self]
    cases s
    simp_all
  | cons a r =>
    rw [← hins, args_run s.ins (by simp [hins]) hi false .start [] [] (Or.inl rfl)]
    simp only [Option.bind_some, doneAll, Bool.false_eq_true, if_false, List.nil_append]
    rw [run_append, arrow_run .afterArg s.ins (Or.inr rfl)]
    simp only [Option.bind_some]
    rw [hout s.ins [] (Or.inl rfl)]
    simp [doneAll]

theorem pushArg_out (s : St) (a : List (List Char)) : (s.pushArg a).out = s.out := by
  unfold St.pushArg
  split <;> rfl

theorem step_out (s s' : St) (c : Char) (h : step s c = some s') : s'.out = s.out ∨ c = '>' := by
  unfold step at h
  split at h <;> (repeat' split at h) <;> cases h <;>
    first | (left; rfl) | (left; exact pushArg_out _ _) | (right; assumption)

theorem run_out : ∀ (cs : List Char) (s s' : St), run s cs = some s' → s'.out = true → s.out = true ∨ '>' ∈ cs
  | [], s, s', h, ho => by simp [run] at h; subst h; exact Or.inl ho
  | c :: r, s, s', h, ho => by
    simp only [run] at h
    cases hs : step s c with
    | none => rw [hs] at h; cases h
    | some s1 =>
      rw [hs] at h
      rcases run_out r s1 s' h ho with h1 | h1
      · rcases step_out s s1 c hs with h2 | h2
        · left; rw [← h2]; exact h1
        · right; simp [h2]
      · right; simp [h1]

end Dask.Gufunc
