import DaskModel.Model.RavelIndex
import DaskModel.Lemmas.CountingSelectLemmas
/-! Helper lemmas for C27: ravel / unravel arithmetic, argwhere as a selection of unravelled positions. -/
namespace Dask.Counting
open Dask.Chunks

theorem prod_cons (d : Nat) (ds : List Nat) : prod (d :: ds) = d * prod ds := rfl

theorem prod_append : ∀ (a b : List Nat), prod (a ++ b) = prod a * prod b
  | [], b => by simp [prod]
  | x :: a, b => by simp only [List.cons_append, prod_cons, prod_append a b, Nat.mul_assoc]

theorem prod_reverse : ∀ (l : List Nat), prod l.reverse = prod l
  | [] => rfl
  | x :: l => by
    rw [List.reverse_cons, prod_append, prod_reverse l, prod_cons]
    simp [prod, Nat.mul_comm]

/-- every coordinate below its dimension, same number of both -/
def InBounds : List Nat → List Nat → Prop
  | [], [] => True
  | d :: ds, i :: is => i < d ∧ InBounds ds is
  | _, _ => False

theorem ravelC_lt : ∀ (dims c : List Nat), InBounds dims c → ravelC dims c < prod dims
  | [], [], _ => by simp [ravelC, prod]
  | [], _ :: _, h => by simp [InBounds] at h
  | _ :: _, [], h => by simp [InBounds] at h
  | d :: ds, i :: is, h => by
    have ih := ravelC_lt ds is h.2
    have h1 := h.1
    simp only [ravelC, prod_cons]
    have : (i + 1) * prod ds ≤ d * prod ds := Nat.mul_le_mul_right _ h1
    rw [Nat.succ_mul] at this
    omega

theorem unravelC_ravelC : ∀ (dims c : List Nat), InBounds dims c → unravelC dims (ravelC dims c) = c
  | [], [], _ => rfl
  | [], _ :: _, h => by simp [InBounds] at h
  | _ :: _, [], h => by simp [InBounds] at h
  | d :: ds, i :: is, h => by
    have ih := unravelC_ravelC ds is h.2
    have hlt := ravelC_lt ds is h.2
    have hp : 0 < prod ds := by omega
    simp only [ravelC, unravelC]
    have e1 : (i * prod ds + ravelC ds is) / prod ds = i := by
      rw [Nat.add_comm, Nat.add_mul_div_right _ _ hp, Nat.div_eq_of_lt hlt, Nat.zero_add]
    have e2 : (i * prod ds + ravelC ds is) % prod ds = ravelC ds is := by
      rw [Nat.add_comm, Nat.add_mul_mod_self_right, Nat.mod_eq_of_lt hlt]
    rw [e1, e2, ih]

theorem unravelC_inBounds : ∀ (shape : List Nat) (i : Nat), i < prod shape → InBounds shape (unravelC shape i)
  | [], _, _ => trivial
  | d :: ds, i, h => by
    rw [prod_cons] at h
    have hp : 0 < prod ds := by
      cases hz : prod ds with
      | zero => rw [hz] at h; simp at h
      | succ k => omega
    refine ⟨?_, unravelC_inBounds ds (i % prod ds) (Nat.mod_lt _ hp)⟩
    rw [Nat.div_lt_iff_lt_mul hp]; exact h

theorem ravelC_unravelC : ∀ (shape : List Nat) (i : Nat), i < prod shape → ravelC shape (unravelC shape i) = i
  | [], i, h => by simp [prod] at h; subst h; rfl
  | d :: ds, i, h => by
    rw [prod_cons] at h
    have hp : 0 < prod ds := by
      cases hz : prod ds with
      | zero => rw [hz] at h; simp at h
      | succ k => omega
    simp only [unravelC, ravelC]
    rw [ravelC_unravelC ds (i % prod ds) (Nat.mod_lt _ hp)]
    have := Nat.div_add_mod i (prod ds)
    rw [Nat.mul_comm] at this
    exact this

theorem unravelC_length : ∀ (shape : List Nat) (i : Nat), (unravelC shape i).length = shape.length
  | [], _ => rfl
  | _ :: ds, i => by simp [unravelC, unravelC_length ds]

/-! ### coordinates under a mode -/

theorem fixCoord_lt (mode : Mode) (d : Nat) (i : Int) (x : Nat) (h : fixCoord mode d i = some x) : x < d := by
  unfold fixCoord at h
  split at h
  · cases h
  · rename_i hd
    cases mode with
    | raise =>
      simp only at h
      split at h
      · cases h; omega
      · cases h
    | wrap =>
      simp only [Option.some.injEq] at h
      subst h
      have h1 : (0 : Int) ≤ i % (d : Int) := Int.emod_nonneg _ (by omega)
      have h2 : i % (d : Int) < (d : Int) := Int.emod_lt_of_pos _ (by omega)
      omega
    | clip =>
      simp only [Option.some.injEq] at h
      subst h
      split
      · omega
      · split <;> omega

theorem fixCoords_inBounds (mode : Mode) : ∀ (dims : List Nat) (idx : List Int) (c : List Nat),
    fixCoords mode dims idx = some c → InBounds dims c
  | [], [], c, h => by simp [fixCoords] at h; subst h; trivial
  | [], _ :: _, _, h => by simp [fixCoords] at h
  | _ :: _, [], _, h => by simp [fixCoords] at h
  | d :: ds, i :: is, c, h => by
    unfold fixCoords at h
    cases h1 : fixCoord mode d i with
    | none => simp [h1] at h
    | some x =>
      cases h2 : fixCoords mode ds is with
      | none => simp [h1, h2] at h
      | some xs =>
        simp only [h1, h2, Option.some.injEq] at h
        subst h
        exact ⟨fixCoord_lt mode d i x h1, fixCoords_inBounds mode ds is xs h2⟩

/-- mode `raise` accepts exactly the in-bounds non-negative coordinates and leaves them alone -/
theorem fixCoords_raise_ofNat : ∀ (dims c : List Nat), InBounds dims c →
    fixCoords .raise dims (c.map Int.ofNat) = some c
  | [], [], _ => rfl
  | [], _ :: _, h => by simp [InBounds] at h
  | _ :: _, [], h => by simp [InBounds] at h
  | d :: ds, i :: is, h => by
    have ih := fixCoords_raise_ofNat ds is h.2
    have h1 := h.1
    have : fixCoord .raise d (Int.ofNat i) = some i := by
      unfold fixCoord
      rw [if_neg (by omega)]
      simp only
      rw [if_pos ⟨by simp, by simp; omega⟩]
      simp
    simp only [List.map_cons, fixCoords, this, ih]

theorem fixCoords_raise_eq : ∀ (dims : List Nat) (idx : List Int) (c : List Nat),
    fixCoords .raise dims idx = some c → idx = c.map Int.ofNat
  | [], [], c, h => by simp [fixCoords] at h; subst h; rfl
  | [], _ :: _, _, h => by simp [fixCoords] at h
  | _ :: _, [], _, h => by simp [fixCoords] at h
  | d :: ds, i :: is, c, h => by
    unfold fixCoords at h
    cases h1 : fixCoord .raise d i with
    | none => simp [h1] at h
    | some x =>
      cases h2 : fixCoords .raise ds is with
      | none => simp [h1, h2] at h
      | some xs =>
        simp only [h1, h2, Option.some.injEq] at h
        subst h
        have ih := fixCoords_raise_eq ds is xs h2
        unfold fixCoord at h1
        split at h1
        · cases h1
        · simp only at h1
          split at h1
          · rename_i hb
            simp only [Option.some.injEq] at h1
            subst h1
            simp only [List.map_cons, ← ih, List.cons.injEq, and_true]
            have := hb.1
            simp [Int.toNat_of_nonneg this]
          · cases h1

theorem fixCoords_length (mode : Mode) : ∀ (dims : List Nat) (idx : List Int) (c : List Nat),
    fixCoords mode dims idx = some c → dims.length = idx.length ∧ c.length = idx.length
  | [], [], c, h => by simp [fixCoords] at h; subst h; simp
  | [], _ :: _, _, h => by simp [fixCoords] at h
  | _ :: _, [], _, h => by simp [fixCoords] at h
  | d :: ds, i :: is, c, h => by
    unfold fixCoords at h
    cases h1 : fixCoord mode d i with
    | none => simp [h1] at h
    | some x =>
      cases h2 : fixCoords mode ds is with
      | none => simp [h1, h2] at h
      | some xs =>
        simp only [h1, h2, Option.some.injEq] at h
        subst h
        have := fixCoords_length mode ds is xs h2
        simp [this.1, this.2]

theorem fixCoords_append (mode : Mode) : ∀ (d1 : List Nat) (i1 : List Int) (d2 : List Nat) (i2 : List Int) (c1 c2 : List Nat),
    fixCoords mode d1 i1 = some c1 → fixCoords mode d2 i2 = some c2 → fixCoords mode (d1 ++ d2) (i1 ++ i2) = some (c1 ++ c2)
  | [], [], d2, i2, c1, c2, h1, h2 => by simp [fixCoords] at h1; subst h1; simpa using h2
  | [], _ :: _, _, _, _, _, h1, _ => by simp [fixCoords] at h1
  | _ :: _, [], _, _, _, _, h1, _ => by simp [fixCoords] at h1
  | d :: ds, i :: is, d2, i2, c1, c2, h1, h2 => by
    unfold fixCoords at h1
    cases e1 : fixCoord mode d i with
    | none => simp [e1] at h1
    | some x =>
      cases e2 : fixCoords mode ds is with
      | none => simp [e1, e2] at h1
      | some xs =>
        simp only [e1, e2, Option.some.injEq] at h1
        subst h1
        have ih := fixCoords_append mode ds is d2 i2 xs c2 e2 h2
        simp only [List.cons_append, fixCoords, e1, ih]

theorem fixCoords_reverse (mode : Mode) : ∀ (dims : List Nat) (idx : List Int) (c : List Nat),
    fixCoords mode dims idx = some c → fixCoords mode dims.reverse idx.reverse = some c.reverse
  | [], [], c, h => by simp [fixCoords] at h; subst h; rfl
  | [], _ :: _, _, h => by simp [fixCoords] at h
  | _ :: _, [], _, h => by simp [fixCoords] at h
  | d :: ds, i :: is, c, h => by
    unfold fixCoords at h
    cases e1 : fixCoord mode d i with
    | none => simp [e1] at h
    | some x =>
      cases e2 : fixCoords mode ds is with
      | none => simp [e1, e2] at h
      | some xs =>
        simp only [e1, e2, Option.some.injEq] at h
        subst h
        have ih := fixCoords_reverse mode ds is xs e2
        have hl : fixCoords mode [d] [i] = some [x] := by simp [fixCoords, e1]
        simp only [List.reverse_cons]
        exact fixCoords_append mode _ _ _ _ _ _ ih hl

/-! ### argwhere -/

theorem selectBy_map_right {α β} (g : α → β) : ∀ (cond : List Bool) (ys : List α),
    selectBy cond (ys.map g) = (selectBy cond ys).map g
  | [], ys => by simp [selectBy]
  | _ :: _, [] => by simp [selectBy]
  | c :: cs, y :: ys => by
    have ih := selectBy_map_right g cs ys
    unfold selectBy at ih ⊢
    cases c <;> simp [ih]

theorem selectBy_range' (p : Nat → Bool) : ∀ (xs : List Nat) (off : Nat),
    selectBy (xs.map p) (List.range' off xs.length) = (List.range' off xs.length).filter (fun i => p (xs.getD (i - off) 0))
  | [], off => by simp [selectBy]
  | x :: t, off => by
    have ih := selectBy_range' p t (off + 1)
    have hc : (List.range' (off + 1) t.length).filter (fun i => p ((x :: t).getD (i - off) 0))
        = (List.range' (off + 1) t.length).filter (fun i => p (t.getD (i - (off + 1)) 0)) := by
      apply List.filter_congr
      intro i hi
      have := (List.mem_range'_1.1 hi).1
      have e : i - off = (i - (off + 1)) + 1 := by omega
      rw [e, List.getD_cons_succ]
    simp only [List.length_cons, List.range'_succ, List.map_cons, List.filter_cons, Nat.sub_self, List.getD_cons_zero, hc, ← ih]
    unfold selectBy
    cases p x <;> simp

end Dask.Counting
