import DaskModel.Model.Blockwise
/-! Helper lemmas for K13 (`Model/Blockwise.lean`): `traverse`, the position dictionaries of `_get_coord_mapping`,
Python indexing into `out_coords + dummies`. No Mathlib. -/
namespace Dask.Blockwise

/-! ### traverse -/

theorem traverse_congr {α β : Type} {f g : α → Option β} {l : List α} (h : ∀ a ∈ l, f a = g a) :
    traverse f l = traverse g l := by
  induction l with
  | nil => rfl
  | cons a r ih =>
    have h1 : f a = g a := h a (by simp)
    have h2 : traverse f r = traverse g r := ih (fun x hx => h x (by simp [hx]))
    simp [traverse, h1, h2]

theorem traverse_some_map {α β : Type} {f : α → Option β} {g : α → β} {l : List α} (h : ∀ a ∈ l, f a = some (g a)) :
    traverse f l = some (l.map g) := by
  induction l with
  | nil => rfl
  | cons a r ih =>
    have h1 := h a (by simp)
    have h2 := ih (fun x hx => h x (by simp [hx]))
    simp [traverse, h1, h2]

/-- sequencing two traversals = traversing the composition -/
theorem traverse_bind {α β γ : Type} (f : α → Option β) (g : β → Option γ) (l : List α) :
    (traverse f l).bind (traverse g) = traverse (fun x => (f x).bind g) l := by
  induction l with
  | nil => rfl
  | cons a r ih =>
    cases hfa : f a with
    | none => simp [traverse, hfa]
    | some b =>
      cases hfr : traverse f r with
      | none =>
        have : traverse (fun x => (f x).bind g) r = none := by rw [← ih, hfr]; rfl
        simp [traverse, hfa, hfr, this]
        cases g b <;> rfl
      | some bs =>
        have : traverse (fun x => (f x).bind g) r = traverse g bs := by rw [← ih, hfr]; rfl
        simp [traverse, hfa, hfr, this]

theorem traverse_length {α β : Type} {f : α → Option β} {l : List α} {r : List β} (h : traverse f l = some r) :
    r.length = l.length := by
  induction l generalizing r with
  | nil => simp [traverse] at h; subst h; rfl
  | cons a t ih =>
    simp only [traverse] at h
    split at h
    · simp at h
    · split at h
      · simp at h
      · rename_i bs hbs
        simp at h; subst h
        simp [ih hbs]

/-- element-wise view of a successful traversal -/
theorem traverse_mem {α β : Type} {f : α → Option β} {l : List α} {r : List β} (h : traverse f l = some r) :
    ∀ b ∈ r, ∃ a ∈ l, f a = some b := by
  induction l generalizing r with
  | nil => simp [traverse] at h; subst h; simp
  | cons a t ih =>
    simp only [traverse] at h
    split at h
    · simp at h
    · rename_i b0 hb0
      split at h
      · simp at h
      · rename_i bs hbs
        simp at h; subst h
        intro b hb
        simp at hb
        rcases hb with rfl | hb
        · exact ⟨a, by simp, hb0⟩
        · obtain ⟨a', ha', hf⟩ := ih hbs b hb
          exact ⟨a', by simp [ha'], hf⟩

/-! ### dict lookups -/

@[simp] theorem dget_dset_same {α : Type} (m : List (Sym × α)) (k : Sym) (v : α) : dget (dset m k v) k = some v := by
  simp [dget, dset]

theorem dget_dset_ne {α : Type} (m : List (Sym × α)) (k k' : Sym) (v : α) (h : k' ≠ k) : dget (dset m k' v) k = dget m k := by
  simp [dget, dset, h]

/-! ### `index_pos` / `zero_pos` -/

theorem idxOf_cons_ne' (a s : Sym) (r : List Sym) (h : a ≠ s) : (a :: r).idxOf s = r.idxOf s + 1 := by
  have : (a == s) = false := by simp [h]
  simp [List.idxOf_cons, this]

theorem outPos_not_mem (l : List Sym) (i : Nat) (m : List (Sym × Int) × List (Sym × Int)) (s : Sym) (h : s ∉ l) :
    dget (outPos l i m).1 s = dget m.1 s ∧ dget (outPos l i m).2 s = dget m.2 s := by
  induction l generalizing i m with
  | nil => simp [outPos]
  | cons a r ih =>
    obtain ⟨ip, zp⟩ := m
    simp only [List.mem_cons, not_or] at h
    have := ih (i + 1) (dset ip a (i : Int), dset zp a (-1)) h.2
    simp only [outPos]
    rw [this.1, this.2]
    exact ⟨dget_dset_ne _ _ _ _ (Ne.symm h.1), dget_dset_ne _ _ _ _ (Ne.symm h.1)⟩

theorem outPos_mem (l : List Sym) (i : Nat) (m : List (Sym × Int) × List (Sym × Int)) (s : Sym) (hn : l.Nodup) (h : s ∈ l) :
    dget (outPos l i m).1 s = some ((i + l.idxOf s : Nat) : Int) ∧ dget (outPos l i m).2 s = some (-1) := by
  induction l generalizing i m with
  | nil => simp at h
  | cons a r ih =>
    obtain ⟨ip, zp⟩ := m
    simp only [List.nodup_cons] at hn
    by_cases hs : a = s
    · subst hs
      have := outPos_not_mem r (i + 1) (dset ip a (i : Int), dset zp a (-1)) a hn.1
      simp only [outPos]
      rw [this.1, this.2]
      simp [List.idxOf_cons_self]
    · have hr : s ∈ r := by
        rcases List.mem_cons.mp h with h | h
        · exact absurd h.symm hs
        · exact h
      have := ih (i + 1) (dset ip a (i : Int), dset zp a (-1)) hn.2 hr
      simp only [outPos]
      rw [this.1, this.2]
      have hidx : (a :: r).idxOf s = r.idxOf s + 1 := idxOf_cons_ne' a s r hs
      refine ⟨?_, rfl⟩
      rw [hidx]
      congr 1
      omega

theorem dumPos_not_mem (n : Nat) (l : List Sym) (i : Nat) (m : List (Sym × Int) × List (Sym × Int)) (s : Sym) (h : s ∉ l) :
    dget (dumPos n l i m).1 s = dget m.1 s ∧ dget (dumPos n l i m).2 s = dget m.2 s := by
  induction l generalizing i m with
  | nil => simp [dumPos]
  | cons a r ih =>
    obtain ⟨ip, zp⟩ := m
    simp only [List.mem_cons, not_or] at h
    have := ih (i + 1) (dset ip a ((2 * i + n : Nat) : Int), dset zp a ((2 * i + 1 + n : Nat) : Int)) h.2
    simp only [dumPos]
    rw [this.1, this.2]
    exact ⟨dget_dset_ne _ _ _ _ (Ne.symm h.1), dget_dset_ne _ _ _ _ (Ne.symm h.1)⟩

theorem dumPos_mem (n : Nat) (l : List Sym) (i : Nat) (m : List (Sym × Int) × List (Sym × Int)) (s : Sym) (hn : l.Nodup) (h : s ∈ l) :
    dget (dumPos n l i m).1 s = some ((2 * (i + l.idxOf s) + n : Nat) : Int) ∧
    dget (dumPos n l i m).2 s = some ((2 * (i + l.idxOf s) + 1 + n : Nat) : Int) := by
  induction l generalizing i m with
  | nil => simp at h
  | cons a r ih =>
    obtain ⟨ip, zp⟩ := m
    simp only [List.nodup_cons] at hn
    by_cases hs : a = s
    · subst hs
      have := dumPos_not_mem n r (i + 1) (dset ip a ((2 * i + n : Nat) : Int), dset zp a ((2 * i + 1 + n : Nat) : Int)) a hn.1
      simp only [dumPos]
      rw [this.1, this.2]
      simp [List.idxOf_cons_self]
    · have hr : s ∈ r := by
        rcases List.mem_cons.mp h with h | h
        · exact absurd h.symm hs
        · exact h
      have := ih (i + 1) (dset ip a ((2 * i + n : Nat) : Int), dset zp a ((2 * i + 1 + n : Nat) : Int)) hn.2 hr
      simp only [dumPos]
      rw [this.1, this.2]
      have hidx : (a :: r).idxOf s = r.idxOf s + 1 := idxOf_cons_ne' a s r hs
      rw [hidx]
      constructor <;> (congr 2; omega)

/-- the two position dictionaries, for an output index -/
theorem posMaps_out (out dums : List Sym) (s : Sym) (hout : out.Nodup) (hs : s ∈ out) (hd : s ∉ dums) :
    dget (posMaps out dums).1 s = some ((out.idxOf s : Nat) : Int) ∧ dget (posMaps out dums).2 s = some (-1) := by
  unfold posMaps
  have h1 := dumPos_not_mem out.length dums 0 (outPos out 0 ([], [])) s hd
  have h2 := outPos_mem out 0 ([], []) s hout hs
  rw [h1.1, h1.2, h2.1, h2.2]
  simp

/-- …and for a dummy (contracted) index -/
theorem posMaps_dummy (out dums : List Sym) (s : Sym) (hd : dums.Nodup) (hs : s ∈ dums) :
    dget (posMaps out dums).1 s = some ((2 * dums.idxOf s + out.length : Nat) : Int) ∧
    dget (posMaps out dums).2 s = some ((2 * dums.idxOf s + 1 + out.length : Nat) : Int) := by
  unfold posMaps
  have h := dumPos_mem out.length dums 0 (outPos out 0 ([], [])) s hd hs
  rw [h.1, h.2]
  simp

/-! ### indexing into `out_coords + dummies` -/

theorem pyGet_nat {α : Type} (xs : List α) (k : Nat) : pyGet xs (k : Int) = xs[k]? := by
  simp [pyGet]

theorem pyGet_neg_one {α : Type} (xs : List α) (x : α) : pyGet (xs ++ [x]) (-1) = some x := by
  unfold pyGet
  have h1 : ¬ (0 : Int) ≤ -1 := by omega
  have h2 : (0 : Int) ≤ -1 + ((xs ++ [x]).length : Int) := by simp; omega
  have h3 : (-1 + ((xs ++ [x]).length : Int)).toNat = xs.length := by simp; omega
  rw [if_neg h1, if_pos h2, h3]
  simp

/-- entry `2*i` / `2*i+1` of the flattened list of pairs -/
theorem flatten_pairs_getElem? {α β : Type} (l : List α) (f g : α → β) (i : Nat) :
    (l.map fun s => [f s, g s]).flatten[2 * i]? = (l[i]?).map f ∧
    (l.map fun s => [f s, g s]).flatten[2 * i + 1]? = (l[i]?).map g := by
  induction l generalizing i with
  | nil => simp
  | cons a r ih =>
    cases i with
    | zero => simp
    | succ j =>
      have h1 : 2 * (j + 1) = (2 * j) + 1 + 1 := by omega
      simp only [List.map_cons, List.flatten_cons, List.cons_append, List.nil_append]
      rw [h1]
      simp only [List.getElem?_cons_succ]
      exact ih j

end Dask.Blockwise
