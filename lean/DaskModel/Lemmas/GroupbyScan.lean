import DaskModel.Model.Groupby
/-! Helper lemmas for C38: cumulative groupby operations — per-partition scans shifted by the carried running values. -/
namespace Dask.Groupby


theorem cumGo_append (op : Int → Int → Int) : ∀ (xs ys : List (Nat × Option Int)) (st : St),
    cumGo op st (xs ++ ys) = cumGo op st xs ++ cumGo op (cumSt op st xs) ys
  | [], ys, st => rfl
  | (_, none) :: xs, ys, st => by simp [cumGo, cumSt, cumGo_append op xs ys st]
  | (k, some v) :: xs, ys, st => by simp [cumGo, cumSt, cumGo_append op xs ys _]

theorem cumSt_append (op : Int → Int → Int) : ∀ (xs ys : List (Nat × Option Int)) (st : St),
    cumSt op st (xs ++ ys) = cumSt op (cumSt op st xs) ys
  | [], ys, st => rfl
  | (_, none) :: xs, ys, st => by simp [cumSt, cumSt_append op xs ys st]
  | (k, some v) :: xs, ys, st => by simp [cumSt, cumSt_append op xs ys _]

theorem cumSt_is_last (op : Int → Int → Int) (k : Nat) : ∀ (rows : List (Nat × Option Int)) (st : St),
    cumSt op st rows k = (cumLastLit op st rows k).or (st k)
  | [], st => by simp [cumSt, cumLastLit, cumGo]
  | (k', none) :: rs, st => by
    have ih := cumSt_is_last op k rs st
    simp only [cumSt, cumLastLit, cumGo, List.zip_cons_cons, List.filterMap_cons] at ih ⊢
    rw [ih]
    by_cases h : k' = k <;> simp [h]
  | (k', some v) :: rs, st => by
    have ih := cumSt_is_last op k rs (stSet st k' (cumStep op (st k') v))
    simp only [cumSt, cumLastLit, cumGo, List.zip_cons_cons, List.filterMap_cons] at ih ⊢
    rw [ih]
    by_cases h : k' = k
    · subst h
      simp only [beq_self_eq_true, if_true, stSet, List.getLast?_cons]
      cases (List.filterMap _ _).getLast? <;> simp
    · have h2 : (k' == k) = false := by simp [h]
      have h3 : ¬ k = k' := fun e => h e.symm
      simp [h2, stSet, h3]

/-- `cum_last` of a partition is the last non-NA cumulative value of every group (what `M.last` returns) -/
theorem cumLast_is_last (op : Int → Int → Int) (rows : List (Nat × Option Int)) (k : Nat) :
    cumLast op rows k = cumLastLit op stEmpty rows k := by
  unfold cumLast
  rw [cumSt_is_last]
  simp [stEmpty]
/-- shift a cumulative cell by the value carried in for the group -/
def shiftBy (op : Int → Int → Int) (base : St) (r : Nat × Option Int) (c : Option Int) : Option Int :=
  c.map fun x => match base r.1 with
    | none => x
    | some a => op a x

theorem cumStep_omerge (op : Int → Int → Int) (hassoc : ∀ a b c, op (op a b) c = op a (op b c))
    (b s0 : Option Int) (v : Int) :
    cumStep op (omerge op b s0) v = (match b with | none => cumStep op s0 v | some a => op a (cumStep op s0 v)) := by
  cases b <;> cases s0 <;> simp [omerge, cumStep, hassoc]

theorem cumGo_shift (op : Int → Int → Int) (hassoc : ∀ a b c, op (op a b) c = op a (op b c)) (base : St) :
    ∀ (ys : List (Nat × Option Int)) (st st0 : St), (∀ j, st j = omerge op (base j) (st0 j)) →
      cumGo op st ys = List.zipWith (shiftBy op base) ys (cumGo op st0 ys)
  | [], _, _, _ => rfl
  | (k, none) :: ys, st, st0, h => by
    simp only [cumGo, List.zipWith_cons_cons, shiftBy, Option.map_none]
    rw [cumGo_shift op hassoc base ys st st0 h]
  | (k, some v) :: ys, st, st0, h => by
    simp only [cumGo, List.zipWith_cons_cons]
    have hk : cumStep op (st k) v = (match base k with | none => cumStep op (st0 k) v | some a => op a (cumStep op (st0 k) v)) := by
      rw [h k]; exact cumStep_omerge op hassoc _ _ _
    congr 1
    · simp only [shiftBy, Option.map_some]; rw [hk]
    · apply cumGo_shift op hassoc base ys
      intro j
      simp only [stSet]
      by_cases hj : j = k
      · subst hj
        simp only [if_true]
        rw [hk]
        cases base j <;> simp [omerge]
      · simp only [hj, if_false]; exact h j

theorem cumSt_shift (op : Int → Int → Int) (hassoc : ∀ a b c, op (op a b) c = op a (op b c)) (base : St) :
    ∀ (ys : List (Nat × Option Int)) (st st0 : St), (∀ j, st j = omerge op (base j) (st0 j)) →
      ∀ j, cumSt op st ys j = omerge op (base j) (cumSt op st0 ys j)
  | [], _, _, h => h
  | (k, none) :: ys, st, st0, h => by
    simp only [cumSt]; exact cumSt_shift op hassoc base ys st st0 h
  | (k, some v) :: ys, st, st0, h => by
    simp only [cumSt]
    apply cumSt_shift op hassoc base ys
    intro j
    simp only [stSet]
    by_cases hj : j = k
    · subst hj
      simp only [if_true]
      rw [h j, cumStep_omerge op hassoc]
      cases base j <;> simp [omerge]
    · simp only [hj, if_false]; exact h j

/-- the carried values agree with the true running values up to "absent = initial" -/
def Carries (e : Int) (c base : St) : Prop := ∀ k, (c k).getD e = (base k).getD e

theorem cumAligned_eq (op : Int → Int → Int) (e : Int) (hcomm : ∀ a b, op a b = op b a) (hid : ∀ a, op e a = a)
    (rows : List (Nat × Option Int)) (c base : St) (h : Carries e c base) :
    cumAligned op e rows c = List.zipWith (shiftBy op base) rows (cumRaw op rows) := by
  unfold cumAligned
  congr 1
  funext r cell
  cases cell with
  | none => rfl
  | some x =>
    simp only [shiftBy, Option.map_some, Option.some.injEq]
    have hk := h r.1
    cases hb : base r.1 with
    | none => rw [hb] at hk; simp only [Option.getD_none] at hk; rw [hk, hcomm, hid]
    | some a => rw [hb] at hk; simp only [Option.getD_some] at hk; rw [hk, hcomm]

theorem carries_step (op : Int → Int → Int) (e : Int) (hassoc : ∀ a b c, op (op a b) c = op a (op b c))
    (hcomm : ∀ a b, op a b = op b a) (hid : ∀ a, op e a = a)
    (p : List (Nat × Option Int)) (c base : St) (h : Carries e c base) :
    Carries e (cumFilled op e c (cumLast op p)) (cumSt op base p) := by
  intro k
  have hs := cumSt_shift op hassoc base p base stEmpty (fun j => by cases base j <;> rfl) k
  rw [hs]
  have hk := h k
  unfold cumFilled cumLast
  cases hc : c k <;> cases hl : cumSt op stEmpty p k <;> cases hb : base k <;>
    simp only [hc, hb, Option.getD_none, Option.getD_some] at hk <;>
    simp [omerge, hk, hid, hcomm _ e] <;> (try rw [← hk]) <;> simp [hid, hcomm _ e]

theorem cumLoop_some (op : Int → Int → Int) (e : Int) (hassoc : ∀ a b c, op (op a b) c = op a (op b c))
    (hcomm : ∀ a b, op a b = op b a) (hid : ∀ a, op e a = a) :
    ∀ (ps : List (List (Nat × Option Int))) (c base : St), Carries e c base →
      (cumLoop op e (some c) ps).flatten = cumGo op base ps.flatten
  | [], _, _, _ => rfl
  | p :: ps, c, base, h => by
    simp only [cumLoop, List.flatten_cons]
    rw [cumGo_append, cumAligned_eq op e hcomm hid p c base h,
      cumLoop_some op e hassoc hcomm hid ps _ _ (carries_step op e hassoc hcomm hid p c base h)]
    congr 1
    exact (cumGo_shift op hassoc base p base stEmpty (fun j => by cases base j <;> rfl)).symm

/-- **cumulative operations**: the per-partition cumulative values, shifted by the values carried over from the
    earlier partitions, are the cumulative values of the whole frame -/
theorem cumDask_eq_global (op : Int → Int → Int) (e : Int) (hassoc : ∀ a b c, op (op a b) c = op a (op b c))
    (hcomm : ∀ a b, op a b = op b a) (hid : ∀ a, op e a = a) (parts : List (List (Nat × Option Int))) :
    (cumDask op e parts).flatten = cumRaw op parts.flatten := by
  cases parts with
  | nil => rfl
  | cons p ps =>
    simp only [cumDask, cumLoop, List.flatten_cons, cumRaw]
    rw [cumGo_append, cumLoop_some op e hassoc hcomm hid ps (cumLast op p) (cumSt op stEmpty p) (fun _ => rfl)]

example : cumDask (· + ·) 0 [[(0, some 1), (1, some 2), (0, none)], [(1, none)], [(0, some 3), (1, some 4), (0, some 5)]]
    = [[some 1, some 2, none], [none], [some 4, some 6, some 9]] := by decide

end Dask.Groupby
