import DaskModel.Model.NormalForm
/-!
Helper definitions and lemmas for C11–C13, C15 about `Dask.NF` (Model/NormalForm.lean):

* `ObsEq` — the independent structural equality on values (what an observer can tell apart):
  same class, same scalars, sequences elementwise, dict / set up to the order of items,
  strided arrays by dtype, shape and logical elements.
* permutation lemmas for the stable sort `ssort`.
-/
namespace Dask.NF

/-- elementwise relation of two lists (core Lean has no `Forall₂`) -/
inductive All₂ {α β : Type} (R : α → β → Prop) : List α → List β → Prop
  | nil : All₂ R [] []
  | cons {a : α} {b : β} {as : List α} {bs : List β} : R a b → All₂ R as bs → All₂ R (a :: as) (b :: bs)

/-! ## observational equality -/

mutual
inductive ObsEq : Val → Val → Prop
  | int (i : Int) : ObsEq (.int i) (.int i)
  | bool (b : Bool) : ObsEq (.bool b) (.bool b)
  | float (r : String) : ObsEq (.float r) (.float r)
  | str (s : String) : ObsEq (.str s) (.str s)
  | bytes (b : List Nat) : ObsEq (.bytes b) (.bytes b)
  | none : ObsEq .none .none
  | atom (r : String) : ObsEq (.atom r) (.atom r)
  | hash (t : Nat) (p : List Nat) : ObsEq (.hash t p) (.hash t p)
  | list {xs ys : List Val} : ObsEqL xs ys → ObsEq (.list xs) (.list ys)
  | tuple {xs ys : List Val} : ObsEqL xs ys → ObsEq (.tuple xs) (.tuple ys)
  | dict {xs zs ys : List (Val × Val)} : ObsEqP xs zs → zs.Perm ys → ObsEq (.dict xs) (.dict ys)
  | set {xs zs ys : List Val} : ObsEqL xs zs → zs.Perm ys → ObsEq (.set xs) (.set ys)
  | arr0 (item : Val) (dt : String) : ObsEq (.arr0 item dt) (.arr0 item dt)
  | ndarray {dt : String} {shape : List Nat} {st st' : List Int} {o o' : Int} {b b' : List Nat} {els : List Nat} :
      logical shape st o b = some els → logical shape st' o' b' = some els →
      ObsEq (.ndarray dt shape st o b) (.ndarray dt shape st' o' b')
  | ndarraySame (dt : String) (shape : List Nat) (st : List Int) (o : Int) (b : List Nat) :
      ObsEq (.ndarray dt shape st o b) (.ndarray dt shape st o b)
  | objarr (shape : List Nat) (elems : List (List Nat)) : ObsEq (.objarr shape elems) (.objarr shape elems)
  | digest {v w : Val} : ObsEq v w → ObsEq (.digest v) (.digest w)
  | sortedTokens {xs zs ys : List Val} : ObsEqL xs zs → zs.Perm ys → ObsEq (.sortedTokens xs) (.sortedTokens ys)
  | pickled (k : String) (p : Val) : ObsEq (.pickled k p) (.pickled k p)
inductive ObsEqL : List Val → List Val → Prop
  | nil : ObsEqL [] []
  | cons {x y : Val} {xs ys : List Val} : ObsEq x y → ObsEqL xs ys → ObsEqL (x :: xs) (y :: ys)
inductive ObsEqP : List (Val × Val) → List (Val × Val) → Prop
  | nil : ObsEqP [] []
  | cons {k k' v v' : Val} {r r' : List (Val × Val)} :
      ObsEq k k' → ObsEq v v' → ObsEqP r r' → ObsEqP ((k, v) :: r) ((k', v') :: r')
end

mutual
theorem ObsEq.rfl' : ∀ v : Val, ObsEq v v
  | .int _ => .int _ | .bool _ => .bool _ | .float _ => .float _ | .str _ => .str _ | .bytes _ => .bytes _
  | .none => .none | .atom _ => .atom _ | .hash _ _ => .hash _ _
  | .list xs => .list (ObsEqL.rfl' xs)
  | .tuple xs => .tuple (ObsEqL.rfl' xs)
  | .dict kvs => .dict (ObsEqP.rfl' kvs) (.refl _)
  | .set xs => .set (ObsEqL.rfl' xs) (.refl _)
  | .arr0 _ _ => .arr0 _ _
  | .ndarray _ _ _ _ _ => .ndarraySame _ _ _ _ _
  | .objarr _ _ => .objarr _ _
  | .digest v => .digest (ObsEq.rfl' v)
  | .sortedTokens xs => .sortedTokens (ObsEqL.rfl' xs) (.refl _)
  | .pickled _ _ => .pickled _ _
theorem ObsEqL.rfl' : ∀ xs : List Val, ObsEqL xs xs
  | [] => .nil
  | x :: xs => .cons (ObsEq.rfl' x) (ObsEqL.rfl' xs)
theorem ObsEqP.rfl' : ∀ xs : List (Val × Val), ObsEqP xs xs
  | [] => .nil
  | (k, v) :: r => .cons (ObsEq.rfl' k) (ObsEq.rfl' v) (ObsEqP.rfl' r)
end

theorem ObsEqL.of_all₂ {xs ys : List Val} (h : All₂ ObsEq xs ys) : ObsEqL xs ys := by
  induction h with
  | nil => exact .nil
  | cons h _ ih => exact .cons h ih

theorem ObsEqP.of_all₂ {xs ys : List (Val × Val)}
    (h : All₂ (fun p q => ObsEq p.1 q.1 ∧ ObsEq p.2 q.2) xs ys) : ObsEqP xs ys := by
  induction h with
  | nil => exact .nil
  | @cons p q _ _ h _ ih =>
    obtain ⟨k, v⟩ := p
    obtain ⟨k', v'⟩ := q
    exact .cons h.1 h.2 ih

/-! ## generic list lemmas -/

/-- If `map f xs` is a permutation of `map f ys` and `f` is injective up to `R` on the elements of `xs`,
    then `xs` is elementwise `R`-related to a permutation of `ys`. -/
theorem perm_map_rel {α β : Type} (f : α → β) (R : α → α → Prop) :
    ∀ (xs ys : List α), (xs.map f).Perm (ys.map f) → (∀ x ∈ xs, ∀ y, f x = f y → R x y) →
      ∃ zs, All₂ R xs zs ∧ zs.Perm ys
  | [], ys, h, _ => by
    have : ys = [] := by
      have := h.length_eq
      simp at this
      exact List.eq_nil_of_length_eq_zero this.symm
    subst this
    exact ⟨[], .nil, .refl _⟩
  | x :: xs, ys, h, hinj => by
    have hx : f x ∈ ys.map f := h.subset (by simp)
    obtain ⟨y, hy, hfy⟩ := List.mem_map.mp hx
    obtain ⟨l₁, l₂, rfl⟩ := List.append_of_mem hy
    have hperm : (l₁ ++ y :: l₂).Perm (y :: (l₁ ++ l₂)) := List.perm_middle
    have h2 : ((x :: xs).map f).Perm ((y :: (l₁ ++ l₂)).map f) := h.trans (hperm.map f)
    simp only [List.map_cons] at h2
    rw [hfy] at h2
    have h3 := h2.cons_inv
    obtain ⟨zs, hz, hzp⟩ := perm_map_rel f R xs (l₁ ++ l₂) h3 (fun a ha b hb => hinj a (List.mem_cons_of_mem _ ha) b hb)
    exact ⟨y :: zs, .cons (hinj x (by simp) y hfy.symm) hz, (hzp.cons y).trans hperm.symm⟩

/-! ## the stable sort is a permutation -/

theorem insertFront_perm {α : Type} (x : SortKey × α) : ∀ l, (insertFront x l).Perm (x :: l)
  | [] => .refl _
  | y :: ys => by
    unfold insertFront
    split
    · exact .refl _
    · exact ((insertFront_perm x ys).cons y).trans (List.Perm.swap x y ys)

theorem ssort_perm {α : Type} : ∀ l : List (SortKey × α), (ssort l).Perm l
  | [] => .refl _
  | x :: xs => (insertFront_perm x (ssort xs)).trans ((ssort_perm xs).cons x)

/-! ## joined text + element lengths determine the elements -/

theorem joinDash_inj : ∀ xs ys : List (List Nat),
    xs.map List.length = ys.map List.length → joinDash xs = joinDash ys → xs = ys
  | [], [], _, _ => rfl
  | [], _ :: _, h, _ => by simp at h
  | _ :: _, [], h, _ => by simp at h
  | [x], [y], _, hj => by simpa [joinDash] using hj
  | [x], _ :: _ :: _, h, _ => by simp at h
  | _ :: _ :: _, [y], h, _ => by simp at h
  | x :: x' :: r, y :: y' :: r', h, hj => by
    simp only [List.map_cons, List.cons.injEq] at h
    simp only [joinDash] at hj
    have hxy := List.append_inj hj h.1
    have htail : joinDash (x' :: r) = joinDash (y' :: r') := by
      have := hxy.2
      simpa using this
    have := joinDash_inj (x' :: r) (y' :: r') (by simp [h.2.1, h.2.2]) htail
    rw [hxy.1, this]

end Dask.NF
