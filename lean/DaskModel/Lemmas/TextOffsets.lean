import DaskModel.Model.TextBlocks
/-! Helper lemmas for C50: the offset loops of `read_bytes` (int and double block size). -/
namespace Dask.TextBlocks

/-- what the theorems need of the double arithmetic (all four hold for IEEE round-to-nearest) -/
structure GoodArith (A : FArith) : Prop where
  /-- rounding is monotone -/
  mono : ∀ x y, x ≤ y → A.rnd x ≤ A.rnd y
  /-- integers up to 2^53 are representable -/
  fixInt : ∀ n, n ≤ 2 ^ 53 → A.rnd (n * S) = n * S
  /-- doubling a quotient is exact -/
  dbl : ∀ a b, A.rnd (2 * A.div a b) = 2 * A.div a b
  /-- `a / b ≥ k` implies `fl(a / b) ≥ k` -/
  divLower : ∀ a b k, 0 < b → k * b ≤ a → k ≤ 2 ^ 53 → k * S ≤ A.div a b

/-- a valid plan: starts at 0, strictly increasing, every offset inside the file -/
def PlanOK (size : Nat) (offs : List Nat) : Prop :=
  offs.head? = some 0 ∧ offs.Pairwise (· < ·) ∧ ∀ o ∈ offs, o < size

theorem loopInt_ok (size b : Nat) (hb : 0 < b) (fuel place : Nat) :
    (place :: loopInt size b fuel place).Pairwise (· < ·) ∧
    ∀ x ∈ loopInt size b fuel place, place < x ∧ x < size := by
  induction fuel generalizing place with
  | zero => simp [loopInt]
  | succ fuel ih =>
    simp only [loopInt]
    split
    · next hc =>
      obtain ⟨h1, h2⟩ := ih (place + b)
      refine ⟨?_, ?_⟩
      · rw [List.pairwise_cons]
        refine ⟨?_, h1⟩
        intro x hx
        rcases List.mem_cons.mp hx with rfl | hx
        · omega
        · have := (h2 x hx).1; omega
      · intro x hx
        rcases List.mem_cons.mp hx with rfl | hx
        · omega
        · have := h2 x hx; omega
    · simp

/-- with the fuel the model supplies the int loop stops because its condition fails: the last
    offset `x` satisfies `size < x + 2 b` (so the last block is shorter than two block sizes) -/
theorem loopInt_last (size b : Nat) (hb : 0 < b) (fuel place : Nat) (hf : size < place + fuel * b) :
    ∀ x, (place :: loopInt size b fuel place).getLast? = some x → size < x + 2 * b := by
  induction fuel generalizing place with
  | zero => intro x; simp [loopInt]; intro h; subst h; omega
  | succ fuel ih =>
    intro x
    simp only [loopInt]
    split
    · next hc =>
      intro hx
      apply ih (place + b) (by rw [Nat.add_mul] at hf; omega) x
      simpa [List.getLast?_cons_cons] using hx
    · next hc => simp; intro h; subst h; omega

theorem loopFloat_ok (A : FArith) (hA : GoodArith A) (size b : Nat) (hb : 2 ≤ b) (hbs : b < size)
    (hsz : size < 2 ^ 53) (fuel place : Nat)
    (hinv : place / S < size ∧ size + 1 ≤ place / S + fuel) :
    ∃ r, loopFloat A size (A.div size (size / b)) fuel place = some r ∧
      (place / S :: r).Pairwise (· < ·) ∧ ∀ x ∈ r, x < size := by
  have hq : 0 < size / b := Nat.div_pos (by omega) (by omega)
  have hbs1 : b * S ≤ A.div size (size / b) :=
    hA.divLower size (size / b) b hq (by rw [Nat.mul_comm]; exact Nat.div_mul_le_self size b) (by omega)
  induction fuel generalizing place with
  | zero => omega
  | succ fuel ih =>
    simp only [loopFloat]
    have hfs : A.rnd (size * S) = size * S := hA.fixInt size (by omega)
    rw [hfs, hA.dbl]
    have hdiff : (if place = 0 then size * S else A.rnd (size * S - place)) = A.rnd (size * S - place) := by
      split
      · next h0 => subst h0; simp [hfs]
      · rfl
    rw [hdiff]
    split
    · next hc =>
      obtain ⟨hc1, hc2⟩ := hc
      generalize hbs1v : A.div size (size / b) = bs1 at *
      -- from the loop condition: place + 2 bs1 - S < size S
      have hX : 2 * bs1 - S < size * S - place := by
        apply Nat.lt_of_not_le
        intro hle
        have := hA.mono _ _ hle
        omega
      have hSpos : 0 < S := Nat.two_pow_pos 52
      have h2S : 2 * S ≤ b * S := Nat.mul_le_mul_right S hb
      have hsub : (size - 1) * S = size * S - S := by rw [Nat.sub_mul, Nat.one_mul]
      have hSle : S ≤ size * S := Nat.le_mul_of_pos_left S (by omega)
      have hup : place + bs1 ≤ (size - 1) * S := by rw [hsub]; omega
      have hp'le : A.rnd (place + bs1) ≤ (size - 1) * S := by
        have := hA.mono _ _ hup
        rwa [hA.fixInt (size - 1) (by omega)] at this
      have hdm : place / S * S ≤ place := Nat.div_mul_le_self place S
      have hlow : (place / S + b) * S ≤ place + bs1 := by rw [Nat.add_mul]; omega
      have hlow2 : place / S + b < size := by
        apply Nat.lt_of_mul_lt_mul_right (a := S)
        omega
      have hp'ge : (place / S + b) * S ≤ A.rnd (place + bs1) := by
        have := hA.mono _ _ hlow
        rwa [hA.fixInt _ (by omega)] at this
      have h1 : place / S + b ≤ A.rnd (place + bs1) / S := (Nat.le_div_iff_mul_le hSpos).mpr hp'ge
      have h2 : A.rnd (place + bs1) / S < size := by
        rw [Nat.div_lt_iff_lt_mul hSpos]; omega
      obtain ⟨r, hr, hpw, hlt⟩ := ih (A.rnd (place + bs1)) ⟨h2, by omega⟩
      refine ⟨A.rnd (place + bs1) / S :: r, by simp [hr], ?_, ?_⟩
      · rw [List.pairwise_cons]
        refine ⟨?_, hpw⟩
        intro x hx
        rcases List.mem_cons.mp hx with rfl | hx
        · omega
        · have := (List.pairwise_cons.mp hpw).1 x hx; omega
      · intro x hx
        rcases List.mem_cons.mp hx with rfl | hx
        · exact h2
        · exact hlt x hx
    · exact ⟨[], rfl, by simp, by simp⟩

/-- `read_bytes` plans every non-empty file with a positive block size correctly (file sizes below
    2^53 bytes = 8 PiB when the block size is a double) -/
theorem offsets_planOK (A : FArith) (hA : GoodArith A) (size bs : Nat) (hs : 0 < size) (hb : 0 < bs)
    (hsz : size < 2 ^ 53) : ∃ offs, offsets A size bs = some offs ∧ PlanOK size offs := by
  unfold offsets
  simp only [show size ≠ 0 by omega, show bs ≠ 0 by omega, if_false]
  split
  · next hc =>
    have hb2 : 2 ≤ bs := by
      rcases Nat.lt_or_ge bs 2 with h | h
      · have : bs = 1 := by omega
        subst this; exact absurd (Nat.mod_one size) hc.1
      · exact h
    obtain ⟨r, hr, hpw, hlt⟩ := loopFloat_ok A hA size bs hb2 hc.2 hsz (size + 1) 0
      ⟨by simp [Nat.zero_div]; omega, by simp [Nat.zero_div]⟩
    refine ⟨0 :: r, by simp [hr], rfl, by simpa [Nat.zero_div] using hpw, ?_⟩
    intro o ho
    rcases List.mem_cons.mp ho with rfl | ho
    · exact hs
    · exact hlt o ho
  · obtain ⟨h1, h2⟩ := loopInt_ok size bs hb (size + 1) 0
    refine ⟨_, rfl, rfl, h1, ?_⟩
    intro o ho
    rcases List.mem_cons.mp ho with rfl | ho
    · exact hs
    · exact (h2 o ho).2

/-! ### lengths -/

theorem lengthsOf_length (size : Nat) (offs : List Nat) : (lengthsOf size offs).length = offs.length := by
  induction offs with
  | nil => rfl
  | cons o rest ih =>
    cases rest with
    | nil => rfl
    | cons o' rest => simp only [lengthsOf, List.length_cons] at ih ⊢; omega

/-- lengths are positive, and consecutive offsets differ by the length -/
theorem lengthsOf_pos (size : Nat) (offs : List Nat) (hpw : offs.Pairwise (· < ·)) (hlt : ∀ o ∈ offs, o < size) :
    ∀ l ∈ lengthsOf size offs, 0 < l := by
  induction offs with
  | nil => simp [lengthsOf]
  | cons o rest ih =>
    cases rest with
    | nil => intro l hl; simp [lengthsOf] at hl; have := hlt o (by simp); omega
    | cons o' rest =>
      intro l hl
      simp only [lengthsOf, List.mem_cons] at hl
      rcases hl with rfl | hl
      · have := (List.pairwise_cons.mp hpw).1 o' (by simp); omega
      · exact ih (List.pairwise_cons.mp hpw).2 (fun x hx => hlt x (List.mem_cons_of_mem _ hx)) l
          (by simpa [lengthsOf] using hl)

/-- the lengths sum to what is left of the file after the first offset -/
theorem lengthsOf_sum (size : Nat) (o : Nat) (rest : List Nat) (hpw : (o :: rest).Pairwise (· < ·))
    (hlt : ∀ x ∈ o :: rest, x < size) : (lengthsOf size (o :: rest)).sum = size - o := by
  induction rest generalizing o with
  | nil => simp [lengthsOf]
  | cons o' rest ih =>
    have hoo' : o < o' := (List.pairwise_cons.mp hpw).1 o' (by simp)
    have ho' : o' < size := hlt o' (by simp)
    have := ih o' (List.pairwise_cons.mp hpw).2 (fun x hx => hlt x (List.mem_cons_of_mem _ hx))
    simp only [lengthsOf, List.sum_cons] at this ⊢
    omega

end Dask.TextBlocks
