import DaskModel.Model.SetItemMask
/-! C21 extension, `where` path: blocked N-d denotation (`denAt`), the element an elementwise operation reads from an
    argument with broadcast axes, and NumPy's masked assignment with a 0-d value as a position-wise `where`.
    (`locate_spec` / `locate_some_of_lt` / `argPos_*` restate the one-axis lemmas of `Props/C19.lean` locally so that this
    file does not depend on another group's property module.) -/
namespace Dask.SetItemMask
open Dask.Elemwise

/-! ### one axis -/

theorem locate_spec (c : List Nat) (i b l : Nat) (h : locate c i = some (b, l)) :
    globalOf c b l = i ∧ ∃ len, c[b]? = some len ∧ l < len := by
  induction c generalizing i b l with
  | nil => simp [locate] at h
  | cons x t ih =>
    simp only [locate] at h
    split at h
    · rename_i hlt
      simp at h
      obtain ⟨rfl, rfl⟩ := h
      exact ⟨by simp [globalOf], x, by simp, hlt⟩
    · rename_i hge
      cases hr : locate t (i - x) with
      | none => rw [hr] at h; simp at h
      | some p =>
        rw [hr] at h
        simp at h
        obtain ⟨rfl, rfl⟩ := h
        obtain ⟨hg, len, hlen, hl⟩ := ih (i - x) p.1 p.2 hr
        refine ⟨?_, len, by simpa using hlen, hl⟩
        simp only [globalOf, List.take_succ_cons, List.sum_cons] at hg ⊢
        omega

theorem locate_some_of_lt (c : List Nat) (i : Nat) (h : i < c.sum) : ∃ p, locate c i = some p := by
  induction c generalizing i with
  | nil => simp at h
  | cons x t ih =>
    simp only [locate]
    by_cases hlt : i < x
    · simp [hlt]
    · simp only [hlt, if_false]
      have : i - x < t.sum := by simp only [List.sum_cons] at h; omega
      obtain ⟨p, hp⟩ := ih (i - x) this
      exact ⟨(p.1 + 1, p.2), by simp [hp]⟩

/-- an argument with the chunks of the output: blockwise + in-block broadcasting read position `i` -/
theorem argPos_same (c : List Nat) (i : Nat) (h : i < c.sum) : argPos c c i = some i := by
  obtain ⟨⟨b, l⟩, hp⟩ := locate_some_of_lt c i h
  obtain ⟨hg, len, hlen, hl⟩ := locate_spec c i b l hp
  unfold argPos
  simp only [hp, Option.bind_eq_bind, Option.bind_some]
  unfold argBlock
  by_cases h1 : c.length = 1
  · have hb : b = 0 := by
      have : b < c.length := (List.getElem?_eq_some_iff.mp hlen).1
      omega
    subst hb
    simp only [h1, if_true, hlen, Option.bind_some, Option.pure_def]
    unfold localIdx
    by_cases h2 : len = 1
    · have : l = 0 := by omega
      subst this
      simp [h2, hg]
    · simp [h2, hg]
  · simp only [h1, if_false, hlen, Option.bind_some, Option.pure_def]
    unfold localIdx
    by_cases h2 : len = 1
    · have : l = 0 := by omega
      subst this
      simp [h2, hg]
    · simp [h2, hg]

/-- a length-one argument axis (single chunk): position 0 is read whatever the output block -/
theorem argPos_bcast (c : List Nat) (i : Nat) (h : i < c.sum) : argPos c [1] i = some 0 := by
  obtain ⟨⟨b, l⟩, hp⟩ := locate_some_of_lt c i h
  unfold argPos
  simp [hp, argBlock, localIdx, globalOf]

/-! ### N-d blocked arrays -/

/-- an array as a function of the global multi-index -/
abbrev Arr (α : Type) := List Nat → α
/-- a blocked array: block coordinates ↦ in-block offsets ↦ element -/
abbrev Blocks (α : Type) := List Nat → List Nat → α

/-- block coordinate and in-block offset of a global multi-index, axis by axis -/
def locs : List (List Nat) → List Nat → Option (List (Nat × Nat))
  | [], [] => some []
  | c :: cs, i :: is =>
    match locate c i, locs cs is with
    | some p, some ps => some (p :: ps)
    | _, _ => none
  | _, _ => none

/-- the element a blocked array holds at the global multi-index `g` (`none` = out of bounds) -/
def denAt {α : Type} (cs : List (List Nat)) (blk : Blocks α) (g : List Nat) : Option α :=
  (locs cs g).map fun bl => blk (bl.map (·.1)) (bl.map (·.2))

def InBounds : List (List Nat) → List Nat → Prop
  | [], [] => True
  | c :: cs, i :: is => i < c.sum ∧ InBounds cs is
  | _, _ => False

/-- global multi-index of offsets `l` in block `b` -/
def globalsOf : List (List Nat) → List Nat → List Nat → List Nat
  | c :: cs, b :: bs, l :: ls => globalOf c b l :: globalsOf cs bs ls
  | _, _, _ => []

/-- the blocks of the array `a` under the chunks `cs` -/
def blocksOf {α : Type} (cs : List (List Nat)) (a : Arr α) : Blocks α := fun b l => a (globalsOf cs b l)

theorem locs_spec : ∀ (cs : List (List Nat)) (g : List Nat), InBounds cs g →
    ∃ bl, locs cs g = some bl ∧ globalsOf cs (bl.map (·.1)) (bl.map (·.2)) = g
  | [], [], _ => ⟨[], rfl, rfl⟩
  | [], _ :: _, h => absurd h (by simp [InBounds])
  | _ :: _, [], h => absurd h (by simp [InBounds])
  | c :: cs, i :: is, h => by
    simp only [InBounds] at h
    obtain ⟨⟨b, l⟩, hp⟩ := locate_some_of_lt c i h.1
    obtain ⟨bl, hbl, hg⟩ := locs_spec cs is h.2
    refine ⟨(b, l) :: bl, by simp [locs, hp, hbl], ?_⟩
    simp only [List.map_cons, globalsOf, hg, (locate_spec c i b l hp).1]

/-- **blocking is transparent**: the blocks of `a` under any chunking hold `a g` at `g` -/
theorem denAt_blocksOf {α : Type} (cs : List (List Nat)) (a : Arr α) (g : List Nat) (h : InBounds cs g) :
    denAt cs (blocksOf cs a) g = some (a g) := by
  obtain ⟨bl, hbl, hg⟩ := locs_spec cs g h
  simp [denAt, hbl, blocksOf, hg]

theorem inBounds_length : ∀ (cs : List (List Nat)) (g : List Nat), InBounds cs g → g.length = cs.length
  | [], [], _ => rfl
  | [], _ :: _, h => absurd h (by simp [InBounds])
  | _ :: _, [], h => absurd h (by simp [InBounds])
  | _ :: cs, _ :: is, h => by
    simp only [InBounds] at h
    simp [inBounds_length cs is h.2]

/-! ### an argument with broadcast axes (`where`'s value) -/

/-- `ArgAxesOK out arg`: the argument's axes, aligned with the output axes `out`, either carry the output's chunks
    (after `unify_chunks`) or have length one in a single chunk -/
def ArgAxesOK : List (List Nat) → List (List Nat) → Prop
  | c :: cs, a :: as => (a = c ∨ a = [1]) ∧ ArgAxesOK cs as
  | [], [] => True
  | _, _ => False

/-- the global multi-index of the argument element read for the output multi-index `g` (all aligned axes) -/
def argIdx : List (List Nat) → List (List Nat) → List Nat → Option (List Nat)
  | c :: cs, a :: as, i :: is =>
    match argPos c a i, argIdx cs as is with
    | some p, some ps => some (p :: ps)
    | _, _ => none
  | [], [], [] => some []
  | _, _, _ => none

/-- NumPy's broadcast multi-index: 0 along a length-one axis -/
def bcastIdx : List (List Nat) → List Nat → List Nat
  | a :: as, i :: is => (if a.sum = 1 then 0 else i) :: bcastIdx as is
  | _, _ => []

theorem argIdx_eq_bcast : ∀ (cs as : List (List Nat)) (g : List Nat), ArgAxesOK cs as → InBounds cs g →
    argIdx cs as g = some (bcastIdx as g)
  | [], [], [], _, _ => rfl
  | [], [], _ :: _, _, h => absurd h (by simp [InBounds])
  | [], _ :: _, _, h, _ => absurd h (by simp [ArgAxesOK])
  | _ :: _, [], _, h, _ => absurd h (by simp [ArgAxesOK])
  | _ :: _, _ :: _, [], _, h => absurd h (by simp [InBounds])
  | c :: cs, a :: as, i :: is, hok, hin => by
    simp only [ArgAxesOK] at hok
    simp only [InBounds] at hin
    have ih := argIdx_eq_bcast cs as is hok.2 hin.2
    have h1 : argPos c a i = some (if a.sum = 1 then 0 else i) := by
      rcases hok.1 with rfl | rfl
      · rw [argPos_same a i hin.1]
        by_cases h1 : a.sum = 1
        · simp [h1]; omega
        · simp [h1]
      · rw [argPos_bcast c i hin.1]; simp
    simp [argIdx, h1, ih, bcastIdx]

/-! ### NumPy's masked assignment with a 0-d value -/

theorem npMaskAssign_replicate {α : Type} (v : α) : ∀ (mask : List Bool) (x : List α), mask.length = x.length →
    npMaskAssign mask x (List.replicate (mask.filter id).length v)
      = some (List.zipWith (fun m a => if m then v else a) mask x)
  | [], [], _ => rfl
  | [], _ :: _, h => by simp at h
  | _ :: _, [], h => by simp at h
  | true :: ms, a :: xs, h => by
    have ih := npMaskAssign_replicate v ms xs (by simpa using h)
    simp [npMaskAssign, List.replicate_succ, ih]
  | false :: ms, a :: xs, h => by
    have ih := npMaskAssign_replicate v ms xs (by simpa using h)
    simp [npMaskAssign, ih]

/-! ### reading the value argument block by block -/

/-- the global multi-index of the argument element that blockwise + NumPy's in-block broadcasting read for the
    output block `b` at in-block offsets `l` (argument chunks `as`, aligned axes only); `none` = no such block -/
def argRead : List (List Nat) → List Nat → List Nat → Option (List Nat)
  | a :: as, b :: bs, l :: ls =>
    match a[argBlock a.length b]?, argRead as bs ls with
    | some len, some r => some (globalOf a (argBlock a.length b) (localIdx len l) :: r)
    | _, _ => none
  | [], [], [] => some []
  | _, _, _ => none

theorem argIdx_eq_argRead : ∀ (cs as : List (List Nat)) (g : List Nat) (bl : List (Nat × Nat)), locs cs g = some bl →
    argIdx cs as g = argRead as (bl.map (·.1)) (bl.map (·.2))
  | [], [], [], bl, h => by simp [locs] at h; subst h; rfl
  | [], _ :: _, [], bl, h => by simp [locs] at h; subst h; simp [argIdx, argRead]
  | [], _, _ :: _, _, h => by simp [locs] at h
  | _ :: _, _, [], _, h => by simp [locs] at h
  | c :: cs, [], i :: is, bl, h => by
    simp only [locs] at h
    cases hp : locate c i with
    | none => simp [hp] at h
    | some p =>
      cases hq : locs cs is with
      | none => simp [hp, hq] at h
      | some ps =>
        simp [hp, hq] at h; subst h
        simp [argIdx, argRead]
  | c :: cs, a :: as, i :: is, bl, h => by
    simp only [locs] at h
    cases hp : locate c i with
    | none => simp [hp] at h
    | some p =>
      cases hq : locs cs is with
      | none => simp [hp, hq] at h
      | some ps =>
        simp [hp, hq] at h; subst h
        have ih := argIdx_eq_argRead cs as is ps hq
        simp only [argIdx, argRead, List.map_cons, ih, argPos, hp, Option.bind_eq_bind, Option.bind_some]
        cases a[argBlock a.length p.1]? <;> cases argRead as (ps.map (·.1)) (ps.map (·.2)) <;> simp

theorem locs_drop : ∀ (off : Nat) (cs : List (List Nat)) (g : List Nat) (bl : List (Nat × Nat)), locs cs g = some bl →
    locs (cs.drop off) (g.drop off) = some (bl.drop off)
  | 0, _, _, _, h => by simpa using h
  | _ + 1, [], [], bl, h => by simp [locs] at h; subst h; simp [locs]
  | _ + 1, [], _ :: _, _, h => by simp [locs] at h
  | _ + 1, _ :: _, [], _, h => by simp [locs] at h
  | off + 1, c :: cs, i :: is, bl, h => by
    simp only [locs] at h
    cases hp : locate c i with
    | none => simp [hp] at h
    | some p =>
      cases hq : locs cs is with
      | none => simp [hp, hq] at h
      | some ps =>
        simp [hp, hq] at h; subst h
        simpa using locs_drop off cs is ps hq

theorem inBounds_drop : ∀ (off : Nat) (cs : List (List Nat)) (g : List Nat), InBounds cs g →
    InBounds (cs.drop off) (g.drop off)
  | 0, _, _, h => by simpa using h
  | _ + 1, [], [], _ => by simp [InBounds]
  | _ + 1, [], _ :: _, h => absurd h (by simp [InBounds])
  | _ + 1, _ :: _, [], h => absurd h (by simp [InBounds])
  | off + 1, _ :: cs, _ :: is, h => by
    simp only [InBounds] at h
    simpa using inBounds_drop off cs is h.2

/-- the blocks of `where(mask, value, x)`: one `np.where` per block of the unified chunks; the value (chunks `vcs`,
    aligned with the last axes from `off` on) is read through blockwise's block coordinate and NumPy's in-block
    broadcasting. `none` = a value block that does not exist (never for in-bounds positions: `where_blocked_den`). -/
def whereBlocks {α : Type} (mb : Blocks Bool) (off : Nat) (vcs : List (List Nat)) (V : Arr α) (xb : Blocks α) :
    Blocks (Option α) :=
  fun b l => (argRead vcs (b.drop off) (l.drop off)).map fun vi => if mb b l then V vi else xb b l


/-! ### shape of the unified chunks -/

theorem optAll_map_congr {β γ δ : Type} (f : β → Option γ) (g : γ → δ) (h : β → δ)
    (H : ∀ x y, f x = some y → g y = h x) : ∀ (l : List β) (r : List γ), optAll (l.map f) = some r → r.map g = l.map h
  | [], r, hr => by simp [optAll] at hr; subst hr; rfl
  | x :: l, r, hr => by
    simp only [List.map_cons] at hr
    cases hx : f x with
    | none => simp [hx, optAll] at hr
    | some y =>
      cases ho : optAll (l.map f) with
      | none => simp [hx, optAll, ho] at hr
      | some r' =>
        simp [hx, optAll, ho] at hr; subst hr
        simp [H x y hx, optAll_map_congr f g h H l r' ho]

theorem newChunks_shape (cs : List (Sym × List Nat)) (a : UArg) (n : List (List Nat)) (hl : a.chunks.length ≤ a.ind.length)
    (h : newChunks cs a = some n) : shapeOf n = shapeOf a.chunks := by
  unfold newChunks at h
  split at h
  · simp at h; subst h; rfl
  · have := optAll_map_congr _ List.sum (fun p : Sym × List Nat => p.2.sum) ?_ _ n h
    · unfold shapeOf
      rw [this]
      have e : (a.ind.zip a.chunks).map (fun p => p.2.sum) = ((a.ind.zip a.chunks).map Prod.snd).map List.sum := by simp
      rw [e, List.map_snd_zip hl]
    · intro p y hy
      cases hc : lookupSym cs p.1 with
      | none => simp [hc] at hy
      | some c =>
        simp only [hc, Option.bind_some] at hy
        split at hy
        · split at hy
          · simp at hy; subst hy; assumption
          · simp at hy
        · simp at hy; subst hy; simp

theorem wherePlan_shape (xchunks mchunks : List (List Nat)) (p : WherePlan) (h : wherePlan xchunks mchunks [] = Res.ok p) :
    shapeOf p.unified = shapeOf xchunks ∧ p.chunks = xchunks ∧ (p.rechunkBack = true ↔ p.unified ≠ xchunks) := by
  unfold wherePlan at h
  split at h
  · cases h
  · simp only [ne_eq, not_true_eq_false, if_false] at h
    split at h
    · rename_i cs mNew vNew xNew hu
      simp only [Res.ok.injEq] at h
      subst h
      refine ⟨?_, rfl, by simp⟩
      simp only [unifyChunks, Option.bind_eq_bind, Option.pure_def] at hu
      cases hs : unifySyms [⟨revRange xchunks.length, mchunks⟩, ⟨[], []⟩, ⟨revRange xchunks.length, xchunks⟩] with
      | none => simp [hs] at hu
      | some cs' =>
        simp only [hs, Option.bind_some, List.map_cons, List.map_nil] at hu
        cases h1 : newChunks cs' ⟨revRange xchunks.length, mchunks⟩ with
        | none => simp [h1, optAll] at hu
        | some n1 =>
          cases h2 : newChunks cs' ⟨[], []⟩ with
          | none => simp [h1, h2, optAll] at hu
          | some n2 =>
            cases h3 : newChunks cs' ⟨revRange xchunks.length, xchunks⟩ with
            | none => simp [h1, h2, h3, optAll] at hu
            | some n3 =>
              simp [h1, h2, h3, optAll] at hu
              obtain ⟨_, _, _, rfl⟩ := hu
              exact newChunks_shape cs' _ _ (by simp [revRange]) h3
    · cases h

theorem inBounds_of_shape : ∀ (cs cs' : List (List Nat)) (g : List Nat), shapeOf cs = shapeOf cs' → InBounds cs g → InBounds cs' g
  | [], [], _, _, h => h
  | [], _ :: _, _, hs, _ => by simp [shapeOf] at hs
  | _ :: _, [], _, hs, _ => by simp [shapeOf] at hs
  | _ :: _, _ :: _, [], _, h => absurd h (by simp [InBounds])
  | c :: cs, c' :: cs', i :: is, hs, h => by
    simp only [shapeOf, List.map_cons, List.cons.injEq] at hs
    simp only [InBounds] at h ⊢
    exact ⟨by omega, inBounds_of_shape cs cs' is hs.2 h.2⟩

end Dask.SetItemMask
