import DaskModel.Lemmas.BytesRound
/-! C18: multiplying a double by a power of two is exact; `int()` of the product. -/
namespace Dask.Bytes

theorem bitLen_unique (x b : Nat) (hb : 0 < b) (hlo : 2 ^ (b - 1) ≤ x) (hhi : x < 2 ^ b) : bitLen x = b := by
  have hx : x ≠ 0 := by
    intro e; subst e
    have : 0 < 2 ^ (b - 1) := Nat.pos_of_ne_zero (by simp)
    omega
  obtain ⟨l, h⟩ := bitLen_pos_bounds x hx
  have hp : 0 < bitLen x := by simp [bitLen, hx]
  have h1 : 2 ^ (b - 1) < 2 ^ bitLen x := Nat.lt_of_le_of_lt hlo h
  have h2 : 2 ^ (bitLen x - 1) < 2 ^ b := Nat.lt_of_le_of_lt l hhi
  have a1 := (Nat.pow_lt_pow_iff_right (by omega : 1 < 2)).mp h1
  have a2 := (Nat.pow_lt_pow_iff_right (by omega : 1 < 2)).mp h2
  omega

theorem bitLen_mul_pow2 (m e : Nat) (hm : 0 < m) : bitLen (m * 2 ^ e) = bitLen m + e := by
  have hm0 : m ≠ 0 := by omega
  obtain ⟨l, h⟩ := bitLen_pos_bounds m hm0
  have hp : 0 < bitLen m := by simp [bitLen, hm0]
  apply bitLen_unique
  · omega
  · have : 2 ^ (bitLen m + e - 1) = 2 ^ (bitLen m - 1) * 2 ^ e := by
      rw [← Nat.pow_add]; congr 1; omega
    rw [this]
    exact Nat.mul_le_mul_right _ l
  · rw [Nat.pow_add]
    exact Nat.mul_lt_mul_of_pos_right h (Nat.pos_of_ne_zero (by simp))

theorem rheDiv_of_dvd (a d : Nat) (hd : 0 < d) (h : d ∣ a) : rheDiv a d = a / d := by
  unfold rheDiv
  have : a % d = 0 := Nat.mod_eq_zero_of_dvd h
  simp only [this]
  have h1 : ¬ (2 * 0 > d) := by omega
  have h2 : ¬ (2 * 0 = d ∧ a / d % 2 = 1) := by omega
  simp [h1, h2]

/-- **`int(x * 2^e)`** for a double `x = m·2^-s`: scaling by a power of two is exact, so the result is the floor of
the exact product. -/
theorem mulR_floor_pow2 (m s e : Nat) (hm : 0 < m) (hm53 : m ≤ 2 ^ 53) (he : e ≤ 52) :
    (mulR ⟨m, -(s : Int)⟩ (natToDy (2 ^ e))).floor = m * 2 ^ e / 2 ^ s := by
  have hpow : (2 : Nat) ^ e < 2 ^ 53 := Nat.pow_lt_pow_right (by omega) (by omega)
  have hnat : natToDy (2 ^ e) = ⟨2 ^ e, 0⟩ := by simp [natToDy, rn53_of_lt _ hpow]
  rw [hnat]
  unfold mulR
  simp only
  have hbl := bitLen_mul_pow2 m e hm
  by_cases hb : bitLen (m * 2 ^ e) ≤ 53
  · simp only [hb, if_true, Int.add_zero]
    unfold Dy.floor
    simp only
    by_cases hs : s = 0
    · subst hs; simp
    · have : ¬ (-(s : Int) ≥ 0) := by omega
      simp only [this, if_false]
      congr 2
      omega
  · simp only [hb, if_false, Int.add_zero]
    generalize hsh : bitLen (m * 2 ^ e) - 53 = sh
    have hshpos : 0 < (2 : Nat) ^ sh := Nat.pos_of_ne_zero (by simp)
    -- 2^sh divides the product
    have hdvd : 2 ^ sh ∣ m * 2 ^ e := by
      by_cases hlt : m < 2 ^ 53
      · have : bitLen m ≤ 53 := bitLen_le_of_lt_pow m 53 hlt
        have hle : sh ≤ e := by omega
        exact Nat.dvd_trans (Nat.pow_dvd_pow 2 hle) (Nat.dvd_mul_left _ _)
      · have hmeq : m = 2 ^ 53 := by omega
        subst hmeq
        have : bitLen ((2 : Nat) ^ 53) = 54 := by decide
        rw [← Nat.pow_add]
        apply Nat.pow_dvd_pow
        omega
    rw [rheDiv_of_dvd _ _ hshpos hdvd]
    obtain ⟨q, hq⟩ := hdvd
    have hdiv : m * 2 ^ e / 2 ^ sh = q := by
      rw [hq, Nat.mul_comm, Nat.mul_div_cancel _ hshpos]
    rw [hdiv]
    unfold Dy.floor
    simp only
    by_cases hle : s ≤ sh
    · have hc : (-(s : Int) + ((sh : Nat) : Int)) ≥ 0 := by omega
      have ht : (-(s : Int) + ((sh : Nat) : Int)).toNat = sh - s := by omega
      simp only [hc, if_true, ht]
      rw [hq]
      have : (2 : Nat) ^ sh = 2 ^ s * 2 ^ (sh - s) := by rw [← Nat.pow_add]; congr 1; omega
      rw [this, Nat.mul_assoc, Nat.mul_comm (2 ^ s), Nat.mul_div_cancel _ (Nat.pos_of_ne_zero (by simp)), Nat.mul_comm]
    · have hc : ¬ ((-(s : Int) + ((sh : Nat) : Int)) ≥ 0) := by omega
      have ht : (-(-(s : Int) + ((sh : Nat) : Int))).toNat = s - sh := by omega
      simp only [hc, if_false, ht]
      rw [hq]
      have : (2 : Nat) ^ s = 2 ^ sh * 2 ^ (s - sh) := by rw [← Nat.pow_add]; congr 1; omega
      rw [this, ← Nat.div_div_eq_div_mul, Nat.mul_comm (2 ^ sh) q, Nat.mul_div_cancel _ hshpos]

end Dask.Bytes
