import DaskModel.Model.BlockScan
/-! Finite table: dask's Blelloch schedule passes the interval checker for every `n_vals ≤ 32`
(kernel evaluation; kept in its own module because it is the only slow declaration). -/
namespace Dask.BlockScan

theorem schedOk_table : ∀ n, n ≤ 32 → schedOk n = true := by decide +kernel

end Dask.BlockScan
