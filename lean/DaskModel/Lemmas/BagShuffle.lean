import DaskModel.Model.BagShuffle
/-! Helper lemmas for C48: base-`k` digit arithmetic and the stage invariants of `groupby_tasks`. -/
namespace Dask.BagShuffle

/-! ### arithmetic of one digit position (`P = k^s`, the digit has weight `P`, the next one `P * k`) -/

/-- `setDigit` spelled with `P = k^s` -/
theorem setDigit_eq (t s v k : Nat) : setDigit t s v k = t / (k ^ s * k) * (k ^ s * k) + v * k ^ s + t % k ^ s := by
  simp [setDigit, Nat.pow_succ]

theorem digit_eq (n s k : Nat) : digit n s k = n / k ^ s % k := rfl

section OneDigit
variable (P k : Nat) (hP : 0 < P) (hk : 0 < k)
include hP hk

/-- the value with digit `v` put at weight `P`: low part, the digit, high part -/
theorem low_of_compose (A v r : Nat) (hr : r < P) : (A * (P * k) + v * P + r) % P = r := by
  have : A * (P * k) + v * P + r = r + P * (A * k + v) := by
    rw [Nat.mul_add, Nat.mul_left_comm P A k, Nat.mul_comm P v]; omega
  rw [this, Nat.add_mul_mod_self_left, Nat.mod_eq_of_lt hr]

theorem div_of_compose (A v r : Nat) (hr : r < P) : (A * (P * k) + v * P + r) / P = A * k + v := by
  have : A * (P * k) + v * P + r = r + P * (A * k + v) := by
    rw [Nat.mul_add, Nat.mul_left_comm P A k, Nat.mul_comm P v]; omega
  rw [this, Nat.add_mul_div_left _ _ hP, Nat.div_eq_of_lt hr]; omega

theorem high_of_compose (A v r : Nat) (hr : r < P) (hv : v < k) : (A * (P * k) + v * P + r) / (P * k) = A := by
  have hlt : v * P + r < P * k := by
    have : (v + 1) * P ≤ k * P := Nat.mul_le_mul_right P hv
    rw [Nat.add_mul, Nat.one_mul, Nat.mul_comm k P] at this; omega
  have : A * (P * k) + v * P + r = (v * P + r) + (P * k) * A := by rw [Nat.mul_comm A]; omega
  rw [this, Nat.add_mul_div_left _ _ (Nat.mul_pos hP hk), Nat.div_eq_of_lt hlt]; omega

/-- decomposition of any number at this digit position -/
theorem decompose (t : Nat) : t = t / (P * k) * (P * k) + (t / P % k) * P + t % P := by
  have h1 := Nat.div_add_mod t P
  have h2 := Nat.div_add_mod (t / P) k
  have h3 : t / P / k = t / (P * k) := Nat.div_div_eq_div_mul t P k
  rw [h3] at h2
  have : t / (P * k) * (P * k) + (t / P % k) * P = P * (t / P) := by
    conv => rhs; rw [← h2]
    rw [Nat.mul_add, Nat.mul_comm (t / (P * k)) (P * k), Nat.mul_assoc, Nat.mul_comm P (t / P % k)]
  omega

end OneDigit

theorem pow_pos' (k s : Nat) (hk : 0 < k) : 0 < k ^ s := Nat.pow_pos hk

/-- replacing digit `s` keeps the lower digits -/
theorem setDigit_low (t s v k : Nat) (hk : 0 < k) : setDigit t s v k % k ^ s = t % k ^ s := by
  rw [setDigit_eq]
  exact low_of_compose (k ^ s) k (pow_pos' k s hk) hk _ v _ (Nat.mod_lt _ (pow_pos' k s hk))

/-- … sets digit `s` … -/
theorem digit_setDigit (t s v k : Nat) (hk : 0 < k) (hv : v < k) : digit (setDigit t s v k) s k = v := by
  rw [digit_eq, setDigit_eq, div_of_compose (k ^ s) k (pow_pos' k s hk) hk _ v _ (Nat.mod_lt _ (pow_pos' k s hk)),
    Nat.mul_comm, Nat.mul_add_mod, Nat.mod_eq_of_lt hv]

/-- … and keeps the higher digits -/
theorem setDigit_high (t s v k : Nat) (hk : 0 < k) (hv : v < k) :
    setDigit t s v k / (k ^ s * k) = t / (k ^ s * k) := by
  rw [setDigit_eq]
  exact high_of_compose (k ^ s) k (pow_pos' k s hk) hk _ v _ (Nat.mod_lt _ (pow_pos' k s hk)) hv

/-- putting back the digit that is already there changes nothing -/
theorem setDigit_self (t s k : Nat) (hk : 0 < k) : setDigit t s (digit t s k) k = t := by
  rw [setDigit_eq, digit_eq]
  exact (decompose (k ^ s) k (pow_pos' k s hk) hk t).symm

/-- a partition number below `k^S` stays below it -/
theorem setDigit_lt (t s v k S : Nat) (hk : 0 < k) (hv : v < k) (hs : s < S) (ht : t < k ^ S) :
    setDigit t s v k < k ^ S := by
  have hP := pow_pos' k s hk
  obtain ⟨d, rfl⟩ : ∃ d, S = s + 1 + d := ⟨S - s - 1, by omega⟩
  have hK : k ^ (s + 1 + d) = k ^ d * (k ^ s * k) := by rw [Nat.pow_add, Nat.pow_succ, Nat.mul_comm]
  rw [hK] at ht ⊢
  rw [setDigit_eq]
  have hA : t / (k ^ s * k) < k ^ d := by
    rw [Nat.div_lt_iff_lt_mul (Nat.mul_pos hP hk)]; exact ht
  have hlt : v * k ^ s + t % k ^ s < k ^ s * k := by
    have : (v + 1) * k ^ s ≤ k * k ^ s := Nat.mul_le_mul_right _ hv
    have hr := Nat.mod_lt t hP
    rw [Nat.add_mul, Nat.one_mul, Nat.mul_comm k] at this; omega
  have : (t / (k ^ s * k) + 1) * (k ^ s * k) ≤ k ^ d * (k ^ s * k) := Nat.mul_le_mul_right _ hA
  rw [Nat.add_mul, Nat.one_mul] at this
  omega

/-! ### membership in the output of one stage -/

theorem getD_map_range {γ : Type} (K : Nat) (f : Nat → List γ) (t : Nat) :
    ((List.range K).map f).getD t [] = if t < K then f t else [] := by
  by_cases h : t < K
  · simp [List.getD, h]
  · simp [List.getD, h]

theorem mem_stageStep {α : Type} (k K s : Nat) (parts : List (List (Nat × α))) (t : Nat) (e : Nat × α) :
    e ∈ (stageStep k K s parts).getD t [] ↔
      t < K ∧ ∃ j, j < k ∧ e ∈ parts.getD (setDigit t s j k) [] ∧ digit e.1 s k = digit t s k := by
  simp only [stageStep, getD_map_range]
  split
  · next h =>
    simp only [h, true_and, List.mem_flatMap, List.mem_range, List.mem_filter, beq_iff_eq]
  · next h => simp [h]

theorem mem_start {α : Type} (K : Nat) (parts : List (List (Nat × α))) (t : Nat) (e : Nat × α) :
    e ∈ (start K parts).getD t [] ↔ t < K ∧ e ∈ parts.getD t [] := by
  simp only [start, getD_map_range]
  split
  · next h => simp [h]
  · next h => simp [h]

/-! ### soundness: after `s` stages the low `s` digits of the partition number are those of the hash -/

def LowInv {α : Type} (k K s : Nat) (ps : List (List (Nat × α))) : Prop :=
  ∀ t e, e ∈ ps.getD t [] → t < K ∧ e.1 % k ^ s = t % k ^ s

theorem LowInv_start {α : Type} (k K : Nat) (parts : List (List (Nat × α))) : LowInv k K 0 (start K parts) := by
  intro t e he
  exact ⟨((mem_start K parts t e).mp he).1, by simp [Nat.mod_one]⟩

theorem LowInv_step {α : Type} (k K s : Nat) (hk : 0 < k) (ps : List (List (Nat × α))) (h : LowInv k K s ps) :
    LowInv k K (s + 1) (stageStep k K s ps) := by
  intro t e he
  obtain ⟨htK, j, hj, hmem, hdig⟩ := (mem_stageStep k K s ps t e).mp he
  obtain ⟨_, hlow⟩ := h _ e hmem
  rw [setDigit_low _ _ _ _ hk] at hlow
  refine ⟨htK, ?_⟩
  rw [Nat.mod_pow_succ, Nat.mod_pow_succ, hlow]
  simp only [digit_eq] at hdig
  rw [hdig]

theorem LowInv_stagesFrom {α : Type} (k K : Nat) (hk : 0 < k) (n s : Nat) (ps : List (List (Nat × α)))
    (h : LowInv k K s ps) : LowInv k K (s + n) (stagesFrom k K n s ps) := by
  induction n generalizing s ps with
  | zero => simpa [stagesFrom] using h
  | succ n ih =>
    simp only [stagesFrom]
    have := ih (s + 1) _ (LowInv_step k K s hk ps h)
    rwa [show s + 1 + n = s + (n + 1) by omega] at this

/-! ### completeness: an element of input partition `p` is, after `s` stages, in the partition whose low
`s` digits come from its hash and whose other digits are those of `p` -/

def mix (k s p h : Nat) : Nat := p / k ^ s * k ^ s + h % k ^ s

def MixInv {α : Type} (k s : Nat) (parts ps : List (List (Nat × α))) : Prop :=
  ∀ p e, p < parts.length → e ∈ parts.getD p [] → e ∈ ps.getD (mix k s p e.1) []

theorem mix_zero (k p h : Nat) : mix k 0 p h = p := by simp [mix, Nat.mod_one]

theorem mix_lt (k s S p h : Nat) (hk : 0 < k) (hs : s ≤ S) (hp : p < k ^ S) : mix k s p h < k ^ S := by
  have hP := pow_pos' k s hk
  obtain ⟨d, rfl⟩ : ∃ d, S = s + d := ⟨S - s, by omega⟩
  have hK : k ^ (s + d) = k ^ d * k ^ s := by rw [Nat.pow_add, Nat.mul_comm]
  rw [hK] at hp ⊢
  simp only [mix]
  have hA : p / k ^ s < k ^ d := by
    rw [Nat.div_lt_iff_lt_mul hP]; exact hp
  have : (p / k ^ s + 1) * k ^ s ≤ k ^ d * k ^ s := Nat.mul_le_mul_right _ hA
  have hr := Nat.mod_lt h hP
  rw [Nat.add_mul, Nat.one_mul] at this
  omega

theorem mix_full (k S p h : Nat) (hp : p < k ^ S) : mix k S p h = h % k ^ S := by
  simp [mix, Nat.div_eq_of_lt hp]

/-- the routing step: from `mix s` the element moves to `mix (s+1)` -/
theorem mix_step (k s p h : Nat) (hk : 0 < k) :
    digit h s k = digit (mix k (s + 1) p h) s k ∧
    setDigit (mix k (s + 1) p h) s (digit p s k) k = mix k s p h := by
  have hP := pow_pos' k s hk
  have hM : 0 < k ^ s * k := Nat.mul_pos hP hk
  -- write t = A * (P*k) + (h/P % k) * P + h % P
  have hmod : h % (k ^ s * k) = (h / k ^ s % k) * k ^ s + h % k ^ s := by
    have := Nat.mod_pow_succ (x := h) (b := k) (k := s)
    rw [Nat.pow_succ] at this
    rw [this, Nat.mul_comm (k ^ s)]; omega
  have ht : mix k (s + 1) p h = p / (k ^ s * k) * (k ^ s * k) + (h / k ^ s % k) * k ^ s + h % k ^ s := by
    simp only [mix, Nat.pow_succ]; rw [hmod]; omega
  have hr := Nat.mod_lt h hP
  have hv := Nat.mod_lt (h / k ^ s) hk
  constructor
  · rw [digit_eq, digit_eq, ht, div_of_compose (k ^ s) k hP hk _ _ _ hr, Nat.mul_comm, Nat.mul_add_mod,
      Nat.mod_eq_of_lt hv]
  · rw [setDigit_eq, ht, high_of_compose (k ^ s) k hP hk _ _ _ hr hv, low_of_compose (k ^ s) k hP hk _ _ _ hr]
    simp only [mix, digit_eq]
    have h1 := decompose (k ^ s) k hP hk p
    have h2 := Nat.div_add_mod' p (k ^ s)
    omega

theorem MixInv_start {α : Type} (k S : Nat) (parts : List (List (Nat × α))) (hlen : parts.length ≤ k ^ S) :
    MixInv k 0 parts (start (k ^ S) parts) := by
  intro p e hp he
  rw [mix_zero, mem_start]
  exact ⟨by omega, he⟩

theorem MixInv_step {α : Type} (k S s : Nat) (hk : 0 < k) (hs : s < S) (parts ps : List (List (Nat × α)))
    (hlen : parts.length ≤ k ^ S) (h : MixInv k s parts ps) :
    MixInv k (s + 1) parts (stageStep k (k ^ S) s ps) := by
  intro p e hp he
  have hpK : p < k ^ S := by omega
  obtain ⟨hd, hsd⟩ := mix_step k s p e.1 hk
  rw [mem_stageStep]
  refine ⟨mix_lt k (s + 1) S p e.1 hk hs hpK, digit p s k, Nat.mod_lt _ hk, ?_, hd⟩
  rw [hsd]
  exact h p e hp he

theorem MixInv_stagesFrom {α : Type} (k S : Nat) (hk : 0 < k) (parts : List (List (Nat × α)))
    (hlen : parts.length ≤ k ^ S) (n s : Nat) (hns : s + n ≤ S) (ps : List (List (Nat × α)))
    (h : MixInv k s parts ps) : MixInv k (s + n) parts (stagesFrom k (k ^ S) n s ps) := by
  induction n generalizing s ps with
  | zero => simpa [stagesFrom] using h
  | succ n ih =>
    simp only [stagesFrom]
    have := ih (s + 1) (by omega) _ (MixInv_step k S s hk (by omega) parts ps hlen h)
    rwa [show s + 1 + n = s + (n + 1) by omega] at this

theorem stagesFrom_length {α : Type} (k K n s : Nat) (ps : List (List (Nat × α))) (h : ps.length = K) :
    (stagesFrom k K n s ps).length = K := by
  induction n generalizing s ps with
  | zero => simpa [stagesFrom] using h
  | succ n ih => simp only [stagesFrom]; exact ih _ _ (by simp [stageStep])

end Dask.BagShuffle
