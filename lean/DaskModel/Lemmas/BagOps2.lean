import DaskModel.Model.BagOps
import DaskModel.Lemmas.BagOps
import DaskModel.Lemmas.BagReduce
import DaskModel.Lemmas.Round53
/-! Helper lemmas for C48 (review round): the binary64 cut points of `split`, running sums as boundaries,
chunk sizes of `partition_all`, integer sums. -/
namespace Dask.BagOps
open Dask.BagReduce Dask.TextBlocks
variable {α β : Type}

/-- a list of lists all of whose members but the `t`-th are empty flattens to the `t`-th -/
theorem flatten_eq_getD_of_others_nil {γ : Type} (L : List (List γ)) (t : Nat)
    (h : ∀ t', t' ≠ t → L.getD t' [] = []) : L.flatten = L.getD t [] := by
  induction L generalizing t with
  | nil => simp
  | cons x xs ih =>
    cases t with
    | zero =>
      have hx : xs.flatten = [] := by
        rw [List.flatten_eq_nil_iff]
        intro l hl
        obtain ⟨i, hi, rfl⟩ := List.getElem_of_mem hl
        have := h (i + 1) (by omega)
        simpa [List.getD_eq_getElem?_getD, List.getElem?_eq_getElem hi] using this
      simp [hx]
    | succ t =>
      have hx : x = [] := by simpa using h 0 (by omega)
      subst hx
      have := ih t (fun t' ht' => by simpa using h (t' + 1) (by omega))
      simpa using this


theorem splitCut_zero (len n : Nat) : splitCut len n 0 = 0 := by
  simp [splitCut, round53, rhe]

theorem splitCut_mono (len n : Nat) {i j : Nat} (h : i ≤ j) : splitCut len n i ≤ splitCut len n j := by
  simp only [splitCut]
  apply Nat.div_le_div_right
  exact ieee_mono _ _ (Nat.mul_le_mul_left _ h)

/-- the cut points the code computes in floating point start at 0 and never decrease -/
theorem splitCuts_ok (len n : Nat) (hn : 0 < n) :
    ∃ rest, splitCuts len n = 0 :: rest ∧ (0 :: rest).Pairwise (· ≤ ·) := by
  obtain ⟨n', rfl⟩ : ∃ n', n = n' + 1 := ⟨n - 1, by omega⟩
  have hpw : (splitCuts len (n' + 1)).Pairwise (· ≤ ·) := by
    simp only [splitCuts, List.pairwise_map]
    exact List.Pairwise.imp (fun hij => splitCut_mono len _ (Nat.le_of_lt hij)) List.pairwise_lt_range
  have hcons : splitCuts len (n' + 1) = 0 :: (List.range n').map (fun i => splitCut len (n' + 1) (i + 1)) := by
    simp only [splitCuts, List.range_succ_eq_map, List.map_cons, splitCut_zero, List.map_map]
    rfl
  rw [hcons] at hpw
  exact ⟨_, hcons, hpw⟩

theorem splitCuts_length (len n : Nat) : (splitCuts len n).length = n := by simp [splitCuts]


theorem runningSums_pairwise (acc : Nat) (cs : List Nat) : (acc :: runningSums acc cs).Pairwise (· ≤ ·) := by
  induction cs generalizing acc with
  | nil => simp [runningSums]
  | cons c cs ih =>
    simp only [runningSums]
    have := ih (acc + c)
    rw [List.pairwise_cons] at this ⊢
    refine ⟨?_, List.pairwise_cons.mpr this⟩
    intro x hx
    rcases List.mem_cons.mp hx with rfl | hx
    · omega
    · have := this.1 x hx; omega

theorem runningSums_getLast (acc : Nat) (cs : List Nat) :
    (acc :: runningSums acc cs).getLast (by simp) = acc + cs.sum := by
  induction cs generalizing acc with
  | nil => simp [runningSums]
  | cons c cs ih =>
    simp only [runningSums, List.sum_cons]
    rw [List.getLast_cons (by simp), ih]; omega

theorem runningSums_length (acc : Nat) (cs : List Nat) : (runningSums acc cs).length = cs.length := by
  induction cs generalizing acc with
  | nil => rfl
  | cons c cs ih => simp [runningSums, ih]

/-- `_repartition_from_boundaries` with the running sums of positive chunk lengths that add up to the number
    of partitions: the sequence is kept, one new partition per chunk -/
theorem fromRunningSums (b : Bag α) (chunks : List Nat) (hpos : ∀ c ∈ chunks, 0 < c) (hsum : chunks.sum = b.length) :
    (fromBoundaries b (fixBoundaries b.length (runningSums 0 chunks))).flatten = b.flatten ∧
    (b ≠ [] → (fromBoundaries b (fixBoundaries b.length (runningSums 0 chunks))).length = chunks.length) := by
  cases chunks with
  | nil =>
    have : b = [] := List.length_eq_zero_iff.mp (by simpa using hsum.symm)
    subst this
    simp [runningSums, fixBoundaries, fromBoundaries]
  | cons c cs =>
    have hc : 0 < c := hpos c (by simp)
    have hfix : fixBoundaries b.length (runningSums 0 (c :: cs)) = 0 :: runningSums 0 (c :: cs) := by
      have hl := runningSums_getLast 0 (c :: cs)
      have hhead : 0 < (runningSums 0 (c :: cs)).headD 0 := by simp [runningSums]; exact hc
      have hlast : (0 :: runningSums 0 (c :: cs)).getLastD 0 = b.length := by
        rw [List.getLastD_eq_getLast?, List.getLast?_eq_some_getLast (by simp), hl, hsum]; simp
      unfold fixBoundaries
      simp only [hhead, if_true, hlast, Nat.lt_irrefl, if_false]
    rw [hfix]
    refine ⟨?_, fun _ => by rw [fromBoundaries_length]; simp [runningSums_length]⟩
    rw [fromBoundaries_flatten b 0 _ (runningSums_pairwise 0 (c :: cs)), runningSums_getLast, hsum]
    simp


theorem partitionAllF_sizes (n : Nat) (hn : 0 < n) (fuel : Nat) (xs : List α) (hf : xs.length ≤ fuel) :
    (∀ p ∈ partitionAllF n fuel xs, 0 < p.length ∧ p.length ≤ n) ∧
    (∀ p ∈ (partitionAllF n fuel xs).dropLast, p.length = n) := by
  induction fuel generalizing xs with
  | zero => simp [partitionAllF]
  | succ fuel ih =>
    simp only [partitionAllF]
    cases xs with
    | nil => simp
    | cons x xs' =>
      simp only [List.isEmpty_cons, Bool.false_eq_true, if_false]
      have hd : ((x :: xs').drop n).length ≤ fuel := by
        simp only [List.length_drop, List.length_cons] at hf ⊢; omega
      obtain ⟨i1, i2⟩ := ih _ hd
      refine ⟨?_, ?_⟩
      · intro p hp
        rcases List.mem_cons.mp hp with rfl | hp
        · simp only [List.length_take, List.length_cons]; omega
        · exact i1 p hp
      · intro p hp
        cases hrest : partitionAllF n fuel ((x :: xs').drop n) with
        | nil => simp [hrest] at hp
        | cons q qs =>
          rw [hrest, List.dropLast_cons_cons] at hp
          rcases List.mem_cons.mp hp with rfl | hp
          · -- the rest is non-empty, so the first chunk is full
            have hne : (x :: xs').drop n ≠ [] := by
              intro h; rw [h, partitionAllF_nil] at hrest; cases hrest
            have : n < (x :: xs').length := by
              rcases Nat.lt_or_ge n (x :: xs').length with h | h
              · exact h
              · exact absurd (List.drop_eq_nil_of_le h) hne
            simp only [List.length_take]; omega
          · rw [hrest] at i2; exact i2 p hp


theorem sumInt_append (a b : List Int) : sumInt (a ++ b) = sumInt a + sumInt b := by
  have h1 : ∀ (l : List Int) (a : Int), l.foldl (· + ·) a = a + l.foldl (· + ·) 0 := by
    intro l; induction l with
    | nil => intro a; simp
    | cons x l ih2 => intro a; simp only [List.foldl_cons]; rw [ih2 (a + x), ih2 (0 + x)]; omega
  simp only [sumInt, List.foldl_append]
  rw [h1 b (List.foldl _ 0 a)]

theorem sumNat_append (a b : List Nat) : sumNat (a ++ b) = sumNat a + sumNat b := by
  have h1 : ∀ (l : List Nat) (a : Nat), l.foldl (· + ·) a = a + l.foldl (· + ·) 0 := by
    intro l; induction l with
    | nil => intro a; simp
    | cons x l ih2 => intro a; simp only [List.foldl_cons]; rw [ih2 (a + x), ih2 (0 + x)]; omega
  simp only [sumNat, List.foldl_append]
  rw [h1 b (List.foldl _ 0 a)]

theorem sumInt_cons (x : Int) (l : List Int) : sumInt (x :: l) = x + sumInt l := by
  have := sumInt_append [x] l
  simpa [sumInt] using this

theorem sumNat_cons (x : Nat) (l : List Nat) : sumNat (x :: l) = x + sumNat l := by
  have := sumNat_append [x] l
  simpa [sumNat] using this


end Dask.BagOps
