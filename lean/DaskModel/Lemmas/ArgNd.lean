import DaskModel.Model.ArgNd
import DaskModel.Lemmas.GridReduceKd
/-! `argmin` / `argmax` with `axis=None` on an n-d array: the blocks tile the index space (`blocks_tile`, from
`cartesian_groups_perm`), inside a block the C order of the block is the order of the global flat indices
(`ravel_pairwise`), the block-local `unravel → + offset → ravel_multi_index` of `arg_chunk` is the global flat index of
the element (`blockIdx_eq`, `ravel_unravel`), so each partial is the `better`-fold over the block's
`(value, global flat index)` candidates (`argPartNd_eq`), and the commutative `better` merge over all blocks is the
first flat index of the extremum (`argTreeNd_eq`). -/
namespace Dask.ArrayReduce
open List Dask.C22

/-! ### strides, ravel, unravel -/

/-- the stride `np.prod(rest)` as the model computes it -/
def stride (l : List Nat) : Nat := l.foldl (· * ·) 1

theorem foldl_mul (l : List Nat) (a : Nat) : l.foldl (· * ·) a = a * stride l := by
  induction l generalizing a with
  | nil => simp [stride]
  | cons x l ih =>
    simp only [stride, List.foldl_cons, Nat.one_mul]
    rw [ih (a * x), ih x, Nat.mul_assoc]

theorem stride_cons (x : Nat) (l : List Nat) : stride (x :: l) = x * stride l := by
  simp only [stride, List.foldl_cons, Nat.one_mul]; exact foldl_mul l x

theorem unravel_cons (s : Nat) (rest : List Nat) (i : Nat) :
    unravel (s :: rest) i = (i / stride rest) :: unravel rest (i % stride rest) := rfl

theorem ravel_cons (s : Nat) (srest : List Nat) (i : Nat) (irest : List Nat) :
    ravel (s :: srest) (i :: irest) = i * stride srest + ravel srest irest := rfl

theorem range_mul (c p : Nat) :
    List.range (c * p) = (List.range c).flatMap fun x => (List.range p).map (x * p + ·) := by
  induction c with
  | zero => simp
  | succ c ih =>
    rw [Nat.succ_mul, List.range_add, ih, List.range_succ, List.flatMap_append]
    simp

/-- the multi-indices of an array in C order are the unravelled flat indices `0, 1, 2, …` -/
theorem cartesian_range_eq : ∀ (shape : List Nat),
    cartesian (shape.map List.range) = (List.range (stride shape)).map (unravel shape)
  | [] => rfl
  | s :: rest => by
    rw [List.map_cons, cartesian_cons, cartesian_range_eq rest, stride_cons, range_mul, List.map_flatMap]
    apply List.flatMap_congr
    intro x _
    rw [List.map_map, List.map_map]
    apply List.map_congr_left
    intro q hq
    have hq' : q < stride rest := List.mem_range.mp hq
    have hp : 0 < stride rest := by omega
    simp only [Function.comp_def, unravel_cons]
    have e1 : (x * stride rest + q) / stride rest = x := by
      rw [Nat.add_comm, Nat.add_mul_div_right _ _ hp, Nat.div_eq_of_lt hq', Nat.zero_add]
    have e2 : (x * stride rest + q) % stride rest = q := by
      rw [Nat.add_comm, Nat.add_mul_mod_self_right, Nat.mod_eq_of_lt hq']
    rw [e1, e2]

theorem ravel_unravel : ∀ (shape : List Nat) (p : Nat), p < stride shape → ravel shape (unravel shape p) = p
  | [], p, h => by simp [stride] at h; simp [ravel, h]
  | s :: rest, p, h => by
    rw [stride_cons] at h
    have hp : 0 < stride rest := by
      cases hz : stride rest with
      | zero => rw [hz] at h; simp at h
      | succ k => omega
    rw [unravel_cons, ravel_cons, ravel_unravel rest _ (Nat.mod_lt _ hp)]
    exact Nat.div_add_mod' p (stride rest)

/-- a block (per-axis offsets added to the block-local multi-indices) -/
theorem blockIdx_shift : ∀ (B : List (Nat × Nat)),
    blockIdx B = (cartesian ((B.map (·.2)).map List.range)).map (List.zipWith (· + ·) (B.map (·.1)))
  | [] => rfl
  | (o, c) :: B => by
    have ih := blockIdx_shift B
    unfold blockIdx at ih ⊢
    simp only [List.map_cons, cartesian_cons]
    rw [ih, List.range'_eq_map_range, List.flatMap_map, List.map_flatMap]
    apply List.flatMap_congr
    intro a _
    simp only [List.map_map]
    apply List.map_congr_left
    intro t _
    rfl

theorem blockIdx_eq (B : List (Nat × Nat)) :
    blockIdx B = (List.range (stride (B.map (·.2)))).map
      fun p => List.zipWith (· + ·) (B.map (·.1)) (unravel (B.map (·.2)) p) := by
  rw [blockIdx_shift, cartesian_range_eq, List.map_map]; rfl

/-! ### C order = order of the flat indices -/

theorem ravel_pairwise : ∀ (Ls : List (List Nat)) (total : List Nat),
    List.Forall₂ (fun L t => L.Pairwise (· < ·) ∧ ∀ x ∈ L, x < t) Ls total →
    ((cartesian Ls).map (ravel total)).Pairwise (· < ·) ∧ ∀ idx ∈ cartesian Ls, ravel total idx < stride total
  | [], [], _ => by simp [cartesian, ravel, stride]
  | L :: Ls, t :: ts, h => by
    cases h with
    | cons hL hrest =>
      obtain ⟨ih1, ih2⟩ := ravel_pairwise Ls ts hrest
      have hb : ∀ x ∈ L, ∀ idx ∈ cartesian Ls, x * stride ts + ravel ts idx < t * stride ts := by
        intro x hx idx hidx
        have h1 := ih2 idx hidx
        have h2 : (x + 1) * stride ts ≤ t * stride ts := Nat.mul_le_mul_right _ (hL.2 x hx)
        rw [Nat.add_mul, Nat.one_mul] at h2
        omega
      constructor
      · rw [cartesian_cons, List.map_flatMap, List.pairwise_flatMap]
        constructor
        · intro x _
          rw [List.map_map, List.pairwise_map]
          rw [List.pairwise_map] at ih1
          refine ih1.imp ?_
          intro a b hab
          simp only [Function.comp_def, ravel_cons]
          omega
        · refine hL.1.imp_of_mem ?_
          intro x x' hx _ hxx' y hy y' hy'
          simp only [List.map_map, List.mem_map, Function.comp_def, ravel_cons] at hy hy'
          obtain ⟨idx, hidx, rfl⟩ := hy
          obtain ⟨idx', _, rfl⟩ := hy'
          have h1 := ih2 idx hidx
          have h2 : (x + 1) * stride ts ≤ x' * stride ts := Nat.mul_le_mul_right _ hxx'
          rw [Nat.add_mul, Nat.one_mul] at h2
          omega
      · intro idx hidx
        rw [cartesian_cons, List.mem_flatMap] at hidx
        obtain ⟨x, hx, hm⟩ := hidx
        obtain ⟨idx', hidx', rfl⟩ := List.mem_map.mp hm
        rw [ravel_cons, stride_cons]
        exact hb x hx idx' hidx'

/-! ### the blocks tile the index space -/

theorem cartesian_map {α β : Type} (g : α → β) : ∀ (ls : List (List α)),
    cartesian (ls.map (List.map g)) = (cartesian ls).map (List.map g)
  | [] => rfl
  | l :: ls => by
    simp only [List.map_cons, cartesian_cons, cartesian_map g ls, List.flatMap_map, List.map_flatMap, List.map_map]
    rfl

theorem axis_flatten : ∀ (c : List Nat) (o : Nat),
    ((axisBlocksFrom o c).map fun p => List.range' p.1 p.2).flatten = List.range' o (asum c)
  | [], _ => rfl
  | x :: cs, o => by
    simp only [axisBlocksFrom, List.map_cons, List.flatten_cons, axis_flatten cs (o + x)]
    exact List.range'_append_1

theorem length_axisBlocksFrom : ∀ (c : List Nat) (o : Nat), (axisBlocksFrom o c).length = c.length
  | [], _ => rfl
  | _ :: cs, o => by simp [axisBlocksFrom, length_axisBlocksFrom cs]

theorem blocks_tile (chunks : List (List Nat)) :
    ((gridBlocks chunks).flatMap blockIdx).Perm (cartesian ((shapeOf chunks).map List.range)) := by
  have e1 : (gridBlocks chunks).flatMap blockIdx
      = (cartesian ((chunks.map axisBlocks).map (List.map fun p => List.range' p.1 p.2))).flatMap cartesian := by
    rw [cartesian_map, List.flatMap_map]; rfl
  have e2 : ((chunks.map axisBlocks).map (List.map fun p => List.range' p.1 p.2)).map List.flatten
      = (shapeOf chunks).map List.range := by
    simp only [shapeOf, List.map_map]
    apply List.map_congr_left
    intro c _
    simp only [Function.comp_def, axisBlocks, axis_flatten, List.range_eq_range']
  rw [e1, ← e2]
  exact cartesian_groups_perm _

/-! ### bounds of a block -/

theorem axisBlocksFrom_bounds : ∀ (c : List Nat) (o : Nat), ∀ p ∈ axisBlocksFrom o c, p.1 + p.2 ≤ o + asum c
  | [], _, p, h => by simp [axisBlocksFrom] at h
  | x :: cs, o, p, h => by
    simp only [axisBlocksFrom, List.mem_cons] at h
    have e : asum (x :: cs) = x + asum cs := rfl
    rcases h with rfl | h
    · simp only [e]; omega
    · have := axisBlocksFrom_bounds cs (o + x) p h
      rw [e]; omega

theorem mem_cartesian {α : Type} : ∀ (ls : List (List α)) (B : List α), B ∈ cartesian ls →
    List.Forall₂ (fun b l => b ∈ l) B ls
  | [], B, h => by simp [cartesian] at h; subst h; exact List.Forall₂.nil
  | l :: ls, B, h => by
    rw [cartesian_cons, List.mem_flatMap] at h
    obtain ⟨x, hx, hm⟩ := h
    obtain ⟨B', hB', rfl⟩ := List.mem_map.mp hm
    exact List.Forall₂.cons hx (mem_cartesian ls B' hB')

theorem block_bounds (chunks : List (List Nat)) (B : List (Nat × Nat)) (hB : B ∈ gridBlocks chunks) :
    List.Forall₂ (fun L t => L.Pairwise (· < ·) ∧ ∀ x ∈ L, x < t)
      (B.map fun p => List.range' p.1 p.2) (shapeOf chunks) := by
  have h := mem_cartesian _ B hB
  unfold shapeOf
  rw [List.forall₂_map_left_iff, List.forall₂_map_right_iff]
  rw [List.forall₂_map_right_iff] at h
  refine h.imp ?_
  intro p c hp
  have hb := axisBlocksFrom_bounds c 0 p hp
  refine ⟨List.pairwise_lt_range', ?_⟩
  intro x hx
  rw [List.mem_range'_1] at hx
  omega

/-! ### one block: `arg_chunk` = the `better`-fold over the block's `(value, global flat index)` candidates -/

theorem enumFrom_range' (w : Nat → Int) : ∀ (n k : Nat),
    enumFrom k ((List.range' k n).map w) = (List.range' k n).map fun p => (w p, p)
  | 0, _ => rfl
  | n + 1, k => by
    simp only [List.range'_succ, List.map_cons, enumFrom, enumFrom_range' w n (k + 1)]

theorem foldl_better_reindex (lt : Int → Int → Bool) (w : Nat → Int) (h : Nat → Nat) :
    ∀ (L : List Nat) (p0 : Nat), (∀ b ∈ L, p0 < b) → (∀ b ∈ L, h p0 < h b) → L.Pairwise (· < ·) →
      (L.map h).Pairwise (· < ·) →
      (((L.map fun p => (w p, p)).foldl (better lt) (w p0, p0)).1,
        h ((L.map fun p => (w p, p)).foldl (better lt) (w p0, p0)).2)
        = (L.map fun p => (w p, h p)).foldl (better lt) (w p0, h p0)
  | [], _, _, _, _, _ => rfl
  | b :: L, p0, h1, h2, hp, hq => by
    have hb1 : ¬ b < p0 := by have := h1 b (by simp); omega
    have hb2 : ¬ h b < h p0 := by have := h2 b (by simp); omega
    simp only [List.map_cons, List.pairwise_cons] at hp hq
    simp only [List.map_cons, List.foldl_cons]
    by_cases hlt : lt (w b) (w p0) = true
    · have e1 : better lt (w p0, p0) (w b, b) = (w b, b) := by simp [better, hlt]
      have e2 : better lt (w p0, h p0) (w b, h b) = (w b, h b) := by simp [better, hlt]
      rw [e1, e2]
      exact foldl_better_reindex lt w h L b hp.1
        (fun c hc => hq.1 (h c) (List.mem_map.mpr ⟨c, hc, rfl⟩)) hp.2 hq.2
    · have e1 : better lt (w p0, p0) (w b, b) = (w p0, p0) := by simp [better, hlt, hb1]
      have e2 : better lt (w p0, h p0) (w b, h b) = (w p0, h p0) := by simp [better, hlt, hb2]
      rw [e1, e2]
      exact foldl_better_reindex lt w h L p0 (fun c hc => h1 c (by simp [hc]))
        (fun c hc => h2 c (by simp [hc])) hp.2 hq.2

theorem optFold_better_reindex (lt : Int → Int → Bool) (w : Nat → Int) (h : Nat → Nat) (L : List Nat)
    (hp : L.Pairwise (· < ·)) (hq : (L.map h).Pairwise (· < ·)) :
    (optFold (better lt) (L.map fun p => (w p, p))).map (fun q => (q.1, h q.2))
      = optFold (better lt) (L.map fun p => (w p, h p)) := by
  cases L with
  | nil => rfl
  | cons p0 L =>
    simp only [List.map_cons, List.pairwise_cons] at hp hq
    simp only [List.map_cons, optFold, Option.map_some]
    exact congrArg some (foldl_better_reindex lt w h L p0 hp.1
      (fun c hc => hq.1 (h c) (List.mem_map.mpr ⟨c, hc, rfl⟩)) hp.2 hq.2)

/-- **one block**: the partial `arg_chunk` returns (first local extremum, its local index unravelled, shifted by the
    block offset and ravelled in the total shape) is the `better`-fold over ALL elements of the block paired with their
    global flat indices -/
theorem argPartNd_eq (lt : Int → Int → Bool) (total : List Nat) (f : List Nat → Int) (B : List (Nat × Nat))
    (hB : List.Forall₂ (fun L t => L.Pairwise (· < ·) ∧ ∀ x ∈ L, x < t)
      (B.map fun p => List.range' p.1 p.2) total) :
    argPartNd lt total f B
      = (optFold (better lt) ((blockIdx B).map fun idx => (f idx, ravel total idx))).toList := by
  unfold argPartNd argChunk
  congr 1
  have hpw : ((blockIdx B).map (ravel total)).Pairwise (· < ·) := (ravel_pairwise _ total hB).1
  rw [blockIdx_eq] at hpw ⊢
  set n := stride (B.map (·.2))
  set u := fun p => List.zipWith (· + ·) (B.map (·.1)) (unravel (B.map (·.2)) p)
  rw [argBest_eq, argCombine_eq_optFold, List.map_map, List.range_eq_range', enumFrom_range']
  rw [List.map_map] at hpw
  rw [List.map_map, ← List.range_eq_range']
  exact optFold_better_reindex lt (f ∘ u) (ravel total ∘ u) (List.range n) List.pairwise_lt_range hpw

/-! ### all blocks -/

theorem better_comm_min (a b : Int × Nat) : better ltMin a b = better ltMin b a := by
  obtain ⟨a1, a2⟩ := a; obtain ⟨b1, b2⟩ := b
  simp only [better, ltMin, Bool.or_eq_true, Bool.and_eq_true, decide_eq_true_eq, beq_iff_eq]
  split_ifs <;> simp only [Prod.mk.injEq] <;> omega

theorem better_comm_max (a b : Int × Nat) : better ltMax a b = better ltMax b a := by
  obtain ⟨a1, a2⟩ := a; obtain ⟨b1, b2⟩ := b
  simp only [better, ltMax, Bool.or_eq_true, Bool.and_eq_true, decide_eq_true_eq, beq_iff_eq, gt_iff_lt]
  split_ifs <;> simp only [Prod.mk.injEq] <;> omega

theorem length_gridBlocks (chunks : List (List Nat)) :
    (gridBlocks chunks).length = (cartesian ((chunks.map List.length).map List.range)).length := by
  unfold gridBlocks
  rw [length_cartesian, length_cartesian]
  congr 1
  simp only [List.map_map]
  apply List.map_congr_left
  intro c _
  simp [axisBlocks, length_axisBlocksFrom]

/-- **the whole tree**: for any `lt` whose `better` merge is associative and commutative -/
theorem argTreeNd_eq (lt : Int → Int → Bool)
    (assoc : ∀ a b c, better lt (better lt a b) c = better lt a (better lt b c))
    (comm : ∀ a b, better lt a b = better lt b a)
    (kd : Bool) (d : Nat) (ks : List Nat) (chunks : List (List Nat)) (f : List Nat → Int)
    (h : AxesOk (d + 1) ks (chunks.map List.length)) :
    argTreeNd lt chunks ks kd (d + 1) f
      = some [(finalKey kd (chunks.map List.length), argBest lt (flatData chunks f))] := by
  unfold argTreeNd
  have e1 : argCombL lt = fun ps => (optFold (better lt) ps.flatten).toList := by
    funext ps; simp [argCombL, argCombine_eq_optFold]
  have e2 : argAggL lt = fun ps => optFold (better lt) ps.flatten := by
    funext ps; simp [argAggL, argCombine_eq_optFold]
  set cand := fun idx : List Nat => (f idx, ravel (shapeOf chunks) idx) with hcand
  have e3 : argPartsNd lt chunks f
      = ((gridBlocks chunks).map fun B => (blockIdx B).map cand).map fun c => (optFold (better lt) c).toList := by
    unfold argPartsNd
    rw [List.map_map]
    apply List.map_congr_left
    intro B hB
    exact argPartNd_eq lt _ f B (block_bounds chunks B hB)
  rw [e1, e2, e3, gridReduce_optFold assoc comm kd d ks _ _ h (by rw [List.length_map]; exact length_gridBlocks chunks)]
  congr 3
  have e4 : ((gridBlocks chunks).map fun B => (blockIdx B).map cand).flatten
      = ((gridBlocks chunks).flatMap blockIdx).map cand := by
    simp [List.flatMap_def, List.map_flatten, List.map_map, Function.comp_def]
  rw [e4, optFold_perm assoc comm ((blocks_tile chunks).map cand)]
  unfold flatData
  rw [argBest_eq, argCombine_eq_optFold, cartesian_range_eq, List.map_map, List.map_map, List.range_eq_range',
    enumFrom_range']
  congr 1
  apply List.map_congr_left
  intro p hp
  have hp' : p < stride (shapeOf chunks) := by
    rw [List.mem_range'_1] at hp; omega
  simp only [Function.comp_def, hcand, ravel_unravel _ p hp']

/-! ### what `argBest` (NumPy's argmin / argmax of the raveled data) returns -/

/-- `argBest` (the model of `np.argmin` / `np.argmax` on the raveled data) returns the FIRST position of the best value:
    everything before it is strictly worse, nothing after it is better -/
theorem argBest_go_first (lt : Int → Int → Bool)
    (h1 : ∀ a b c, lt a b = true → lt b c = true → lt a c = true)
    (h2 : ∀ a b c, lt a b = true → lt c b = false → lt a c = true) :
    ∀ (ys pre : List Int) (best : Int) (post : List Int), (∀ x ∈ pre, lt best x = true) → (∀ x ∈ post, lt x best = false) →
      ∃ l1 l2, pre ++ best :: post ++ ys = l1 ++ (argBest.go lt best pre.length (pre.length + 1 + post.length) ys).1 :: l2 ∧
        l1.length = (argBest.go lt best pre.length (pre.length + 1 + post.length) ys).2 ∧
        (∀ x ∈ l1, lt (argBest.go lt best pre.length (pre.length + 1 + post.length) ys).1 x = true) ∧
        (∀ x ∈ l2, lt x (argBest.go lt best pre.length (pre.length + 1 + post.length) ys).1 = false)
  | [], pre, best, post, hpre, hpost => ⟨pre, post, by simp [argBest.go], rfl, hpre, hpost⟩
  | y :: ys, pre, best, post, hpre, hpost => by
    by_cases hlt : lt y best = true
    · have ih := argBest_go_first lt h1 h2 ys (pre ++ best :: post) y [] (by
        intro x hx
        rcases List.mem_append.mp hx with hx | hx
        · exact h1 _ _ _ hlt (hpre x hx)
        · rcases List.mem_cons.mp hx with rfl | hx
          · exact hlt
          · exact h2 _ _ _ hlt (hpost x hx)) (by simp)
      simp only [argBest.go, if_pos hlt]
      have e : (pre ++ best :: post).length = pre.length + 1 + post.length := by simp; omega
      rw [e] at ih
      simpa [List.append_assoc] using ih
    · have hf : lt y best = false := by simpa using hlt
      have ih := argBest_go_first lt h1 h2 ys pre best (post ++ [y]) hpre (by
        intro x hx
        rcases List.mem_append.mp hx with hx | hx
        · exact hpost x hx
        · simp at hx; subst hx; exact hf)
      simp only [argBest.go, if_neg hlt]
      have e : pre.length + 1 + (post ++ [y]).length = pre.length + 1 + post.length + 1 := by simp; omega
      rw [e] at ih
      simpa [List.append_assoc] using ih

theorem argBest_first (lt : Int → Int → Bool)
    (h1 : ∀ a b c, lt a b = true → lt b c = true → lt a c = true)
    (h2 : ∀ a b c, lt a b = true → lt c b = false → lt a c = true)
    (xs : List Int) (v : Int) (i : Nat) (h : argBest lt xs = some (v, i)) :
    ∃ l1 l2, xs = l1 ++ v :: l2 ∧ l1.length = i ∧ (∀ x ∈ l1, lt v x = true) ∧ (∀ x ∈ l2, lt x v = false) := by
  cases xs with
  | nil => simp [argBest] at h
  | cons x xs =>
    simp only [argBest, Option.some.injEq] at h
    have := argBest_go_first lt h1 h2 xs [] x [] (by simp) (by simp)
    simp only [List.length_nil, List.nil_append, List.cons_append, Nat.zero_add, Nat.add_zero] at this
    rw [h] at this
    exact this

end Dask.ArrayReduce
