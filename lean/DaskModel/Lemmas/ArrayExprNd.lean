import DaskModel.Model.ArrayExprNd
/-!
Helper lemmas of the C30 extension round (n-d expression model): chunk arithmetic of `unify_chunks_expr`
(`cbLoop`, `common2`, `unify1`, `unifyRev`, `assignRev` keep the axis lengths), `dims` of the derived chunkings.
Mathlib-free.
-/
namespace Dask.ArrayExprNd
open Dask.ArrayExpr (isum)

theorem isum_nil : isum [] = 0 := rfl
theorem isum_cons' (a : Nat) (as : List Nat) : isum (a :: as) = a + isum as := rfl
theorem isum_single (a : Nat) : isum [a] = a := by simp [isum]

/-- the loop of `common_blockdim` emits chunks that add up to the common total -/
theorem cbLoop_sum : ∀ (fuel rem : Nat) (as bs : List Nat), as.length + bs.length < fuel →
    isum as = rem → isum bs = rem → isum (cbLoop fuel rem as bs) = rem := by
  intro fuel
  induction fuel with
  | zero => intro rem as bs h; omega
  | succ fuel ih =>
    intro rem as bs hl ha hb
    cases rem with
    | zero => rw [cbLoop]; rfl
    | succ rem =>
      cases as with
      | nil => simp [isum] at ha
      | cons a as =>
        cases bs with
        | nil => simp [isum] at hb
        | cons b bs =>
          simp only [cbLoop]
          simp only [isum_cons'] at ha hb
          simp only [List.length_cons] at hl
          rw [isum_cons']
          have hm : min a b ≤ a := Nat.min_le_left a b
          have hm' : min a b ≤ b := Nat.min_le_right a b
          have hmm : min a b = a ∨ min a b = b := by omega
          rw [ih (rem + 1 - min a b)]
          · omega
          · split <;> split <;> (try simp only [List.length_cons]) <;> omega
          · split
            · omega
            · rw [isum_cons']; omega
          · split
            · omega
            · rw [isum_cons']; omega

theorem common2_sum (x y : List Nat) (h : isum x = isum y) : isum (common2 x y) = isum x := by
  unfold common2
  split
  · rfl
  · split
    · exact h.symm
    · split
      · split
        · exact h.symm
        · rfl
      · split
        · rename_i hne; exact absurd h hne
        · split
          · rename_i h0; rw [h0]; rfl
          · exact cbLoop_sum _ _ x y (by omega) rfl h.symm

/-- the length of a broadcast axis -/
def bdim (da db : Nat) : Nat := if da = db then da else if da = 1 then db else da

theorem bd_same (d : Nat) (c : List Nat) : bd d c d = c := by
  unfold bd
  split
  · rename_i h; exact absurd h.1 h.2
  · rfl

theorem bd_one (c : List Nat) (o : Nat) (h : o ≠ 1) : bd 1 c o = [1] := by
  unfold bd; simp [h]

theorem bd_other_one (d : Nat) (c : List Nat) : bd d c 1 = c := by
  unfold bd; simp

theorem unify1_sum (da db : Nat) (ca cb : List Nat) (hc : da = db ∨ da = 1 ∨ db = 1)
    (ha : isum ca = da) (hb : isum cb = db) : isum (unify1 da ca db cb) = bdim da db := by
  unfold unify1 bdim
  by_cases h1 : da = db
  · subst h1
    simp only [bd_same, if_true]
    split
    · exact ha
    · split
      · exact hb
      · split
        · exact ha
        · rw [common2_sum ca cb (by rw [ha, hb]), ha]
  · by_cases h2 : da = 1
    · subst h2
      have hdb : db ≠ 1 := fun h => h1 h.symm
      simp only [bd_one ca db hdb, bd_other_one, h1, if_false, if_true]
      split
      · rename_i he; rw [← he] at hb; simp [isum] at hb; omega
      · exact hb
    · have h3 : db = 1 := by omega
      subst h3
      simp only [bd_one cb da h2, bd_other_one]
      by_cases hca : ca = [1]
      · exfalso; rw [hca] at ha; simp [isum] at ha; omega
      · simp [hca, ha, h1, h2]

/-- a list of (axis length, chunks) pairs whose chunks add up to the length -/
def WfPairs (xs : List (Nat × List Nat)) : Prop := ∀ p ∈ xs, isum p.2 = p.1

theorem wfPairs_cons {p : Nat × List Nat} {xs : List (Nat × List Nat)} (h : WfPairs (p :: xs)) :
    isum p.2 = p.1 ∧ WfPairs xs :=
  ⟨h p (List.mem_cons_self ..), fun q hq => h q (List.mem_cons_of_mem _ hq)⟩

theorem wfPairs_map_sum : ∀ (xs : List (Nat × List Nat)), WfPairs xs → (xs.map (·.2)).map isum = xs.map (·.1) := by
  intro xs
  induction xs with
  | nil => intro _; rfl
  | cons p xs ih =>
    intro h
    obtain ⟨h1, h2⟩ := wfPairs_cons h
    simp only [List.map_cons, h1, ih h2]

/-- the unified chunks add up to NumPy's broadcast shape (axes from the last to the first) -/
theorem unifyRev_sum : ∀ (xs ys : List (Nat × List Nat)) (s : List Nat), WfPairs xs → WfPairs ys →
    bshapeRev (xs.map (·.1)) (ys.map (·.1)) = some s → (unifyRev xs ys).map isum = s := by
  intro xs
  induction xs with
  | nil =>
    intro ys s _ hy h
    simp only [List.map_nil, bshapeRev, Option.some.injEq] at h
    subst h
    simp only [unifyRev]
    exact wfPairs_map_sum ys hy
  | cons p xs ih =>
    intro ys s hx hy h
    obtain ⟨hp, hxs⟩ := wfPairs_cons hx
    cases ys with
    | nil =>
      simp only [List.map_cons, List.map_nil, bshapeRev, Option.some.injEq] at h
      subst h
      simp only [unifyRev]
      exact wfPairs_map_sum (p :: xs) hx
    | cons q ys =>
      obtain ⟨hq, hys⟩ := wfPairs_cons hy
      obtain ⟨da, ca⟩ := p
      obtain ⟨db, cb⟩ := q
      simp only [List.map_cons, bshapeRev] at h
      simp only [unifyRev, List.map_cons]
      simp only at hp hq
      split at h
      · rename_i hc
        cases hr : bshapeRev (xs.map (·.1)) (ys.map (·.1)) with
        | none => simp [hr] at h
        | some t =>
          simp only [hr, Option.map_some, Option.some.injEq] at h
          subst h
          rw [ih ys t hxs hys hr, unify1_sum da db ca cb (by omega) hp hq]
          congr 1
          unfold bdim
          rcases hc with hc | hc <;> (repeat' split) <;> omega
      · split at h
        · rename_i hc1 hc2
          cases hr : bshapeRev (xs.map (·.1)) (ys.map (·.1)) with
          | none => simp [hr] at h
          | some t =>
            simp only [hr, Option.map_some, Option.some.injEq] at h
            subst h
            rw [ih ys t hxs hys hr, unify1_sum da db ca cb (by omega) hp hq]
            congr 1
            unfold bdim
            (repeat' split) <;> omega
        · simp at h

theorem assign_sum (U : List Nat) (d : Nat) (h : 1 < d → isum U = d) : isum (assign U d) = d := by
  unfold assign
  split
  · rename_i hc
    rcases hc with hc | hc
    · exact h hc
    · exact hc
  · exact isum_single d

theorem assignRev_self : ∀ (xs : List (Nat × List Nat)), WfPairs xs → (assignRev (xs.map (·.2)) xs).map isum = xs.map (·.1) := by
  intro xs
  induction xs with
  | nil => intro _; rfl
  | cons p xs ih =>
    intro h
    obtain ⟨h1, h2⟩ := wfPairs_cons h
    obtain ⟨d, c⟩ := p
    simp only [List.map_cons, assignRev, ih h2]
    rw [assign_sum c d (fun _ => h1)]

/-- each operand's target chunks add up to the operand's own shape -/
theorem assignRev_sum_left : ∀ (xs ys : List (Nat × List Nat)) (s : List Nat), WfPairs xs → WfPairs ys →
    bshapeRev (xs.map (·.1)) (ys.map (·.1)) = some s → (assignRev (unifyRev xs ys) xs).map isum = xs.map (·.1) := by
  intro xs
  induction xs with
  | nil => intro ys s _ _ _; cases h : unifyRev [] ys <;> simp [assignRev]
  | cons p xs ih =>
    intro ys s hx hy h
    obtain ⟨hp, hxs⟩ := wfPairs_cons hx
    cases ys with
    | nil => simp only [unifyRev]; exact assignRev_self (p :: xs) hx
    | cons q ys =>
      obtain ⟨hq, hys⟩ := wfPairs_cons hy
      obtain ⟨da, ca⟩ := p
      obtain ⟨db, cb⟩ := q
      simp only [List.map_cons, bshapeRev] at h
      simp only at hp hq
      have hcompat : (da = db ∨ da = 1 ∨ db = 1) ∧ ∃ t, bshapeRev (xs.map (·.1)) (ys.map (·.1)) = some t := by
        split at h
        · rename_i hc
          cases hr : bshapeRev (xs.map (·.1)) (ys.map (·.1)) with
          | none => simp [hr] at h
          | some t => exact ⟨by omega, t, rfl⟩
        · split at h
          · rename_i hc
            cases hr : bshapeRev (xs.map (·.1)) (ys.map (·.1)) with
            | none => simp [hr] at h
            | some t => exact ⟨by omega, t, rfl⟩
          · simp at h
      obtain ⟨hc, t, ht⟩ := hcompat
      simp only [unifyRev, assignRev, List.map_cons, ih ys t hxs hys ht]
      rw [assign_sum _ da (fun h1 => by
        rw [unify1_sum da db ca cb hc hp hq]
        unfold bdim
        split
        · rfl
        · split
          · omega
          · rfl)]

theorem assignRev_sum_right : ∀ (xs ys : List (Nat × List Nat)) (s : List Nat), WfPairs xs → WfPairs ys →
    bshapeRev (xs.map (·.1)) (ys.map (·.1)) = some s → (assignRev (unifyRev xs ys) ys).map isum = ys.map (·.1) := by
  intro xs
  induction xs with
  | nil => intro ys s _ hy _; simp only [unifyRev]; exact assignRev_self ys hy
  | cons p xs ih =>
    intro ys s hx hy h
    obtain ⟨hp, hxs⟩ := wfPairs_cons hx
    cases ys with
    | nil => simp [assignRev]
    | cons q ys =>
      obtain ⟨hq, hys⟩ := wfPairs_cons hy
      obtain ⟨da, ca⟩ := p
      obtain ⟨db, cb⟩ := q
      simp only [List.map_cons, bshapeRev] at h
      simp only at hp hq
      have hcompat : (da = db ∨ da = 1 ∨ db = 1) ∧ ∃ t, bshapeRev (xs.map (·.1)) (ys.map (·.1)) = some t := by
        split at h
        · rename_i hc
          cases hr : bshapeRev (xs.map (·.1)) (ys.map (·.1)) with
          | none => simp [hr] at h
          | some t => exact ⟨by omega, t, rfl⟩
        · split at h
          · rename_i hc
            cases hr : bshapeRev (xs.map (·.1)) (ys.map (·.1)) with
            | none => simp [hr] at h
            | some t => exact ⟨by omega, t, rfl⟩
          · simp at h
      obtain ⟨hc, t, ht⟩ := hcompat
      simp only [unifyRev, assignRev, List.map_cons, ih ys t hxs hys ht]
      rw [assign_sum _ db (fun h1 => by
        rw [unify1_sum da db ca cb hc hp hq]
        unfold bdim
        split
        · assumption
        · split
          · rfl
          · omega)]

theorem wfPairs_revPairs (c : Chunks) : WfPairs (revPairs c) := by
  intro p hp
  unfold revPairs at hp
  simp only [List.mem_reverse, List.mem_map] at hp
  obtain ⟨ch, _, rfl⟩ := hp
  rfl

theorem revPairs_fst (c : Chunks) : (revPairs c).map (·.1) = (dims c).reverse := by
  unfold revPairs dims
  simp [List.map_reverse, Function.comp_def]

theorem dims_reverse (c : Chunks) : dims c.reverse = (dims c).reverse := by
  unfold dims; simp [List.map_reverse]

/-- **unify_dims**: the chunks an Elemwise reports add up to NumPy's broadcast shape -/
theorem unify_dims (ca cb : Chunks) (s : List Nat) (h : bshape (dims ca) (dims cb) = some s) : dims (unify ca cb) = s := by
  unfold bshape at h
  cases hr : bshapeRev (dims ca).reverse (dims cb).reverse with
  | none => simp [hr] at h
  | some t =>
    simp only [hr, Option.map_some, Option.some.injEq] at h
    subst h
    unfold unify
    rw [dims_reverse]
    congr 1
    exact unifyRev_sum _ _ t (wfPairs_revPairs ca) (wfPairs_revPairs cb) (by rw [revPairs_fst, revPairs_fst]; exact hr)

/-- **alignTarget_dims**: the chunks each operand is rechunked to add up to that operand's shape -/
theorem alignTarget_dims_left (ca cb : Chunks) (s : List Nat) (h : bshape (dims ca) (dims cb) = some s) :
    dims (alignTarget ca cb ca) = dims ca := by
  unfold bshape at h
  cases hr : bshapeRev (dims ca).reverse (dims cb).reverse with
  | none => simp [hr] at h
  | some t =>
    unfold alignTarget
    rw [dims_reverse]
    have := assignRev_sum_left _ _ t (wfPairs_revPairs ca) (wfPairs_revPairs cb) (by rw [revPairs_fst, revPairs_fst]; exact hr)
    unfold dims at this ⊢
    rw [this, revPairs_fst]
    simp [dims]

theorem alignTarget_dims_right (ca cb : Chunks) (s : List Nat) (h : bshape (dims ca) (dims cb) = some s) :
    dims (alignTarget ca cb cb) = dims cb := by
  unfold bshape at h
  cases hr : bshapeRev (dims ca).reverse (dims cb).reverse with
  | none => simp [hr] at h
  | some t =>
    unfold alignTarget
    rw [dims_reverse]
    have := assignRev_sum_right _ _ t (wfPairs_revPairs ca) (wfPairs_revPairs cb) (by rw [revPairs_fst, revPairs_fst]; exact hr)
    unfold dims at this ⊢
    rw [this, revPairs_fst]
    simp [dims]

/-! ## `dims` of the other derived chunkings -/

theorem isum_getD (c : Chunks) (k : Nat) : isum (c.getD k []) = (dims c).getD k 0 := by
  unfold dims
  simp only [List.getD_eq_getElem?_getD, List.getElem?_map]
  cases c[k]? <;> rfl

theorem dims_transpose (axes : List Nat) (c : Chunks) :
    dims (axes.map fun k => c.getD k []) = axes.map fun k => (dims c).getD k 0 := by
  unfold dims
  rw [List.map_map]
  apply List.map_congr_left
  intro k _
  exact isum_getD c k

theorem dims_single (c : Chunks) : dims (c.map fun ch => [isum ch]) = dims c := by
  unfold dims
  rw [List.map_map]
  apply List.map_congr_left
  intro ch _
  exact isum_single _

theorem isum_flatten : ∀ (L : List (List Nat)), isum L.flatten = (L.map isum).foldr (· + ·) 0 := by
  intro L
  induction L with
  | nil => rfl
  | cons l L ih =>
    simp only [List.flatten_cons, List.map_cons, List.foldr_cons, ← ih]
    induction l with
    | nil => simp [isum]
    | cons a l ihl => simp only [List.cons_append, isum_cons', ihl]; omega

/-- the shape `concatChunks` reports, as a function of the operands' shapes only -/
def concatDims (axis : Nat) : List (List Nat) → List Nat
  | [] => []
  | d0 :: rest => d0.take axis ++ [((d0 :: rest).map fun d => d.getD axis 0).foldr (· + ·) 0] ++ d0.drop (axis + 1)

theorem dims_concatChunks (axis : Nat) (cs : List Chunks) : dims (concatChunks axis cs) = concatDims axis (cs.map dims) := by
  cases cs with
  | nil => rfl
  | cons c0 rest =>
    have h : ((c0 :: rest).map fun c => c.getD axis []).map isum = ((c0 :: rest).map dims).map fun d => d.getD axis 0 := by
      rw [List.map_map, List.map_map]
      apply List.map_congr_left
      intro c _
      exact isum_getD c axis
    simp only [List.map_cons] at h
    simp only [concatChunks, concatDims, List.map_cons]
    rw [← h]
    unfold dims
    simp only [List.map_append, List.map_take, List.map_drop, List.map_cons, List.map_nil, isum_flatten]

end Dask.ArrayExprNd
