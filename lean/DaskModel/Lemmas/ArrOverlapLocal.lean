import DaskModel.Lemmas.ArrOverlapLemmas
/-! C26: a function that looks at most `b` cells back and `a` cells ahead, mapped over the overlapped blocks and
    trimmed, equals the same function on the whole axis (boundary 'none': windows are cut at the array ends).
    The window algebra (`win`, `win_append`, `win_ctx`) follows the one of group dfrows' `Model/Overlap.lean`
    (dataframe `map_overlap`); it is restated here so that the array proofs do not depend on that file. -/
namespace Dask.ArrOverlap

/-- outputs for the cells `xs` when `pre` precedes them and `post` follows: each output may look at the
    `b` preceding cells, the cell itself and the `a` following cells -/
def win {α β : Type} (b a : Nat) (g : List α → α → List α → β) : List α → List α → List α → List β
  | _, [], _ => []
  | pre, x :: rest, post => g (lastN b pre) x ((rest ++ post).take a) :: win b a g (pre ++ [x]) rest post

/-- the function on a whole block / a whole axis -/
def winFn {α β : Type} (b a : Nat) (g : List α → α → List α → β) (xs : List α) : List β := win b a g [] xs []

theorem lastN_eq_rev {α : Type} (n : Nat) (l : List α) : lastN n l = (l.reverse.take n).reverse := by
  unfold lastN
  rw [List.take_reverse, List.reverse_reverse]

theorem lastN_lastN_append {α : Type} (n : Nat) (p l : List α) : lastN n (lastN n p ++ l) = lastN n (p ++ l) := by
  simp only [lastN_eq_rev, List.reverse_append, List.reverse_reverse, List.take_append, List.take_take]
  congr 2
  congr 1
  omega

theorem lastN_append_of_le {α : Type} (n : Nat) (p q : List α) (h : n ≤ q.length) : lastN n (p ++ q) = lastN n q := by
  simp only [lastN_eq_rev, List.reverse_append, List.take_append]
  have : n - q.length = 0 := by omega
  simp [this]

theorem win_length {α β : Type} (b a : Nat) (g : List α → α → List α → β) (pre xs post : List α) :
    (win b a g pre xs post).length = xs.length := by
  induction xs generalizing pre with
  | nil => simp [win]
  | cons x rest ih => simp [win, ih]

theorem win_append {α β : Type} (b a : Nat) (g : List α → α → List α → β) (pre xs ys post : List α) :
    win b a g pre (xs ++ ys) post = win b a g pre xs (ys ++ post) ++ win b a g (pre ++ xs) ys post := by
  induction xs generalizing pre with
  | nil => simp [win]
  | cons x rest ih =>
    simp only [List.cons_append, win, List.append_assoc]
    rw [ih (pre ++ [x])]
    simp [List.append_assoc]

theorem win_ctx {α β : Type} (b a : Nat) (g : List α → α → List α → β) (xs : List α) :
    ∀ (pre pre' post post' : List α),
      (∀ l, lastN b (pre ++ l) = lastN b (pre' ++ l)) →
      (∀ l, (l ++ post).take a = (l ++ post').take a) →
      win b a g pre xs post = win b a g pre' xs post' := by
  induction xs with
  | nil => intros; simp [win]
  | cons x rest ih =>
    intro pre pre' post post' hpre hpost
    simp only [win]
    have h1 : lastN b pre = lastN b pre' := by simpa using hpre []
    rw [h1, hpost rest]
    congr 1
    apply ih
    · intro l
      simpa [List.append_assoc] using hpre ([x] ++ l)
    · exact hpost

theorem take_append_take {α : Type} (a : Nat) (l n more : List α) (h : a ≤ n.length) :
    (l ++ (n ++ more)).take a = (l ++ n.take a).take a := by
  simp only [List.take_append, List.take_take]
  congr 1
  have h1 : a - l.length - n.length = 0 := by omega
  have h2 : min (a - l.length) a = a - l.length := by omega
  simp [h1, h2]

/-- per block: the cells of the block evaluated in the context of everything before and after it -/
def winBlocks {α β : Type} (b a : Nat) (g : List α → α → List α → β) : List α → List (List α) → List (List β)
  | _, [] => []
  | pre, blk :: rest => win b a g pre blk rest.flatten :: winBlocks b a g (pre ++ blk) rest

theorem winBlocks_flatten {α β : Type} (b a : Nat) (g : List α → α → List α → β) :
    ∀ (blocks : List (List α)) (pre : List α),
      (winBlocks b a g pre blocks).flatten = win b a g pre blocks.flatten [] := by
  intro blocks
  induction blocks with
  | nil => intro pre; simp [winBlocks, win]
  | cons blk rest ih =>
    intro pre
    simp only [winBlocks, List.flatten_cons, ih]
    rw [win_append]
    simp

/-- trimming the function of one extended block gives the block's cells in the context of the attached edges -/
theorem trim_win {α β : Type} (b a : Nat) (g : List α → α → List α → β) (left blk right : List α)
    (front : Nat) (back : Option Nat) (hf : left.length = front)
    (hb : match back with | none => right = [] | some dr => right.length = dr) :
    pySliceFrontBack front back (winFn b a g (left ++ blk ++ right)) = win b a g left blk right := by
  have hsplit : winFn b a g (left ++ blk ++ right) =
      win b a g [] left (blk ++ right) ++ win b a g left blk right ++ win b a g (left ++ blk) right [] := by
    simp only [winFn]
    rw [win_append, win_append]
    simp
  rw [hsplit]
  apply trim_one
  · rw [win_length]; exact hf
  · cases back with
    | none => simp only at hb ⊢; subst hb; simp [win]
    | some dr => simp only at hb ⊢; rw [win_length]; exact hb

theorem map_overlap_aux {α β : Type} (dl dr : Nat) (g : List α → α → List α → β) :
    ∀ (blocks : List (List α)) (prev : Option (List α)) (before : List α) (j nb : Nat),
      (∀ blk ∈ blocks, dl ≤ blk.length ∧ dr ≤ blk.length) →
      (match prev with
       | none => j = 0 ∧ before = []
       | some p => j ≠ 0 ∧ dl ≤ p.length ∧ ∃ earlier, before = earlier ++ p) →
      nb = j + blocks.length →
      trimBlocksFrom true dl dr nb j ((overlapBlocksAux dl dr prev blocks).map (winFn dl dr g))
        = winBlocks dl dr g before blocks := by
  intro blocks
  induction blocks with
  | nil => intro prev before j nb _ _ _; rfl
  | cons blk rest ih =>
    intro prev before j nb hbig hprev hnb
    have hblk := hbig blk (by simp)
    simp only [overlapBlocksAux, List.map_cons, trimBlocksFrom, winBlocks]
    congr 1
    · -- this block
      refine (trim_win dl dr g _ blk _ _ _ ?_ ?_).trans ?_
      · cases prev with
        | none => simp only at hprev; simp [hprev.1]
        | some p =>
          simp only at hprev
          rw [if_neg (by simp [hprev.1])]
          by_cases hd : dl = 0
          · subst hd; simp
          · simp only [ne_eq, hd, not_false_eq_true, if_true]
            exact lastN_length dl p hprev.2.1
      · cases rest with
        | nil =>
          have : j = nb - 1 := by simp only [List.length_cons, List.length_nil] at hnb; omega
          simp [this]
        | cons nxt more =>
          have hn := hbig nxt (by simp)
          have hj : ¬ (j = nb - 1) := by simp only [List.length_cons] at hnb; omega
          by_cases hd : dr = 0
          · subst hd; simp
          · simp [hj, hd, List.length_take]; omega
      -- replace the attached edges by the full context
      apply win_ctx
      · intro l
        cases prev with
        | none => simp only at hprev; rw [hprev.2]
        | some p =>
          simp only at hprev
          obtain ⟨_, hp, earlier, rfl⟩ := hprev
          by_cases hd : dl = 0
          · subst hd; simp [lastN]
          · simp only [ne_eq, hd, not_false_eq_true, if_true]
            rw [lastN_lastN_append, List.append_assoc, lastN_append_of_le dl earlier (p ++ l) (by simp; omega)]
      · intro l
        cases rest with
        | nil => simp
        | cons nxt more =>
          have hn := hbig nxt (by simp)
          by_cases hd : dr = 0
          · subst hd; simp
          · simp only [ne_eq, hd, not_false_eq_true, if_true, List.flatten_cons]
            rw [take_append_take dr l nxt more.flatten hn.2]
    · apply ih (some blk) (before ++ blk) (j + 1) nb
      · intro b hb; exact hbig b (by simp [hb])
      · exact ⟨by omega, hblk.1, before, rfl⟩
      · simp only [List.length_cons] at hnb; omega

/-- **map_overlap with boundary 'none' equals the function on the whole axis**, for every function that looks at
    most `dl` cells back and `dr` cells ahead, every chunking whose blocks are at least as long as the depth. -/
theorem map_overlap_local {α β : Type} (dl dr : Nat) (g : List α → α → List α → β) (blocks : List (List α))
    (hbig : ∀ blk ∈ blocks, dl ≤ blk.length ∧ dr ≤ blk.length) :
    (trimBlocks true dl dr ((overlapBlocks dl dr blocks).map (winFn dl dr g))).flatten
      = winFn dl dr g blocks.flatten := by
  unfold trimBlocks overlapBlocks
  have hlen : ∀ (bs : List (List α)) (prev : Option (List α)), (overlapBlocksAux dl dr prev bs).length = bs.length := by
    intro bs
    induction bs with
    | nil => intro prev; rfl
    | cons b bs ih => intro prev; simp [overlapBlocksAux, ih]
  rw [List.length_map, hlen]
  rw [map_overlap_aux dl dr g blocks none [] 0 blocks.length hbig ⟨rfl, rfl⟩ (by omega)]
  rw [winBlocks_flatten]
  rfl

end Dask.ArrOverlap
