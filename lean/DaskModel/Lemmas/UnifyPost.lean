import DaskModel.Model.UnifyPost
import DaskModel.Lemmas.Elemwise
import DaskModel.Lemmas.Meta
/-! Helper lemmas for `Props/C25xUnify.lean`: the total of `common_blockdim` in EVERY branch and without a positivity
    hypothesis (interior zero-length chunks included), and the list plumbing of `unify_chunks`. No Mathlib. -/
namespace Dask.UnifyPost
open Dask.Elemwise Dask.Meta

/-! ### `common_blockdim` keeps the total -/

theorem heads_eq_some (rs : List (List Nat)) : ∀ hs, heads rs = some hs →
    (∀ r ∈ rs, r ≠ []) ∧ hs = rs.map (fun c => c.headD 0) := by
  induction rs with
  | nil => intro hs h; simp [heads] at h; simp [h]
  | cons r t ih =>
    intro hs h
    cases r with
    | nil => simp [heads] at h
    | cons x xs =>
      simp only [heads] at h
      cases ht : heads t with
      | none => rw [ht] at h; simp at h
      | some hs' =>
        rw [ht] at h
        obtain ⟨h1, h2⟩ := ih hs' ht
        simp only [Option.map_some, Option.some.injEq] at h
        refine ⟨?_, ?_⟩
        · intro r hr
          rcases List.mem_cons.mp hr with hr | hr
          · rw [hr]; simp
          · exact h1 r hr
        · rw [← h, h2]; simp

/-- the loop invariant of the `while i < total` loop: every remaining list still sums to `total - i`; no positivity -/
theorem walk_sum (total : Nat) : ∀ (fuel i : Nat) (rs : List (List Nat)) (out : List Nat), rs ≠ [] →
    (∀ r ∈ rs, r.sum + i = total) → walk total fuel i rs = some out → out.sum + i = total := by
  intro fuel
  induction fuel with
  | zero => intro i rs out _ _ h; simp [walk] at h
  | succ fuel ih =>
    intro i rs out hne hinv h
    simp only [walk] at h
    by_cases hi : i < total
    · simp only [hi, if_true] at h
      cases hh : heads rs with
      | none => rw [hh] at h; simp at h
      | some hs =>
        rw [hh] at h
        simp only at h
        obtain ⟨hnonempty, hhs⟩ := heads_eq_some rs hs hh
        cases hw : walk total fuel (i + minNat hs) (rs.map (consume (minNat hs))) with
        | none => rw [hw] at h; simp at h
        | some out' =>
          rw [hw] at h
          simp only [Option.map_some, Option.some.injEq] at h
          have hinv' : ∀ r ∈ rs.map (consume (minNat hs)), r.sum + (i + minNat hs) = total := by
            intro r hr
            obtain ⟨r0, hr0, hre⟩ := List.mem_map.mp hr
            cases r0 with
            | nil => exact absurd rfl (hnonempty [] hr0)
            | cons x t =>
              have hx : x ∈ hs := by
                rw [hhs]; exact List.mem_map.mpr ⟨x :: t, hr0, rfl⟩
              have hle := minNat_le hs x hx
              have hs1 := consume_sum (minNat hs) x t hle
              have := hinv (x :: t) hr0
              rw [← hre]; omega
          have := ih (i + minNat hs) (rs.map (consume (minNat hs))) out' (by simpa using hne) hinv' hw
          rw [← h]; simp only [List.sum_cons]; omega
    · simp only [hi, if_false, Option.some.injEq] at h
      cases rs with
      | nil => exact absurd rfl hne
      | cons r t =>
        have := hinv r (by simp)
        rw [← h]; simp only [List.sum_nil]; omega

theorem maxByFirst_mem : ∀ (bds : List (List Nat)), bds ≠ [] → maxByFirst bds ∈ bds
  | [], h => absurd rfl h
  | [x], _ => by simp [maxByFirst]
  | x :: y :: r, _ => by
    have ih := maxByFirst_mem (y :: r) (by simp)
    simp only [maxByFirst]
    split
    · exact List.mem_cons_of_mem _ ih
    · simp

/-- **every branch** of `common_blockdim` (one non-trivial tuple, none, several of total zero, the walk): when all
    competing tuples are non-empty and have the total `D`, so has the result, and it is not the empty tuple -/
theorem commonBlockdim_sum (bds : List (List Nat)) (D : Nat) (c : List Nat) (hne : bds ≠ [])
    (hall : ∀ x ∈ bds, x ≠ [] ∧ x.sum = D) (h : commonBlockdim bds = some c) : c ≠ [] ∧ c.sum = D := by
  have hemp : bds.all List.isEmpty = false := by
    cases bds with
    | nil => exact absurd rfl hne
    | cons x r =>
      have := (hall x (by simp)).1
      cases x with
      | nil => exact absurd rfl this
      | cons _ _ => simp
  have hsub : ∀ x ∈ (bds.filter (fun d => d.length > 1)).eraseDups, x ∈ bds := fun x hx =>
    (List.mem_filter.mp (List.mem_eraseDups.mp hx)).1
  unfold commonBlockdim at h
  simp only [hemp, Bool.false_eq_true, if_false] at h
  generalize hnt : (bds.filter (fun d => d.length > 1)).eraseDups = nt at h hsub
  match nt, h, hsub with
  | [], h, _ =>
    simp only [Option.some.injEq] at h
    rw [← h]; exact hall _ (maxByFirst_mem bds hne)
  | [d], h, hsub =>
    simp only [Option.some.injEq] at h
    rw [← h]; exact hall d (hsub d (by simp))
  | d :: e :: r, h, hsub =>
    simp only at h
    have hd := hall d (hsub d (by simp))
    split at h
    · simp at h
    · rename_i hany
      split at h
      · rename_i hz
        simp only [Option.some.injEq] at h
        rw [← h, ← hd.2, hz]; simp
      · rename_i hz
        have hinv : ∀ x ∈ d :: e :: r, x.sum + 0 = d.sum := by
          intro x hx
          have := (hall x (hsub x hx)).2
          omega
        have hs := walk_sum d.sum _ 0 (d :: e :: r) c (by simp) hinv h
        refine ⟨?_, by omega⟩
        intro hc
        rw [hc] at hs; simp at hs; omega

/-! ### list plumbing -/

theorem eraseDups_eq_one (l : List Nat) (hne : l ≠ []) (h : ∀ x ∈ l, x = 1) : l.eraseDups = [1] := by
  cases l with
  | nil => exact absurd rfl hne
  | cons x t =>
    have hx : x = 1 := h x (by simp)
    subst hx
    rw [List.eraseDups_cons]
    have : t.filter (fun b => !b == 1) = [] := by
      apply List.filter_eq_nil_iff.mpr
      intro b hb
      simp [h b (by simp [hb])]
    rw [this]; rfl

/-- a duplicate-free list with two entries has two different entries -/
theorem eraseDups_two {α : Type} [BEq α] [LawfulBEq α] (l : List α) (h : l.eraseDups.length > 1) :
    ∃ a ∈ l.eraseDups, ∃ b ∈ l.eraseDups, a ≠ b := by
  cases l with
  | nil => simp at h
  | cons a t =>
    rw [List.eraseDups_cons] at h ⊢
    cases hr : (t.filter (fun b => !b == a)).eraseDups with
    | nil => rw [hr] at h; simp at h
    | cons b r =>
      have hb : b ∈ (t.filter (fun b => !b == a)).eraseDups := by rw [hr]; simp
      have hb2 := (List.mem_filter.mp (List.mem_eraseDups.mp hb)).2
      refine ⟨a, by simp, b, by simp, ?_⟩
      intro hab
      subst hab
      simp at hb2

theorem optAllPairs_lookup {α : Type} (f : Sym → Option α) (l : List Sym) : ∀ cs,
    optAllPairs (l.map fun s => (s, f s)) = some cs → ∀ s ∈ l, ∃ c, f s = some c ∧ lookupSym cs s = some c := by
  induction l with
  | nil => intro cs _ s hs; simp at hs
  | cons k r ih =>
    intro cs h s hs
    simp only [List.map_cons] at h
    cases hk : f k with
    | none => rw [hk] at h; simp [optAllPairs] at h
    | some a =>
      rw [hk] at h
      simp only [optAllPairs] at h
      cases hr : optAllPairs (r.map fun s => (s, f s)) with
      | none => rw [hr] at h; simp at h
      | some cs' =>
        rw [hr] at h
        simp only [Option.map_some, Option.some.injEq] at h
        subst h
        by_cases hks : k = s
        · subst hks
          exact ⟨a, hk, by simp [lookupSym]⟩
        · have hs' : s ∈ r := by
            rcases List.mem_cons.mp hs with e | e
            · exact absurd e.symm hks
            · exact e
          obtain ⟨c, h1, h2⟩ := ih cs' hr s hs'
          exact ⟨c, h1, by simp [lookupSym, hks, h2]⟩

/-- a successful `optAll` over a map pairs every input with its output -/
theorem optAll_zip {α β : Type} (f : α → Option β) (l : List α) : ∀ r, optAll (l.map f) = some r →
    (∀ p ∈ l.zip r, f p.1 = some p.2) ∧ ∀ a ∈ l, ∃ b, (a, b) ∈ l.zip r := by
  induction l with
  | nil => intro r _; simp
  | cons a t ih =>
    intro r h
    simp only [List.map_cons] at h
    cases hfa : f a with
    | none => rw [hfa] at h; simp [optAll] at h
    | some y =>
      rw [hfa] at h
      simp only [optAll] at h
      cases hr : optAll (t.map f) with
      | none => rw [hr] at h; simp at h
      | some r' =>
        rw [hr] at h
        simp only [Option.map_some, Option.some.injEq] at h
        subst h
        obtain ⟨h1, h2⟩ := ih r' hr
        refine ⟨?_, ?_⟩
        · intro p hp
          simp only [List.zip_cons_cons, List.mem_cons] at hp
          rcases hp with hp | hp
          · rw [hp]; exact hfa
          · exact h1 p hp
        · intro x hx
          rcases List.mem_cons.mp hx with hx | hx
          · exact ⟨y, by simp [hx]⟩
          · obtain ⟨b, hb⟩ := h2 x hx
            exact ⟨b, by simp [hb]⟩

/-- per axis: the new chunks of an argument are produced by the rule from ITS old chunks along the same symbol; with
    distinct symbols the first entry found for a symbol is the entry of that axis -/
theorem optAll_axes {β γ : Type} (f : Sym × β → Option γ) (xs : List Sym) : ∀ (ys : List β) (n : List γ),
    optAll ((xs.zip ys).map f) = some n →
    (∀ q ∈ xs.zip n, ∃ y, (q.1, y) ∈ xs.zip ys ∧ f (q.1, y) = some q.2) ∧
    (nodupB xs = true → ∀ s y, (s, y) ∈ xs.zip ys →
      ∃ nn, (xs.zip n).find? (fun q => q.1 == s) = some (s, nn) ∧ f (s, y) = some nn) := by
  induction xs with
  | nil => intro ys n _; simp
  | cons x xt ih =>
    intro ys n h
    cases ys with
    | nil =>
      simp only [List.zip_nil_right, List.map_nil, optAll, Option.some.injEq] at h
      subst h; simp
    | cons y0 yt =>
      simp only [List.zip_cons_cons, List.map_cons] at h
      cases hf : f (x, y0) with
      | none => rw [hf] at h; simp [optAll] at h
      | some n0 =>
        rw [hf] at h
        simp only [optAll] at h
        cases hr : optAll ((xt.zip yt).map f) with
        | none => rw [hr] at h; simp at h
        | some nt =>
          rw [hr] at h
          simp only [Option.map_some, Option.some.injEq] at h
          subst h
          obtain ⟨h1, h2⟩ := ih yt nt hr
          refine ⟨?_, ?_⟩
          · intro q hq
            simp only [List.zip_cons_cons, List.mem_cons] at hq
            rcases hq with hq | hq
            · subst hq
              exact ⟨y0, by simp, hf⟩
            · obtain ⟨y, hy1, hy2⟩ := h1 q hq
              exact ⟨y, by simp [hy1], hy2⟩
          · intro hnd s y hsy
            simp only [nodupB, Bool.and_eq_true, Bool.not_eq_true', ] at hnd
            simp only [List.zip_cons_cons, List.mem_cons] at hsy
            rcases hsy with hsy | hsy
            · have e1 : s = x := by injection hsy
              have e2 : y = y0 := by injection hsy
              subst e1; subst e2
              exact ⟨n0, by simp, hf⟩
            · have hsx : s ∈ xt := (List.of_mem_zip hsy).1
              have hne : (x == s) = false := by
                cases hxs : (x == s) with
                | false => rfl
                | true =>
                  have : x = s := by simpa using hxs
                  subst this
                  have hc : xt.contains x = true := List.contains_iff_mem.mpr hsx
                  rw [hc] at hnd; simp at hnd
              obtain ⟨nn, hn1, hn2⟩ := h2 hnd.2 s y hsy
              exact ⟨nn, by simp [hne, hn1], hn2⟩

/-! ### the per-axis rule of `unify_chunks` -/

/-- `chunkss[j] if a.shape[n] > 1 or sum(chunkss[j]) == a.shape[n] else a.shape[n]`, then `rechunk`'s validation -/
def axisRule (cs : List (Sym × List Nat)) (p : Sym × List Nat) : Option (List Nat) :=
  (lookupSym cs p.1).bind fun c =>
    if p.2.sum > 1 || c.sum == p.2.sum then (if c.sum = p.2.sum then some c else none) else some [p.2.sum]

theorem newChunks_eq (cs : List (Sym × List Nat)) (a : UArg) (h : a.chunks.any List.isEmpty = false) :
    newChunks cs a = optAll ((a.ind.zip a.chunks).map (axisRule cs)) := by
  simp only [newChunks, h, Bool.false_eq_true, if_false]
  rfl

theorem axisRule_post (cs : List (Sym × List Nat)) (s : Sym) (o c n : List Nat) (hl : lookupSym cs s = some c)
    (hlen : o.sum = c.sum ∨ o.sum = 1) (h : axisRule cs (s, o) = some n) :
    (n = c ∨ n = [1]) ∧ (o.sum = c.sum → n = c) := by
  simp only [axisRule, hl, Option.bind_some] at h
  by_cases he : c.sum = o.sum
  · simp only [he, beq_self_eq_true, Bool.or_true, if_true, Option.some.injEq] at h
    exact ⟨Or.inl h.symm, fun _ => h.symm⟩
  · have h1 : o.sum = 1 := by
      rcases hlen with e | e
      · exact absurd e.symm he
      · exact e
    have hb : (c.sum == o.sum) = false := by simpa using he
    simp only [h1] at h hb he
    simp only [hb, Bool.or_false, if_neg he] at h
    simp at h
    exact ⟨Or.inr h.symm, fun e => absurd (by omega) he⟩

/-! ### what `common_blockdim` is given for one symbol -/

theorem pairs_mem (args : List UArg) (p : Sym × List Nat) :
    p ∈ pairs args ↔ ∃ a ∈ args, p ∈ a.ind.zip a.chunks := by
  simp [pairs, List.mem_flatMap]

/-- the entry of `blockdim_dict` for one axis -/
def effOf (ps : List (Sym × List Nat)) (p : Sym × List Nat) : Sym × List Nat :=
  if p.2.sum == 1 && lengthsOf ps p.1 != [1] then (p.1, [1]) else p

theorem effPairs_eq (args : List UArg) : effPairs args = (pairs args).map (effOf (pairs args)) := rfl

theorem effOf_fst (ps : List (Sym × List Nat)) (p : Sym × List Nat) : (effOf ps p).1 = p.1 := by
  unfold effOf; split <;> rfl

theorem mem_vs (args : List UArg) (s : Sym) (x : List Nat) :
    x ∈ (((effPairs args).filter (fun p => p.1 == s)).map (·.2)).eraseDups ↔
      ∃ o, (s, o) ∈ pairs args ∧ (effOf (pairs args) (s, o)).2 = x := by
  rw [List.mem_eraseDups, effPairs_eq]
  simp only [List.mem_map, List.mem_filter]
  constructor
  · rintro ⟨e, ⟨⟨p, hp, rfl⟩, hs⟩, rfl⟩
    obtain ⟨p1, p2⟩ := p
    have : p1 = s := by simpa [effOf_fst] using hs
    subst this
    exact ⟨p2, hp, rfl⟩
  · rintro ⟨o, ho, rfl⟩
    exact ⟨effOf (pairs args) (s, o), ⟨⟨(s, o), ho, rfl⟩, by simp [effOf_fst]⟩, rfl⟩

theorem mem_lengthsOf (ps : List (Sym × List Nat)) (s : Sym) (n : Nat) :
    n ∈ lengthsOf ps s ↔ ∃ o, (s, o) ∈ ps ∧ o.sum = n := by
  unfold lengthsOf
  rw [List.mem_eraseDups]
  simp only [List.mem_map, List.mem_filter]
  constructor
  · rintro ⟨p, ⟨hp, hs⟩, rfl⟩
    obtain ⟨p1, p2⟩ := p
    have : p1 = s := by simpa using hs
    subst this
    exact ⟨p2, hp, rfl⟩
  · rintro ⟨o, ho, rfl⟩
    exact ⟨(s, o), ⟨ho, by simp⟩, rfl⟩

/-- the candidates handed to `common_blockdim` for a symbol: a non-empty list of non-empty tuples with ONE total `D`,
    which is the length of some input along the symbol, every other input having length `D` or 1 -/
theorem candidates_total (args : List UArg) (hok : ∀ a ∈ args, argOK a = true) (hb : bcastOK args = true)
    (s : Sym) (hs : s ∈ syms args) :
    ∃ D, candidates (effPairs args) s ≠ [] ∧ (∀ x ∈ candidates (effPairs args) s, x ≠ [] ∧ x.sum = D) ∧
      (∀ o, (s, o) ∈ pairs args → o.sum = D ∨ o.sum = 1) ∧ ∃ o, (s, o) ∈ pairs args ∧ o.sum = D := by
  -- every chunk tuple is non-empty
  have hne : ∀ p ∈ pairs args, p.2 ≠ [] := by
    intro p hp
    obtain ⟨a, ha, hpa⟩ := (pairs_mem args p).mp hp
    have h1 := hok a ha
    simp only [argOK, Bool.and_eq_true, List.all_eq_true] at h1
    have := h1.1.2 p.2 (List.of_mem_zip hpa).2
    intro e; rw [e] at this; simp at this
  -- the symbol occurs
  obtain ⟨o0, ho0⟩ : ∃ o, (s, o) ∈ pairs args := by
    have h1 : s ∈ (effPairs args).map (·.1) := List.mem_eraseDups.mp hs
    rw [effPairs_eq] at h1
    simp only [List.map_map, List.mem_map, Function.comp] at h1
    obtain ⟨p, hp, hps⟩ := h1
    rw [effOf_fst] at hps
    obtain ⟨p1, p2⟩ := p
    simp only at hps; subst hps
    exact ⟨p2, hp⟩
  -- broadcasting compatibility
  have hbc : ∀ o o', (s, o) ∈ pairs args → (s, o') ∈ pairs args → o.sum = o'.sum ∨ o.sum = 1 ∨ o'.sum = 1 := by
    intro o o' h1 h2
    simp only [bcastOK, List.all_eq_true] at hb
    have := hb (s, o) h1 (s, o') h2
    simpa [or_assoc] using this
  have hcand : ∀ x, x ∈ candidates (effPairs args) s →
      x ∈ (((effPairs args).filter (fun p => p.1 == s)).map (·.2)).eraseDups := by
    intro x hx
    unfold candidates at hx
    simp only at hx
    split at hx
    · exact (List.mem_filter.mp hx).1
    · exact hx
  by_cases hall1 : ∀ o, (s, o) ∈ pairs args → o.sum = 1
  · -- all inputs have length 1 along s: nothing is broadcast
    have hl : lengthsOf (pairs args) s = [1] := by
      unfold lengthsOf
      apply eraseDups_eq_one
      · intro e
        have : o0.sum ∈ ((pairs args).filter (fun p => p.1 == s)).map (·.2.sum) :=
          List.mem_map.mpr ⟨(s, o0), List.mem_filter.mpr ⟨ho0, by simp⟩, rfl⟩
        rw [e] at this; simp at this
      · intro x hx
        obtain ⟨p, hp, rfl⟩ := List.mem_map.mp hx
        obtain ⟨hp1, hp2⟩ := List.mem_filter.mp hp
        obtain ⟨p1, p2⟩ := p
        have : p1 = s := by simpa using hp2
        subst this
        exact hall1 p2 hp1
    have heff : ∀ o, (s, o) ∈ pairs args → effOf (pairs args) (s, o) = (s, o) := by
      intro o _
      simp [effOf, hl]
    have hvs : ∀ x ∈ (((effPairs args).filter (fun p => p.1 == s)).map (·.2)).eraseDups, x ≠ [] ∧ x.sum = 1 := by
      intro x hx
      obtain ⟨o, ho, hx⟩ := (mem_vs args s x).mp hx
      rw [heff o ho] at hx
      simp only at hx; subst hx
      exact ⟨hne (s, o) ho, hall1 o ho⟩
    refine ⟨1, ?_, fun x hx => hvs x (hcand x hx), fun o ho => Or.inl (hall1 o ho), o0, ho0, hall1 o0 ho0⟩
    unfold candidates
    simp only
    split
    · rename_i hlen
      obtain ⟨a, ha, b, hb', hab⟩ := eraseDups_two _ hlen
      by_cases h1 : a = [1]
      · have : b ≠ [1] := fun e => hab (by rw [h1, e])
        intro e
        have : b ∈ List.filter (fun c => c != [1]) (((effPairs args).filter (fun p => p.1 == s)).map (·.2)).eraseDups :=
          List.mem_filter.mpr ⟨hb', by simpa using this⟩
        rw [e] at this; simp at this
      · intro e
        have : a ∈ List.filter (fun c => c != [1]) (((effPairs args).filter (fun p => p.1 == s)).map (·.2)).eraseDups :=
          List.mem_filter.mpr ⟨ha, by simpa using h1⟩
        rw [e] at this; simp at this
    · intro e
      have : o0 ∈ (((effPairs args).filter (fun p => p.1 == s)).map (·.2)).eraseDups :=
        (mem_vs args s o0).mpr ⟨o0, ho0, by rw [heff o0 ho0]⟩
      rw [e] at this; simp at this
  · -- some input has a length D ≠ 1 along s
    have hex : ∃ o1, (s, o1) ∈ pairs args ∧ o1.sum ≠ 1 := by
      apply Classical.byContradiction
      intro hcon
      apply hall1
      intro o ho
      apply Classical.byContradiction
      intro h1
      exact hcon ⟨o, ho, h1⟩
    obtain ⟨o1, ho1, hD⟩ := hex
    have hl : lengthsOf (pairs args) s ≠ [1] := by
      intro e
      have : o1.sum ∈ lengthsOf (pairs args) s := (mem_lengthsOf _ s _).mpr ⟨o1, ho1, rfl⟩
      rw [e] at this
      simp at this
      exact hD this
    have hlb : (lengthsOf (pairs args) s != [1]) = true := by simpa using hl
    have hlen : ∀ o, (s, o) ∈ pairs args → o.sum = o1.sum ∨ o.sum = 1 := by
      intro o ho
      rcases hbc o o1 ho ho1 with e | e | e
      · exact Or.inl e
      · exact Or.inr e
      · exact absurd e hD
    have heff : ∀ o, (s, o) ∈ pairs args →
        (effOf (pairs args) (s, o)).2 = [1] ∨ ((effOf (pairs args) (s, o)).2 = o ∧ o.sum = o1.sum ∧ o ≠ [1]) := by
      intro o ho
      by_cases h1 : o.sum = 1
      · left; simp [effOf, h1, hlb]
      · right
        have hb1 : (o.sum == 1) = false := by simpa using h1
        refine ⟨by simp [effOf, hb1], ?_, ?_⟩
        · rcases hlen o ho with e | e
          · exact e
          · exact absurd e h1
        · intro e; rw [e] at h1; simp at h1
    have ho1vs : o1 ∈ (((effPairs args).filter (fun p => p.1 == s)).map (·.2)).eraseDups := by
      refine (mem_vs args s o1).mpr ⟨o1, ho1, ?_⟩
      have hb1 : (o1.sum == 1) = false := by simpa using hD
      simp [effOf, hb1]
    have ho1ne : o1 ≠ [1] := by intro e; rw [e] at hD; simp at hD
    refine ⟨o1.sum, ?_, ?_, hlen, o1, ho1, rfl⟩
    · unfold candidates
      simp only
      split
      · intro e
        have : o1 ∈ List.filter (fun c => c != [1]) (((effPairs args).filter (fun p => p.1 == s)).map (·.2)).eraseDups :=
          List.mem_filter.mpr ⟨ho1vs, by simpa using ho1ne⟩
        rw [e] at this; simp at this
      · intro e
        rw [e] at ho1vs; simp at ho1vs
    · intro x hx
      unfold candidates at hx
      simp only at hx
      split at hx
      · obtain ⟨hx1, hx2⟩ := List.mem_filter.mp hx
        obtain ⟨o, ho, hxo⟩ := (mem_vs args s x).mp hx1
        rcases heff o ho with e | ⟨e1, e2, _⟩
        · rw [e] at hxo; subst hxo; simp at hx2
        · rw [e1] at hxo; subst hxo
          exact ⟨hne (s, o) ho, e2⟩
      · rename_i hlen1
        -- a single distinct entry: it is o1
        generalize hvs : (((effPairs args).filter (fun p => p.1 == s)).map (·.2)).eraseDups = vs at hx hlen1 ho1vs
        match vs, hx, hlen1, ho1vs with
        | [v], hx, _, ho1vs =>
          have e1 : o1 = v := by simpa using ho1vs
          have e2 : x = v := by simpa using hx
          rw [e2, ← e1]
          exact ⟨hne (s, o1) ho1, rfl⟩
        | _ :: _ :: _, _, hlen1, _ => simp at hlen1

/-! ### elementwise index strings: what `broadcast_shapes` accepts satisfies the hypotheses -/

theorem nodupB_iff (l : List Nat) : nodupB l = true ↔ l.Nodup := by
  induction l with
  | nil => simp [nodupB]
  | cons x r ih => simp [nodupB, ih, List.nodup_cons]

theorem nodupB_revRange (n : Nat) : nodupB (revRange n) = true := by
  rw [nodupB_iff]; unfold revRange
  have h := List.nodup_range (n := n)
  unfold List.Nodup at h ⊢
  rw [List.pairwise_reverse]
  exact h.imp (fun hab => fun e => hab e.symm)

theorem getElem?_revRange (n i s : Nat) : (revRange n)[i]? = some s ↔ i < n ∧ s = n - 1 - i := by
  unfold revRange
  by_cases h : i < n
  · rw [List.getElem?_reverse (by simpa using h)]
    simp only [List.length_range]
    rw [List.getElem?_range (by omega)]
    simp only [Option.some.injEq]
    omega
  · rw [List.getElem?_eq_none (by simpa using h)]
    simp [h]

theorem mem_revzip {α : Type} (l : List α) (s : Nat) (o : α) :
    (s, o) ∈ (revRange l.length).zip l ↔ l.reverse[s]? = some o := by
  rw [List.mem_iff_getElem?]
  constructor
  · rintro ⟨i, hi⟩
    obtain ⟨h1, h2⟩ := List.getElem?_zip_eq_some.mp hi
    obtain ⟨hlt, hs⟩ := (getElem?_revRange _ _ _).mp h1
    rw [List.getElem?_reverse (by omega)]
    have : l.length - 1 - s = i := by omega
    rw [this]; exact h2
  · intro h
    have hs : s < l.length := by
      have := (List.getElem?_eq_some_iff.mp h).1
      simpa using this
    rw [List.getElem?_reverse hs] at h
    refine ⟨l.length - 1 - s, List.getElem?_zip_eq_some.mpr ⟨?_, h⟩⟩
    exact (getElem?_revRange _ _ _).mpr ⟨by omega, by omega⟩

theorem maxInt_two (x y : Int) : maxInt [x, y] = if y < x then x else y := by simp [maxInt]

theorem bdim_two (a b : Nat) (d : Int) (h : bdim [(a : Int), (b : Int)] = some d) : a = b ∨ a = 1 ∨ b = 1 := by
  unfold bdim at h
  rw [maxInt_two] at h
  by_cases hc : [(a : Int), (b : Int)].contains 0 = true
  · simp only [hc, if_true] at h
    split at h
    · simp at h
    · rename_i hany
      simp at hany hc
      omega
  · have hcf : [(a : Int), (b : Int)].contains 0 = false := by simpa using hc
    rw [hcf] at h
    simp only [Bool.false_eq_true, if_false] at h
    by_cases hlt : (b : Int) < a
    · simp only [hlt, if_true] at h
      split at h
      · simp at h
      · rename_i hany
        simp at hany hcf
        omega
    · simp only [hlt, if_false] at h
      split at h
      · simp at h
      · rename_i hany
        simp at hany hcf
        omega

theorem column_two (sa sb : List Nat) (i : Nat) :
    column [sa, sb] i = [((sa.reverse[i]?).map Int.ofNat).getD (-1), ((sb.reverse[i]?).map Int.ofNat).getD (-1)] := rfl

theorem shapeOf_reverse_get (c : Chunks) (s : Nat) (o : List Nat) (h : c.reverse[s]? = some o) :
    (shapeOf c).reverse[s]? = some o.sum := by
  unfold shapeOf
  rw [← List.map_reverse, List.getElem?_map, h]; rfl

theorem pairs_ewArgs (ca cb : Chunks) (p : Sym × List Nat) :
    p ∈ pairs (ewArgs ca cb) ↔ p ∈ (revRange ca.length).zip ca ∨ p ∈ (revRange cb.length).zip cb := by
  simp [pairs, ewArgs]

/-- what `broadcast_shapes` accepts is broadcast-compatible symbol by symbol -/
theorem bcastOK_ewArgs (ca cb : Chunks) (sh : List Nat) (h : broadcastShapes [shapeOf ca, shapeOf cb] = some sh) :
    bcastOK (ewArgs ca cb) = true := by
  -- every column is accepted by `bdim`
  have hcol : ∀ i, i < maxLen [shapeOf ca, shapeOf cb] → ∃ d, bdim (column [shapeOf ca, shapeOf cb] i) = some d := by
    simp only [broadcastShapes] at h
    cases ho : optAll ((List.range (maxLen [shapeOf ca, shapeOf cb])).map fun i => bdim (column [shapeOf ca, shapeOf cb] i)) with
    | none => rw [ho] at h; simp at h
    | some l =>
      intro i hi
      exact optAll_some_mem _ _ l ho i (List.mem_range.mpr hi)
  have hml : maxLen [shapeOf ca, shapeOf cb] = max ca.length cb.length := by
    simp [maxLen, shapeOf]
  have cross : ∀ (s : Nat) (o o' : List Nat), ca.reverse[s]? = some o → cb.reverse[s]? = some o' →
      o.sum = o'.sum ∨ o.sum = 1 ∨ o'.sum = 1 := by
    intro s o o' h1 h2
    have hs : s < ca.length := by
      have := (List.getElem?_eq_some_iff.mp h1).1
      simpa using this
    obtain ⟨d, hd⟩ := hcol s (by rw [hml]; omega)
    rw [column_two, shapeOf_reverse_get ca s o h1, shapeOf_reverse_get cb s o' h2] at hd
    exact bdim_two o.sum o'.sum d hd
  unfold bcastOK
  rw [List.all_eq_true]
  intro p hp
  rw [List.all_eq_true]
  intro q hq
  obtain ⟨s, o⟩ := p
  obtain ⟨t, o'⟩ := q
  by_cases hst : s = t
  · subst hst
    have : o.sum = o'.sum ∨ o.sum = 1 ∨ o'.sum = 1 := by
      rcases (pairs_ewArgs ca cb _).mp hp with h1 | h1 <;> rcases (pairs_ewArgs ca cb _).mp hq with h2 | h2
      · have e1 := (mem_revzip ca s o).mp h1
        have e2 := (mem_revzip ca s o').mp h2
        rw [e1] at e2
        left; simp only [Option.some.injEq] at e2; rw [e2]
      · exact cross s o o' ((mem_revzip ca s o).mp h1) ((mem_revzip cb s o').mp h2)
      · rcases cross s o' o ((mem_revzip ca s o').mp h2) ((mem_revzip cb s o).mp h1) with e | e | e
        · exact Or.inl e.symm
        · exact Or.inr (Or.inr e)
        · exact Or.inr (Or.inl e)
      · have e1 := (mem_revzip cb s o).mp h1
        have e2 := (mem_revzip cb s o').mp h2
        rw [e1] at e2
        left; simp only [Option.some.injEq] at e2; rw [e2]
    rcases this with e | e | e <;> simp [e]
  · simp [hst]

theorem argOK_ew (c : Chunks) (hc : ∀ x ∈ c, x ≠ []) : argOK ⟨revRange c.length, c⟩ = true := by
  simp only [argOK, Bool.and_eq_true, nodupB_revRange, and_true]
  refine ⟨by simp [revRange], List.all_eq_true.mpr ?_⟩
  intro x hx
  have := hc x hx
  cases x with
  | nil => exact absurd rfl this
  | cons _ _ => rfl

theorem out_syms (ca cb : Chunks) (s : Nat) (hs : s ∈ revRange (max ca.length cb.length)) : s ∈ syms (ewArgs ca cb) := by
  have hlt : s < max ca.length cb.length := by
    unfold revRange at hs
    simpa using hs
  have hex : ∃ o, (s, o) ∈ pairs (ewArgs ca cb) := by
    by_cases h : s < ca.length
    · have : ca.reverse[s]? = some (ca.reverse[s]'(by simpa using h)) := List.getElem?_eq_getElem _
      exact ⟨_, (pairs_ewArgs ca cb _).mpr (Or.inl ((mem_revzip ca s _).mpr this))⟩
    · have h' : s < cb.length := by
        omega
      have : cb.reverse[s]? = some (cb.reverse[s]'(by simpa using h')) := List.getElem?_eq_getElem _
      exact ⟨_, (pairs_ewArgs ca cb _).mpr (Or.inr ((mem_revzip cb s _).mpr this))⟩
  obtain ⟨o, ho⟩ := hex
  unfold syms
  rw [List.mem_eraseDups, effPairs_eq]
  exact List.mem_map.mpr ⟨effOf _ (s, o), List.mem_map.mpr ⟨(s, o), ho, rfl⟩, effOf_fst _ _⟩

end Dask.UnifyPost
