import DaskModel.Model.TaskTerm
/-! Lemmas about `convert` / `evalNode` / `evalObj` (helper file for Props/C08, C09, C16). -/
namespace Dask.TaskTerm

/-! ### well-formed Python dicts: hashable, pairwise distinct keys -/

def dictKeysOk : List (Obj × Obj) → List Obj → Bool
  | [], _ => true
  | (k, _) :: rest, seen => k.hashable && !seen.contains k && dictKeysOk rest (k :: seen)

mutual
def Obj.wf : Obj → Bool
  | .tuple xs | .list xs => wfList xs
  | .dict kvs => dictKeysOk kvs [] && wfVals kvs
  | .quoted v => v.wf
  | .app _ a k => wfList a && wfVals k
  | _ => true
def wfList : List Obj → Bool
  | [] => true
  | x :: xs => x.wf && wfList xs
def wfVals : List (Obj × Obj) → Bool
  | [] => true
  | (_, v) :: rest => v.wf && wfVals rest
end

/-! ### plain objects (evaluate to themselves) and clean objects (no element of a non-task, non-key tuple that would have to be evaluated) -/

mutual
def plain (keys : List Obj) : Obj → Bool
  | .tuple (h :: args) => !h.callable && !inKeys keys (.tuple (h :: args)) && plain keys h && plainList keys args
  | .tuple [] => !inKeys keys (.tuple [])
  | .list xs => plainList keys xs
  | .dict kvs => plainVals keys kvs
  | .int n => !inKeys keys (.int n)
  | .str s => !inKeys keys (.str s)
  | _ => true
def plainList (keys : List Obj) : List Obj → Bool
  | [] => true
  | x :: xs => plain keys x && plainList keys xs
def plainVals (keys : List Obj) : List (Obj × Obj) → Bool
  | [] => true
  | (_, v) :: rest => plain keys v && plainVals keys rest
end

mutual
def clean (keys : List Obj) : Obj → Bool
  | .tuple (h :: args) =>
    if h.callable then cleanList keys args
    else if inKeys keys (.tuple (h :: args)) then true
    else plain keys h && plainList keys args
  | .list xs => cleanList keys xs
  | .dict kvs => cleanVals keys kvs
  | _ => true
def cleanList (keys : List Obj) : List Obj → Bool
  | [] => true
  | x :: xs => clean keys x && cleanList keys xs
def cleanVals (keys : List Obj) : List (Obj × Obj) → Bool
  | [] => true
  | (_, v) :: rest => clean keys v && cleanVals keys rest
end

/-! ### basic facts -/

theorem evalNodes_raw (env : Obj → Option Obj) : ∀ xs : List Obj, evalNodes env (xs.map Node.raw) = some xs
  | [] => by simp [evalNodes]
  | x :: xs => by simp [evalNodes, evalNode, evalNodes_raw env xs]

theorem any_isGraphNode_raw : ∀ xs : List Obj, (xs.map Node.raw).any Node.isGraphNode = false
  | [] => rfl
  | x :: xs => by simp [Node.isGraphNode]

theorem any_isGraphNode_rawItems : ∀ kvs : List (Obj × Obj), (rawItems kvs).any Node.isGraphNode = false
  | [] => rfl
  | (k, v) :: rest => by simp [rawItems, Node.isGraphNode, any_isGraphNode_rawItems rest]

mutual
theorem convert_plain (keys : List Obj) : ∀ o, plain keys o = true → convert keys o = .raw o
  | .tuple (h :: args), hp => by
    simp only [plain, Bool.and_eq_true, Bool.not_eq_true'] at hp
    obtain ⟨⟨⟨h1, h2⟩, h3⟩, h4⟩ := hp
    have e1 := convert_plain keys h h3
    have e2 := convertList_plain keys args h4
    simp [convert, h1, h2, convertList, e1, e2, Node.isGraphNode]
  | .tuple [], hp => by
    simp only [plain, Bool.not_eq_true'] at hp
    simp [convert, hp]
  | .list xs, hp => by
    simp only [plain] at hp
    simp [convert, convertList_plain keys xs hp, Node.isGraphNode]
  | .dict kvs, hp => by
    simp only [plain] at hp
    simp [convert, convertVals_plain keys kvs hp, any_isGraphNode_rawItems]
  | .int n, hp => by
    simp only [plain, Bool.not_eq_true'] at hp
    simp [convert, hp]
  | .str s, hp => by
    simp only [plain, Bool.not_eq_true'] at hp
    simp [convert, hp]
  | .none, _ => by simp [convert]
  | .fn _, _ => by simp [convert]
  | .quoted _, _ => by simp [convert]
  | .app _ _ _, _ => by simp [convert]
theorem convertList_plain (keys : List Obj) : ∀ xs, plainList keys xs = true → convertList keys xs = xs.map .raw
  | [], _ => by simp [convertList]
  | x :: xs, hp => by
    simp only [plainList, Bool.and_eq_true] at hp
    simp [convertList, convert_plain keys x hp.1, convertList_plain keys xs hp.2]
theorem convertVals_plain (keys : List Obj) : ∀ kvs, plainVals keys kvs = true → convertVals keys kvs = rawItems kvs
  | [], _ => by simp [convertVals, rawItems]
  | (k, v) :: rest, hp => by
    simp only [plainVals, Bool.and_eq_true] at hp
    simp [convertVals, rawItems, convert_plain keys v hp.1, convertVals_plain keys rest hp.2]
end

mutual
theorem evalObj_plain (keys : List Obj) (env : Obj → Option Obj) : ∀ o, plain keys o = true → evalObj keys env o = some o
  | .tuple (h :: args), hp => by
    simp only [plain, Bool.and_eq_true, Bool.not_eq_true'] at hp
    simp [evalObj, hp.1.1.1, hp.1.1.2]
  | .tuple [], hp => by
    simp only [plain, Bool.not_eq_true'] at hp
    simp [evalObj, hp]
  | .list xs, hp => by
    simp only [plain] at hp
    simp [evalObj, evalObjs_plain keys env xs hp]
  | .dict kvs, hp => by
    simp only [plain] at hp
    simp [evalObj, evalVals_plain keys env kvs hp]
  | .int n, hp => by
    simp only [plain, Bool.not_eq_true'] at hp
    simp [evalObj, hp]
  | .str s, hp => by
    simp only [plain, Bool.not_eq_true'] at hp
    simp [evalObj, hp]
  | .none, _ => by simp [evalObj]
  | .fn _, _ => by simp [evalObj]
  | .quoted _, _ => by simp [evalObj]
  | .app _ _ _, _ => by simp [evalObj]
theorem evalObjs_plain (keys : List Obj) (env : Obj → Option Obj) : ∀ xs, plainList keys xs = true →
    evalObjs keys env xs = some xs
  | [], _ => by simp [evalObjs]
  | x :: xs, hp => by
    simp only [plainList, Bool.and_eq_true] at hp
    simp [evalObjs, evalObj_plain keys env x hp.1, evalObjs_plain keys env xs hp.2]
theorem evalVals_plain (keys : List Obj) (env : Obj → Option Obj) : ∀ kvs, plainVals keys kvs = true →
    evalVals keys env kvs = some kvs
  | [], _ => by simp [evalVals]
  | (k, v) :: rest, hp => by
    simp only [plainVals, Bool.and_eq_true] at hp
    simp [evalVals, evalObj_plain keys env v hp.1, evalVals_plain keys env rest hp.2]
end

/-- `convert` answers `raw` only with the object itself, and never `ref` -/
theorem convert_not_graphNode (keys : List Obj) (o : Obj) (h : (convert keys o).isGraphNode = false) :
    convert keys o = .raw o := by
  cases o with
  | tuple xs =>
    cases xs with
    | nil =>
      simp only [convert] at h ⊢
      split at h <;> simp_all [Node.isGraphNode]
    | cons a as =>
      simp only [convert] at h ⊢
      split at h
      · simp [Node.isGraphNode] at h
      · split at h
        · simp [Node.isGraphNode] at h
        · split at h
          · simp [Node.isGraphNode] at h
          · rename_i h1 h2 h3
            simp [h1, h2, h3]
  | list xs =>
    simp only [convert] at h ⊢
    split at h
    · simp [Node.isGraphNode] at h
    · rename_i h1; simp [h1]
  | int n =>
    simp only [convert] at h ⊢
    split at h <;> simp_all [Node.isGraphNode]
  | str s =>
    simp only [convert] at h ⊢
    split at h <;> simp_all [Node.isGraphNode]
  | none => simp [convert]
  | fn f => simp [convert]
  | quoted v => simp [convert]
  | dict kvs =>
    simp only [convert] at h ⊢
    split at h
    · simp [Node.isGraphNode] at h
    · rename_i h1; simp [h1]
  | app f a k => simp [convert]

theorem convertList_no_graphNode (keys : List Obj) : ∀ xs, (convertList keys xs).any Node.isGraphNode = false →
    convertList keys xs = xs.map .raw
  | [], _ => by simp [convertList]
  | x :: xs, h => by
    simp only [convertList, List.any_cons, Bool.or_eq_false_iff] at h
    simp [convertList, convert_not_graphNode keys x h.1, convertList_no_graphNode keys xs h.2]

theorem convertVals_no_graphNode (keys : List Obj) : ∀ kvs, (convertVals keys kvs).any Node.isGraphNode = false →
    convertVals keys kvs = rawItems kvs
  | [], _ => by simp [convertVals, rawItems]
  | (k, v) :: rest, h => by
    simp only [convertVals, List.any_cons, Bool.or_eq_false_iff] at h
    simp [convertVals, rawItems, convert_not_graphNode keys v h.2.1, convertVals_no_graphNode keys rest h.2.2]

/-! ### `Dict(a)` of a well-formed dict evaluates to the dict -/

def flatItems : List (Obj × Obj) → List Obj
  | [] => []
  | (k, v) :: rest => k :: v :: flatItems rest

theorem evalNodes_rawItems (env : Obj → Option Obj) : ∀ kvs, evalNodes env (rawItems kvs) = some (flatItems kvs)
  | [] => by simp [rawItems, evalNodes, flatItems]
  | (k, v) :: rest => by simp [rawItems, evalNodes, evalNode, flatItems, evalNodes_rawItems env rest]

theorem dictSet_fresh : ∀ (acc : List (Obj × Obj)) (k v : Obj), (acc.map Prod.fst).contains k = false →
    dictSet acc k v = acc ++ [(k, v)]
  | [], k, v, _ => by simp [dictSet]
  | (k', v') :: rest, k, v, h => by
    simp only [List.map_cons, List.contains_cons, Bool.or_eq_false_iff] at h
    have h1 : (k' == k) = false := by
      rw [Bool.eq_false_iff]; intro hc
      have := eq_of_beq hc; subst this
      simp at h
    simp [dictSet, h1, dictSet_fresh rest k v h.2]

theorem mkDictAux_wf : ∀ (kvs acc : List (Obj × Obj)),
    dictKeysOk kvs ((acc.map Prod.fst).reverse) = true → mkDictAux acc (flatItems kvs) = some (acc ++ kvs)
  | [], acc, _ => by simp [flatItems, mkDictAux]
  | (k, v) :: rest, acc, h => by
    simp only [dictKeysOk, Bool.and_eq_true, Bool.not_eq_true'] at h
    obtain ⟨⟨h1, h2⟩, h3⟩ := h
    have hfresh : (acc.map Prod.fst).contains k = false := by
      rw [Bool.eq_false_iff] at h2 ⊢
      intro hc; apply h2
      simp only [List.contains_eq_mem, List.mem_reverse, decide_eq_true_eq] at hc ⊢
      exact hc
    have h3' : dictKeysOk rest (((acc ++ [(k, v)]).map Prod.fst).reverse) = true := by
      simpa using h3
    simp only [flatItems, mkDictAux, h1, if_true, dictSet_fresh acc k v hfresh]
    rw [mkDictAux_wf rest (acc ++ [(k, v)]) h3']
    simp

theorem mkDict_flatItems (kvs : List (Obj × Obj)) (h : dictKeysOk kvs [] = true) :
    mkDict (flatItems kvs) = some kvs := by
  have := mkDictAux_wf kvs [] (by simpa using h)
  simpa [mkDict] using this

theorem flatItems_inj : ∀ (a b : List (Obj × Obj)), flatItems a = flatItems b → a = b
  | [], [], _ => rfl
  | [], (k, v) :: _, h => by simp [flatItems] at h
  | (k, v) :: _, [], h => by simp [flatItems] at h
  | (k, v) :: ra, (k', v') :: rb, h => by
    simp only [flatItems, List.cons.injEq] at h
    rw [h.1, h.2.1, flatItems_inj ra rb h.2.2]

/-- evaluating the values of a dict keeps its keys -/
theorem evalVals_keys (keys : List Obj) (env : Obj → Option Obj) : ∀ (kvs kvs' : List (Obj × Obj)),
    evalVals keys env kvs = some kvs' → kvs'.map Prod.fst = kvs.map Prod.fst
  | [], kvs', h => by simp [evalVals] at h; subst h; rfl
  | (k, v) :: rest, kvs', h => by
    simp only [evalVals] at h
    cases hv : evalObj keys env v with
    | none => simp [hv] at h
    | some w =>
      cases hr : evalVals keys env rest with
      | none => simp [hv, hr] at h
      | some r =>
        simp only [hv, hr, Option.some.injEq] at h
        subst h
        simp [evalVals_keys keys env rest r hr]

theorem dictKeysOk_keys : ∀ (a b : List (Obj × Obj)) (seen : List Obj), a.map Prod.fst = b.map Prod.fst →
    dictKeysOk a seen = dictKeysOk b seen
  | [], [], _, _ => rfl
  | [], _ :: _, _, h => by simp at h
  | _ :: _, [], _, h => by simp at h
  | (k, v) :: ra, (k', v') :: rb, seen, h => by
    simp only [List.map_cons, List.cons.injEq] at h
    obtain ⟨rfl, h2⟩ := h
    simp only [dictKeysOk, dictKeysOk_keys ra rb (k :: seen) h2]

end Dask.TaskTerm

namespace Dask.TaskTerm

/-! ### dependencies of converted nodes vs `get_dependencies` (on clean objects) -/

theorem inKeys_iff_ref (keys : List Obj) (hKt : ∀ k ∈ keys, k.keyTyped = true) (o : Obj) :
    inKeys keys o = (o.hashable && keys.contains o) := by
  unfold inKeys
  cases hc : keys.contains o with
  | true =>
    have : o ∈ keys := by simpa using hc
    rw [hKt o this]; simp
  | false => simp

theorem not_key_of_not_keyTyped (keys : List Obj) (hKt : ∀ k ∈ keys, k.keyTyped = true) (o : Obj)
    (h : o.keyTyped = false) : (o.hashable && keys.contains o) = false := by
  cases hc : keys.contains o with
  | true =>
    have : o ∈ keys := by simpa using hc
    rw [hKt o this] at h; cases h
  | false => simp

mutual
theorem legacyRefs_plain (keys : List Obj) (hKt : ∀ k ∈ keys, k.keyTyped = true) :
    ∀ o, plain keys o = true → legacyRefs keys o = []
  | .tuple (h :: args), hp => by
    simp only [plain, Bool.and_eq_true, Bool.not_eq_true'] at hp
    have h2 := hp.1.1.2
    rw [inKeys_iff_ref keys hKt] at h2
    simp only [legacyRefs, hp.1.1.1, Bool.false_eq_true, if_false, h2]
  | .tuple [], hp => by
    simp only [plain, Bool.not_eq_true'] at hp
    rw [inKeys_iff_ref keys hKt] at hp
    simp only [Obj.hashable, hashableList, Bool.true_and] at hp
    simp only [legacyRefs, hp, Bool.false_eq_true, if_false]
  | .list xs, hp => by
    simp only [plain] at hp
    simp only [legacyRefs, legacyRefsList_plain keys hKt xs hp]
  | .dict kvs, hp => by
    simp only [plain] at hp
    simp only [legacyRefs, legacyRefsVals_plain keys hKt kvs hp]
  | .int n, hp => by
    simp only [plain, Bool.not_eq_true'] at hp
    rw [inKeys_iff_ref keys hKt] at hp
    simp only [legacyRefs, hp, Bool.false_eq_true, if_false]
  | .str s, hp => by
    simp only [plain, Bool.not_eq_true'] at hp
    rw [inKeys_iff_ref keys hKt] at hp
    simp only [legacyRefs, hp, Bool.false_eq_true, if_false]
  | .none, _ => by
    simp only [legacyRefs, not_key_of_not_keyTyped keys hKt .none rfl, Bool.false_eq_true, if_false]
  | .fn f, _ => by
    simp only [legacyRefs, not_key_of_not_keyTyped keys hKt (.fn f) rfl, Bool.false_eq_true, if_false]
  | .quoted v, _ => by
    simp only [legacyRefs, not_key_of_not_keyTyped keys hKt (.quoted v) rfl, Bool.false_eq_true, if_false]
  | .app f a k, _ => by
    simp only [legacyRefs, not_key_of_not_keyTyped keys hKt (.app f a k) rfl, Bool.false_eq_true, if_false]
theorem legacyRefsList_plain (keys : List Obj) (hKt : ∀ k ∈ keys, k.keyTyped = true) :
    ∀ xs, plainList keys xs = true → legacyRefsList keys xs = []
  | [], _ => by simp [legacyRefsList]
  | x :: xs, hp => by
    simp only [plainList, Bool.and_eq_true] at hp
    simp [legacyRefsList, legacyRefs_plain keys hKt x hp.1, legacyRefsList_plain keys hKt xs hp.2]
theorem legacyRefsVals_plain (keys : List Obj) (hKt : ∀ k ∈ keys, k.keyTyped = true) :
    ∀ kvs, plainVals keys kvs = true → legacyRefsVals keys kvs = []
  | [], _ => by simp [legacyRefsVals]
  | (_, v) :: rest, hp => by
    simp only [plainVals, Bool.and_eq_true] at hp
    simp [legacyRefsVals, legacyRefs_plain keys hKt v hp.1, legacyRefsVals_plain keys hKt rest hp.2]
end

theorem depsList_raw : ∀ xs : List Obj, depsList (xs.map Node.raw) = []
  | [] => rfl
  | x :: xs => by simp [depsList, Node.deps, depsList_raw xs]

theorem depsList_rawItems : ∀ kvs : List (Obj × Obj), depsList (rawItems kvs) = []
  | [] => rfl
  | (k, v) :: rest => by simp [rawItems, depsList, Node.deps, depsList_rawItems rest]

mutual
/-- **On clean objects the converted node depends on exactly what `get_dependencies` reports** (same list). -/
theorem convert_deps (keys : List Obj) (hKt : ∀ k ∈ keys, k.keyTyped = true) :
    ∀ o, clean keys o = true → (convert keys o).deps = legacyRefs keys o
  | .tuple (h :: args), hc => by
    simp only [clean] at hc
    by_cases h1 : h.callable = true
    · simp only [h1, if_true] at hc
      simp [convert, legacyRefs, h1, Node.deps, depsKw, convertList_deps keys hKt args hc]
    · simp only [h1, Bool.false_eq_true, if_false] at hc
      by_cases h2 : inKeys keys (.tuple (h :: args)) = true
      · have h2' := h2
        rw [inKeys_iff_ref keys hKt] at h2'
        simp only [convert, legacyRefs, h1, h2, h2', Node.deps, Bool.false_eq_true, if_false, if_true]
      · simp only [h2, Bool.false_eq_true, if_false, Bool.and_eq_true] at hc
        have hp : plain keys (.tuple (h :: args)) = true := by simp [plain, h1, h2, hc.1, hc.2]
        rw [convert_plain keys _ hp, legacyRefs_plain keys hKt _ hp]; rfl
  | .tuple [], _ => by
    by_cases h2 : inKeys keys (.tuple []) = true
    · have h2' := h2
      rw [inKeys_iff_ref keys hKt] at h2'
      simp only [Obj.hashable, hashableList, Bool.true_and] at h2'
      simp only [convert, legacyRefs, h2, h2', Node.deps, if_true]
    · have h2f : inKeys keys (.tuple []) = false := by simpa using h2
      have h2' := h2f
      rw [inKeys_iff_ref keys hKt] at h2'
      simp only [Obj.hashable, hashableList, Bool.true_and] at h2'
      simp only [convert, legacyRefs, h2f, h2', Node.deps, Bool.false_eq_true, if_false]
  | .list xs, hc => by
    simp only [clean] at hc
    have ih := convertList_deps keys hKt xs hc
    by_cases hg : (convertList keys xs).any Node.isGraphNode = true
    · simp [convert, hg, Node.deps, depsKw, ih, legacyRefs]
    · have hg' : (convertList keys xs).any Node.isGraphNode = false := by simpa using hg
      have e := convertList_no_graphNode keys xs hg'
      rw [e, depsList_raw] at ih
      simp [convert, hg', Node.deps, legacyRefs, ← ih]
  | .dict kvs, hc => by
    simp only [clean] at hc
    have ih := convertVals_deps keys hKt kvs hc
    by_cases hg : (convertVals keys kvs).any Node.isGraphNode = true
    · simp [convert, hg, Node.deps, depsKw, ih, legacyRefs]
    · have hg' : (convertVals keys kvs).any Node.isGraphNode = false := by simpa using hg
      have e := convertVals_no_graphNode keys kvs hg'
      rw [e, depsList_rawItems] at ih
      simp [convert, hg', Node.deps, legacyRefs, ← ih]
  | .int n, _ => by
    by_cases h2 : inKeys keys (.int n) = true
    · have h2' := h2; rw [inKeys_iff_ref keys hKt] at h2'
      simp only [convert, legacyRefs, h2, h2', Node.deps, if_true]
    · have h2f : inKeys keys (.int n) = false := by simpa using h2
      have h2' := h2f; rw [inKeys_iff_ref keys hKt] at h2'
      simp only [convert, legacyRefs, h2f, h2', Node.deps, Bool.false_eq_true, if_false]
  | .str s, _ => by
    by_cases h2 : inKeys keys (.str s) = true
    · have h2' := h2; rw [inKeys_iff_ref keys hKt] at h2'
      simp only [convert, legacyRefs, h2, h2', Node.deps, if_true]
    · have h2f : inKeys keys (.str s) = false := by simpa using h2
      have h2' := h2f; rw [inKeys_iff_ref keys hKt] at h2'
      simp only [convert, legacyRefs, h2f, h2', Node.deps, Bool.false_eq_true, if_false]
  | .none, _ => by rw [legacyRefs_plain keys hKt _ (by simp [plain])]; simp [convert, Node.deps]
  | .fn _, _ => by rw [legacyRefs_plain keys hKt _ (by simp [plain])]; simp [convert, Node.deps]
  | .quoted _, _ => by rw [legacyRefs_plain keys hKt _ (by simp [plain])]; simp [convert, Node.deps]
  | .app _ _ _, _ => by rw [legacyRefs_plain keys hKt _ (by simp [plain])]; simp [convert, Node.deps]
theorem convertList_deps (keys : List Obj) (hKt : ∀ k ∈ keys, k.keyTyped = true) :
    ∀ xs, cleanList keys xs = true → depsList (convertList keys xs) = legacyRefsList keys xs
  | [], _ => by simp [convertList, depsList, legacyRefsList]
  | x :: xs, hc => by
    simp only [cleanList, Bool.and_eq_true] at hc
    simp [convertList, depsList, legacyRefsList, convert_deps keys hKt x hc.1, convertList_deps keys hKt xs hc.2]
theorem convertVals_deps (keys : List Obj) (hKt : ∀ k ∈ keys, k.keyTyped = true) :
    ∀ kvs, cleanVals keys kvs = true → depsList (convertVals keys kvs) = legacyRefsVals keys kvs
  | [], _ => by simp [convertVals, depsList, legacyRefsVals]
  | (k, v) :: rest, hc => by
    simp only [cleanVals, Bool.and_eq_true] at hc
    simp [convertVals, depsList, Node.deps, legacyRefsVals, convert_deps keys hKt v hc.1,
      convertVals_deps keys hKt rest hc.2]
end

end Dask.TaskTerm
