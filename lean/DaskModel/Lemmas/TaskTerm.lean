import DaskModel.Model.TaskTerm
/-! Lemmas about `convert` / `evalNode` / `evalObj` (helper file for Props/C08, C09, C16). -/
namespace Dask.TaskTerm

/-! ### well-formed Python dicts: hashable, pairwise distinct keys -/

def dictKeysOk : List (Obj × Obj) → List Obj → Bool
  | [], _ => true
  | (k, _) :: rest, seen => k.hashable && !seen.contains k && dictKeysOk rest (k :: seen)

mutual
def Obj.wf : Obj → Bool
  | .tuple xs | .list xs => wfList xs
  | .dict kvs => dictKeysOk kvs [] && wfVals kvs
  | .quoted v => v.wf
  | .app _ a k => wfList a && wfVals k
  | _ => true
def wfList : List Obj → Bool
  | [] => true
  | x :: xs => x.wf && wfList xs
def wfVals : List (Obj × Obj) → Bool
  | [] => true
  | (_, v) :: rest => v.wf && wfVals rest
end

/-! ### plain objects (evaluate to themselves) and clean objects (no dict value / non-task tuple element that
    would have to be evaluated) -/

mutual
def plain (keys : List Obj) : Obj → Bool
  | .tuple (h :: args) => !h.callable && !inKeys keys (.tuple (h :: args)) && plain keys h && plainList keys args
  | .tuple [] => !inKeys keys (.tuple [])
  | .list xs => plainList keys xs
  | .dict kvs => plainVals keys kvs
  | .int n => !inKeys keys (.int n)
  | .str s => !inKeys keys (.str s)
  | _ => true
def plainList (keys : List Obj) : List Obj → Bool
  | [] => true
  | x :: xs => plain keys x && plainList keys xs
def plainVals (keys : List Obj) : List (Obj × Obj) → Bool
  | [] => true
  | (_, v) :: rest => plain keys v && plainVals keys rest
end

mutual
def clean (keys : List Obj) : Obj → Bool
  | .tuple (h :: args) =>
    if h.callable then cleanList keys args
    else if inKeys keys (.tuple (h :: args)) then true
    else plain keys h && plainList keys args
  | .list xs => cleanList keys xs
  | .dict kvs => plainVals keys kvs
  | _ => true
def cleanList (keys : List Obj) : List Obj → Bool
  | [] => true
  | x :: xs => clean keys x && cleanList keys xs
end

/-! ### basic facts -/

theorem evalNodes_raw (env : Obj → Option Obj) : ∀ xs : List Obj, evalNodes env (xs.map Node.raw) = some xs
  | [] => by simp [evalNodes]
  | x :: xs => by simp [evalNodes, evalNode, evalNodes_raw env xs]

theorem any_isGraphNode_raw : ∀ xs : List Obj, (xs.map Node.raw).any Node.isGraphNode = false
  | [] => rfl
  | x :: xs => by simp [Node.isGraphNode]

mutual
theorem convert_plain (keys : List Obj) : ∀ o, plain keys o = true → convert keys o = .raw o
  | .tuple (h :: args), hp => by
    simp only [plain, Bool.and_eq_true, Bool.not_eq_true'] at hp
    obtain ⟨⟨⟨h1, h2⟩, h3⟩, h4⟩ := hp
    have e1 := convert_plain keys h h3
    have e2 := convertList_plain keys args h4
    simp [convert, h1, h2, convertList, e1, e2, Node.isGraphNode]
  | .tuple [], hp => by
    simp only [plain, Bool.not_eq_true'] at hp
    simp [convert, hp]
  | .list xs, hp => by
    simp only [plain] at hp
    simp [convert, convertList_plain keys xs hp, Node.isGraphNode]
  | .dict kvs, _ => by simp [convert]
  | .int n, hp => by
    simp only [plain, Bool.not_eq_true'] at hp
    simp [convert, hp]
  | .str s, hp => by
    simp only [plain, Bool.not_eq_true'] at hp
    simp [convert, hp]
  | .none, _ => by simp [convert]
  | .fn _, _ => by simp [convert]
  | .quoted _, _ => by simp [convert]
  | .app _ _ _, _ => by simp [convert]
theorem convertList_plain (keys : List Obj) : ∀ xs, plainList keys xs = true → convertList keys xs = xs.map .raw
  | [], _ => by simp [convertList]
  | x :: xs, hp => by
    simp only [plainList, Bool.and_eq_true] at hp
    simp [convertList, convert_plain keys x hp.1, convertList_plain keys xs hp.2]
end

mutual
theorem evalObj_plain (keys : List Obj) (env : Obj → Option Obj) : ∀ o, plain keys o = true → evalObj keys env o = some o
  | .tuple (h :: args), hp => by
    simp only [plain, Bool.and_eq_true, Bool.not_eq_true'] at hp
    simp [evalObj, hp.1.1.1, hp.1.1.2]
  | .tuple [], hp => by
    simp only [plain, Bool.not_eq_true'] at hp
    simp [evalObj, hp]
  | .list xs, hp => by
    simp only [plain] at hp
    simp [evalObj, evalObjs_plain keys env xs hp]
  | .dict kvs, hp => by
    simp only [plain] at hp
    simp [evalObj, evalVals_plain keys env kvs hp]
  | .int n, hp => by
    simp only [plain, Bool.not_eq_true'] at hp
    simp [evalObj, hp]
  | .str s, hp => by
    simp only [plain, Bool.not_eq_true'] at hp
    simp [evalObj, hp]
  | .none, _ => by simp [evalObj]
  | .fn _, _ => by simp [evalObj]
  | .quoted _, _ => by simp [evalObj]
  | .app _ _ _, _ => by simp [evalObj]
theorem evalObjs_plain (keys : List Obj) (env : Obj → Option Obj) : ∀ xs, plainList keys xs = true →
    evalObjs keys env xs = some xs
  | [], _ => by simp [evalObjs]
  | x :: xs, hp => by
    simp only [plainList, Bool.and_eq_true] at hp
    simp [evalObjs, evalObj_plain keys env x hp.1, evalObjs_plain keys env xs hp.2]
theorem evalVals_plain (keys : List Obj) (env : Obj → Option Obj) : ∀ kvs, plainVals keys kvs = true →
    evalVals keys env kvs = some kvs
  | [], _ => by simp [evalVals]
  | (k, v) :: rest, hp => by
    simp only [plainVals, Bool.and_eq_true] at hp
    simp [evalVals, evalObj_plain keys env v hp.1, evalVals_plain keys env rest hp.2]
end

/-- `convert` answers `raw` only with the object itself, and never `ref` -/
theorem convert_not_graphNode (keys : List Obj) (o : Obj) (h : (convert keys o).isGraphNode = false) :
    convert keys o = .raw o := by
  cases o with
  | tuple xs =>
    cases xs with
    | nil =>
      simp only [convert] at h ⊢
      split at h <;> simp_all [Node.isGraphNode]
    | cons a as =>
      simp only [convert] at h ⊢
      split at h
      · simp [Node.isGraphNode] at h
      · split at h
        · simp [Node.isGraphNode] at h
        · split at h
          · simp [Node.isGraphNode] at h
          · rename_i h1 h2 h3
            simp [h1, h2, h3]
  | list xs =>
    simp only [convert] at h ⊢
    split at h
    · simp [Node.isGraphNode] at h
    · rename_i h1; simp [h1]
  | int n =>
    simp only [convert] at h ⊢
    split at h <;> simp_all [Node.isGraphNode]
  | str s =>
    simp only [convert] at h ⊢
    split at h <;> simp_all [Node.isGraphNode]
  | none => simp [convert]
  | fn f => simp [convert]
  | quoted v => simp [convert]
  | dict kvs => simp [convert]
  | app f a k => simp [convert]

theorem convertList_no_graphNode (keys : List Obj) : ∀ xs, (convertList keys xs).any Node.isGraphNode = false →
    convertList keys xs = xs.map .raw
  | [], _ => by simp [convertList]
  | x :: xs, h => by
    simp only [convertList, List.any_cons, Bool.or_eq_false_iff] at h
    simp [convertList, convert_not_graphNode keys x h.1, convertList_no_graphNode keys xs h.2]

/-! ### `Dict(a)` of a well-formed dict evaluates to the dict -/

def flatItems : List (Obj × Obj) → List Obj
  | [] => []
  | (k, v) :: rest => k :: v :: flatItems rest

theorem evalNodes_rawItems (env : Obj → Option Obj) : ∀ kvs, evalNodes env (rawItems kvs) = some (flatItems kvs)
  | [] => by simp [rawItems, evalNodes, flatItems]
  | (k, v) :: rest => by simp [rawItems, evalNodes, evalNode, flatItems, evalNodes_rawItems env rest]

theorem dictSet_fresh : ∀ (acc : List (Obj × Obj)) (k v : Obj), (acc.map Prod.fst).contains k = false →
    dictSet acc k v = acc ++ [(k, v)]
  | [], k, v, _ => by simp [dictSet]
  | (k', v') :: rest, k, v, h => by
    simp only [List.map_cons, List.contains_cons, Bool.or_eq_false_iff] at h
    have h1 : (k' == k) = false := by
      rw [Bool.eq_false_iff]; intro hc
      have := eq_of_beq hc; subst this
      simp at h
    simp [dictSet, h1, dictSet_fresh rest k v h.2]

theorem mkDictAux_wf : ∀ (kvs acc : List (Obj × Obj)),
    dictKeysOk kvs ((acc.map Prod.fst).reverse) = true → mkDictAux acc (flatItems kvs) = some (acc ++ kvs)
  | [], acc, _ => by simp [flatItems, mkDictAux]
  | (k, v) :: rest, acc, h => by
    simp only [dictKeysOk, Bool.and_eq_true, Bool.not_eq_true'] at h
    obtain ⟨⟨h1, h2⟩, h3⟩ := h
    have hfresh : (acc.map Prod.fst).contains k = false := by
      rw [Bool.eq_false_iff] at h2 ⊢
      intro hc; apply h2
      simp only [List.contains_eq_mem, List.mem_reverse, decide_eq_true_eq] at hc ⊢
      exact hc
    have h3' : dictKeysOk rest (((acc ++ [(k, v)]).map Prod.fst).reverse) = true := by
      simpa using h3
    simp only [flatItems, mkDictAux, h1, if_true, dictSet_fresh acc k v hfresh]
    rw [mkDictAux_wf rest (acc ++ [(k, v)]) h3']
    simp

theorem mkDict_flatItems (kvs : List (Obj × Obj)) (h : dictKeysOk kvs [] = true) :
    mkDict (flatItems kvs) = some kvs := by
  have := mkDictAux_wf kvs [] (by simpa using h)
  simpa [mkDict] using this

end Dask.TaskTerm
