import DaskModel.Model.TaskTerm
/-! Lemmas about `convert` / `evalNode` / `evalObj` (helper file for Props/C08, C09, C16). -/
namespace Dask.TaskTerm

/-! ### well-formed Python dicts: hashable, pairwise distinct keys -/

def dictKeysOk : List (Obj × Obj) → List Obj → Bool
  | [], _ => true
  | (k, _) :: rest, seen => k.hashable && !seen.contains k && dictKeysOk rest (k :: seen)

mutual
def Obj.wf : Obj → Bool
  | .tuple xs | .list xs => wfList xs
  | .dict kvs => dictKeysOk kvs [] && wfVals kvs
  | .quoted v => v.wf
  | .app _ a k => wfList a && wfVals k
  | _ => true
def wfList : List Obj → Bool
  | [] => true
  | x :: xs => x.wf && wfList xs
def wfVals : List (Obj × Obj) → Bool
  | [] => true
  | (_, v) :: rest => v.wf && wfVals rest
end

/-! ### basic facts -/

theorem evalNodes_raw (env : Obj → Option Obj) : ∀ xs : List Obj, evalNodes env (xs.map Node.raw) = some xs
  | [] => by simp [evalNodes]
  | x :: xs => by simp [evalNodes, evalNode, evalNodes_raw env xs]

theorem any_isGraphNode_raw : ∀ xs : List Obj, (xs.map Node.raw).any Node.isGraphNode = false
  | [] => rfl
  | x :: xs => by simp [Node.isGraphNode]

theorem any_isGraphNode_rawItems : ∀ kvs : List (Obj × Obj), (rawItems kvs).any Node.isGraphNode = false
  | [] => rfl
  | (k, v) :: rest => by simp [rawItems, Node.isGraphNode, any_isGraphNode_rawItems rest]

/-- `convert` answers `raw` only with the object itself, and never `ref` -/
theorem convert_not_graphNode (keys : List Obj) (o : Obj) (h : (convert keys o).isGraphNode = false) :
    convert keys o = .raw o := by
  cases o with
  | tuple xs =>
    cases xs with
    | nil =>
      simp only [convert] at h ⊢
      split at h <;> simp_all [Node.isGraphNode]
    | cons a as =>
      simp only [convert] at h ⊢
      split at h
      · simp [Node.isGraphNode] at h
      · split at h
        · simp [Node.isGraphNode] at h
        · rename_i h1 h2
          simp [h1, h2]
  | list xs =>
    simp only [convert] at h ⊢
    split at h
    · simp [Node.isGraphNode] at h
    · rename_i h1; simp [h1]
  | int n =>
    simp only [convert] at h ⊢
    split at h <;> simp_all [Node.isGraphNode]
  | str s =>
    simp only [convert] at h ⊢
    split at h <;> simp_all [Node.isGraphNode]
  | none => simp [convert]
  | fn f => simp [convert]
  | quoted v => simp [convert]
  | dict kvs =>
    simp only [convert] at h ⊢
    split at h
    · simp [Node.isGraphNode] at h
    · rename_i h1; simp [h1]
  | app f a k => simp [convert]

theorem convertList_no_graphNode (keys : List Obj) : ∀ xs, (convertList keys xs).any Node.isGraphNode = false →
    convertList keys xs = xs.map .raw
  | [], _ => by simp [convertList]
  | x :: xs, h => by
    simp only [convertList, List.any_cons, Bool.or_eq_false_iff] at h
    simp [convertList, convert_not_graphNode keys x h.1, convertList_no_graphNode keys xs h.2]

theorem convertVals_no_graphNode (keys : List Obj) : ∀ kvs, (convertVals keys kvs).any Node.isGraphNode = false →
    convertVals keys kvs = rawItems kvs
  | [], _ => by simp [convertVals, rawItems]
  | (k, v) :: rest, h => by
    simp only [convertVals, List.any_cons, Bool.or_eq_false_iff] at h
    simp [convertVals, rawItems, convert_not_graphNode keys v h.2.1, convertVals_no_graphNode keys rest h.2.2]

/-! ### `Dict(a)` of a well-formed dict evaluates to the dict -/

def flatItems : List (Obj × Obj) → List Obj
  | [] => []
  | (k, v) :: rest => k :: v :: flatItems rest

theorem evalNodes_rawItems (env : Obj → Option Obj) : ∀ kvs, evalNodes env (rawItems kvs) = some (flatItems kvs)
  | [] => by simp [rawItems, evalNodes, flatItems]
  | (k, v) :: rest => by simp [rawItems, evalNodes, evalNode, flatItems, evalNodes_rawItems env rest]

theorem dictSet_fresh : ∀ (acc : List (Obj × Obj)) (k v : Obj), (acc.map Prod.fst).contains k = false →
    dictSet acc k v = acc ++ [(k, v)]
  | [], k, v, _ => by simp [dictSet]
  | (k', v') :: rest, k, v, h => by
    simp only [List.map_cons, List.contains_cons, Bool.or_eq_false_iff] at h
    have h1 : (k' == k) = false := by
      rw [Bool.eq_false_iff]; intro hc
      have := eq_of_beq hc; subst this
      simp at h
    simp [dictSet, h1, dictSet_fresh rest k v h.2]

theorem mkDictAux_wf : ∀ (kvs acc : List (Obj × Obj)),
    dictKeysOk kvs ((acc.map Prod.fst).reverse) = true → mkDictAux acc (flatItems kvs) = some (acc ++ kvs)
  | [], acc, _ => by simp [flatItems, mkDictAux]
  | (k, v) :: rest, acc, h => by
    simp only [dictKeysOk, Bool.and_eq_true, Bool.not_eq_true'] at h
    obtain ⟨⟨h1, h2⟩, h3⟩ := h
    have hfresh : (acc.map Prod.fst).contains k = false := by
      rw [Bool.eq_false_iff] at h2 ⊢
      intro hc; apply h2
      simp only [List.contains_eq_mem, List.mem_reverse, decide_eq_true_eq] at hc ⊢
      exact hc
    have h3' : dictKeysOk rest (((acc ++ [(k, v)]).map Prod.fst).reverse) = true := by
      simpa using h3
    simp only [flatItems, mkDictAux, h1, if_true, dictSet_fresh acc k v hfresh]
    rw [mkDictAux_wf rest (acc ++ [(k, v)]) h3']
    simp

theorem mkDict_flatItems (kvs : List (Obj × Obj)) (h : dictKeysOk kvs [] = true) :
    mkDict (flatItems kvs) = some kvs := by
  have := mkDictAux_wf kvs [] (by simpa using h)
  simpa [mkDict] using this

theorem flatItems_inj : ∀ (a b : List (Obj × Obj)), flatItems a = flatItems b → a = b
  | [], [], _ => rfl
  | [], (k, v) :: _, h => by simp [flatItems] at h
  | (k, v) :: _, [], h => by simp [flatItems] at h
  | (k, v) :: ra, (k', v') :: rb, h => by
    simp only [flatItems, List.cons.injEq] at h
    rw [h.1, h.2.1, flatItems_inj ra rb h.2.2]

/-- evaluating the values of a dict keeps its keys -/
theorem evalVals_keys (keys : List Obj) (env : Obj → Option Obj) : ∀ (kvs kvs' : List (Obj × Obj)),
    evalVals keys env kvs = some kvs' → kvs'.map Prod.fst = kvs.map Prod.fst
  | [], kvs', h => by simp [evalVals] at h; subst h; rfl
  | (k, v) :: rest, kvs', h => by
    simp only [evalVals] at h
    cases hv : evalObj keys env v with
    | none => simp [hv] at h
    | some w =>
      cases hr : evalVals keys env rest with
      | none => simp [hv, hr] at h
      | some r =>
        simp only [hv, hr, Option.some.injEq] at h
        subst h
        simp [evalVals_keys keys env rest r hr]

theorem dictKeysOk_keys : ∀ (a b : List (Obj × Obj)) (seen : List Obj), a.map Prod.fst = b.map Prod.fst →
    dictKeysOk a seen = dictKeysOk b seen
  | [], [], _, _ => rfl
  | [], _ :: _, _, h => by simp at h
  | _ :: _, [], _, h => by simp at h
  | (k, v) :: ra, (k', v') :: rb, seen, h => by
    simp only [List.map_cons, List.cons.injEq] at h
    obtain ⟨rfl, h2⟩ := h
    simp only [dictKeysOk, dictKeysOk_keys ra rb (k :: seen) h2]

end Dask.TaskTerm

namespace Dask.TaskTerm

/-! ### dependencies of converted nodes vs `get_dependencies` -/

theorem inKeys_iff_ref (keys : List Obj) (hKt : ∀ k ∈ keys, k.keyTyped = true) (o : Obj) :
    inKeys keys o = (o.hashable && keys.contains o) := by
  unfold inKeys
  cases hc : keys.contains o with
  | true =>
    have : o ∈ keys := by simpa using hc
    rw [hKt o this]; simp
  | false => simp

theorem not_key_of_not_keyTyped (keys : List Obj) (hKt : ∀ k ∈ keys, k.keyTyped = true) (o : Obj)
    (h : o.keyTyped = false) : (o.hashable && keys.contains o) = false := by
  cases hc : keys.contains o with
  | true =>
    have : o ∈ keys := by simpa using hc
    rw [hKt o this] at h; cases h
  | false => simp

theorem depsList_raw : ∀ xs : List Obj, depsList (xs.map Node.raw) = []
  | [] => rfl
  | x :: xs => by simp [depsList, Node.deps, depsList_raw xs]

theorem depsList_rawItems : ∀ kvs : List (Obj × Obj), depsList (rawItems kvs) = []
  | [] => rfl
  | (k, v) :: rest => by simp [rawItems, depsList, Node.deps, depsList_rawItems rest]

mutual
/-- **The converted node depends on exactly what `get_dependencies` reports** (the same list, in the same order). -/
theorem convert_deps (keys : List Obj) (hKt : ∀ k ∈ keys, k.keyTyped = true) :
    ∀ o, (convert keys o).deps = legacyRefs keys o
  | .tuple (h :: args) => by
    by_cases h1 : h.callable = true
    · simp [convert, legacyRefs, h1, Node.deps, depsKw, convertList_deps keys hKt args]
    · by_cases h2 : inKeys keys (.tuple (h :: args)) = true
      · have h2' := h2
        rw [inKeys_iff_ref keys hKt] at h2'
        simp only [convert, legacyRefs, h1, h2, h2', Node.deps, Bool.false_eq_true, if_false, if_true]
      · have h2f : inKeys keys (.tuple (h :: args)) = false := by simpa using h2
        have h2' := h2f
        rw [inKeys_iff_ref keys hKt] at h2'
        simp only [convert, legacyRefs, h1, h2f, h2', Node.deps, Bool.false_eq_true, if_false]
  | .tuple [] => by
    by_cases h2 : inKeys keys (.tuple []) = true
    · have h2' := h2
      rw [inKeys_iff_ref keys hKt] at h2'
      simp only [Obj.hashable, hashableList, Bool.true_and] at h2'
      simp only [convert, legacyRefs, h2, h2', Node.deps, if_true]
    · have h2f : inKeys keys (.tuple []) = false := by simpa using h2
      have h2' := h2f
      rw [inKeys_iff_ref keys hKt] at h2'
      simp only [Obj.hashable, hashableList, Bool.true_and] at h2'
      simp only [convert, legacyRefs, h2f, h2', Node.deps, Bool.false_eq_true, if_false]
  | .list xs => by
    have ih := convertList_deps keys hKt xs
    by_cases hg : (convertList keys xs).any Node.isGraphNode = true
    · simp [convert, hg, Node.deps, depsKw, ih, legacyRefs]
    · have hg' : (convertList keys xs).any Node.isGraphNode = false := by simpa using hg
      have e := convertList_no_graphNode keys xs hg'
      rw [e, depsList_raw] at ih
      simp [convert, hg', Node.deps, legacyRefs, ← ih]
  | .dict kvs => by
    have ih := convertVals_deps keys hKt kvs
    by_cases hg : (convertVals keys kvs).any Node.isGraphNode = true
    · simp [convert, hg, Node.deps, depsKw, ih, legacyRefs]
    · have hg' : (convertVals keys kvs).any Node.isGraphNode = false := by simpa using hg
      have e := convertVals_no_graphNode keys kvs hg'
      rw [e, depsList_rawItems] at ih
      simp [convert, hg', Node.deps, legacyRefs, ← ih]
  | .int n => by
    by_cases h2 : inKeys keys (.int n) = true
    · have h2' := h2; rw [inKeys_iff_ref keys hKt] at h2'
      simp only [convert, legacyRefs, h2, h2', Node.deps, if_true]
    · have h2f : inKeys keys (.int n) = false := by simpa using h2
      have h2' := h2f; rw [inKeys_iff_ref keys hKt] at h2'
      simp only [convert, legacyRefs, h2f, h2', Node.deps, Bool.false_eq_true, if_false]
  | .str s => by
    by_cases h2 : inKeys keys (.str s) = true
    · have h2' := h2; rw [inKeys_iff_ref keys hKt] at h2'
      simp only [convert, legacyRefs, h2, h2', Node.deps, if_true]
    · have h2f : inKeys keys (.str s) = false := by simpa using h2
      have h2' := h2f; rw [inKeys_iff_ref keys hKt] at h2'
      simp only [convert, legacyRefs, h2f, h2', Node.deps, Bool.false_eq_true, if_false]
  | .none => by
    simp only [convert, Node.deps, legacyRefs, not_key_of_not_keyTyped keys hKt .none rfl, Bool.false_eq_true, if_false]
  | .fn f => by
    simp only [convert, Node.deps, legacyRefs, not_key_of_not_keyTyped keys hKt (.fn f) rfl, Bool.false_eq_true, if_false]
  | .quoted v => by
    simp only [convert, Node.deps, legacyRefs, not_key_of_not_keyTyped keys hKt (.quoted v) rfl, Bool.false_eq_true,
      if_false]
  | .app f a k => by
    simp only [convert, Node.deps, legacyRefs, not_key_of_not_keyTyped keys hKt (.app f a k) rfl, Bool.false_eq_true,
      if_false]
theorem convertList_deps (keys : List Obj) (hKt : ∀ k ∈ keys, k.keyTyped = true) :
    ∀ xs, depsList (convertList keys xs) = legacyRefsList keys xs
  | [] => by simp [convertList, depsList, legacyRefsList]
  | x :: xs => by
    simp [convertList, depsList, legacyRefsList, convert_deps keys hKt x, convertList_deps keys hKt xs]
theorem convertVals_deps (keys : List Obj) (hKt : ∀ k ∈ keys, k.keyTyped = true) :
    ∀ kvs, depsList (convertVals keys kvs) = legacyRefsVals keys kvs
  | [] => by simp [convertVals, depsList, legacyRefsVals]
  | (k, v) :: rest => by
    simp [convertVals, depsList, Node.deps, legacyRefsVals, convert_deps keys hKt v, convertVals_deps keys hKt rest]
end

end Dask.TaskTerm
