import DaskModel.Props.C22
import Mathlib.Data.Multiset.AddSub
/-! Extension round (C22, several axes at once).

* `gridReduce_eq_fold_kd`: the n-d tree with `keepdims=True` (every round keeps all axes): one block under the key
  `(0, …, 0)` holding the fold of all block partials — the `keepdims` twin of `gridReduce_eq_fold`.
* `gridReduce_optFold` / `gridReduce_optFold_kd`: `minmax_nd` of `Props/C22` for an arbitrary carrier (used for the
  `(value, flat index)` candidates of the arg-reductions).
* the order-2 moment partials over an n-d grid: `moment_combine` is not the fold of a monoid on all of `P` (an ill-formed
  partial with `n = 0`, `total ≠ 0` breaks associativity), but every partial the tree ever sees is `momChunk` of a data
  list, and `momChunk` only depends on the data up to order.  So the tree over the partials is the image, under
  `momChunkM : Multiset ℚ → P`, of the tree over the commutative monoid `(Multiset ℚ, +, 0)` (`gridReduce_mapGrid`),
  to which `gridReduce_eq_fold` applies: `var_grid`, `var_grid_kd`. -/
namespace Dask.ArrayReduce
open List

variable {β : Type}

theorem roundNumblocks_single (ks nb : List Nat) (h : AxesOk 1 ks nb) :
    roundNumblocks nb (ks.map some) = nb.map fun _ => 1 := by
  unfold roundNumblocks
  rw [zipWith_axisParts, parts_single ks nb h]
  simp [List.map_map, Function.comp_def]

theorem cartesian_range_ones (nb : List Nat) :
    cartesian ((nb.map fun _ => 1).map List.range) = [nb.map fun _ => 0] := by
  have := cartesian_singletons (nb.map fun _ => 0)
  simpa [List.map_map, Function.comp_def, List.range_succ] using this

/-- the last round with `keepdims=True` when every axis fits in one group -/
theorem round_final_kd {op : β → β → β} {e : β} (hM : IsCommMonoid op e) (ks nb : List Nat) (h : AxesOk 1 ks nb)
    (vs : List β) (hvs : vs.length = (cartesian (nb.map List.range)).length) :
    roundEval (fun xs => xs.foldr op e) (roundPlan nb (ks.map some) true) (mkGrid nb vs)
      = some [(nb.map fun _ => 0, vs.foldr op e)] := by
  obtain ⟨vs', hr, hl, hf⟩ := round_keepdims hM ks nb (axesOk_length h) (axesOk_ne h) vs hvs
  rw [hr, roundNumblocks_single ks nb h]
  rw [roundNumblocks_single ks nb h, cartesian_range_ones] at hl
  match vs', hl, hf with
  | [v], _, hf =>
    simp only [List.foldr_cons, List.foldr_nil, hM.id_right] at hf
    simp only [mkGrid, cartesian_range_ones, List.zip_cons_cons, List.zip_nil_right, hf]

/-- **gridReduce_eq_fold_kd** (K1, n-d, `keepdims=True`): a single block under the key `(0, …, 0)` holding the fold of
    all partials, for every per-axis group size and every depth with `n_i ≤ k_i ^ depth`. -/
theorem gridReduce_eq_fold_kd {op : β → β → β} {e : β} (hM : IsCommMonoid op e) :
    ∀ (d : Nat) (ks nb : List Nat) (vs : List β), AxesOk (d + 1) ks nb →
      vs.length = (cartesian (nb.map List.range)).length →
      gridReduce (fun xs => xs.foldr op e) (fun xs => xs.foldr op e) nb (ks.map some) true (d + 1) (mkGrid nb vs)
        = some [(nb.map fun _ => 0, vs.foldr op e)] := by
  intro d
  induction d with
  | zero =>
    intro ks nb vs h hvs
    show gridReduce _ _ _ _ _ 1 _ = _
    rw [gridReduce]
    exact round_final_kd hM ks nb h vs hvs
  | succ d ih =>
    intro ks nb vs h hvs
    obtain ⟨vs', hr, hl, hf⟩ := round_keepdims hM ks nb (axesOk_length h) (axesOk_ne h) vs hvs
    show gridReduce _ _ _ _ _ (d + 1 + 1) _ = _
    rw [gridReduce]
    · rw [hr]
      show gridReduce _ _ _ _ _ (d + 1) _ = _
      rw [ih ks _ vs' (axesOk_step d ks nb h) hl, hf]
      have hlen : (roundNumblocks nb (ks.map some)).length = nb.length := by
        have h1 := axesOk_length (axesOk_step d ks nb h)
        have h2 := axesOk_length h
        omega
      have hz : ∀ (a b : List Nat), a.length = b.length → (a.map fun _ => 0) = b.map fun _ => 0 := by
        intro a
        induction a with
        | nil => intro b hb; cases b with | nil => rfl | cons => simp at hb
        | cons x a iha => intro b hb; cases b with
          | nil => simp at hb
          | cons y b => simp only [List.map_cons]; rw [iha b (by simpa using hb)]
      rw [hz _ _ hlen]
    · omega

/-- both `keepdims` settings at once: the key is `[]` or `(0, …, 0)` -/
def finalKey (kd : Bool) (nb : List Nat) : List Nat := if kd then nb.map fun _ => 0 else []

theorem gridReduce_eq_fold_any {op : β → β → β} {e : β} (hM : IsCommMonoid op e) (kd : Bool)
    (d : Nat) (ks nb : List Nat) (vs : List β) (h : AxesOk (d + 1) ks nb)
    (hvs : vs.length = (cartesian (nb.map List.range)).length) :
    gridReduce (fun xs => xs.foldr op e) (fun xs => xs.foldr op e) nb (ks.map some) kd (d + 1) (mkGrid nb vs)
      = some [(finalKey kd nb, vs.foldr op e)] := by
  cases kd with
  | false => exact gridReduce_eq_fold hM d ks nb vs h hvs
  | true => exact gridReduce_eq_fold_kd hM d ks nb vs h hvs

end Dask.ArrayReduce

namespace Dask.C22
open Dask.ArrayReduce

/-- `minmax_nd` for any carrier and both `keepdims` settings: partials that hold at most one candidate (`Option.toList`),
    merged by an associative-commutative `op` -/
theorem gridReduce_optFold {α : Type} {op : α → α → α} (assoc : ∀ a b c, op (op a b) c = op a (op b c))
    (comm : ∀ a b, op a b = op b a) (kd : Bool) (d : Nat) (ks nb : List Nat) (cs : List (List α))
    (h : AxesOk (d + 1) ks nb) (hl : cs.length = (cartesian (nb.map List.range)).length) :
    gridReduce (fun ps : List (List α) => (optFold op ps.flatten).toList) (fun ps => optFold op ps.flatten)
        nb (ks.map some) kd (d + 1) (mkGrid nb (cs.map fun c => (optFold op c).toList))
      = some [(finalKey kd nb, optFold op cs.flatten)] := by
  have e : (cs.map fun b => (optFold op b).toList) = (cs.map (optFold op)).map Option.toList := by
    simp [List.map_map, Function.comp_def]
  rw [e, mkGrid_map]
  rw [gridReduce_mapGrid Option.toList id _ _ (fun xs => xs.foldr (omerge op) none) (fun xs => xs.foldr (omerge op) none)
    (fun xs => by simp only [optFold_toLists op assoc]) (fun xs => by simp only [optFold_toLists op assoc, id])]
  rw [gridReduce_eq_fold_any (omerge_comm op assoc comm) kd d ks nb _ h (by simpa using hl)]
  simp only [Option.map_some, mapGrid, List.map_cons, List.map_nil, id]
  rw [← optFold_toLists op assoc, ← e, optFold_parts op assoc]

/-- the result of an associative-commutative `optFold` does not depend on the order of the candidates -/
theorem optFold_perm {α : Type} {op : α → α → α} (assoc : ∀ a b c, op (op a b) c = op a (op b c))
    (comm : ∀ a b, op a b = op b a) {xs ys : List α} (p : xs.Perm ys) : optFold op xs = optFold op ys := by
  have hfl : ∀ zs : List α, ((zs.map some).map Option.toList).flatten = zs := by
    intro zs
    induction zs with
    | nil => rfl
    | cons z zs ih => simp only [List.map_cons, List.flatten_cons, Option.toList, List.singleton_append, ih]
  have key : ∀ zs : List α, optFold op zs = (zs.map some).foldr (omerge op) none := by
    intro zs
    have := optFold_toLists op assoc (zs.map some)
    rw [hfl] at this
    exact this
  rw [key, key]
  exact cfold_perm (omerge_comm op assoc comm) (p.map some)

end Dask.C22

namespace Dask.Moment
open Dask.ArrayReduce Dask.C22

theorem rsum_perm {xs ys : List Rat} (p : xs.Perm ys) : rsum xs = rsum ys := by
  induction p with
  | nil => rfl
  | cons x _ ih => simp only [rsum_cons, ih]
  | swap x y l => simp only [rsum_cons]; ring
  | trans _ _ ih1 ih2 => exact ih1.trans ih2

theorem sqdev_perm (c : Rat) {xs ys : List Rat} (p : xs.Perm ys) : sqdev c xs = sqdev c ys :=
  rsum_perm (p.map _)

/-- the block partial only depends on the block's data up to order -/
theorem momChunk_perm {xs ys : List Rat} (p : xs.Perm ys) : momChunk xs = momChunk ys := by
  unfold momChunk
  simp only [rsum_perm p, p.length_eq, sqdev_perm _ p]

theorem varSpec_perm (ddof : Nat) {xs ys : List Rat} (p : xs.Perm ys) : varSpec ddof xs = varSpec ddof ys := by
  unfold varSpec
  simp only [rsum_perm p, p.length_eq, sqdev_perm _ p]

/-- `moment_chunk` on a bag of numbers -/
def momChunkM (m : Multiset Rat) : P := Quotient.liftOn m momChunk fun _ _ p => momChunk_perm p

/-- `np.var` of a bag of numbers -/
def varSpecM (ddof : Nat) (m : Multiset Rat) : Option Rat :=
  Quotient.liftOn m (varSpec ddof) fun _ _ p => varSpec_perm ddof p

theorem momChunkM_coe (l : List Rat) : momChunkM (l : Multiset Rat) = momChunk l := rfl
theorem varSpecM_coe (ddof : Nat) (l : List Rat) : varSpecM ddof (l : Multiset Rat) = varSpec ddof l := rfl

theorem exists_lists {α : Type} : ∀ xs : List (Multiset α), ∃ ds : List (List α), xs = ds.map Multiset.ofList
  | [] => ⟨[], rfl⟩
  | m :: xs => by
    obtain ⟨ds, hds⟩ := exists_lists xs
    obtain ⟨l, hl⟩ := Quot.exists_rep m
    exact ⟨l :: ds, by rw [List.map_cons, ← hds]; congr 1; exact hl.symm⟩

theorem msum_coe {α : Type} (ds : List (List α)) :
    (ds.map Multiset.ofList).foldr (· + ·) 0 = Multiset.ofList ds.flatten := by
  induction ds with
  | nil => rfl
  | cons l ds ih => simp only [List.map_cons, List.foldr_cons, ih, List.flatten_cons, Multiset.coe_add]

theorem multiset_comm {α : Type} : IsCommMonoid (fun a b : Multiset α => a + b) 0 :=
  ⟨⟨Multiset.add_assoc, Multiset.zero_add, Multiset.add_zero⟩, Multiset.add_comm⟩

/-- `moment_combine` of partials = the partial of the union of the bags (every list of bags) -/
theorem momCombine_bags (xs : List (Multiset Rat)) :
    momCombine (xs.map momChunkM) = momChunkM (xs.foldr (· + ·) 0) := by
  obtain ⟨ds, rfl⟩ := exists_lists xs
  rw [msum_coe, momChunkM_coe, List.map_map]
  exact momCombine_chunks ds

theorem momAgg_bags (ddof : Nat) (xs : List (Multiset Rat)) :
    momAgg ddof (xs.map momChunkM) = varSpecM ddof (xs.foldr (· + ·) 0) := by
  obtain ⟨ds, rfl⟩ := exists_lists xs
  rw [msum_coe, varSpecM_coe, List.map_map]
  exact momAgg_chunks ddof ds

/-- the `moment_chunk → moment_combine* → moment_agg` tree over an n-d grid of blocks -/
theorem var_grid (ddof : Nat) (kd : Bool) (d : Nat) (ks nb : List Nat) (blocks : List (List Rat))
    (h : AxesOk (d + 1) ks nb) (hl : blocks.length = (cartesian (nb.map List.range)).length) :
    gridReduce momCombine (momAgg ddof) nb (ks.map some) kd (d + 1) (mkGrid nb (blocks.map momChunk))
      = some [(finalKey kd nb, varSpec ddof blocks.flatten)] := by
  have e : blocks.map momChunk = (blocks.map Multiset.ofList).map momChunkM := by
    rw [List.map_map]; rfl
  rw [e, mkGrid_map]
  rw [gridReduce_mapGrid momChunkM (varSpecM ddof) momCombine (momAgg ddof)
    (fun xs => xs.foldr (· + ·) 0) (fun xs => xs.foldr (· + ·) 0) momCombine_bags (momAgg_bags ddof)]
  rw [gridReduce_eq_fold_any multiset_comm kd d ks nb _ h (by simpa using hl), msum_coe]
  rfl

end Dask.Moment
