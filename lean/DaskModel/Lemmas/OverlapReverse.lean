import DaskModel.Lemmas.OverlapLemmas
/-! `MapOverlap` is symmetric under reversing the frame: `before` and `after` swap (review round).
Used to derive the `bfill` theorems from the `ffill` ones. -/
namespace Dask.Overlap

/-- `nexts[i]` when the partition list is followed by `nn` -/
def nextOfG (after : Nat) (rest : List (List α)) (nn : Option (List α)) : Option (List α) :=
  if after = 0 then none
  else match rest with
    | [] => nn.map (List.take after)
    | n :: _ => some (n.take after)

/-- `goOverlap` for a segment of the partition list: `pp` precedes it, `nn` follows it -/
def goG (func : List α → List β) (before after : Nat) :
    Option (List α) → List (List α) → Option (List α) → Option (List (List β))
  | _, [], _ => some []
  | pp, cur :: rest, nn =>
    match combinedParts before after (prevOf before pp) cur (nextOfG after rest nn),
          goG func before after (some cur) rest nn with
    | some c, some r => some (overlapChunk func before after c :: r)
    | _, _ => none

theorem nextOfG_none (a : Nat) (rest : List (List α)) : nextOfG a rest none = nextOf a rest := by
  unfold nextOfG nextOf
  cases rest <;> simp

theorem goG_none (func : List α → List β) (b a : Nat) (parts : List (List α)) (pp : Option (List α)) :
    goG func b a pp parts none = goOverlap func b a pp parts := by
  induction parts generalizing pp with
  | nil => rfl
  | cons cur rest ih =>
    simp only [goG, goOverlap, nextOfG_none, ih]
    cases combinedParts b a (prevOf b pp) cur (nextOf a rest) <;> cases goOverlap func b a (some cur) rest <;> rfl

/-- the partition preceding the one after `ps` -/
def lastOr (pp : Option (List α)) (ps : List (List α)) : Option (List α) :=
  match ps.getLast? with
  | some l => some l
  | none => pp

theorem lastOr_cons (pp : Option (List α)) (cur : List α) (rest : List (List α)) :
    lastOr pp (cur :: rest) = lastOr (some cur) rest := by
  unfold lastOr
  cases rest with
  | nil => simp
  | cons r rs =>
    rw [List.getLast?_cons_cons]
    cases hx : (r :: rs).getLast? with
    | none => simp at hx
    | some l => rfl

theorem nextOfG_snoc (a : Nat) (rest : List (List α)) (l : List α) (nn : Option (List α)) :
    nextOfG a (rest ++ [l]) nn = nextOfG a rest (some l) := by
  unfold nextOfG
  cases rest <;> simp

/-- processing `ps ++ [l]`: the segment `ps` followed by `l`, then `l` itself -/
theorem goG_snoc (func : List α → List β) (b a : Nat) (ps : List (List α)) (l : List α) (pp nn : Option (List α)) :
    goG func b a pp (ps ++ [l]) nn =
      match goG func b a pp ps (some l), combinedParts b a (prevOf b (lastOr pp ps)) l (nextOfG a [] nn) with
      | some r, some c => some (r ++ [overlapChunk func b a c])
      | _, _ => none := by
  induction ps generalizing pp with
  | nil =>
    simp only [List.nil_append, goG, lastOr, List.getLast?_nil]
    cases combinedParts b a (prevOf b pp) l (nextOfG a [] nn) <;> simp
  | cons cur rest ih =>
    simp only [List.cons_append, goG, nextOfG_snoc, ih, lastOr_cons]
    cases combinedParts b a (prevOf b pp) cur (nextOfG a rest (some l)) <;>
      cases goG func b a (some cur) rest (some l) <;>
      cases combinedParts b a (prevOf b (lastOr (some cur) rest)) l (nextOfG a [] nn) <;> simp

/-- reversing rows and partitions -/
def revParts (ps : List (List α)) : List (List α) := ps.reverse.map List.reverse

theorem revParts_cons (p : List α) (ps : List (List α)) : revParts (p :: ps) = revParts ps ++ [p.reverse] := by
  simp [revParts]

theorem revParts_revParts (ps : List (List α)) : revParts (revParts ps) = ps := by
  simp [revParts, List.map_reverse, Function.comp_def]

theorem revParts_flatten (ps : List (List α)) : (revParts ps).flatten = ps.flatten.reverse := by
  induction ps with
  | nil => rfl
  | cons p ps ih => simp [revParts_cons, ih]

theorem take_reverse_eq (n : Nat) (q : List α) : q.reverse.take n = (lastN n q).reverse := by
  rw [lastN_eq_rev, List.reverse_reverse]

theorem lastN_reverse (n : Nat) (q : List α) : lastN n q.reverse = (q.take n).reverse := by
  rw [lastN_eq_rev, List.reverse_reverse]

theorem sizeOK_map_reverse (o : Option (List α)) (n : Nat) : sizeOK (o.map List.reverse) n = sizeOK o n := by
  cases o <;> simp [sizeOK]

theorem lenOrNone_map_reverse (o : Option (List α)) : lenOrNone (o.map List.reverse) = lenOrNone o := by
  cases o <;> simp [lenOrNone]

theorem combinedParts_reverse (b a : Nat) (prev next : Option (List α)) (cur : List α) :
    combinedParts a b (next.map List.reverse) cur.reverse (prev.map List.reverse) =
      (combinedParts b a prev cur next).map (fun c => (c.1.reverse, c.2.2, c.2.1)) := by
  unfold combinedParts
  simp only [sizeOK_map_reverse, lenOrNone_map_reverse]
  by_cases h1 : sizeOK prev b = true <;> by_cases h2 : sizeOK next a = true <;> simp [h1, h2]
  cases prev <;> cases next <;> simp

/-- reversing a trimmed block: what is cut at the front is cut at the back of the reversed block -/
theorem reverse_trim (l : List β) (A B : Nat) :
    ((l.take (l.length - A)).drop B).reverse = ((l.reverse.take (l.length - B)).drop A) := by
  rw [List.reverse_drop, List.reverse_take, List.length_take, List.drop_take]
  by_cases hA : A ≤ l.length
  · have h1 : l.length - (l.length - A) = A := by omega
    have h2 : min (l.length - A) l.length - B = l.length - B - A := by omega
    rw [h1, h2]
  · have h2 : min (l.length - A) l.length - B = 0 := by omega
    have h3 : l.length - B - A = 0 := by omega
    rw [h2, h3]; simp

theorem overlapChunk_reverse (func : List α → List β) (b a : Nat) (c : List α) (pl nl : Option Nat) :
    overlapChunk (fun x => (func x.reverse).reverse) a b (c.reverse, nl, pl) =
      (overlapChunk func b a (c, pl, nl)).reverse := by
  unfold overlapChunk
  simp only [List.reverse_reverse, List.length_reverse]
  generalize hout : func c = out
  generalize hexp : (if c.length != 0 then out.length / c.length else 0) = expansion
  cases pl with
  | none =>
    cases nl with
    | none => simp
    | some n =>
      simp only [bne_self_eq_false, Bool.false_and, Bool.false_eq_true, if_false, List.drop_zero]
      generalize (if (a != 0 && expansion != 0) = true then a * expansion else a) = A
      have := reverse_trim out A 0
      simp only [List.drop_zero, Nat.sub_zero] at this
      rw [this, List.take_of_length_le (by simp)]
  | some m =>
    cases nl with
    | none =>
      simp only [bne_self_eq_false, Bool.false_and, Bool.false_eq_true, if_false, List.drop_zero]
      generalize (if (b != 0 && expansion != 0) = true then b * expansion else b) = B
      have := reverse_trim out 0 B
      simp only [Nat.sub_zero, List.drop_zero, List.take_length] at this
      rw [← this]
    | some n =>
      simp only
      generalize (if (a != 0 && expansion != 0) = true then a * expansion else a) = A
      generalize (if (b != 0 && expansion != 0) = true then b * expansion else b) = B
      exact (reverse_trim out A B).symm


theorem prevOf_reverse (b : Nat) (rest : List (List α)) (nn : Option (List α)) :
    prevOf b (lastOr (nn.map List.reverse) (revParts rest)) = (nextOfG b rest nn).map List.reverse := by
  unfold prevOf nextOfG
  by_cases hb : b = 0
  · simp [hb]
  · simp only [hb, if_false]
    cases rest with
    | nil => cases nn <;> simp [lastOr, revParts, lastN_reverse]
    | cons n more =>
      simp only [revParts_cons, lastOr, List.getLast?_append, List.getLast?_singleton, Option.some_or, Option.map_some,
        lastN_reverse]

theorem nextOfG_reverse (b : Nat) (pp : Option (List α)) :
    nextOfG b ([] : List (List α)) (pp.map List.reverse) = (prevOf b pp).map List.reverse := by
  unfold prevOf nextOfG
  by_cases hb : b = 0
  · simp [hb]
  · cases pp <;> simp [hb, take_reverse_eq]

/-- **`MapOverlap` is symmetric under reversal**: running the reversed function over the reversed frame with
    `before` and `after` swapped gives the reversed result (and raises in exactly the same cases) -/
theorem goG_reverse (func : List α → List β) (b a : Nat) :
    ∀ (ps : List (List α)) (pp nn : Option (List α)),
      goG (fun x => (func x.reverse).reverse) a b (nn.map List.reverse) (revParts ps) (pp.map List.reverse) =
        (goG func b a pp ps nn).map revParts := by
  intro ps
  induction ps with
  | nil => intro pp nn; rfl
  | cons cur rest ih =>
    intro pp nn
    rw [revParts_cons, goG_snoc]
    have h1 := ih (some cur) nn
    simp only [Option.map_some] at h1
    rw [h1, prevOf_reverse, nextOfG_reverse, combinedParts_reverse]
    simp only [goG]
    cases hc : combinedParts b a (prevOf b pp) cur (nextOfG a rest nn) with
    | none => cases goG func b a (some cur) rest nn <;> rfl
    | some c =>
      obtain ⟨cc, pl, nl⟩ := c
      cases hr : goG func b a (some cur) rest nn with
      | none => rfl
      | some r =>
        simp only [Option.map_some, overlapChunk_reverse, revParts_cons]

theorem mapOverlap_reverse (func : List α → List β) (b a : Nat) (parts : List (List α)) :
    mapOverlap (fun x => (func x.reverse).reverse) a b (revParts parts) = (mapOverlap func b a parts).map revParts := by
  unfold mapOverlap
  rw [← goG_none, ← goG_none]
  exact goG_reverse func b a parts none none

end Dask.Overlap
