import DaskModel.Lemmas.ChunksPlanStages
/-! C23: `_balance_chunksizes` returns a valid chunking of the same axis. -/
namespace Dask.Chunks

theorem getChunks_stage {n L : Nat} (hL : 0 < L) (hn : 0 < n) : StageOK n (getChunks n L) := by
  unfold getChunks
  refine stage_of_sum ?_ ?_ hn
  · rw [sum_append, sum_replicate]
    have := Nat.div_add_mod n L
    split
    · simp [sum]; rw [Nat.mul_comm]; omega
    · rename_i h; simp at h; simp [sum]; rw [Nat.mul_comm]; omega
  · intro x hx
    rcases List.mem_append.1 hx with h | h
    · rw [List.mem_replicate] at h; omega
    · split at h
      · simp at h; omega
      · simp at h

theorem argminSpread_mem : ∀ (l : List (List Nat)) (c : List Nat), argminSpread l = some c → c ∈ l
  | [], _, h => by simp [argminSpread] at h
  | x :: xs, c, h => by
    rw [argminSpread] at h
    cases hb : argminSpread xs with
    | none => simp [hb] at h; subst h; simp
    | some b =>
      simp only [hb] at h
      split at h
      · injection h with h; subst h; simp
      · injection h with h; subst h
        exact List.mem_cons_of_mem _ (argminSpread_mem xs _ hb)

/-- `_balance_chunksizes` keeps a valid chunking valid (same total, positive, non-empty) -/
theorem balanceChunks_stage {n : Nat} {cs : List Nat} (h : StageOK n cs) : StageOK n (balanceChunks cs) := by
  unfold balanceChunks
  simp only
  split
  · exact h
  · rename_i c hc
    have hm := argminSpread_mem _ _ hc
    have hm' := (List.mem_filter.1 hm).1
    obtain ⟨i, _, rfl⟩ := List.mem_map.1 hm'
    rw [h.2.2]
    exact getChunks_stage (by omega) h.pos

end Dask.Chunks
