import DaskModel.Model.TextBlocks
/-! Helper lemmas for C50: `findIdx`, `seekSimple` (specification, bounds, monotonicity), slices. -/
namespace Dask.TextBlocks

theorem isPrefixOf_iff {d t : List Nat} : d.isPrefixOf t = true ↔ d <+: t := List.isPrefixOf_iff_prefix

/-- `findIdx` returns the first index at which `d` is a prefix of the rest. -/
theorem findIdx_eq_some_iff (d t : List Nat) (i : Nat) :
    findIdx d t = some i ↔ (d <+: t.drop i ∧ i ≤ t.length ∧ ∀ j, j < i → ¬ d <+: t.drop j) := by
  induction t generalizing i with
  | nil =>
    simp only [findIdx, List.drop_nil, List.length_nil, Nat.le_zero_eq]
    constructor
    · intro h
      split at h
      · rename_i hd
        have : d = [] := by simpa using hd
        subst this
        simp at h; subst h; simp
      · simp at h
    · rintro ⟨hp, hi, _⟩
      subst hi
      have : d = [] := by simpa using hp
      subst this; simp
  | cons c cs ih =>
    simp only [findIdx]
    by_cases hp : d.isPrefixOf (c :: cs) = true
    · simp only [hp, if_true, Option.some.injEq]
      constructor
      · intro h; subst h
        exact ⟨by simpa using isPrefixOf_iff.mp hp, by simp, by intro j hj; omega⟩
      · rintro ⟨_, _, hmin⟩
        cases i with
        | zero => rfl
        | succ i => exact absurd (by simpa using isPrefixOf_iff.mp hp) (hmin 0 (by omega))
    · simp only [hp, Bool.false_eq_true, if_false, Option.map_eq_some_iff]
      have hp' : ¬ d <+: (c :: cs) := fun h => hp (isPrefixOf_iff.mpr h)
      constructor
      · rintro ⟨k, hk, rfl⟩
        obtain ⟨h1, h2, h3⟩ := (ih k).mp hk
        refine ⟨by simpa using h1, by simp; omega, ?_⟩
        intro j hj
        cases j with
        | zero => simpa using hp'
        | succ j => simpa using h3 j (by omega)
      · rintro ⟨h1, h2, h3⟩
        cases i with
        | zero => exact absurd (by simpa using h1) hp'
        | succ i =>
          refine ⟨i, (ih i).mpr ⟨by simpa using h1, by simpa using h2, ?_⟩, rfl⟩
          intro j hj
          simpa using h3 (j + 1) (by omega)

theorem findIdx_eq_none_iff (d t : List Nat) :
    findIdx d t = none ↔ ∀ j, j ≤ t.length → ¬ d <+: t.drop j := by
  constructor
  · intro h j hj hp
    -- take the least such j
    induction j using Nat.strongRecOn with
    | _ j ihj =>
      by_cases hex : ∃ k, k < j ∧ d <+: t.drop k
      · obtain ⟨k, hk, hpk⟩ := hex
        exact ihj k hk (by omega) hpk
      · have : findIdx d t = some j := (findIdx_eq_some_iff d t j).mpr
          ⟨hp, hj, fun k hk hpk => hex ⟨k, hk, hpk⟩⟩
        rw [h] at this; cases this
  · intro h
    cases hf : findIdx d t with
    | none => rfl
    | some i =>
      obtain ⟨h1, h2, _⟩ := (findIdx_eq_some_iff d t i).mp hf
      exact absurd h1 (h i h2)

/-- an occurrence found by `findIdx` fits into the text -/
theorem findIdx_bound {d t : List Nat} {i : Nat} (h : findIdx d t = some i) : i + d.length ≤ t.length := by
  obtain ⟨h1, h2, _⟩ := (findIdx_eq_some_iff d t i).mp h
  have := h1.length_le
  simp only [List.length_drop] at this
  omega

/-- position after `seek_delimiter` started at `pos` -/
def seekPos (d data : List Nat) (pos : Nat) : Nat := (seekSimple d data pos).1

theorem seekPos_zero (d data : List Nat) : seekPos d data 0 = 0 := by simp [seekPos, seekSimple]

theorem seekPos_len {d data : List Nat} (hd : d ≠ []) : seekPos d data data.length = data.length := by
  unfold seekPos seekSimple
  split
  · next h => simp [h]
  · have : findIdx d (data.drop data.length) = none := by
      simp only [List.drop_length, findIdx]
      simp [hd]
    rw [this]; simp

theorem seekPos_le {d data : List Nat} {pos : Nat} (hp : pos ≤ data.length) : seekPos d data pos ≤ data.length := by
  unfold seekPos seekSimple
  split
  · simp
  · split
    · next i hi =>
      have := findIdx_bound hi
      simp only [List.length_drop] at this
      simp only; omega
    · simp only; omega

theorem seekPos_ge {d data : List Nat} {pos : Nat} : pos ≤ seekPos d data pos := by
  unfold seekPos seekSimple
  split
  · omega
  · split <;> simp only <;> omega

/-- `seek_delimiter` is monotone in the start position (this is why consecutive blocks never overlap
    and never leave a gap). -/
theorem seekPos_mono {d data : List Nat} {p p' : Nat} (h : p ≤ p') (hp' : p' ≤ data.length) :
    seekPos d data p ≤ seekPos d data p' := by
  by_cases hp0 : p = 0
  · subst hp0; rw [seekPos_zero]; omega
  have hp'0 : p' ≠ 0 := by omega
  unfold seekPos seekSimple
  simp only [hp0, hp'0, if_false]
  cases hf : findIdx d (data.drop p) with
  | none =>
    have hnone : findIdx d (data.drop p') = none := by
      rw [findIdx_eq_none_iff] at hf ⊢
      intro j hj hpre
      simp only [List.length_drop] at hj hf
      have := hf (p' - p + j) (by omega)
      apply this
      simpa [List.drop_drop, show p + (p' - p + j) = p' + j by omega] using hpre
    rw [hnone]; simp only; omega
  | some i =>
    obtain ⟨h1, h2, h3⟩ := (findIdx_eq_some_iff _ _ _).mp hf
    have hb := findIdx_bound hf
    simp only [List.length_drop] at hb h2
    simp only [List.drop_drop] at h1 h3
    by_cases hge : p' ≤ p + i
    · have : findIdx d (data.drop p') = some (p + i - p') := by
        rw [findIdx_eq_some_iff]
        refine ⟨?_, ?_, ?_⟩
        · simpa [List.drop_drop, show p' + (p + i - p') = p + i by omega] using h1
        · simp only [List.length_drop]; omega
        · intro j hj hpre
          apply h3 (p' - p + j) (by omega)
          simpa [List.drop_drop, show p + (p' - p + j) = p' + j by omega] using hpre
      rw [this]; simp only; omega
    · cases hf' : findIdx d (data.drop p') with
      | none => simp only; omega
      | some i' => simp only; omega

/-! ### slices -/

theorem take_sub_append_drop (data : List Nat) {a b : Nat} (hab : a ≤ b) :
    (data.drop a).take (b - a) ++ data.drop b = data.drop a := by
  have : data.drop b = (data.drop a).drop (b - a) := by
    rw [List.drop_drop]; congr 1; omega
  rw [this, List.take_append_drop]

end Dask.TextBlocks

namespace Dask.TextBlocks

/-- what `seek_delimiter` finds: either the end of the FIRST occurrence of `d` starting at or after
    `pos`, or (no such occurrence) the end of the file. -/
theorem seekPos_spec {d data : List Nat} {pos : Nat} (h0 : 0 < pos) (hp : pos ≤ data.length) :
    (∃ q, pos ≤ q ∧ seekPos d data pos = q + d.length ∧ d <+: data.drop q ∧
        ∀ j, pos ≤ j → j < q → ¬ d <+: data.drop j) ∨
    (seekPos d data pos = data.length ∧ ∀ j, pos ≤ j → j ≤ data.length → ¬ d <+: data.drop j) := by
  unfold seekPos seekSimple
  simp only [show pos ≠ 0 by omega, if_false]
  cases hf : findIdx d (data.drop pos) with
  | some i =>
    left
    obtain ⟨h1, _, h3⟩ := (findIdx_eq_some_iff _ _ _).mp hf
    refine ⟨pos + i, by omega, rfl, by simpa [List.drop_drop] using h1, ?_⟩
    intro j hj hlt hpre
    apply h3 (j - pos) (by omega)
    simpa [List.drop_drop, show pos + (j - pos) = j by omega] using hpre
  | none =>
    right
    rw [findIdx_eq_none_iff] at hf
    refine ⟨by simp only; omega, ?_⟩
    intro j hj hle hpre
    apply hf (j - pos) (by simp only [List.length_drop]; omega)
    simpa [List.drop_drop, show pos + (j - pos) = j by omega] using hpre

/-- `read_block_from_file` with a length and a non-empty delimiter is the slice between two seeks -/
theorem readBlockFromFile_some {d data : List Nat} (hd : d ≠ []) {o l : Nat} (hol : o + l ≤ data.length) :
    readBlockFromFile data d o (some l) =
      (data.drop (seekPos d data o)).take (seekPos d data (o + l) - seekPos d data o) := by
  have hmono : seekPos d data o ≤ seekPos d data (o + l) := seekPos_mono (by omega) hol
  have hde : d.isEmpty = false := by cases d <;> simp_all
  simp only [readBlockFromFile, Option.isNone_some, Bool.false_eq_true, and_false, if_false, readBlock,
    readBlockWith, hde]
  simp only [seekPos] at hmono
  simp only [show ¬ ((seekSimple d data (o + l)).1 < (seekSimple d data o).1) by omega, if_false, readAt, seekPos]

/-- the blocks `read_bytes` builds from a list of offsets (lengths as `read_bytes` derives them) -/
def blocksOf (data d : List Nat) (offs : List Nat) : List (List Nat) :=
  (offs.zip (lengthsOf data.length offs)).map fun ol => readBlockFromFile data d ol.1 (some ol.2)

theorem blocksOf_cons_cons (data d : List Nat) (o o' : Nat) (rest : List Nat) :
    blocksOf data d (o :: o' :: rest) =
      readBlockFromFile data d o (some (o' - o)) :: blocksOf data d (o' :: rest) := by
  simp [blocksOf, lengthsOf]

theorem blocksOf_flatten {d data : List Nat} (hd : d ≠ []) (offs : List Nat) (o : Nat)
    (hs : (o :: offs).Pairwise (· < ·)) (hlt : ∀ x ∈ o :: offs, x < data.length) :
    (blocksOf data d (o :: offs)).flatten = data.drop (seekPos d data o) := by
  induction offs generalizing o with
  | nil =>
    have ho : o < data.length := hlt o (by simp)
    simp only [blocksOf, lengthsOf, List.zip_cons_cons, List.zip_nil_right, List.map_cons, List.map_nil,
      List.flatten_cons, List.flatten_nil, List.append_nil]
    rw [readBlockFromFile_some hd (by omega), show o + (data.length - o) = data.length by omega,
      seekPos_len hd]
    apply List.take_of_length_le
    simp only [List.length_drop]; omega
  | cons o' rest ih =>
    have hoo' : o < o' := (List.pairwise_cons.mp hs).1 o' (by simp)
    have ho' : o' < data.length := hlt o' (by simp)
    have hs' : (o' :: rest).Pairwise (· < ·) := (List.pairwise_cons.mp hs).2
    have ih' := ih o' hs' (fun x hx => hlt x (List.mem_cons_of_mem _ hx))
    rw [blocksOf_cons_cons, List.flatten_cons, ih', readBlockFromFile_some hd (by omega),
      show o + (o' - o) = o' by omega]
    exact take_sub_append_drop data (seekPos_mono (by omega) (by omega))

theorem blocksOf_flatten_le {d data : List Nat} (hd : d ≠ []) (offs : List Nat) (o : Nat)
    (hs : (o :: offs).Pairwise (· ≤ ·)) (hlt : ∀ x ∈ o :: offs, x ≤ data.length) :
    (blocksOf data d (o :: offs)).flatten = data.drop (seekPos d data o) := by
  induction offs generalizing o with
  | nil =>
    have ho : o ≤ data.length := hlt o (by simp)
    simp only [blocksOf, lengthsOf, List.zip_cons_cons, List.zip_nil_right, List.map_cons, List.map_nil,
      List.flatten_cons, List.flatten_nil, List.append_nil]
    rw [readBlockFromFile_some hd (by omega), show o + (data.length - o) = data.length by omega,
      seekPos_len hd]
    apply List.take_of_length_le
    simp only [List.length_drop]; omega
  | cons o' rest ih =>
    have hoo' : o ≤ o' := (List.pairwise_cons.mp hs).1 o' (by simp)
    have ho' : o' ≤ data.length := hlt o' (by simp)
    have hs' : (o' :: rest).Pairwise (· ≤ ·) := (List.pairwise_cons.mp hs).2
    have ih' := ih o' hs' (fun x hx => hlt x (List.mem_cons_of_mem _ hx))
    rw [blocksOf_cons_cons, List.flatten_cons, ih', readBlockFromFile_some hd (by omega),
      show o + (o' - o) = o' by omega]
    exact take_sub_append_drop data (seekPos_mono (by omega) (by omega))

theorem lengthsOf_head_shift (size : Nat) (os : List Nat) (hpos : ∀ x ∈ os, 0 < x) :
    shiftHead (0 :: os, lengthsOf size (0 :: os)) =
      match os with
      | o' :: r => if o' = 1 then (o' :: r, lengthsOf size (o' :: r)) else (1 :: o' :: r, lengthsOf size (1 :: o' :: r))
      | [] => ([1], lengthsOf size [1]) := by
  cases os with
  | nil => simp [shiftHead, lengthsOf]
  | cons o' r =>
    have h0 : 0 < o' := hpos o' (by simp)
    by_cases h : o' = 1
    · subst h; simp [shiftHead, lengthsOf]
    · have h1 : ¬ o' - 1 = 0 := by omega
      simp [shiftHead, lengthsOf, h, h1]

end Dask.TextBlocks
