import DaskModel.Model.BagOps
/-! Helper lemmas for C48 `topk`: insertion sort (descending) is a sorted permutation, sorted permutations
are equal, and the `k` largest of `X ++ Y` only depend on the `k` largest of `X`. -/
namespace Dask.BagOps

def SortedDesc (l : List Int) : Prop := l.Pairwise (fun a b => b ≤ a)

theorem insertDesc_perm (x : Int) (ys : List Int) : (insertDescNat x ys).Perm (x :: ys) := by
  induction ys with
  | nil => simp [insertDescNat]
  | cons y ys ih =>
    simp only [insertDescNat]
    split
    · exact List.Perm.refl _
    · exact (List.Perm.cons y ih).trans (List.Perm.swap x y ys)

theorem insertDesc_sorted (x : Int) (ys : List Int) (h : SortedDesc ys) : SortedDesc (insertDescNat x ys) := by
  induction ys with
  | nil => simp [insertDescNat, SortedDesc]
  | cons y ys ih =>
    simp only [insertDescNat]
    have hy := List.pairwise_cons.mp h
    split
    · next hlt =>
      refine List.pairwise_cons.mpr ⟨?_, h⟩
      intro a ha
      rcases List.mem_cons.mp ha with rfl | ha
      · omega
      · have := hy.1 a ha; omega
    · next hge =>
      refine List.pairwise_cons.mpr ⟨?_, ih hy.2⟩
      intro a ha
      rcases List.mem_cons.mp ((insertDesc_perm x ys).subset ha) with rfl | ha
      · omega
      · exact hy.1 a ha

theorem sortDesc_perm (xs : List Int) : (sortDescInt xs).Perm xs := by
  induction xs with
  | nil => simp [sortDescInt]
  | cons x xs ih =>
    simp only [sortDescInt, List.foldr_cons] at ih ⊢
    exact (insertDesc_perm x _).trans (List.Perm.cons x ih)

theorem sortDesc_sorted (xs : List Int) : SortedDesc (sortDescInt xs) := by
  induction xs with
  | nil => simp [sortDescInt, SortedDesc]
  | cons x xs ih =>
    simp only [sortDescInt, List.foldr_cons] at ih ⊢
    exact insertDesc_sorted x _ ih

/-- two descending lists with the same elements are equal -/
theorem sorted_perm_eq (l₁ l₂ : List Int) (h₁ : SortedDesc l₁) (h₂ : SortedDesc l₂) (hp : l₁.Perm l₂) : l₁ = l₂ := by
  induction l₁ generalizing l₂ with
  | nil => exact (List.Perm.nil_eq hp)
  | cons a as ih =>
    cases l₂ with
    | nil => exact absurd hp.length_eq (by simp)
    | cons b bs =>
      have ha := List.pairwise_cons.mp h₁
      have hb := List.pairwise_cons.mp h₂
      have hab : a = b := by
        have h1 : a ∈ b :: bs := hp.subset (by simp)
        have h2 : b ∈ a :: as := hp.symm.subset (by simp)
        rcases List.mem_cons.mp h1 with h | h
        · exact h
        · rcases List.mem_cons.mp h2 with h' | h'
          · exact h'.symm
          · have := hb.1 a h; have := ha.1 b h'; omega
      subst hab
      rw [ih bs ha.2 hb.2 (List.Perm.cons_inv hp)]

/-- sorting only depends on the multiset -/
theorem sortDesc_congr (xs ys : List Int) (h : xs.Perm ys) : sortDescInt xs = sortDescInt ys :=
  sorted_perm_eq _ _ (sortDesc_sorted xs) (sortDesc_sorted ys)
    ((sortDesc_perm xs).trans (h.trans (sortDesc_perm ys).symm))

/-- inserting below the first `k` elements does not change them -/
theorem take_insertDesc (x : Int) (S : List Int) (k : Nat) (hk : k ≤ S.length) (h : ∀ y ∈ S.take k, x ≤ y) :
    (insertDescNat x S).take k = S.take k := by
  induction S generalizing k with
  | nil => simp at hk; subst hk; simp
  | cons y ys ih =>
    cases k with
    | zero => simp
    | succ k =>
      have hy : x ≤ y := h y (by simp)
      simp only [insertDescNat, show ¬ y < x by omega, if_false, List.take_succ_cons]
      rw [ih k (by simpa using hk) (fun z hz => h z (by simp [hz]))]

/-- in a descending list the elements `≥ b` form a prefix -/
theorem sorted_filter_ge_prefix (S : List Int) (hS : SortedDesc S) (b : Int) :
    S.filter (fun y => decide (b ≤ y)) = S.take (S.filter (fun y => decide (b ≤ y))).length := by
  induction S with
  | nil => simp
  | cons y ys ih =>
    have hy := List.pairwise_cons.mp hS
    simp only [List.filter_cons]
    by_cases hby : b ≤ y
    · simp only [hby, decide_true, if_true, List.length_cons, List.take_succ_cons]
      rw [← ih hy.2]
    · have : ys.filter (fun z => decide (b ≤ z)) = [] := by
        rw [List.filter_eq_nil_iff]
        intro z hz
        have := hy.1 z hz
        simp; omega
      simp [hby, this]

theorem first_k_ge (S : List Int) (hS : SortedDesc S) (b : Int) (k : Nat)
    (hc : k ≤ (S.filter (fun y => decide (b ≤ y))).length) : ∀ y ∈ S.take k, b ≤ y := by
  intro y hy
  have hpre := sorted_filter_ge_prefix S hS b
  have : y ∈ S.filter (fun z => decide (b ≤ z)) := by
    rw [hpre]
    exact (List.take_subset_take_left S hc) hy
  simpa using (List.mem_filter.mp this).2

/-- elements that are dominated by at least `k` elements of `L` do not change the `k` largest -/
theorem topk_append_dominated (k : Nat) (L B : List Int)
    (h : ∀ b ∈ B, k ≤ (L.filter (fun y => decide (b ≤ y))).length) : topk k (L ++ B) = topk k L := by
  induction B generalizing L with
  | nil => simp
  | cons b bs ih =>
    have hb := h b (by simp)
    have h1 : topk k (L ++ b :: bs) = topk k ((b :: L) ++ bs) := by
      simp only [topk]
      rw [sortDesc_congr (L ++ b :: bs) ((b :: L) ++ bs) (by simpa using List.perm_middle)]
    rw [h1, ih (b :: L)]
    · -- topk k (b :: L) = topk k L
      simp only [topk, sortDescInt, List.foldr_cons]
      have hS := sortDesc_sorted L
      have hlen : ((sortDescInt L).filter (fun y => decide (b ≤ y))).length = (L.filter (fun y => decide (b ≤ y))).length :=
        ((sortDesc_perm L).filter _).length_eq
      apply take_insertDesc
      · have : (L.filter fun y => decide (b ≤ y)).length ≤ L.length := List.length_filter_le _ _
        show k ≤ (sortDescInt L).length
        rw [(sortDesc_perm L).length_eq]; omega
      · exact first_k_ge _ hS b k (by rw [hlen]; exact hb)
    · intro b' hb'
      have := h b' (List.mem_cons_of_mem _ hb')
      simp only [List.filter_cons]
      split
      · simp; omega
      · exact this

/-- **the `k` largest of `X ++ Y` only depend on the `k` largest of `X`** -/
theorem topk_append_left (k : Nat) (X Y : List Int) : topk k (topk k X ++ Y) = topk k (X ++ Y) := by
  -- sort X = A ++ B with A its first k elements; B is dominated by A
  have hsplit : (sortDescInt X).take k ++ (sortDescInt X).drop k = sortDescInt X := List.take_append_drop k _
  have h1 : topk k (X ++ Y) = topk k (((sortDescInt X).take k ++ Y) ++ (sortDescInt X).drop k) := by
    simp only [topk]
    rw [sortDesc_congr (X ++ Y) (((sortDescInt X).take k ++ Y) ++ (sortDescInt X).drop k)]
    have hp : (X ++ Y).Perm (sortDescInt X ++ Y) := List.Perm.append_right Y (sortDesc_perm X).symm
    refine hp.trans ?_
    rw [← hsplit, List.append_assoc, List.append_assoc]
    simp only [List.take_append_drop]
    exact List.Perm.append_left _ List.perm_append_comm
  rw [h1, topk_append_dominated k ((sortDescInt X).take k ++ Y) ((sortDescInt X).drop k)]
  · rfl
  · intro b hb
    -- b comes after the first k elements of the sorted X: the first k are all ≥ b and there are k of them
    have hS := sortDesc_sorted X
    have hklen : k ≤ (sortDescInt X).length := by
      rcases Nat.lt_or_ge (sortDescInt X).length k with hlt | hge
      · have : (sortDescInt X).drop k = [] := List.drop_eq_nil_of_le (by omega)
        rw [this] at hb; cases hb
      · exact hge
    have hall : ∀ a ∈ (sortDescInt X).take k, b ≤ a := by
      intro a ha
      have hpw : SortedDesc ((sortDescInt X).take k ++ (sortDescInt X).drop k) := by rw [hsplit]; exact hS
      exact (List.pairwise_append.mp hpw).2.2 a ha b hb
    have hsub : ((sortDescInt X).take k).filter (fun y => decide (b ≤ y)) = (sortDescInt X).take k := by
      rw [List.filter_eq_self]; intro a ha; simpa using hall a ha
    simp only [List.filter_append]
    rw [hsub, List.length_append, List.length_take]
    omega

theorem topk_append_right (k : Nat) (X Y : List Int) : topk k (X ++ topk k Y) = topk k (X ++ Y) := by
  have h1 : topk k (X ++ topk k Y) = topk k (topk k Y ++ X) := by
    simp only [topk]; rw [sortDesc_congr _ _ List.perm_append_comm]
  have h2 : topk k (X ++ Y) = topk k (Y ++ X) := by
    simp only [topk]; rw [sortDesc_congr _ _ List.perm_append_comm]
  rw [h1, h2, topk_append_left]

/-- `topk` is a list homomorphism with combiner `topk ∘ flatten` -/
theorem topk_hom (k : Nat) (qs : List (List Int)) : topk k (qs.map (topk k)).flatten = topk k qs.flatten := by
  induction qs with
  | nil => rfl
  | cons q qs ih =>
    simp only [List.map_cons, List.flatten_cons]
    rw [topk_append_left, ← topk_append_right, ih, topk_append_right]

end Dask.BagOps
