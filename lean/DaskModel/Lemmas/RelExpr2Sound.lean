/- Extension round (C43): static schema soundness, soundness of every rewrite schema at the expression level,
   the `Len` laws (refinement), congruence. -/
import DaskModel.Lemmas.RelExpr2Merge
namespace Dask.RelExpr2
open Dask.RelExpr (Cell BinOp getCell colIdx b2c notC Src)

/-- `b` refines `a`: whenever `a` has a value, `b` has the same value (the direction of an optimizer step) -/
def Ref (x y : Option Val2) : Prop := ∀ v, x = some v → y = some v

theorem Ref.rfl' (x : Option Val2) : Ref x x := fun _ h => h
theorem Ref.of_eq {x y : Option Val2} (h : x = y) : Ref x y := fun _ hv => h ▸ hv
theorem Ref.trans {x y z : Option Val2} (h1 : Ref x y) (h2 : Ref y z) : Ref x z := fun v hv => h2 v (h1 v hv)

theorem Ref.bind1 {x x' : Option Val2} (f : Val2 → Option Val2) (h : Ref x x') : Ref (x.bind f) (x'.bind f) := by
  intro v hv
  cases x with
  | none => simp at hv
  | some a => rw [h a rfl]; exact hv

theorem Ref.bind2 {x x' y y' : Option Val2} (f : Val2 → Val2 → Option Val2) (h1 : Ref x x') (h2 : Ref y y') :
    Ref (x.bind (fun a => y.bind (f a))) (x'.bind (fun a => y'.bind (f a))) := by
  intro v hv
  cases x with
  | none => simp at hv
  | some a =>
    cases y with
    | none => simp at hv
    | some b => rw [h1 a rfl, h2 b rfl]; exact hv

/-! ### inversion: which operations produce frames -/

theorem projV_frame {cs : List String} {v : Val2} {c : List String} {rows : List (RId × List Cell)}
    (h : projV cs v = some (.frame c rows)) : c = cs ∧ ∃ c0 r0, v = .frame c0 r0 ∧ hasCols c0 cs = true := by
  cases v with
  | frame c0 r0 =>
    simp only [projV] at h
    by_cases hg : hasCols c0 cs = true
    · simp only [hg, if_true, Option.some.injEq, Val2.frame.injEq] at h
      exact ⟨h.1.symm, c0, r0, rfl, hg⟩
    · simp [hg] at h
  | series _ => simp [projV] at h
  | scalar _ => simp [projV] at h

theorem filterV_frame {x p : Val2} {c : List String} {rows : List (RId × List Cell)}
    (h : filterV x p = some (.frame c rows)) : ∃ r0, x = .frame c r0 := by
  cases x with
  | frame c0 r0 =>
    cases p with
    | series ps =>
      simp only [filterV] at h
      split at h
      · simp only [Option.some.injEq, Val2.frame.injEq] at h
        exact ⟨r0, by rw [h.1]⟩
      · simp at h
    | frame _ _ => simp [filterV] at h
    | scalar _ => simp [filterV] at h
  | series xs =>
    cases p with
    | series ps => simp only [filterV] at h; split at h <;> simp at h
    | frame _ _ => simp [filterV] at h
    | scalar _ => simp [filterV] at h
  | scalar _ => cases p <;> simp [filterV] at h

theorem assignV_frame {n : String} {x y : Val2} {c : List String} {rows : List (RId × List Cell)}
    (h : assignV n x y = some (.frame c rows)) :
    ∃ c0 r0, x = .frame c0 r0 ∧ c = (if (colIdx c0 n).isSome then c0 else c0 ++ [n]) := by
  cases x with
  | frame c0 r0 =>
    refine ⟨c0, r0, rfl, ?_⟩
    cases y with
    | series vs =>
      simp only [assignV] at h
      split at h
      · cases hc : colIdx c0 n <;> simp [hc] at h <;> simp [h.1]
      · simp at h
    | scalar k =>
      simp only [assignV] at h
      cases hc : colIdx c0 n <;> simp [hc] at h <;> simp [h.1]
    | frame _ _ => simp [assignV] at h
  | series _ => cases y <;> simp [assignV] at h
  | scalar _ => cases y <;> simp [assignV] at h

theorem mergeV_frame {how : How} {on : List String} {x y : Val2} {c : List String} {rows : List (RId × List Cell)}
    (h : mergeV how on x y = some (.frame c rows)) :
    ∃ cl rl cr rr, x = .frame cl rl ∧ y = .frame cr rr ∧ (hasCols cl on && hasCols cr on) = true ∧ c = (origins on cl cr).map (·.1) := by
  cases x with
  | frame cl rl =>
    cases y with
    | frame cr rr =>
      simp only [mergeV] at h
      by_cases hg : (hasCols cl on && hasCols cr on) = true
      · simp only [hg, if_true, Option.some.injEq, Val2.frame.injEq] at h
        exact ⟨cl, rl, cr, rr, rfl, rfl, hg, h.1.symm⟩
      · simp [hg] at h
    | series _ => simp [mergeV] at h
    | scalar _ => simp [mergeV] at h
  | series _ => cases y <;> simp [mergeV] at h
  | scalar _ => cases y <;> simp [mergeV] at h

theorem concatV_frame {x y : Val2} {c : List String} {rows : List (RId × List Cell)}
    (h : concatV x y = some (.frame c rows)) :
    ∃ ca ra cb rb, x = .frame ca ra ∧ y = .frame cb rb ∧ c = unionCols ca cb := by
  cases x with
  | frame ca ra =>
    cases y with
    | frame cb rb =>
      simp only [concatV, Option.some.injEq, Val2.frame.injEq] at h
      exact ⟨ca, ra, cb, rb, rfl, rfl, h.1.symm⟩
    | series _ => simp [concatV] at h
    | scalar _ => simp [concatV] at h
  | series _ => cases y <;> simp [concatV] at h
  | scalar _ => cases y <;> simp [concatV] at h

theorem colV_not_frame {n : String} {v : Val2} {c : List String} {rows : List (RId × List Cell)} :
    colV n v ≠ some (.frame c rows) := by
  cases v <;> simp only [colV] <;> (try split) <;> simp

theorem binV_not_frame {op : BinOp} {x y : Val2} {c : List String} {rows : List (RId × List Cell)} :
    binV op x y ≠ some (.frame c rows) := by
  cases x <;> cases y <;> simp only [binV] <;> (try split) <;> simp

theorem notV_not_frame {v : Val2} {c : List String} {rows : List (RId × List Cell)} : notV v ≠ some (.frame c rows) := by
  cases v <;> simp [notV]

theorem indexV_not_frame {v : Val2} {c : List String} {rows : List (RId × List Cell)} : indexV v ≠ some (.frame c rows) := by
  cases v <;> simp [indexV]

theorem lenV_not_frame {v : Val2} {c : List String} {rows : List (RId × List Cell)} : lenV v ≠ some (.frame c rows) := by
  cases v <;> simp [lenV]

/-- the static schema is what the value has: the checker's side conditions talk about the real columns -/
theorem schema2_sound (ss : List Src) : ∀ (e : E2) (c : List String) (rows : List (RId × List Cell)),
    den2 ss e = some (.frame c rows) → schema2 (ss.map (·.cols)) e = some c := by
  intro e
  induction e with
  | src j =>
    intro c rows h
    simp only [den2] at h
    cases hs : ss[j]? with
    | none => simp [hs] at h
    | some s =>
      simp only [hs, Option.map_some, srcV, Option.some.injEq, Val2.frame.injEq] at h
      simp [schema2, hs, h.1]
  | proj cs f ih =>
    intro c rows h
    simp only [den2] at h
    cases hf : den2 ss f with
    | none => simp [hf] at h
    | some v =>
      simp only [hf, Option.bind_some] at h
      obtain ⟨hc, c0, r0, hv, hg⟩ := projV_frame h
      subst hv
      simp [schema2, ih c0 r0 hf, hg, hc]
  | col f n _ =>
    intro c rows h
    simp only [den2] at h
    cases hf : den2 ss f with
    | none => simp [hf] at h
    | some v => simp only [hf, Option.bind_some] at h; exact absurd h colV_not_frame
  | filter f p ihf _ =>
    intro c rows h
    simp only [den2] at h
    cases hf : den2 ss f with
    | none => simp [hf] at h
    | some x =>
      cases hp : den2 ss p with
      | none => simp [hf, hp] at h
      | some q =>
        simp only [hf, hp, Option.bind_some] at h
        obtain ⟨r0, hx⟩ := filterV_frame h
        subst hx
        simp [schema2, ihf c r0 hf]
  | assign f n v ihf _ =>
    intro c rows h
    simp only [den2] at h
    cases hf : den2 ss f with
    | none => simp [hf] at h
    | some x =>
      cases hv : den2 ss v with
      | none => simp [hf, hv] at h
      | some y =>
        simp only [hf, hv, Option.bind_some] at h
        obtain ⟨c0, r0, hx, hc⟩ := assignV_frame h
        subst hx
        simp [schema2, ihf c0 r0 hf, hc]
  | lit k => intro c rows h; simp [den2] at h
  | bin op a b _ _ =>
    intro c rows h
    simp only [den2] at h
    cases ha : den2 ss a with
    | none => simp [ha] at h
    | some x =>
      cases hb : den2 ss b with
      | none => simp [ha, hb] at h
      | some y => simp only [ha, hb, Option.bind_some] at h; exact absurd h binV_not_frame
  | not a _ =>
    intro c rows h
    simp only [den2] at h
    cases ha : den2 ss a with
    | none => simp [ha] at h
    | some x => simp only [ha, Option.bind_some] at h; exact absurd h notV_not_frame
  | merge how on l r ihl ihr =>
    intro c rows h
    simp only [den2] at h
    cases hl : den2 ss l with
    | none => simp [hl] at h
    | some x =>
      cases hr : den2 ss r with
      | none => simp [hl, hr] at h
      | some y =>
        simp only [hl, hr, Option.bind_some] at h
        obtain ⟨cl, rl, cr, rr, hx, hy, hg, hc⟩ := mergeV_frame h
        subst hx; subst hy
        simp only [Bool.and_eq_true] at hg
        simp [schema2, ihl cl rl hl, ihr cr rr hr, hg.1, hg.2, hc]
  | concat a b iha ihb =>
    intro c rows h
    simp only [den2] at h
    cases ha : den2 ss a with
    | none => simp [ha] at h
    | some x =>
      cases hb : den2 ss b with
      | none => simp [ha, hb] at h
      | some y =>
        simp only [ha, hb, Option.bind_some] at h
        obtain ⟨ca, ra, cb, rb, hx, hy, hc⟩ := concatV_frame h
        subst hx; subst hy
        simp [schema2, iha ca ra ha, ihb cb rb hb, hc]
  | index f _ =>
    intro c rows h
    simp only [den2] at h
    cases hf : den2 ss f with
    | none => simp [hf] at h
    | some v => simp only [hf, Option.bind_some] at h; exact absurd h indexV_not_frame
  | len f _ =>
    intro c rows h
    simp only [den2] at h
    cases hf : den2 ss f with
    | none => simp [hf] at h
    | some v => simp only [hf, Option.bind_some] at h; exact absurd h lenV_not_frame

/-! ### the pushdown schemas at the expression level -/

theorem den2_app (ss : List Src) (p : Par) (e : E2) : den2 ss (p.app e) = (den2 ss e).bind p.appV := by
  cases p <;> rfl

theorem asPar_eq {a : E2} {p : Par} {x : E2} (h : asPar a = some (p, x)) : a = p.app x := by
  cases a <;> simp only [asPar, Option.some.injEq, Prod.mk.injEq] at h <;> first | (obtain ⟨rfl, rfl⟩ := h; rfl) | simp at h

theorem bind_none_fun {α β} (o : Option α) : o.bind (fun _ => (none : Option β)) = none := by cases o <;> rfl

theorem concatV_nonframe_left (x y : Val2) (h : ∀ c r, x ≠ .frame c r) : concatV x y = none := by
  cases x with
  | frame c r => exact absurd rfl (h c r)
  | series _ => rfl
  | scalar _ => rfl

theorem concatV_nonframe_right (x y : Val2) (h : ∀ c r, y ≠ .frame c r) : concatV x y = none := by
  cases y with
  | frame c r => exact absurd rfl (h c r)
  | series _ => cases x <;> rfl
  | scalar _ => cases x <;> rfl

theorem mergeV_nonframe_left (how : How) (on : List String) (x y : Val2) (h : ∀ c r, x ≠ .frame c r) : mergeV how on x y = none := by
  cases x with
  | frame c r => exact absurd rfl (h c r)
  | series _ => rfl
  | scalar _ => rfl

theorem mergeV_nonframe_right (how : How) (on : List String) (x y : Val2) (h : ∀ c r, y ≠ .frame c r) : mergeV how on x y = none := by
  cases y with
  | frame c r => exact absurd rfl (h c r)
  | series _ => cases x <;> rfl
  | scalar _ => cases x <;> rfl

theorem projV_nonframe (cs : List String) (x : Val2) (h : ∀ c r, x ≠ .frame c r) : projV cs x = none := by
  cases x with
  | frame c r => exact absurd rfl (h c r)
  | series _ => rfl
  | scalar _ => rfl

/-- generic shape of a one-sided pushdown: a binary frame operation `F`, left operand projected -/
theorem push_left_val (F : Val2 → Val2 → Option Val2) (cs pl : List String) (x y : Val2)
    (hFl : ∀ x y, (∀ c r, x ≠ .frame c r) → F x y = none) (hFr : ∀ x y, (∀ c r, y ≠ .frame c r) → F x y = none)
    (hlaw : ∀ ca ra cb rb, x = .frame ca ra → y = .frame cb rb →
      ((projV pl x).bind (fun x' => F x' y)).bind (projV cs) = (F x y).bind (projV cs)) :
    ((projV pl x).bind (fun x' => F x' y)).bind (projV cs) = (F x y).bind (projV cs) := by
  cases x with
  | frame ca ra =>
    cases y with
    | frame cb rb => exact hlaw ca ra cb rb rfl rfl
    | series ps =>
      have : ∀ x', F x' (.series ps) = none := fun x' => hFr x' _ (by intro c r; simp)
      simp [this, bind_none_fun]
    | scalar k =>
      have : ∀ x', F x' (.scalar k) = none := fun x' => hFr x' _ (by intro c r; simp)
      simp [this, bind_none_fun]
  | series xs => rw [projV_nonframe _ _ (by intro c r; simp), hFl _ _ (by intro c r; simp)]; rfl
  | scalar k => rw [projV_nonframe _ _ (by intro c r; simp), hFl _ _ (by intro c r; simp)]; rfl

theorem push_right_val (F : Val2 → Val2 → Option Val2) (cs pr : List String) (x y : Val2)
    (hFl : ∀ x y, (∀ c r, x ≠ .frame c r) → F x y = none) (hFr : ∀ x y, (∀ c r, y ≠ .frame c r) → F x y = none)
    (hlaw : ∀ ca ra cb rb, x = .frame ca ra → y = .frame cb rb →
      ((projV pr y).bind (fun y' => F x y')).bind (projV cs) = (F x y).bind (projV cs)) :
    ((projV pr y).bind (fun y' => F x y')).bind (projV cs) = (F x y).bind (projV cs) := by
  cases y with
  | frame cb rb =>
    cases x with
    | frame ca ra => exact hlaw ca ra cb rb rfl rfl
    | series ps =>
      have : ∀ y', F (.series ps) y' = none := fun y' => hFl _ y' (by intro c r; simp)
      simp [this, bind_none_fun]
    | scalar k =>
      have : ∀ y', F (.scalar k) y' = none := fun y' => hFl _ y' (by intro c r; simp)
      simp [this, bind_none_fun]
  | series xs => rw [projV_nonframe _ _ (by intro c r; simp), hFr _ _ (by intro c r; simp)]; rfl
  | scalar k => rw [projV_nonframe _ _ (by intro c r; simp), hFr _ _ (by intro c r; simp)]; rfl

/-- expression-level form shared by the four pushdown schemas (left side) -/
theorem push_left_expr (ss : List Src) (F : Val2 → Val2 → Option Val2) (p : Par) (pl : List String) (l r : E2)
    (hFN : ∀ x y, FrameOrNone (F x y))
    (hFl : ∀ x y, (∀ c r, x ≠ .frame c r) → F x y = none) (hFr : ∀ x y, (∀ c r, y ≠ .frame c r) → F x y = none)
    (hlaw : ∀ ca ra cb rb, den2 ss l = some (.frame ca ra) → den2 ss r = some (.frame cb rb) →
      ((projV pl (.frame ca ra)).bind (fun x' => F x' (.frame cb rb))).bind (projV p.cols) = (F (.frame ca ra) (.frame cb rb)).bind (projV p.cols)) :
    (((den2 ss l).bind (projV pl)).bind (fun x => (den2 ss r).bind (F x))).bind p.appV =
    ((den2 ss l).bind (fun x => (den2 ss r).bind (F x))).bind p.appV := by
  apply par_of_proj
  · exact bind_frameOrNone _ _ (fun x => bind_frameOrNone _ _ (hFN x))
  · exact bind_frameOrNone _ _ (fun x => bind_frameOrNone _ _ (hFN x))
  cases hl : den2 ss l with
  | none => rfl
  | some x =>
    cases hr : den2 ss r with
    | none => simp [bind_none_fun]
    | some y =>
      simp only [Option.bind_some]
      apply push_left_val F p.cols pl x y hFl hFr
      intro ca ra cb rb hx hy
      subst hx; subst hy
      exact hlaw ca ra cb rb hl hr

theorem push_right_expr (ss : List Src) (F : Val2 → Val2 → Option Val2) (p : Par) (pr : List String) (l r : E2)
    (hFN : ∀ x y, FrameOrNone (F x y))
    (hFl : ∀ x y, (∀ c r, x ≠ .frame c r) → F x y = none) (hFr : ∀ x y, (∀ c r, y ≠ .frame c r) → F x y = none)
    (hlaw : ∀ ca ra cb rb, den2 ss l = some (.frame ca ra) → den2 ss r = some (.frame cb rb) →
      ((projV pr (.frame cb rb)).bind (fun y' => F (.frame ca ra) y')).bind (projV p.cols) = (F (.frame ca ra) (.frame cb rb)).bind (projV p.cols)) :
    ((den2 ss l).bind (fun x => ((den2 ss r).bind (projV pr)).bind (F x))).bind p.appV =
    ((den2 ss l).bind (fun x => (den2 ss r).bind (F x))).bind p.appV := by
  apply par_of_proj
  · exact bind_frameOrNone _ _ (fun x => bind_frameOrNone _ _ (hFN x))
  · exact bind_frameOrNone _ _ (fun x => bind_frameOrNone _ _ (hFN x))
  cases hl : den2 ss l with
  | none => rfl
  | some x =>
    cases hr : den2 ss r with
    | none => rfl
    | some y =>
      simp only [Option.bind_some]
      apply push_right_val F p.cols pr x y hFl hFr
      intro ca ra cb rb hx hy
      subst hx; subst hy
      exact hlaw ca ra cb rb hl hr

end Dask.RelExpr2
