import DaskModel.Lemmas.LegacyInline4
import DaskModel.Props.C07
/-! C09 extension round, part 5: the replace order of `inline` — the C07 `toposort` model run on the graph's dependency
sets, keys interned by position — exists on every DAG and has the properties `TopoOK`. -/
namespace Dask.TaskTerm
open Dask.GraphAlg

/-! ### interning -/

theorem idxIn_get : ∀ (K : List Obj) (k : Obj) (i : Nat), idxIn K k = some i → K[i]? = some k
  | [], _, _, h => by simp [idxIn] at h
  | x :: xs, k, i, h => by
    unfold idxIn at h
    split at h
    · rename_i he
      cases h
      simp [eq_of_beq he]
    · cases hi : idxIn xs k with
      | none => simp [hi] at h
      | some j =>
        simp only [hi, Option.map_some, Option.some.injEq] at h
        subst h
        simpa using idxIn_get xs k j hi

theorem idxIn_of_mem : ∀ (K : List Obj) (k : Obj), k ∈ K → ∃ i, idxIn K k = some i
  | [], _, h => by simp at h
  | x :: xs, k, h => by
    unfold idxIn
    by_cases he : (x == k) = true
    · exact ⟨0, by simp [he]⟩
    · have hne : x ≠ k := fun e => he (e ▸ beq_self_eq_true x)
      have hm : k ∈ xs := by
        rcases List.mem_cons.mp h with rfl | h
        · exact absurd rfl hne
        · exact h
      obtain ⟨j, hj⟩ := idxIn_of_mem xs k hm
      exact ⟨j + 1, by simp [he, hj]⟩

theorem idxIn_of_get_nodup : ∀ (K : List Obj), K.Nodup → ∀ (i : Nat) (k : Obj), K[i]? = some k → idxIn K k = some i
  | [], _, i, k, h => by simp at h
  | x :: xs, hn, i, k, h => by
    simp only [List.nodup_cons] at hn
    unfold idxIn
    cases i with
    | zero =>
      simp only [List.getElem?_cons_zero, Option.some.injEq] at h
      subst h; simp
    | succ j =>
      simp only [List.getElem?_cons_succ] at h
      have hm : k ∈ xs := List.mem_of_getElem? h
      have hne : (x == k) = false := by
        rw [Bool.eq_false_iff]; intro hc
        exact hn.1 ((eq_of_beq hc) ▸ hm)
      simp [hne, idxIn_of_get_nodup xs hn.2 j k h]

/-! ### the dependency graph over positions -/

/-- adjacency of an entry -/
def adjOf (iter : List Obj → List Obj) (K : List Obj) (t : Obj) : List Nat := (iter (refSet K t)).filterMap (idxIn K)

theorem depGraphFrom_keys (iter : List Obj → List Obj) (K : List Obj) : ∀ (off : Nat) (g : LGraph),
    (depGraphFrom iter K off g).map Prod.fst = List.range' off g.length
  | _, [] => rfl
  | off, (_, t) :: rest => by
    simp only [depGraphFrom, List.map_cons, List.length_cons, List.range'_succ, depGraphFrom_keys iter K (off + 1) rest]

theorem depGraphFrom_lookup (iter : List Obj → List Obj) (K : List Obj) : ∀ (off : Nat) (g : LGraph) (j : Nat) (ds : List Nat),
    deps? (depGraphFrom iter K off g) j = some ds ↔ ∃ i kt, j = off + i ∧ g[i]? = some kt ∧ ds = adjOf iter K kt.2
  | off, [], j, ds => by simp [depGraphFrom, deps?]
  | off, (k, t) :: rest, j, ds => by
    unfold deps? at *
    simp only [depGraphFrom, List.lookup]
    by_cases hj : (j == off) = true
    · have hj' : j = off := by simpa using hj
      subst hj'
      simp only [hj]
      constructor
      · intro h; cases h; exact ⟨0, (k, t), rfl, rfl, rfl⟩
      · rintro ⟨i, kt, h1, h2, h3⟩
        have : i = 0 := by omega
        subst this
        simp only [List.getElem?_cons_zero, Option.some.injEq] at h2
        subst h2; rw [h3]; rfl
    · have hj' : (j == off) = false := by simpa using hj
      have hne : j ≠ off := by simpa using hj'
      simp only [hj']
      rw [show List.lookup j (depGraphFrom iter K (off + 1) rest) = deps? (depGraphFrom iter K (off + 1) rest) j from rfl,
        depGraphFrom_lookup iter K (off + 1) rest j ds]
      constructor
      · rintro ⟨i, kt, h1, h2, h3⟩
        exact ⟨i + 1, kt, by omega, by simpa using h2, h3⟩
      · rintro ⟨i, kt, h1, h2, h3⟩
        cases i with
        | zero => omega
        | succ i' => exact ⟨i', kt, by omega, by simpa using h2, h3⟩

theorem get_keys_of_get (g : LGraph) (i : Nat) (kt : Obj × Obj) (h : g[i]? = some kt) : (g.map Prod.fst)[i]? = some kt.1 := by
  simp [List.getElem?_map, h]

/-- an edge of the position graph is a reference of the legacy graph -/
theorem edge_ref {iter : List Obj → List Obj} (hiter : IterOK iter) (g : LGraph) (hnd : (g.map Prod.fst).Nodup) (a b : Nat)
    (h : Edge (depGraphFrom iter (g.map Prod.fst) 0 g) a b) :
    ∃ ka ta kb, (g.map Prod.fst)[a]? = some ka ∧ g.lookup ka = some ta ∧ (g.map Prod.fst)[b]? = some kb ∧
      kb ∈ legacyRefs (g.map Prod.fst) ta := by
  obtain ⟨ds, hds, hb⟩ := h
  obtain ⟨i, kt, h1, h2, h3⟩ := (depGraphFrom_lookup iter _ 0 g a ds).mp hds
  have hai : a = i := by omega
  subst hai
  subst h3
  unfold adjOf at hb
  obtain ⟨d, hd, hdi⟩ := List.mem_filterMap.mp hb
  have hd' : d ∈ legacyRefs (g.map Prod.fst) kt.2 := mem_of_mem_dedup _ _ ((hiter _ d).mp hd)
  refine ⟨kt.1, kt.2, d, get_keys_of_get g a kt h2, ?_, idxIn_get _ d b hdi, hd'⟩
  exact lookup_of_mem_nodupL g hnd kt.1 kt.2 (List.mem_of_getElem? h2)

theorem ref_edge {iter : List Obj → List Obj} (hiter : IterOK iter) (g : LGraph) (hnd : (g.map Prod.fst).Nodup)
    (a : Nat) (ka ta d : Obj) (hka : (g.map Prod.fst)[a]? = some ka) (hta : g.lookup ka = some ta)
    (hd : d ∈ legacyRefs (g.map Prod.fst) ta) :
    ∃ b, idxIn (g.map Prod.fst) d = some b ∧ Edge (depGraphFrom iter (g.map Prod.fst) 0 g) a b := by
  obtain ⟨b, hb⟩ := idxIn_of_mem _ d (legacyRefs_mem _ ta d hd)
  refine ⟨b, hb, adjOf iter (g.map Prod.fst) ta, ?_, ?_⟩
  · rw [depGraphFrom_lookup]
    rw [List.getElem?_map] at hka
    cases hg : g[a]? with
    | none => simp [hg] at hka
    | some kt =>
      simp only [hg, Option.map_some, Option.some.injEq] at hka
      have := lookup_of_mem_nodupL g hnd kt.1 kt.2 (List.mem_of_getElem? hg)
      rw [hka, hta] at this
      cases this
      exact ⟨a, kt, by omega, hg, rfl⟩
  · unfold adjOf
    exact List.mem_filterMap.mpr ⟨d, (hiter _ d).mpr (mem_dedup _ _ hd), hb⟩

theorem keysAt_eq : ∀ (K : List Obj) (xs : List Nat), (∀ i ∈ xs, i < K.length) →
    ∃ ks, keysAt K xs = some ks ∧ ks.length = xs.length ∧ ∀ j (hj : j < xs.length), ks[j]? = K[xs[j]]?
  | K, [], _ => ⟨[], rfl, rfl, by simp⟩
  | K, i :: is, h => by
    obtain ⟨ks, h1, h2, h3⟩ := keysAt_eq K is (fun i' hi' => h i' (List.mem_cons_of_mem _ hi'))
    have hi := h i (by simp)
    refine ⟨K[i] :: ks, by simp [keysAt, h1, List.getElem?_eq_getElem hi], by simp [h2], ?_⟩
    intro j hj
    cases j with
    | zero => simp [List.getElem?_eq_getElem hi]
    | succ j' => simpa using h3 j' (by simpa using hj)

/-! ### the replace order -/

theorem deps_isSome_of_lt (iter : List Obj → List Obj) (g : LGraph) (j : Nat) (hj : j < g.length) :
    (deps? (depGraphFrom iter (g.map Prod.fst) 0 g) j).isSome := by
  have : deps? (depGraphFrom iter (g.map Prod.fst) 0 g) j = some (adjOf iter (g.map Prod.fst) (g[j]).2) :=
    (depGraphFrom_lookup iter _ 0 g j _).mpr ⟨j, g[j], by omega, List.getElem?_eq_getElem hj, rfl⟩
  simp [this]

theorem lt_of_get_keys (g : LGraph) (i : Nat) (k : Obj) (h : (g.map Prod.fst)[i]? = some k) : i < g.length := by
  have := (List.getElem?_eq_some_iff.mp h).1
  simpa using this

/-- rank of a position -/
def rankAt (K : List Obj) (rank : Obj → Nat) (i : Nat) : Nat :=
  match K[i]? with
  | some k => rank k
  | none => 0

theorem path_rank {iter : List Obj → List Obj} (hiter : IterOK iter) (g : LGraph) (hnd : (g.map Prod.fst).Nodup)
    (rank : Obj → Nat) (hdag : DagL g rank) {a b : Nat}
    (p : Path (depGraphFrom iter (g.map Prod.fst) 0 g) a b) :
    rankAt (g.map Prod.fst) rank b < rankAt (g.map Prod.fst) rank a := by
  have hedge : ∀ a b, Edge (depGraphFrom iter (g.map Prod.fst) 0 g) a b →
      rankAt (g.map Prod.fst) rank b < rankAt (g.map Prod.fst) rank a := by
    intro a b e
    obtain ⟨ka, ta, kb, h1, h2, h3, h4⟩ := edge_ref hiter g hnd a b e
    simp only [rankAt, h1, h3]
    exact hdag ka ta h2 kb h4
  induction p with
  | single e => exact hedge _ _ e
  | cons e _ ih => exact Nat.lt_trans ih (hedge _ _ e)

/-- **`replaceorder` exists on a DAG and is what the loops of `inline` need**: graph keys only, each after all its
    dependencies, containing every key to inline. -/
theorem replaceOrder_ok {iter : List Obj → List Obj} (hiter : IterOK iter) (g : LGraph) (hnd : (g.map Prod.fst).Nodup)
    (rank : Obj → Nat) (hdag : DagL g rank) (S : List Obj) :
    ∃ order, replaceOrder iter g S = some order ∧ TopoOK g S order := by
  let K := g.map Prod.fst
  let G := depGraphFrom iter K 0 g
  let start := (iter (dedup (S.filter fun k => K.contains k))).filterMap (idxIn K)
  have hKlen : K.length = g.length := by simp [K]
  have hcl : Closed G := by
    intro a b e
    obtain ⟨_, _, kb, _, _, h3, _⟩ := edge_ref hiter g hnd a b e
    exact deps_isSome_of_lt iter g b (lt_of_get_keys g b kb h3)
  have hndG : (G.map Prod.fst).Nodup := by
    show ((depGraphFrom iter K 0 g).map Prod.fst).Nodup
    rw [depGraphFrom_keys]
    exact List.nodup_range'
  have hstart : ∀ i ∈ start, ∃ k, idxIn K k = some i ∧ k ∈ S ∧ k ∈ K := by
    intro i hi
    obtain ⟨k, hk, hki⟩ := List.mem_filterMap.mp hi
    have hk' := mem_of_mem_dedup _ _ ((hiter _ k).mp hk)
    rw [List.mem_filter] at hk'
    exact ⟨k, hki, hk'.1, by simpa using hk'.2⟩
  have hk : ∀ i ∈ start, (deps? G i).isSome := by
    intro i hi
    obtain ⟨k, hki, _, _⟩ := hstart i hi
    exact deps_isSome_of_lt iter g i (lt_of_get_keys g i k (idxIn_get K k i hki))
  have hreach : ∀ i, Reach G start i → i < g.length := by
    intro i hr
    induction hr with
    | start hs =>
      obtain ⟨k, hki, _, _⟩ := hstart _ hs
      exact lt_of_get_keys g _ k (idxIn_get K k _ hki)
    | step _ e _ =>
      obtain ⟨_, _, kb, _, _, h3, _⟩ := edge_ref hiter g hnd _ _ e
      exact lt_of_get_keys g _ kb h3
  rcases Dask.C07.toposort_total G start hcl hndG hk with ⟨xs, hx⟩ | ⟨c, hc⟩
  · have hxw : toposortWith G start (defaultFuel G start) = .ordered xs := hx
    have hlt : ∀ i ∈ xs, i < K.length := fun i hi => by
      rw [hKlen]; exact hreach i ((Dask.C07.toposort_mem_iff_reach hxw i).mp hi)
    obtain ⟨order, ho, holen, hoget⟩ := keysAt_eq K xs hlt
    have hro : replaceOrder iter g S = some order := by
      show (match toposort G start with
        | .ordered xs => keysAt K xs
        | _ => none) = some order
      rw [hx]; exact ho
    refine ⟨order, hro, ?_, ?_, ?_⟩
    · intro k hko
      obtain ⟨j, hj⟩ := List.mem_iff_getElem?.mp hko
      have hjl : j < xs.length := by
        rw [← holen]; exact (List.getElem?_eq_some_iff.mp hj).1
      rw [hoget j hjl] at hj
      exact mem_keys_lookup_isSome g k (List.mem_of_getElem? hj)
    · intro pre key post hsplit t hl d hd
      have hjl : pre.length < xs.length := by rw [← holen, hsplit]; simp
      have hkey : order[pre.length]? = some key := by rw [hsplit]; simp
      rw [hoget _ hjl] at hkey
      obtain ⟨b, hb, he⟩ := ref_edge hiter g hnd (xs[pre.length]) key t d hkey hl hd
      have hxs : xs = xs.take pre.length ++ xs[pre.length] :: xs.drop (pre.length + 1) := by
        rw [← List.drop_eq_getElem_cons hjl, List.take_append_drop]
      have hbpre := Dask.C07.toposort_respects_deps hxw _ _ _ hxs b he
      obtain ⟨j', hj'⟩ := List.mem_iff_getElem?.mp hbpre
      rw [List.getElem?_take] at hj'
      split at hj'
      · rename_i hlt'
        have hj'l : j' < xs.length := (List.getElem?_eq_some_iff.mp hj').1
        have hod : order[j']? = some d := by
          rw [hoget j' hj'l]
          have : xs[j'] = b := by
            have := List.getElem?_eq_getElem hj'l
            rw [this] at hj'; exact Option.some.inj hj'
          rw [this]; exact idxIn_get K d b hb
        rw [hsplit, List.getElem?_append_left hlt'] at hod
        exact List.mem_of_getElem? hod
      · cases hj'
    · intro k hkS hkK
      obtain ⟨i, hi⟩ := idxIn_of_mem K k hkK
      have his : i ∈ start := by
        apply List.mem_filterMap.mpr
        refine ⟨k, (hiter _ k).mpr (mem_dedup _ _ ?_), hi⟩
        rw [List.mem_filter]
        exact ⟨hkS, (contains_iff_mem K k).mpr hkK⟩
      have hix := Dask.C07.toposort_contains_keys hxw i his
      obtain ⟨j, hj⟩ := List.mem_iff_getElem?.mp hix
      have hjl : j < xs.length := (List.getElem?_eq_some_iff.mp hj).1
      have : order[j]? = some k := by
        rw [hoget j hjl]
        have : xs[j] = i := by
          have := List.getElem?_eq_getElem hjl
          rw [this] at hj; exact Option.some.inj hj
        rw [this]; exact idxIn_get K k i hi
      exact List.mem_of_getElem? this
  · exfalso
    have hcw : toposortWith G start (defaultFuel G start) = .cycle c := hc
    obtain ⟨k, _, hp⟩ := Dask.C07.toposort_cycle_reachable_cycle hcw
    exact Nat.lt_irrefl _ (path_rank hiter g hnd rank hdag hp)

end Dask.TaskTerm
