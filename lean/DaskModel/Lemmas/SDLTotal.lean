import DaskModel.Lemmas.SDLExact
/-! C45: `sorted_division_locations` in general — totality (no IndexError, the model's fuel suffices) for every
    sorted non-empty input and both modes, "never more than `n` partitions", and "exactly `n` partitions when
    there are at least `n` distinct values" (the `enforce_exact` step-back arithmetic). Core Lean only. -/
namespace Dask.SDL

/-! ### `dedupSorted` is strictly increasing; indices in strictly increasing lists -/

theorem dedupSorted_strict {xs : List Nat} (hs : Sorted xs) : (dedupSorted xs).Pairwise (· < ·) := by
  fun_induction dedupSorted xs with
  | case1 => exact List.Pairwise.nil
  | case2 x => exact List.pairwise_singleton _ _
  | case3 y rest ih => exact ih (List.pairwise_cons.mp hs).2
  | case4 x y rest hxy ih =>
    have hs' : Sorted (y :: rest) := (List.pairwise_cons.mp hs).2
    refine List.pairwise_cons.mpr ⟨?_, ih hs'⟩
    intro a ha
    have ha' : a ∈ y :: rest := (dedupSorted_sublist _).subset ha
    have hxy' : x ≤ y := (List.pairwise_cons.mp hs).1 y List.mem_cons_self
    rcases List.mem_cons.mp ha' with rfl | har
    · omega
    · have : y ≤ a := (List.pairwise_cons.mp hs').1 a har
      omega

theorem dedupSorted_head? (xs : List Nat) : (dedupSorted xs).head? = xs.head? := by
  fun_induction dedupSorted xs with
  | case1 => rfl
  | case2 x => rfl
  | case3 y rest ih => simpa using ih
  | case4 x y rest hxy ih => rfl

theorem strict_get_lt {xs : List Nat} (h : xs.Pairwise (· < ·)) {a b x y : Nat} (hab : a < b)
    (hx : xs[a]? = some x) (hy : xs[b]? = some y) : x < y := by
  obtain ⟨ha, rfl⟩ := List.getElem?_eq_some_iff.mp hx
  obtain ⟨hb, rfl⟩ := List.getElem?_eq_some_iff.mp hy
  exact (List.pairwise_iff_getElem.mp h) a b ha hb hab

theorem strict_idx_le {xs : List Nat} (h : xs.Pairwise (· < ·)) {a b x y : Nat}
    (hx : xs[a]? = some x) (hy : xs[b]? = some y) (hxy : x ≤ y) : a ≤ b := by
  apply Nat.le_of_not_lt
  intro hlt
  have := strict_get_lt h hlt hy hx
  omega

theorem sorted_idx_lt {xs : List Nat} (h : Sorted xs) {a b x y : Nat}
    (hx : xs[a]? = some x) (hy : xs[b]? = some y) (hxy : x < y) : a < b := by
  apply Nat.lt_of_not_le
  intro hle
  have := sorted_get_le h hle hy hx
  omega

theorem prefixLoc_le (chunk residual : Nat) {a b : Nat} (hab : a ≤ b) :
    prefixLoc chunk residual a ≤ prefixLoc chunk residual b := by
  unfold prefixLoc
  have := Nat.mul_le_mul_right chunk hab
  omega

/-! ### the parameters of the loop -/

/-- facts about `mkParams seq m` used by the totality / exactness proofs -/
structure DWf (seq : List Nat) (p : Params) : Prop where
  uniq_strict : p.uniq.Pairwise (· < ·)
  uniq_mem : ∀ u ∈ p.uniq, u ∈ seq
  uniq_head : p.uniq.head? = seq.head?
  bis : ∀ v ∈ seq, p.uniq[bisectLeft p.uniq v]? = some v
  offs : p.dup = true → p.offsets = p.uniq.map (bisectLeft seq)
  strict : p.dup = false → seq.Pairwise (· < ·)

theorem mkParams_dwf {seq : List Nat} (hs : Sorted seq) (m : Mode) : DWf seq (mkParams seq m) := by
  have key : ∀ (p : Params), p.uniq = dedupSorted seq →
      p.dup = decide ((dedupSorted seq).length < seq.length) →
      p.offsets = (if p.dup then (dedupSorted seq).map (bisectLeft seq) else []) → DWf seq p := by
    intro p h2 h3 h4
    refine ⟨?_, ?_, ?_, ?_, ?_, ?_⟩
    · rw [h2]; exact dedupSorted_strict hs
    · rw [h2]; exact fun u hu => (dedupSorted_sublist seq).subset hu
    · rw [h2]; exact dedupSorted_head? seq
    · intro v hv
      rw [h2]
      exact (bisectLeft_mem (sorted_dedupSorted hs) (mem_dedupSorted hv)).1
    · intro hd
      rw [h4, hd, h2]; rfl
    · intro hd
      rw [h3] at hd
      exact strict_of_no_dup hs (by simpa using hd)
  cases m <;> exact key _ rfl rfl rfl

/-- entry `k` of `offsets` is the first-occurrence position of `uniq[k]` -/
theorem DWf.offs_get {seq : List Nat} {p : Params} (hw : DWf seq p) (hs : Sorted seq) (hd : p.dup = true)
    {k u : Nat} (hu : p.uniq[k]? = some u) :
    ∃ o, pyGet? p.offsets (k : Int) = some o ∧ seq[o]? = some u ∧ FirstOcc seq o := by
  refine ⟨bisectLeft seq u, ?_, ?_⟩
  · rw [pyGet?_ofNat, hw.offs hd, List.getElem?_map, hu]; rfl
  · exact bisectLeft_mem hs (hw.uniq_mem u (List.mem_of_getElem? hu))

theorem DWf.offs_length {seq : List Nat} {p : Params} (hw : DWf seq p) (hd : p.dup = true) :
    p.offsets.length = p.uniq.length := by
  rw [hw.offs hd, List.length_map]

/-! ### evaluating one loop iteration forwards -/

theorem step_eq {p : Params} {s : St} {div0 lastDiv lastLoc i div pos : Nat} {ind : Option Int}
    (h0 : p.seq[s.i]? = some div0) (hd : s.divisions.head? = some lastDiv)
    (hl : s.locations.head? = some lastLoc) (hc : candidate p s div0 = some (i, div, ind, pos)) :
    step p s = advance p s lastDiv lastLoc i div ind pos := by
  simp [step, h0, hd, hl, hc]

theorem candidateDup_back {p : Params} {s : St} {div0 : Nat} {ind0 : Int} {i1 d1 : Nat}
    (he : p.enforce = true) (hgt : s.divsRemain > (p.offsets.length : Int) - ind0)
    (h1 : pyGet? p.offsets (ind0 - (s.divsRemain - ((p.offsets.length : Int) - ind0))) = some i1)
    (h2 : p.seq[i1]? = some d1) :
    candidateDup p s div0 ind0 =
      some (i1, d1, some (ind0 - (s.divsRemain - ((p.offsets.length : Int) - ind0))), i1) := by
  simp [candidateDup, he, hgt, h1, h2]

theorem candidateDup_fwd {p : Params} {s : St} {div0 : Nat} {ind0 : Int} {pos : Nat}
    (hno : ¬ (p.enforce = true ∧ s.divsRemain > (p.offsets.length : Int) - ind0))
    (h1 : pyGet? p.offsets ind0 = some pos) :
    candidateDup p s div0 ind0 = some (s.i, div0, some ind0, pos) := by
  unfold candidateDup
  have : (p.enforce && decide (s.divsRemain > (p.offsets.length : Int) - ind0)) = false := by
    by_cases he : p.enforce = true
    · have : ¬ s.divsRemain > (p.offsets.length : Int) - ind0 := fun h => hno ⟨he, h⟩
      simp [he, this]
    · simp [he]
  simp [this, h1]

theorem advance_skip_dup {p : Params} {s : St} {lastDiv lastLoc i div pos i' : Nat} {k : Int}
    (hle : div ≤ lastDiv) (hd : p.dup = true) (hn : nextI p (k + 1) = some i') :
    advance p s lastDiv lastLoc i div (some k) pos = some { s with i := i', ind := some (k + 1) } := by
  simp [advance, hle, hd, hn]

theorem advance_skip_nodup {p : Params} {s : St} {lastDiv lastLoc i div pos : Nat} {ind : Option Int}
    (hle : div ≤ lastDiv) (hd : p.dup = false) :
    advance p s lastDiv lastLoc i div ind pos = some { s with i := i + 1, ind := ind } := by
  simp [advance, hle, hd]

theorem advance_append {p : Params} {s : St} {lastDiv lastLoc i div pos : Nat} {ind : Option Int}
    (hgt : lastDiv < div) :
    advance p s lastDiv lastLoc i div ind pos =
      some { i := pos + (max 1 (p.chunksizes (s.divisions.length : Int) -
                (if p.subtract then s.drift + (((pos : Int) - (lastLoc : Int)) -
                    p.chunksizes ((s.divisions.length : Int) - 1)) else s.drift))).toNat,
             ind := none,
             drift := if p.subtract then s.drift + (((pos : Int) - (lastLoc : Int)) -
                    p.chunksizes ((s.divisions.length : Int) - 1)) else s.drift,
             divsRemain := if p.enforce then s.divsRemain - 1 else s.divsRemain,
             divisions := div :: s.divisions, locations := pos :: s.locations } := by
  have : ¬ div ≤ lastDiv := by omega
  simp [advance, this]

/-! ### the general invariant and the termination measure -/

/-- the next candidate certainly exceeds the last division (or the loop is over) -/
def ready (seq : List Nat) (s : St) : Bool :=
  match seq[s.i]?, s.divisions.head? with
  | some v, some d => decide (d < v)
  | _, _ => true

/-- termination measure: two iterations at most per appended location -/
def mu (seq : List Nat) (s : St) : Nat :=
  2 * (seq.length - s.locations.headD 0) - (if ready seq s then 1 else 0)

/-- mode facts about `mkParams seq m` (`n` = requested npartitions; irrelevant in chunksize mode) -/
structure MWf (seq : List Nat) (n : Nat) (p : Params) : Prop where
  seq_eq : p.seq = seq
  enf_dup : p.enforce = true → p.dup = true
  enf_sub : p.enforce = true → p.subtract = true
  sub_len : p.subtract = true → 0 < n ∧ prefixLoc p.chunk p.residual n = seq.length
  enf_n : p.enforce = true → n ≤ p.uniq.length ∧ 0 < p.chunk

structure GInv (seq : List Nat) (n : Nat) (p : Params) (s : St) : Prop where
  inv : Inv seq p s
  /-- the scan position never falls behind the last location -/
  ge : ∀ l, s.locations.head? = some l → l ≤ s.i
  /-- a cached `ind` is a natural number indexing the unique value found at `i` -/
  cache : p.dup = true → ∀ k, s.ind = some k →
    ∃ kN : Nat, k = (kN : Int) ∧ ∀ v, seq[s.i]? = some v → p.uniq[kN]? = some v
  /-- `drift` = last location − ideal location of that boundary -/
  drift : p.subtract = true → ∀ l, s.locations.head? = some l →
    s.drift = (l : Int) - ((prefixLoc p.chunk p.residual (s.divisions.length - 1) : Nat) : Int)
  /-- the scan position is never before the ideal location of the next boundary -/
  ideal : p.subtract = true → prefixLoc p.chunk p.residual s.divisions.length ≤ s.i
  count : p.subtract = true → s.divisions.length ≤ n
  /-- `enforce_exact`: enough unique values remain beyond the last division -/
  rem : p.enforce = true → s.divsRemain = (n : Int) - (s.divisions.length : Int) ∧ 0 ≤ s.divsRemain ∧
    ∃ L d : Nat, s.divisions.head? = some d ∧ p.uniq[L]? = some d ∧
      s.divsRemain + (L : Int) + 1 ≤ (p.uniq.length : Int)
  /-- `enforce_exact`: when the scan is over, all `n` divisions have been placed -/
  done : p.enforce = true → seq.length ≤ s.i → s.divsRemain = 0

theorem Inv.heads {seq : List Nat} {p : Params} {s : St} (h : Inv seq p s) :
    ∃ d l, s.divisions.head? = some d ∧ s.locations.head? = some l ∧ seq[l]? = some d := by
  have hv := h.val
  have h0 := h.last0
  cases hl : s.locations with
  | nil => rw [hl] at h0; cases h0
  | cons l ls =>
    cases hd : s.divisions with
    | nil => rw [hl, hd] at hv; cases hv
    | cons d ds =>
      rw [hl, hd] at hv
      cases hv with
      | cons hr _ => exact ⟨d, l, rfl, rfl, hr⟩

theorem headD_of_head? {l : Nat} {ls : List Nat} (h : ls.head? = some l) : ls.headD 0 = l := by
  cases ls with
  | nil => cases h
  | cons a as => simpa using h

theorem mu_le (seq : List Nat) (s : St) : mu seq s ≤ 2 * (seq.length - s.locations.headD 0) := by
  unfold mu; omega

theorem mu_ge (seq : List Nat) (s : St) : 2 * (seq.length - s.locations.headD 0) - 1 ≤ mu seq s := by
  unfold mu; split <;> omega

theorem chunksizes_pred (p : Params) {nd : Nat} (hnd : 0 < nd) :
    p.chunksizes ((nd : Int) - 1) = ((p.chunk + if nd - 1 < p.residual then 1 else 0 : Nat) : Int) := by
  have : (nd : Int) - 1 = ((nd - 1 : Nat) : Int) := by omega
  rw [this]; exact chunksizes_eq p (nd - 1)

theorem length_pos_of_head? {α : Type} {xs : List α} {a : α} (h : xs.head? = some a) : 0 < xs.length := by
  cases xs with
  | nil => cases h
  | cons _ _ => simp

/-- appending a boundary keeps the general invariant and decreases the measure -/
theorem append_ginv {seq : List Nat} {n : Nat} {p : Params} {s : St} (hs : Sorted seq) (hp : PWf seq p)
    (hw : DWf seq p) (hm : MWf seq n p) (hg : GInv seq n p s)
    {lastDiv lastLoc i div pos : Nat} {ind : Option Int}
    (hd : s.divisions.head? = some lastDiv) (hl : s.locations.head? = some lastLoc)
    (hi : s.i < seq.length)
    (hpos : seq[pos]? = some div) (hfo : FirstOcc seq pos) (hgt : lastDiv < div)
    (hk : p.enforce = true → ∃ kN : Nat, p.uniq[kN]? = some div ∧
      s.divsRemain + (kN : Int) ≤ (p.uniq.length : Int)) :
    ∃ s', advance p s lastDiv lastLoc i div ind pos = some s' ∧ GInv seq n p s' ∧ mu seq s' < mu seq s := by
  have hposlt : pos < seq.length := (List.getElem?_eq_some_iff.mp hpos).1
  have hlastv : seq[lastLoc]? = some lastDiv := by
    obtain ⟨d, l, hd', hl', hv⟩ := hg.inv.heads
    rw [hd] at hd'; rw [hl] at hl'
    cases hd'; cases hl'; exact hv
  have hlt : lastLoc < pos := sorted_idx_lt hs hlastv hpos hgt
  have hnd : 0 < s.divisions.length := length_pos_of_head? hd
  have hinv' := advance_inv hs hp hg.inv hd hl hpos hfo (advance_append (p := p) (s := s) (i := i) (ind := ind) hgt)
  -- arithmetic of the ideal locations
  have hcs1 := chunksizes_pred p hnd
  have hcs2 := chunksizes_eq p s.divisions.length
  have hpl1 := prefixLoc_succ p.chunk p.residual (s.divisions.length - 1)
  have hpl2 := prefixLoc_succ p.chunk p.residual s.divisions.length
  have hsucc : s.divisions.length - 1 + 1 = s.divisions.length := by omega
  rw [hsucc] at hpl1
  have hcount : p.subtract = true → s.divisions.length < n := by
    intro hsub
    apply Nat.lt_of_not_le
    intro hle
    have h1 := prefixLoc_le p.chunk p.residual hle
    have h2 := (hm.sub_len hsub).2
    have h3 := hg.ideal hsub
    omega
  refine ⟨_, advance_append hgt, ⟨hinv', ?_, ?_, ?_, ?_, ?_, ?_, ?_⟩, ?_⟩
  · intro l hl'
    simp only [List.head?_cons, Option.some.injEq] at hl'
    subst hl'
    simp only
    omega
  · intro _ k hk'
    cases hk'
  · intro hsub l hl'
    simp only [List.head?_cons, Option.some.injEq] at hl'
    subst hl'
    have hdr := hg.drift hsub lastLoc hl
    simp only [hsub, if_true, List.length_cons, Nat.add_sub_cancel]
    rw [hdr, hcs1, hpl1]
    push_cast
    omega
  · intro hsub
    have hdr := hg.drift hsub lastLoc hl
    simp only [hsub, if_true, List.length_cons]
    rw [hdr, hcs1, hcs2, hpl2, hpl1]
    push_cast
    omega
  · intro hsub
    have := hcount hsub
    simp only [List.length_cons]
    omega
  · intro he
    obtain ⟨hr1, hr2, _⟩ := hg.rem he
    obtain ⟨kN, hkN, hkle⟩ := hk he
    have := hcount (hm.enf_sub he)
    simp only [he, if_true, List.length_cons, List.head?_cons]
    refine ⟨by push_cast; omega, by omega, kN, div, rfl, hkN, by omega⟩
  · intro he hdone
    obtain ⟨hr1, hr2, _⟩ := hg.rem he
    obtain ⟨kN, hkN, hkle⟩ := hk he
    have hsub := hm.enf_sub he
    have hcnt := hcount hsub
    have hdr := hg.drift hsub lastLoc hl
    simp only [he, if_true]
    simp only [hsub, if_true] at hdone
    rw [hdr, hcs1, hcs2] at hdone
    rcases Nat.lt_or_ge (s.divisions.length + 1) n with hlt2 | hge2
    · exfalso
      have hmono := prefixLoc_mono p.chunk p.residual (hm.enf_n he).2 _ _ hlt2
      have hlen := (hm.sub_len hsub).2
      have hposlast : pos + 1 = seq.length := by
        rw [hpl2, hpl1] at hmono
        push_cast at hdone
        omega
      -- `div` is the largest unique value
      have hkU : p.uniq.length ≤ kN + 1 := by
        apply Nat.le_of_not_lt
        intro hlt3
        have hu' : p.uniq[kN + 1]? = some p.uniq[kN + 1] := List.getElem?_eq_getElem hlt3
        have hgt' := strict_get_lt hw.uniq_strict (Nat.lt_succ_self kN) hkN hu'
        obtain ⟨j, hj, hjv⟩ := List.getElem_of_mem (hw.uniq_mem _ (List.mem_of_getElem? hu'))
        have := sorted_get_le hs (show j ≤ pos by omega) (by rw [List.getElem?_eq_getElem hj, hjv]) hpos
        omega
      omega
    · omega
  · have h1 := mu_le seq s
    have h2 := mu_ge seq s
    rw [headD_of_head? hl] at h2
    refine Nat.lt_of_le_of_lt (mu_le seq _) ?_
    simp only [List.headD_cons]
    omega

theorem ready_false {seq : List Nat} {s : St} {v d : Nat} (h0 : seq[s.i]? = some v)
    (hd : s.divisions.head? = some d) (hle : v ≤ d) : ready seq s = false := by
  unfold ready
  rw [h0, hd]
  simp only [decide_eq_false_iff_not]
  omega

theorem ready_true_of_lt {seq : List Nat} {s : St} {v d : Nat} (h0 : seq[s.i]? = some v)
    (hd : s.divisions.head? = some d) (hlt : d < v) : ready seq s = true := by
  unfold ready
  rw [h0, hd]
  simpa using hlt

theorem ready_true_of_none {seq : List Nat} {s : St} (h0 : seq[s.i]? = none) : ready seq s = true := by
  unfold ready
  rw [h0]

theorem mu_skip {seq : List Nat} {s s' : St} {l : Nat} (hl : s.locations.head? = some l)
    (hl' : s'.locations = s.locations) (hlt : l < seq.length) (hr : ready seq s = false)
    (hr' : ready seq s' = true) : mu seq s' < mu seq s := by
  unfold mu
  rw [hl', hr, hr', headD_of_head? hl]
  simp only [if_true, Bool.false_eq_true, if_false]
  omega

/-- the skip branch with duplicates: move to the next unique value -/
theorem skip_dup_ginv {seq : List Nat} {n : Nat} {p : Params} {s : St} (hs : Sorted seq) (hp : PWf seq p)
    (hw : DWf seq p) (hm : MWf seq n p) (hg : GInv seq n p s)
    {lastDiv lastLoc i div0 pos k0 : Nat}
    (hd : s.divisions.head? = some lastDiv) (hl : s.locations.head? = some lastLoc)
    (hdup : p.dup = true) (h0 : seq[s.i]? = some div0) (huk : p.uniq[k0]? = some div0)
    (hpos : seq[pos]? = some div0) (hfo : FirstOcc seq pos) (hle : div0 ≤ lastDiv) :
    ∃ s', advance p s lastDiv lastLoc i div0 (some (k0 : Int)) pos = some s' ∧ GInv seq n p s' ∧
      mu seq s' < mu seq s := by
  have hi : s.i < seq.length := (List.getElem?_eq_some_iff.mp h0).1
  have hk0 : k0 < p.uniq.length := (List.getElem?_eq_some_iff.mp huk).1
  have hlastv : seq[lastLoc]? = some lastDiv := by
    obtain ⟨d, l, hd', hl', hv⟩ := hg.inv.heads
    rw [hd] at hd'; rw [hl] at hl'
    cases hd'; cases hl'; exact hv
  have hlastlt : lastLoc < seq.length := (List.getElem?_eq_some_iff.mp hlastv).1
  have hge := hg.ge lastLoc hl
  have hQ : lastDiv ≤ div0 := sorted_get_le hs hge hlastv h0
  have hr : ready seq s = false := ready_false h0 hd hle
  have hoff := hw.offs_length hdup
  rcases Nat.lt_or_ge (k0 + 1) p.uniq.length with hlt | hgeU
  · -- there is a next unique value
    have hu' : p.uniq[k0 + 1]? = some p.uniq[k0 + 1] := List.getElem?_eq_getElem hlt
    obtain ⟨o', ho', hso', _⟩ := hw.offs_get hs hdup hu'
    have hgt' : div0 < p.uniq[k0 + 1] := strict_get_lt hw.uniq_strict (Nat.lt_succ_self k0) huk hu'
    have hio' : s.i < o' := sorted_idx_lt hs h0 hso' hgt'
    have hnext : nextI p ((k0 : Int) + 1) = some o' := by
      unfold nextI
      have : (k0 : Int) + 1 < (p.offsets.length : Int) := by omega
      rw [if_pos this]
      have : ((k0 + 1 : Nat) : Int) = (k0 : Int) + 1 := by push_cast; rfl
      rw [← this]; exact ho'
    have hadv := advance_skip_dup (p := p) (s := s) (lastLoc := lastLoc) (i := i) (pos := pos) hle hdup hnext
    have hinv' := advance_inv hs hp hg.inv hd hl hpos hfo hadv
    refine ⟨_, hadv, ⟨hinv', ?_, ?_, ?_, ?_, ?_, ?_, ?_⟩, ?_⟩
    · intro l hl'
      have : l = lastLoc := by
        have h1 : s.locations.head? = some l := hl'
        rw [hl] at h1; cases h1; rfl
      subst this
      show l ≤ o'
      omega
    · intro _ k hk
      simp only [Option.some.injEq] at hk
      refine ⟨k0 + 1, by rw [← hk]; push_cast; rfl, ?_⟩
      intro v hv
      have hv' : seq[o']? = some v := hv
      rw [hso'] at hv'
      cases hv'
      exact hu'
    · exact hg.drift
    · intro hsub
      have := hg.ideal hsub
      show prefixLoc p.chunk p.residual s.divisions.length ≤ o'
      omega
    · exact hg.count
    · exact hg.rem
    · intro _ hdone
      have : seq.length ≤ o' := hdone
      have := (List.getElem?_eq_some_iff.mp hso').1
      omega
    · refine mu_skip hl rfl hlastlt hr ?_
      exact ready_true_of_lt (s := { s with i := o', ind := some ((k0 : Int) + 1) }) hso' hd (by omega)
  · -- no further unique value: the scan is over
    have hnext : nextI p ((k0 : Int) + 1) = some seq.length := by
      unfold nextI
      have : ¬ (k0 : Int) + 1 < (p.offsets.length : Int) := by omega
      rw [if_neg this, hm.seq_eq]
    have hadv := advance_skip_dup (p := p) (s := s) (lastLoc := lastLoc) (i := i) (pos := pos) hle hdup hnext
    have hinv' := advance_inv hs hp hg.inv hd hl hpos hfo hadv
    refine ⟨_, hadv, ⟨hinv', ?_, ?_, ?_, ?_, ?_, ?_, ?_⟩, ?_⟩
    · intro l hl'
      have : l = lastLoc := by
        have h1 : s.locations.head? = some l := hl'
        rw [hl] at h1; cases h1; rfl
      subst this
      show l ≤ seq.length
      omega
    · intro _ k hk
      simp only [Option.some.injEq] at hk
      refine ⟨k0 + 1, by rw [← hk]; push_cast; rfl, ?_⟩
      intro v hv
      have hv' : seq[seq.length]? = some v := hv
      simp at hv'
    · exact hg.drift
    · intro hsub
      have := hg.ideal hsub
      show prefixLoc p.chunk p.residual s.divisions.length ≤ seq.length
      omega
    · exact hg.count
    · exact hg.rem
    · intro he _
      obtain ⟨_, hr2, L, d, hdL, huL, hLle⟩ := hg.rem he
      rw [hd] at hdL; cases hdL
      have hkL : k0 ≤ L := strict_idx_le hw.uniq_strict huk huL hle
      show s.divsRemain = 0
      omega
    · refine mu_skip hl rfl hlastlt hr ?_
      exact ready_true_of_none (s := { s with i := seq.length, ind := some ((k0 : Int) + 1) }) (by simp)

/-- the skip branch without duplicates: `i += 1` -/
theorem skip_nodup_ginv {seq : List Nat} {n : Nat} {p : Params} {s : St} (hs : Sorted seq) (hp : PWf seq p)
    (hw : DWf seq p) (hm : MWf seq n p) (hg : GInv seq n p s)
    {lastDiv lastLoc div0 : Nat} {ind : Option Int}
    (hd : s.divisions.head? = some lastDiv) (hl : s.locations.head? = some lastLoc)
    (hdup : p.dup = false) (h0 : seq[s.i]? = some div0) (hle : div0 ≤ lastDiv) :
    ∃ s', advance p s lastDiv lastLoc s.i div0 ind s.i = some s' ∧ GInv seq n p s' ∧
      mu seq s' < mu seq s := by
  have hi : s.i < seq.length := (List.getElem?_eq_some_iff.mp h0).1
  have hlastv : seq[lastLoc]? = some lastDiv := by
    obtain ⟨d, l, hd', hl', hv⟩ := hg.inv.heads
    rw [hd] at hd'; rw [hl] at hl'
    cases hd'; cases hl'; exact hv
  have hlastlt : lastLoc < seq.length := (List.getElem?_eq_some_iff.mp hlastv).1
  have hge := hg.ge lastLoc hl
  have hQ : lastDiv ≤ div0 := sorted_get_le hs hge hlastv h0
  have hr : ready seq s = false := ready_false h0 hd hle
  have hadv := advance_skip_nodup (p := p) (s := s) (lastLoc := lastLoc) (i := s.i) (pos := s.i) (ind := ind) hle hdup
  have hinv' := advance_inv hs hp hg.inv hd hl h0 (hp.nodup_first hdup _ hi) hadv
  refine ⟨_, hadv, ⟨hinv', ?_, ?_, ?_, ?_, ?_, ?_, ?_⟩, ?_⟩
  · intro l hl'
    have : l = lastLoc := by
      have h1 : s.locations.head? = some l := hl'
      rw [hl] at h1; cases h1; rfl
    subst this
    show l ≤ s.i + 1
    omega
  · intro hd'
    rw [hdup] at hd'; cases hd'
  · exact hg.drift
  · intro hsub
    have := hg.ideal hsub
    show prefixLoc p.chunk p.residual s.divisions.length ≤ s.i + 1
    omega
  · exact hg.count
  · exact hg.rem
  · intro he _
    have := hm.enf_dup he
    rw [hdup] at this; cases this
  · refine mu_skip hl rfl hlastlt hr ?_
    rcases Nat.lt_or_ge (s.i + 1) seq.length with hlt | hge'
    · have hv' : seq[s.i + 1]? = some seq[s.i + 1] := List.getElem?_eq_getElem hlt
      have := strict_get_lt (hw.strict hdup) (Nat.lt_succ_self s.i) h0 hv'
      exact ready_true_of_lt (s := { s with i := s.i + 1, ind := ind }) hv' hd (by omega)
    · exact ready_true_of_none (s := { s with i := s.i + 1, ind := ind })
        (List.getElem?_eq_none_iff.mpr hge')

/-- **progress**: under the general invariant every iteration of the loop body succeeds (no IndexError),
    keeps the invariant, and strictly decreases the measure -/
theorem step_progress {seq : List Nat} {n : Nat} {p : Params} {s : St} (hs : Sorted seq) (hp : PWf seq p)
    (hw : DWf seq p) (hm : MWf seq n p) (hg : GInv seq n p s) (hi : s.i < seq.length) :
    ∃ s', step p s = some s' ∧ GInv seq n p s' ∧ mu seq s' < mu seq s := by
  obtain ⟨lastDiv, lastLoc, hd, hl, hlastv⟩ := hg.inv.heads
  have h0 : seq[s.i]? = some seq[s.i] := List.getElem?_eq_getElem hi
  have h0p : p.seq[s.i]? = some seq[s.i] := by rw [hm.seq_eq]; exact h0
  have hge := hg.ge lastLoc hl
  have hQ : lastDiv ≤ seq[s.i] := sorted_get_le hs hge hlastv h0
  by_cases hdup : p.dup = true
  · -- duplicates: resolve `ind`
    have hoff := hw.offs_length hdup
    obtain ⟨k0, hcand, huk⟩ : ∃ k0 : Nat,
        candidate p s seq[s.i] = candidateDup p s seq[s.i] (k0 : Int) ∧ p.uniq[k0]? = some seq[s.i] := by
      cases hk : s.ind with
      | none =>
        refine ⟨bisectLeft p.uniq seq[s.i], ?_, hw.bis _ (List.getElem_mem hi)⟩
        unfold candidate
        rw [if_pos hdup, hk]
      | some k =>
        obtain ⟨kN, hkN, hv⟩ := hg.cache hdup k hk
        refine ⟨kN, ?_, hv _ h0⟩
        unfold candidate
        rw [if_pos hdup, hk, hkN]
    have hk0 : k0 < p.uniq.length := (List.getElem?_eq_some_iff.mp huk).1
    by_cases hback : p.enforce = true ∧ s.divsRemain > (p.offsets.length : Int) - (k0 : Int)
    · -- step back so that enough unique values remain
      obtain ⟨he, hgt⟩ := hback
      obtain ⟨hr1, hr2, L, d, hdL, huL, hLle⟩ := hg.rem he
      rw [hd] at hdL; cases hdL
      have hk1eq : (k0 : Int) - (s.divsRemain - ((p.offsets.length : Int) - (k0 : Int))) =
          ((((p.uniq.length : Int) - s.divsRemain).toNat : Nat) : Int) := by omega
      have hk1lt : ((p.uniq.length : Int) - s.divsRemain).toNat < p.uniq.length := by omega
      have hu1 := List.getElem?_eq_getElem hk1lt
      obtain ⟨o1, ho1, hso1, hfo1⟩ := hw.offs_get hs hdup hu1
      have hLk1 : L < ((p.uniq.length : Int) - s.divsRemain).toNat := by omega
      have hgt1 := strict_get_lt hw.uniq_strict hLk1 huL hu1
      have hc := candidateDup_back (p := p) (s := s) (div0 := seq[s.i]) he hgt (by rw [hk1eq]; exact ho1)
        (by rw [hm.seq_eq]; exact hso1)
      rw [← hcand] at hc
      rw [step_eq h0p hd hl hc]
      exact append_ginv hs hp hw hm hg hd hl hi hso1 hfo1 hgt1
        (fun _ => ⟨_, hu1, by omega⟩)
    · obtain ⟨pos, hpos, hspos, hfo⟩ := hw.offs_get hs hdup huk
      have hc := candidateDup_fwd (p := p) (s := s) (div0 := seq[s.i]) hback hpos
      rw [← hcand] at hc
      rw [step_eq h0p hd hl hc]
      by_cases hle : seq[s.i] ≤ lastDiv
      · exact skip_dup_ginv hs hp hw hm hg hd hl hdup h0 huk hspos hfo hle
      · refine append_ginv hs hp hw hm hg hd hl hi hspos hfo (by omega) ?_
        intro he
        refine ⟨k0, huk, ?_⟩
        have : ¬ s.divsRemain > (p.offsets.length : Int) - (k0 : Int) := fun h => hback ⟨he, h⟩
        omega
  · have hdup' : p.dup = false := by simpa using hdup
    have hc : candidate p s seq[s.i] = some (s.i, seq[s.i], s.ind, s.i) := by
      simp [candidate, hdup']
    rw [step_eq h0p hd hl hc]
    by_cases hle : seq[s.i] ≤ lastDiv
    · exact skip_nodup_ginv hs hp hw hm hg hd hl hdup' h0 hle
    · refine append_ginv hs hp hw hm hg hd hl hi h0 (hp.nodup_first hdup' _ hi) (by omega) ?_
      intro he
      have := hm.enf_dup he
      rw [hdup'] at this; cases this

/-- the loop terminates within the measure -/
theorem loop_total {seq : List Nat} {n : Nat} {p : Params} (hs : Sorted seq) (hp : PWf seq p)
    (hw : DWf seq p) (hm : MWf seq n p) :
    ∀ (fuel : Nat) (s : St), GInv seq n p s → mu seq s < fuel →
      ∃ s', loop p fuel s = some s' ∧ GInv seq n p s' ∧ ¬ s'.i < seq.length
  | 0, _, _, hf => by omega
  | fuel + 1, s, hg, hf => by
    by_cases hi : s.i < seq.length
    · obtain ⟨s1, hstep, hg1, hmu⟩ := step_progress hs hp hw hm hg hi
      obtain ⟨s', hloop, hg', hi'⟩ := loop_total hs hp hw hm fuel s1 hg1 (by omega)
      refine ⟨s', ?_, hg', hi'⟩
      have hcond : s.i < p.seq.length := by rw [hm.seq_eq]; exact hi
      simp only [loop, hcond, if_true, hstep, Option.bind_some]
      exact hloop
    · refine ⟨s, ?_, hg, hi⟩
      have hcond : ¬ s.i < p.seq.length := by rw [hm.seq_eq]; exact hi
      simp only [loop, hcond, if_false]

/-! ### the parameters and the initial state satisfy everything -/

/-- requested npartitions (`0` in chunksize mode, where it is not used) -/
def nOf : Mode → Nat
  | .npartitions n => n
  | .chunksize _ => 0

theorem prefixLoc_total (len n : Nat) (hn : 0 < n) : prefixLoc (len / n) (len % n) n = len := by
  unfold prefixLoc
  have h1 := Nat.mod_lt len hn
  have h2 := Nat.div_add_mod len n
  rw [Nat.min_eq_right (Nat.le_of_lt h1)]
  exact h2

theorem mkParams_mwf {seq : List Nat} (hs : Sorted seq) (m : Mode) (hm : guardMode m = some ()) :
    MWf seq (nOf m) (mkParams seq m) := by
  have hw := mkParams_dwf hs m
  cases m with
  | chunksize c =>
    refine ⟨rfl, ?_, ?_, ?_, ?_⟩ <;> intro h <;> cases h
  | npartitions n =>
    have hn : 0 < n := by
      cases n with
      | zero => cases hm
      | succ k => omega
    have henf : (mkParams seq (.npartitions n)).enforce =
        ((mkParams seq (.npartitions n)).dup && decide (n ≤ (mkParams seq (.npartitions n)).offsets.length)) := rfl
    refine ⟨rfl, ?_, fun _ => rfl, fun _ => ⟨hn, prefixLoc_total seq.length n hn⟩, ?_⟩
    · intro he
      rw [henf, Bool.and_eq_true] at he
      exact he.1
    · intro he
      rw [henf, Bool.and_eq_true] at he
      have hle : n ≤ (mkParams seq (.npartitions n)).offsets.length := by simpa using he.2
      rw [hw.offs_length he.1] at hle
      refine ⟨hle, ?_⟩
      have hU : (mkParams seq (.npartitions n)).uniq.length ≤ seq.length :=
        (dedupSorted_sublist seq).length_le
      show 0 < seq.length / n
      exact Nat.div_pos (by omega) hn

theorem init_ginv {seq : List Nat} (hs : Sorted seq) (m : Mode) (hm : guardMode m = some ()) {first : Nat}
    (hfirst : seq.head? = some first) :
    GInv seq (nOf m) (mkParams seq m) (initSt (mkParams seq m) m first) := by
  have hw := mkParams_dwf hs m
  have hmw := mkParams_mwf hs m hm
  have h0 : seq[0]? = some first := by
    cases seq with
    | nil => cases hfirst
    | cons a as => simpa using hfirst
  have hc0 := chunksizes_eq (mkParams seq m) 0
  have hp1 := prefixLoc_succ (mkParams seq m).chunk (mkParams seq m).residual 0
  have hp0 : prefixLoc (mkParams seq m).chunk (mkParams seq m).residual 0 = 0 := by simp [prefixLoc]
  refine ⟨⟨All2.cons h0 All2.nil, List.pairwise_singleton _ _, rfl, ?_, ?_⟩, ?_, ?_, ?_, ?_, ?_, ?_, ?_⟩
  · intro l hl hl0
    simp only [initSt, List.mem_singleton] at hl
    exact absurd hl hl0
  · intro _ k hk
    cases hk
  · intro l hl
    simp only [initSt, List.head?_cons, Option.some.injEq] at hl
    omega
  · intro _ k hk
    cases hk
  · intro _ l hl
    simp only [initSt, List.head?_cons, Option.some.injEq] at hl
    subst hl
    simp only [initSt, List.length_cons, List.length_nil]
    rw [hp0]; rfl
  · intro _
    simp only [initSt, List.length_cons, List.length_nil]
    have : ((0 : Nat) : Int) = 0 := rfl
    rw [this] at hc0
    rw [hc0, hp1, hp0]
    omega
  · intro hsub
    have := (hmw.sub_len hsub).1
    simp only [initSt, List.length_cons, List.length_nil]
    omega
  · intro he
    have hn := (hmw.enf_n he).1
    have hsub := hmw.enf_sub he
    have hn0 := (hmw.sub_len hsub).1
    have hu0 : (mkParams seq m).uniq[0]? = some first := by
      have := hw.uniq_head
      rw [hfirst] at this
      cases hu : (mkParams seq m).uniq with
      | nil => rw [hu] at this; cases this
      | cons a as => rw [hu] at this; simpa using this
    cases m with
    | chunksize c => cases hsub
    | npartitions n =>
      simp only [nOf] at hn hn0 ⊢
      simp only [initSt, he, if_true, List.length_cons, List.length_nil, List.head?_cons]
      refine ⟨by omega, by omega, 0, first, rfl, hu0, by omega⟩
  · intro he hdone
    have hsub := hmw.enf_sub he
    have hn0 := (hmw.sub_len hsub).1
    have hlen := (hmw.sub_len hsub).2
    have hchunk := (hmw.enf_n he).2
    cases m with
    | chunksize c => cases hsub
    | npartitions n =>
      simp only [nOf] at hn0 hlen ⊢
      simp only [initSt, he, if_true] at hdone ⊢
      have : ((0 : Nat) : Int) = 0 := rfl
      rw [this] at hc0
      rw [hc0] at hdone
      rcases Nat.lt_or_ge 1 n with h1 | h1
      · have := prefixLoc_mono _ (mkParams seq (.npartitions n)).residual hchunk 1 n h1
        rw [hp1, hp0] at this
        omega
      · omega

/-- **the run of `sorted_division_locations`**: for every sorted non-empty input and both modes the function
    returns; the result is assembled from a final state that satisfies the general invariant -/
theorem sdl_run {seq : List Nat} {m : Mode} (hs : Sorted seq) (hne : seq ≠ []) (hm : guardMode m = some ()) :
    ∃ s' last, seq.getLast? = some last ∧
      sdl seq m = some ((last :: s'.divisions).reverse, (seq.length :: s'.locations).reverse) ∧
      GInv seq (nOf m) (mkParams seq m) s' ∧ ¬ s'.i < seq.length := by
  obtain ⟨first, hfirst⟩ : ∃ f, seq.head? = some f := by
    cases seq with
    | nil => exact absurd rfl hne
    | cons a _ => exact ⟨a, rfl⟩
  obtain ⟨last, hlast⟩ : ∃ l, seq.getLast? = some l := by
    cases h : seq.getLast? with
    | none => rw [List.getLast?_eq_none_iff] at h; exact absurd h hne
    | some l => exact ⟨l, rfl⟩
  have hg0 := init_ginv hs m hm hfirst
  have hmu : mu seq (initSt (mkParams seq m) m first) < sdlFuel seq := by
    have h1 := mu_le seq (initSt (mkParams seq m) m first)
    have h2 : (initSt (mkParams seq m) m first).locations.headD 0 = 0 := rfl
    rw [h2] at h1
    unfold sdlFuel
    omega
  obtain ⟨s', hloop, hg', hi'⟩ := loop_total hs (mkParams_wf hs m) (mkParams_dwf hs m) (mkParams_mwf hs m hm)
    (sdlFuel seq) _ hg0 hmu
  refine ⟨s', last, hlast, ?_, hg', hi'⟩
  unfold sdl
  simp only [hfirst, hlast, hm, Option.bind_eq_bind, Option.bind_some, hloop, Option.pure_def]

end Dask.SDL
