import DaskModel.Lemmas.SliceLoop
import DaskModel.Model.Store
/-! Lemmas for C29: pieces of a range under drop/take, `fuse_slice` on a block, tiling of a region. -/
namespace Dask.Store
open Dask.Slice1D Dask.SetItem

theorem optNormalize_bounds {a : PSlice} {a0 st : Int} {astop : Option Int}
    (hn : optNormalize a = some (a0, astop, st)) :
    0 ≤ a0 ∧ 0 ≤ st ∧ a0 = a.start.getD 0 ∧ st = a.step.getD 1 ∧ astop = a.stop ∧ (∀ v, a.stop = some v → 0 ≤ v) := by
  unfold optNormalize at hn
  by_cases hc : a.start.getD 0 < 0 ∨ a.step.getD 1 < 0 ∨ negOpt a.stop = true
  · rw [if_pos hc] at hn; cases hn
  · rw [if_neg hc] at hn
    simp only [Option.some.injEq, Prod.mk.injEq] at hn
    obtain ⟨h1, h2, h3⟩ := hn
    refine ⟨by omega, by omega, h1.symm, h3.symm, h2.symm, ?_⟩
    intro v hv
    rw [hv] at hc
    simp [negOpt] at hc
    omega

theorem rangeUp_drop (y st : Int) (hs : 0 < st) : ∀ (k : Nat) (x : Int),
    (rangeUp x y st).drop k = rangeUp (x + st * k) y st := by
  intro k
  induction k with
  | zero => intro x; simp
  | succ k ih =>
    intro x
    rw [rangeUp_unfold x y st hs]
    have e : x + st * ((k + 1 : Nat) : Int) = (x + st) + st * (k : Int) := by
      rw [Int.natCast_add, Int.mul_add]; simp; omega
    by_cases h : x < y
    · simp only [h, if_true, List.drop_succ_cons]
      rw [ih (x + st), e]
    · simp only [h, if_false, List.drop_nil]
      rw [rangeUp_nil]
      have : 0 ≤ st * ((k + 1 : Nat) : Int) := Int.mul_nonneg (by omega) (by omega)
      omega

theorem rangeUp_take (y st : Int) (hs : 0 < st) : ∀ (k : Nat) (x : Int),
    (rangeUp x y st).take k = rangeUp x (min y (x + st * k)) st := by
  intro k
  induction k with
  | zero => intro x; simp; rw [rangeUp_nil]; omega
  | succ k ih =>
    intro x
    have e : x + st * ((k + 1 : Nat) : Int) = (x + st) + st * (k : Int) := by
      rw [Int.natCast_add, Int.mul_add]; simp; omega
    have hpos : 0 ≤ st * (k : Int) := Int.mul_nonneg (by omega) (by omega)
    rw [rangeUp_unfold x y st hs, rangeUp_unfold x (min y (x + st * ((k + 1 : Nat) : Int))) st hs]
    by_cases h : x < y
    · have h2 : x < min y (x + st * ((k + 1 : Nat) : Int)) := by rw [e]; omega
      simp only [h, h2, if_true, List.take_succ_cons]
      rw [ih (x + st), e]
    · have h2 : ¬ x < min y (x + st * ((k + 1 : Nat) : Int)) := by omega
      simp only [h, h2, if_false, List.take_nil]

theorem rangeUp_clip (p q st : Int) (n : Int) :
    rangeUp (min p n) (min q n) st = rangeUp p (min q n) st := by
  by_cases h : p ≤ n
  · rw [show min p n = p by omega]
  · rw [rangeUp_nil (by omega), rangeUp_nil (by omega)]

/-- consecutive pieces `P[l0:l1]` over the blocks of a chunk list concatenate to `P[acc : acc + total]` -/
theorem pieces_concat {α : Type} (P : List α) : ∀ (ls : List Nat) (acc : Nat),
    ((locationsFrom (acc : Int) ls).flatMap fun (l0, l1) => (P.drop l0.toNat).take (l1 - l0).toNat)
      = (P.drop acc).take ls.sum := by
  intro ls
  induction ls with
  | nil => intro acc; simp [locationsFrom]
  | cons l ls ih =>
    intro acc
    simp only [locationsFrom, List.flatMap_cons, List.sum_cons]
    have e1 : ((acc : Int) + (l : Int)) = ((acc + l : Nat) : Int) := by simp
    rw [e1, ih (acc + l)]
    have e2 : ((acc : Int)).toNat = acc := by simp
    have e3 : (((acc + l : Nat) : Int) - (acc : Int)).toNat = l := by omega
    rw [e2, e3]
    rw [List.take_add, List.drop_drop]

/-- positions selected by a (normalisable, positive-step) region on a target axis of length `N` -/
theorem pySliceIdx_region (N : Nat) {a : PSlice} {a0 st : Int} {astop : Option Int}
    (hn : optNormalize a = some (a0, astop, st)) (hst : 0 < st) :
    pySliceIdx N a = some (rangeUp a0 (min (astop.getD N) N) st) := by
  obtain ⟨h0, _, e0, est, estop, hstop⟩ := optNormalize_bounds hn
  rcases a with ⟨s0, s1, s2⟩
  simp only at e0 est estop hstop
  subst estop
  subst est
  subst e0
  have hs0 : ¬ s2.getD 1 = 0 := by omega
  have hs1 : ¬ s2.getD 1 < 0 := by omega
  have hnn : ¬ ((N : Int) < 0) := by omega
  have hclip : ∀ q, rangeUp (min (s0.getD 0) N) (min q N) (s2.getD 1) = rangeUp (s0.getD 0) (min q N) (s2.getD 1) :=
    fun q => rangeUp_clip _ q _ N
  simp only [pySliceIdx, pyIndices, hs0, hs1, if_false, pyRange, hst, if_true]
  congr 1
  cases s0 with
  | none =>
    cases astop with
    | none => simp [Option.getD]
    | some v =>
      have := hstop v rfl
      have hv : ¬ v < 0 := by omega
      simp [Option.getD, hv]
  | some u =>
    simp only [Option.getD] at h0 hclip ⊢
    have hu : ¬ u < 0 := by omega
    cases astop with
    | none =>
      simp only [hu, if_false]
      have := hclip N
      rw [show min (N : Int) N = N by omega] at this ⊢
      exact this
    | some v =>
      have := hstop v rfl
      have hv : ¬ v < 0 := by omega
      simp only [hu, hv, if_false]
      exact hclip v

/-- **`fuse_slice(region, block)` selects exactly the block's part of the region**: positions
    `l0 … l1-1` of what the region selects. -/
theorem fuse_block (N : Nat) {a : PSlice} {a0 st : Int} {astop : Option Int}
    (hn : optNormalize a = some (a0, astop, st)) (hst : 0 < st) (l0 l1 : Nat) (h : l0 ≤ l1) :
    ∃ f, fuseSlice a ⟨some (l0 : Int), some (l1 : Int), none⟩ = some f ∧
      pySliceIdx N f = some (((rangeUp a0 (min (astop.getD N) N) st).drop l0).take (l1 - l0)) := by
  have hb : optNormalize ⟨some (l0 : Int), some (l1 : Int), none⟩ = some ((l0 : Int), some (l1 : Int), 1) := by
    have h1 : ¬ ((l0 : Int) < 0) := by omega
    have h2 : ¬ ((l1 : Int) < 0) := by omega
    simp [optNormalize, Option.getD, h1, h2, negOpt]
  obtain ⟨h0, _, _, _, _, hstop⟩ := optNormalize_bounds hn
  simp only [fuseSlice, hn, hb, Option.map_some, Int.mul_one]
  refine ⟨_, rfl, ?_⟩
  rw [rangeUp_drop _ _ hst, rangeUp_take _ _ hst]
  have hmul : st * ((l1 - l0 : Nat) : Int) = st * (l1 : Int) - st * (l0 : Int) := by
    rw [Int.natCast_sub h, Int.mul_sub]
  have hp0 : 0 ≤ st * (l0 : Int) := Int.mul_nonneg (by omega) (by omega)
  have hp1 : st * (l0 : Int) ≤ st * (l1 : Int) := Int.mul_le_mul_of_nonneg_left (by omega) (by omega)
  -- compute Python's indices of the fused slice
  have hfused : ∀ (stop : Int), 0 ≤ stop →
      pySliceIdx N ⟨some (a0 + st * (l0 : Int)), some stop, if st = 1 then none else some st⟩
        = some (rangeUp (a0 + st * (l0 : Int)) (min stop N) st) := by
    intro stop hs
    have hx : ¬ (a0 + st * (l0 : Int) < 0) := by omega
    have hy : ¬ stop < 0 := by omega
    have hs0 : ¬ st = 0 := by omega
    have hs1 : ¬ st < 0 := by omega
    by_cases h1 : st = 1
    · subst h1
      simp only [pySliceIdx, pyIndices, if_true, Option.getD, hx, hy, if_false, pyRange]
      simp
      exact rangeUp_clip _ _ _ _
    · simp only [pySliceIdx, pyIndices, h1, if_false, Option.getD, hs0, hs1, hx, hy, pyRange, hst, if_true]
      simp
      exact rangeUp_clip _ _ _ _
  cases hst' : astop with
  | none =>
    simp only [Option.getD]
    rw [hfused _ (by omega)]
    congr 2
    rw [hmul]; omega
  | some av =>
    have hav : 0 ≤ av := by
      obtain ⟨_, _, _, _, e, hs⟩ := optNormalize_bounds hn
      exact hs av (by rw [← e, hst'])
    simp only [Option.getD]
    rw [hfused _ (by omega)]
    congr 2
    rw [hmul]; omega

/-- without a region the block slice itself is the index: positions `l0 … l1-1` of the target axis -/
theorem plain_block (N : Nat) (l0 l1 : Nat) (h : l0 ≤ l1) :
    pySliceIdx N ⟨some (l0 : Int), some (l1 : Int), none⟩ = some (((rangeUp 0 N 1).drop l0).take (l1 - l0)) := by
  rw [rangeUp_drop _ _ (by omega), rangeUp_take _ _ (by omega)]
  have h1 : ¬ ((l0 : Int) < 0) := by omega
  have h2 : ¬ ((l1 : Int) < 0) := by omega
  simp only [pySliceIdx, pyIndices, Option.getD, h1, h2, if_false, pyRange]
  simp
  have := rangeUp_clip (l0 : Int) (l1 : Int) 1 (N : Int)
  rw [this]
  congr 1
  have : ((l1 - l0 : Nat) : Int) = (l1 : Int) - (l0 : Int) := by omega
  omega

/-- the store plan along one axis, piece by piece: block `(l0, l1)` writes `P[l0:l1]`, `P` = what the region selects -/
theorem storePlan_pieces (N : Nat) (region : Option PSlice) (P : List Int)
    (hP : ∀ (l0 l1 : Nat), l0 ≤ l1 → ∃ f, storeIndex region ((l0 : Int), (l1 : Int)) = some f ∧
        pySliceIdx N f = some ((P.drop l0).take (l1 - l0))) :
    ∀ (ls : List Nat) (acc : Nat),
      (locationsFrom (acc : Int) ls).mapM (fun blk => match storeIndex region blk with
          | some idx => pySliceIdx N idx
          | none => none)
        = some ((locationsFrom (acc : Int) ls).map fun (l0, l1) => (P.drop l0.toNat).take (l1 - l0).toNat) := by
  intro ls
  induction ls with
  | nil => intro acc; simp [locationsFrom]
  | cons l ls ih =>
    intro acc
    have e1 : ((acc : Int) + (l : Int)) = ((acc + l : Nat) : Int) := by simp
    simp only [locationsFrom, List.mapM_cons, List.map_cons]
    rw [e1, ih (acc + l)]
    obtain ⟨f, hf1, hf2⟩ := hP acc (acc + l) (by omega)
    rw [hf1]
    simp only [hf2]
    have e2 : ((acc : Int)).toNat = acc := by simp
    have e3 : (((acc + l : Nat) : Int) - (acc : Int)).toNat = l := by omega
    have e4 : acc + l - acc = l := by omega
    rw [e2, e3, e4]
    rfl

theorem flatten_map_eq_flatMap {α β : Type} (f : α → List β) (xs : List α) : (xs.map f).flatten = xs.flatMap f := by
  simp [List.flatMap]

/-- coordinate-wise membership -/
def AllIn {α : Type} : List α → List (List α) → Prop
  | [], [] => True
  | x :: t, xs :: rest => x ∈ xs ∧ AllIn t rest
  | _, _ => False

/-- `itertools.product`: a block is in the product iff each coordinate is in the corresponding list -/
theorem mem_product {α : Type} : ∀ (xss : List (List α)) (t : List α),
    t ∈ product xss ↔ AllIn t xss := by
  intro xss
  induction xss with
  | nil =>
    intro t
    simp only [product, List.mem_singleton]
    cases t <;> simp [AllIn]
  | cons xs rest ih =>
    intro t
    simp only [product, List.mem_flatMap, List.mem_map]
    constructor
    · rintro ⟨x, hx, t', ht', rfl⟩
      exact ⟨hx, (ih t').mp ht'⟩
    · intro h
      cases t with
      | nil => simp [AllIn] at h
      | cons x t' => exact ⟨x, h.1, t', (ih t').mpr h.2, rfl⟩

theorem length_product {α : Type} : ∀ (xss : List (List α)),
    (product xss).length = (xss.map List.length).foldr (· * ·) 1 := by
  intro xss
  induction xss with
  | nil => rfl
  | cons xs rest ih =>
    simp only [product, List.map_cons, List.foldr_cons]
    rw [← ih]
    induction xs with
    | nil => simp
    | cons x xs ih2 =>
      simp only [List.flatMap_cons, List.length_append, List.length_map, List.length_cons, ih2]
      rw [Nat.add_mul]; omega

theorem rangeUp_pairwise_lt (y st : Int) (hs : 0 < st) : ∀ x, List.Pairwise (fun a b => a < b) (rangeUp x y st) := by
  apply rangeUp_induction hs y
  · intro x h; rw [rangeUp_nil h]; exact List.Pairwise.nil
  · intro x h ih
    rw [rangeUp_unfold x y st hs]
    simp only [h, if_true, List.pairwise_cons]
    refine ⟨?_, ih⟩
    intro p hp
    have := rangeUp_bounds y st hs (x + st) p hp
    omega

/-! ### npy stacks -/

theorem npyChunksFrom_sums (axis : Nat) : ∀ (cs : List (List Nat)) (i : Nat),
    (npyChunksFrom axis i cs).map List.sum = cs.map List.sum := by
  intro cs
  induction cs with
  | nil => intro i; rfl
  | cons c cs ih =>
    intro i
    simp only [npyChunksFrom, List.map_cons, ih]
    congr 1
    split <;> simp

theorem npyChunksFrom_get (axis : Nat) : ∀ (cs : List (List Nat)) (i k : Nat),
    (npyChunksFrom axis i cs)[k]? = (cs[k]?).map (fun c => if i + k = axis then c else [c.sum]) := by
  intro cs
  induction cs with
  | nil => intro i k; simp [npyChunksFrom]
  | cons c cs ih =>
    intro i k
    cases k with
    | zero => simp [npyChunksFrom]
    | succ k =>
      simp only [npyChunksFrom, List.getElem?_cons_succ, ih]
      have : i + 1 + k = i + (k + 1) := by omega
      rw [this]

end Dask.Store
