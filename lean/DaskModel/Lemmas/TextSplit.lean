import DaskModel.Model.TextBlocks
/-! Helper lemmas for C50: `str.split` (greedy), the lines `decode` / `file_to_blocks` build from it. -/
namespace Dask.TextBlocks

/-- `[t + d for t in parts[:-1]] + (parts[-1:] if parts[-1] else [])` -/
def joinLines (d : List Nat) (parts : List (List Nat)) : List (List Nat) :=
  parts.dropLast.map (· ++ d) ++ lastPart parts

/-- the lines of a text for a non-empty delimiter (what `decode` and `file_to_blocks` return) -/
def linesAux (d acc t : List Nat) : List (List Nat) := joinLines d (pySplitAux d 0 acc t)
def lines (d t : List Nat) : List (List Nat) := linesAux d [] t

theorem pySplitAux_skip (d : List Nat) (k : Nat) (acc t : List Nat) :
    pySplitAux d k acc t = pySplitAux d 0 acc (t.drop k) := by
  induction k generalizing t with
  | zero => simp
  | succ k ih =>
    cases t with
    | nil => simp [pySplitAux]
    | cons c cs => simp only [pySplitAux, List.drop_succ_cons]; exact ih cs

theorem pySplitAux_nil (d acc : List Nat) : pySplitAux d 0 acc [] = [acc.reverse] := by simp [pySplitAux]

/-- unfolding at a position where the delimiter matches -/
theorem pySplitAux_match {d : List Nat} (hd : d ≠ []) (acc t : List Nat) (hp : d <+: t) :
    pySplitAux d 0 acc t = acc.reverse :: pySplitAux d 0 [] (t.drop d.length) := by
  cases t with
  | nil => exact absurd (List.prefix_nil.mp hp) hd
  | cons c cs =>
    have hp' : d.isPrefixOf (c :: cs) = true := List.isPrefixOf_iff_prefix.mpr hp
    simp only [pySplitAux, hp', if_true]
    rw [pySplitAux_skip]
    have : 0 < d.length := List.length_pos_iff.mpr hd
    congr 2
    obtain ⟨m, hm⟩ : ∃ m, d.length = m + 1 := ⟨d.length - 1, by omega⟩
    rw [hm, List.drop_succ_cons]; simp

/-- unfolding at a position where it does not -/
theorem pySplitAux_nomatch {d : List Nat} (acc : List Nat) (c : Nat) (cs : List Nat) (hp : ¬ d <+: c :: cs) :
    pySplitAux d 0 acc (c :: cs) = pySplitAux d 0 (c :: acc) cs := by
  have hp' : ¬ d.isPrefixOf (c :: cs) = true := fun h => hp (List.isPrefixOf_iff_prefix.mp h)
  simp [pySplitAux, hp']

theorem pySplitAux_ne_nil (d : List Nat) (k : Nat) (acc t : List Nat) : pySplitAux d k acc t ≠ [] := by
  induction t generalizing k acc with
  | nil => simp [pySplitAux]
  | cons c cs ih =>
    cases k with
    | succ k => simp only [pySplitAux]; exact ih _ _
    | zero =>
      simp only [pySplitAux]
      split
      · simp
      · exact ih _ _

theorem joinLines_cons {d p : List Nat} {ps : List (List Nat)} (h : ps ≠ []) :
    joinLines d (p :: ps) = (p ++ d) :: joinLines d ps := by
  cases ps with
  | nil => exact absurd rfl h
  | cons q qs =>
    simp only [joinLines, lastPart, List.dropLast_cons_cons, List.map_cons, List.cons_append, List.length_cons]
    congr 3

theorem joinLines_single (d p : List Nat) : joinLines d [p] = if p = [] then [] else [p] := by
  simp only [joinLines, lastPart, List.dropLast_singleton, List.map_nil, List.nil_append, List.length_singleton,
    Nat.sub_self, List.drop_zero]
  by_cases h : p = []
  · subst h; simp
  · simp [h]

theorem linesAux_nil (d acc : List Nat) : linesAux d acc [] = if acc = [] then [] else [acc.reverse] := by
  simp only [linesAux, pySplitAux_nil, joinLines_single]
  by_cases h : acc = []
  · subst h; simp
  · simp [h]

theorem linesAux_match {d : List Nat} (hd : d ≠ []) (acc t : List Nat) (hp : d <+: t) :
    linesAux d acc t = (acc.reverse ++ d) :: linesAux d [] (t.drop d.length) := by
  simp only [linesAux]
  rw [pySplitAux_match hd acc t hp, joinLines_cons (pySplitAux_ne_nil _ _ _ _)]

theorem linesAux_nomatch {d : List Nat} (acc : List Nat) (c : Nat) (cs : List Nat) (hp : ¬ d <+: c :: cs) :
    linesAux d acc (c :: cs) = linesAux d (c :: acc) cs := by
  simp only [linesAux, pySplitAux_nomatch acc c cs hp]

/-- the lines concatenate to the text: nothing is lost, nothing is invented -/
theorem linesAux_flatten {d : List Nat} (hd : d ≠ []) (acc t : List Nat) :
    (linesAux d acc t).flatten = acc.reverse ++ t := by
  induction hn : t.length using Nat.strongRecOn generalizing acc t with
  | _ n ih =>
    cases t with
    | nil =>
      rw [linesAux_nil]
      by_cases h : acc = []
      · subst h; simp
      · simp [h]
    | cons c cs =>
      by_cases hp : d <+: c :: cs
      · rw [linesAux_match hd acc _ hp, List.flatten_cons]
        have hlen : 0 < d.length := List.length_pos_iff.mpr hd
        rw [ih ((c :: cs).drop d.length).length (by simp only [List.length_drop]; subst hn; simp; omega) [] _ rfl]
        obtain ⟨r, hr⟩ := hp
        rw [← hr]
        simp
      · rw [linesAux_nomatch acc c cs hp, ih cs.length (by subst hn; simp) (c :: acc) cs rfl]
        simp

/-- no line is empty (in particular: no empty trailing element) -/
theorem joinLines_ne_nil {d : List Nat} (hd : d ≠ []) (parts : List (List Nat)) :
    ∀ l ∈ joinLines d parts, l ≠ [] := by
  intro l hl
  simp only [joinLines, lastPart, List.mem_append, List.mem_map, List.mem_filter] at hl
  rcases hl with ⟨p, _, rfl⟩ | ⟨_, h⟩
  · simp [hd]
  · simpa using h

/-- every line except possibly the last one ends with the delimiter -/
theorem joinLines_suffix (d : List Nat) (parts : List (List Nat)) :
    ∀ l ∈ (joinLines d parts).dropLast, d <:+ l := by
  intro l hl
  have hmem : l ∈ parts.dropLast.map (· ++ d) := by
    simp only [joinLines] at hl
    have hlp : (lastPart parts).length ≤ 1 := by
      simp only [lastPart]
      refine Nat.le_trans (List.length_filter_le _ _) ?_
      simp only [List.length_drop]; omega
    match hlast : lastPart parts, hlp with
    | [], _ => rw [hlast, List.append_nil] at hl; exact List.dropLast_subset _ hl
    | [x], _ =>
      rw [hlast, List.dropLast_append_of_ne_nil (by simp)] at hl
      simpa using hl
  obtain ⟨p, _, rfl⟩ := List.mem_map.mp hmem
  exact List.suffix_append p d

end Dask.TextBlocks
