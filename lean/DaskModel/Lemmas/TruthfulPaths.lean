import DaskModel.Lemmas.Truthful
/-! Helper lemmas for the per-path theorems of C41. -/
namespace Dask.Divs

open Dask.Repart Dask.SDL

theorem pairs_getElem? : ∀ (bs : List Nat) (i : Nat) (a b : Nat),
    (pairs bs)[i]? = some (a, b) ↔ bs[i]? = some a ∧ bs[i + 1]? = some b
  | [], i, a, b => by simp [pairs]
  | [x], i, a, b => by
    simp only [pairs, List.getElem?_nil, reduceCtorEq, false_iff, not_and]
    intro h
    cases i <;> simp at h ⊢
  | x :: y :: rest, 0, a, b => by simp [pairs]
  | x :: y :: rest, i + 1, a, b => by
    simp only [pairs, List.getElem?_cons_succ]
    exact pairs_getElem? (y :: rest) i a b

theorem chunks_getElem? {β : Type} (xs : List β) (bs : List Nat) (i : Nat) (p : List β) :
    (chunks xs bs)[i]? = some p ↔ ∃ a b, bs[i]? = some a ∧ bs[i + 1]? = some b ∧ p = pySlice xs a b := by
  unfold chunks
  rw [List.getElem?_map, Option.map_eq_some_iff]
  constructor
  · rintro ⟨⟨a, b⟩, hab, rfl⟩
    exact ⟨a, b, ((pairs_getElem? bs i a b).mp hab).1, ((pairs_getElem? bs i a b).mp hab).2, rfl⟩
  · rintro ⟨a, b, ha, hb, rfl⟩
    exact ⟨(a, b), (pairs_getElem? bs i a b).mpr ⟨ha, hb⟩, rfl⟩

theorem _root_.Dask.SDL.All2.get {α β : Type} {R : α → β → Prop} {as : List α} {bs : List β} (h : All2 R as bs) :
    ∀ (i : Nat) (a : α) (b : β), as[i]? = some a → bs[i]? = some b → R a b := by
  induction h with
  | nil => intro i a b ha; simp at ha
  | cons hr _ ih =>
    intro i a b ha hb
    cases i with
    | zero => simp at ha hb; subst ha hb; exact hr
    | succ i => simp at ha hb; exact ih i a b ha hb

theorem mem_pySlice {β : Type} (xs : List β) (a b : Nat) (r : β) (h : r ∈ pySlice xs a b) :
    ∃ t, a ≤ t ∧ t < b ∧ xs[t]? = some r := by
  unfold pySlice at h
  obtain ⟨i, hi⟩ := List.mem_iff_getElem?.mp h
  rw [List.getElem?_take] at hi
  split at hi
  · rename_i hlt
    rw [List.getElem?_drop] at hi
    exact ⟨a + i, by omega, by omega, hi⟩
  · cases hi



theorem sortedB_pairwise : ∀ xs : List Nat, sortedB xs = true → xs.Pairwise (· ≤ ·)
  | [], _ => List.Pairwise.nil
  | [_], _ => List.pairwise_singleton _ _
  | a :: b :: rest, h => by
    simp only [sortedB, Bool.and_eq_true, decide_eq_true_eq] at h
    have ih := sortedB_pairwise (b :: rest) h.2
    refine List.pairwise_cons.mpr ⟨?_, ih⟩
    intro x hx
    rcases List.mem_cons.mp hx with rfl | hx
    · exact h.1
    · have := (List.pairwise_cons.mp ih).1 x hx
      omega

theorem pairwise_sortedB : ∀ xs : List Nat, xs.Pairwise (· ≤ ·) → sortedB xs = true
  | [], _ => rfl
  | [_], _ => rfl
  | a :: b :: rest, h => by
    simp only [sortedB, Bool.and_eq_true, decide_eq_true_eq]
    exact ⟨(List.pairwise_cons.mp h).1 b List.mem_cons_self, pairwise_sortedB (b :: rest) (List.pairwise_cons.mp h).2⟩

/-- **the executable oracle is the statement's predicate** (on the index keys) -/
theorem truthfulB_iff (divs : List Nat) (parts : List (List Nat)) :
    truthfulB divs parts = true ↔ Truthful (fun k => k) divs parts := by
  unfold truthfulB Truthful
  simp only [Bool.and_eq_true, beq_iff_eq, List.all_eq_true, List.mem_range]
  constructor
  · rintro ⟨⟨hlen, hs⟩, hall⟩
    refine ⟨hlen, sortedB_pairwise _ hs, ?_⟩
    intro i p lo hi hp hlo hhi r hr
    have hi_lt : i < parts.length := (List.getElem?_eq_some_iff.mp hp).1
    have := hall i hi_lt
    rw [hp, hlo, hhi] at this
    simp only [List.all_eq_true, Bool.and_eq_true, decide_eq_true_eq, Bool.or_eq_true, beq_iff_eq] at this
    obtain ⟨h1, h2⟩ := this r hr
    exact ⟨h1, h2⟩
  · rintro ⟨hlen, hs, hrows⟩
    refine ⟨⟨hlen, pairwise_sortedB _ hs⟩, ?_⟩
    intro i hi_lt
    have hp := List.getElem?_eq_getElem hi_lt
    have hlo := List.getElem?_eq_getElem (l := divs) (i := i) (by omega)
    have hhi := List.getElem?_eq_getElem (l := divs) (i := i + 1) (by omega)
    rw [hp, hlo, hhi]
    simp only [List.all_eq_true, Bool.and_eq_true, decide_eq_true_eq, Bool.or_eq_true, beq_iff_eq]
    intro r hr
    exact hrows i _ _ _ hp hlo hhi r hr

theorem mapM_getElem? {α β : Type} (f : α → Option β) : ∀ (xs : List α) (ys : List β), xs.mapM f = some ys →
    ys.length = xs.length ∧ ∀ (i : Nat) (x : α), xs[i]? = some x → ∃ y, ys[i]? = some y ∧ f x = some y
  | [], ys, h => by simp at h; subst h; simp
  | x :: xs, ys, h => by
    simp only [List.mapM_cons, Option.bind_eq_bind, Option.bind_eq_some_iff, Option.pure_def, Option.some.injEq] at h
    obtain ⟨y, hy, ys', hys', rfl⟩ := h
    obtain ⟨hl, hget⟩ := mapM_getElem? f xs ys' hys'
    refine ⟨by simp [hl], ?_⟩
    intro i a ha
    cases i with
    | zero => simp at ha; subst ha; exact ⟨y, by simp, hy⟩
    | succ i => simp at ha; obtain ⟨y', h1, h2⟩ := hget i a ha; exact ⟨y', by simpa using h1, h2⟩

end Dask.Divs
