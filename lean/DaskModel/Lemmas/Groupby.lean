import DaskModel.Model.Groupby
/-! Helper lemmas for C38: optional-state merge is a monoid; chunk/combine homomorphisms; tree = flat. -/
namespace Dask.Groupby

variable {V M : Type}

theorem omerge_none_right (op : M → M → M) (x : Option M) : omerge op x none = x := by
  cases x <;> rfl

theorem omerge_none_left (op : M → M → M) (x : Option M) : omerge op none x = x := rfl

theorem omerge_assoc (op : M → M → M) (hassoc : ∀ a b c, op (op a b) c = op a (op b c))
    (x y z : Option M) : omerge op (omerge op x y) z = omerge op x (omerge op y z) := by
  cases x <;> cases y <;> cases z <;> simp [omerge, hassoc]

theorem foldl_omerge (op : M → M → M) (hassoc : ∀ a b c, op (op a b) c = op a (op b c))
    (xs : List (Option M)) (a : Option M) :
    xs.foldl (omerge op) a = omerge op a (xs.foldl (omerge op) none) := by
  induction xs generalizing a with
  | nil => simp [omerge_none_right]
  | cons x xs ih =>
    simp only [List.foldl_cons]
    rw [ih (omerge op a x), ih (omerge op none x), omerge_none_left, omerge_assoc op hassoc]

theorem fold1_append (op : M → M → M) (hassoc : ∀ a b c, op (op a b) c = op a (op b c))
    (xs ys : List (Option M)) : fold1 op (xs ++ ys) = omerge op (fold1 op xs) (fold1 op ys) := by
  unfold fold1
  rw [List.foldl_append, foldl_omerge op hassoc ys]

/-- the partial aggregate of a concatenation is the merge of the partial aggregates -/
theorem chunk_append (op : M → M → M) (hassoc : ∀ a b c, op (op a b) c = op a (op b c))
    (inj : V → Option M) (xs ys : List (Nat × V)) :
    chunk op inj (xs ++ ys) = merge op (chunk op inj xs) (chunk op inj ys) := by
  funext k
  simp only [chunk, merge, List.filter_append, List.map_append]
  exact fold1_append op hassoc _ _

theorem chunk_nil (op : M → M → M) (inj : V → Option M) : chunk op inj [] = fun _ => none := rfl

theorem merge_none_left (op : M → M → M) (f : Nat → Option M) : merge op (fun _ => none) f = f := rfl

theorem merge_none_right (op : M → M → M) (f : Nat → Option M) : merge op f (fun _ => none) = f := by
  funext k; exact omerge_none_right op (f k)

theorem merge_assoc (op : M → M → M) (hassoc : ∀ a b c, op (op a b) c = op a (op b c))
    (f g h : Nat → Option M) : merge op (merge op f g) h = merge op f (merge op g h) := by
  funext k; exact omerge_assoc op hassoc _ _ _

theorem foldl_merge (op : M → M → M) (hassoc : ∀ a b c, op (op a b) c = op a (op b c))
    (ps : List (Nat → Option M)) (a : Nat → Option M) :
    ps.foldl (merge op) a = merge op a (combine op ps) := by
  unfold combine
  induction ps generalizing a with
  | nil => simp [merge_none_right]
  | cons p ps ih =>
    simp only [List.foldl_cons]
    rw [ih (merge op a p), ih (merge op (fun _ => none) p), merge_none_left, merge_assoc op hassoc]

theorem combine_append (op : M → M → M) (hassoc : ∀ a b c, op (op a b) c = op a (op b c))
    (ps qs : List (Nat → Option M)) : combine op (ps ++ qs) = merge op (combine op ps) (combine op qs) := by
  conv => lhs; unfold combine
  rw [List.foldl_append, foldl_merge op hassoc qs]
  rfl

theorem combine_cons (op : M → M → M) (hassoc : ∀ a b c, op (op a b) c = op a (op b c))
    (p : Nat → Option M) (ps : List (Nat → Option M)) : combine op (p :: ps) = merge op p (combine op ps) := by
  have := combine_append op hassoc [p] ps
  simpa [combine, merge_none_left] using this

/-- combining the per-partition partial aggregates gives the aggregate of the whole frame -/
theorem combine_chunks (op : M → M → M) (hassoc : ∀ a b c, op (op a b) c = op a (op b c))
    (inj : V → Option M) (parts : List (List (Nat × V))) :
    combine op (parts.map (chunk op inj)) = chunk op inj parts.flatten := by
  induction parts with
  | nil => rfl
  | cons p ps ih =>
    rw [List.map_cons, combine_cons op hassoc, ih, List.flatten_cons, chunk_append op hassoc]

/-- combining groups of partials first and the group results afterwards changes nothing -/
theorem combine_groups (op : M → M → M) (hassoc : ∀ a b c, op (op a b) c = op a (op b c))
    (pss : List (List (Nat → Option M))) : combine op (pss.map (combine op)) = combine op pss.flatten := by
  induction pss with
  | nil => rfl
  | cons ps pss ih =>
    rw [List.map_cons, combine_cons op hassoc, ih, List.flatten_cons, combine_append op hassoc]

theorem partitionAll_flatten {α : Type} (k : Nat) (hk : 0 < k) :
    ∀ (fuel : Nat) (xs : List α), xs.length ≤ fuel → (partitionAll k fuel xs).flatten = xs
  | 0, xs, h => by
    have : xs = [] := List.eq_nil_of_length_eq_zero (by omega)
    subst this; rfl
  | fuel + 1, xs, h => by
    unfold partitionAll
    split
    · rename_i he
      simp at he; subst he; rfl
    · rename_i hne
      have hpos : 0 < xs.length := by
        cases xs with
        | nil => simp at hne
        | cons _ _ => simp
      rw [List.flatten_cons, partitionAll_flatten k hk fuel (xs.drop k) (by simp; omega), List.take_append_drop]

/-- **split_every is irrelevant**: the tree reduction equals the flat combine, for every `k ≥ 1`,
    every amount of fuel -/
theorem treeReduce_eq_combine (op : M → M → M) (hassoc : ∀ a b c, op (op a b) c = op a (op b c))
    (k : Nat) (hk : 0 < k) : ∀ (fuel : Nat) (ps : List (Nat → Option M)), treeReduce op k fuel ps = combine op ps
  | 0, _ => rfl
  | fuel + 1, ps => by
    unfold treeReduce
    split
    · rfl
    · rw [treeReduce_eq_combine op hassoc k hk fuel, combine_groups op hassoc,
        partitionAll_flatten k hk ps.length ps (Nat.le_refl _)]

end Dask.Groupby
