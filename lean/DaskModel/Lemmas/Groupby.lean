import DaskModel.Model.Groupby
/-! Helper lemmas for C38: optional-state merge is a monoid; chunk/combine homomorphisms; tree = flat. -/
namespace Dask.Groupby

variable {V M : Type}

theorem omerge_none_right (op : M → M → M) (x : Option M) : omerge op x none = x := by
  cases x <;> rfl

theorem omerge_none_left (op : M → M → M) (x : Option M) : omerge op none x = x := rfl

theorem omerge_assoc (op : M → M → M) (hassoc : ∀ a b c, op (op a b) c = op a (op b c))
    (x y z : Option M) : omerge op (omerge op x y) z = omerge op x (omerge op y z) := by
  cases x <;> cases y <;> cases z <;> simp [omerge, hassoc]

theorem foldl_omerge (op : M → M → M) (hassoc : ∀ a b c, op (op a b) c = op a (op b c))
    (xs : List (Option M)) (a : Option M) :
    xs.foldl (omerge op) a = omerge op a (xs.foldl (omerge op) none) := by
  induction xs generalizing a with
  | nil => simp [omerge_none_right]
  | cons x xs ih =>
    simp only [List.foldl_cons]
    rw [ih (omerge op a x), ih (omerge op none x), omerge_none_left, omerge_assoc op hassoc]

theorem fold1_append (op : M → M → M) (hassoc : ∀ a b c, op (op a b) c = op a (op b c))
    (xs ys : List (Option M)) : fold1 op (xs ++ ys) = omerge op (fold1 op xs) (fold1 op ys) := by
  unfold fold1
  rw [List.foldl_append, foldl_omerge op hassoc ys]

/-- the partial aggregate of a concatenation is the merge of the partial aggregates -/
theorem chunk_append (op : M → M → M) (hassoc : ∀ a b c, op (op a b) c = op a (op b c))
    (inj : V → Option M) (xs ys : List (Nat × V)) :
    chunk op inj (xs ++ ys) = merge op (chunk op inj xs) (chunk op inj ys) := by
  funext k
  simp only [chunk, merge, List.filter_append, List.map_append]
  exact fold1_append op hassoc _ _

theorem chunk_nil (op : M → M → M) (inj : V → Option M) : chunk op inj [] = fun _ => none := rfl

theorem merge_none_left (op : M → M → M) (f : Nat → Option M) : merge op (fun _ => none) f = f := rfl

theorem merge_none_right (op : M → M → M) (f : Nat → Option M) : merge op f (fun _ => none) = f := by
  funext k; exact omerge_none_right op (f k)

theorem merge_assoc (op : M → M → M) (hassoc : ∀ a b c, op (op a b) c = op a (op b c))
    (f g h : Nat → Option M) : merge op (merge op f g) h = merge op f (merge op g h) := by
  funext k; exact omerge_assoc op hassoc _ _ _

theorem foldl_merge (op : M → M → M) (hassoc : ∀ a b c, op (op a b) c = op a (op b c))
    (ps : List (Nat → Option M)) (a : Nat → Option M) :
    ps.foldl (merge op) a = merge op a (combine op ps) := by
  unfold combine
  induction ps generalizing a with
  | nil => simp [merge_none_right]
  | cons p ps ih =>
    simp only [List.foldl_cons]
    rw [ih (merge op a p), ih (merge op (fun _ => none) p), merge_none_left, merge_assoc op hassoc]

theorem combine_append (op : M → M → M) (hassoc : ∀ a b c, op (op a b) c = op a (op b c))
    (ps qs : List (Nat → Option M)) : combine op (ps ++ qs) = merge op (combine op ps) (combine op qs) := by
  conv => lhs; unfold combine
  rw [List.foldl_append, foldl_merge op hassoc qs]
  rfl

theorem combine_cons (op : M → M → M) (hassoc : ∀ a b c, op (op a b) c = op a (op b c))
    (p : Nat → Option M) (ps : List (Nat → Option M)) : combine op (p :: ps) = merge op p (combine op ps) := by
  have := combine_append op hassoc [p] ps
  simpa [combine, merge_none_left] using this

/-- combining the per-partition partial aggregates gives the aggregate of the whole frame -/
theorem combine_chunks (op : M → M → M) (hassoc : ∀ a b c, op (op a b) c = op a (op b c))
    (inj : V → Option M) (parts : List (List (Nat × V))) :
    combine op (parts.map (chunk op inj)) = chunk op inj parts.flatten := by
  induction parts with
  | nil => rfl
  | cons p ps ih =>
    rw [List.map_cons, combine_cons op hassoc, ih, List.flatten_cons, chunk_append op hassoc]

/-- combining groups of partials first and the group results afterwards changes nothing -/
theorem combine_groups (op : M → M → M) (hassoc : ∀ a b c, op (op a b) c = op a (op b c))
    (pss : List (List (Nat → Option M))) : combine op (pss.map (combine op)) = combine op pss.flatten := by
  induction pss with
  | nil => rfl
  | cons ps pss ih =>
    rw [List.map_cons, combine_cons op hassoc, ih, List.flatten_cons, combine_append op hassoc]

theorem partitionAll_flatten {α : Type} (k : Nat) (hk : 0 < k) :
    ∀ (fuel : Nat) (xs : List α), xs.length ≤ fuel → (partitionAll k fuel xs).flatten = xs
  | 0, xs, h => by
    have : xs = [] := List.eq_nil_of_length_eq_zero (by omega)
    subst this; rfl
  | fuel + 1, xs, h => by
    unfold partitionAll
    split
    · rename_i he
      simp at he; subst he; rfl
    · rename_i hne
      have hpos : 0 < xs.length := by
        cases xs with
        | nil => simp at hne
        | cons _ _ => simp
      rw [List.flatten_cons, partitionAll_flatten k hk fuel (xs.drop k) (by simp; omega), List.take_append_drop]

/-- **split_every is irrelevant**: the tree reduction equals the flat combine, for every `k ≥ 1`,
    every amount of fuel -/
theorem treeReduce_eq_combine (op : M → M → M) (hassoc : ∀ a b c, op (op a b) c = op a (op b c))
    (k : Nat) (hk : 0 < k) : ∀ (fuel : Nat) (ps : List (Nat → Option M)), treeReduce op k fuel ps = combine op ps
  | 0, _ => rfl
  | fuel + 1, ps => by
    unfold treeReduce
    split
    · rfl
    · rw [treeReduce_eq_combine op hassoc k hk fuel, combine_groups op hassoc,
        partitionAll_flatten k hk ps.length ps (Nat.le_refl _)]

/-! ### size / count -/
/-- the state of `size` (inject 1 per row, merge by `+`) is the number of rows of the group -/
theorem size_state_is_count (n : Nat) :
    fold1 (fun a b : Int => a + b) (List.replicate n (some (1 : Int))) = if n = 0 then none else some (n : Int) := by
  induction n with
  | zero => rfl
  | succ m ih =>
    rw [List.replicate_succ, ← List.singleton_append, fold1_append _ Int.add_assoc, ih]
    cases m with
    | zero => rfl
    | succ j =>
      simp only [fold1, List.foldl_cons, List.foldl_nil, omerge, Nat.succ_ne_zero, if_false]
      congr 1
      push_cast
      omega

theorem chunk_size_is_count {V : Type} (rows : List (Nat × V)) (k : Nat) :
    chunk (fun a b : Int => a + b) (fun _ : V => some (1 : Int)) rows k =
      if (rows.filter fun r => r.1 == k).length = 0 then none else some ((rows.filter fun r => r.1 == k).length : Int) := by
  unfold chunk
  rw [← size_state_is_count]
  congr 1
  induction (rows.filter fun r => r.1 == k) with
  | nil => rfl
  | cons x xs ih => simp [List.replicate_succ, ih]
/-! ### first occurrences; list-level shuffle; the shipped rows of a partial -/

theorem mem_dedup {α : Type} [DecidableEq α] (a : α) : ∀ l : List α, a ∈ dedup l ↔ a ∈ l
  | [] => by simp [dedup]
  | x :: xs => by
    simp only [dedup, List.mem_cons, List.mem_filter, decide_eq_true_eq, mem_dedup a xs]
    by_cases h : a = x <;> simp [h]

theorem nodup_dedup {α : Type} [DecidableEq α] : ∀ l : List α, (dedup l).Nodup
  | [] => by simp [dedup]
  | x :: xs => by
    simp only [dedup, List.nodup_cons, List.mem_filter, decide_eq_true_eq]
    exact ⟨fun h => h.2 rfl, (nodup_dedup xs).filter _⟩

theorem shuffleOut_eq_filter (h : Nat → Nat) (n p : Nat) (parts : List (List (Nat × V))) :
    shuffleOut h n p parts = parts.flatten.filter fun r => h r.1 % n == p := by
  induction parts with
  | nil => rfl
  | cons q qs ih =>
    simp only [shuffleOut, List.map_cons, List.flatten_cons, List.filter_append] at ih ⊢
    rw [ih]; rfl

/-- **apply family after the shuffle**: the rows of group `k` arrive complete and in frame order in exactly one
    output partition, `h k % n` -/
theorem shuffle_group_rows (h : Nat → Nat) (n p k : Nat) (parts : List (List (Nat × V))) :
    (shuffleOut h n p parts).filter (fun r => r.1 == k) =
      if h k % n = p then parts.flatten.filter (fun r => r.1 == k) else [] := by
  rw [shuffleOut_eq_filter, List.filter_filter]
  split
  · rename_i hp
    apply List.filter_congr
    intro r _
    by_cases hr : r.1 = k
    · simp [hr, hp]
    · simp [hr]
  · rename_i hp
    apply List.filter_eq_nil_iff.2
    intro r _
    by_cases hr : r.1 = k
    · simp [hr, hp]
    · simp [hr]

/-- **ShuffleReduce, list level**: aggregating output partition `p` gives every group with `h k % n = p` its whole-frame
    aggregate and nothing else -/
theorem shuffle_out_aggregate (op : M → M → M) (inj : V → Option M) (h : Nat → Nat) (n p k : Nat)
    (parts : List (List (Nat × V))) :
    chunk op inj (shuffleOut h n p parts) k = if h k % n = p then chunk op inj parts.flatten k else none := by
  unfold chunk
  rw [shuffle_group_rows]
  split <;> rfl

theorem chunk_no_rows (op : M → M → M) (inj : V → Option M) (rows : List (Nat × V)) (k : Nat)
    (h : k ∉ rows.map fun r => r.1) : chunk op inj rows k = none := by
  unfold chunk
  have : rows.filter (fun r => r.1 == k) = [] := by
    apply List.filter_eq_nil_iff.2
    intro r hr hk
    simp only [beq_iff_eq] at hk
    exact h (List.mem_map.2 ⟨r, hr, hk⟩)
  rw [this]; rfl

theorem filter_partial (f : Nat → Option M) (k : Nat) : ∀ (L : List Nat), L.Nodup →
    ((L.filterMap fun j => (f j).map fun m => (j, m)).filter fun r => r.1 == k) =
      if k ∈ L then ((f k).map fun m => (k, m)).toList else []
  | [], _ => by simp
  | x :: L, hnd => by
    have hx : x ∉ L := (List.nodup_cons.1 hnd).1
    have ih := filter_partial f k L (List.nodup_cons.1 hnd).2
    by_cases hxk : x = k
    · subst hxk
      have hk : x ∉ L := hx
      simp only [hk, if_false] at ih
      cases hf : f x with
      | none => simp [hf, ih]
      | some m => simp [hf, ih]
    · have hkx : (k ∈ x :: L) ↔ (k ∈ L) := by simp [Ne.symm hxk]
      simp only [hkx]
      rw [← ih]
      cases hf : f x with
      | none => simp [hf]
      | some m => simp [hf, hxk]

/-- re-aggregating the shipped rows of a partial gives the partial back -/
theorem chunk_partialRows (op : M → M → M) (inj : V → Option M) (rows : List (Nat × V)) (k : Nat) :
    chunk op some (partialRows op inj rows) k = chunk op inj rows k := by
  conv => lhs; unfold chunk partialRows
  rw [filter_partial (chunk op inj rows) k _ (nodup_dedup _)]
  split
  · cases h : chunk op inj rows k <;> simp [fold1, omerge]
  · rename_i hk
    rw [mem_dedup] at hk
    rw [chunk_no_rows op inj rows k hk]; rfl

/-- **ShuffleReduce end to end**: chunk every partition, ship the partial rows, shuffle them on the key (pieces keep the
    source order), aggregate every output partition: group `k` gets its whole-frame aggregate in partition `h k % n` -/
theorem groupby_shuffle_rows_eq_global (op : M → M → M) (hassoc : ∀ a b c, op (op a b) c = op a (op b c))
    (inj : V → Option M) (h : Nat → Nat) (n p k : Nat) (parts : List (List (Nat × V))) :
    chunk op some (shuffleOut h n p (parts.map (partialRows op inj))) k =
      if h k % n = p then chunk op inj parts.flatten k else none := by
  rw [shuffle_out_aggregate]
  split
  · rw [← combine_chunks op hassoc some, ← combine_chunks op hassoc inj, List.map_map]
    congr 1
    apply List.map_congr_left
    intro rows _
    funext j
    exact chunk_partialRows op inj rows j
  · rfl

end Dask.Groupby
