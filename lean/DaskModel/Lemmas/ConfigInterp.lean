import DaskModel.Model.ConfigInterp
import DaskModel.Lemmas.BytesDigits
/-!
Lemmas for the model of `interpret_value` (`Model/ConfigInterp.lean`): the parser reads back what `repr` prints —
step lemmas per syntactic form, then the mutual induction over nested lists / dicts (`parseItem_repr`), the fuel bound
(`size_le_length`) and the top-level statement `parseLit_repr`.  No Mathlib.
-/
namespace Dask.Interp
open Dask.Bytes (natDigits isDigit isAlpha digitsVal natDigits_spec takeWhile_all)

theorem skipWs_cons_of_not_ws (c : Char) (r : List Char) (h : isWs c = false) : skipWs (c :: r) = c :: r := by
  simp [skipWs, List.dropWhile, h]

theorem skipWs_space (r : List Char) : skipWs (' ' :: r) = skipWs r := by
  simp [skipWs, List.dropWhile, isWs]

theorem tail_nil (n : Nat) (rest : List Char) : parseTail (n + 1) (']' :: rest) = some ([], rest) := by
  have h : isWs ']' = false := by decide
  simp [parseTail, skipWs_cons_of_not_ws _ _ h]

theorem item_list_nil (n : Nat) (rest : List Char) : parseItem (n + 1) ('[' :: ']' :: rest) = some (.list [], rest) := by
  have h : isWs ']' = false := by decide
  simp [parseItem, skipWs_cons_of_not_ws _ _ h]

theorem item_list_cons (n : Nat) (c : Char) (r R rest : List Char) (x : Lit) (xs : List Lit)
    (hws : isWs c = false) (hc : c ≠ ']')
    (h1 : parseItem n (c :: r) = some (x, R)) (h2 : parseTail n R = some (xs, rest)) :
    parseItem (n + 1) ('[' :: c :: r) = some (.list (x :: xs), rest) := by
  simp [parseItem, skipWs_cons_of_not_ws _ _ hws, hc, h1, h2]

theorem tail_cons (n : Nat) (c : Char) (r R rest : List Char) (x : Lit) (xs : List Lit)
    (hws : isWs c = false) (hc : c ≠ ']')
    (h1 : parseItem n (c :: r) = some (x, R)) (h2 : parseTail n R = some (xs, rest)) :
    parseTail (n + 1) (',' :: ' ' :: c :: r) = some (x :: xs, rest) := by
  have h : isWs ',' = false := by decide
  simp [parseTail, skipWs_cons_of_not_ws _ _ h, skipWs_space, skipWs_cons_of_not_ws _ _ hws, hc, h1, h2]

theorem tokEnd_head_not_digit (rest : List Char) (h : tokEnd rest = true) :
    ∀ x, rest.head? = some x → isDigit x = false := by
  intro x hx
  cases rest with
  | nil => simp at hx
  | cons c r =>
    simp only [List.head?_cons, Option.some.injEq] at hx
    subst hx
    simp only [tokEnd, isIdChar, Bool.not_eq_true', Bool.or_eq_false_iff] at h
    exact h.1.1.2

theorem tokEnd_head_not_dot (rest : List Char) (h : tokEnd rest = true) : rest.head? ≠ some '.' := by
  cases rest with
  | nil => simp
  | cons c r =>
    simp only [tokEnd, Bool.not_eq_true', Bool.or_eq_false_iff] at h
    intro hx
    simp only [List.head?_cons, Option.some.injEq] at hx
    subst hx
    simp at h

/-- reading back a run of digits as an integer -/
theorem parseNum_int (neg : Bool) (ds rest : List Char) (hds : ds.all isDigit = true) (hne : ds ≠ [])
    (hok : intDigitsOK ds = true) (hrest : tokEnd rest = true) :
    parseNum neg (ds ++ rest) = some (.int (if neg then -(digitsVal ds : Int) else (digitsVal ds : Int)), rest) := by
  obtain ⟨ht, hd⟩ := takeWhile_all isDigit ds rest hds (tokEnd_head_not_digit rest hrest)
  unfold parseNum
  rw [ht, hd]
  have h1 : ds.isEmpty = false := by cases ds <;> simp_all
  have h2 : ¬ (rest.head? = some '.') := tokEnd_head_not_dot rest hrest
  simp [h1, h2, hrest, hok]

/-- reading back `digits '.' digits` as a float text -/
theorem parseNum_flt (neg : Bool) (ip fp rest : List Char) (hip : ip.all isDigit = true) (hipne : ip ≠ [])
    (hfp : fp.all isDigit = true) (hfpne : fp ≠ []) (hrest : tokEnd rest = true) :
    parseNum neg (ip ++ '.' :: (fp ++ rest)) = some (.flt neg ip fp, rest) := by
  have hdot : ∀ x, ('.' :: (fp ++ rest)).head? = some x → isDigit x = false := by
    intro x hx
    simp only [List.head?_cons, Option.some.injEq] at hx
    subst hx
    decide
  obtain ⟨ht, hd⟩ := takeWhile_all isDigit ip ('.' :: (fp ++ rest)) hip hdot
  obtain ⟨ht2, hd2⟩ := takeWhile_all isDigit fp rest hfp (tokEnd_head_not_digit rest hrest)
  unfold parseNum
  rw [ht, hd]
  have h1 : ip.isEmpty = false := by cases ip <;> simp_all
  have h2 : fp.isEmpty = false := by cases fp <;> simp_all
  simp [h1, h2, ht2, hd2, hrest]

/-- a digit is none of the characters the dispatcher of `parseItem` looks for before trying a number -/
theorem digit_dispatch (c : Char) (h : isDigit c = true) :
    c ≠ '[' ∧ c ≠ '{' ∧ c ≠ '\'' ∧ c ≠ '"' ∧ c ≠ '-' ∧ c ≠ ']' ∧ c ≠ '}' ∧ isWs c = false := by
  refine ⟨?_, ?_, ?_, ?_, ?_, ?_, ?_, ?_⟩
  all_goals first
    | (intro e; subst e; revert h; decide)
    | (simp only [isDigit, Bool.and_eq_true, decide_eq_true_eq] at h
       simp only [isWs, Bool.or_eq_false_iff, beq_eq_false_iff_ne, ne_eq]
       constructor <;> (intro e; subst e; revert h; decide))

theorem item_digit (n : Nat) (c : Char) (r : List Char) (h : isDigit c = true) :
    parseItem (n + 1) (c :: r) = parseNum false (c :: r) := by
  obtain ⟨h1, h2, h3, h4, h5, _⟩ := digit_dispatch c h
  simp [parseItem, h1, h2, h3, h4, h5, h]

theorem item_minus (n : Nat) (r : List Char) : parseItem (n + 1) ('-' :: r) = parseNum true r := by
  simp [parseItem]

theorem item_quote (n : Nat) (q : Char) (r : List Char) (hq : q = '\'' ∨ q = '"') :
    parseItem (n + 1) (q :: r) = parseStr q r := by
  rcases hq with rfl | rfl <;> simp [parseItem]

theorem item_kw (n : Nat) (c : Char) (r : List Char) (hc : c = 'T' ∨ c = 'F' ∨ c = 'N') :
    parseItem (n + 1) (c :: r) = parseKw (c :: r) := by
  rcases hc with rfl | rfl | rfl <;> simp [parseItem, isDigit]

/-- the texts `repr(str)` can print without escapes: printable ASCII, no backslash, not both kinds of quotes -/
def StrOK (s : List Char) : Prop :=
  (∀ c ∈ s, c ≠ '\\' ∧ 32 ≤ c.toNat ∧ c.toNat < 127) ∧ ¬ (s.contains '\'' = true ∧ s.contains '"' = true)

theorem quoteOf_cases (s : List Char) : quoteOf s = '\'' ∨ quoteOf s = '"' := by
  unfold quoteOf; split <;> simp

theorem strOK_all (s : List Char) (h : StrOK s) : s.all (strChar (quoteOf s)) = true := by
  obtain ⟨h1, h2⟩ := h
  rw [List.all_eq_true]
  intro c hc
  obtain ⟨hb, hlo, hhi⟩ := h1 c hc
  have hq : c ≠ quoteOf s := by
    intro e
    unfold quoteOf at e
    by_cases hs : s.contains '\'' = true
    · by_cases hd : s.contains '"' = true
      · exact h2 ⟨hs, hd⟩
      · simp only [hs, hd, Bool.not_false, Bool.and_self, if_true] at e
        subst e
        exact hd (by simpa using hc)
    · simp only [hs, Bool.false_and, Bool.false_eq_true, if_false] at e
      subst e
      exact hs (by simpa using hc)
  simp [strChar, hq, hb, hlo, hhi]

theorem parseStr_repr (s rest : List Char) (h : StrOK s) :
    parseStr (quoteOf s) (s ++ quoteOf s :: rest) = some (.str s, rest) := by
  have hq : ∀ x, (quoteOf s :: rest).head? = some x → strChar (quoteOf s) x = false := by
    intro x hx
    simp only [List.head?_cons, Option.some.injEq] at hx
    subst hx
    simp [strChar]
  obtain ⟨ht, hd⟩ := takeWhile_all (strChar (quoteOf s)) s (quoteOf s :: rest) (strOK_all s h) hq
  unfold parseStr
  rw [ht, hd]
  simp

/-! ### the class of values: what `repr` prints inside the modelled grammar -/

/-- float texts: digits on both sides of the point -/
def FltOK (ip fp : List Char) : Prop := ip.all isDigit = true ∧ ip ≠ [] ∧ fp.all isDigit = true ∧ fp ≠ []

mutual
def LitOK : Lit → Prop
  | .int _ => True
  | .flt _ ip fp => FltOK ip fp
  | .bool _ => True
  | .none => True
  | .str s => StrOK s
  | .list xs => ListOK xs
  | .dict kvs => PairsOK kvs
def ListOK : List Lit → Prop
  | [] => True
  | x :: xs => LitOK x ∧ ListOK xs
def PairsOK : List (Lit × Lit) → Prop
  | [] => True
  | kv :: r => LitOK kv.1 ∧ LitOK kv.2 ∧ PairsOK r
end

mutual
/-- fuel `parseItem` needs for `repr(v)` -/
def size : Lit → Nat
  | .list xs => 1 + sizeE xs
  | .dict kvs => 1 + sizePE kvs
  | _ => 1
def sizeE : List Lit → Nat
  | [] => 0
  | x :: xs => size x + sizeT xs
def sizeT : List Lit → Nat
  | [] => 1
  | x :: xs => 1 + size x + sizeT xs
def sizePE : List (Lit × Lit) → Nat
  | [] => 0
  | kv :: r => 1 + size kv.1 + size kv.2 + sizePT r
def sizePT : List (Lit × Lit) → Nat
  | [] => 1
  | kv :: r => 2 + size kv.1 + size kv.2 + sizePT r
end

/-! ### atoms -/

theorem natDigits_cons (m : Nat) : ∃ c r, natDigits m = c :: r ∧ isDigit c = true := by
  obtain ⟨h1, _, h3⟩ := natDigits_spec m
  cases hnd : natDigits m with
  | nil => exact absurd hnd h3
  | cons c r =>
    rw [hnd] at h1
    simp only [List.all_cons, Bool.and_eq_true] at h1
    exact ⟨c, r, rfl, h1.1⟩

theorem intDigitsOK_natDigits (m : Nat) : intDigitsOK (natDigits m) = true := by
  unfold intDigitsOK
  rw [(natDigits_spec m).2.1]
  simp

theorem item_int (n : Nat) (i : Int) (rest : List Char) (hrest : tokEnd rest = true) :
    parseItem (n + 1) (reprInt i ++ rest) = some (.int i, rest) := by
  unfold reprInt
  by_cases hi : i < 0
  · simp only [hi, if_true, List.cons_append]
    rw [item_minus, parseNum_int true _ rest (natDigits_spec _).1 (natDigits_spec _).2.2 (intDigitsOK_natDigits _) hrest]
    rw [(natDigits_spec _).2.1]
    simp only [if_true]
    have : -((-i).toNat : Int) = i := by omega
    rw [this]
  · simp only [hi, if_false]
    obtain ⟨c, r, hcr, hc⟩ := natDigits_cons i.toNat
    have hstep : parseItem (n + 1) (natDigits i.toNat ++ rest) = parseNum false (natDigits i.toNat ++ rest) := by
      rw [hcr, List.cons_append]
      exact item_digit n c _ hc
    rw [hstep, parseNum_int false _ rest (natDigits_spec _).1 (natDigits_spec _).2.2 (intDigitsOK_natDigits _) hrest]
    rw [(natDigits_spec _).2.1]
    have : ((i.toNat : Nat) : Int) = i := by omega
    simp [this]

theorem item_flt (n : Nat) (neg : Bool) (ip fp rest : List Char) (h : FltOK ip fp) (hrest : tokEnd rest = true) :
    parseItem (n + 1) (reprLit (.flt neg ip fp) ++ rest) = some (.flt neg ip fp, rest) := by
  obtain ⟨h1, h2, h3, h4⟩ := h
  cases neg with
  | true =>
    simp only [reprLit, if_true, List.cons_append, List.nil_append, List.append_assoc]
    rw [item_minus]
    exact parseNum_flt true ip fp rest h1 h2 h3 h4 hrest
  | false =>
    simp only [reprLit, Bool.false_eq_true, if_false, List.nil_append, List.append_assoc, List.cons_append]
    cases ip with
    | nil => exact absurd rfl h2
    | cons c r =>
      have hc : isDigit c = true := by
        simp only [List.all_cons, Bool.and_eq_true] at h1
        exact h1.1
      rw [List.cons_append, item_digit n c _ hc, ← List.cons_append]
      exact parseNum_flt false (c :: r) fp rest h1 h2 h3 h4 hrest

theorem item_bool (n : Nat) (b : Bool) (rest : List Char) (hrest : tokEnd rest = true) :
    parseItem (n + 1) (reprLit (.bool b) ++ rest) = some (.bool b, rest) := by
  cases b with
  | true =>
    simp only [reprLit, List.cons_append, List.nil_append]
    rw [item_kw n 'T' _ (Or.inl rfl)]
    simp [parseKw, kwTrue, List.isPrefixOf, hrest]
  | false =>
    simp only [reprLit, List.cons_append, List.nil_append]
    rw [item_kw n 'F' _ (Or.inr (Or.inl rfl))]
    simp [parseKw, kwTrue, kwFalse, List.isPrefixOf, hrest]

theorem item_none (n : Nat) (rest : List Char) (hrest : tokEnd rest = true) :
    parseItem (n + 1) (reprLit .none ++ rest) = some (.none, rest) := by
  simp only [reprLit, List.cons_append, List.nil_append]
  rw [item_kw n 'N' _ (Or.inr (Or.inr rfl))]
  simp [parseKw, kwTrue, kwFalse, kwNone, List.isPrefixOf, hrest]

theorem item_str (n : Nat) (s rest : List Char) (h : StrOK s) :
    parseItem (n + 1) (reprLit (.str s) ++ rest) = some (.str s, rest) := by
  simp only [reprLit, List.cons_append, List.append_assoc, List.nil_append]
  rw [item_quote n _ _ (quoteOf_cases s)]
  exact parseStr_repr s rest h

/-! ### first characters -/

theorem reprLit_head (v : Lit) (h : LitOK v) :
    ∃ c r, reprLit v = c :: r ∧ isWs c = false ∧ c ≠ ']' ∧ c ≠ '}' := by
  cases v with
  | int i =>
    simp only [reprLit, reprInt]
    by_cases hi : i < 0
    · simp only [hi, if_true]
      exact ⟨'-', _, rfl, by decide, by decide, by decide⟩
    · simp only [hi, if_false]
      obtain ⟨c, r, hcr, hc⟩ := natDigits_cons i.toNat
      obtain ⟨_, _, _, _, _, h6, h7, h8⟩ := digit_dispatch c hc
      exact ⟨c, r, hcr, h8, h6, h7⟩
  | flt neg ip fp =>
    obtain ⟨h1, h2, _, _⟩ := (by simpa [LitOK] using h : FltOK ip fp)
    cases neg with
    | true => exact ⟨'-', ip ++ '.' :: fp, by simp [reprLit], by decide, by decide, by decide⟩
    | false =>
      cases ip with
      | nil => exact absurd rfl h2
      | cons c r =>
        have hc : isDigit c = true := by
          simp only [List.all_cons, Bool.and_eq_true] at h1
          exact h1.1
        obtain ⟨_, _, _, _, _, h6, h7, h8⟩ := digit_dispatch c hc
        exact ⟨c, r ++ '.' :: fp, by simp [reprLit], h8, h6, h7⟩
  | bool b =>
    cases b with
    | true => exact ⟨'T', ['r', 'u', 'e'], by simp [reprLit], by decide, by decide, by decide⟩
    | false => exact ⟨'F', ['a', 'l', 's', 'e'], by simp [reprLit], by decide, by decide, by decide⟩
  | none => exact ⟨'N', ['o', 'n', 'e'], by simp [reprLit], by decide, by decide, by decide⟩
  | str s =>
    rcases quoteOf_cases s with e | e
    · exact ⟨'\'', s ++ ['\''], by simp [reprLit, e], by decide, by decide, by decide⟩
    · exact ⟨'"', s ++ ['"'], by simp [reprLit, e], by decide, by decide, by decide⟩
  | list xs => exact ⟨'[', reprElems xs, by simp [reprLit], by decide, by decide, by decide⟩
  | dict kvs => exact ⟨'{', reprPairs kvs, by simp [reprLit], by decide, by decide, by decide⟩

theorem tokEnd_reprTail (xs : List Lit) (rest : List Char) : tokEnd (reprTail xs ++ rest) = true := by
  cases xs <;> simp [reprTail, tokEnd, isIdChar, isAlpha, isDigit]

theorem tokEnd_reprPTail (kvs : List (Lit × Lit)) (rest : List Char) : tokEnd (reprPTail kvs ++ rest) = true := by
  cases kvs <;> simp [reprPTail, tokEnd, isIdChar, isAlpha, isDigit]

theorem tokEnd_colon (rest : List Char) : tokEnd (':' :: rest) = true := by
  simp [tokEnd, isIdChar, isAlpha, isDigit]

/-! ### dict steps -/

theorem item_dict_nil (n : Nat) (rest : List Char) : parseItem (n + 1) ('{' :: '}' :: rest) = some (.dict [], rest) := by
  have h : isWs '}' = false := by decide
  simp [parseItem, skipWs_cons_of_not_ws _ _ h]

theorem ptail_nil (n : Nat) (rest : List Char) : parsePTail (n + 1) ('}' :: rest) = some ([], rest) := by
  have h : isWs '}' = false := by decide
  simp [parsePTail, skipWs_cons_of_not_ws _ _ h]

theorem pair_step (n : Nat) (tk : List Char) (c : Char) (r R : List Char) (k v : Lit) (hws : isWs c = false)
    (h1 : parseItem n (tk ++ ':' :: ' ' :: c :: r) = some (k, ':' :: ' ' :: c :: r))
    (h2 : parseItem n (c :: r) = some (v, R)) :
    parsePair (n + 1) (tk ++ ':' :: ' ' :: c :: r) = some ((k, v), R) := by
  have h : isWs ':' = false := by decide
  simp [parsePair, h1, skipWs_cons_of_not_ws _ _ h, skipWs_space, skipWs_cons_of_not_ws _ _ hws, h2]

theorem item_dict_cons (n : Nat) (c : Char) (r R rest : List Char) (kv : Lit × Lit) (kvs : List (Lit × Lit))
    (hws : isWs c = false) (hc : c ≠ '}')
    (h1 : parsePair n (c :: r) = some (kv, R)) (h2 : parsePTail n R = some (kvs, rest)) :
    parseItem (n + 1) ('{' :: c :: r) = some (.dict (kv :: kvs), rest) := by
  simp [parseItem, skipWs_cons_of_not_ws _ _ hws, hc, h1, h2]

theorem ptail_cons (n : Nat) (c : Char) (r R rest : List Char) (kv : Lit × Lit) (kvs : List (Lit × Lit))
    (hws : isWs c = false) (hc : c ≠ '}')
    (h1 : parsePair n (c :: r) = some (kv, R)) (h2 : parsePTail n R = some (kvs, rest)) :
    parsePTail (n + 1) (',' :: ' ' :: c :: r) = some (kv :: kvs, rest) := by
  have h : isWs ',' = false := by decide
  simp [parsePTail, skipWs_cons_of_not_ws _ _ h, skipWs_space, skipWs_cons_of_not_ws _ _ hws, hc, h1, h2]

/-! ### the parser reads back what `repr` prints — nested lists and dicts, any depth -/

mutual
theorem parseItem_repr (v : Lit) : ∀ (n : Nat) (rest : List Char), LitOK v → size v ≤ n → tokEnd rest = true →
    parseItem n (reprLit v ++ rest) = some (v, rest) :=
  match v with
  | .int i => by
    intro n rest _ hn hrest
    cases n with
    | zero => simp [size] at hn
    | succ n => simpa [reprLit] using item_int n i rest hrest
  | .flt neg ip fp => by
    intro n rest hok hn hrest
    cases n with
    | zero => simp [size] at hn
    | succ n => exact item_flt n neg ip fp rest (by simpa [LitOK] using hok) hrest
  | .bool b => by
    intro n rest _ hn hrest
    cases n with
    | zero => simp [size] at hn
    | succ n => exact item_bool n b rest hrest
  | .none => by
    intro n rest _ hn hrest
    cases n with
    | zero => simp [size] at hn
    | succ n => exact item_none n rest hrest
  | .str s => by
    intro n rest hok hn _
    cases n with
    | zero => simp [size] at hn
    | succ n => exact item_str n s rest (by simpa [LitOK] using hok)
  | .list xs => by
    intro n rest hok hn _
    cases n with
    | zero => simp [size] at hn
    | succ n =>
      simp only [size] at hn
      simp only [LitOK] at hok
      simp only [reprLit, List.cons_append]
      exact parseElems_repr xs n rest hok (by omega)
  | .dict kvs => by
    intro n rest hok hn _
    cases n with
    | zero => simp [size] at hn
    | succ n =>
      simp only [size] at hn
      simp only [LitOK] at hok
      simp only [reprLit, List.cons_append]
      exact parsePairs_repr kvs n rest hok (by omega)
theorem parseElems_repr : ∀ (xs : List Lit) (n : Nat) (rest : List Char), ListOK xs → sizeE xs ≤ n →
    parseItem (n + 1) ('[' :: (reprElems xs ++ rest)) = some (.list xs, rest)
  | [], n, rest, _, _ => by
    simp only [reprElems, List.cons_append, List.nil_append]
    exact item_list_nil n rest
  | x :: xs, n, rest, hok, hn => by
    simp only [ListOK] at hok
    simp only [sizeE] at hn
    have ihx := parseItem_repr x n (reprTail xs ++ rest) hok.1 (by omega) (tokEnd_reprTail xs rest)
    have iht := parseTail_repr xs n rest hok.2 (by omega)
    obtain ⟨c, r, hcr, hws, hc1, _⟩ := reprLit_head x hok.1
    simp only [reprElems, List.append_assoc]
    rw [hcr, List.cons_append] at ihx ⊢
    exact item_list_cons n c _ _ rest x xs hws hc1 ihx iht
theorem parseTail_repr : ∀ (xs : List Lit) (n : Nat) (rest : List Char), ListOK xs → sizeT xs ≤ n →
    parseTail n (reprTail xs ++ rest) = some (xs, rest)
  | [], n, rest, _, hn => by
    cases n with
    | zero => simp [sizeT] at hn
    | succ n =>
      simp only [reprTail, List.cons_append, List.nil_append]
      exact tail_nil n rest
  | x :: xs, n, rest, hok, hn => by
    cases n with
    | zero => simp [sizeT] at hn
    | succ n =>
      simp only [ListOK] at hok
      simp only [sizeT] at hn
      have ihx := parseItem_repr x n (reprTail xs ++ rest) hok.1 (by omega) (tokEnd_reprTail xs rest)
      have iht := parseTail_repr xs n rest hok.2 (by omega)
      obtain ⟨c, r, hcr, hws, hc1, _⟩ := reprLit_head x hok.1
      simp only [reprTail, List.cons_append, List.append_assoc]
      rw [hcr, List.cons_append] at ihx ⊢
      exact tail_cons n c _ _ rest x xs hws hc1 ihx iht
theorem parsePairs_repr : ∀ (kvs : List (Lit × Lit)) (n : Nat) (rest : List Char), PairsOK kvs → sizePE kvs ≤ n →
    parseItem (n + 1) ('{' :: (reprPairs kvs ++ rest)) = some (.dict kvs, rest)
  | [], n, rest, _, _ => by
    simp only [reprPairs, List.cons_append, List.nil_append]
    exact item_dict_nil n rest
  | kv :: kvs, n, rest, hok, hn => by
    cases n with
    | zero => simp [sizePE] at hn
    | succ n =>
      simp only [PairsOK] at hok
      simp only [sizePE] at hn
      have ihk := parseItem_repr kv.1 n (':' :: ' ' :: (reprLit kv.2 ++ (reprPTail kvs ++ rest))) hok.1 (by omega)
        (tokEnd_colon _)
      have ihv := parseItem_repr kv.2 n (reprPTail kvs ++ rest) hok.2.1 (by omega) (tokEnd_reprPTail kvs rest)
      have iht := parsePTail_repr kvs (n + 1) rest hok.2.2 (by omega)
      obtain ⟨ck, rk, hck, hwsk, _, hck2⟩ := reprLit_head kv.1 hok.1
      obtain ⟨cv, rv, hcv, hwsv, _, _⟩ := reprLit_head kv.2 hok.2.1
      have hp : parsePair (n + 1) (reprLit kv.1 ++ ':' :: ' ' :: (reprLit kv.2 ++ (reprPTail kvs ++ rest)))
          = some ((kv.1, kv.2), reprPTail kvs ++ rest) := by
        rw [hcv, List.cons_append] at ihv ihk ⊢
        exact pair_step n (reprLit kv.1) cv _ _ kv.1 kv.2 hwsv ihk ihv
      simp only [reprPairs, List.append_assoc, List.cons_append]
      rw [hck, List.cons_append] at hp ⊢
      exact item_dict_cons (n + 1) ck _ _ rest kv kvs hwsk hck2 hp iht
theorem parsePTail_repr : ∀ (kvs : List (Lit × Lit)) (n : Nat) (rest : List Char), PairsOK kvs → sizePT kvs ≤ n →
    parsePTail n (reprPTail kvs ++ rest) = some (kvs, rest)
  | [], n, rest, _, hn => by
    cases n with
    | zero => simp [sizePT] at hn
    | succ n =>
      simp only [reprPTail, List.cons_append, List.nil_append]
      exact ptail_nil n rest
  | kv :: kvs, n, rest, hok, hn => by
    cases n with
    | zero => simp [sizePT] at hn
    | succ n =>
      cases n with
      | zero => simp only [sizePT] at hn; omega
      | succ n =>
        simp only [PairsOK] at hok
        simp only [sizePT] at hn
        have ihk := parseItem_repr kv.1 n (':' :: ' ' :: (reprLit kv.2 ++ (reprPTail kvs ++ rest))) hok.1 (by omega)
          (tokEnd_colon _)
        have ihv := parseItem_repr kv.2 n (reprPTail kvs ++ rest) hok.2.1 (by omega) (tokEnd_reprPTail kvs rest)
        have iht := parsePTail_repr kvs (n + 1) rest hok.2.2 (by omega)
        obtain ⟨ck, rk, hck, hwsk, _, hck2⟩ := reprLit_head kv.1 hok.1
        obtain ⟨cv, rv, hcv, hwsv, _, _⟩ := reprLit_head kv.2 hok.2.1
        have hp : parsePair (n + 1) (reprLit kv.1 ++ ':' :: ' ' :: (reprLit kv.2 ++ (reprPTail kvs ++ rest)))
            = some ((kv.1, kv.2), reprPTail kvs ++ rest) := by
          rw [hcv, List.cons_append] at ihv ihk ⊢
          exact pair_step n (reprLit kv.1) cv _ _ kv.1 kv.2 hwsv ihk ihv
        simp only [reprPTail, List.append_assoc, List.cons_append]
        rw [hck, List.cons_append] at hp ⊢
        exact ptail_cons (n + 1) ck _ _ rest kv kvs hwsk hck2 hp iht
end

/-! ### fuel: the length of the text is enough -/

theorem reprInt_length_pos (i : Int) : 1 ≤ (reprInt i).length := by
  unfold reprInt
  split
  · simp
  · obtain ⟨c, r, hcr, _⟩ := natDigits_cons i.toNat
    rw [hcr]; simp

mutual
theorem size_le_length (v : Lit) : size v ≤ (reprLit v).length :=
  match v with
  | .int i => by simpa [size, reprLit] using reprInt_length_pos i
  | .flt neg ip fp => by simp only [size, reprLit, List.length_append, List.length_cons]; omega
  | .bool b => by cases b <;> simp [size, reprLit]
  | .none => by simp [size, reprLit]
  | .str s => by simp [size, reprLit]
  | .list xs => by
    have := sizeE_le xs
    simp only [size, reprLit, List.length_cons]; omega
  | .dict kvs => by
    have := sizePE_le kvs
    simp only [size, reprLit, List.length_cons]; omega
theorem sizeE_le : ∀ (xs : List Lit), sizeE xs ≤ (reprElems xs).length
  | [] => by simp [sizeE]
  | x :: xs => by
    have h1 := size_le_length x
    have h2 := sizeT_le xs
    simp only [sizeE, reprElems, List.length_append]; omega
theorem sizeT_le : ∀ (xs : List Lit), sizeT xs ≤ (reprTail xs).length
  | [] => by simp [sizeT, reprTail]
  | x :: xs => by
    have h1 := size_le_length x
    have h2 := sizeT_le xs
    simp only [sizeT, reprTail, List.length_append, List.length_cons]; omega
theorem sizePE_le : ∀ (kvs : List (Lit × Lit)), sizePE kvs ≤ (reprPairs kvs).length
  | [] => by simp [sizePE]
  | kv :: kvs => by
    have h1 := size_le_length kv.1
    have h2 := size_le_length kv.2
    have h3 := sizePT_le kvs
    simp only [sizePE, reprPairs, List.length_append, List.length_cons]; omega
theorem sizePT_le : ∀ (kvs : List (Lit × Lit)), sizePT kvs ≤ (reprPTail kvs).length
  | [] => by simp [sizePT, reprPTail]
  | kv :: kvs => by
    have h1 := size_le_length kv.1
    have h2 := size_le_length kv.2
    have h3 := sizePT_le kvs
    simp only [sizePT, reprPTail, List.length_append, List.length_cons]; omega
end

/-- `literal_eval(repr(v)) == v` on the modelled class -/
theorem parseLit_repr (v : Lit) (h : LitOK v) : parseLit (reprLit v) = some v := by
  obtain ⟨c, r, hcr, hws, _, _⟩ := reprLit_head v h
  have hskip : skipWs (reprLit v) = reprLit v := by rw [hcr]; exact skipWs_cons_of_not_ws c r hws
  have hp := parseItem_repr v ((reprLit v).length + 1) [] h (by have := size_le_length v; omega) rfl
  rw [List.append_nil] at hp
  unfold parseLit
  rw [hskip, hp]
  simp [skipWs]

/-! ### words -/

theorem word_dispatch (c : Char) (h : isAlpha c = true ∨ c = '_') :
    c ≠ '[' ∧ c ≠ '{' ∧ c ≠ '\'' ∧ c ≠ '"' ∧ c ≠ '-' ∧ isDigit c = false ∧ isWs c = false := by
  rcases h with h | h
  · refine ⟨?_, ?_, ?_, ?_, ?_, ?_, ?_⟩
    · intro e; subst e; revert h; decide
    · intro e; subst e; revert h; decide
    · intro e; subst e; revert h; decide
    · intro e; subst e; revert h; decide
    · intro e; subst e; revert h; decide
    · simp only [isAlpha, Bool.or_eq_true, Bool.and_eq_true, decide_eq_true_eq] at h
      simp only [isDigit, Bool.and_eq_false_iff, decide_eq_false_iff_not]
      rcases h with ⟨h1, _⟩ | ⟨h1, _⟩
      · right; intro h9; exact absurd (Char.le_trans h1 h9) (by decide)
      · right; intro h9; exact absurd (Char.le_trans h1 h9) (by decide)
    · simp only [isWs, Bool.or_eq_false_iff, beq_eq_false_iff_ne, ne_eq]
      constructor <;> (intro e; subst e; revert h; decide)
  · subst h; decide

theorem item_word (n : Nat) (c : Char) (r : List Char) (h : isAlpha c = true ∨ c = '_') :
    parseItem (n + 1) (c :: r) = parseKw (c :: r) := by
  obtain ⟨h1, h2, h3, h4, h5, h6, _⟩ := word_dispatch c h
  simp [parseItem, h1, h2, h3, h4, h5, h6]

theorem isPrefixOf_split (kw cs : List Char) (h : kw.isPrefixOf cs = true) : cs = kw ++ cs.drop kw.length := by
  induction kw generalizing cs with
  | nil => simp
  | cons a as ih =>
    cases cs with
    | nil => simp [List.isPrefixOf] at h
    | cons b bs =>
      simp only [List.isPrefixOf, Bool.and_eq_true, beq_iff_eq] at h
      obtain ⟨hab, hrest⟩ := h
      subst hab
      simp only [List.cons_append, List.length_cons, List.drop_succ_cons]
      rw [← ih bs hrest]

/-- a keyword token is the only thing the parser accepts at a letter -/
theorem parseKw_some (cs rest : List Char) (v : Lit) (h : parseKw cs = some (v, rest)) :
    cs = kwTrue ++ rest ∨ cs = kwFalse ++ rest ∨ cs = kwNone ++ rest := by
  unfold parseKw at h
  split at h
  · rename_i h1
    simp only [Bool.and_eq_true] at h1
    simp only [Option.some.injEq, Prod.mk.injEq] at h
    have := isPrefixOf_split kwTrue cs h1.1
    rw [← h.2]; exact Or.inl (by simpa [kwTrue] using this)
  · split at h
    · rename_i _ h1
      simp only [Bool.and_eq_true] at h1
      simp only [Option.some.injEq, Prod.mk.injEq] at h
      have := isPrefixOf_split kwFalse cs h1.1
      rw [← h.2]; exact Or.inr (Or.inl (by simpa [kwFalse] using this))
    · split at h
      · rename_i _ _ h1
        simp only [Bool.and_eq_true] at h1
        simp only [Option.some.injEq, Prod.mk.injEq] at h
        have := isPrefixOf_split kwNone cs h1.1
        rw [← h.2]; exact Or.inr (Or.inr (by simpa [kwNone] using this))
      · simp at h

theorem dropWhile_nil_all {α : Type} (p : α → Bool) : ∀ (l : List α), l.dropWhile p = [] → l.all p = true
  | [], _ => rfl
  | a :: l, h => by
    by_cases ha : p a = true
    · simp only [List.dropWhile, ha] at h
      simp [ha, dropWhile_nil_all p l h]
    · simp [List.dropWhile, ha] at h

/-- a text that starts with a letter or `_` is a modelled literal only if it is `True` / `False` / `None` followed by blanks -/
theorem parseLit_word (c : Char) (r : List Char) (v : Lit) (hc : isAlpha c = true ∨ c = '_')
    (h : parseLit (c :: r) = some v) :
    ∃ ws, ws.all isWs = true ∧ (c :: r = kwTrue ++ ws ∨ c :: r = kwFalse ++ ws ∨ c :: r = kwNone ++ ws) := by
  obtain ⟨_, _, _, _, _, _, hws⟩ := word_dispatch c hc
  unfold parseLit at h
  rw [skipWs_cons_of_not_ws c r hws, List.length_cons, item_word _ c r hc] at h
  cases hk : parseKw (c :: r) with
  | none => rw [hk] at h; simp at h
  | some res =>
    obtain ⟨v', rest⟩ := res
    rw [hk] at h
    simp only [] at h
    by_cases he : (skipWs rest).isEmpty = true
    · refine ⟨rest, dropWhile_nil_all isWs rest (by simpa [skipWs] using he), parseKw_some _ rest v' hk⟩
    · simp [he] at h

/-! ### the hard-coded words in any letter case -/

open Dask.PyStr (lowerL) in
theorem toLower_alpha (c t : Char) (ht : isAlpha t = true) (h : c.toLower = t) : isAlpha c = true := by
  unfold Char.toLower at h
  split at h
  · rename_i h1
    simp only [isAlpha, Bool.or_eq_true, Bool.and_eq_true, decide_eq_true_eq]
    right
    exact ⟨h1.1, h1.2⟩
  · subst h; exact ht

open Dask.PyStr (lowerL) in
/-- the common part: a text whose lower-case form is one of the hard-coded words -/
theorem any_case (s : List Char) (lit : Lit) (c0 : Char) (t : List Char) (hl : lowerL s = c0 :: t) (hc0 : isAlpha c0 = true)
    (hhard : hardcoded s = some lit)
    (hkw : ∀ ws, ws.all isWs = true →
      (lowerL (kwTrue ++ ws) = c0 :: t → parseLit (kwTrue ++ ws) = some lit) ∧
      (lowerL (kwFalse ++ ws) = c0 :: t → parseLit (kwFalse ++ ws) = some lit) ∧
      (lowerL (kwNone ++ ws) = c0 :: t → parseLit (kwNone ++ ws) = some lit)) :
    interpretValue s = .lit lit := by
  cases hp : parseLit s with
  | none => simp [interpretValue, hp, hhard]
  | some v =>
    cases s with
    | nil => simp [lowerL] at hl
    | cons a r =>
      have ha : isAlpha a = true := by
        simp only [lowerL, List.map_cons, List.cons.injEq] at hl
        exact toLower_alpha a c0 hc0 hl.1
      obtain ⟨ws, hws, hcases⟩ := parseLit_word a r v (Or.inl ha) hp
      obtain ⟨h1, h2, h3⟩ := hkw ws hws
      have : parseLit (a :: r) = some lit := by
        rcases hcases with e | e | e
        · rw [e] at hl ⊢; exact h1 hl
        · rw [e] at hl ⊢; exact h2 hl
        · rw [e] at hl ⊢; exact h3 hl
      simp [interpretValue, this]

end Dask.Interp
