import DaskModel.Lemmas.SchedSys
/-! Invariant of the whole scheduler (`State` + outstanding batches + callback log), preserved by
`fire_tasks`, by the processing of any outstanding batch, hence by every iteration of the main loop
whatever batch the adversary completes. -/
namespace Dask.Sched
variable {α : Type}

def pendKeys (s : Sys α) : List Key := s.pending.flatten.map (·.1)

/-- in every prefix of the log, a key with a `posttask` already had its `pretask` -/
def Ordered (log : List (Ev × State α)) : Prop :=
  ∀ l1 l2, log = l1 ++ l2 → ∀ k, k ∈ postKeys l1 → k ∈ preKeys l1

theorem Ordered.append {log ext : List (Ev × State α)} (h : Ordered log)
    (hext : ∀ l1 l2, ext = l1 ++ l2 → ∀ k, k ∈ postKeys l1 → k ∈ preKeys (log ++ l1)) : Ordered (log ++ ext) := by
  intro m1 m2 hm k hk
  rcases List.append_eq_append_iff.mp hm with ⟨a', h1, h2⟩ | ⟨c', h1, h2⟩
  · -- m1 = log ++ a'
    subst h1
    rw [postKeys_append] at hk
    rcases List.mem_append.mp hk with hk1 | hk1
    · rw [preKeys_append]
      exact List.mem_append_left _ (h log [] (by simp) k hk1)
    · exact hext a' m2 h2 k hk1
  · -- log = m1 ++ c'
    exact h m1 c' h1 k hk

theorem postKeys_nil_of_no_post (l : List (Ev × State α)) (h : ∀ e ∈ l, ∀ k, e.1 ≠ Ev.posttask k) : postKeys l = [] := by
  induction l with
  | nil => rfl
  | cons e l ih =>
    have h1 := h e (by simp)
    have h2 := ih (fun e he => h e (List.mem_cons_of_mem _ he))
    unfold postKeys at h2 ⊢
    rw [List.filterMap_cons]
    split
    · exact h2
    · rename_i k hk
      split at hk
      · rename_i k' hk'; exact absurd hk' (h1 k')
      · cases hk

/-- `rest` = the part of the batch being processed that has not been looked at yet (`[]` between iterations) -/
structure BatchInv (cfg : Cfg) (den : Key → α) (rest : List (Key × α)) (s : Sys α) : Prop where
  inv : Inv cfg.g cfg.results s.st
  sound : CacheSound den s.st
  nodup : (pendKeys s ++ rest.map (·.1)).Nodup
  running : ∀ k, (k ∈ pendKeys s ∨ k ∈ rest.map (·.1)) ↔ k ∈ s.st.running
  pendVal : ∀ p ∈ s.pending.flatten, p.2 = den p.1
  restVal : ∀ p ∈ rest, p.2 = den p.1
  pendNonempty : ∀ b ∈ s.pending, b ≠ []
  preNodup : (preKeys s.log).Nodup
  preIff : ∀ k, k ∈ preKeys s.log ↔ k ∈ s.st.running ∨ k ∈ s.st.finished
  postNodup : (postKeys s.log).Nodup
  postIff : ∀ k, k ∈ postKeys s.log ↔ k ∈ s.st.finished
  preSnap : ∀ e ∈ s.log, ∀ k, e.1 = Ev.pretask k →
    ∀ d ∈ e.2.depsOf k, e.2.cache.get? d = some (den d) ∧ done cfg.g e.2 d
  noFinish : ∀ e ∈ s.log, ∀ b, e.1 ≠ Ev.finish b
  ordered : Ordered s.log
  snapSound : ∀ e ∈ s.log, CacheSound den e.2

abbrev SysInv (cfg : Cfg) (den : Key → α) (s : Sys α) : Prop := BatchInv cfg den [] s

/-- events emitted inside the main loop -/
def midEv : Ev → Bool
  | .pretask _ => true
  | .submit _ => true
  | .posttask _ => true
  | _ => false

/-- `l'` extends `l` by loop events only -/
def LogExt (l l' : List (Ev × State α)) : Prop := ∃ ext, l' = l ++ ext ∧ ∀ e ∈ ext, midEv e.1 = true

theorem LogExt.refl (l : List (Ev × State α)) : LogExt l l := ⟨[], by simp, by simp⟩

theorem LogExt.trans {l1 l2 l3 : List (Ev × State α)} (h1 : LogExt l1 l2) (h2 : LogExt l2 l3) : LogExt l1 l3 := by
  obtain ⟨e1, rfl, he1⟩ := h1
  obtain ⟨e2, rfl, he2⟩ := h2
  refine ⟨e1 ++ e2, by simp, ?_⟩
  intro e he
  rcases List.mem_append.mp he with h | h
  · exact he1 e h
  · exact he2 e h

theorem preKeys_submits (bs : List (List (Key × α))) (st : State α) :
    preKeys (bs.map (fun b => (Ev.submit (b.map (·.1)), st))) = [] := by
  induction bs with
  | nil => rfl
  | cons b bs ih => simp [preKeys] at ih ⊢

theorem postKeys_submits (bs : List (List (Key × α))) (st : State α) :
    postKeys (bs.map (fun b => (Ev.submit (b.map (·.1)), st))) = [] := by
  induction bs with
  | nil => rfl
  | cons b bs ih => simp [postKeys] at ih ⊢

theorem postKeys_of_pretasks (log : List (Ev × State α)) (h : ∀ e ∈ log, ∃ k, e.1 = Ev.pretask k) :
    postKeys log = [] := by
  induction log with
  | nil => rfl
  | cons e log ih =>
    obtain ⟨k, hk⟩ := h e (by simp)
    have := ih (fun e he => h e (List.mem_cons_of_mem _ he))
    simp [postKeys, hk] at this ⊢
    exact this

/-- `fire_tasks` never raises (in particular no ZeroDivisionError after the repair), keeps the invariant,
submits every task it popped, and submits at least one batch when nothing is running and something is ready -/
theorem fire_spec {cfg : Cfg} (P : Params α) {den : Key → α} (hden : IsDen cfg.g P den)
    (hnw : 1 ≤ cfg.nw) (hcs : cfg.cs = -1 ∨ 1 ≤ cfg.cs) {s : Sys α} (h : SysInv cfg den s) :
    ∃ s', fireTasks cfg P s = .ok s' ∧ SysInv cfg den s' ∧
      s'.st.finished = s.st.finished ∧ s'.st.waiting = s.st.waiting ∧ s'.st.cache = s.st.cache ∧
      s'.st.released = s.st.released ∧ s'.st.dependencies = s.st.dependencies ∧
      (∃ n, s'.st.ready = s.st.ready.drop n ∧ ∀ j, j ∈ s'.st.running ↔ j ∈ s.st.running ∨ j ∈ s.st.ready.take n) ∧
      (∃ bs, s'.pending = s.pending ++ bs) ∧
      (s.st.running = [] → s.st.ready ≠ [] → s'.pending ≠ []) ∧ LogExt s.log s'.log := by
  -- number of tasks to pop and the batch size
  have hstep : ∃ ntasks cs' : Int,
      fireSelect cfg s.st.ready.length s.st.running.length = .ok (ntasks, cs') ∧
      ntasks.toNat ≤ s.st.ready.length ∧ 1 ≤ cs' ∧
      (s.st.running = [] → s.st.ready ≠ [] → 1 ≤ ntasks.toNat) := by
    unfold fireSelect
    by_cases hm : cfg.cs = -1
    · obtain ⟨q, hq, hq0, _, _, _⟩ := negFloorDivNeg_spec (a := (s.st.ready.length : Int)) (b := cfg.nw)
        (Int.natCast_nonneg _) (by omega)
      refine ⟨(s.st.ready.length : Int), max q 1, ?_, by simp, by omega, ?_⟩
      · simp [hm, hq]
      · intro _ hr
        have : s.st.ready.length ≠ 0 := by simpa using hr
        simp
        omega
    · have hcs1 : 1 ≤ cfg.cs := by omega
      obtain ⟨q, hq, hq0, _, _, hup⟩ := negFloorDivNeg_spec (a := (s.st.running.length : Int)) (b := cfg.cs)
        (Int.natCast_nonneg _) (by omega)
      refine ⟨min (s.st.ready.length : Int) (cfg.cs * max (cfg.nw - q) 0), cfg.cs, ?_, ?_, hcs1, ?_⟩
      · simp [hm, hq]
      · omega
      · intro hrun hr
        have hlen : s.st.ready.length ≠ 0 := by simpa using hr
        have hq' : q = 0 := by
          rw [hrun] at hup
          simp only [List.length_nil, Int.natCast_zero] at hup
          by_cases hq1 : 1 ≤ q
          · have : 0 ≤ (q - 1) * cfg.cs := Int.mul_nonneg (by omega) (by omega)
            omega
          · omega
        subst hq'
        have h1 : 1 ≤ cfg.cs * max (cfg.nw - 0) 0 := by
          have : max (cfg.nw - 0) 0 = cfg.nw := by omega
          rw [this]
          have := Int.mul_le_mul hcs1 hnw (by omega) (by omega)
          simpa using this
        omega
  obtain ⟨ntasks, cs', hsel, hnt, hcs', hprog⟩ := hstep
  obtain ⟨s1, args', log', hpl, hinv1, hargs, hvals, hpre, _, hev, hready, hrun, c1, c2, c3, c4, c5, c6, c7⟩ :=
    popLoop_spec (g := cfg.g) (results := cfg.results) P hden ntasks.toNat s.st [] s.log h.inv h.sound hnt
  have hlen : args'.length = ntasks.toNat := by
    have := congrArg List.length hargs
    simp only [List.length_map, List.length_take] at this
    omega
  obtain ⟨nb, hnbq, hnb0, hnble, _, _⟩ := negFloorDivNeg_spec (a := (([] ++ args' : List (Key × α)).length : Int)) (b := cs')
    (Int.natCast_nonneg _) (by omega)
  have hbl : ([] ++ args' : List (Key × α)).length ≤ nb.toNat * cs'.toNat := by
    obtain ⟨nbN, rfl⟩ := Int.eq_ofNat_of_zero_le hnb0
    obtain ⟨cN, rfl⟩ := Int.eq_ofNat_of_zero_le (by omega : 0 ≤ cs')
    simp only [Int.toNat_natCast]
    exact_mod_cast hnble
  have hflat : (batches cs'.toNat nb.toNat ([] ++ args')).flatten = [] ++ args' :=
    batches_flatten _ _ _ (by omega) hbl
  have hpost' : postKeys log' = [] := postKeys_of_pretasks log' (fun e he => (hev e he).imp fun _ hk => hk.1)
  have htake_sub : ∀ j, j ∈ s.st.ready.take ntasks.toNat → j ∈ s.st.ready := fun j hj => List.mem_of_mem_take hj
  have hbne := batches_nonempty cs'.toNat nb.toNat ([] ++ args')
  generalize hbs : batches cs'.toNat nb.toNat ([] ++ args') = bs at hflat hbne
  simp only [List.nil_append] at hflat
  refine ⟨{ st := s1, pending := s.pending ++ bs, log := (s.log ++ log') ++ bs.map (fun b => (Ev.submit (b.map (·.1)), s1)) },
    ?_, ?_, c2, c4, c1, c3, c5, ⟨ntasks.toNat, hready, hrun⟩, ⟨_, rfl⟩, ?_, ?_⟩
  · unfold fireTasks
    simp only []
    rw [hsel]
    simp only []
    rw [hpl]
    simp only []
    rw [hnbq]
    simp only [hbs]
  · have hpk : pendKeys ({ st := s1, pending := s.pending ++ bs, log := (s.log ++ log') ++ bs.map (fun b => (Ev.submit (b.map (·.1)), s1)) } : Sys α)
        = pendKeys s ++ s.st.ready.take ntasks.toNat := by
      simp only [pendKeys, List.flatten_append, List.map_append, hflat]
      simp [hargs]
    have hrunS : ∀ k, k ∈ pendKeys s ↔ k ∈ s.st.running := by
      intro k; have := h.running k; simpa using this
    refine ⟨hinv1, ?_, ?_, ?_, ?_, ?_, ?_, ?_, ?_, ?_, ?_, ?_, ?_, ?_, ?_⟩
    · intro d v hv; exact h.sound d v (by rw [← c1]; exact hv)
    · rw [hpk]
      simp only [List.map_nil, List.append_nil]
      rw [List.nodup_append]
      refine ⟨by simpa using h.nodup, (List.take_sublist _ _).nodup h.inv.readyNodup, ?_⟩
      intro a ha b hb hab
      subst hab
      exact h.inv.readyRunning a (htake_sub a hb) ((hrunS a).mp ha)
    · intro k
      rw [hpk, hrun k]
      simp only [List.map_nil, List.not_mem_nil, or_false, List.mem_append, hrunS]
    · intro p hp
      simp only [List.flatten_append, List.mem_append, hflat] at hp
      rcases hp with hp | hp
      · exact h.pendVal p hp
      · exact hvals p hp
    · intro p hp; cases hp
    · intro b hb
      rcases List.mem_append.mp hb with hb | hb
      · exact h.pendNonempty b hb
      · exact hbne b hb
    · show (preKeys ((s.log ++ log') ++ _)).Nodup
      rw [preKeys_append, preKeys_append, preKeys_submits, List.append_nil, hpre, List.nodup_append]
      refine ⟨h.preNodup, (List.take_sublist _ _).nodup h.inv.readyNodup, ?_⟩
      intro a ha b hb hab
      subst hab
      have hb' := htake_sub a hb
      rcases (h.preIff a).mp ha with h1 | h1
      · exact h.inv.readyRunning a hb' h1
      · exact h.inv.readyFinished a hb' h1
    · intro k
      show k ∈ preKeys ((s.log ++ log') ++ _) ↔ _
      rw [preKeys_append, preKeys_append, preKeys_submits, List.append_nil, hpre, List.mem_append, h.preIff k, hrun k, c2]
      constructor
      · rintro ((h1 | h1) | h1)
        · exact Or.inl (Or.inl h1)
        · exact Or.inr h1
        · exact Or.inl (Or.inr h1)
      · rintro ((h1 | h1) | h1)
        · exact Or.inl (Or.inl h1)
        · exact Or.inr h1
        · exact Or.inl (Or.inr h1)
    · show (postKeys ((s.log ++ log') ++ _)).Nodup
      rw [postKeys_append, postKeys_append, postKeys_submits, hpost']
      simpa using h.postNodup
    · intro k
      show k ∈ postKeys ((s.log ++ log') ++ _) ↔ _
      rw [postKeys_append, postKeys_append, postKeys_submits, hpost', c2]
      simpa using h.postIff k
    · intro e he k hk
      show ∀ d ∈ e.2.depsOf k, _
      have he' : e ∈ (s.log ++ log') ++ bs.map (fun b => (Ev.submit (b.map (·.1)), s1)) := he
      rcases List.mem_append.mp he' with he1 | he1
      · rcases List.mem_append.mp he1 with he2 | he2
        · exact h.preSnap e he2 k hk
        · obtain ⟨k', hk', _, hsnap⟩ := hev e he2
          rw [hk'] at hk
          cases hk
          exact hsnap
      · obtain ⟨b, _, hb⟩ := List.mem_map.mp he1
        rw [← hb] at hk
        cases hk
    · intro e he b hk
      have he' : e ∈ (s.log ++ log') ++ bs.map (fun b => (Ev.submit (b.map (·.1)), s1)) := he
      rcases List.mem_append.mp he' with he1 | he1
      · rcases List.mem_append.mp he1 with he2 | he2
        · exact h.noFinish e he2 b hk
        · obtain ⟨k', hk', _⟩ := hev e he2
          rw [hk'] at hk
          cases hk
      · obtain ⟨b', _, hb⟩ := List.mem_map.mp he1
        rw [← hb] at hk
        cases hk
    · show Ordered ((s.log ++ log') ++ bs.map (fun b => (Ev.submit (b.map (·.1)), s1)))
      rw [List.append_assoc]
      apply h.ordered.append
      intro l1 l2 hl k hk
      have : postKeys l1 = [] := by
        apply postKeys_nil_of_no_post
        intro e he k' hk'
        have he' : e ∈ log' ++ bs.map (fun b => (Ev.submit (b.map (·.1)), s1)) := by
          rw [hl]; exact List.mem_append_left _ he
        rcases List.mem_append.mp he' with he1 | he1
        · obtain ⟨k2, hk2, _⟩ := hev e he1
          rw [hk2] at hk'; cases hk'
        · obtain ⟨b', _, hb⟩ := List.mem_map.mp he1
          rw [← hb] at hk'; cases hk'
      rw [this] at hk
      cases hk
    · intro e he
      have he' : e ∈ (s.log ++ log') ++ bs.map (fun b => (Ev.submit (b.map (·.1)), s1)) := he
      rcases List.mem_append.mp he' with he1 | he1
      · rcases List.mem_append.mp he1 with he2 | he2
        · exact h.snapSound e he2
        · obtain ⟨_, _, hc, _⟩ := hev e he2
          intro d v hv
          exact h.sound d v (by rw [← hc]; exact hv)
      · obtain ⟨b', _, hb⟩ := List.mem_map.mp he1
        intro d v hv
        rw [← hb] at hv
        exact h.sound d v (by rw [← c1]; exact hv)
  · intro hrun0 hr0
    have h1 := hprog hrun0 hr0
    show s.pending ++ bs ≠ []
    intro he
    have he2 := (List.append_eq_nil_iff.mp he).2
    rw [he2] at hflat
    simp only [List.flatten_nil] at hflat
    rw [← hflat] at hlen
    simp at hlen
    omega
  · refine ⟨log' ++ bs.map (fun b => (Ev.submit (b.map (·.1)), s1)), by simp, ?_⟩
    intro e he
    rcases List.mem_append.mp he with he1 | he1
    · obtain ⟨k, hk, _⟩ := hev e he1
      rw [hk]; rfl
    · obtain ⟨b, _, hb⟩ := List.mem_map.mp he1
      rw [← hb]; rfl

/-- acyclic graph: when nothing is running and something is waiting, something is ready
(so `fire_tasks` submits work and `queue_get` does not block for ever) -/
theorem Inv.ready_of_waiting {g : Graph} {results : List Key} {s : State α} (h : Inv g results s)
    (rank : Key → Nat) (hrank : ∀ k deps d, g.get? k = some (.task deps) → d ∈ deps → rank d < rank k)
    (hrun : s.running = []) (hw : ∃ k w, s.waiting.get? k = some w) : s.ready ≠ [] := by
  intro hready
  have key : ∀ n k, rank k < n → s.waiting.get? k = none := by
    intro n
    induction n with
    | zero => intro k hk; omega
    | succ n ih =>
      intro k hk
      cases hwk : s.waiting.get? k with
      | none => rfl
      | some w =>
        exfalso
        obtain ⟨hne, hex⟩ := h.waitingExact k w hwk
        obtain ⟨d, hd⟩ := List.exists_mem_of_ne_nil w hne
        obtain ⟨hdk, hnd⟩ := (hex d).mp hd
        obtain ⟨hks, deps, hg⟩ := h.waitingTask k w hwk
        obtain ⟨ds, hds⟩ := hks
        have hdeq : ds = deps := by
          have := h.depsGraph k ds hds
          simpa [nodeDeps, hg] using this
        rw [depsOf_of_get hds, hdeq] at hdk
        have hrk := hrank k deps d hg hdk
        have hdw := ih d (by omega)
        have hdseen := h.depsSeen k ds hds d (by rw [hdeq]; exact hdk)
        rcases h.seenGraph d hdseen with hdata | htask
        · exact hnd (Or.inl hdata)
        · rcases h.cover d hdseen htask with ⟨w', hw'⟩ | h1 | h1 | h1
          · rw [hdw] at hw'; cases hw'
          · rw [hready] at h1; cases h1
          · rw [hrun] at h1; cases h1
          · exact hnd (Or.inr h1)
  obtain ⟨k, w, hkw⟩ := hw
  have := key (rank k + 1) k (by omega)
  rw [this] at hkw
  cases hkw

end Dask.Sched
