import DaskModel.Model.TaskNode
import DaskModel.Lemmas.NormalForm
/-!
Lemmas for C11 (and C13/C15): rigid values (on which `ObsEq` is equality), normal forms of user values are
rigid, generic list lemmas relating elementwise / permuted relations on mapped lists, and commutation of
the stable sort with payload maps.
-/
namespace Dask.NF

/-! ## inversion of `ObsEq` -/

theorem ObsEq.str_inv {s t : String} (h : ObsEq (.str s) (.str t)) : s = t := by cases h; rfl
theorem ObsEq.atom_inv {s t : String} (h : ObsEq (.atom s) (.atom t)) : s = t := by cases h; rfl
theorem ObsEq.tuple_inv {xs ys : List Val} (h : ObsEq (.tuple xs) (.tuple ys)) : ObsEqL xs ys := by
  cases h with | tuple hl => exact hl
theorem ObsEq.list_inv {xs ys : List Val} (h : ObsEq (.list xs) (.list ys)) : ObsEqL xs ys := by
  cases h with | list hl => exact hl
theorem ObsEq.digest_inv {a b : Val} (h : ObsEq (.digest a) (.digest b)) : ObsEq a b := by
  cases h with | digest h => exact h
theorem ObsEq.sorted_inv {xs ys : List Val} (h : ObsEq (.sortedTokens xs) (.sortedTokens ys)) :
    ∃ zs, ObsEqL xs zs ∧ zs.Perm ys := by
  cases h with | sortedTokens hl hp => exact ⟨_, hl, hp⟩
theorem ObsEq.pickled_inv {k k' : String} {p p' : Val} (h : ObsEq (.pickled k p) (.pickled k' p')) :
    k = k' ∧ p = p' := by cases h; exact ⟨rfl, rfl⟩
theorem ObsEqL.cons_inv {x y : Val} {xs ys : List Val} (h : ObsEqL (x :: xs) (y :: ys)) :
    ObsEq x y ∧ ObsEqL xs ys := by
  cases h with | cons h1 h2 => exact ⟨h1, h2⟩
/-- a tuple is only related to a tuple of the same length -/
theorem ObsEq.tuple_left {xs : List Val} {y : Val} (h : ObsEq (.tuple xs) y) : ∃ ys, y = .tuple ys ∧ ObsEqL xs ys := by
  cases h with | tuple hl => exact ⟨_, rfl, hl⟩
theorem ObsEqL.length_eq {xs ys : List Val} (h : ObsEqL xs ys) : xs.length = ys.length := by
  induction xs generalizing ys with
  | nil => cases h; rfl
  | cons x xs ih => cases h with | cons _ h2 => simp [ih h2]

/-! ## `All₂` basics -/

theorem ObsEqL.to_all₂ {xs ys : List Val} (h : ObsEqL xs ys) : All₂ ObsEq xs ys := by
  induction xs generalizing ys with
  | nil => cases h; exact .nil
  | cons x xs ih => cases h with | cons h1 h2 => exact .cons h1 (ih h2)

theorem All₂.length_eq {α β : Type} {R : α → β → Prop} {xs : List α} {ys : List β} (h : All₂ R xs ys) :
    xs.length = ys.length := by
  induction h with
  | nil => rfl
  | cons _ _ ih => simp [ih]

/-- ordered: related images under `f` ⇒ equal images under `g` -/
theorem all₂_map_eq {α β γ : Type} (f : α → β) (g : α → γ) (R : β → β → Prop) :
    ∀ (as bs : List α), All₂ R (as.map f) (bs.map f) →
      (∀ a ∈ as, ∀ b ∈ bs, R (f a) (f b) → g a = g b) → as.map g = bs.map g
  | [], [], _, _ => rfl
  | [], _ :: _, h, _ => by cases h
  | _ :: _, [], h, _ => by cases h
  | a :: as, b :: bs, h, hg => by
    simp only [List.map_cons] at h ⊢
    cases h with
    | cons h1 h2 =>
      rw [hg a (by simp) b (by simp) h1,
        all₂_map_eq f g R as bs h2 (fun a ha b hb => hg a (List.mem_cons_of_mem _ ha) b (List.mem_cons_of_mem _ hb))]

/-- a permutation of a mapped list is the map of a permutation -/
theorem perm_map_exists {α β : Type} (f : α → β) :
    ∀ (zs : List β) (bs : List α), zs.Perm (bs.map f) → ∃ bs' : List α, bs'.Perm bs ∧ bs'.map f = zs
  | [], bs, h => by
    have : bs = [] := by
      have := h.length_eq
      simp at this
      exact List.eq_nil_of_length_eq_zero this.symm
    subst this
    exact ⟨[], .refl _, rfl⟩
  | z :: zs, bs, h => by
    have hz : z ∈ bs.map f := h.subset (by simp)
    obtain ⟨b, hb, hfb⟩ := List.mem_map.mp hz
    obtain ⟨l₁, l₂, rfl⟩ := List.append_of_mem hb
    have hperm : (l₁ ++ b :: l₂).Perm (b :: (l₁ ++ l₂)) := List.perm_middle
    have h2 : (z :: zs).Perm ((b :: (l₁ ++ l₂)).map f) := h.trans (hperm.map f)
    simp only [List.map_cons] at h2
    rw [hfb] at h2
    obtain ⟨bs', hp, hm⟩ := perm_map_exists f zs (l₁ ++ l₂) h2.cons_inv
    exact ⟨b :: bs', (hp.cons b).trans hperm.symm, by simp [hm, hfb]⟩

/-- up to a permutation: related images under `f` ⇒ images under `g` are permutations of each other -/
theorem perm_rel_map {α β γ : Type} (f : α → β) (g : α → γ) (R : β → β → Prop)
    (as bs : List α) (zs : List β) (h1 : All₂ R (as.map f) zs) (h2 : zs.Perm (bs.map f))
    (hg : ∀ a ∈ as, ∀ b ∈ bs, R (f a) (f b) → g a = g b) : (as.map g).Perm (bs.map g) := by
  obtain ⟨bs', hp, hm⟩ := perm_map_exists f zs bs h2
  subst hm
  have := all₂_map_eq f g R as bs' h1 (fun a ha b hb => hg a ha b (hp.subset hb))
  rw [this]
  exact hp.map g

/-! ## the stable sort only looks at keys -/

theorem insertFront_map {α β : Type} (h : α → β) (x : SortKey × α) :
    ∀ l : List (SortKey × α),
      insertFront (x.1, h x.2) (l.map (fun p => (p.1, h p.2))) = (insertFront x l).map (fun p => (p.1, h p.2))
  | [] => rfl
  | y :: ys => by
    simp only [List.map_cons, insertFront]
    split
    · rfl
    · simp [insertFront_map h x ys]

theorem ssort_map {α β : Type} (h : α → β) :
    ∀ l : List (SortKey × α), ssort (l.map (fun p => (p.1, h p.2))) = (ssort l).map (fun p => (p.1, h p.2))
  | [] => rfl
  | x :: xs => by
    simp only [List.map_cons, ssort]
    rw [ssort_map h xs]
    exact insertFront_map h x (ssort xs)

/-! ## rigid values: `ObsEq` is equality -/

mutual
def rigid : Val → Bool
  | .list xs => rigidL xs
  | .tuple xs => rigidL xs
  | .dict _ => false
  | .set _ => false
  | .sortedTokens _ => false
  | .digest v => rigid v
  | .ndarray _ shape st o b => (logical shape st o b).isNone
  | _ => true
def rigidL : List Val → Bool
  | [] => true
  | x :: xs => rigid x && rigidL xs
end

mutual
theorem eq_of_rigid : ∀ x y : Val, rigid x = true → ObsEq x y → x = y
  | .int _, _, _, h => by cases h; rfl
  | .bool _, _, _, h => by cases h; rfl
  | .float _, _, _, h => by cases h; rfl
  | .str _, _, _, h => by cases h; rfl
  | .bytes _, _, _, h => by cases h; rfl
  | .none, _, _, h => by cases h; rfl
  | .atom _, _, _, h => by cases h; rfl
  | .hash _ _, _, _, h => by cases h; rfl
  | .list xs, _, hr, h => by
    cases h with | list hl => rw [eq_of_rigidL xs _ (by simpa [rigid] using hr) hl]
  | .tuple xs, _, hr, h => by
    cases h with | tuple hl => rw [eq_of_rigidL xs _ (by simpa [rigid] using hr) hl]
  | .dict _, _, hr, _ => by simp [rigid] at hr
  | .set _, _, hr, _ => by simp [rigid] at hr
  | .arr0 _ _, _, _, h => by cases h; rfl
  | .ndarray _ _ _ _ _, _, hr, h => by
    cases h with
    | ndarray h1 h2 => simp [rigid, h1] at hr
    | ndarraySame => rfl
  | .objarr _ _, _, _, h => by cases h; rfl
  | .digest v, _, hr, h => by
    cases h with | digest hv => rw [eq_of_rigid v _ (by simpa [rigid] using hr) hv]
  | .sortedTokens _, _, hr, _ => by simp [rigid] at hr
  | .pickled _ _, _, _, h => by cases h; rfl
theorem eq_of_rigidL : ∀ xs ys : List Val, rigidL xs = true → ObsEqL xs ys → xs = ys
  | [], _, _, h => by cases h; rfl
  | x :: xs, _, hr, h => by
    simp only [rigidL, Bool.and_eq_true] at hr
    cases h with
    | cons h1 h2 => rw [eq_of_rigid x _ hr.1 h1, eq_of_rigidL xs _ hr.2 h2]
end

theorem rigidL_iff (xs : List Val) : rigidL xs = true ↔ ∀ x ∈ xs, rigid x = true := by
  induction xs with
  | nil => simp [rigidL]
  | cons x xs ih => simp [rigidL, ih]

theorem rigidL_shape (shape : List Nat) : rigidL (shape.map (fun n => Val.int (Int.ofNat n))) = true := by
  rw [rigidL_iff]
  intro x hx
  obtain ⟨n, _, rfl⟩ := List.mem_map.mp hx
  rfl

end Dask.NF

namespace Dask.TaskNode
open Dask.NF

theorem isUserL_iff (xs : List Val) : isUserL xs = true ↔ ∀ x ∈ xs, isUser x = true := by
  induction xs with
  | nil => simp [isUserL]
  | cons x xs ih => simp [isUserL, ih]

mutual
/-- the normal form of a user value contains nothing that `ObsEq` identifies beyond equality -/
theorem norm_rigid : ∀ v : Val, isUser v = true → rigid (norm v) = true
  | .int _, _ => rfl
  | .bool _, _ => rfl
  | .float _, _ => rfl
  | .str _, _ => rfl
  | .bytes _, _ => rfl
  | .none, _ => rfl
  | .atom _, _ => rfl
  | .hash _ _, _ => rfl
  | .list xs, h => by
    simp only [norm, rigid, rigidL, Bool.and_true, Bool.true_and]
    exact normL_rigid xs (by simpa [isUser] using h)
  | .tuple xs, h => by
    simp only [norm, rigid, rigidL, Bool.and_true, Bool.true_and]
    exact normL_rigid xs (by simpa [isUser] using h)
  | .dict kvs, h => by
    simp only [norm, rigid, rigidL, Bool.and_true, Bool.true_and]
    rw [rigidL_iff]
    intro x hx
    have hx' : x ∈ (normP kvs).map Prod.snd := ((ssort_perm (normP kvs)).map Prod.snd).subset hx
    exact normP_rigid kvs (by simpa [isUser] using h) x hx'
  | .set xs, h => by
    simp only [norm, rigid, rigidL, Bool.and_true, Bool.true_and]
    rw [rigidL_iff]
    intro x hx
    have hx' : x ∈ (normS xs).map Prod.snd := ((ssort_perm (normS xs)).map Prod.snd).subset hx
    exact normS_rigid xs (by simpa [isUser] using h) x hx'
  | .arr0 item dt, h => by
    cases item <;> simp [isUser] at h <;> rfl
  | .ndarray dt shape st o b, _ => by
    cases hl : logical shape st o b <;> simp [norm, hl, rigid, rigidL]
    exact rigidL_shape shape
  | .objarr shape elems, _ => by
    simp [norm, rigid, rigidL]
    exact rigidL_shape shape
  | .digest _, h => by simp [isUser] at h
  | .sortedTokens _, h => by simp [isUser] at h
  | .pickled _ _, h => by simp [isUser] at h
theorem normL_rigid : ∀ xs : List Val, isUserL xs = true → rigidL (normL xs) = true
  | [], _ => rfl
  | x :: xs, h => by
    simp only [isUserL, Bool.and_eq_true] at h
    simp only [normL, rigidL, Bool.and_eq_true]
    exact ⟨norm_rigid x h.1, normL_rigid xs h.2⟩
theorem normP_rigid : ∀ kvs : List (Val × Val), isUserP kvs = true →
    ∀ x ∈ (normP kvs).map Prod.snd, rigid x = true
  | [], _, x, hx => by simp [normP] at hx
  | (k, v) :: r, h, x, hx => by
    simp only [isUserP, Bool.and_eq_true] at h
    simp only [normP, List.map_cons, List.mem_cons] at hx
    rcases hx with rfl | hx
    · simp [rigid, rigidL, norm_rigid k h.1.1, norm_rigid v h.1.2]
    · exact normP_rigid r h.2 x hx
theorem normS_rigid : ∀ xs : List Val, isUserL xs = true → ∀ x ∈ (normS xs).map Prod.snd, rigid x = true
  | [], _, x, hx => by simp [normS] at hx
  | a :: as, h, x, hx => by
    simp only [isUserL, Bool.and_eq_true] at h
    simp only [normS, List.map_cons, List.mem_cons] at hx
    rcases hx with rfl | hx
    · exact norm_rigid a h.1
    · exact normS_rigid as h.2 x hx
end

end Dask.TaskNode
