import DaskModel.Lemmas.FuseLinear2
/-! `fuse_linear_task_spec`: storing a fused chain keeps the invariant. -/
namespace Dask.TaskTerm

theorem externalDeps_complete (tasks : NGraph) : ∀ c n, (c, n) ∈ tasks → ∀ d ∈ n.deps,
    d ∈ tasks.map Prod.fst ∨ d ∈ externalDeps tasks := by
  intro c n hm d hd
  by_cases hk : d ∈ tasks.map Prod.fst
  · exact Or.inl hk
  · right
    unfold externalDeps
    rw [mem_dedupKeys]
    simp only [List.mem_filter, List.mem_flatMap, Bool.not_eq_true', List.contains_eq_mem, decide_eq_false_iff_not]
    exact ⟨⟨(c, n), hm, hd⟩, hk⟩

theorem ChainOK.nonlast_private {g : NGraph} {req : List Obj} : ∀ {ch : List Obj} (hne : ch ≠ []), ChainOK g req ch →
    ∀ c ∈ ch, c ≠ ch.getLast hne → req.contains c = false ∧ ∃ nxt ∈ ch, dependentSet g c = [nxt]
  | [], hne, _, _, _, _ => absurd rfl hne
  | [t], _, _, c, hc, hcl => by simp at hc; subst hc; simp at hcl
  | c0 :: nxt :: rest, _, h, c, hc, hcl => by
    have hlast : (c0 :: nxt :: rest).getLast (by simp) = (nxt :: rest).getLast (by simp) := by simp
    rcases List.mem_cons.mp hc with rfl | hc'
    · exact ⟨h.2.1, nxt, by simp, h.2.2.1⟩
    · rw [hlast] at hcl
      obtain ⟨h1, x, hx, h2⟩ := ChainOK.nonlast_private (ch := nxt :: rest) (by simp) h.2.2.2 c hc' hcl
      exact ⟨h1, x, List.mem_cons_of_mem _ hx, h2⟩

/-- **storing a fused chain**: whatever way the new entries are put into `result`, as long as the old entries stay, the
    fused task sits under `r`, the top key holds it or an alias to it, and nothing else is added -/
theorem FLInv.add_fused {g : NGraph} {req : List Obj} {st : FuseSt} {ch : List Obj} (hi : FLInv g req st ch)
    (hne : ch ≠ []) (hch : ChainOK g req ch) (hnd : ch.Nodup) (r : Obj)
    (hr : r = ch.getLast hne ∨
      (g.lookup r = none ∧ (∀ x n, (x, n) ∈ g → r ∉ n.deps) ∧ st.result.lookup r = none))
    (res' : FGraph)
    (hnd' : (res'.map Prod.fst).Nodup)
    (hold : ∀ y f, st.result.lookup y = some f → res'.lookup y = some f)
    (hfn : res'.lookup r = some (.fused (restrictTo g ch) (ch.getLast hne) (externalDeps (restrictTo g ch))))
    (htop : r ≠ ch.getLast hne → res'.lookup (ch.getLast hne) = some (.plain (.alias r)))
    (hnew : ∀ k, (res'.lookup k).isSome → (st.result.lookup k).isSome ∨ k = ch.getLast hne ∨ k = r)
    (hinner : innerKeysOf res' = innerKeysOf st.result ++ ch) :
    FLInv g req { st with result := res' } [] := by
  have hkeys := keys_restrictTo g ch hch.keys
  have htopch : ch.getLast hne ∈ ch := List.getLast_mem hne
  have hchres : ∀ c ∈ ch, st.result.lookup c = none := fun c hc =>
    hi.not_in_result (Or.inl hc) (hch.keys c hc)
  -- a key of the chain other than the top is in no entry of the new result
  have hpriv_none : ∀ c ∈ ch, c ≠ ch.getLast hne → res'.lookup c = none := by
    intro c hc hct
    cases hl : res'.lookup c with
    | none => rfl
    | some f =>
      exfalso
      rcases hnew c (by simp [hl]) with h | h | h
      · rw [hchres c hc] at h; cases h
      · exact hct h
      · subst h
        rcases hr with hr | ⟨hr, _, _⟩
        · exact hct hr
        · have := hch.keys c hc; rw [hr] at this; cases this
  have hfusedNew : FusedEntryOK g req res' r (restrictTo g ch) (ch.getLast hne) (externalDeps (restrictTo g ch)) := by
    refine ⟨fun c n hm => (mem_restrictTo hm).2, by rw [hkeys]; exact hnd, by rw [hkeys]; exact htopch, ?_,
      externalDeps_complete _, ?_⟩
    · rcases hr with hr | ⟨h1, h2, _⟩
      · exact Or.inl hr
      · by_cases hrt : r = ch.getLast hne
        · exact Or.inl hrt
        · exact Or.inr ⟨h1, h2, htop hrt⟩
    · intro c hc hct
      rw [hkeys] at hc
      obtain ⟨h1, nxt, hnx, h2⟩ := hch.nonlast_private hne c hc hct
      refine ⟨by simpa using h1, hpriv_none c hc hct, ?_⟩
      intro x n hxn hxi hcd
      rw [hkeys] at hxi
      have : x ∈ dependentSet g c := mem_dependentSet.mpr ⟨n, hxn, hcd⟩
      rw [h2] at this
      simp only [List.mem_singleton] at this
      subst this
      exact hxi hnx
  refine ⟨hnd', fun k hk => by simp at hk, ?_, ?_, ?_, ?_, ?_, ?_, ?_⟩
  · intro k hk
    show (k ∈ st.seen ∧ k ∉ []) ∨ _
    rcases hnew k hk with h | h | h
    · rcases hi.resKeys k h with ⟨h1, _⟩ | h2
      · exact Or.inl ⟨h1, by simp⟩
      · exact Or.inr h2
    · subst h; exact Or.inl ⟨hi.pendSeen _ htopch, by simp⟩
    · subst h
      rcases hr with hr | ⟨hr, _, _⟩
      · rw [hr]; exact Or.inl ⟨hi.pendSeen _ htopch, by simp⟩
      · exact Or.inr hr
  · intro k n hk
    show PlainEntryOK g res' k n
    -- the alias left at the top key, or an old entry
    by_cases hkt : k = ch.getLast hne
    · subst hkt
      by_cases hrt : r = ch.getLast hne
      · rw [← hrt, hfn] at hk; cases hk
      · rw [htop hrt] at hk
        cases hk
        rcases hr with hr | ⟨h1, _, _⟩
        · exact absurd hr hrt
        · exact Or.inr ⟨r, _, _, rfl, h1, hfn⟩
    · have hkr : k ≠ r := by
        intro e; subst e; rw [hfn] at hk; cases hk
      rcases hnew k (by simp [hk]) with h | h | h
      · cases hl : st.result.lookup k with
        | none => rw [hl] at h; cases h
        | some f =>
          have := hold k f hl
          rw [hk] at this
          cases this
          exact (hi.plainOK k n hl).mono hold
      · exact absurd h hkt
      · exact absurd h hkr
  · intro k inner top ext hk
    show FusedEntryOK g req res' k inner top ext
    by_cases hkr : k = r
    · subst hkr
      rw [hfn] at hk
      cases hk
      exact hfusedNew
    · have hkt : k ≠ ch.getLast hne := by
        intro e; subst e
        have hrt : r ≠ ch.getLast hne := fun e => hkr e.symm
        rw [htop hrt] at hk; cases hk
      rcases hnew k (by simp [hk]) with h | h | h
      · cases hl : st.result.lookup k with
        | none => rw [hl] at h; cases h
        | some f =>
          have := hold k f hl
          rw [hk] at this
          cases this
          have hf := hi.fusedOK k inner top ext hl
          refine hf.mono hold ?_
          intro c hc hct
          have hcin : c ∈ innerKeysOf st.result := by
            unfold innerKeysOf
            exact List.mem_flatMap.mpr ⟨(k, .fused inner top ext), mem_of_lookup _ _ _ hl, hc⟩
          obtain ⟨hcs, hcp⟩ := hi.innerSeen c hcin
          cases hlc : res'.lookup c with
          | none => rfl
          | some f' =>
            exfalso
            rcases hnew c (by simp [hlc]) with h | h | h
            · rw [(hf.priv c hc hct).2.1] at h; cases h
            · exact hcp (h ▸ htopch)
            · subst h
              rcases hr with hr | ⟨hr, _, _⟩
              · exact hcp (hr ▸ htopch)
              · obtain ⟨⟨c', m⟩, hcm, hcc⟩ := List.mem_map.mp hc
                simp only at hcc; subst hcc
                rw [hf.innerSub _ m hcm] at hr; cases hr
      · exact absurd h hkt
      · exact absurd h hkr
  · intro k n hgk hs _
    show res'.lookup k = some (.plain n) ∨ k ∈ innerKeysOf res'
    rw [hinner]
    by_cases hkc : k ∈ ch
    · exact Or.inr (List.mem_append_right _ hkc)
    · rcases hi.cover k n hgk hs hkc with h | h
      · exact Or.inl (hold k _ h)
      · exact Or.inr (List.mem_append_left _ h)
  · intro k hk
    show k ∈ st.seen ∧ k ∉ []
    rw [hinner] at hk
    rcases List.mem_append.mp hk with h | h
    · exact ⟨(hi.innerSeen k h).1, by simp⟩
    · exact ⟨hi.pendSeen k h, by simp⟩
  · show (innerKeysOf res').Nodup
    rw [hinner]
    exact List.nodup_append.mpr ⟨hi.disjoint, hnd, fun a ha b hb e => (hi.innerSeen a ha).2 (e ▸ hb)⟩
  · intro k hk hs _ hgk
    show (res'.lookup k).isSome
    by_cases hkc : k ∈ ch
    · have hkt : k = ch.getLast hne := by
        apply Classical.byContradiction
        intro hne'
        have := (hch.nonlast_private hne k hkc hne').1
        have hk' : req.contains k = true := by simpa using hk
        rw [this] at hk'; cases hk'
      subst hkt
      by_cases hrt : r = ch.getLast hne
      · rw [← hrt, hfn]; rfl
      · rw [htop hrt]; rfl
    · have := hi.reqKept k hk hs hkc hgk
      cases hl : st.result.lookup k with
      | none => rw [hl] at this; cases this
      | some f => rw [hold k f hl]; rfl

end Dask.TaskTerm
