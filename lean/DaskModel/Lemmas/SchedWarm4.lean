import DaskModel.Lemmas.SchedWarm3
/-! The main loop of `get_async` on a cache that holds more than the clean run's cache (**frame**: entries for keys the
traversal did not visit are never read, written or deleted - in fact the argument needs no such side condition: a run that
succeeds on a cache succeeds, with the same events and the same state apart from the cache, on every cache that has at least
its entries), and the loop does not look at the graph or at the data values (`mainLoop_warm`: the run on the warm graph IS the
run on the given graph). -/
namespace Dask.Sched
variable {α : Type}

def CLe (c1 c2 : Map α) : Prop := ∀ k v, c1.get? k = some v → c2.get? k = some v

theorem CLe.has {c1 c2 : Map α} (h : CLe c1 c2) {k : Key} (hk : c1.has k = true) : c2.has k = true := by
  obtain ⟨v, hv⟩ := (Map.has_iff c1 k).mp hk
  exact (Map.has_iff c2 k).mpr ⟨v, h k v hv⟩

theorem CLe.del {c1 c2 : Map α} (h : CLe c1 c2) (k : Key) : CLe (c1.del k) (c2.del k) := by
  intro j v hv
  rw [Map.get?_del] at hv ⊢
  by_cases hkj : k = j
  · simp [hkj] at hv
  · simp only [hkj, if_false] at hv ⊢
    exact h j v hv

theorem CLe.set {c1 c2 : Map α} (h : CLe c1 c2) (k : Key) (x : α) : CLe (c1.set k x) (c2.set k x) := by
  intro j v hv
  rw [Map.get?_set] at hv ⊢
  by_cases hkj : k = j
  · simp only [hkj, if_true] at hv ⊢; exact hv
  · simp only [hkj, if_false] at hv ⊢
    exact h j v hv

theorem CLe.mapM {c1 c2 : Map α} (h : CLe c1 c2) : ∀ (l : List Key) (vals : List α),
    l.mapM (fun d => c1.get? d) = some vals → l.mapM (fun d => c2.get? d) = some vals := by
  intro l
  induction l with
  | nil => intro vals hv; exact hv
  | cons a l ih =>
    intro vals hv
    rw [List.mapM_cons] at hv ⊢
    cases ha : c1.get? a with
    | none => rw [ha] at hv; cases hv
    | some y =>
      rw [ha] at hv
      rw [h a y ha]
      cases hl : l.mapM (fun d => c1.get? d) with
      | none => rw [hl] at hv; cases hv
      | some ys =>
        rw [hl] at hv
        rw [ih ys hl]
        exact hv

theorem finishDependents_frame (key : Key) (c2 : Map α) : ∀ (L : List Key) (s s' : State α),
    finishDependents key L s = .ok s' →
    finishDependents key L { s with cache := c2 } = .ok { s' with cache := c2 } ∧ s'.cache = s.cache := by
  intro L
  induction L with
  | nil => intro s s' h; cases h; exact ⟨rfl, rfl⟩
  | cons dep rest ih =>
    intro s s' h
    unfold finishDependents at h ⊢
    cases hw : s.waiting.get? dep with
    | none => simp only [hw] at h; cases h
    | some w =>
      simp only [hw] at h ⊢
      by_cases hk : key ∈ w
      · simp only [hk, if_true] at h ⊢
        by_cases he : srem key w = []
        · simp only [he, if_true] at h ⊢
          exact ih _ s' h
        · simp only [he, if_false] at h ⊢
          exact ih _ s' h
      · simp only [hk, if_false] at h
        cases h
theorem releaseData_frame (key : Key) (s : State α) (c2 : Map α) (hc : CLe s.cache c2) (s' : State α)
    (h : releaseData key s = .ok s') :
    ∃ c2', releaseData key { s with cache := c2 } = .ok { s' with cache := c2' } ∧ CLe s'.cache c2' := by
  unfold releaseData at h ⊢
  simp only [] at h ⊢
  cases hwd : s.waitingData.get? key with
  | none =>
    simp only [hwd] at h ⊢
    by_cases hh : s.cache.has key = true
    · have h2 : c2.has key = true := hc.has hh
      simp only [hh, h2, if_true] at h ⊢
      cases h
      exact ⟨c2.del key, rfl, hc.del key⟩
    · simp [hh] at h
  | some wd =>
    simp only [hwd] at h ⊢
    by_cases hw : wd = []
    · simp only [hw, if_true] at h ⊢
      by_cases hh : s.cache.has key = true
      · have h2 : c2.has key = true := hc.has hh
        simp only [hh, h2, if_true] at h ⊢
        cases h
        exact ⟨c2.del key, rfl, hc.del key⟩
      · simp [hh] at h
    · simp [hw] at h

theorem finishDeps_frame (results : List Key) (key : Key) : ∀ (L : List Key) (s : State α) (c2 : Map α),
    CLe s.cache c2 → ∀ s', finishDeps results key L s = .ok s' →
    ∃ c2', finishDeps results key L { s with cache := c2 } = .ok { s' with cache := c2' } ∧ CLe s'.cache c2' := by
  intro L
  induction L with
  | nil => intro s c2 hc s' h; cases h; exact ⟨c2, rfl, hc⟩
  | cons dep rest ih =>
    intro s c2 hc s' h
    unfold finishDeps at h ⊢
    simp only [] at h ⊢
    cases hwd : s.waitingData.get? dep with
    | none =>
      simp only [hwd] at h ⊢
      by_cases hr : dep ∉ results
      · simp only [hr] at h ⊢
        cases hrel : releaseData dep s with
        | error e => rw [hrel] at h; cases h
        | ok s1 =>
          rw [hrel] at h
          obtain ⟨c3, h3, hc3⟩ := releaseData_frame dep s c2 hc s1 hrel
          rw [h3]
          exact ih s1 c3 hc3 s' h
      · simp only [hr, if_false] at h ⊢
        exact ih s c2 hc s' h
    | some wd =>
      simp only [hwd] at h ⊢
      by_cases hk : key ∈ wd
      · simp only [hk, if_true] at h ⊢
        by_cases he : srem key wd = [] ∧ dep ∉ results
        · rw [if_pos he] at h ⊢
          cases hrel : releaseData dep { s with waitingData := s.waitingData.set dep (srem key wd) } with
          | error e => rw [hrel] at h; cases h
          | ok s1 =>
            rw [hrel] at h
            obtain ⟨c3, h3, hc3⟩ := releaseData_frame dep { s with waitingData := s.waitingData.set dep (srem key wd) } c2 hc s1 hrel
            rw [h3]
            exact ih s1 c3 hc3 s' h
        · rw [if_neg he] at h ⊢
          simp only [] at h ⊢
          exact ih { s with waitingData := s.waitingData.set dep (srem key wd) } c2 hc s' h
      · simp only [hk, if_false] at h
        cases h

theorem finishTask_frame (cfg : Cfg) (key : Key) (s : State α) (c2 : Map α) (hc : CLe s.cache c2) (s' : State α)
    (h : finishTask cfg key s = .ok s') :
    ∃ c2', finishTask cfg key { s with cache := c2 } = .ok { s' with cache := c2' } ∧ CLe s'.cache c2' := by
  unfold finishTask at h ⊢
  cases hd : s.dependents.get? key with
  | none => simp only [hd] at h; cases h
  | some dts =>
    simp only [hd] at h ⊢
    cases h1 : finishDependents key (sortDesc cfg.prio dts) s with
    | error e => rw [h1] at h; cases h
    | ok s1 =>
      rw [h1] at h
      obtain ⟨f1, f2⟩ := finishDependents_frame key c2 _ s s1 h1
      rw [f1]
      simp only [] at h ⊢
      cases hdeps : s1.dependencies.get? key with
      | none => simp only [hdeps] at h; cases h
      | some deps =>
        simp only [hdeps] at h ⊢
        cases h2 : finishDeps cfg.results key deps s1 with
        | error e => rw [h2] at h; cases h
        | ok s2 =>
          rw [h2] at h
          obtain ⟨c3, h3, hc3⟩ := finishDeps_frame cfg.results key deps s1 c2 (by rw [f2]; exact hc) s2 h2
          rw [h3]
          simp only [] at h ⊢
          by_cases hr : key ∈ s2.running
          · simp only [hr, if_true] at h ⊢
            cases h
            exact ⟨c3, rfl, hc3⟩
          · simp only [hr, if_false] at h
            cases h

/-- the events of a log -/
def evs (log : List (Ev × State α)) : List Ev := log.map (·.1)

theorem popLoop_frame (P : Params α) : ∀ (n : Nat) (s : State α) (c2 : Map α) (args : List (Key × α))
    (log log2 : List (Ev × State α)), CLe s.cache c2 → evs log2 = evs log →
    ∀ s' args' log', popLoop P n s args log = .ok (s', args', log') →
    ∃ log2', popLoop P n { s with cache := c2 } args log2 = .ok ({ s' with cache := c2 }, args', log2') ∧
      evs log2' = evs log' ∧ s'.cache = s.cache := by
  intro n
  induction n with
  | zero =>
    intro s c2 args log log2 hc hl s' args' log' h
    unfold popLoop at h ⊢
    cases h
    exact ⟨log2, rfl, hl, rfl⟩
  | succ n ih =>
    intro s c2 args log log2 hc hl s' args' log' h
    unfold popLoop at h ⊢
    cases hr : s.ready with
    | nil => simp only [hr] at h; cases h
    | cons key ready =>
      simp only [hr] at h ⊢
      cases hd : s.dependencies.get? key with
      | none => simp only [hd] at h; cases h
      | some deps =>
        simp only [hd] at h ⊢
        cases hm : deps.mapM (fun d => s.cache.get? d) with
        | none => simp only [hm] at h; cases h
        | some vals =>
          simp only [hm] at h ⊢
          rw [hc.mapM deps vals hm]
          simp only []
          obtain ⟨log2', h2, hl2, hcc⟩ := ih { s with ready := ready, running := sadd key s.running } c2
            (args ++ [(key, P.apply key vals)])
            (log ++ [(.pretask key, { s with ready := ready, running := sadd key s.running })])
            (log2 ++ [(.pretask key, { s with ready := ready, running := sadd key s.running, cache := c2 })])
            hc (by simp [evs, List.map_append] at hl ⊢; exact hl) s' args' log' h
          exact ⟨log2', h2, hl2, hcc⟩

/-- the same system on a cache with more entries (and a log with the same events) -/
def Sys.warm (s : Sys α) (c2 : Map α) (log2 : List (Ev × State α)) : Sys α :=
  { st := { s.st with cache := c2 }, pending := s.pending, log := log2 }

theorem evs_append (a b : List (Ev × State α)) : evs (a ++ b) = evs a ++ evs b := by simp [evs]

theorem fireTasks_frame (cfg : Cfg) (P : Params α) (s : Sys α) (c2 : Map α) (log2 : List (Ev × State α))
    (hc : CLe s.st.cache c2) (hl : evs log2 = evs s.log) (s' : Sys α) (h : fireTasks cfg P s = .ok s') :
    ∃ log2', fireTasks cfg P (s.warm c2 log2) = .ok (s'.warm c2 log2') ∧ evs log2' = evs s'.log ∧
      s'.st.cache = s.st.cache := by
  unfold fireTasks at h ⊢
  simp only [Sys.warm] at ⊢
  cases hf : fireSelect cfg s.st.ready.length s.st.running.length with
  | error e => rw [hf] at h; cases h
  | ok p =>
    obtain ⟨ntasks, cs⟩ := p
    rw [hf] at h
    simp only [] at h ⊢
    cases hp : popLoop P ntasks.toNat s.st [] s.log with
    | error e => rw [hp] at h; cases h
    | ok r =>
      obtain ⟨st, args, log⟩ := r
      rw [hp] at h
      obtain ⟨log2', h2, hl2, hcc⟩ := popLoop_frame P ntasks.toNat s.st c2 [] s.log log2 hc hl st args log hp
      rw [h2]
      simp only [] at h ⊢
      cases hn : negFloorDivNeg (args.length : Int) cs with
      | error e => rw [hn] at h; cases h
      | ok nb =>
        rw [hn] at h
        simp only [] at h ⊢
        cases h
        refine ⟨_, rfl, ?_, hcc⟩
        rw [evs_append, evs_append, hl2]
        simp [evs]

theorem processBatch_frame (cfg : Cfg) (P : Params α) : ∀ (batch : List (Key × α)) (s : Sys α) (c2 : Map α)
    (log2 : List (Ev × State α)), CLe s.st.cache c2 → evs log2 = evs s.log →
    ∀ s' o, processBatch cfg P batch s = .ok (s', o) →
    ∃ c2' log2', processBatch cfg P batch (s.warm c2 log2) = .ok (s'.warm c2' log2', o) ∧
      CLe s'.st.cache c2' ∧ evs log2' = evs s'.log := by
  intro batch
  induction batch with
  | nil =>
    intro s c2 log2 hc hl s' o h
    unfold processBatch at h ⊢
    cases h
    exact ⟨c2, log2, rfl, hc, hl⟩
  | cons p rest ih =>
    obtain ⟨key, res⟩ := p
    intro s c2 log2 hc hl s' o h
    unfold processBatch at h ⊢
    by_cases hf : P.fails key = true
    · simp only [hf, if_true] at h ⊢
      cases h
      exact ⟨c2, log2, rfl, hc, hl⟩
    · simp only [hf] at h ⊢
      cases hft : finishTask cfg key { s.st with cache := s.st.cache.set key res } with
      | error e => rw [hft] at h; cases h
      | ok st =>
        rw [hft] at h
        obtain ⟨c3, h3, hc3⟩ := finishTask_frame cfg key { s.st with cache := s.st.cache.set key res } (c2.set key res)
          (hc.set key res) st hft
        have h3' : finishTask cfg key { (s.warm c2 log2).st with cache := (s.warm c2 log2).st.cache.set key res } =
            .ok { st with cache := c3 } := h3
        rw [h3']
        simp only [] at h ⊢
        have := ih { s with st := st, log := s.log ++ [(.posttask key, st)] } c3
          (log2 ++ [(.posttask key, { st with cache := c3 })]) hc3
          (by rw [evs_append, evs_append, hl]; rfl) s' o h
        exact this

theorem iter_frame_ok (cfg : Cfg) (P : Params α) (choice : Nat) (s : Sys α) (c2 : Map α) (log2 : List (Ev × State α))
    (hc : CLe s.st.cache c2) (hl : evs log2 = evs s.log) (s' : Sys α) (o : Option Key)
    (h : iter cfg P choice s = .ok (s', o)) :
    ∃ c2' log2', iter cfg P choice (s.warm c2 log2) = .ok (s'.warm c2' log2', o) ∧
      CLe s'.st.cache c2' ∧ evs log2' = evs s'.log := by
  unfold iter at h ⊢
  cases hf : fireTasks cfg P s with
  | error e => rw [hf] at h; cases h
  | ok s1 =>
    rw [hf] at h
    obtain ⟨log3, h3, hl3, hcc⟩ := fireTasks_frame cfg P s c2 log2 hc hl s1 hf
    rw [h3]
    simp only [] at h ⊢
    by_cases hp : s1.pending = []
    · simp only [hp, if_true] at h; cases h
    · have hp' : ¬ (s1.warm c2 log3).pending = [] := hp
      simp only [hp, hp', if_false] at h ⊢
      cases hb : s1.pending[choice]? with
      | none => rw [hb] at h; cases h
      | some batch =>
        rw [hb] at h
        have hb' : (s1.warm c2 log3).pending[choice]? = some batch := hb
        rw [hb']
        simp only [] at h ⊢
        exact processBatch_frame cfg P batch { s1 with pending := s1.pending.eraseIdx choice } c2 log3
          (by rw [hcc]; exact hc) hl3 s' o h

theorem iter_frame_bad (cfg : Cfg) (P : Params α) (choice : Nat) (s : Sys α) (c2 : Map α) (log2 : List (Ev × State α))
    (hc : CLe s.st.cache c2) (hl : evs log2 = evs s.log) (s1 : Sys α)
    (hf : fireTasks cfg P s = .ok s1) (hp : s1.pending ≠ []) (hb : s1.pending[choice]? = none) :
    iter cfg P choice (s.warm c2 log2) = .error .badChoice := by
  unfold iter
  obtain ⟨log3, h3, hl3, hcc⟩ := fireTasks_frame cfg P s c2 log2 hc hl s1 hf
  rw [h3]
  simp only []
  have hp' : ¬ (s1.warm c2 log3).pending = [] := hp
  have hb' : (s1.warm c2 log3).pending[choice]? = none := hb
  simp only [hp', if_false]
  rw [hb']

/-- under the system invariant an iteration can only be rejected because the adversary named a batch that does not exist -/
theorem iter_bad_inv {cfg : Cfg} (P : Params α) {den : Key → α} (hden : IsDen cfg.g P den)
    (hnw : 1 ≤ cfg.nw) (hcs : cfg.cs = -1 ∨ 1 ≤ cfg.cs) {s : Sys α} (h : SysInv cfg den s) (choice : Nat) (e : Err)
    (hbad : iter cfg P choice s = .error e) :
    ∃ s1, fireTasks cfg P s = .ok s1 ∧ ((s1.pending = [] ∧ e = .hang) ∨ (s1.pending ≠ [] ∧ s1.pending[choice]? = none ∧ e = .badChoice)) := by
  obtain ⟨s1, hfire, hinv1, _⟩ := fire_spec P hden hnw hcs h
  refine ⟨s1, hfire, ?_⟩
  unfold iter at hbad
  rw [hfire] at hbad
  simp only [] at hbad
  by_cases hp : s1.pending = []
  · simp only [hp, if_true] at hbad
    cases hbad
    exact Or.inl ⟨hp, rfl⟩
  · simp only [hp, if_false] at hbad
    cases hb : s1.pending[choice]? with
    | none =>
      rw [hb] at hbad
      cases hbad
      exact Or.inr ⟨hp, rfl, rfl⟩
    | some batch =>
      exfalso
      rw [hb] at hbad
      simp only [] at hbad
      have hperm := flatten_eraseIdx_perm s1.pending choice batch hb
      have hpermK : (pendKeys s1).Perm (pendKeys { s1 with pending := s1.pending.eraseIdx choice } ++ batch.map (·.1)) := by
        simp only [pendKeys]
        rw [← List.map_append]
        exact hperm.map _
      have hB : BatchInv cfg den batch { s1 with pending := s1.pending.eraseIdx choice } := by
        refine ⟨hinv1.inv, hinv1.sound, ?_, ?_, ?_, ?_, ?_, hinv1.preNodup, hinv1.preIff, hinv1.postNodup, hinv1.postIff, hinv1.preSnap, hinv1.noFinish, hinv1.ordered, hinv1.snapSound⟩
        · have := hinv1.nodup
          simp only [List.map_nil, List.append_nil] at this
          exact hpermK.nodup_iff.mp this
        · intro k
          rw [← hinv1.running k, ← List.mem_append, ← hpermK.mem_iff]
          simp
        · intro p hp
          exact hinv1.pendVal p (hperm.mem_iff.mpr (List.mem_append_left _ hp))
        · intro p hp
          exact hinv1.pendVal p (hperm.mem_iff.mpr (List.mem_append_right _ hp))
        · intro b hb'
          exact hinv1.pendNonempty b (mem_eraseIdx_sub _ _ _ hb')
      obtain ⟨s', o, hpb, _⟩ := processBatch_spec P batch _ hB
      rw [hpb] at hbad
      cases hbad

/-- **frame**: cache entries the clean run never had do not change the run: same outcome, same events, same state apart
from the cache, which keeps having at least the entries of the clean run -/
theorem mainLoop_frame {cfg : Cfg} (P : Params α) {den : Key → α} (hden : IsDen cfg.g P den)
    (hnw : 1 ≤ cfg.nw) (hcs : cfg.cs = -1 ∨ 1 ≤ cfg.cs)
    (rank : Key → Nat) (hrank : ∀ k deps d, cfg.g.get? k = some (.task deps) → d ∈ deps → rank d < rank k) :
    ∀ (choices : List Nat) (s : Sys α) (c2 : Map α) (log2 : List (Ev × State α)),
    SysInv cfg den s → CLe s.st.cache c2 → evs log2 = evs s.log →
    (∀ e, mainLoop cfg P choices s = .error e → mainLoop cfg P choices (s.warm c2 log2) = .error e) ∧
    (∀ s' o, mainLoop cfg P choices s = .ok (s', o) →
      ∃ c2' log2', mainLoop cfg P choices (s.warm c2 log2) = .ok (s'.warm c2' log2', o) ∧
        CLe s'.st.cache c2' ∧ evs log2' = evs s'.log) := by
  intro choices
  induction choices with
  | nil =>
    intro s c2 log2 _ hc hl
    have hlc : loopCond (s.warm c2 log2).st = loopCond s.st := rfl
    unfold mainLoop
    rw [hlc]
    by_cases hlp : loopCond s.st = true
    · simp only [hlp, if_true]
      refine ⟨fun e h => (by cases h), ?_⟩
      intro s' o h
      cases h
      exact ⟨c2, log2, rfl, hc, hl⟩
    · simp only [hlp]
      refine ⟨fun e h => (by cases h), ?_⟩
      intro s' o h
      cases h
      exact ⟨c2, log2, rfl, hc, hl⟩
  | cons c cs ih =>
    intro s c2 log2 hinv hc hl
    have hlc : loopCond (s.warm c2 log2).st = loopCond s.st := rfl
    unfold mainLoop
    rw [hlc]
    by_cases hlp : loopCond s.st = true
    · simp only [hlp, if_true]
      cases hit : iter cfg P c s with
      | error e =>
        obtain ⟨s1, hfire, hcase⟩ := iter_bad_inv P hden hnw hcs hinv c e hit
        rcases iter_spec P hden hnw hcs rank hrank hinv hlp c with ⟨hbad, _⟩ | ⟨s1', o1, hok, _⟩
        · rw [hit] at hbad
          cases hbad
          rcases hcase with ⟨_, he⟩ | ⟨hp, hb, _⟩
          · cases he
          · rw [iter_frame_bad cfg P c s c2 log2 hc hl s1 hfire hp hb]
            exact ⟨fun e h => h, fun s' o h => by cases h⟩
        · rw [hit] at hok; cases hok
      | ok r =>
        obtain ⟨s1, o1⟩ := r
        obtain ⟨c3, log3, h3, hc3, hl3⟩ := iter_frame_ok cfg P c s c2 log2 hc hl s1 o1 hit
        rw [h3]
        cases o1 with
        | some k =>
          simp only []
          refine ⟨fun e h => (by cases h), ?_⟩
          intro s' o h
          cases h
          exact ⟨c3, log3, rfl, hc3, hl3⟩
        | none =>
          simp only []
          rcases iter_spec P hden hnw hcs rank hrank hinv hlp c with ⟨hbad, _⟩ | ⟨s1', o1', hok, hnone, _⟩
          · rw [hit] at hbad; cases hbad
          · rw [hit] at hok
            cases hok
            exact ih s1 c3 log3 (hnone rfl).1 hc3 hl3
    · simp only [hlp]
      refine ⟨fun e h => (by cases h), ?_⟩
      intro s' o h
      cases h
      exact ⟨c2, log2, rfl, hc, hl⟩

/-! ### the loop does not depend on the graph or on the data values -/

theorem popLoop_warm (P : Params α) (c0 : Map α) : ∀ (n : Nat) (s : State α) (args : List (Key × α))
    (log : List (Ev × State α)), popLoop (warmParams P c0) n s args log = popLoop P n s args log := by
  intro n
  induction n with
  | zero => intro s args log; rfl
  | succ n ih =>
    intro s args log
    unfold popLoop
    cases s.ready with
    | nil => rfl
    | cons key ready =>
      simp only []
      cases s.dependencies.get? key with
      | none => rfl
      | some deps =>
        simp only []
        cases deps.mapM (fun d => s.cache.get? d) with
        | none => rfl
        | some vals =>
          simp only []
          exact ih _ _ _

theorem fireSelect_warm (cfg : Cfg) (c0 : Map α) (a b : Nat) : fireSelect (warmCfg cfg c0) a b = fireSelect cfg a b := rfl

theorem finishTask_warm (cfg : Cfg) (c0 : Map α) (key : Key) (s : State α) :
    finishTask (warmCfg cfg c0) key s = finishTask cfg key s := rfl

theorem fireTasks_warm (cfg : Cfg) (P : Params α) (c0 : Map α) (s : Sys α) :
    fireTasks (warmCfg cfg c0) (warmParams P c0) s = fireTasks cfg P s := by
  unfold fireTasks
  rw [fireSelect_warm]
  simp only [popLoop_warm]

theorem processBatch_warm (cfg : Cfg) (P : Params α) (c0 : Map α) : ∀ (batch : List (Key × α)) (s : Sys α),
    processBatch (warmCfg cfg c0) (warmParams P c0) batch s = processBatch cfg P batch s := by
  intro batch
  induction batch with
  | nil => intro s; rfl
  | cons p rest ih =>
    obtain ⟨key, res⟩ := p
    intro s
    unfold processBatch
    have hf : (warmParams P c0).fails key = P.fails key := rfl
    rw [hf, finishTask_warm]
    by_cases h : P.fails key = true
    · simp only [h, if_true]
    · simp only [h]
      cases finishTask cfg key { s.st with cache := s.st.cache.set key res } with
      | error e => rfl
      | ok st => simp only []; exact ih _

theorem iter_warm (cfg : Cfg) (P : Params α) (c0 : Map α) (choice : Nat) (s : Sys α) :
    iter (warmCfg cfg c0) (warmParams P c0) choice s = iter cfg P choice s := by
  unfold iter
  rw [fireTasks_warm]
  simp only [processBatch_warm]

theorem mainLoop_warm (cfg : Cfg) (P : Params α) (c0 : Map α) : ∀ (choices : List Nat) (s : Sys α),
    mainLoop (warmCfg cfg c0) (warmParams P c0) choices s = mainLoop cfg P choices s := by
  intro choices
  induction choices with
  | nil => intro s; rfl
  | cons c cs ih =>
    intro s
    unfold mainLoop
    rw [iter_warm]
    simp only [ih]
end Dask.Sched
