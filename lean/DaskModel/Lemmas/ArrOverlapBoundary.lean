import DaskModel.Lemmas.ArrOverlapLocal
/-! C26: `map_overlap` with a boundary (pad blocks on both sides) equals pad – apply – trim on the whole axis;
    `sliding_window_view` over the right-overlapped blocks equals NumPy's windows of the whole axis. -/
namespace Dask.ArrOverlap

/-! ### trimming when no block is first or last -/

theorem trimBlocksFrom_false {α : Type} (dl dr : Nat) : ∀ (M : List (List α)) (nb j : Nat),
    trimBlocksFrom false dl dr nb j M = M.map (pySliceFrontBack dl (if dr = 0 then none else some dr)) := by
  intro M
  induction M with
  | nil => intro nb j; rfl
  | cons x xs ih =>
    intro nb j
    simp only [trimBlocksFrom, List.map_cons, ih]
    congr 1
    by_cases hd : dr = 0 <;> simp [hd]

theorem trimBlocksFrom_true_mid {α : Type} (dl dr : Nat) : ∀ (M : List (List α)) (nb j : Nat), j ≠ 0 →
    j + M.length < nb →
    trimBlocksFrom true dl dr nb j M = M.map (pySliceFrontBack dl (if dr = 0 then none else some dr)) := by
  intro M
  induction M with
  | nil => intro nb j _ _; rfl
  | cons x xs ih =>
    intro nb j hj hlen
    simp only [List.length_cons] at hlen
    simp only [trimBlocksFrom, List.map_cons]
    rw [ih nb (j + 1) (by omega) (by omega)]
    congr 1
    have h1 : ¬ (j = 0 ∧ true = true) := by simp [hj]
    have h2 : ¬ j = nb - 1 := by omega
    by_cases hd : dr = 0 <;> simp [hj, h2, hd]

theorem trimBlocksFrom_append {α : Type} (b : Bool) (dl dr nb : Nat) : ∀ (M N : List (List α)) (j : Nat),
    trimBlocksFrom b dl dr nb j (M ++ N) = trimBlocksFrom b dl dr nb j M ++ trimBlocksFrom b dl dr nb (j + M.length) N := by
  intro M
  induction M with
  | nil => intro N j; simp [trimBlocksFrom]
  | cons x xs ih =>
    intro N j
    simp only [List.cons_append, trimBlocksFrom, ih, List.length_cons]
    congr 3
    omega

theorem trimBlocksFrom_length {α : Type} (b : Bool) (dl dr nb : Nat) : ∀ (M : List (List α)) (j : Nat),
    (trimBlocksFrom b dl dr nb j M).length = M.length := by
  intro M
  induction M with
  | nil => intro j; rfl
  | cons x xs ih => intro j; simp [trimBlocksFrom, ih]

/-! ### the blocks in the context of a following pad block -/

theorem winBlocks_ne_nil {α β : Type} (b a : Nat) (g : List α → α → List α → β) (pre : List α) (bs : List (List α))
    (h : bs ≠ []) : winBlocks b a g pre bs ≠ [] := by
  cases bs with
  | nil => exact absurd rfl h
  | cons x xs => simp [winBlocks]

theorem winBlocks_dropLast_flatten {α β : Type} (b a : Nat) (g : List α → α → List α → β) :
    ∀ (bs : List (List α)) (pre l : List α),
      ((winBlocks b a g pre (bs ++ [l])).dropLast).flatten = win b a g pre bs.flatten l := by
  intro bs
  induction bs with
  | nil => intro pre l; simp [winBlocks, win]
  | cons blk rest ih =>
    intro pre l
    simp only [List.cons_append, winBlocks]
    rw [List.dropLast_cons_of_ne_nil (winBlocks_ne_nil b a g _ _ (by simp))]
    simp only [List.flatten_cons, ih, List.flatten_append, List.flatten_nil, List.append_nil]
    rw [win_append]

theorem overlapBlocksAux_length {α : Type} (dl dr : Nat) : ∀ (bs : List (List α)) (prev : Option (List α)),
    (overlapBlocksAux dl dr prev bs).length = bs.length := by
  intro bs
  induction bs with
  | nil => intro prev; rfl
  | cons b bs ih => intro prev; simp [overlapBlocksAux, ih]

/-- **`map_overlap` with a boundary** (depth `d` on both sides; `padL`, `padR` = the `d` cells the boundary kind puts
    before and after the axis): mapping a function that looks at most `d` cells back and ahead over the blocks of
    `overlap(x, d, boundary)` and trimming `d` cells off both sides of every block (`trim_internal` with a boundary
    other than 'none') gives the function's values on the cells of `x` in the context of the padded axis. -/
theorem map_overlap_boundary {α β : Type} (d : Nat) (g : List α → α → List α → β) (padL padR : List α)
    (blocks : List (List α)) (hl : d ≤ padL.length) (hr : d ≤ padR.length)
    (hbig : ∀ blk ∈ blocks, d ≤ blk.length) :
    (trimBlocks false d d ((overlapWithBoundary d padL padR blocks).map (winFn d d g))).flatten
      = win d d g padL blocks.flatten padR := by
  unfold overlapWithBoundary overlapBlocks trimBlocks
  simp only [overlapBlocksAux, List.drop_succ_cons, List.drop_zero]
  -- O = the overlapped data blocks followed by the overlapped right pad block
  have hbig' : ∀ blk ∈ blocks ++ [padR], d ≤ blk.length ∧ d ≤ blk.length := by
    intro blk hb
    rcases List.mem_append.mp hb with h | h
    · exact ⟨hbig blk h, hbig blk h⟩
    · simp only [List.mem_singleton] at h; subst h; exact ⟨hr, hr⟩
  have haux := map_overlap_aux d d g (blocks ++ [padR]) (some padL) padL 1 (blocks.length + 2) hbig'
    ⟨by omega, hl, [], by simp⟩ (by simp; omega)
  generalize hO : overlapBlocksAux d d (some padL) (blocks ++ [padR]) = O at haux ⊢
  have hOlen : O.length = blocks.length + 1 := by rw [← hO, overlapBlocksAux_length]; simp
  have hOne : O.map (winFn d d g) ≠ [] := by
    intro h
    have := congrArg List.length h
    simp [hOlen] at this
  rw [trimBlocksFrom_false, List.map_dropLast]
  -- split the last block off
  generalize hL : O.map (winFn d d g) = L at haux hOne ⊢
  have hLlen : L.length = blocks.length + 1 := by rw [← hL]; simp [hOlen]
  have hsplit := List.dropLast_concat_getLast hOne
  have hMlen : L.dropLast.length = blocks.length := by simp [hLlen]
  rw [← hsplit, trimBlocksFrom_append,
    trimBlocksFrom_true_mid d d _ _ 1 (by omega) (by rw [hMlen]; omega)] at haux
  have hdl := congrArg List.dropLast haux
  have hone : ∀ (y : List β) (j : Nat), trimBlocksFrom true d d (blocks.length + 2) j [y]
      = [pySliceFrontBack (if j = 0 ∧ true = true then 0 else d)
          (if (j = blocks.length + 2 - 1 ∧ true = true) ∨ d = 0 then none else some d) y] := by
    intro y j; simp [trimBlocksFrom]
  rw [hone, List.dropLast_concat] at hdl
  rw [hdl, winBlocks_dropLast_flatten]

/-- …which is "pad the whole axis, apply the function, cut the pads off again" -/
theorem win_pad_middle {α β : Type} (b a : Nat) (g : List α → α → List α → β) (padL xs padR : List α) :
    win b a g padL xs padR = ((winFn b a g (padL ++ xs ++ padR)).drop padL.length).take xs.length := by
  simp only [winFn]
  rw [win_append, win_append]
  simp only [List.nil_append, List.append_nil]
  rw [List.append_assoc, List.drop_append_of_le_length (by rw [win_length]; exact Nat.le_refl _)]
  have h1 : (win b a g [] padL (xs ++ padR)).length = padL.length := win_length _ _ _ _ _ _
  rw [← h1, List.drop_length, List.nil_append]
  have h2 : (win b a g padL xs padR).length = xs.length := win_length _ _ _ _ _ _
  rw [← h2, List.take_left']
  rfl

/-! ### sliding windows -/

theorem windows_append {α : Type} (d : Nat) (a b : List α) (hb : d ≤ b.length) :
    windows (d + 1) (a ++ b) = windows (d + 1) (a ++ b.take d) ++ windows (d + 1) b := by
  unfold windows
  have e1 : (a ++ b).length + 1 - (d + 1) = a.length + (b.length - d) := by simp; omega
  have e2 : (a ++ b.take d).length + 1 - (d + 1) = a.length := by simp [Nat.min_eq_left hb]
  have e3 : b.length + 1 - (d + 1) = b.length - d := by omega
  rw [e1, e2, e3, List.range_add, List.map_append, List.map_map]
  congr 1
  · apply List.map_congr_left
    intro i hi
    rw [List.mem_range] at hi
    rw [List.drop_append_of_le_length (by omega), List.drop_append_of_le_length (by omega)]
    rw [List.take_append, List.take_append, List.take_take]
    congr 2
    simp only [List.length_drop]
    omega
  · apply List.map_congr_left
    intro i _
    simp only [Function.comp]
    rw [List.drop_append]
    have : a.length + i - a.length = i := by omega
    rw [List.drop_eq_nil_of_le (by omega), this, List.nil_append]

theorem sliding_aux {α : Type} (d : Nat) : ∀ (blocks : List (List α)) (prev : Option (List α)),
    (∀ blk ∈ blocks, d ≤ blk.length) →
    ((overlapBlocksAux 0 d prev blocks).map (windows (d + 1))).flatten = windows (d + 1) blocks.flatten := by
  intro blocks
  induction blocks with
  | nil => intro prev _; simp [overlapBlocksAux, windows]
  | cons blk rest ih =>
    intro prev hbig
    have hleft : (match prev with
        | some p => if (0 : Nat) ≠ 0 then lastN 0 p else ([] : List α)
        | none => []) = [] := by cases prev <;> simp
    simp only [overlapBlocksAux, List.map_cons, List.flatten_cons]
    rw [ih (some blk) (fun b hb => hbig b (by simp [hb]))]
    cases rest with
    | nil => cases prev <;> simp [windows]
    | cons nxt more =>
      have hn : d ≤ nxt.length := hbig nxt (by simp)
      have hB : d ≤ (nxt :: more).flatten.length := by simp; omega
      rw [windows_append d blk (nxt :: more).flatten hB]
      congr 2
      simp only [List.flatten_cons]
      rw [List.take_append_of_le_length hn]
      by_cases hd : d = 0
      · subst hd; cases prev <;> simp
      · cases prev <;> simp [hd]

end Dask.ArrOverlap
