/- Extension round (C43): the `Len` / `Index` laws on values. -/
import DaskModel.Lemmas.RelExpr2Sound
namespace Dask.RelExpr2
open Dask.RelExpr (Cell BinOp getCell colIdx b2c notC Src)

theorem len_index (v : Val2) : (indexV v).bind lenV = lenV v := by
  cases v <;> simp [indexV, lenV]

theorem len_proj (cs : List String) (v : Val2) : Ref ((projV cs v).bind lenV) (lenV v) := by
  intro w h
  cases v with
  | frame c rows =>
    simp only [projV] at h
    split at h
    · simpa [lenV] using h
    · simp at h
  | series _ => simp [projV] at h
  | scalar _ => simp [projV] at h

theorem len_col (n : String) (v : Val2) : Ref ((colV n v).bind lenV) (lenV v) := by
  intro w h
  cases v with
  | frame c rows =>
    simp only [colV] at h
    split at h
    · simpa [lenV] using h
    · simp at h
  | series _ => simp [colV] at h
  | scalar _ => simp [colV] at h

theorem len_not (v : Val2) : Ref ((notV v).bind lenV) (lenV v) := by
  intro w h
  cases v with
  | frame c rows => simp [notV] at h
  | series _ => simpa [notV, lenV] using h
  | scalar _ => simp [notV, lenV] at h

theorem ids_length {α β} {xs : List (RId × α)} {ys : List (RId × β)} (h : (ids xs == ids ys) = true) : ys.length = xs.length := by
  have := congrArg List.length (beq_iff_eq.mp h)
  simpa [ids] using this.symm

theorem len_assign (n : String) (x y : Val2) : Ref ((assignV n x y).bind lenV) (lenV x) := by
  intro w h
  cases x with
  | frame c rows =>
    cases y with
    | series vs =>
      simp only [assignV] at h
      split at h
      · rename_i hid
        have hl := ids_length hid
        cases hc : colIdx c n <;> simp [hc, lenV, hl] at h <;> simp [lenV, h]
      · simp at h
    | scalar k =>
      simp only [assignV] at h
      cases hc : colIdx c n <;> simp [hc, lenV] at h <;> simp [lenV, h]
    | frame _ _ => simp [assignV] at h
  | series _ => cases y <;> simp [assignV] at h
  | scalar _ => cases y <;> simp [assignV] at h

theorem len_bin_lit (op : BinOp) (x : Val2) (k : Int) : Ref ((binV op x (.scalar (some k))).bind lenV) (lenV x) := by
  intro w h
  cases x with
  | frame c rows => simp [binV] at h
  | series xs => simpa [binV, lenV] using h
  | scalar c => simp [binV, lenV] at h

theorem len_concat (x y : Val2) :
    Ref ((concatV x y).bind lenV) ((lenV x).bind (fun a => (lenV y).bind (binV .add a))) := by
  intro w h
  cases x with
  | frame ca ra =>
    cases y with
    | frame cb rb =>
      simp only [concatV, Option.bind_some, lenV, List.length_append, List.length_map] at h
      simp only [lenV, Option.bind_some, binV, BinOp.app]
      rw [← h]
      simp
    | series _ => simp [concatV] at h
    | scalar _ => simp [concatV] at h
  | series _ => cases y <;> simp [concatV] at h
  | scalar _ => cases y <;> simp [concatV] at h

theorem lenV_scalar {v w : Val2} (h : lenV v = some w) : ∃ n : Int, w = .scalar (some n) := by
  cases v <;> simp [lenV] at h <;> exact ⟨_, h.symm⟩

theorem zero_add_len (o : Option Val2) : Ref (o.bind lenV) ((some (Val2.scalar (some 0))).bind (fun a => (o.bind lenV).bind (binV .add a))) := by
  intro w h
  cases o with
  | none => simp at h
  | some v =>
    simp only [Option.bind_some] at h
    obtain ⟨n, hn⟩ := lenV_scalar h
    subst hn
    simp [h, binV, BinOp.app]

theorem keepRows_map {α β} (rows : List (RId × α)) (ps : List (RId × Cell)) (g : RId × α → β) :
    keepRows (rows.map (fun ir => (ir.1, g ir))) ps = (keepRows rows ps).map (fun ir => (ir.1, g ir)) := by
  unfold keepRows
  induction rows generalizing ps with
  | nil => simp
  | cons r rs ih =>
    cases ps with
    | nil => simp
    | cons q qs =>
      simp only [List.map_cons, List.zip_cons_cons, List.filterMap_cons]
      by_cases hq : (q.2 == some 1) = true
      · simp only [hq, if_true, List.map_cons, ih qs]
      · simp only [hq, Bool.false_eq_true, if_false, ih qs]

theorem ids_map_fst {α β} (rows : List (RId × α)) (g : RId × α → β) : ids (rows.map (fun ir => (ir.1, g ir))) = ids rows := by
  simp [ids, List.map_map, Function.comp_def]

/-- `Index` commutes with `Filter` -/
theorem index_filter (x p : Val2) : (filterV x p).bind indexV = (indexV x).bind (fun i => filterV i p) := by
  cases x with
  | frame c rows =>
    cases p with
    | series ps =>
      simp only [filterV, indexV, Option.bind_some, ids_map_fst rows (fun _ => (none : Cell))]
      by_cases h : (ids rows == ids ps) = true
      · simp only [h, if_true, Option.bind_some, indexV, keepRows_map rows ps (fun _ => (none : Cell))]
      · simp [h]
    | frame _ _ => simp [filterV, indexV]
    | scalar _ => simp [filterV, indexV]
  | series xs =>
    cases p with
    | series ps =>
      simp only [filterV, indexV, Option.bind_some, ids_map_fst xs (fun _ => (none : Cell))]
      by_cases h : (ids xs == ids ps) = true
      · simp only [h, if_true, Option.bind_some, indexV, keepRows_map xs ps (fun _ => (none : Cell))]
      · simp [h]
    | frame _ _ => simp [filterV, indexV]
    | scalar _ => simp [filterV, indexV]
  | scalar _ => cases p <;> simp [filterV, indexV]

end Dask.RelExpr2
