import DaskModel.Model.VIndex
import DaskModel.Lemmas.SliceInt
/-! C20, vindex: grouping the points by (output block, input blocks) loses and duplicates nothing, every group is
    homogeneous, and a placed point addresses its own coordinates. -/
namespace Dask.VIndex
open Dask.Slice1D

theorem insertPoint_perm (q : Placed) : ∀ (gs : List (List Nat × List Placed)),
    ((insertPoint q gs).flatMap (·.2)).Perm (q :: gs.flatMap (·.2)) := by
  intro gs
  induction gs with
  | nil => simp [insertPoint]
  | cons g rest ih =>
    obtain ⟨k, ps⟩ := g
    simp only [insertPoint]
    split
    · simp only [List.flatMap_cons, List.append_assoc]
      exact (List.perm_middle (l₁ := ps) (l₂ := rest.flatMap (·.2)) (a := q))
    · split
      · simp [List.flatMap_cons]
      · simp only [List.flatMap_cons]
        refine (List.Perm.append_left ps ih).trans ?_
        exact List.perm_middle

theorem foldl_insert_perm : ∀ (placed : List Placed) (gs : List (List Nat × List Placed)),
    ((placed.foldl (fun gs q => insertPoint q gs) gs).flatMap (·.2)).Perm (placed ++ gs.flatMap (·.2)) := by
  intro placed
  induction placed with
  | nil => intro gs; simp
  | cons q rest ih =>
    intro gs
    simp only [List.foldl_cons, List.cons_append]
    refine (ih (insertPoint q gs)).trans ?_
    refine (List.Perm.append_left rest (insertPoint_perm q gs)).trans ?_
    exact List.perm_middle

theorem groups_perm (placed : List Placed) : ((groups placed).flatMap (·.2)).Perm placed := by
  have := foldl_insert_perm placed []
  simpa [groups] using this

def Keyed (gs : List (List Nat × List Placed)) : Prop := ∀ g ∈ gs, ∀ q ∈ g.2, key q = g.1

theorem insertPoint_keyed (q : Placed) : ∀ (gs : List (List Nat × List Placed)), Keyed gs → Keyed (insertPoint q gs) := by
  intro gs
  induction gs with
  | nil =>
    intro _ g hg p hp
    simp only [insertPoint, List.mem_singleton] at hg
    subst hg
    simp only [List.mem_singleton] at hp
    subst hp; rfl
  | cons g rest ih =>
    intro hk
    obtain ⟨k, ps⟩ := g
    have hrest : Keyed rest := fun g hg => hk g (List.mem_cons_of_mem _ hg)
    have hhead : ∀ p ∈ ps, key p = k := hk (k, ps) (by simp)
    simp only [insertPoint]
    split
    · rename_i heq
      intro g hg p hp
      rcases List.mem_cons.mp hg with rfl | hg'
      · rcases List.mem_append.mp hp with h | h
        · exact hhead p h
        · simp only [List.mem_singleton] at h; subst h; exact heq
      · exact hrest g hg' p hp
    · split
      · intro g hg p hp
        rcases List.mem_cons.mp hg with rfl | hg'
        · simp only [List.mem_singleton] at hp; subst hp; rfl
        · exact hk g hg' p hp
      · intro g hg p hp
        rcases List.mem_cons.mp hg with rfl | hg'
        · exact hhead p hp
        · exact ih hrest g hg' p hp

theorem groups_keyed (placed : List Placed) : Keyed (groups placed) := by
  unfold groups
  have : ∀ (pl : List Placed) (gs : List (List Nat × List Placed)), Keyed gs →
      Keyed (pl.foldl (fun gs q => insertPoint q gs) gs) := by
    intro pl
    induction pl with
    | nil => intro gs h; exact h
    | cons q rest ih => intro gs h; exact ih _ (insertPoint_keyed q gs h)
  exact this placed [] (fun g hg => by cases hg)

/-- a located point addresses its own coordinates: on every axis `sum(chunks[:block]) + inblock = coordinate`
    and the in-block index lies inside the block -/
theorem locate_spec : ∀ (chunks : List (List Nat)) (coords : List Int),
    chunks.length = coords.length →
    (∀ p ∈ chunks.zip coords, 0 ≤ p.2 ∧ p.2 < ((p.1.sum : Nat) : Int)) →
    ∃ bs os, locate chunks coords = some (bs, os) ∧ globalOf chunks bs os = coords := by
  intro chunks
  induction chunks with
  | nil =>
    intro coords hlen _
    cases coords with
    | nil => exact ⟨[], [], rfl, rfl⟩
    | cons _ _ => simp at hlen
  | cons c cs ih =>
    intro coords hlen hb
    cases coords with
    | nil => simp at hlen
    | cons v vs =>
      simp only [List.length_cons, Nat.add_right_cancel_iff] at hlen
      have hv := hb (c, v) (by simp)
      obtain ⟨b, o, l, hs, _, _, _, hsum⟩ := slice1dInt_spec c v hv.1 hv.2
      obtain ⟨bs, os, hl, hg⟩ := ih vs hlen (fun p hp => hb p (by simp [hp]))
      refine ⟨b :: bs, o :: os, by simp [locate, hs, hl], ?_⟩
      simp only [globalOf, hg, hsum]

theorem placeAll_spec (M : Nat) (chunks : List (List Nat)) : ∀ (pts : List (List Int)) (p0 : Nat) (placed : List Placed),
    placeAll M chunks p0 pts = some placed →
    placed.length = pts.length ∧
    ∀ (i : Nat) (q : Placed), placed[i]? = some q →
      q.pos = p0 + i ∧ q.outblock = (p0 + i) / M ∧ q.outidx = (p0 + i) % M ∧
      ∃ c, pts[i]? = some c ∧ locate chunks c = some (q.blocks, q.inblock) := by
  intro pts
  induction pts with
  | nil =>
    intro p0 placed h
    simp only [placeAll, Option.some.injEq] at h
    subst h
    exact ⟨rfl, fun i q hq => by simp at hq⟩
  | cons c rest ih =>
    intro p0 placed h
    simp only [placeAll] at h
    cases hl : locate chunks c with
    | none => rw [hl] at h; simp at h
    | some lo =>
      obtain ⟨bs, os⟩ := lo
      cases hr : placeAll M chunks (p0 + 1) rest with
      | none => rw [hl, hr] at h; simp at h
      | some r =>
        rw [hl, hr] at h
        simp only [Option.some.injEq] at h
        subst h
        obtain ⟨hlen, hall⟩ := ih (p0 + 1) r hr
        refine ⟨by simp [hlen], ?_⟩
        intro i q hq
        cases i with
        | zero =>
          simp only [List.getElem?_cons_zero, Option.some.injEq] at hq
          subst hq
          exact ⟨rfl, rfl, rfl, c, rfl, hl⟩
        | succ i =>
          simp only [List.getElem?_cons_succ] at hq
          obtain ⟨h1, h2, h3, c', h4, h5⟩ := hall i q hq
          have e : p0 + 1 + i = p0 + (i + 1) := by omega
          rw [e] at h1 h2 h3
          exact ⟨h1, h2, h3, c', by simpa using h4, h5⟩

theorem sum_replicate_nat (k M : Nat) : (List.replicate k M).sum = k * M := by
  induction k with
  | zero => simp
  | succ k ih => simp only [List.replicate_succ, List.sum_cons, ih]; rw [Nat.succ_mul]; omega

theorem pointChunks_sum (M npoints : Nat) : (pointChunks M npoints).sum = npoints := by
  unfold pointChunks
  by_cases hn : npoints > 0
  · simp only [hn, if_true, List.sum_append, sum_replicate_nat]
    have := Nat.div_add_mod npoints M
    by_cases hr : npoints % M > 0
    · simp only [hr, if_true, List.sum_cons, List.sum_nil]
      rw [Nat.mul_comm]; omega
    · simp only [hr, if_false, List.sum_nil]
      rw [Nat.mul_comm]; omega
  · simp only [hn, if_false]
    simp; omega

end Dask.VIndex
