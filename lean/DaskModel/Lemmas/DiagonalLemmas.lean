import DaskModel.Model.Creation
import DaskModel.Lemmas.ChunksBlocks
/-! Loop invariant of `diagonal`'s walk along the k-diagonal through the blocks (C34). -/
namespace Dask.Creation
open Dask.Chunks

theorem diagPoints_append (r c : Int) (a b : Nat) :
    diagPoints r c (a + b) = diagPoints r c a ++ diagPoints (r + a) (c + a) b := by
  unfold diagPoints
  rw [List.range_add, List.map_append, List.map_map]
  congr 1
  apply List.map_congr_left
  intro t _
  simp only [Function.comp, Int.natCast_add]
  rw [Int.add_assoc r, Int.add_assoc c]


/-- position `p` lies in block `b` of the chunking `cs` (of total `n`), or is the end `n` -/
def InBlock (cs : List Nat) (n p b : Nat) : Prop :=
  p ≤ n ∧ (p < n → ∃ c, cs[b]? = some c ∧ blockStart cs b ≤ p ∧ p < blockStart cs b + c)

/-- a segment is what the graph task produces: the declared length is `np.diagonal`'s length for that block and offset -/
def SegOK (rch cch : List Nat) (s : DSeg) : Prop :=
  ∃ nrows ncols, rch[s.I]? = some nrows ∧ cch[s.J]? = some ncols ∧ 0 < s.len ∧ s.len = npDiagLen nrows ncols s.k

theorem pos_of_get {cs : List Nat} (hp : ∀ c ∈ cs, 0 < c) {b c : Nat} (h : cs[b]? = some c) : 0 < c :=
  hp c (List.mem_of_getElem? h)

/-- the integer arithmetic of one loop iteration, for a point `(rn, cn)` inside block `(I, J)`
    (block starts `bI`, `bJ`, block shape `nrows × ncols`) that sits on the block's top or left edge -/
theorem diag_arith (bI nrows rn bJ ncols cn : Nat) (hr1 : bI ≤ rn) (hr2 : rn < bI + nrows) (hc1 : bJ ≤ cn)
    (hc2 : cn < bJ + ncols) (hz : rn = bI ∨ cn = bJ) :
    let k : Int := if ((rn : Int) - (bI : Int)) > 0 then -((rn : Int) - (bI : Int)) else ((cn : Int) - (bJ : Int))
    let len : Nat := min (nrows - (rn - bI)) (ncols - (cn - bJ))
    min (nrows : Int) ((ncols : Int) - k) - ((rn : Int) - (bI : Int)) = (len : Int)
    ∧ min (nrows : Int) ((ncols : Int) - k) + (bI : Int) = ((rn + len : Nat) : Int)
    ∧ min (ncols : Int) ((nrows : Int) + k) + (bJ : Int) = ((cn + len : Nat) : Int)
    ∧ (bI : Int) + max 0 (-k) = rn ∧ (bJ : Int) + max 0 k = cn
    ∧ (len : Int) = npDiagLen nrows ncols k ∧ 0 < len := by
  intro k len
  simp only [k, len, npDiagLen]
  rcases hz with h | h <;> (split <;> (refine ⟨?_, ?_, ?_, ?_, ?_, ?_, ?_⟩ <;> omega))

theorem min_split (N M rn cn len : Nat) (h1 : rn + len ≤ N) (h2 : cn + len ≤ M) :
    min (N - rn) (M - cn) = len + min (N - (rn + len)) (M - (cn + len)) := by omega

theorem diagLoop_spec (rch cch : List Nat) (hpr : ∀ c ∈ rch, 0 < c) (hpc : ∀ c ∈ cch, 0 < c) :
    ∀ (fuel rn cn I J : Nat), InBlock rch (sum rch) rn I → InBlock cch (sum cch) cn J →
      (rn < sum rch → cn < sum cch → rn = blockStart rch I ∨ cn = blockStart cch J) →
      (sum rch - rn) + (sum cch - cn) ≤ fuel →
      ∃ segs, diagLoop rch cch (sum rch) (sum cch) fuel rn cn I J = some segs ∧
        segs.flatMap (segPoints rch cch) = diagPoints rn cn (min (sum rch - rn) (sum cch - cn)) ∧
        ∀ s ∈ segs, SegOK rch cch s
  | 0, rn, cn, I, J, hr, hc, _, hf => by
    have h1 : ¬ (((rn : Int) < (sum rch : Nat)) ∧ ((cn : Int) < (sum cch : Nat))) := by
      have := hr.1; have := hc.1; omega
    refine ⟨[], by simp only [diagLoop]; rw [if_neg h1], ?_, by simp⟩
    have : min (sum rch - rn) (sum cch - cn) = 0 := by have := hr.1; have := hc.1; omega
    simp [this, diagPoints]
  | fuel + 1, rn, cn, I, J, hr, hc, hz, hf => by
    by_cases hcond : rn < sum rch ∧ cn < sum cch
    · obtain ⟨hrl, hcl⟩ := hcond
      obtain ⟨nrows, hnr, hr1, hr2⟩ := hr.2 hrl
      obtain ⟨ncols, hnc, hc1, hc2⟩ := hc.2 hcl
      have hz' := hz hrl hcl
      have hcondI : ((rn : Int) < (sum rch : Nat)) ∧ ((cn : Int) < (sum cch : Nat)) := by omega
      obtain ⟨e1, e2, e3, p1, p2, hnp, hlen⟩ := diag_arith (blockStart rch I) nrows rn (blockStart cch J) ncols cn hr1 hr2 hc1 hc2 hz'
      generalize hk : (if ((rn : Int) - (blockStart rch I : Int)) > 0 then -((rn : Int) - (blockStart rch I : Int))
        else ((cn : Int) - (blockStart cch J : Int))) = k at *
      generalize hlen' : min (nrows - (rn - blockStart rch I)) (ncols - (cn - blockStart cch J)) = len at *
      have hsI := blockStart_succ_of_get hnr
      have hsJ := blockStart_succ_of_get hnc
      have hleI := blockStart_le_sum rch (I + 1)
      have hleJ := blockStart_le_sum cch (J + 1)
      obtain ⟨I', hI'⟩ : ∃ I', I' = if rn + len = blockStart rch I + nrows then I + 1 else I := ⟨_, rfl⟩
      obtain ⟨J', hJ'⟩ : ∃ J', J' = if cn + len = blockStart cch J + ncols then J + 1 else J := ⟨_, rfl⟩
      have hr' : InBlock rch (sum rch) (rn + len) I' := by
        refine ⟨by omega, fun hlt => ?_⟩
        rw [hI']
        split
        · rename_i he
          obtain ⟨c', hc'⟩ := get_of_blockStart_lt (cs := rch) (b := I + 1) (by omega)
          have := pos_of_get hpr hc'
          exact ⟨c', hc', by omega, by omega⟩
        · rename_i he
          exact ⟨nrows, hnr, by omega, by omega⟩
      have hc' : InBlock cch (sum cch) (cn + len) J' := by
        refine ⟨by omega, fun hlt => ?_⟩
        rw [hJ']
        split
        · rename_i he
          obtain ⟨c', hc'⟩ := get_of_blockStart_lt (cs := cch) (b := J + 1) (by omega)
          have := pos_of_get hpc hc'
          exact ⟨c', hc', by omega, by omega⟩
        · rename_i he
          exact ⟨ncols, hnc, by omega, by omega⟩
      have hz'' : rn + len < sum rch → cn + len < sum cch →
          rn + len = blockStart rch I' ∨ cn + len = blockStart cch J' := by
        intro _ _
        rw [hI', hJ']
        split <;> split <;> omega
      obtain ⟨rest, hrest, hpts, hok⟩ := diagLoop_spec rch cch hpr hpc fuel (rn + len) (cn + len) I' J' hr' hc' hz'' (by omega)
      refine ⟨⟨I, J, k, (len : Int)⟩ :: rest, ?_, ?_, ?_⟩
      · simp only [diagLoop, hcondI, not_true_eq_false, if_false, hnr, hnc, bind, Option.bind, pure]
        rw [hk, e1, e2, e3]
        have eI : (if ((rn + len : Nat) : Int) = ((blockStart rch I + nrows : Nat) : Int) then I + 1 else I) = I' := by
          rw [hI']; split <;> split <;> omega
        have eJ : (if ((cn + len : Nat) : Int) = ((blockStart cch J + ncols : Nat) : Int) then J + 1 else J) = J' := by
          rw [hJ']; split <;> split <;> omega
        rw [eI, eJ, hrest]
        simp
      · rw [List.flatMap_cons, hpts]
        rw [min_split (sum rch) (sum cch) rn cn len hr'.1 hc'.1, diagPoints_append]
        congr 1
        · simp only [segPoints, diagPoints, Int.toNat_natCast]
          apply List.map_congr_left
          intro t _
          rw [p1, p2]
      · intro s hs
        rcases List.mem_cons.1 hs with rfl | hs
        · exact ⟨nrows, ncols, hnr, hnc, by simpa using hlen, hnp⟩
        · exact hok s hs
    · have h1 : ¬ (((rn : Int) < (sum rch : Nat)) ∧ ((cn : Int) < (sum cch : Nat))) := by omega
      refine ⟨[], by simp only [diagLoop]; rw [if_pos h1], ?_, by simp⟩
      have : min (sum rch - rn) (sum cch - cn) = 0 := by have := hr.1; have := hc.1; omega
      simp [this, diagPoints]


theorem inBlock_of_blockOf {cs : List Nat} {p b o : Nat} (h : blockOf cs p = some (b, o)) (hp : p < sum cs) :
    InBlock cs (sum cs) p b ∧ blockStart cs b ≤ p := by
  obtain ⟨c, hc, ho, hs⟩ := blockOf_spec h
  exact ⟨⟨Nat.le_of_lt hp, fun _ => ⟨c, hc, by omega, by omega⟩⟩, by omega⟩



end Dask.Creation
