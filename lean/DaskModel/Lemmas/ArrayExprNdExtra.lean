import DaskModel.Model.ArrayExprNd
import Mathlib.Tactic.Ring
import Mathlib.Data.List.Perm.Basic
/-
C30 extension: semantic soundness of slice rewrite rules on n-d array values (`Arr`), stated with `Arr.Equiv`
(same shape, same element at every in-range index).

1. slice of a slice = one gather (`composeR`, `take_take`), and the fused index of two positive-step slices is again
   a positive-step slice (`arithSel_comp`);
2. a slice of a broadcasting elementwise op = the op of the sliced operands (`pushR`, `take_bin_pushdown`);
3. a slice of a transpose = the transpose of the slice with the un-permuted index (`unpermR`, `take_transpose`).
-/

namespace Dask.ArrayExprNd
open Dask.ArrayExpr (BinOp)

/-! ## 1. slice of a slice -/

/-- the single gather equal to `r1` (applied first) followed by `r2` (applied to the result) -/
def composeR : List RIx → List RIx → List RIx
  | .int i :: r1, r2 => .int i :: composeR r1 r2
  | .sel l :: r1, .int k :: r2 => .int (l.getD k 0) :: composeR r1 r2
  | .sel l :: r1, .sel l2 :: r2 => .sel (l2.map (l.getD · 0)) :: composeR r1 r2
  | _, _ => []

/-- `r2` indexes an array of shape `s`: one entry per axis, every position in range -/
def validR : List Nat → List RIx → Bool
  | [], [] => true
  | d :: ds, .int k :: r => decide (k < d) && validR ds r
  | d :: ds, .sel l :: r => l.all (fun p => decide (p < d)) && validR ds r
  | _, _ => false

theorem srcIdx_int (i : Nat) (r : List RIx) (idx : Idx) : srcIdx (.int i :: r) idx = i :: srcIdx r idx := by
  cases idx <;> rfl

theorem composeR_int (i : Nat) (r1 r2 : List RIx) : composeR (.int i :: r1) r2 = .int i :: composeR r1 r2 := by
  cases r2 <;> rfl

theorem outShape_composeR (r1 r2 : List RIx) (h : validR (outShape r1) r2 = true) :
    outShape (composeR r1 r2) = outShape r2 := by
  induction r1 generalizing r2 with
  | nil =>
    cases r2 with
    | nil => rfl
    | cons a r2 => cases a <;> simp [outShape, validR] at h
  | cons a r1 ih =>
    cases a with
    | int i => rw [composeR_int]; simpa [outShape] using ih r2 (by simpa [outShape] using h)
    | sel l =>
      cases r2 with
      | nil => simp [outShape, validR] at h
      | cons b r2 =>
        cases b with
        | int k =>
          simp only [outShape, validR, Bool.and_eq_true] at h
          simpa [composeR, outShape] using ih r2 h.2
        | sel l2 =>
          simp only [outShape, validR, Bool.and_eq_true] at h
          simp [composeR, outShape, ih r2 h.2]

theorem srcIdx_composeR (r1 r2 : List RIx) (idx : Idx) (h : validR (outShape r1) r2 = true)
    (hi : inRange (outShape r2) idx = true) :
    srcIdx (composeR r1 r2) idx = srcIdx r1 (srcIdx r2 idx) := by
  induction r1 generalizing r2 idx with
  | nil =>
    cases r2 with
    | nil => rfl
    | cons a r2 => cases a <;> simp [outShape, validR] at h
  | cons a r1 ih =>
    cases a with
    | int i =>
      rw [composeR_int, srcIdx_int, srcIdx_int, ih r2 idx (by simpa [outShape] using h) hi]
    | sel l =>
      cases r2 with
      | nil => simp [outShape, validR] at h
      | cons b r2 =>
        cases b with
        | int k =>
          simp only [outShape, validR, Bool.and_eq_true] at h
          simp only [outShape] at hi
          rw [srcIdx_int]
          simp only [composeR, srcIdx_int, srcIdx]
          rw [ih r2 idx h.2 hi]
        | sel l2 =>
          simp only [outShape, validR, Bool.and_eq_true] at h
          cases idx with
          | nil => simp [outShape, inRange] at hi
          | cons k idx =>
            simp only [outShape, inRange, Bool.and_eq_true, decide_eq_true_eq] at hi
            simp only [composeR, srcIdx]
            rw [ih r2 idx h.2 hi.2]
            congr 1
            simp [List.getD, hi.1]

/-- **Slice-of-slice fusion**: `x[r1][r2] = x[composeR r1 r2]` whenever `r2` is a valid index of `x[r1]`. -/
theorem take_take (x : Arr) (r1 r2 : List RIx) (h : validR (outShape r1) r2 = true) :
    ((x.take r1).take r2).Equiv (x.take (composeR r1 r2)) := by
  refine ⟨(outShape_composeR r1 r2 h).symm, fun idx hi => ?_⟩
  simp only [Arr.take] at hi ⊢
  rw [srcIdx_composeR r1 r2 idx h hi]

def exArr : Arr := ⟨[4, 5, 3], fun idx => (ravel [4, 5, 3] idx : Nat)⟩
example : validR (outShape [.sel [3, 1, 2], .int 2, .sel [0, 2, 1]]) [.sel [2, 0, 2, 1], .int 1] = true := by decide
example : composeR [.sel [3, 1, 2], .int 2, .sel [0, 2, 1]] [.sel [2, 0, 2, 1], .int 1]
    = [.sel [2, 3, 2, 1], .int 2, .int 2] := by decide
example : ((exArr.take [.sel [3, 1, 2], .int 2, .sel [0, 2, 1]]).take [.sel [2, 0, 2, 1], .int 1]).toVal
    = (exArr.take (composeR [.sel [3, 1, 2], .int 2, .sel [0, 2, 1]] [.sel [2, 0, 2, 1], .int 1])).toVal := by decide
example : (exArr.take (composeR [.sel [3, 1, 2], .int 2, .sel [0, 2, 1]] [.sel [2, 0, 2, 1], .int 1])).toVal
    = ([4], [38, 53, 38, 23]) := by decide

/-- the positions `s, s + t, …` (`n` of them) of a slice with step `t` -/
def arithSel (s n t : Nat) : List Nat := (List.range n).map fun k => s + k * t

/-- the fused index of two positive-step slices (`start + k * step`, `k < n`) is again such a slice:
    `x[s1 : : t1][s2 : : t2]` (n2 positions, the last one inside the first slice) `= x[s1 + s2 * t1 : : t1 * t2]`. -/
theorem arithSel_comp (s1 n1 t1 s2 n2 t2 : Nat) (h : n2 = 0 ∨ s2 + (n2 - 1) * t2 < n1) :
    (arithSel s2 n2 t2).map ((arithSel s1 n1 t1).getD · 0) = arithSel (s1 + s2 * t1) n2 (t1 * t2) := by
  simp only [arithSel, List.map_map]
  apply List.map_congr_left
  intro k hk
  have hk' : k < n2 := List.mem_range.mp hk
  have h1 : s2 + (n2 - 1) * t2 < n1 := by
    rcases h with h | h
    · omega
    · exact h
  have h2 : k * t2 ≤ (n2 - 1) * t2 := Nat.mul_le_mul_right _ (by omega)
  have h3 : s2 + k * t2 < n1 := by omega
  simp only [Function.comp, List.getD_eq_getElem?_getD, List.getElem?_map, List.getElem?_range h3,
    Option.map_some, Option.getD_some]
  ring


/-- `x[2:32:3][1:7:2] = x[5:23:6]` -/
example : (arithSel 1 3 2).map ((arithSel 2 10 3).getD · 0) = arithSel (2 + 1 * 3) 3 (3 * 2) := by decide
example : arithSel (2 + 1 * 3) 3 (3 * 2) = [5, 11, 17] := by decide

/-! ## 2. slice pushdown through a broadcasting elementwise op -/

/-- every entry is a `.sel` -/
def selOnly : List RIx → Bool
  | [] => true
  | .sel _ :: r => selOnly r
  | .int _ :: _ => false

def pushRRev : List Nat → List Nat → List RIx → List RIx
  | d :: ds, e :: es, .sel l :: r => .sel (if d = 1 ∧ e ≠ 1 then [0] else l) :: pushRRev ds es r
  | _, _, _ => []

def pushR (sx s : List Nat) (rix : List RIx) : List RIx := (pushRRev sx.reverse s.reverse rix.reverse).reverse

def pushLRev : List Nat → List Nat → List (List Nat) → List (List Nat)
  | d :: ds, e :: es, l :: r => (if d = 1 ∧ e ≠ 1 then [0] else l) :: pushLRev ds es r
  | _, _, _ => []

def All2 {α β : Type} (P : α → β → Prop) : List α → List β → Prop
  | [], [] => True
  | a :: as, b :: bs => P a b ∧ All2 P as bs
  | _, _ => False

theorem All2.length_eq {α β : Type} {P : α → β → Prop} {a : List α} {b : List β} (h : All2 P a b) : a.length = b.length := by
  induction a generalizing b with
  | nil => cases b with
    | nil => rfl
    | cons => simp [All2] at h
  | cons x a ih => cases b with
    | nil => simp [All2] at h
    | cons y b => simp only [All2] at h; simp [ih h.2]

theorem All2.append {α β : Type} {P : α → β → Prop} {a c : List α} {b d : List β} (h1 : All2 P a b) (h2 : All2 P c d) :
    All2 P (a ++ c) (b ++ d) := by
  induction a generalizing b with
  | nil => cases b with
    | nil => simpa using h2
    | cons => simp [All2] at h1
  | cons x a ih => cases b with
    | nil => simp [All2] at h1
    | cons y b => simp only [All2] at h1; exact ⟨h1.1, ih h1.2⟩

theorem All2.reverse {α β : Type} {P : α → β → Prop} {a : List α} {b : List β} (h : All2 P a b) : All2 P a.reverse b.reverse := by
  induction a generalizing b with
  | nil => cases b with
    | nil => simpa using h
    | cons => simp [All2] at h
  | cons x a ih => cases b with
    | nil => simp [All2] at h
    | cons y b =>
      simp only [All2] at h
      simp only [List.reverse_cons]
      exact (ih h.2).append ⟨h.1, trivial⟩

theorem inRange_all2 (s : List Nat) (idx : Idx) : inRange s idx = true ↔ All2 (fun d i => i < d) s idx := by
  induction s generalizing idx with
  | nil => cases idx <;> simp [inRange, All2]
  | cons d s ih => cases idx with
    | nil => simp [inRange, All2]
    | cons i idx => simp [inRange, All2, ih]

theorem selOnly_exists (r : List RIx) (h : selOnly r = true) : ∃ L : List (List Nat), r = L.map RIx.sel := by
  induction r with
  | nil => exact ⟨[], rfl⟩
  | cons a r ih =>
    cases a with
    | int i => simp [selOnly] at h
    | sel l =>
      obtain ⟨L, hL⟩ := ih (by simpa [selOnly] using h)
      exact ⟨l :: L, by simp [hL]⟩

theorem validR_all2 (s : List Nat) (L : List (List Nat)) :
    validR s (L.map RIx.sel) = true ↔ All2 (fun d l => ∀ v ∈ l, v < d) s L := by
  induction s generalizing L with
  | nil => cases L <;> simp [validR, All2]
  | cons d s ih => cases L with
    | nil => simp [validR, All2]
    | cons l L => simp [validR, All2, ih]

theorem pushRRev_map (ds es : List Nat) (L : List (List Nat)) :
    pushRRev ds es (L.map RIx.sel) = (pushLRev ds es L).map RIx.sel := by
  induction ds generalizing es L with
  | nil => simp [pushRRev, pushLRev]
  | cons d ds ih =>
    cases es with
    | nil => simp [pushRRev, pushLRev]
    | cons e es => cases L with
      | nil => simp [pushRRev, pushLRev]
      | cons l L => simp [pushRRev, pushLRev, ih]

theorem outShape_map_sel (L : List (List Nat)) : outShape (L.map RIx.sel) = L.map List.length := by
  induction L with
  | nil => rfl
  | cons l L ih => simp [outShape, ih]

/-- the gather along every axis of a sel-only index -/
def gat (L : List (List Nat)) (idx : Idx) : Idx := List.zipWith (fun l k => l.getD k 0) L idx

theorem srcIdx_map_sel (L : List (List Nat)) (idx : Idx) (h : idx.length = L.length) :
    srcIdx (L.map RIx.sel) idx = gat L idx := by
  induction L generalizing idx with
  | nil => simp [srcIdx, gat]
  | cons l L ih => cases idx with
    | nil => simp at h
    | cons k idx => simp [srcIdx, gat] at h ⊢; simpa [gat] using ih idx h

/-- reversed coordinates: operand dims `ds` broadcast into result dims `es` -/
def BCRel : List Nat → List Nat → Prop
  | [], _ => True
  | _ :: _, [] => False
  | d :: ds, e :: es => (d = e ∨ d = 1) ∧ BCRel ds es

theorem BCRel_refl (s : List Nat) : BCRel s s := by
  induction s with
  | nil => trivial
  | cons d s ih => exact ⟨Or.inl rfl, ih⟩

theorem BCRel.length_le {ds es : List Nat} (h : BCRel ds es) : ds.length ≤ es.length := by
  induction ds generalizing es with
  | nil => simp
  | cons d ds ih => cases es with
    | nil => simp [BCRel] at h
    | cons e es => simp only [BCRel] at h; simpa using ih h.2

theorem bshapeRev_nil_right (z : List Nat) : bshapeRev z [] = some z := by cases z <;> rfl

theorem bshapeRev_rel (xs ys sr : List Nat) (h : bshapeRev xs ys = some sr) : BCRel xs sr ∧ BCRel ys sr := by
  induction xs generalizing ys sr with
  | nil =>
    simp only [bshapeRev, Option.some.injEq] at h
    subst h; exact ⟨trivial, BCRel_refl _⟩
  | cons x xs ih =>
    cases ys with
    | nil =>
      simp only [bshapeRev, Option.some.injEq] at h
      subst h; exact ⟨BCRel_refl _, trivial⟩
    | cons y ys =>
      simp only [bshapeRev] at h
      split at h
      · rename_i hc
        obtain ⟨sr', h', rfl⟩ := Option.map_eq_some_iff.mp h
        have := ih ys sr' h'
        refine ⟨⟨Or.inl rfl, this.1⟩, ⟨?_, this.2⟩⟩
        omega
      · split at h
        · rename_i hc
          obtain ⟨sr', h', rfl⟩ := Option.map_eq_some_iff.mp h
          have := ih ys sr' h'
          exact ⟨⟨Or.inr hc, this.1⟩, ⟨Or.inl rfl, this.2⟩⟩
        · simp at h

theorem pushLRev_self (s : List Nat) (L : List (List Nat)) (h : L.length = s.length) : pushLRev s s L = L := by
  induction s generalizing L with
  | nil => cases L with
    | nil => rfl
    | cons => simp at h
  | cons d s ih => cases L with
    | nil => simp at h
    | cons l L =>
      simp only [pushLRev]
      rw [ih L (by simpa using h)]
      simp

theorem pushLRev_length (ds es : List Nat) (L : List (List Nat)) (h : BCRel ds es) (hl : L.length = es.length) :
    (pushLRev ds es L).length = ds.length := by
  induction ds generalizing es L with
  | nil => simp [pushLRev]
  | cons d ds ih => cases es with
    | nil => simp [BCRel] at h
    | cons e es => cases L with
      | nil => simp at hl
      | cons l L => simp only [BCRel] at h; simp [pushLRev, ih es L h.2 (by simpa using hl)]

theorem bcRev_length (ds : List Nat) (j : Idx) (h : ds.length ≤ j.length) : (bcRev ds j).length = ds.length := by
  induction ds generalizing j with
  | nil => simp [bcRev]
  | cons d ds ih => cases j with
    | nil => simp at h
    | cons k j => simp [bcRev, ih j (by simpa using h)]

/-- the core of the pushdown in reversed coordinates: shapes -/
theorem pushLRev_bshape (xs ys sr : List Nat) (L : List (List Nat)) (h : bshapeRev xs ys = some sr)
    (hl : L.length = sr.length) :
    bshapeRev ((pushLRev xs sr L).map List.length) ((pushLRev ys sr L).map List.length) = some (L.map List.length) := by
  induction xs generalizing ys sr L with
  | nil =>
    simp only [bshapeRev, Option.some.injEq] at h
    subst h
    simp [pushLRev, bshapeRev, pushLRev_self _ _ hl]
  | cons x xs ih =>
    cases ys with
    | nil =>
      simp only [bshapeRev, Option.some.injEq] at h
      subst h
      rw [pushLRev_self _ _ hl]
      simp [pushLRev, bshapeRev_nil_right]
    | cons y ys =>
      simp only [bshapeRev] at h
      split at h
      · rename_i hc
        obtain ⟨sr', h', rfl⟩ := Option.map_eq_some_iff.mp h
        cases L with
        | nil => simp at hl
        | cons l L =>
          have := ih ys sr' L h' (by simpa using hl)
          simp only [pushLRev, List.map_cons, bshapeRev]
          by_cases hy : y = 1 ∧ x ≠ 1
          · simp [hy, this]
          · have hx : ¬ (x = 1 ∧ x ≠ 1) := by omega
            simp [hy, hx, this]
      · split at h
        · rename_i hc hx
          obtain ⟨sr', h', rfl⟩ := Option.map_eq_some_iff.mp h
          cases L with
          | nil => simp at hl
          | cons l L =>
            have := ih ys sr' L h' (by simpa using hl)
            have hy1 : y ≠ 1 := by omega
            simp only [pushLRev, List.map_cons, bshapeRev]
            simp [hx, hy1, this]
            intro h1; omega
        · simp at h

/-- the core of the pushdown in reversed coordinates: indices -/
theorem pushLRev_bcRev (ds es : List Nat) (L : List (List Nat)) (j : Idx) (hr : BCRel ds es)
    (hv : All2 (fun e l => ∀ v ∈ l, v < e) es L) (hj : All2 (fun (l : List Nat) k => k < l.length) L j) :
    bcRev ds (gat L j) = gat (pushLRev ds es L) (bcRev ((pushLRev ds es L).map List.length) j) := by
  induction ds generalizing es L j with
  | nil => simp [bcRev, pushLRev, gat]
  | cons d ds ih =>
    cases es with
    | nil => simp [BCRel] at hr
    | cons e es => cases L with
      | nil => simp [All2] at hv
      | cons l L => cases j with
        | nil => simp [All2] at hj
        | cons k j =>
          simp only [BCRel, All2] at hr hv hj
          have := ih es L j hr.2 hv.2 hj.2
          simp only [gat] at this ⊢
          simp only [List.zipWith_cons_cons, bcRev, pushLRev, List.map_cons]
          rw [this]
          congr 1
          have hk := hj.1
          have hlt : l.getD k 0 < e := hv.1 _ (by simp [List.getD, hk])
          by_cases hc : d = 1 ∧ e ≠ 1
          · simp [hc]
          · simp only [hc, if_false]
            by_cases hl1 : l.length = 1
            · have : k = 0 := by omega
              subst this
              simp only [hl1, if_true]
              split <;> omega
            · simp only [hl1, if_false]
              split <;> omega



theorem bshape_some (sa sb s : List Nat) (h : bshape sa sb = some s) : bshapeRev sa.reverse sb.reverse = some s.reverse := by
  unfold bshape at h
  obtain ⟨sr, h', rfl⟩ := Option.map_eq_some_iff.mp h
  simpa using h'

def pushL (sx s : List Nat) (L : List (List Nat)) : List (List Nat) := (pushLRev sx.reverse s.reverse L.reverse).reverse

theorem pushR_map (sx s : List Nat) (L : List (List Nat)) : pushR sx s (L.map RIx.sel) = (pushL sx s L).map RIx.sel := by
  simp only [pushR, pushL, ← List.map_reverse, pushRRev_map]

theorem gat_reverse (L : List (List Nat)) (j : Idx) (h : L.length = j.length) : (gat L j).reverse = gat L.reverse j.reverse := by
  simp only [gat, List.reverse_zipWith h]

theorem outShape_pushR (sx s : List Nat) (L : List (List Nat)) :
    outShape (pushR sx s (L.map RIx.sel)) = (pushL sx s L).map List.length := by
  rw [pushR_map, outShape_map_sel]

theorem all2_map_length (L : List (List Nat)) (idx : Idx) (h : All2 (fun d i => i < d) (L.map List.length) idx) :
    All2 (fun (l : List Nat) k => k < l.length) L idx := by
  induction L generalizing idx with
  | nil => cases idx <;> simp [All2] at h ⊢
  | cons l L ih => cases idx with
    | nil => simp [All2] at h
    | cons k idx => simp only [List.map_cons, All2] at h ⊢; exact ⟨h.1, ih idx h.2⟩

theorem bcIdx_pushL (sx s : List Nat) (L : List (List Nat)) (idx : Idx) (hr : BCRel sx.reverse s.reverse)
    (hv : All2 (fun e l => ∀ v ∈ l, v < e) s L) (hi : All2 (fun (l : List Nat) k => k < l.length) L idx) :
    bcIdx sx (gat L idx) = gat (pushL sx s L) (bcIdx ((pushL sx s L).map List.length) idx) := by
  have hlen := hi.length_eq
  have hlen2 := hv.length_eq
  have hP : (pushLRev sx.reverse s.reverse L.reverse).length = sx.reverse.length :=
    pushLRev_length _ _ _ hr (by simp [hlen2])
  have hle := hr.length_le
  simp only [bcIdx, pushL]
  rw [gat_reverse L idx hlen, pushLRev_bcRev _ _ _ _ hr hv.reverse hi.reverse]
  simp only [List.map_reverse, List.reverse_reverse]
  rw [gat_reverse]
  rw [bcRev_length]
  · simp
  · simp only [List.length_map, hP, List.length_reverse] at hle ⊢
    omega

/-- **Slice pushdown through a broadcasting elementwise op**: `(x ∘ y)[rix] = x[pushR …] ∘ y[pushR …]` for a sel-only
    index `rix` that is valid for the broadcast shape `s` (one entry per axis of `s`, every position in range). An
    operand with fewer axes gets the entries of its last axes; on an axis where it has length 1 and the result does
    not, the entry becomes `.sel [0]`. -/
theorem take_bin_pushdown (op : BinOp) (x y : Arr) (s : List Nat) (rix : List RIx)
    (hs : bshape x.shape y.shape = some s) (hsel : selOnly rix = true) (hv : validR s rix = true) :
    OEquiv ((Arr.bin op x y).map (Arr.take rix))
      (Arr.bin op (x.take (pushR x.shape s rix)) (y.take (pushR y.shape s rix))) := by
  obtain ⟨L, rfl⟩ := selOnly_exists rix hsel
  have hv2 := (validR_all2 s L).mp hv
  have hrev := bshape_some _ _ _ hs
  have hrel := bshapeRev_rel _ _ _ hrev
  have hshape : bshape (outShape (pushR x.shape s (L.map RIx.sel))) (outShape (pushR y.shape s (L.map RIx.sel)))
      = some (outShape (L.map RIx.sel)) := by
    rw [outShape_pushR, outShape_pushR, outShape_map_sel]
    simp only [bshape, pushL, List.map_reverse, List.reverse_reverse]
    rw [pushLRev_bshape _ _ _ _ hrev (by simp [hv2.length_eq])]
    simp
  simp only [Arr.bin, hs, Arr.take, hshape, Option.map_some, OEquiv]
  refine ⟨rfl, fun idx hi => ?_⟩
  simp only at hi ⊢
  rw [outShape_map_sel] at hi
  have hi2 := all2_map_length L idx ((inRange_all2 _ _).mp hi)
  have hlen := hi2.length_eq
  rw [srcIdx_map_sel L idx hlen.symm, bcIdx_pushL x.shape s L idx hrel.1 hv2 hi2,
    bcIdx_pushL y.shape s L idx hrel.2 hv2 hi2]
  simp only [pushR_map, outShape_map_sel]
  rw [srcIdx_map_sel, srcIdx_map_sel]
  · simp only [bcIdx, List.length_reverse]
    rw [bcRev_length]
    · simp
    · have := hrel.2.length_le
      have h2 := hv2.length_eq
      simp only [pushL, List.map_reverse, List.reverse_reverse, List.length_map, List.length_reverse] at this ⊢
      rw [pushLRev_length _ _ _ hrel.2 (by simp [h2])]
      simp; omega
  · simp only [bcIdx, List.length_reverse]
    rw [bcRev_length]
    · simp
    · have := hrel.1.length_le
      have h2 := hv2.length_eq
      simp only [pushL, List.map_reverse, List.reverse_reverse, List.length_map, List.length_reverse] at this ⊢
      rw [pushLRev_length _ _ _ hrel.1 (by simp [h2])]
      simp; omega



def exX : Arr := ⟨[3, 1, 4], fun idx => (ravel [3, 1, 4] idx : Nat)⟩
def exY : Arr := ⟨[2, 1], fun idx => 100 * (ravel [2, 1] idx : Nat) + 7⟩
def exR : List RIx := [.sel [2, 0], .sel [1, 1, 0], .sel [3, 1, 2]]

example : bshape exX.shape exY.shape = some [3, 2, 4] := by decide
example : pushR exX.shape [3, 2, 4] exR = [.sel [2, 0], .sel [0], .sel [3, 1, 2]] := by decide
example : pushR exY.shape [3, 2, 4] exR = [.sel [1, 1, 0], .sel [0]] := by decide
example : ((Arr.bin .add exX exY).map (Arr.take exR)).map Arr.toVal
    = (Arr.bin .add (exX.take (pushR exX.shape [3, 2, 4] exR)) (exY.take (pushR exY.shape [3, 2, 4] exR))).map Arr.toVal := by
  decide
example : ((Arr.bin .add exX exY).map (Arr.take exR)).map Arr.toVal
    = some ([2, 3, 3], [118, 116, 117, 118, 116, 117, 18, 16, 17, 110, 108, 109, 110, 108, 109, 10, 8, 9]) := by decide


/-! ## 3. slice through transpose -/

/-- source axis `m` is indexed by the entry of the result axis that shows it -/
def unpermR (axes : List Nat) (rix : List RIx) : List RIx :=
  (List.range axes.length).map fun m => rix.getD (axes.idxOf m) (.sel [])

theorem isPerm_perm (axes : List Nat) (n : Nat) (h : isPerm axes n = true) : (List.range n).Perm axes := by
  simp only [isPerm, Bool.and_eq_true, beq_iff_eq, List.all_eq_true, List.contains_iff_mem] at h
  exact (List.subperm_of_subset List.nodup_range (fun k hk => by simpa using h.2 k hk)).perm_of_length_le (by simp [h.1])

theorem unpermR_map (axes : List Nat) (L : List (List Nat)) :
    unpermR axes (L.map RIx.sel) = ((List.range axes.length).map fun m => L.getD (axes.idxOf m) []).map RIx.sel := by
  simp only [unpermR, List.map_map]
  apply List.map_congr_left
  intro m _
  simp only [Function.comp, List.getD_eq_getElem?_getD, List.getElem?_map]
  cases L[axes.idxOf m]? <;> rfl

theorem gat_getD (L : List (List Nat)) (idx : Idx) (p : Nat) (h : L.length = idx.length) :
    (gat L idx).getD p 0 = (L.getD p []).getD (idx.getD p 0) 0 := by
  induction L generalizing idx p with
  | nil => simp [gat]
  | cons l L ih => cases idx with
    | nil => simp at h
    | cons k idx => cases p with
      | zero => simp [gat]
      | succ p => simpa [gat] using ih idx p (by simpa using h)

/-- **Slice through transpose**: `x.transpose(axes)[rix] = x[unpermR axes rix].transpose(axes)` for a sel-only index
    with one entry per axis. -/
theorem take_transpose (x : Arr) (axes : List Nat) (rix : List RIx)
    (hp : isPerm axes x.shape.length = true) (hsel : selOnly rix = true) (hl : rix.length = axes.length) :
    ((x.transpose axes).take rix).Equiv ((x.take (unpermR axes rix)).transpose axes) := by
  obtain ⟨L, rfl⟩ := selOnly_exists rix hsel
  have hperm := isPerm_perm _ _ hp
  have hn : x.shape.length = axes.length := by simpa using hperm.length_eq
  have hnd : axes.Nodup := hperm.nodup_iff.mp List.nodup_range
  have hlt : ∀ a ∈ axes, a < axes.length := fun a ha => by
    have := hperm.mem_iff.mpr ha
    rw [hn] at this; exact List.mem_range.mp this
  have hL : L.length = axes.length := by simpa using hl
  refine ⟨?_, fun idx hi => ?_⟩
  · simp only [Arr.take, Arr.transpose, unpermR_map, outShape_map_sel]
    apply List.ext_getElem
    · simp [hL]
    · intro p h1 h2
      have hp' : p < axes.length := by simpa using h2
      have ha := hlt axes[p] (List.getElem_mem hp')
      simp [List.getD, ha, hnd.idxOf_getElem p hp', hL ▸ hp']
  · simp only [Arr.take, Arr.transpose, unpermR_map, outShape_map_sel] at hi ⊢
    have hi2 := all2_map_length L idx ((inRange_all2 _ _).mp hi)
    have hlen := hi2.length_eq
    rw [srcIdx_map_sel L idx hlen.symm, srcIdx_map_sel _ _ (by simp)]
    congr 1
    simp only [List.length_map, List.length_range, hn]
    apply List.ext_getElem
    · simp [gat]
    · intro m h1 h2
      have hm : m < axes.length := by simpa using h1
      simp only [List.getElem_map, List.getElem_range, gat_getD L idx _ hlen]
      simp [gat, List.getD]



def exT : List RIx := [.sel [2, 0], .sel [3, 1, 1], .sel [4, 0]]

example : isPerm [2, 0, 1] exArr.shape.length = true := by decide
example : unpermR [2, 0, 1] exT = [.sel [3, 1, 1], .sel [4, 0], .sel [2, 0]] := by decide
example : ((exArr.transpose [2, 0, 1]).take exT).toVal = ((exArr.take (unpermR [2, 0, 1] exT)).transpose [2, 0, 1]).toVal := by
  decide
example : ((exArr.transpose [2, 0, 1]).take exT).toVal = ([2, 3, 2], [59, 47, 29, 17, 29, 17, 57, 45, 27, 15, 27, 15]) := by
  decide

end Dask.ArrayExprNd
