import DaskModel.Model.BagOps
/-! Helper lemmas for C48: scans, accumulate with a carried value, slices by boundaries. -/
namespace Dask.BagOps

/-! ### accumulate -/

theorem scanl_ne_nil (f : β → α → β) (a : β) (xs : List α) : scanl f a xs ≠ [] := by
  cases xs <;> simp [scanl]

theorem scanl_append (f : β → α → β) (a : β) (xs ys : List α) :
    scanl f a (xs ++ ys) = scanl f a xs ++ (scanl f ((scanl f a xs).getLast (scanl_ne_nil f a xs)) ys).drop 1 := by
  induction xs generalizing a with
  | nil => cases ys <;> simp [scanl]
  | cons x xs ih =>
    simp only [List.cons_append, scanl]
    rw [ih (f a x)]
    simp [List.getLast_cons (scanl_ne_nil f (f a x) xs)]

theorem scanl_getLast? (f : β → α → β) (a : β) (xs : List α) :
    (scanl f a xs).getLast? = some ((scanl f a xs).getLast (scanl_ne_nil f a xs)) :=
  List.getLast?_eq_some_getLast (scanl_ne_nil f a xs)

/-- with a value carried in (`some a`), the partitions produced from `ps` concatenate to the scan of
    the concatenation, minus the carried value itself (which the previous partition already holds) -/
theorem accumulateGo_some (binop : α → α → α) (a : α) (ps : List (List α)) :
    (accumulateGo binop (some a) false ps).flatten = (scanl binop a ps.flatten).drop 1 := by
  induction ps generalizing a with
  | nil => simp [accumulateGo, scanl]
  | cons p ps ih =>
    simp only [accumulateGo, accumulatePart, Bool.false_eq_true, if_false, List.flatten_cons]
    rw [scanl_getLast?, ih, scanl_append]
    rw [List.drop_append_of_le_length]
    cases p <;> simp [scanl]

theorem accumulateGo_first_some (binop : α → α → α) (a : α) (ps : List (List α)) (hps : ps ≠ []) :
    (accumulateGo binop (some a) true ps).flatten = scanl binop a ps.flatten := by
  cases ps with
  | nil => exact absurd rfl hps
  | cons p ps =>
    simp only [accumulateGo, accumulatePart, if_true, List.flatten_cons]
    rw [scanl_getLast?, accumulateGo_some, scanl_append]

/-- without a carried value (`no_default`): empty partitions pass `no_default` on; the first non-empty
    partition starts the accumulation -/
theorem accumulateGo_none (binop : α → α → α) (isFirst : Bool) (ps : List (List α)) :
    (accumulateGo binop none isFirst ps).flatten = pyAccumulate binop none ps.flatten := by
  induction ps generalizing isFirst with
  | nil => simp [accumulateGo, pyAccumulate]
  | cons p ps ih =>
    cases p with
    | nil => simp [accumulateGo, accumulatePart, pyAccumulate, ih]
    | cons x xs =>
      simp only [accumulateGo, accumulatePart, pyAccumulate, List.flatten_cons, List.cons_append]
      rw [scanl_getLast?, accumulateGo_some, scanl_append]

/-! ### slices between boundaries -/

theorem fromBoundaries_flatten (b : Bag α) (lo : Nat) (bs : List Nat) (hs : (lo :: bs).Pairwise (· ≤ ·)) :
    (fromBoundaries b (lo :: bs)).flatten = ((b.drop lo).take ((lo :: bs).getLast (by simp) - lo)).flatten := by
  induction bs generalizing lo with
  | nil => simp [fromBoundaries]
  | cons hi rest ih =>
    have hle : lo ≤ hi := (List.pairwise_cons.mp hs).1 hi (by simp)
    have hs' := (List.pairwise_cons.mp hs).2
    have hlast : hi ≤ (hi :: rest).getLast (by simp) := by
      rcases List.mem_cons.mp (List.getLast_mem (l := hi :: rest) (by simp)) with h | h
      · omega
      · exact (List.pairwise_cons.mp hs').1 _ h
    simp only [fromBoundaries, List.flatten_cons]
    rw [ih hi hs', List.getLast_cons (a := lo) (l := hi :: rest) (by simp)]
    rw [← List.flatten_append]
    congr 1
    have h1 : b.drop hi = (b.drop lo).drop (hi - lo) := by rw [List.drop_drop]; congr 1; omega
    rw [h1, ← List.take_add]
    congr 1; omega

theorem fromBoundaries_length (b : Bag α) (bs : List Nat) : (fromBoundaries b bs).length = bs.length - 1 := by
  induction bs with
  | nil => rfl
  | cons lo rest ih =>
    cases rest with
    | nil => rfl
    | cons hi rest => simp only [fromBoundaries, List.length_cons] at ih ⊢; omega

/-! ### `split` with arbitrary cut points -/

theorem splitWith_flatten (c : Nat) (cuts : List Nat) (seq : List α) (hs : (c :: cuts).Pairwise (· ≤ ·)) :
    (splitWith (c :: cuts) seq).flatten = seq.drop c := by
  induction cuts generalizing c with
  | nil => simp [splitWith]
  | cons c' rest ih =>
    have hle : c ≤ c' := (List.pairwise_cons.mp hs).1 c' (by simp)
    simp only [splitWith, List.flatten_cons]
    rw [ih c' (List.pairwise_cons.mp hs).2]
    have : seq.drop c' = (seq.drop c).drop (c' - c) := by rw [List.drop_drop]; congr 1; omega
    rw [this, List.take_append_drop]

theorem splitWith_length (cuts : List Nat) (seq : List α) : (splitWith cuts seq).length = cuts.length := by
  induction cuts with
  | nil => rfl
  | cons c rest ih =>
    cases rest with
    | nil => rfl
    | cons c' rest => simp only [splitWith, List.length_cons] at ih ⊢; omega

end Dask.BagOps
