import DaskModel.Model.ArrayReduce
/-! Lemmas about `partitionAll` and the generic K1 theorem `treeReduce_eq_fold`. -/
namespace Dask.ArrayReduce

variable {α β γ : Type}

theorem partitionAll_nil (k : Nat) : partitionAll k ([] : List α) = [] := by
  simp [partitionAll]

theorem partitionAll_cons {k : Nat} (hk : k ≠ 0) (x : α) (xs : List α) :
    partitionAll k (x :: xs) = (x :: xs).take k :: partitionAll k ((x :: xs).drop k) := by
  rw [partitionAll]; simp [hk]

theorem partitionAll_zero (xs : List α) : partitionAll 0 xs = [] := by
  cases xs <;> simp [partitionAll]

/-- the groups concatenate back to the input -/
theorem flatten_partitionAll {k : Nat} (hk : k ≠ 0) (xs : List α) :
    (partitionAll k xs).flatten = xs := by
  fun_induction partitionAll k xs with
  | case1 => rfl
  | case2 x xs h => exact absurd h hk
  | case3 x xs h ih => simp [ih]

/-- no group is empty -/
theorem partitionAll_ne_nil {k : Nat} (xs : List α) : ∀ g ∈ partitionAll k xs, g ≠ [] := by
  fun_induction partitionAll k xs with
  | case1 => simp
  | case2 x xs h => simp
  | case3 x xs h ih =>
    intro g hg
    simp only [List.mem_cons] at hg
    rcases hg with rfl | hg
    · cases k with
      | zero => exact absurd rfl h
      | succ k => simp
    · exact ih g hg

/-- every group has at most `k` members -/
theorem partitionAll_length_le {k : Nat} (xs : List α) : ∀ g ∈ partitionAll k xs, g.length ≤ k := by
  fun_induction partitionAll k xs with
  | case1 => simp
  | case2 x xs h => simp
  | case3 x xs h ih =>
    intro g hg
    simp only [List.mem_cons] at hg
    rcases hg with rfl | hg
    · simp [List.length_take]; omega
    · exact ih g hg

theorem partitionAll_map {k : Nat} (f : α → β) (xs : List α) :
    partitionAll k (xs.map f) = (partitionAll k xs).map (List.map f) := by
  fun_induction partitionAll k xs with
  | case1 => simp [partitionAll_nil]
  | case2 x xs h => subst h; simp [partitionAll_zero]
  | case3 x xs h ih =>
    rw [List.map_cons, partitionAll_cons h, ← List.map_cons, ← List.map_take, ← List.map_drop, ih]
    simp

/-- `⌈n / k⌉ ≤ m` when `n ≤ m * k` -/
theorem length_partitionAll_le {k : Nat} (hk : k ≠ 0) (xs : List α) :
    ∀ m, xs.length ≤ m * k → (partitionAll k xs).length ≤ m := by
  fun_induction partitionAll k xs with
  | case1 => intro m _; simp
  | case2 x xs h => exact absurd h hk
  | case3 x xs h ih =>
    intro m hm
    cases m with
    | zero => simp at hm
    | succ m =>
      simp only [List.length_cons, Nat.add_le_add_iff_right]
      apply ih
      simp only [List.length_drop, List.length_cons] at hm ⊢
      rw [Nat.succ_mul] at hm
      omega

theorem partitionAll_of_length_le {k : Nat} (xs : List α) (hne : xs ≠ []) (h : xs.length ≤ k) :
    partitionAll k xs = [xs] := by
  cases xs with
  | nil => exact absurd rfl hne
  | cons x xs =>
    have hk : k ≠ 0 := by simp at h; omega
    rw [partitionAll_cons hk, List.take_of_length_le h, List.drop_of_length_le h, partitionAll_nil]

theorem length_partialReduce (f g : List β → γ) (k : Nat) (xs ys : List β) (h : xs.length = ys.length) :
    (partialReduce f k xs).length = (partialReduce g k ys).length := by
  unfold partialReduce
  simp only [List.length_map]
  have e1 := partitionAll_map (k := k) (fun _ => ()) xs
  have e2 := partitionAll_map (k := k) (fun _ => ()) ys
  have : xs.map (fun _ => ()) = ys.map (fun _ => ()) := by
    apply List.ext_getElem <;> simp [h]
  rw [this] at e1
  have := congrArg List.length (e1.symm.trans e2)
  simpa using this

/-- after `j` rounds at most `m` blocks are left when `n ≤ m * k ^ j` -/
theorem length_iter_partialReduce (f : List β → β) {k : Nat} (hk : k ≠ 0) :
    ∀ (j : Nat) (xs : List β) (m : Nat), xs.length ≤ m * k ^ j →
      (iter (partialReduce f k) j xs).length ≤ m := by
  intro j
  induction j with
  | zero => intro xs m h; simpa [iter] using h
  | succ j ih =>
    intro xs m h
    simp only [iter]
    apply ih
    unfold partialReduce
    rw [List.length_map]
    apply length_partitionAll_le hk
    rw [Nat.pow_succ] at h
    rw [Nat.mul_assoc]
    exact h

/-- The homomorphism hypothesis of K1 for a pair (`inner`, `outer`):
    reducing the partial results of non-empty groups = reducing everything at once. -/
def Hom (inner : List β → β) (outer : List β → γ) : Prop :=
  ∀ gs : List (List β), gs ≠ [] → (∀ g ∈ gs, g ≠ []) → outer (gs.map inner) = outer gs.flatten

/-- one `combine` round maps "partial results of a grouping of `xs`" to the same for a coarser grouping -/
theorem partialReduce_grouped (combine : List β → β) (Hc : Hom combine combine) {k : Nat} (hk : k ≠ 0)
    (gs : List (List β)) (hgs : ∀ g ∈ gs, g ≠ []) :
    ∃ gs' : List (List β), (∀ g ∈ gs', g ≠ []) ∧ gs'.flatten = gs.flatten ∧
      partialReduce combine k (gs.map combine) = gs'.map combine := by
  refine ⟨(partitionAll k gs).map List.flatten, ?_, ?_, ?_⟩
  · intro g hg
    simp only [List.mem_map] at hg
    obtain ⟨p, hp, rfl⟩ := hg
    have hpne := partitionAll_ne_nil gs p hp
    have hsub : ∀ q ∈ p, q ∈ gs := by
      intro q hq
      have : q ∈ (partitionAll k gs).flatten := List.mem_flatten.mpr ⟨p, hp, hq⟩
      rwa [flatten_partitionAll hk] at this
    cases p with
    | nil => exact absurd rfl hpne
    | cons q qs =>
      have := hgs q (hsub q (by simp))
      intro h
      simp only [List.flatten_cons, List.append_eq_nil_iff] at h
      exact this h.1
  · rw [← List.flatten_flatten, flatten_partitionAll hk]
  · unfold partialReduce
    rw [partitionAll_map, List.map_map, List.map_map]
    apply List.map_congr_left
    intro p hp
    simp only [Function.comp]
    have hsub : ∀ q ∈ p, q ∈ gs := by
      intro q hq
      have : q ∈ (partitionAll k gs).flatten := List.mem_flatten.mpr ⟨p, hp, hq⟩
      rwa [flatten_partitionAll hk] at this
    exact Hc p (partitionAll_ne_nil gs p hp) (fun q hq => hgs q (hsub q hq))

theorem iter_grouped (combine : List β → β) (Hc : Hom combine combine) {k : Nat} (hk : k ≠ 0) :
    ∀ (j : Nat) (gs : List (List β)), (∀ g ∈ gs, g ≠ []) →
    ∃ gs' : List (List β), (∀ g ∈ gs', g ≠ []) ∧ gs'.flatten = gs.flatten ∧
      iter (partialReduce combine k) j (gs.map combine) = gs'.map combine := by
  intro j
  induction j with
  | zero => intro gs hgs; exact ⟨gs, hgs, rfl, rfl⟩
  | succ j ih =>
    intro gs hgs
    obtain ⟨gs1, h1, hf1, he1⟩ := partialReduce_grouped combine Hc hk gs hgs
    obtain ⟨gs2, h2, hf2, he2⟩ := ih gs1 h1
    exact ⟨gs2, h2, hf2.trans hf1, by simp only [iter]; rw [he1, he2]⟩

/-- **K1** `treeReduce_eq_fold`: if `combine` (and `aggregate` over `combine`) are homomorphisms on
    concatenation, then for every non-empty block list, every group size `k` and every depth with
    `n ≤ k ^ depth` the tree reduction yields exactly one block, `aggregate` of the flat list —
    in particular it does not depend on `k` (`split_every`) or on `depth`. -/
theorem treeReduce_eq_fold (combine : List β → β) (aggregate : List β → γ)
    (Hc : Hom combine combine) (Ha : Hom combine aggregate)
    (k depth : Nat) (hk : k ≠ 0) (xs : List β) (hne : xs ≠ []) (hd : xs.length ≤ k ^ depth) :
    treeReduce combine aggregate k depth xs = [aggregate xs] := by
  have hk1 : 1 ≤ k := Nat.pos_of_ne_zero hk
  unfold treeReduce
  cases hj : depth - 1 with
  | zero =>
    have hle : xs.length ≤ k := by
      cases depth with
      | zero => simp at hd; omega
      | succ d => have : d = 0 := by omega
                  subst this; simpa using hd
    simp only [iter, partialReduce]
    rw [partitionAll_of_length_le xs hne hle]; rfl
  | succ j =>
    have hdep : depth = j + 2 := by omega
    subst hdep
    simp only [iter]
    -- first round
    have hfirst : partialReduce combine k xs = (partitionAll k xs).map combine := rfl
    obtain ⟨gs, hgs, hfl, heq⟩ := iter_grouped combine Hc hk j (partitionAll k xs) (partitionAll_ne_nil xs)
    rw [hfirst, heq]
    rw [flatten_partitionAll hk] at hfl
    have hgne : gs ≠ [] := by
      intro h; subst h; simp at hfl; first | exact hne hfl | exact hne hfl.symm
    have hlen : (gs.map combine).length ≤ k := by
      rw [← heq]
      apply length_iter_partialReduce combine hk
      rw [List.length_map]
      apply length_partitionAll_le hk
      calc xs.length ≤ k ^ (j + 2) := hd
        _ = k * k ^ j * k := by rw [Nat.pow_succ, Nat.pow_succ]; simp [Nat.mul_comm]
    simp only [partialReduce]
    rw [partitionAll_of_length_le _ (by simpa using hgne) hlen]
    simp only [List.map_cons, List.map_nil]
    rw [Ha gs hgne hgs, hfl]


/-! ## Generic instances of `Hom` -/

variable {β : Type}

/-- fold of a non-empty list over a semigroup (`d` is returned for `[]`, which never occurs in a tree) -/
def sfold (op : β → β → β) (d : β) : List β → β
  | [] => d
  | x :: xs => xs.foldl op x

theorem foldl_assoc (op : β → β → β) (assoc : ∀ a b c, op (op a b) c = op a (op b c)) :
    ∀ (ys : List β) (a b : β), ys.foldl op (op a b) = op a (ys.foldl op b) := by
  intro ys
  induction ys with
  | nil => intro a b; rfl
  | cons y ys ih => intro a b; simp only [List.foldl_cons]; rw [assoc, ih]

theorem sfold_append (op : β → β → β) (d : β) (assoc : ∀ a b c, op (op a b) c = op a (op b c))
    (xs ys : List β) (hx : xs ≠ []) (hy : ys ≠ []) :
    sfold op d (xs ++ ys) = op (sfold op d xs) (sfold op d ys) := by
  cases xs with
  | nil => exact absurd rfl hx
  | cons x xs =>
    cases ys with
    | nil => exact absurd rfl hy
    | cons y ys =>
      simp only [sfold, List.cons_append, List.foldl_append, List.foldl_cons]
      exact foldl_assoc op assoc ys _ y

theorem flatten_ne_nil_of {gs : List (List β)} (hne : gs ≠ []) (h : ∀ g ∈ gs, g ≠ []) : gs.flatten ≠ [] := by
  cases gs with
  | nil => exact absurd rfl hne
  | cons g gs =>
    have := h g (by simp)
    intro hf
    simp only [List.flatten_cons, List.append_eq_nil_iff] at hf
    exact this hf.1

/-- a semigroup fold is a homomorphism on concatenation of non-empty groups -/
theorem hom_sfold (op : β → β → β) (d : β) (assoc : ∀ a b c, op (op a b) c = op a (op b c)) :
    Hom (sfold op d) (sfold op d) := by
  intro gs
  induction gs with
  | nil => intro h; exact absurd rfl h
  | cons g gs ih =>
    intro _ hall
    have hg : g ≠ [] := hall g (by simp)
    cases gs with
    | nil => simp [sfold]
    | cons g' rest =>
      have hall' : ∀ q ∈ g' :: rest, q ≠ [] := fun q hq => hall q (by simp [hq])
      have ih' := ih (by simp) hall'
      have e1 : (g :: g' :: rest).map (sfold op d) = [sfold op d g] ++ (g' :: rest).map (sfold op d) := rfl
      have e2 : (g :: g' :: rest).flatten = g ++ (g' :: rest).flatten := rfl
      rw [e1, sfold_append op d assoc _ _ (by simp) (by simp), ih', e2,
        sfold_append op d assoc g _ hg (flatten_ne_nil_of (by simp) hall')]
      rfl

structure IsMonoid (op : β → β → β) (e : β) : Prop where
  assoc : ∀ a b c, op (op a b) c = op a (op b c)
  id_left : ∀ a, op e a = a
  id_right : ∀ a, op a e = a

theorem foldr_eq_sfold {op : β → β → β} {e : β} (h : IsMonoid op e) (xs : List β) :
    xs.foldr op e = sfold op e xs := by
  cases xs with
  | nil => rfl
  | cons x xs =>
    simp only [sfold, List.foldr_cons]
    induction xs generalizing x with
    | nil => simp [h.id_right]
    | cons y ys ih =>
      simp only [List.foldr_cons, List.foldl_cons]
      rw [ih y, foldl_assoc op h.assoc]

/-- a monoid fold (`foldr op e`) is a homomorphism on concatenation -/
theorem hom_monoid {op : β → β → β} {e : β} (h : IsMonoid op e) :
    Hom (fun xs => xs.foldr op e) (fun xs => xs.foldr op e) := by
  intro gs hne hall
  have : (fun xs : List β => xs.foldr op e) = sfold op e := funext (foldr_eq_sfold h)
  rw [this]
  exact hom_sfold op e h.assoc gs hne hall

end Dask.ArrayReduce
