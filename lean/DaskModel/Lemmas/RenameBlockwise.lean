import DaskModel.Lemmas.RenameBind
/-! C16, `Blockwise.clone` (review round): the whole rewrite (`blockwiseClone`): which names the rewritten layer refers
    to, and that this is exactly the dependency set `_bind_one` records (`newDepOf`). -/
namespace Dask.TaskTerm

/-! ### `Blockwise.clone` -/

theorem blockwiseClone_bound (names : List Obj) (ρ : Obj → Obj) (bindTo : Option Obj) (L : BwLayer) :
    (blockwiseClone names ρ bindTo L).2 = (bindTo.isSome && blockwiseLeaf names L.indices L.numblocks) := by
  unfold blockwiseClone
  cases bindTo with
  | none => rfl
  | some b => by_cases h : blockwiseLeaf names L.indices L.numblocks = true <;> simp [h]

theorem blockwiseClone_indices (names : List Obj) (ρ : Obj → Obj) (bindTo : Option Obj) (L : BwLayer) :
    (blockwiseClone names ρ bindTo L).1.indices =
      L.indices.map (bwRenameArg names ρ) ++
        (match bindTo with
         | some b => if blockwiseLeaf names L.indices L.numblocks then [BwArg.ref b] else []
         | none => []) := by
  unfold blockwiseClone
  cases bindTo with
  | none => simp
  | some b => by_cases h : blockwiseLeaf names L.indices L.numblocks = true <;> simp [h]

theorem blockwiseClone_output (names : List Obj) (ρ : Obj → Obj) (bindTo : Option Obj) (L : BwLayer) :
    (blockwiseClone names ρ bindTo L).1.output = ρ L.output ∧ (blockwiseClone names ρ bindTo L).1.taskKey = ρ L.taskKey := by
  unfold blockwiseClone
  cases bindTo with
  | none => exact ⟨rfl, rfl⟩
  | some b => by_cases h : blockwiseLeaf names L.indices L.numblocks = true <;> simp [h]

theorem blockwiseClone_numblocks (names : List Obj) (ρ : Obj → Obj) (bindTo : Option Obj) (L : BwLayer) :
    (blockwiseClone names ρ bindTo L).1.numblocks = L.numblocks.map fun k => if names.contains k then ρ k else k := by
  unfold blockwiseClone
  cases bindTo with
  | none => rfl
  | some b => by_cases h : blockwiseLeaf names L.indices L.numblocks = true <;> simp [h]

/-- the wrapper task reads exactly the appended blocker argument: `blockwise_token(len(indices))` -/
theorem blockwiseClone_wrapped (names : List Obj) (ρ : Obj → Obj) (bindTo : Option Obj) (L : BwLayer) :
    (blockwiseClone names ρ bindTo L).1.wrapped =
      if (blockwiseClone names ρ bindTo L).2 then some L.indices.length else none := by
  unfold blockwiseClone
  cases bindTo with
  | none => rfl
  | some b => by_cases h : blockwiseLeaf names L.indices L.numblocks = true <;> simp [h]

theorem mem_argRefs {x : Obj} : ∀ {idx : List BwArg}, x ∈ argRefs idx ↔ BwArg.name x ∈ idx ∨ BwArg.ref x ∈ idx
  | [] => by simp [argRefs]
  | .name k :: rest => by
    simp only [argRefs, List.mem_cons, mem_argRefs (idx := rest)]
    constructor
    · rintro (rfl | h | h)
      · exact Or.inl (Or.inl rfl)
      · exact Or.inl (Or.inr h)
      · exact Or.inr (Or.inr h)
    · rintro ((h | h) | (h | h))
      · cases h; exact Or.inl rfl
      · exact Or.inr (Or.inl h)
      · cases h
      · exact Or.inr (Or.inr h)
  | .ref k :: rest => by
    simp only [argRefs, List.mem_cons, mem_argRefs (idx := rest)]
    constructor
    · rintro (rfl | h | h)
      · exact Or.inr (Or.inl rfl)
      · exact Or.inl (Or.inr h)
      · exact Or.inr (Or.inr h)
    · rintro ((h | h) | (h | h))
      · cases h
      · exact Or.inr (Or.inl h)
      · cases h; exact Or.inl rfl
      · exact Or.inr (Or.inr h)
  | .other :: rest => by
    simp only [argRefs, List.mem_cons, mem_argRefs (idx := rest)]
    constructor
    · rintro (h | h)
      · exact Or.inl (Or.inr h)
      · exact Or.inr (Or.inr h)
    · rintro ((h | h) | (h | h))
      · cases h
      · exact Or.inl h
      · cases h
      · exact Or.inr h

theorem argRefs_append (a b : List BwArg) : argRefs (a ++ b) = argRefs a ++ argRefs b := by
  induction a with
  | nil => rfl
  | cons x xs ih => cases x <;> simp [argRefs, ih]

theorem argRefs_rename (names : List Obj) (ρ : Obj → Obj) : ∀ idx : List BwArg,
    argRefs (idx.map (bwRenameArg names ρ)) = (argRefs idx).map fun k => if names.contains k then ρ k else k
  | [] => rfl
  | .name k :: rest => by
    simp only [List.map_cons, bwRenameArg]
    split <;> simp_all [argRefs, argRefs_rename names ρ rest]
  | .ref k :: rest => by
    simp only [List.map_cons, bwRenameArg]
    split <;> simp_all [argRefs, argRefs_rename names ρ rest]
  | .other :: rest => by
    simp only [List.map_cons, bwRenameArg, argRefs, argRefs_rename names ρ rest]

/-- **the names the rewritten layer refers to**: the regenerated name of every referenced input that is regenerated,
    the other inputs under their own names, and the blocker iff the layer was bound -/
theorem mem_argRefs_clone (names : List Obj) (ρ : Obj → Obj) (bindTo : Option Obj) (L : BwLayer) (x : Obj) :
    x ∈ argRefs (blockwiseClone names ρ bindTo L).1.indices ↔
      (∃ k ∈ argRefs L.indices, k ∈ names ∧ x = ρ k) ∨ (x ∈ argRefs L.indices ∧ x ∉ names) ∨
      ((blockwiseClone names ρ bindTo L).2 = true ∧ bindTo = some x) := by
  rw [blockwiseClone_indices, argRefs_append, List.mem_append, argRefs_rename, blockwiseClone_bound]
  simp only [List.mem_map]
  constructor
  · rintro (⟨k, hk, rfl⟩ | h)
    · by_cases hn : k ∈ names
      · exact Or.inl ⟨k, hk, hn, by simp [hn]⟩
      · exact Or.inr (Or.inl ⟨by simpa [hn] using hk, by simp [hn]⟩)
    · right; right
      cases bindTo with
      | none => simp [argRefs] at h
      | some b =>
        by_cases hl : blockwiseLeaf names L.indices L.numblocks = true
        · simp [hl, argRefs] at h; subst h; simp [hl]
        · simp [hl, argRefs] at h
  · rintro (⟨k, hk, hn, rfl⟩ | ⟨hx, hn⟩ | ⟨hb, rfl⟩)
    · exact Or.inl ⟨k, hk, by simp [hn]⟩
    · exact Or.inl ⟨x, hx, by simp [hn]⟩
    · right
      simp only [Option.isSome_some, Bool.true_and] at hb
      simp [hb, argRefs]

/-- **consistency with `_bind_one`'s dependency map**: if the layer's inputs are regenerated exactly when they are not
    omitted (`names` ↔ not in `omit_layers`, which is how `_bind_one` computes `clone_keys`), the rewritten layer refers
    to exactly the names `_bind_one` records as the new layer's dependencies (`newDepOf`, with `is_bound` = the flag
    `Blockwise.clone` returns) -/
theorem blockwiseClone_refs_eq_newDep (names om : List Obj) (ρ : Obj → Obj) (bindTo : Option Obj) (L : BwLayer)
    (hn : ∀ d ∈ argRefs L.indices, d ∈ names ↔ d ∉ om) (x : Obj) :
    x ∈ argRefs (blockwiseClone names ρ bindTo L).1.indices ↔
      x ∈ newDepOf ρ om bindTo (argRefs L.indices) (blockwiseLeaf names L.indices L.numblocks) := by
  rw [mem_argRefs_clone, mem_newDepOf, blockwiseClone_bound]
  constructor
  · rintro (⟨k, hk, hkn, rfl⟩ | ⟨hx, hxn⟩ | ⟨hb, hbt⟩)
    · exact Or.inl ⟨k, hk, (hn k hk).mp hkn, rfl⟩
    · refine Or.inr (Or.inl ⟨hx, ?_⟩)
      cases Classical.em (x ∈ om) with
      | inl h => exact h
      | inr h => exact absurd ((hn x hx).mpr h) hxn
    · subst hbt
      exact Or.inr (Or.inr ⟨by simpa using hb, rfl⟩)
  · rintro (⟨k, hk, hko, rfl⟩ | ⟨hx, hxo⟩ | ⟨hl, hbt⟩)
    · exact Or.inl ⟨k, hk, (hn k hk).mpr hko, rfl⟩
    · exact Or.inr (Or.inl ⟨hx, fun h => ((hn x hx).mp h) hxo⟩)
    · subst hbt
      exact Or.inr (Or.inr ⟨by simp [hl], rfl⟩)

/-- **the rewritten layer refers to the regenerated name of an input iff that input is regenerated** (`clone_key`
    injective on the layer's inputs and fresh), and it keeps referring to an input under its own name iff that input is
    not regenerated -/
theorem blockwiseClone_refers_regenerated_iff (names : List Obj) (ρ : Obj → Obj) (bindTo : Option Obj) (L : BwLayer) {k : Obj}
    (hk : k ∈ argRefs L.indices)
    (hfresh : ∀ a ∈ argRefs L.indices, ρ a ∉ argRefs L.indices ∧ bindTo ≠ some (ρ a) ∧ bindTo ≠ some a)
    (hinj : ∀ a ∈ argRefs L.indices, ∀ b ∈ argRefs L.indices, ρ a = ρ b → a = b) :
    (ρ k ∈ argRefs (blockwiseClone names ρ bindTo L).1.indices ↔ k ∈ names) ∧
    (k ∈ argRefs (blockwiseClone names ρ bindTo L).1.indices ↔ k ∉ names) := by
  constructor
  · rw [mem_argRefs_clone]
    constructor
    · rintro (⟨k', hk', hk'n, e⟩ | ⟨hx, _⟩ | ⟨_, hb⟩)
      · rw [hinj k hk k' hk' e]; exact hk'n
      · exact absurd hx (hfresh k hk).1
      · exact absurd hb (hfresh k hk).2.1
    · intro hkn
      exact Or.inl ⟨k, hk, hkn, rfl⟩
  · rw [mem_argRefs_clone]
    constructor
    · rintro (⟨k', hk', _, e⟩ | ⟨_, hxn⟩ | ⟨_, hb⟩)
      · exact absurd (e ▸ hk) (hfresh k' hk').1
      · exact hxn
      · exact absurd hb (hfresh k hk).2.2
    · intro hkn
      exact Or.inr (Or.inl ⟨hk, hkn⟩)

end Dask.TaskTerm
