import DaskModel.Model.CoarsenAlign
import DaskModel.Lemmas.CountingLemmas
/-! Helper lemmas for C27: `aligned_coarsen_chunks` and block-by-block coarsening. -/
namespace Dask.Counting
open Dask.Chunks

/-! ### addAt / bumpAll -/

theorem addAt_length (m : Nat) : ∀ (i : Nat) (l : List Nat), (addAt m i l).length = l.length
  | i, [] => by cases i <;> rfl
  | 0, _ :: _ => rfl
  | i + 1, x :: xs => by simp [addAt, addAt_length m i xs]

theorem addAt_sum (m : Nat) : ∀ (i : Nat) (l : List Nat), i < l.length → sum (addAt m i l) = sum l + m
  | _, [], h => by simp at h
  | 0, x :: xs, _ => by simp only [addAt, sum_cons]; omega
  | i + 1, x :: xs, h => by
    have := addAt_sum m i xs (by simpa using h)
    simp only [addAt, sum_cons, this]; omega

theorem addAt_dvd (m : Nat) : ∀ (i : Nat) (l : List Nat), (∀ x ∈ l, m ∣ x) → ∀ x ∈ addAt m i l, m ∣ x
  | _, [], _ => by simp [addAt]
  | 0, y :: ys, h => by
    intro x hx
    simp only [addAt, List.mem_cons] at hx
    rcases hx with hx | hx
    · subst hx; exact (Nat.dvd_add_right (h y (by simp))).2 (Nat.dvd_refl m)
    · exact h x (by simp [hx])
  | i + 1, y :: ys, h => by
    intro x hx
    simp only [addAt, List.mem_cons] at hx
    rcases hx with hx | hx
    · subst hx; exact h x (by simp)
    · exact addAt_dvd m i ys (fun z hz => h z (by simp [hz])) x hx

theorem bumpAll_spec (m : Nat) : ∀ (is new : List Nat), (∀ i ∈ is, i < new.length) → (∀ x ∈ new, m ∣ x) →
    ∃ r, bumpAll m is new = some r ∧ r.length = new.length ∧ sum r = sum new + is.length * m ∧ ∀ x ∈ r, m ∣ x
  | [], new, _, hd => ⟨new, rfl, rfl, by simp, hd⟩
  | i :: is, new, hi, hd => by
    have h0 : i < new.length := hi i (by simp)
    obtain ⟨r, h1, h2, h3, h4⟩ := bumpAll_spec m is (addAt m i new)
      (fun j hj => by rw [addAt_length]; exact hi j (by simp [hj])) (addAt_dvd m i new hd)
    refine ⟨r, by simp [bumpAll, h0, h1], by rw [h2, addAt_length], ?_, h4⟩
    rw [h3, addAt_sum m i new h0, List.length_cons, Nat.succ_mul]; omega

/-! ### floorChunks / excess -/

theorem floorChunks_dvd (m : Nat) (cs : List Nat) : ∀ x ∈ floorChunks m cs, m ∣ x := by
  intro x hx
  simp only [floorChunks, List.mem_map] at hx
  obtain ⟨c, _, rfl⟩ := hx
  exact ⟨c / m, by have := Nat.div_add_mod c m; omega⟩

theorem floor_add_excess (m : Nat) : ∀ (cs : List Nat), sum (floorChunks m cs) + excessOf m cs = sum cs
  | [] => rfl
  | c :: cs => by
    have ih := floor_add_excess m cs
    simp only [floorChunks, excessOf, overflowOf, List.map_cons, sum_cons] at ih ⊢
    have := Nat.mod_le c m
    omega

theorem excess_le (m : Nat) (hm : 0 < m) : ∀ (cs : List Nat), excessOf m cs ≤ m * cs.length
  | [] => by simp [excessOf, overflowOf, sum]
  | c :: cs => by
    have ih := excess_le m hm cs
    simp only [excessOf, overflowOf, List.map_cons, sum_cons, List.length_cons] at ih ⊢
    have := Nat.mod_lt c hm
    rw [Nat.mul_succ]; omega

theorem dvd_sum_of_all {m : Nat} : ∀ {l : List Nat}, (∀ x ∈ l, m ∣ x) → m ∣ sum l
  | [], _ => ⟨0, rfl⟩
  | x :: xs, h => by
    rw [sum_cons]
    exact (Nat.dvd_add_right (h x (by simp))).2 (dvd_sum_of_all (fun z hz => h z (by simp [hz])))

theorem excess_mod (m : Nat) (cs : List Nat) : excessOf m cs % m = sum cs % m := by
  obtain ⟨q, hq⟩ := dvd_sum_of_all (floorChunks_dvd m cs)
  rw [← floor_add_excess m cs, hq, Nat.mul_add_mod]

/-! ### the modification order is a list of in-range indices, one per chunk -/

theorem mem_insertByKey (key : Nat → Nat) (i x : Nat) : ∀ (l : List Nat), x ∈ insertByKey key i l ↔ x = i ∨ x ∈ l
  | [] => by simp [insertByKey]
  | j :: js => by
    unfold insertByKey
    split
    · simp
    · simp only [List.mem_cons, mem_insertByKey key i x js]
      constructor <;> intro h <;> rcases h with h | h | h <;> simp [h]

theorem length_insertByKey (key : Nat → Nat) (i : Nat) : ∀ (l : List Nat), (insertByKey key i l).length = l.length + 1
  | [] => rfl
  | j :: js => by
    unfold insertByKey
    split
    · simp
    · simp [length_insertByKey key i js]

theorem mem_argsortBy (key : Nat → Nat) (x : Nat) : ∀ (l : List Nat), x ∈ argsortBy key l ↔ x ∈ l
  | [] => by simp [argsortBy]
  | a :: l => by
    have ih := mem_argsortBy key x l
    unfold argsortBy at *
    simp only [List.foldr_cons, mem_insertByKey, ih, List.mem_cons]

theorem length_argsortBy (key : Nat → Nat) : ∀ (l : List Nat), (argsortBy key l).length = l.length
  | [] => rfl
  | a :: l => by
    have ih := length_argsortBy key l
    unfold argsortBy at *
    simp only [List.foldr_cons, length_insertByKey, ih, List.length_cons]

theorem filter_split_length {α} (p : α → Bool) : ∀ (l : List α), (l.filter p).length + (l.filter (fun x => !p x)).length = l.length
  | [] => rfl
  | a :: l => by
    have ih := filter_split_length p l
    cases h : p a <;> simp [h] <;> omega

theorem modificationOrder_lt (m : Nat) (cs : List Nat) : ∀ i ∈ modificationOrder m cs, i < cs.length := by
  intro i hi
  simp only [modificationOrder, List.mem_append, mem_argsortBy, invalidInds, validInds, List.mem_filter, List.mem_range] at hi
  rcases hi with h | h <;> exact h.1

theorem modificationOrder_length (m : Nat) (cs : List Nat) : (modificationOrder m cs).length = cs.length := by
  simp only [modificationOrder, List.length_append, length_argsortBy, invalidInds, validInds]
  have := filter_split_length (fun i => cs.getD i 0 % m != 0) (List.range cs.length)
  have e : (fun i => cs.getD i 0 % m == 0) = (fun i => !(cs.getD i 0 % m != 0)) := by
    funext i; cases h : (cs.getD i 0 % m == 0) <;> simp_all [bne]
  rw [e]; simpa using this

/-! ### aligned_coarsen_chunks: what it guarantees -/

theorem filter_pos_sum : ∀ (l : List Nat), sum (l.filter (fun c => decide (0 < c))) = sum l
  | [] => rfl
  | x :: xs => by
    have ih := filter_pos_sum xs
    by_cases h : 0 < x
    · simp [h, sum_cons, ih]
    · have : x = 0 := by omega
      subst this; simp [sum_cons, ih]

/-- the stable argsort order is valid; so is every permutation of the chunk indices (any argsort) -/
theorem modificationOrder_valid (cs : List Nat) (m : Nat) (hm : 0 < m) : ValidOrder (modificationOrder m cs) cs m :=
  ⟨modificationOrder_lt m cs, by rw [modificationOrder_length]; exact Nat.div_le_of_le_mul (excess_le m hm cs)⟩

theorem perm_validOrder (order cs : List Nat) (m : Nat) (hm : 0 < m) (hp : order.Perm (List.range cs.length)) :
    ValidOrder order cs m :=
  ⟨fun i hi => by simpa using (hp.mem_iff.1 hi),
   by rw [hp.length_eq, List.length_range]; exact Nat.div_le_of_le_mul (excess_le m hm cs)⟩

/-- the raw result of the loop, before the `or (0,)`: positive multiples of `m`, then the remainder -/
theorem aligned_raw (order : List Nat) (cs : List Nat) (m : Nat) (hm : 0 < m) (hv : ValidOrder order cs m) :
    ∃ body, alignedCoarsenChunksWith order cs m =
        some (if (body ++ (if sum cs % m = 0 then [] else [sum cs % m])).isEmpty then [0]
              else body ++ (if sum cs % m = 0 then [] else [sum cs % m]))
      ∧ (∀ c ∈ body, 0 < c ∧ m ∣ c) ∧ sum body + sum cs % m = sum cs := by
  have hk : excessOf m cs / m ≤ order.length := hv.2
  have hfl : (floorChunks m cs).length = cs.length := by simp [floorChunks]
  obtain ⟨new, h1, _, h3, h4⟩ := bumpAll_spec m (order.take (excessOf m cs / m)) (floorChunks m cs)
    (fun i hi => by rw [hfl]; exact hv.1 i (List.mem_of_mem_take hi)) (floorChunks_dvd m cs)
  refine ⟨new.filter (fun c => decide (0 < c)), ?_, ?_, ?_⟩
  · unfold alignedCoarsenChunksWith
    rw [if_neg (by omega), if_neg (by omega)]
    simp only [h1, excess_mod]
    have e : (new ++ (if sum cs % m = 0 then [] else [sum cs % m])).filter (fun c => decide (0 < c))
        = new.filter (fun c => decide (0 < c)) ++ (if sum cs % m = 0 then [] else [sum cs % m]) := by
      rw [List.filter_append]
      congr 1
      by_cases hr : sum cs % m = 0
      · simp [hr]
      · have : 0 < sum cs % m := by omega
        simp [hr, this]
    rw [e]
  · intro c hc
    rw [List.mem_filter] at hc
    exact ⟨by simpa using hc.2, h4 c hc.1⟩
  · rw [filter_pos_sum, h3, List.length_take, Nat.min_eq_left hk, ← excess_mod]
    have := floor_add_excess m cs
    have := Nat.div_add_mod (excessOf m cs) m
    rw [Nat.mul_comm] at this
    omega

/-- **the post-condition of `aligned_coarsen_chunks`** for every chunk tuple (zeros allowed) and every positive
    multiple: it never raises; the result is a body of multiples of `m` followed by exactly the remainder
    `total % m` (when non-zero); same total; the body is positive, except that a zero-length axis gives `(0,)`. -/
theorem aligned_spec (order : List Nat) (cs : List Nat) (m : Nat) (hm : 0 < m) (hv : ValidOrder order cs m) :
    ∃ body, alignedCoarsenChunksWith order cs m = some (body ++ (if sum cs % m = 0 then [] else [sum cs % m]))
      ∧ (∀ c ∈ body, m ∣ c) ∧ sum body + sum cs % m = sum cs
      ∧ ((sum cs ≠ 0 ∧ ∀ c ∈ body, 0 < c) ∨ (sum cs = 0 ∧ body = [0])) := by
  obtain ⟨body, h1, h2, h3⟩ := aligned_raw order cs m hm hv
  by_cases h0 : sum cs = 0
  · -- nothing but zero-length chunks
    have hb : body = [] := by
      cases body with
      | nil => rfl
      | cons b bs =>
        have := (h2 b (by simp)).1
        rw [sum_cons] at h3; omega
    subst hb
    refine ⟨[0], ?_, ?_, ?_, Or.inr ⟨h0, rfl⟩⟩
    · rw [h1]; simp [h0]
    · intro c hc; simp at hc; subst hc; exact ⟨0, rfl⟩
    · rw [h0, Nat.zero_mod]; rfl
  · refine ⟨body, ?_, fun c hc => (h2 c hc).2, h3, Or.inl ⟨h0, fun c hc => (h2 c hc).1⟩⟩
    rw [h1]
    have hne : (body ++ (if sum cs % m = 0 then [] else [sum cs % m])).isEmpty = false := by
      cases body with
      | nil =>
        have : sum cs % m ≠ 0 := by
          intro h
          have e0 : sum ([] : List Nat) = 0 := rfl
          rw [e0] at h3; omega
        simp [this]
      | cons b bs => rfl
    rw [hne]; rfl

/-- chunks that are already positive multiples of `m` are returned unchanged (so `da.coarsen` does not rechunk) -/
theorem aligned_fixpoint (order : List Nat) (cs : List Nat) (m : Nat) (hm : 0 < m) (hne : cs ≠ []) (h : ∀ c ∈ cs, 0 < c ∧ m ∣ c) :
    alignedCoarsenChunksWith order cs m = some cs := by
  have hov : ∀ (l : List Nat), (∀ c ∈ l, 0 < c ∧ m ∣ c) → excessOf m l = 0 ∧ floorChunks m l = l := by
    intro l
    induction l with
    | nil => intro _; exact ⟨rfl, rfl⟩
    | cons c l ih =>
      intro hl
      obtain ⟨e1, e2⟩ := ih (fun z hz => hl z (by simp [hz]))
      have hc := Nat.mod_eq_zero_of_dvd (hl c (by simp)).2
      simp only [excessOf, overflowOf, floorChunks, List.map_cons, sum_cons] at e1 e2 ⊢
      exact ⟨by omega, by rw [e2, hc]; rfl⟩
  obtain ⟨e1, e2⟩ := hov cs h
  have hf : cs.filter (fun c => decide (0 < c)) = cs := by
    rw [List.filter_eq_self]
    intro c hc
    simpa using (h c hc).1
  unfold alignedCoarsenChunksWith
  rw [if_neg (by omega)]
  simp only [e1, e2, Nat.zero_div, Nat.zero_mod, List.take_zero, bumpAll, Nat.not_lt_zero, if_false, if_true, List.append_nil, hf]
  cases cs with
  | nil => exact absurd rfl hne
  | cons c cs => rfl

/-! ### block-by-block coarsening -/

theorem coarsenBlock_length {α β} (f : List α → β) (d : Nat) (xs : List α) : (coarsenBlock f d xs).length = xs.length / d := by
  have : ∀ (k : Nat) (l : List α), (windows d k l).length = k := by
    intro k
    induction k with
    | zero => intro l; rfl
    | succ k ih => intro l; simp [windows, ih]
  simp [coarsenBlock, this]

/-- a block whose length is a multiple of the factor can be split off -/
theorem coarsenBlock_append {α β} (f : List α → β) (d : Nat) (hd : 0 < d) (b rest : List α) (h : d ∣ b.length) :
    coarsenBlock f d (b ++ rest) = coarsenBlock f d b ++ coarsenBlock f d rest := by
  obtain ⟨k, hk⟩ := h
  unfold coarsenBlock
  have hlen : (b ++ rest).length / d = k + rest.length / d := by
    rw [List.length_append, hk, Nat.add_comm, Nat.add_mul_div_left _ _ hd, Nat.add_comm]
  have hb : b.length / d = k := by rw [hk, Nat.mul_div_cancel_left _ hd]
  rw [hlen, hb, windows_append d k _ b rest (by rw [hk, Nat.mul_comm]), List.map_append]

/-- every length but the last is a multiple of `d` -/
def AlignedLens (d : Nat) : List Nat → Prop
  | [] => True
  | [_] => True
  | c :: c' :: cs => d ∣ c ∧ AlignedLens d (c' :: cs)

theorem coarsen_den_ragged {α β} (f : List α → β) (d : Nat) (hd : 0 < d) : ∀ (bs : List (List α)),
    AlignedLens d (bs.map List.length) → coarsenChunked f d bs = coarsenBlock f d bs.flatten
  | [], _ => by simp [coarsenChunked, coarsenBlock, windows]
  | [b], _ => by simp [coarsenChunked]
  | b :: b' :: bs, h => by
    have ih := coarsen_den_ragged f d hd (b' :: bs) h.2
    unfold coarsenChunked at ih ⊢
    rw [List.map_cons, List.flatten_cons, ih, List.flatten_cons (l := b), coarsenBlock_append f d hd b _ h.1]

theorem alignedLens_append (d : Nat) : ∀ (body tail : List Nat), (∀ c ∈ body, d ∣ c) → tail.length ≤ 1 → AlignedLens d (body ++ tail)
  | [], [], _, _ => trivial
  | [], [_], _, _ => trivial
  | [], _ :: _ :: _, _, h => by simp at h
  | [c], [], _, _ => trivial
  | [c], [t], h, _ => ⟨h c (by simp), trivial⟩
  | [c], _ :: _ :: _, _, h => by simp at h
  | c :: c' :: body, tail, h, ht =>
    ⟨h c (by simp), alignedLens_append d (c' :: body) tail (fun z hz => h z (by simp [hz])) ht⟩

theorem splitBy_lengths {α} : ∀ (cs : List Nat) (xs : List α), xs.length = sum cs → (splitBy cs xs).map List.length = cs
  | [], _, _ => rfl
  | c :: cs, xs, h => by
    rw [sum_cons] at h
    simp only [splitBy, List.map_cons, List.length_take]
    rw [splitBy_lengths cs (xs.drop c) (by simp; omega)]
    congr 1; omega

theorem splitBy_flatten' {α} : ∀ (cs : List Nat) (xs : List α), xs.length = sum cs → (splitBy cs xs).flatten = xs
  | [], xs, h => by
    have : xs = [] := List.eq_nil_of_length_eq_zero (by simpa [sum] using h)
    subst this; rfl
  | c :: cs, xs, h => by
    rw [sum_cons] at h
    simp only [splitBy, List.flatten_cons]
    rw [splitBy_flatten' cs (xs.drop c) (by simp; omega), List.take_append_drop]

theorem optAll_map_some {γ δ} (g : γ → δ) : ∀ (l : List γ), optAll (l.map (fun x => some (g x))) = some (l.map g)
  | [] => rfl
  | x :: xs => by simp [optAll, optAll_map_some g xs]

theorem optAll_chunkCoarsen {α β} (f : List α → β) (trim : Bool) (d : Nat) : ∀ (B : List (List α)),
    (∀ b ∈ B, trim = true ∨ d ∣ b.length) → optAll (B.map (chunkCoarsen f trim d)) = some (B.map (coarsenBlock f d))
  | [], _ => rfl
  | b :: B, h => by
    have ih := optAll_chunkCoarsen f trim d B (fun z hz => h z (by simp [hz]))
    have hb : chunkCoarsen f trim d b = some (coarsenBlock f d b) := by
      unfold chunkCoarsen
      rcases h b (by simp) with h1 | h1
      · simp [h1]
      · simp [Nat.mod_eq_zero_of_dvd h1]
    simp only [List.map_cons, hb, optAll, ih, Option.map_some]

theorem sum_map_div (d : Nat) (hd : 0 < d) : ∀ (l : List Nat), (∀ c ∈ l, d ∣ c) → sum (l.map (· / d)) * d = sum l
  | [], _ => by simp [sum]
  | c :: l, h => by
    have ih := sum_map_div d hd l (fun z hz => h z (by simp [hz]))
    obtain ⟨k, hk⟩ := h c (by simp)
    simp only [List.map_cons, sum_cons, Nat.add_mul, ih]
    rw [hk, Nat.mul_div_cancel_left _ hd, Nat.mul_comm]

end Dask.Counting
