import DaskModel.Model.TextBlocks
import DaskModel.Lemmas.TextOffsets
/-! `GoodArith ieee`: the fixed-point model of IEEE double rounding (`round53`) is monotone, exact on
integers up to 2^53, exact when doubling, and never rounds a quotient below an integer lower bound.
`S = 2^52` is kept opaque (omega cannot digest literals of that size). -/
namespace Dask.TextBlocks

theorem two53 : (2 : Nat) ^ 53 = 2 * S := by simp only [S]
theorem S_pos : 0 < S := Nat.two_pow_pos 52
theorem S_eq : S = 2 ^ 52 := rfl

/-! ### round-half-even to an integer -/

theorem rhe_eq (p q : Nat) : rhe p q =
    if 2 * (p % q) < q ∨ (2 * (p % q) = q ∧ p / q % 2 = 0) then p / q else p / q + 1 := by
  simp only [rhe]
  by_cases c1 : 2 * (p % q) < q
  · simp [c1]
  · by_cases c2 : q < 2 * (p % q)
    · have : ¬ (2 * (p % q) = q) := by omega
      simp [c1, c2, this]
    · have c3 : 2 * (p % q) = q := by omega
      by_cases c4 : p / q % 2 = 0
      · simp [c1, c2, c3, c4]
      · simp [c1, c2, c3, c4]

theorem rhe_ge (p q : Nat) : p / q ≤ rhe p q := by
  rw [rhe_eq]; split <;> omega

theorem rhe_le (p q : Nat) : rhe p q ≤ p / q + 1 := by
  rw [rhe_eq]; split <;> omega

theorem rhe_exact (p q : Nat) (hq : 0 < q) (h : q ∣ p) : rhe p q = p / q := by
  have : p % q = 0 := Nat.mod_eq_zero_of_dvd h
  rw [rhe_eq, this]; simp [hq]

theorem rhe_one (x : Nat) : rhe x 1 = x := by
  rw [rhe_exact x 1 (by decide) (Nat.one_dvd x), Nat.div_one]

theorem rhe_mono (p p' q : Nat) (hq : 0 < q) (h : p ≤ p') : rhe p q ≤ rhe p' q := by
  have hf : p / q ≤ p' / q := Nat.div_le_div_right h
  rcases Nat.lt_or_ge (p / q) (p' / q) with hlt | hge
  · exact Nat.le_trans (rhe_le p q) (Nat.le_trans hlt (rhe_ge p' q))
  · have hfe : p / q = p' / q := by omega
    have h1 := Nat.div_add_mod p q
    have h2 := Nat.div_add_mod p' q
    have hr : p % q ≤ p' % q := by rw [hfe] at h1; omega
    rw [rhe_eq p q, rhe_eq p' q, hfe]
    by_cases c : 2 * (p' % q) < q ∨ (2 * (p' % q) = q ∧ p' / q % 2 = 0)
    · have : 2 * (p % q) < q ∨ (2 * (p % q) = q ∧ p' / q % 2 = 0) := by
        rcases c with c | ⟨c, ce⟩
        · left; omega
        · rcases Nat.lt_or_ge (2 * (p % q)) q with h3 | h3
          · left; exact h3
          · right; exact ⟨by omega, ce⟩
      simp [c, this]
    · simp only [c, if_false]; split <;> omega

/-! ### the shift -/

/-- number of low bits dropped for a value with integer part `v` -/
def shOf (v : Nat) : Nat := if v < 2 ^ 53 then 0 else v.log2 - 52

theorem round53_eq (p q : Nat) : round53 p q = rhe p (q * 2 ^ shOf (p / q)) * 2 ^ shOf (p / q) := rfl

theorem shOf_small {v : Nat} (h : v < 2 * S) : shOf v = 0 := by simp [shOf, two53, h]

/-- for `v ≥ 2^53`: `2^(52+s) ≤ v < 2^(53+s)` with `s = shOf v ≥ 1` -/
theorem shOf_big {v : Nat} (h : 2 * S ≤ v) :
    1 ≤ shOf v ∧ S * 2 ^ shOf v ≤ v ∧ v < 2 * S * 2 ^ shOf v := by
  have hv0 : v ≠ 0 := by have := S_pos; omega
  have h1 : 2 ^ v.log2 ≤ v := Nat.log2_self_le hv0
  have h2 : v < 2 ^ (v.log2 + 1) := Nat.lt_log2_self
  have h53 : 53 ≤ v.log2 := by
    have h3 : 2 ^ 53 < 2 ^ (v.log2 + 1) := by rw [two53]; omega
    have := (Nat.pow_lt_pow_iff_right (by decide : 1 < 2)).mp h3
    omega
  have hs : shOf v = v.log2 - 52 := by simp [shOf, two53, Nat.not_lt.mpr h]
  obtain ⟨s, hsl⟩ : ∃ s, v.log2 = 52 + s := ⟨v.log2 - 52, by omega⟩
  have hss : shOf v = s := by rw [hs, hsl]; omega
  rw [hss]
  have e1 : 2 ^ (52 + s) = S * 2 ^ s := by rw [Nat.pow_add, ← S_eq]
  have e2 : 2 ^ (52 + s + 1) = 2 * S * 2 ^ s := by
    rw [Nat.pow_succ, e1]; simp only [Nat.mul_assoc, Nat.mul_comm, Nat.mul_left_comm]
  rw [hsl] at h1 h2
  rw [e1] at h1
  rw [e2] at h2
  exact ⟨by omega, h1, h2⟩

/-- the significand after rounding: between 2^52 and 2^53 (inclusive) for big values -/
theorem mant_bounds (p q : Nat) (hq : 0 < q) (h : 2 * S ≤ p / q) :
    S ≤ rhe p (q * 2 ^ shOf (p / q)) ∧ rhe p (q * 2 ^ shOf (p / q)) ≤ 2 * S := by
  obtain ⟨_, hlo, hhi⟩ := shOf_big h
  generalize shOf (p / q) = s at *
  have hpos : 0 < 2 ^ s := Nat.two_pow_pos s
  have hf : p / (q * 2 ^ s) = p / q / 2 ^ s := (Nat.div_div_eq_div_mul p q (2 ^ s)).symm
  have h1 : S ≤ p / q / 2 ^ s := (Nat.le_div_iff_mul_le hpos).mpr hlo
  have h2 : p / q / 2 ^ s < 2 * S := (Nat.div_lt_iff_lt_mul hpos).mpr hhi
  have := rhe_ge p (q * 2 ^ s)
  have := rhe_le p (q * 2 ^ s)
  omega

/-- the result is a multiple of `2^sh` and at most `2^(53+sh)` -/
theorem round53_shape (p q : Nat) (hq : 0 < q) :
    2 ^ shOf (p / q) ∣ round53 p q ∧ round53 p q ≤ 2 * S * 2 ^ shOf (p / q) := by
  rw [round53_eq]
  refine ⟨Nat.dvd_mul_left _ _, ?_⟩
  rcases Nat.lt_or_ge (p / q) (2 * S) with hsm | hbg
  · rw [shOf_small hsm]
    have := rhe_le p (q * 2 ^ 0)
    simp only [Nat.pow_zero, Nat.mul_one] at this ⊢
    omega
  · exact Nat.mul_le_mul_right _ (mant_bounds p q hq hbg).2

/-! ### representable values are fixed points -/

/-- a multiple of `2^s` that is at most `2^(53+s)` is a double -/
theorem rnd_fix (y s : Nat) (hdvd : 2 ^ s ∣ y) (hle : y ≤ 2 * S * 2 ^ s) : round53 y 1 = y := by
  rw [round53_eq]
  simp only [Nat.div_one, Nat.one_mul]
  rcases Nat.lt_or_ge y (2 * S) with hsm | hbg
  · rw [shOf_small hsm]; simp [rhe_one]
  · obtain ⟨h1, hlo, hhi⟩ := shOf_big hbg
    generalize shOf y = t at *
    have hpos : 0 < 2 ^ t := Nat.two_pow_pos t
    -- t ≤ s, or y is the power of two 2^(53+s) itself
    have hdv : 2 ^ t ∣ y := by
      rcases Nat.lt_or_ge s t with hst | hts
      · -- then 2^(53+s) ≤ S * 2^t ≤ y ≤ 2^(53+s): y = 2 * S * 2^s
        obtain ⟨u, rfl⟩ : ∃ u, t = s + 1 + u := ⟨t - s - 1, by omega⟩
        have hpw : S * 2 ^ (s + 1 + u) = 2 * S * 2 ^ s * 2 ^ u := by
          rw [Nat.pow_add, Nat.pow_succ]
          simp only [Nat.mul_assoc, Nat.mul_comm, Nat.mul_left_comm]
        have hu : 1 ≤ 2 ^ u := Nat.two_pow_pos u
        have hge : 2 * S * 2 ^ s ≤ 2 * S * 2 ^ s * 2 ^ u := Nat.le_mul_of_pos_right _ hu
        have hy : y = 2 * S * 2 ^ s * 2 ^ u := by rw [hpw] at hlo; omega
        have hu1 : 2 ^ u = 1 := by
          rcases Nat.lt_or_ge 1 (2 ^ u) with h | h
          · exfalso
            have : 2 * S * 2 ^ s * 2 ≤ 2 * S * 2 ^ s * 2 ^ u := Nat.mul_le_mul_left _ h
            have hp : 0 < 2 * S * 2 ^ s := Nat.mul_pos (by have := S_pos; omega) (Nat.two_pow_pos s)
            omega
          · omega
        have hu0 : u = 0 := by
          rcases Nat.eq_zero_or_pos u with h | h
          · exact h
          · have : 2 ^ 1 ≤ 2 ^ u := Nat.pow_le_pow_right (by decide) h
            omega
        subst hu0
        rw [hy, S_eq]
        refine ⟨2 ^ 52, ?_⟩
        simp only [Nat.pow_zero, Nat.mul_one, Nat.add_zero, Nat.pow_succ]
        simp only [Nat.mul_assoc, Nat.mul_comm, Nat.mul_left_comm]
      · exact Nat.dvd_trans (Nat.pow_dvd_pow 2 hts) hdvd
    rw [rhe_exact y (2 ^ t) hpos hdv, Nat.div_mul_cancel hdv]

/-! ### the four properties -/

theorem ieee_rnd_small (x : Nat) (h : x < 2 * S) : ieee.rnd x = x := by
  show round53 x 1 = x
  rw [round53_eq]; simp only [Nat.div_one, Nat.one_mul]
  rw [shOf_small h]; simp [rhe_one]

theorem ieee_rnd_bounds (x : Nat) (h : 2 * S ≤ x) :
    S * 2 ^ shOf x ≤ ieee.rnd x ∧ ieee.rnd x ≤ 2 * S * 2 ^ shOf x := by
  show S * 2 ^ shOf x ≤ round53 x 1 ∧ round53 x 1 ≤ 2 * S * 2 ^ shOf x
  have hb := mant_bounds x 1 (by decide) (by simpa using h)
  rw [round53_eq]
  simp only [Nat.div_one] at hb ⊢
  exact ⟨Nat.mul_le_mul_right _ hb.1, Nat.mul_le_mul_right _ hb.2⟩

theorem shOf_mono {x y : Nat} (hx : 2 * S ≤ x) (hxy : x ≤ y) : shOf x ≤ shOf y := by
  obtain ⟨_, hlo, _⟩ := shOf_big hx
  obtain ⟨_, _, hhi⟩ := shOf_big (Nat.le_trans hx hxy)
  rcases Nat.lt_or_ge (shOf y) (shOf x) with h | h
  · exfalso
    have : 2 ^ (shOf y + 1) ≤ 2 ^ shOf x := Nat.pow_le_pow_right (by decide) h
    have h2 : S * 2 ^ (shOf y + 1) ≤ S * 2 ^ shOf x := Nat.mul_le_mul_left _ this
    rw [Nat.pow_succ] at h2
    have h3 : S * (2 ^ shOf y * 2) = 2 * S * 2 ^ shOf y := by
      simp only [Nat.mul_assoc, Nat.mul_comm, Nat.mul_left_comm]
    omega
  · exact h

theorem ieee_mono (x y : Nat) (hxy : x ≤ y) : ieee.rnd x ≤ ieee.rnd y := by
  rcases Nat.lt_or_ge y (2 * S) with hy | hy
  · rw [ieee_rnd_small x (by omega), ieee_rnd_small y hy]; exact hxy
  · rcases Nat.lt_or_ge x (2 * S) with hx | hx
    · rw [ieee_rnd_small x hx]
      have := (ieee_rnd_bounds y hy).1
      have h1 : S * 2 ^ 1 ≤ S * 2 ^ shOf y := Nat.mul_le_mul_left _ (Nat.pow_le_pow_right (by decide) (shOf_big hy).1)
      omega
    · have hs := shOf_mono hx hxy
      rcases Nat.eq_or_lt_of_le hs with heq | hlt
      · show round53 x 1 ≤ round53 y 1
        rw [round53_eq, round53_eq]
        simp only [Nat.div_one, Nat.one_mul, heq]
        exact Nat.mul_le_mul_right _ (rhe_mono x y _ (Nat.two_pow_pos _) hxy)
      · have h1 := (ieee_rnd_bounds x hx).2
        have h2 := (ieee_rnd_bounds y hy).1
        have : 2 ^ (shOf x + 1) ≤ 2 ^ shOf y := Nat.pow_le_pow_right (by decide) hlt
        have h3 : S * 2 ^ (shOf x + 1) ≤ S * 2 ^ shOf y := Nat.mul_le_mul_left _ this
        rw [Nat.pow_succ] at h3
        have h4 : S * (2 ^ shOf x * 2) = 2 * S * 2 ^ shOf x := by
          simp only [Nat.mul_assoc, Nat.mul_comm, Nat.mul_left_comm]
        omega

theorem ieee_fixInt (n : Nat) (hn : n ≤ 2 ^ 53) : ieee.rnd (n * S) = n * S := by
  show round53 (n * S) 1 = n * S
  apply rnd_fix (n * S) 52
  · exact ⟨n, by rw [S_eq, Nat.mul_comm]⟩
  · rw [two53] at hn
    have := Nat.mul_le_mul_right S hn
    rw [S_eq] at this ⊢
    exact this

theorem ieee_dbl (a b : Nat) : ieee.rnd (2 * ieee.div a b) = 2 * ieee.div a b := by
  show round53 (2 * round53 (a * S) b) 1 = 2 * round53 (a * S) b
  rcases Nat.eq_zero_or_pos b with hb | hb
  · subst hb
    have hle : round53 (a * S) 0 ≤ 1 := by
      rw [round53_eq]; simp only [Nat.div_zero]
      rw [shOf_small (by have := S_pos; omega)]
      have := rhe_le (a * S) (0 * 2 ^ 0)
      simp at this ⊢; omega
    apply rnd_fix _ 0 (by simp)
    have := S_pos; simp; omega
  · obtain ⟨hd, hle⟩ := round53_shape (a * S) b hb
    apply rnd_fix _ (shOf (a * S / b) + 1)
    · rw [Nat.pow_succ, Nat.mul_comm]; exact Nat.mul_dvd_mul_left 2 hd
    · rw [Nat.pow_succ]
      have : 2 * S * (2 ^ shOf (a * S / b) * 2) = 2 * (2 * S * 2 ^ shOf (a * S / b)) := by
        simp only [Nat.mul_assoc, Nat.mul_comm, Nat.mul_left_comm]
      omega

theorem ieee_divLower (a b k : Nat) (hb : 0 < b) (hk : k * b ≤ a) (hk53 : k ≤ 2 ^ 53) : k * S ≤ ieee.div a b := by
  show k * S ≤ round53 (a * S) b
  have hv : k * S ≤ a * S / b := by
    rw [Nat.le_div_iff_mul_le hb]
    calc k * S * b = k * b * S := by simp only [Nat.mul_assoc, Nat.mul_comm, Nat.mul_left_comm]
      _ ≤ a * S := Nat.mul_le_mul_right S hk
  rw [round53_eq]
  rcases Nat.lt_or_ge (a * S / b) (2 * S) with hsm | hbg
  · rw [shOf_small hsm]
    have := rhe_ge (a * S) (b * 2 ^ 0)
    simp only [Nat.pow_zero, Nat.mul_one] at this ⊢
    omega
  · obtain ⟨h1, hlo, hhi⟩ := shOf_big hbg
    have hm := mant_bounds (a * S) b hb hbg
    generalize hsdef : shOf (a * S / b) = s at *
    have hpos : 0 < 2 ^ s := Nat.two_pow_pos s
    rcases Nat.lt_or_ge (k * S) (S * 2 ^ s) with hlow | hhigh
    · have := Nat.mul_le_mul_right (2 ^ s) hm.1
      omega
    · -- k * S is a multiple of 2^s not above the value: flooring to the grid keeps it below
      have hdv : 2 ^ s ∣ k * S := by
        rcases Nat.lt_or_ge 52 s with hs | hs
        · -- k * S ≥ S * 2^s ≥ 2^105 and k ≤ 2^53: k * S = 2^105, s = 53
          rw [two53] at hk53
          have hk2 : k * S ≤ 2 * S * S := Nat.mul_le_mul_right S hk53
          have hs53 : 2 ^ 53 ≤ 2 ^ s := Nat.pow_le_pow_right (by decide) hs
          rw [two53] at hs53
          have h5 : S * (2 * S) ≤ S * 2 ^ s := Nat.mul_le_mul_left S hs53
          have h6 : S * (2 * S) = 2 * S * S := by simp only [Nat.mul_assoc, Nat.mul_comm, Nat.mul_left_comm]
          have hks : k * S = S * 2 ^ s := by omega
          rw [hks]; exact Nat.dvd_mul_left _ _
        · exact Nat.dvd_trans (by rw [S_eq]; exact Nat.pow_dvd_pow 2 hs) (Nat.dvd_mul_left S k)
      have hf : a * S / (b * 2 ^ s) = a * S / b / 2 ^ s := (Nat.div_div_eq_div_mul _ _ _).symm
      have hge := rhe_ge (a * S) (b * 2 ^ s)
      rw [hf] at hge
      obtain ⟨c, hc⟩ := hdv
      have hcle : c ≤ a * S / b / 2 ^ s := by
        rw [Nat.le_div_iff_mul_le hpos, Nat.mul_comm, ← hc]; exact hv
      calc k * S = 2 ^ s * c := hc
        _ = c * 2 ^ s := Nat.mul_comm _ _
        _ ≤ rhe (a * S) (b * 2 ^ s) * 2 ^ s := Nat.mul_le_mul_right _ (Nat.le_trans hcle hge)

/-- **the model of IEEE double arithmetic satisfies everything the offset theorems assume** -/
theorem ieee_good : GoodArith ieee :=
  { mono := ieee_mono, fixInt := ieee_fixInt, dbl := ieee_dbl, divLower := ieee_divLower }

end Dask.TextBlocks
