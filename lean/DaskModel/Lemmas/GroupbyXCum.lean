import DaskModel.Model.GroupbyX
import DaskModel.Lemmas.GroupbyScan
/-! Helper lemmas for the C38 extension: cumulative groupby operations with NaN keys (`dropna` at the chunk site and at the
    carry site) reduce to `Model/Groupby`'s scan on the prepared rows; the carry tables agree with the running values. -/
namespace Dask.GroupbyX
open Dask.Groupby

theorem prep_cons_nan_drop (c : Option Int) (rs : List (Key × Option Int)) :
    prep true ((none, c) :: rs) = (0, none) :: prep true rs := rfl
theorem prep_cons_nan_keep (c : Option Int) (rs : List (Key × Option Int)) :
    prep false ((none, c) :: rs) = (0, c) :: prep false rs := rfl
theorem prep_cons_some (d : Bool) (j : Nat) (c : Option Int) (rs : List (Key × Option Int)) :
    prep d ((some j, c) :: rs) = (j + 1, c) :: prep d rs := rfl

/-- the cells `cum_last` sees, grouped by `gid d`, are the cells `cumLastLit` sees on the prepared rows -/
theorem lastCells_prep (op : Int → Int → Int) (d : Bool) (k : Nat) : ∀ (rows : List (Key × Option Int)) (st : St),
    (((rows.map fun r => gid d r.1).zip (cumGo op st (prep d rows))).filterMap
        fun gc => if gc.1 == some k then gc.2 else none) =
      (((prep d rows).zip (cumGo op st (prep d rows))).filterMap fun rc => if rc.1.1 == k then rc.2 else none)
  | [], _ => rfl
  | (none, c) :: rs, st => by
    cases d with
    | true =>
      rw [prep_cons_nan_drop]
      simp only [List.map_cons, cumGo, List.zip_cons_cons, List.filterMap_cons]
      rw [lastCells_prep op true k rs st]
      simp [gid]
    | false =>
      rw [prep_cons_nan_keep]
      cases c with
      | none =>
        simp only [List.map_cons, cumGo, List.zip_cons_cons, List.filterMap_cons]
        rw [lastCells_prep op false k rs st]
        simp [gid]
      | some v =>
        simp only [List.map_cons, cumGo, List.zip_cons_cons, List.filterMap_cons]
        rw [lastCells_prep op false k rs _]
        simp [gid]
  | (some j, none) :: rs, st => by
    rw [prep_cons_some]
    simp only [List.map_cons, cumGo, List.zip_cons_cons, List.filterMap_cons]
    rw [lastCells_prep op d k rs st]
    simp [gid]
  | (some j, some v) :: rs, st => by
    rw [prep_cons_some]
    simp only [List.map_cons, cumGo, List.zip_cons_cons, List.filterMap_cons]
    rw [lastCells_prep op d k rs _]
    simp [gid]

/-- with the same `dropna` at both sites `cum_last` is the running value after the (prepared) partition -/
theorem cumLastD_eq (op : Int → Int → Int) (d : Bool) (rows : List (Key × Option Int)) :
    cumLastD op d d rows = cumLast op (prep d rows) := by
  funext k
  rw [cumLast_is_last]
  unfold cumLastD cumLastLit cumRawD cumRaw
  rw [lastCells_prep]

theorem aligned_prep (op : Int → Int → Int) (e : Int) (d : Bool) (c : St) : ∀ (rows : List (Key × Option Int)) (st : St),
    List.zipWith (fun (r : Key × Option Int) (x : Option Int) => x.map fun y => op y ((c (encK r.1)).getD e)) rows
        (cumGo op st (prep d rows)) =
      List.zipWith (fun (r : Nat × Option Int) (x : Option Int) => x.map fun y => op y ((c r.1).getD e)) (prep d rows)
        (cumGo op st (prep d rows))
  | [], _ => rfl
  | (none, cell) :: rs, st => by
    cases d with
    | true =>
      rw [prep_cons_nan_drop]
      simp only [cumGo, List.zipWith_cons_cons]
      rw [aligned_prep op e true c rs st]
      simp
    | false =>
      rw [prep_cons_nan_keep]
      cases cell with
      | none =>
        simp only [cumGo, List.zipWith_cons_cons]
        rw [aligned_prep op e false c rs st]
        simp
      | some v =>
        simp only [cumGo, List.zipWith_cons_cons]
        rw [aligned_prep op e false c rs _]
        simp [encK]
  | (some j, none) :: rs, st => by
    rw [prep_cons_some]
    simp only [cumGo, List.zipWith_cons_cons]
    rw [aligned_prep op e d c rs st]
    simp
  | (some j, some v) :: rs, st => by
    rw [prep_cons_some]
    simp only [cumGo, List.zipWith_cons_cons]
    rw [aligned_prep op e d c rs _]
    simp [encK]

theorem cumAlignedD_eq (op : Int → Int → Int) (e : Int) (d : Bool) (rows : List (Key × Option Int)) (c : St) :
    cumAlignedD op e d rows c = cumAligned op e (prep d rows) c := by
  unfold cumAlignedD cumAligned cumRawD cumRaw
  exact aligned_prep op e d c rows stEmpty

theorem cumLoopD_eq (op : Int → Int → Int) (e : Int) (d : Bool) : ∀ (parts : List (List (Key × Option Int))) (oc : Option St),
    cumLoopD op e d d oc parts = cumLoop op e oc (parts.map (prep d))
  | [], oc => by cases oc <;> rfl
  | p :: ps, none => by
    simp only [cumLoopD, cumLoop, List.map_cons, cumLastD_eq, cumRawD]
    rw [cumLoopD_eq op e d ps]
  | p :: ps, some c => by
    simp only [cumLoopD, cumLoop, List.map_cons, cumLastD_eq, cumAlignedD_eq]
    rw [cumLoopD_eq op e d ps]

theorem cumCarryLoopD_eq (op : Int → Int → Int) (e : Int) (d : Bool) :
    ∀ (parts : List (List (Key × Option Int))) (oc : Option St),
      cumCarryLoopD op e d d oc parts = carryLoop op e oc (parts.map (prep d))
  | [], oc => by cases oc <;> rfl
  | p :: ps, none => by
    simp only [cumCarryLoopD, carryLoop, List.map_cons, cumLastD_eq]
    rw [cumCarryLoopD_eq op e d ps]
  | p :: ps, some c => by
    simp only [cumCarryLoopD, carryLoop, List.map_cons, cumLastD_eq]
    rw [cumCarryLoopD_eq op e d ps]

theorem prep_flatten (d : Bool) (parts : List (List (Key × Option Int))) :
    (parts.map (prep d)).flatten = prep d parts.flatten := by
  unfold prep
  rw [List.map_flatten]

/-- the carried table that enters partition `i` agrees (absent / NA = initial) with the running values after the first `i`
    partitions -/
theorem carryLoop_some (op : Int → Int → Int) (e : Int) (hassoc : ∀ a b c, op (op a b) c = op a (op b c))
    (hcomm : ∀ a b, op a b = op b a) (hid : ∀ a, op e a = a) :
    ∀ (ps : List (List (Nat × Option Int))) (c base : St), Carries e c base →
      ∀ (i : Nat) (c' : St), (carryLoop op e (some c) ps)[i]? = some c' → Carries e c' (cumSt op base (ps.take i).flatten)
  | [], _, _, _, i, c', h => by simp [carryLoop] at h
  | p :: ps, c, base, hc, 0, c', h => by
    simp only [carryLoop, List.getElem?_cons_zero, Option.some.injEq] at h
    subst h
    simpa [cumSt] using hc
  | p :: ps, c, base, hc, i + 1, c', h => by
    simp only [carryLoop, List.getElem?_cons_succ] at h
    have := carryLoop_some op e hassoc hcomm hid ps _ _ (carries_step op e hassoc hcomm hid p c base hc) i c' h
    simpa [List.take_succ_cons, List.flatten_cons, cumSt_append] using this

theorem carryLoop_none (op : Int → Int → Int) (e : Int) (hassoc : ∀ a b c, op (op a b) c = op a (op b c))
    (hcomm : ∀ a b, op a b = op b a) (hid : ∀ a, op e a = a) (parts : List (List (Nat × Option Int))) (i : Nat) (c' : St)
    (h : (carryLoop op e none parts)[i]? = some c') : Carries e c' (cumLast op (parts.take (i + 1)).flatten) := by
  cases parts with
  | nil => simp [carryLoop] at h
  | cons p ps =>
    simp only [carryLoop] at h
    have := carryLoop_some op e hassoc hcomm hid ps (cumLast op p) (cumSt op stEmpty p) (fun _ => rfl) i c' h
    simpa [cumLast, List.take_succ_cons, List.flatten_cons, cumSt_append] using this

theorem carryLoop_length (op : Int → Int → Int) (e : Int) : ∀ (ps : List (List (Nat × Option Int))) (oc : Option St),
    (carryLoop op e oc ps).length = match oc with | none => ps.length - 1 | some _ => ps.length
  | [], oc => by cases oc <;> rfl
  | p :: ps, none => by simp [carryLoop, carryLoop_length op e ps]
  | p :: ps, some c => by simp [carryLoop, carryLoop_length op e ps]

end Dask.GroupbyX
