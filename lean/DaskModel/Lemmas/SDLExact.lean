import DaskModel.Lemmas.SDL
/-! C45: the duplicate-free `npartitions` case of `sorted_division_locations` computed in closed form
    (termination, no IndexError, exactly `n` partitions at the ideal locations). -/
namespace Dask.SDL

theorem dedupSorted_of_strict : ∀ xs : List Nat, xs.Pairwise (· < ·) → dedupSorted xs = xs
  | [], _ => rfl
  | [_], _ => rfl
  | x :: y :: rest, h => by
    have hxy : x < y := (List.pairwise_cons.mp h).1 y List.mem_cons_self
    have ih := dedupSorted_of_strict (y :: rest) (List.pairwise_cons.mp h).2
    have : x ≠ y := by omega
    simp only [dedupSorted, this, if_false, ih]

/-- ideal location of boundary `m` when `len = n*chunk + residual` -/
def prefixLoc (chunk residual m : Nat) : Nat := m * chunk + min m residual

theorem prefixLoc_succ (chunk residual m : Nat) :
    prefixLoc chunk residual (m + 1) = prefixLoc chunk residual m + (chunk + if m < residual then 1 else 0) := by
  unfold prefixLoc
  rw [Nat.succ_mul]
  split <;> omega

theorem chunksizes_eq (p : Params) (m : Nat) :
    p.chunksizes (m : Int) = ((p.chunk + if m < p.residual then 1 else 0 : Nat) : Int) := by
  unfold Params.chunksizes
  by_cases h : m < p.residual
  · have : (m : Int) < (p.residual : Int) := by omega
    simp [h, this]
  · have : ¬ (m : Int) < (p.residual : Int) := by omega
    simp [h, this]

end Dask.SDL

namespace Dask.SDL

structure NoDupP (seq : List Nat) (p : Params) : Prop where
  seq_eq : p.seq = seq
  dup : p.dup = false
  enforce : p.enforce = false
  subtract : p.subtract = true
  chunk_pos : 0 < p.chunk

theorem step_nodup {seq : List Nat} {p : Params} (hp : NoDupP seq p) (hstrict : seq.Pairwise (· < ·))
    (s : St) (m : Nat) (d : Nat)
    (hdrift : s.drift = 0) (hi : s.i = prefixLoc p.chunk p.residual (m + 1)) (hilt : s.i < seq.length)
    (hloc : s.locations.head? = some (prefixLoc p.chunk p.residual m)) (hdlen : s.divisions.length = m + 1)
    (hdh : s.divisions.head? = some d) (hdv : seq[prefixLoc p.chunk p.residual m]? = some d) :
    ∃ dnew, seq[s.i]? = some dnew ∧
      step p s = some { i := prefixLoc p.chunk p.residual (m + 2), ind := none, drift := 0,
                        divsRemain := s.divsRemain, divisions := dnew :: s.divisions,
                        locations := s.i :: s.locations } := by
  refine ⟨seq[s.i], List.getElem?_eq_getElem hilt, ?_⟩
  have hlt : prefixLoc p.chunk p.residual m < s.i := by
    rw [hi, prefixLoc_succ]; have := hp.chunk_pos; omega
  have hgt : d < seq[s.i] := by
    obtain ⟨h1, rfl⟩ := List.getElem?_eq_some_iff.mp hdv
    exact (List.pairwise_iff_getElem.mp hstrict) _ _ h1 hilt hlt
  unfold step
  simp only [hp.seq_eq, List.getElem?_eq_getElem hilt, hdh, hloc, Option.bind_eq_bind, Option.bind_some]
  have hcand : candidate p s seq[s.i] = some (s.i, seq[s.i], s.ind, s.i) := by
    simp [candidate, hp.dup]
  rw [hcand]
  simp only [Option.bind_some]
  unfold advance
  have hnle : ¬ seq[s.i] ≤ d := by omega
  simp only [hnle, if_false, hp.subtract, if_true, hp.enforce, Bool.false_eq_true, hdrift, hdlen, Option.pure_def,
    Option.some.injEq]
  have hc1 : p.chunksizes ((((m + 1 : Nat) : Int)) - 1) = ((p.chunk + if m < p.residual then 1 else 0 : Nat) : Int) := by
    have : (((m + 1 : Nat) : Int)) - 1 = (m : Int) := by omega
    rw [this]; exact chunksizes_eq p m
  have hc2 := chunksizes_eq p (m + 1)
  have hstep1 := prefixLoc_succ p.chunk p.residual m
  have hstep2 := prefixLoc_succ p.chunk p.residual (m + 1)
  have hdr : (0 : Int) + (((s.i : Int) - ((prefixLoc p.chunk p.residual m : Nat) : Int)) -
      p.chunksizes ((((m + 1 : Nat) : Int)) - 1)) = 0 := by
    rw [hc1, hi, hstep1]; push_cast; omega
  rw [hdr, hc2]
  congr 1
  rw [hi, hstep2]
  have hpos := hp.chunk_pos
  have : (max 1 (((p.chunk + if m + 1 < p.residual then 1 else 0 : Nat) : Int) - 0)).toNat =
      p.chunk + if m + 1 < p.residual then 1 else 0 := by
    split <;> omega
  rw [this]

end Dask.SDL

namespace Dask.SDL

theorem prefixLoc_mono (chunk residual : Nat) (hc : 0 < chunk) : ∀ a b, a < b → prefixLoc chunk residual a < prefixLoc chunk residual b := by
  intro a b hab
  induction b with
  | zero => omega
  | succ b ih =>
    rw [prefixLoc_succ]
    rcases Nat.lt_or_ge a b with h | h
    · have := ih h; omega
    · have : a = b := by omega
      subst this; omega

/-- the state after `m` appended boundaries in the duplicate-free `npartitions` case -/
structure StateAt (seq : List Nat) (p : Params) (m : Nat) (s : St) : Prop where
  drift : s.drift = 0
  i : s.i = prefixLoc p.chunk p.residual (m + 1)
  locs : s.locations = ((List.range (m + 1)).map (prefixLoc p.chunk p.residual)).reverse
  dlen : s.divisions.length = m + 1
  dhead : ∃ d, s.divisions.head? = some d ∧ seq[prefixLoc p.chunk p.residual m]? = some d

theorem loop_nodup {seq : List Nat} {p : Params} (hp : NoDupP seq p) (hstrict : seq.Pairwise (· < ·)) (n : Nat)
    (hlen : prefixLoc p.chunk p.residual n = seq.length) :
    ∀ (rem m fuel : Nat) (s : St), m + 1 + rem = n → rem < fuel → StateAt seq p m s →
      ∃ s', loop p fuel s = some s' ∧ StateAt seq p (n - 1) s'
  | 0, m, fuel, s, hm, hf, hs => by
    obtain ⟨f, rfl⟩ : ∃ f, fuel = f + 1 := ⟨fuel - 1, by omega⟩
    have hmn : m + 1 = n := by omega
    have hi : ¬ s.i < p.seq.length := by
      rw [hp.seq_eq, hs.i, hmn, hlen]; omega
    refine ⟨s, by simp [loop, hi], ?_⟩
    have : n - 1 = m := by omega
    rw [this]; exact hs
  | rem + 1, m, fuel, s, hm, hf, hs => by
    obtain ⟨f, rfl⟩ : ∃ f, fuel = f + 1 := ⟨fuel - 1, by omega⟩
    have hilt : s.i < seq.length := by
      rw [hs.i, ← hlen]; exact prefixLoc_mono _ _ hp.chunk_pos _ _ (by omega)
    obtain ⟨d, hdh, hdv⟩ := hs.dhead
    have hloc : s.locations.head? = some (prefixLoc p.chunk p.residual m) := by
      rw [hs.locs, List.head?_reverse, List.range_succ, List.map_append, List.getLast?_append]
      simp
    obtain ⟨dnew, hdn, hstep⟩ := step_nodup hp hstrict s m d hs.drift hs.i hilt hloc hs.dlen hdh hdv
    have hcond : s.i < p.seq.length := by rw [hp.seq_eq]; exact hilt
    simp only [loop, hcond, if_true, hstep, Option.bind_some]
    apply loop_nodup hp hstrict n hlen rem (m + 1) f _ (by omega) (by omega)
    refine ⟨rfl, rfl, ?_, by simp [hs.dlen], ⟨dnew, rfl, by rw [← hs.i]; exact hdn⟩⟩
    simp only
    rw [hs.locs, hs.i]
    conv => rhs; rw [List.range_succ, List.map_append, List.reverse_append]
    simp

end Dask.SDL

namespace Dask.SDL

/-- **npartitions is met exactly** (duplicate-free case, `1 ≤ n ≤ len`): the function terminates without
    raising (the fuel of the model suffices) and the locations are the ideal ones
    `j * (len / n) + min j (len % n)`, `j = 0 … n` — in particular exactly `n` partitions. -/
theorem sdl_exact_nodup (seq : List Nat) (n : Nat) (hstrict : seq.Pairwise (· < ·)) (hn1 : 1 ≤ n)
    (hn : n ≤ seq.length) :
    ∃ divs, sdl seq (.npartitions n) =
      some (divs, (List.range (n + 1)).map (prefixLoc (seq.length / n) (seq.length % n))) := by
  obtain ⟨first, hfirst⟩ : ∃ f, seq.head? = some f := by
    cases seq with
    | nil => simp at hn; omega
    | cons a _ => exact ⟨a, rfl⟩
  obtain ⟨last, hlast⟩ : ∃ l, seq.getLast? = some l := by
    cases h : seq.getLast? with
    | none => rw [List.getLast?_eq_none_iff] at h; subst h; simp at hn; omega
    | some l => exact ⟨l, rfl⟩
  have hded := dedupSorted_of_strict seq hstrict
  have hchunk : 0 < seq.length / n := Nat.div_pos hn (by omega)
  have hp : NoDupP seq (mkParams seq (.npartitions n)) := by
    refine ⟨rfl, ?_, ?_, rfl, hchunk⟩
    · simp [mkParams, hded]
    · simp [mkParams, hded]
  have hchk : (mkParams seq (.npartitions n)).chunk = seq.length / n := rfl
  have hres : (mkParams seq (.npartitions n)).residual = seq.length % n := rfl
  have hlen : prefixLoc (mkParams seq (.npartitions n)).chunk (mkParams seq (.npartitions n)).residual n = seq.length := by
    rw [hchk, hres]
    unfold prefixLoc
    have h1 := Nat.mod_lt seq.length (show 0 < n by omega)
    have h2 := Nat.div_add_mod seq.length n
    rw [Nat.min_eq_right (Nat.le_of_lt h1)]
    exact h2
  have h0 : seq[0]? = some first := by
    cases seq with
    | nil => cases hfirst
    | cons a as => simpa using hfirst
  have hinit : StateAt seq (mkParams seq (.npartitions n)) 0 (initSt (mkParams seq (.npartitions n)) (.npartitions n) first) := by
    refine ⟨rfl, ?_, ?_, rfl, ⟨first, rfl, ?_⟩⟩
    · simp only [initSt]
      rw [show ((0 : Int)) = ((0 : Nat) : Int) from rfl, chunksizes_eq, prefixLoc_succ]
      simp only [prefixLoc, Nat.zero_mul, Nat.zero_min, Nat.zero_add, Nat.add_zero]
      split <;> omega
    · simp [initSt, prefixLoc]
    · simpa [prefixLoc] using h0
  obtain ⟨s', hloop, hs'⟩ := loop_nodup hp hstrict n hlen (n - 1) 0 (sdlFuel seq)
    (initSt (mkParams seq (.npartitions n)) (.npartitions n) first) (by omega) (by unfold sdlFuel; omega) hinit
  refine ⟨(last :: s'.divisions).reverse, ?_⟩
  unfold sdl
  simp only [hfirst, hlast, Option.bind_eq_bind, Option.bind_some]
  have hg : guardMode (.npartitions n) = some () := by
    cases n with
    | zero => omega
    | succ k => rfl
  simp only [hg, Option.bind_some, hloop, Option.pure_def, Option.some.injEq, Prod.mk.injEq, true_and]
  rw [hs'.locs, List.reverse_cons, List.reverse_reverse]
  have hn' : n - 1 + 1 = n := by omega
  rw [hn', hchk, hres]
  conv => rhs; rw [List.range_succ, List.map_append]
  rw [hchk, hres] at hlen
  simp [hlen]

end Dask.SDL
