import DaskModel.Lemmas.Shuffle
/-! Exact content (rows, multiplicity AND order) of every staged position of the task shuffle.
    Core Lean only. -/
namespace Dask.Shuffle
variable {α : Type}

/-! ### small list facts -/

theorem eq_of_pairwise_lt_of_mem_iff : ∀ (l₁ l₂ : List Nat), l₁.Pairwise (· < ·) → l₂.Pairwise (· < ·) →
    (∀ a, a ∈ l₁ ↔ a ∈ l₂) → l₁ = l₂
  | [], [], _, _, _ => rfl
  | [], b :: bs, _, _, h => by have := (h b).2 List.mem_cons_self; simp at this
  | a :: as, [], _, _, h => by have := (h a).1 List.mem_cons_self; simp at this
  | a :: as, b :: bs, h₁, h₂, h => by
    rw [List.pairwise_cons] at h₁ h₂
    have hab : a = b := by
      have ha := (h a).1 List.mem_cons_self
      have hb := (h b).2 List.mem_cons_self
      rcases List.mem_cons.mp ha with e | ha'
      · exact e
      · rcases List.mem_cons.mp hb with e | hb'
        · exact e.symm
        · have := h₁.1 b hb'; have := h₂.1 a ha'; omega
    subst hab
    congr 1
    apply eq_of_pairwise_lt_of_mem_iff as bs h₁.2 h₂.2
    intro x
    constructor
    · intro hx
      have := (h x).1 (List.mem_cons_of_mem _ hx)
      rcases List.mem_cons.mp this with e | hx'
      · have := h₁.1 x hx; omega
      · exact hx'
    · intro hx
      have := (h x).2 (List.mem_cons_of_mem _ hx)
      rcases List.mem_cons.mp this with e | hx'
      · have := h₂.1 x hx; omega
      · exact hx'

theorem filter_range_eq (n q : Nat) (hq : q < n) : (List.range n).filter (fun a => a == q) = [q] := by
  apply eq_of_pairwise_lt_of_mem_iff
  · exact List.Pairwise.sublist List.filter_sublist List.pairwise_lt_range
  · simp
  · intro a
    simp only [List.mem_filter, List.mem_range, beq_iff_eq, List.mem_singleton]
    constructor
    · intro h; exact h.2
    · intro h; subst h; exact ⟨hq, rfl⟩

theorem flatMap_congr' {β γ : Type} {l : List β} {f g : β → List γ} (h : ∀ a ∈ l, f a = g a) :
    l.flatMap f = l.flatMap g := by
  rw [List.flatMap_def, List.flatMap_def, List.map_congr_left h]

/-- reading positions `0 … n-1` (empty beyond the end) and concatenating gives all rows -/
theorem flatMap_getD_range : ∀ (parts : List (List α)) (n : Nat), parts.length ≤ n →
    (List.range n).flatMap (fun i => parts.getD i []) = parts.flatten
  | [], n, _ => by
    induction n with
    | zero => rfl
    | succ n ih => rw [List.range_succ, List.flatMap_append, ih (by simp)]; simp
  | p :: ps, 0, h => by simp at h
  | p :: ps, n + 1, h => by
    rw [List.range_succ_eq_map, List.flatMap_cons, List.flatMap_map]
    simp only [List.getD_cons_zero, List.flatten_cons]
    congr 1
    have := flatMap_getD_range ps n (by simpa using h)
    rw [← this]
    apply flatMap_congr'
    intro i _
    simp

/-! ### digits -/

theorem digit_zero (x k : Nat) : digit x 0 k = x % k := by simp [digit]

theorem digit_succ (x j k : Nat) : digit x (j + 1) k = digit (x / k) j k := by
  simp only [digit, Nat.pow_succ, Nat.div_div_eq_div_mul]
  rw [Nat.mul_comm]

/-- two numbers below `k^S` with the same `S` digits are equal -/
theorem eq_of_digits (k : Nat) (S x y : Nat) (hx : x < k ^ S) (hy : y < k ^ S)
    (h : ∀ j, j < S → digit x j k = digit y j k) : x = y := by
  have := digits_ext k S x y h
  rw [← fromDigits_digits k S x hx, ← fromDigits_digits k S y hy, this]

/-- comparison by the most significant differing digit -/
theorem lt_of_digits (k : Nat) : ∀ (S s x y : Nat), x < k ^ S → y < k ^ S → s < S →
    digit x s k < digit y s k → (∀ j, s < j → j < S → digit x j k = digit y j k) → x < y
  | 0, s, _, _, _, _, hs, _, _ => by omega
  | S + 1, s, x, y, hx, hy, hs, hd, hhi => by
    have hk : 0 < k := by
      rcases Nat.eq_zero_or_pos k with h0 | h0
      · subst h0; simp at hx
      · exact h0
    have hx' : x / k < k ^ S := by
      rw [Nat.div_lt_iff_lt_mul hk]; simpa [Nat.pow_succ] using hx
    have hy' : y / k < k ^ S := by
      rw [Nat.div_lt_iff_lt_mul hk]; simpa [Nat.pow_succ] using hy
    cases s with
    | zero =>
      have heq : x / k = y / k := by
        apply eq_of_digits k S _ _ hx' hy'
        intro j hj
        rw [← digit_succ, ← digit_succ]
        exact hhi (j + 1) (by omega) (by omega)
      rw [digit_zero, digit_zero] at hd
      have h1 := Nat.div_add_mod x k
      have h2 := Nat.div_add_mod y k
      rw [heq] at h1
      omega
    | succ s =>
      apply Nat.lt_of_div_lt_div (c := k)
      apply lt_of_digits k S s _ _ hx' hy' (by omega)
      · rw [← digit_succ, ← digit_succ]; exact hd
      · intro j hj hjS
        rw [← digit_succ, ← digit_succ]
        exact hhi (j + 1) (by omega) (by omega)

/-! ### the exact content of a staged position -/

/-- `a` and `b` have the same base-`k` digits `s ≤ j < S` -/
def agreeHigh (k S s a b : Nat) : Bool :=
  (List.range S).all fun j => decide (j < s) || digit a j k == digit b j k

/-- the row's reduced target has the digits `j < s` of position `q` -/
def lowMatch (k nIn s q : Nat) (r : Nat × α) : Bool :=
  (List.range s).all fun j => digit (r.1 % nIn) j k == digit q j k

theorem agreeHigh_iff (k S s a b : Nat) :
    agreeHigh k S s a b = true ↔ ∀ j, s ≤ j → j < S → digit a j k = digit b j k := by
  unfold agreeHigh
  simp only [List.all_eq_true, List.mem_range, Bool.or_eq_true, decide_eq_true_eq, beq_iff_eq]
  constructor
  · intro h j hj hjS
    rcases h j hjS with h1 | h1
    · omega
    · exact h1
  · intro h j hjS
    by_cases hjs : j < s
    · exact Or.inl hjs
    · exact Or.inr (h j (by omega) hjS)

theorem lowMatch_iff (k nIn s q : Nat) (r : Nat × α) :
    lowMatch k nIn s q r = true ↔ ∀ j, j < s → digit (r.1 % nIn) j k = digit q j k := by
  unfold lowMatch
  simp only [List.all_eq_true, List.mem_range, beq_iff_eq]

/-- what position `q` holds after the stages `< s`: for every source position (in increasing order) that agrees
    with `q` on the digits not yet processed, the rows (in their order) whose target has `q`'s processed digits -/
def stagedSpec (k S nIn s : Nat) (parts : List (List (Nat × α))) (q : Nat) : List (Nat × α) :=
  ((List.range (k ^ S)).filter fun src => agreeHigh k S s src q).flatMap fun src =>
    (parts.getD src []).filter (lowMatch k nIn s q)

/-- the position from which piece `i` of stage `s` is read -/
def srcPos (k S q s i : Nat) : Nat := fromDigits k (insert (digits q S k) s i)

theorem srcPos_lt (k S q s i : Nat) (hk : 0 < k) (hi : i < k) : srcPos k S q s i < k ^ S := by
  unfold srcPos
  have hall : ∀ x ∈ insert (digits q S k) s i, x < k := by
    intro x hx
    unfold insert at hx
    rcases List.mem_or_eq_of_mem_set hx with h | h
    · exact digits_lt q S k hk x h
    · omega
  have := fromDigits_lt k _ hall
  simpa [insert, digits_length] using this

theorem digit_srcPos (k S q s i j : Nat) (hk : 0 < k) (hs : s < S) (hi : i < k) (hj : j < S) :
    digit (srcPos k S q s i) j k = if j = s then i else digit q j k :=
  digit_insert k S q s i j hk hs hi hj

/-- the sources feeding position `q` at stage `s`, piece by piece, are exactly the sources that agree with `q`
    above digit `s`, in increasing order -/
theorem sources_split (k S s q : Nat) (hk : 0 < k) (hs : s < S) :
    (List.range k).flatMap (fun i => (List.range (k ^ S)).filter fun src => agreeHigh k S s src (srcPos k S q s i)) =
    (List.range (k ^ S)).filter fun src => agreeHigh k S (s + 1) src q := by
  apply eq_of_pairwise_lt_of_mem_iff
  · rw [List.pairwise_flatMap]
    refine ⟨fun i _ => List.Pairwise.sublist List.filter_sublist List.pairwise_lt_range, ?_⟩
    apply List.Pairwise.imp_of_mem (R := fun a b => a < b) ?_ List.pairwise_lt_range
    intro i₁ i₂ h₁ h₂ hlt x hx y hy
    simp only [List.mem_filter, List.mem_range] at hx hy
    rw [agreeHigh_iff] at hx hy
    have hi₁ := List.mem_range.mp h₁
    have hi₂ := List.mem_range.mp h₂
    apply lt_of_digits k S s x y hx.1 hy.1 hs
    · rw [hx.2 s (Nat.le_refl _) hs, hy.2 s (Nat.le_refl _) hs,
        digit_srcPos k S q s i₁ s hk hs hi₁ hs, digit_srcPos k S q s i₂ s hk hs hi₂ hs]
      simpa using hlt
    · intro j hj hjS
      rw [hx.2 j (by omega) hjS, hy.2 j (by omega) hjS,
        digit_srcPos k S q s i₁ j hk hs hi₁ hjS, digit_srcPos k S q s i₂ j hk hs hi₂ hjS]
      have : j ≠ s := by omega
      simp [this]
  · exact List.Pairwise.sublist List.filter_sublist List.pairwise_lt_range
  · intro a
    simp only [List.mem_flatMap, List.mem_filter, List.mem_range]
    rw [agreeHigh_iff]
    constructor
    · rintro ⟨i, hi, ha, hag⟩
      rw [agreeHigh_iff] at hag
      refine ⟨ha, ?_⟩
      intro j hj hjS
      rw [hag j (by omega) hjS, digit_srcPos k S q s i j hk hs hi hjS]
      have : j ≠ s := by omega
      simp [this]
    · rintro ⟨ha, hag⟩
      refine ⟨digit a s k, digit_lt _ _ _ hk, ha, ?_⟩
      rw [agreeHigh_iff]
      intro j hj hjS
      rw [digit_srcPos k S q s _ j hk hs (digit_lt _ _ _ hk) hjS]
      by_cases hjs : j = s
      · simp [hjs]
      · simp only [hjs, if_false]
        exact hag j (by omega) hjS

theorem stageStep_length (k S s nIn : Nat) (parts : List (List (Nat × α))) :
    (stageStep k S s nIn parts).length = k ^ S := by simp [stageStep]

theorem lowMatch_srcPos (k S s nIn q i : Nat) (hk : 0 < k) (hs : s < S) (hi : i < k) (r : Nat × α) :
    lowMatch k nIn s (srcPos k S q s i) r = lowMatch k nIn s q r := by
  rw [Bool.eq_iff_iff, lowMatch_iff, lowMatch_iff]
  constructor
  · intro h j hj
    have := h j hj
    rw [digit_srcPos k S q s i j hk hs hi (by omega), if_neg (by omega)] at this
    exact this
  · intro h j hj
    rw [digit_srcPos k S q s i j hk hs hi (by omega), if_neg (by omega)]
    exact h j hj

theorem lowMatch_succ (k nIn s q : Nat) (r : Nat × α) :
    lowMatch k nIn (s + 1) q r = ((digit (r.1 % nIn) s k == digit q s k) && lowMatch k nIn s q r) := by
  unfold lowMatch
  rw [List.range_succ, List.all_append, Bool.and_comm]
  simp

/-- one stage maps the exact description of the stages `< s` to that of the stages `< s + 1` -/
theorem stageStep_exact (k S s nIn : Nat) (hk : 0 < k) (hs : s < S) (orig staged : List (List (Nat × α)))
    (h : ∀ q, q < k ^ S → staged.getD q [] = stagedSpec k S nIn s orig q) :
    ∀ q, q < k ^ S → (stageStep k S s nIn staged).getD q [] = stagedSpec k S nIn (s + 1) orig q := by
  intro q hq
  unfold stageStep
  rw [List.getD_eq_getElem?_getD, List.getElem?_map, List.getElem?_range hq]
  simp only [Option.map_some, Option.getD_some]
  have hout : (digits q S k).getD s 0 = digit q s k := by
    rw [List.getD_eq_getElem?_getD, digits_getElem?, if_pos hs]; rfl
  rw [hout]
  -- every piece, rewritten with the induction hypothesis
  have hpiece : ∀ i, i ∈ List.range k →
      shuffleGroup k s nIn (staged.getD (fromDigits k (insert (digits q S k) s i)) []) (digit q s k) =
      ((List.range (k ^ S)).filter fun src => agreeHigh k S s src (srcPos k S q s i)).flatMap fun src =>
        (orig.getD src []).filter (lowMatch k nIn (s + 1) q) := by
    intro i hi
    have hik := List.mem_range.mp hi
    have := h (srcPos k S q s i) (srcPos_lt k S q s i hk hik)
    unfold srcPos at this
    rw [this]
    unfold shuffleGroup stagedSpec
    rw [List.filter_flatMap]
    apply flatMap_congr'
    intro src _
    rw [List.filter_filter]
    apply List.filter_congr
    intro r _
    have e := lowMatch_srcPos k S s nIn q i hk hs hik r
    unfold srcPos at e
    rw [lowMatch_succ, e]
    simp [stageIndex]
  rw [flatMap_congr' hpiece, ← List.flatMap_assoc, sources_split k S s q hk hs]
  rfl

/-- the staged frame after the stages `< s` -/
def stagedAt (k S nIn s : Nat) (parts : List (List (Nat × α))) : List (List (Nat × α)) :=
  (List.range s).foldl (fun ps s => stageStep k S s nIn ps) parts

theorem stagedSpec_zero (k S nIn : Nat) (parts : List (List (Nat × α))) (q : Nat) (hq : q < k ^ S) :
    stagedSpec k S nIn 0 parts q = parts.getD q [] := by
  unfold stagedSpec
  have : ((List.range (k ^ S)).filter fun src => agreeHigh k S 0 src q) = [q] := by
    rw [← filter_range_eq (k ^ S) q hq]
    apply List.filter_congr
    intro a ha
    have ha := List.mem_range.mp ha
    rw [Bool.eq_iff_iff, agreeHigh_iff]
    simp only [beq_iff_eq]
    constructor
    · intro h; exact eq_of_digits k S a q ha hq (fun j hj => h j (Nat.zero_le _) hj)
    · intro h; subst h; intros; rfl
  rw [this]
  simp only [List.flatMap_cons, List.flatMap_nil, List.append_nil]
  apply List.filter_eq_self.mpr
  intro r _
  rw [lowMatch_iff]
  intro j hj
  omega

theorem staged_exact_all (k S nIn : Nat) (hk : 0 < k) (parts : List (List (Nat × α))) :
    ∀ s, s ≤ S → ∀ q, q < k ^ S → (stagedAt k S nIn s parts).getD q [] = stagedSpec k S nIn s parts q
  | 0, _ => by
    intro q hq
    rw [stagedSpec_zero k S nIn parts q hq]
    rfl
  | s + 1, hs => by
    unfold stagedAt
    rw [List.range_succ, List.foldl_append]
    exact stageStep_exact k S s nIn hk (by omega) parts _ (staged_exact_all k S nIn hk parts s (by omega))

theorem stagedAt_length (k S nIn s : Nat) (parts : List (List (Nat × α))) :
    (stagedAt k S nIn s parts).length = if s = 0 then parts.length else k ^ S := by
  cases s with
  | zero => rfl
  | succ s =>
    unfold stagedAt
    rw [List.range_succ, List.foldl_append]
    simp [stageStep_length]

/-- **after all stages**: staged position `q` holds exactly the rows whose reduced target is `q`, in the order of
    the input (partition by partition, row by row) -/
theorem staged_final (k S : Nat) (hk : 0 < k) (parts : List (List (Nat × α))) (hkS : parts.length ≤ k ^ S)
    (q : Nat) (hq : q < k ^ S) :
    (stagedAt k S parts.length S parts).getD q [] = parts.flatten.filter fun r => r.1 % parts.length == q := by
  rw [staged_exact_all k S parts.length hk parts S (Nat.le_refl _) q hq]
  unfold stagedSpec
  have hall : ((List.range (k ^ S)).filter fun src => agreeHigh k S S src q) = List.range (k ^ S) := by
    apply List.filter_eq_self.mpr
    intro a _
    rw [agreeHigh_iff]
    intro j h1 h2
    omega
  rw [hall, ← flatMap_getD_range parts (k ^ S) hkS, List.filter_flatMap]
  apply flatMap_congr'
  intro src _
  cases hsrc : parts[src]? with
  | none => simp [List.getD_eq_getElem?_getD, hsrc]
  | some rows =>
    have hpos : 0 < parts.length := by
      have := (List.getElem?_eq_some_iff.mp hsrc).1
      omega
    apply List.filter_congr
    intro r _
    rw [Bool.eq_iff_iff, lowMatch_iff]
    simp only [beq_iff_eq]
    have hr : r.1 % parts.length < k ^ S := Nat.lt_of_lt_of_le (Nat.mod_lt _ hpos) hkS
    constructor
    · intro h; exact eq_of_digits k S _ _ hr hq h
    · intro h; subst h; intros; rfl

end Dask.Shuffle
