import DaskModel.Lemmas.Repart
/-! C44: `RepartitionSize` — chunk lengths of `iter_chunks`, boundaries, rows and order. Core Lean only. -/
namespace Dask.Repart

theorem iterChunksGo_spec (max : Nat) :
    ∀ (sizes : List Nat) (cnt sum : Nat) (lens : List Nat), iterChunksGo max sizes cnt sum = some lens →
      lens.sum = cnt + sizes.length ∧ ∀ l ∈ lens, 0 < l
  | [], cnt, sum, lens, h => by
    simp only [iterChunksGo, Option.some.injEq] at h
    subst h
    by_cases hc : cnt = 0
    · simp [hc]
    · rw [if_neg hc]
      refine ⟨by simp, ?_⟩
      intro l hl
      simp only [List.mem_singleton] at hl
      omega
  | s :: rest, cnt, sum, lens, h => by
    simp only [iterChunksGo] at h
    split at h
    · cases h
    · split at h
      · obtain ⟨h1, h2⟩ := iterChunksGo_spec max rest (cnt + 1) (sum + s) lens h
        exact ⟨by simp only [List.length_cons]; omega, h2⟩
      · split at h
        · cases h
        · rename_i hc
          simp only [Option.map_eq_some_iff] at h
          obtain ⟨ls, hls, rfl⟩ := h
          obtain ⟨h1, h2⟩ := iterChunksGo_spec max rest 1 s ls hls
          refine ⟨by simp only [List.sum_cons, List.length_cons]; omega, ?_⟩
          intro l hl
          rcases List.mem_cons.mp hl with rfl | hl
          · omega
          · exact h2 l hl

/-- **`iter_chunks`**: every input size lands in exactly one chunk (the lengths add up), no chunk is empty -/
theorem iterChunks_spec {sizes : List Nat} {max : Nat} {lens : List Nat} (h : iterChunks sizes max = some lens) :
    lens.sum = sizes.length ∧ ∀ l ∈ lens, 0 < l := by
  have := iterChunksGo_spec max sizes 0 0 lens h
  simpa using this

theorem cumsumFrom_spec : ∀ (lens : List Nat) (acc : Nat), (∀ l ∈ lens, 0 < l) →
    (cumsumFrom acc lens).length = lens.length ∧
    (∀ x ∈ cumsumFrom acc lens, acc < x) ∧ (cumsumFrom acc lens).Pairwise (· < ·) ∧
    (lens ≠ [] → (cumsumFrom acc lens).getLast? = some (acc + lens.sum))
  | [], acc, _ => by simp [cumsumFrom]
  | x :: xs, acc, h => by
    have hx : 0 < x := h x List.mem_cons_self
    obtain ⟨ih1, ih2, ih3, ih4⟩ := cumsumFrom_spec xs (acc + x) (fun l hl => h l (List.mem_cons_of_mem _ hl))
    refine ⟨by simp [cumsumFrom, ih1], ?_, ?_, ?_⟩
    · intro y hy
      simp only [cumsumFrom, List.mem_cons] at hy
      rcases hy with rfl | hy
      · omega
      · have := ih2 y hy; omega
    · simp only [cumsumFrom]
      exact List.pairwise_cons.mpr ⟨fun y hy => ih2 y hy, ih3⟩
    · intro _
      simp only [cumsumFrom, List.sum_cons]
      cases xs with
      | nil => simp [cumsumFrom]
      | cons y ys =>
        have := ih4 (by simp)
        have hne' : cumsumFrom (acc + x) (y :: ys) ≠ [] := by simp [cumsumFrom]
        rw [List.getLast?_cons, List.getLast?_eq_some_getLast hne'] at *
        simp only [Option.getD_some] at this ⊢
        rw [this]; congr 1; omega

/-- the boundaries of `RepartitionSize`: `0`, then the running sums; strictly increasing up to the number of pieces -/
theorem sizeBoundaries_spec {lens : List Nat} {nparts : Nat} (hpos : ∀ l ∈ lens, 0 < l) (hne : lens ≠ [])
    (hn : nparts ≤ lens.sum) :
    ∃ bs, sizeBoundaries lens nparts = some bs ∧ bs.length = lens.length + 1 ∧ bs.head? = some 0 ∧
      bs.getLast? = some lens.sum ∧ bs.Pairwise (· ≤ ·) ∧ ∀ b ∈ bs, b ≤ lens.sum := by
  obtain ⟨h1, h2, h3, h4⟩ := cumsumFrom_spec lens 0 hpos
  have hlast := h4 hne
  simp only [Nat.zero_add] at hlast
  obtain ⟨x, xs, hcs⟩ : ∃ x xs, cumsumFrom 0 lens = x :: xs := by
    cases hc : cumsumFrom 0 lens with
    | nil => rw [hc] at h1; cases lens with
      | nil => exact absurd rfl hne
      | cons _ _ => simp at h1
    | cons x xs => exact ⟨x, xs, rfl⟩
  have hx : 0 < x := h2 x (by rw [hcs]; exact List.mem_cons_self)
  have hlast' : (0 :: x :: xs).getLast? = some lens.sum := by
    rw [List.getLast?_cons_cons, ← hcs]; exact hlast
  refine ⟨0 :: x :: xs, ?_, ?_, rfl, hlast', ?_, ?_⟩
  · unfold sizeBoundaries cleanBoundaries
    rw [hcs]
    simp only [hx, if_true, hlast']
    have : ¬ lens.sum < nparts := by omega
    simp only [this, if_false]
  · rw [← hcs]; simp [h1]
  · refine List.pairwise_cons.mpr ⟨fun y hy => Nat.zero_le _, ?_⟩
    rw [← hcs]; exact h3.imp (fun h => Nat.le_of_lt h)
  · intro b hb
    have hmono : (0 :: x :: xs).Pairwise (· ≤ ·) := by
      refine List.pairwise_cons.mpr ⟨fun y hy => Nat.zero_le _, ?_⟩
      rw [← hcs]; exact h3.imp (fun h => Nat.le_of_lt h)
    exact le_last_of_mono _ _ hmono hlast' b hb

end Dask.Repart
