/-
More lemmas for `Model/OptBW.lean`: a result of the fuelled loops does not change with more fuel (`innerLoop_mono'`,
`outerLoop_mono`), and what a merge of `fuse_roots` guarantees (`MergeOK`, `fuseRoots_spec`).
-/
import DaskModel.Lemmas.OptBW
namespace Dask.OptBW

/-! ### fuel: more fuel never changes a result -/
theorem innerLoop_mono {g : Graph} {keep : List Nat} {cfg : Bool} {root : Nat} {R : Layer} (fuel : Nat) :
    ∀ (st r : Inner), innerLoop g keep cfg root R fuel st = some r → innerLoop g keep cfg root R (fuel + 1) st = some r := by
  induction fuel with
  | zero => intro st r h; simp [innerLoop] at h
  | succ fuel ih =>
    intro st r h
    unfold innerLoop at h ⊢
    split
    · rename_i hw; simp only [hw] at h; exact h
    · rename_i dep rest hw
      simp only [hw] at h
      split
      · rename_i hp; simp only [hp] at h; exact ih _ _ h
      · rename_i D hp; simp only [hp] at h; exact ih _ _ h

theorem innerLoop_mono' {g : Graph} {keep : List Nat} {cfg : Bool} {root : Nat} {R : Layer} {fuel : Nat} {st r : Inner}
    (h : innerLoop g keep cfg root R fuel st = some r) (k : Nat) : innerLoop g keep cfg root R (fuel + k) st = some r := by
  induction k with
  | zero => exact h
  | succ k ih => exact innerLoop_mono _ _ _ ih

theorem outerLoop_mono {g : Graph} {keep : List Nat} {cfg : Bool} {fi : Nat} (k j : Nat) (fuel : Nat) :
    ∀ (st r : St), outerLoop g keep cfg fi fuel st = some r → outerLoop g keep cfg (fi + k) (fuel + j) st = some r := by
  induction fuel with
  | zero => intro st r h; simp [outerLoop] at h
  | succ fuel ih =>
    intro st r h
    rw [show fuel + 1 + j = (fuel + j) + 1 by omega]
    unfold outerLoop at h ⊢
    split at h
    · rename_i hs; (try simp only [hs]); exact h
    · rename_i layer rest hs
      (try simp only [hs])
      split at h
      · rename_i hc; rw [if_pos hc]; exact ih _ _ h
      · rename_i hc
        rw [if_neg hc]
        split at h
        · rename_i hn; (try simp only [hn]); exact ih _ _ h
        · rename_i R hR
          (try simp only [hR])
          split at h
          · rename_i hbw
            rw [if_pos hbw]
            split at h
            · simp at h
            · rename_i i hi
              rw [innerLoop_mono' hi k]
              exact ih _ _ h
          · rename_i hbw
            rw [if_neg hbw]
            exact ih _ _ h

/-! ### `fuse_roots` -/
theorem annAll_spec {g : Graph} {L : Layer} : ∀ ds : List Nat, annAll g L ds = some true →
    ∀ d ∈ ds, ∃ D, g[d]? = some D ∧ D.ann = L.ann := by
  intro ds
  induction ds with
  | nil => intro _ d hd; simp at hd
  | cons a ds ih =>
    intro h d hd
    unfold annAll at h
    split at h
    · simp at h
    · rename_i D hD
      split at h
      · rename_i he
        rcases List.mem_cons.mp hd with hd | hd
        · subst hd; exact ⟨D, hD, (by simpa using he : L.ann = D.ann).symm⟩
        · exact ih h d hd
      · simp at h

/-- what a merge of `fuse_roots` guarantees: the consumer is a Blockwise layer with at least two dependencies, each used
    by the consumer ONLY and carrying the consumer's annotations -/
def MergeOK (g : Graph) (p : Nat × List Nat) : Prop :=
  ∃ L, g[p.1]? = some L ∧ L.bw = true ∧ p.2 = L.deps ∧ 1 < p.2.length ∧
    ∀ d ∈ p.2, dependents g d = [p.1] ∧ ∃ D, g[d]? = some D ∧ D.ann = L.ann

theorem rootsCond_spec {g : Graph} {st : RSt} {name : Nat} {L : Layer} (hL : g[name]? = some L)
    (h : rootsCond g st L = some true) : MergeOK g (name, L.deps) := by
  unfold rootsCond at h
  split at h
  · simp at h
  · rename_i h0
    split at h
    · simp at h
    · simp at h
    · split at h
      · simp at h
      · rename_i h1
        have h0' : L.bw = true ∧ 1 < L.deps.length := by simpa using h0
        have h1' : ∀ d ∈ L.deps, (dependents g d).length = 1 := by simpa using h1
        refine ⟨L, hL, h0'.1, rfl, h0'.2, fun d hd => ⟨?_, annAll_spec _ h d hd⟩⟩
        have hm : name ∈ dependents g d := mem_dependents.mpr ⟨L, hL, hd⟩
        have hl := h1' d hd
        match hdep : dependents g d, hl, hm with
        | [a], _, hm => simp at hm; subst hm; rfl

theorem fuseRoots_spec {g : Graph} : ∀ (order : List Nat) (st r : RSt), fuseRoots g order st = some r →
    (∀ p ∈ st.fusedR, MergeOK g p) → ∀ p ∈ r.fusedR, MergeOK g p := by
  intro order
  induction order with
  | nil => intro st r h inv; simp only [fuseRoots, Option.some.injEq] at h; subst h; exact inv
  | cons name rest ih =>
    intro st r h inv
    unfold fuseRoots at h
    split at h
    · simp at h
    · rename_i L hL
      split at h
      · simp at h
      · rename_i hc
        apply ih _ _ h
        intro p hp
        rcases List.mem_append.mp hp with hp | hp
        · exact inv p hp
        · have : p = (name, L.deps) := by simpa using hp
          subst this
          exact rootsCond_spec hL hc
      · exact ih _ _ h inv
end Dask.OptBW
