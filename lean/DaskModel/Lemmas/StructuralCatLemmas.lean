import DaskModel.Lemmas.StructuralOpsLemmas
/-! Lemmas for concatenation of 2-d block tables, block, tile and the constant pad (C24). -/
namespace Dask.Structural
open Dask.Chunks

theorem blockOf_append : ∀ (a b : List Nat) (p : Nat),
    blockOf (a ++ b) p = if p < sum a then blockOf a p else (blockOf b (p - sum a)).map (fun jo => (jo.1 + a.length, jo.2))
  | [], b, p => by
    simp only [List.nil_append, sum, List.foldr_nil, Nat.not_lt_zero, if_false, Nat.sub_zero, List.length_nil, Nat.add_zero]
    cases blockOf b p <;> rfl
  | c :: a, b, p => by
    simp only [List.cons_append, blockOf, sum_cons]
    by_cases h : p < c
    · have : p < c + sum a := by omega
      simp [h, this]
    · simp only [h, if_false]
      rw [blockOf_append a b (p - c)]
      by_cases h2 : p - c < sum a
      · have : p < c + sum a := by omega
        simp [h2, this]
      · have : ¬ p < c + sum a := by omega
        simp only [h2, this, if_false]
        have e : p - c - sum a = p - (c + sum a) := by omega
        rw [e]
        cases blockOf b (p - (c + sum a)) with
        | none => rfl
        | some jo => simp [Nat.add_assoc]

theorem blockOf_idx_lt {cs : List Nat} {p b o : Nat} (h : blockOf cs p = some (b, o)) : b < cs.length := by
  obtain ⟨c, hc, _, _⟩ := blockOf_spec h
  rcases Nat.lt_or_ge b cs.length with h1 | h1
  · exact h1
  · rw [List.getElem?_eq_none h1] at hc; cases hc

theorem Grid.hcat_read {α} (g1 g2 : Grid α) (p q : Nat) :
    (g1.hcat g2).read p q = if q < sum g1.cc then g1.read p q else (Grid.mk g1.rc g2.cc g2.blk).read p (q - sum g1.cc) := by
  unfold Grid.read Grid.hcat
  simp only
  rw [blockOf_append]
  cases hi : blockOf g1.rc p with
  | none => by_cases hq : q < sum g1.cc <;> simp [hq]
  | some ir =>
    obtain ⟨i, r⟩ := ir
    by_cases hq : q < sum g1.cc
    · simp only [hq, if_true]
      cases hj : blockOf g1.cc q with
      | none => rfl
      | some js =>
        obtain ⟨j, s⟩ := js
        simp [blockOf_idx_lt hj]
    · simp only [hq, if_false]
      cases hj : blockOf g2.cc (q - sum g1.cc) with
      | none => rfl
      | some js =>
        obtain ⟨j, s⟩ := js
        have : ¬ (j + g1.cc.length < g1.cc.length) := by omega
        simp [this]

theorem Grid.vcat_read {α} (g1 g2 : Grid α) (p q : Nat) :
    (g1.vcat g2).read p q = if p < sum g1.rc then g1.read p q else (Grid.mk g2.rc g1.cc g2.blk).read (p - sum g1.rc) q := by
  unfold Grid.read Grid.vcat
  simp only
  rw [blockOf_append]
  by_cases hp : p < sum g1.rc
  · simp only [hp, if_true]
    cases hi : blockOf g1.rc p with
    | none => rfl
    | some ir =>
      obtain ⟨i, r⟩ := ir
      cases hj : blockOf g1.cc q with
      | none => rfl
      | some js =>
        obtain ⟨j, s⟩ := js
        simp [blockOf_idx_lt hi]
  · simp only [hp, if_false]
    cases hi : blockOf g2.rc (p - sum g1.rc) with
    | none => rfl
    | some ir =>
      obtain ⟨i, r⟩ := ir
      cases hj : blockOf g1.cc q with
      | none => rfl
      | some js =>
        obtain ⟨j, s⟩ := js
        have : ¬ (i + g1.rc.length < g1.rc.length) := by omega
        simp [this]


theorem Grid.hrep_rc {α} (g : Grid α) : ∀ n, (g.hrep n).rc = g.rc
  | 0 => rfl
  | n + 1 => rfl

theorem Grid.vrep_cc {α} (g : Grid α) : ∀ n, (g.vrep n).cc = g.cc
  | 0 => rfl
  | n + 1 => rfl

theorem Grid.hrep_cc_sum {α} (g : Grid α) : ∀ n, sum (g.hrep n).cc = n * sum g.cc
  | 0 => by simp [Grid.hrep, sum]
  | n + 1 => by
    show sum (g.cc ++ (g.hrep n).cc) = _
    rw [sum_append, Grid.hrep_cc_sum g n, Nat.succ_mul]; omega

theorem Grid.vrep_rc_sum {α} (g : Grid α) : ∀ n, sum (g.vrep n).rc = n * sum g.rc
  | 0 => by simp [Grid.vrep, sum]
  | n + 1 => by
    show sum (g.rc ++ (g.vrep n).rc) = _
    rw [sum_append, Grid.vrep_rc_sum g n, Nat.succ_mul]; omega

theorem Grid.hrep_read {α} (g : Grid α) : ∀ (n p q : Nat), q < n * sum g.cc →
    (g.hrep n).read p q = g.read p (q % sum g.cc)
  | 0, p, q, h => by omega
  | n + 1, p, q, h => by
    show (g.hcat (g.hrep n)).read p q = _
    rw [Grid.hcat_read]
    by_cases hq : q < sum g.cc
    · rw [if_pos hq, Nat.mod_eq_of_lt hq]
    · rw [if_neg hq]
      have e : Grid.mk g.rc (g.hrep n).cc (g.hrep n).blk = g.hrep n := by
        have := Grid.hrep_rc g n
        cases hh : g.hrep n with
        | mk rc cc blk => rw [hh] at this; simp at this; subst this; rfl
      rw [e, Grid.hrep_read g n p (q - sum g.cc) (by rw [Nat.succ_mul] at h; omega)]
      congr 1
      have : q = (q - sum g.cc) + sum g.cc := by omega
      conv => rhs; rw [this, Nat.add_mod_right]

theorem Grid.vrep_read {α} (g : Grid α) : ∀ (n p q : Nat), p < n * sum g.rc →
    (g.vrep n).read p q = g.read (p % sum g.rc) q
  | 0, p, q, h => by omega
  | n + 1, p, q, h => by
    show (g.vcat (g.vrep n)).read p q = _
    rw [Grid.vcat_read]
    by_cases hp : p < sum g.rc
    · rw [if_pos hp, Nat.mod_eq_of_lt hp]
    · rw [if_neg hp]
      have e : Grid.mk (g.vrep n).rc g.cc (g.vrep n).blk = g.vrep n := by
        have := Grid.vrep_cc g n
        cases hh : g.vrep n with
        | mk rc cc blk => rw [hh] at this; simp at this; subst this; rfl
      rw [e, Grid.vrep_read g n (p - sum g.rc) q (by rw [Nat.succ_mul] at h; omega)]
      congr 1
      have : p = (p - sum g.rc) + sum g.rc := by omega
      conv => rhs; rw [this, Nat.add_mod_right]

theorem Grid.tile_read {α} (g : Grid α) (r0 r1 p q : Nat) (hp : p < r0 * sum g.rc) (hq : q < r1 * sum g.cc) :
    (g.tile r0 r1).read p q = g.read (p % sum g.rc) (q % sum g.cc) := by
  unfold Grid.tile
  have hrc : sum (g.hrep r1).rc = sum g.rc := by rw [Grid.hrep_rc]
  rw [Grid.vrep_read (g.hrep r1) r0 p q (by rw [hrc]; exact hp), hrc, Grid.hrep_read g r1 _ q hq]

theorem block2x2_read {α} (r1 r2 c1 c2 : List Nat) (A B C D : Nat → Nat → α) (p q : Nat)
    (hp : p < sum r1 + sum r2) (hq : q < sum c1 + sum c2) :
    (block2x2 (Grid.ofFn r1 c1 A) (Grid.ofFn r1 c2 B) (Grid.ofFn r2 c1 C) (Grid.ofFn r2 c2 D)).read p q =
      some (if p < sum r1 then (if q < sum c1 then A p q else B p (q - sum c1))
            else (if q < sum c1 then C (p - sum r1) q else D (p - sum r1) (q - sum c1))) := by
  unfold block2x2
  rw [Grid.vcat_read]
  show (if p < sum r1 then ((Grid.ofFn r1 c1 A).hcat (Grid.ofFn r1 c2 B)).read p q
        else (Grid.mk r2 (c1 ++ c2) ((Grid.ofFn r2 c1 C).hcat (Grid.ofFn r2 c2 D)).blk).read (p - sum r1) q) = _
  have e : Grid.mk r2 (c1 ++ c2) ((Grid.ofFn r2 c1 C).hcat (Grid.ofFn r2 c2 D)).blk
      = (Grid.ofFn r2 c1 C).hcat (Grid.ofFn r2 c2 D) := rfl
  rw [e, Grid.hcat_read, Grid.hcat_read]
  show (if p < sum r1 then (if q < sum c1 then (Grid.ofFn r1 c1 A).read p q else (Grid.ofFn r1 c2 B).read p (q - sum c1))
        else (if q < sum c1 then (Grid.ofFn r2 c1 C).read (p - sum r1) q else (Grid.ofFn r2 c2 D).read (p - sum r1) (q - sum c1))) = _
  by_cases h1 : p < sum r1 <;> by_cases h2 : q < sum c1 <;> simp only [h1, h2, if_true, if_false]
  · exact Grid.read_ofFn r1 c1 A p q h1 h2
  · exact Grid.read_ofFn r1 c2 B p _ h1 (by omega)
  · exact Grid.read_ofFn r2 c1 C _ q (by omega) h2
  · exact Grid.read_ofFn r2 c2 D _ _ (by omega) (by omega)


/-! constant pad -/
theorem padChunks_sum (c : Bool) (chunks : List Nat) (w : Nat) : sum (padChunks c chunks w) = w := by
  unfold padChunks
  split
  · simp [sum]
  · dsimp only
    split
    · simp [sum]
    · rw [sum_append, sum_replicate]
      have := Nat.div_add_mod w (chunks.foldr max 0)
      split
      · simp only [sum_cons, sum, List.foldr_nil, Nat.add_zero]
        rw [Nat.mul_comm]; exact this
      · rename_i h
        have h0 : w % chunks.foldr max 0 = 0 := by simpa using h
        simp only [sum, List.foldr_nil, Nat.add_zero]
        rw [Nat.mul_comm]; omega

theorem splitBy_flatten_of_sum {α} : ∀ (cs : List Nat) (xs : List α), xs.length = sum cs → (splitBy cs xs).flatten = xs
  | [], xs, h => by
    have : xs = [] := by simpa [sum] using h
    subst this; simp [splitBy]
  | c :: cs, xs, h => by
    rw [sum_cons] at h
    simp only [splitBy, List.flatten_cons]
    rw [splitBy_flatten_of_sum cs (xs.drop c) (by simp; omega), List.take_append_drop]

theorem padConstBlocks_flatten {α} (chunks : List Nat) (blocks : List (List α)) (l r : Nat) (v : α) :
    (padConstBlocks chunks blocks l r v).flatten = List.replicate l v ++ blocks.flatten ++ List.replicate r v := by
  unfold padConstBlocks
  rw [List.flatten_append, List.flatten_append,
    splitBy_flatten_of_sum _ _ (by rw [padChunks_sum]; simp), splitBy_flatten_of_sum _ _ (by rw [padChunks_sum]; simp)]

end Dask.Structural
