import DaskModel.Lemmas.TruthfulPaths
/-! C44/C41: soundness of the layer certificate `Repart.layerOK` — every `RepartitionDivisions` layer that passes it
    keeps rows and order and yields partitions truthful for the new divisions, for every truthful frame whose
    partitions are sorted by index. Core Lean only. -/
namespace Dask.Repart
open Dask.Divs

/-- the rows of a partition are in index order -/
def KeySorted {α : Type} (key : α → Nat) (p : List α) : Prop := p.Pairwise (fun x y => key x ≤ key y)

theorem filter_split_sorted {α : Type} (key : α → Nat) (h : Nat) :
    ∀ p : List α, KeySorted key p →
      p.filter (fun r => decide (key r < h)) ++ p.filter (fun r => decide (h ≤ key r)) = p
  | [], _ => rfl
  | x :: xs, hs => by
    have hs' : KeySorted key xs := (List.pairwise_cons.mp hs).2
    by_cases hx : key x < h
    · have hx' : ¬ h ≤ key x := by omega
      simp only [List.filter_cons, hx, decide_true, if_true, hx', decide_false, Bool.false_eq_true, if_false,
        List.cons_append]
      rw [filter_split_sorted key h xs hs']
    · have hx' : h ≤ key x := by omega
      have hall : ∀ y ∈ x :: xs, h ≤ key y := by
        intro y hy
        rcases List.mem_cons.mp hy with rfl | hy
        · exact hx'
        · have := (List.pairwise_cons.mp hs).1 y hy
          omega
      have h1 : (x :: xs).filter (fun r => decide (key r < h)) = [] := by
        rw [List.filter_eq_nil_iff]
        intro y hy
        have := hall y hy
        simp only [decide_eq_true_eq]
        omega
      have h2 : (x :: xs).filter (fun r => decide (h ≤ key r)) = x :: xs := by
        rw [List.filter_eq_self]
        intro y hy
        simpa using hall y hy
      rw [h1, h2, List.nil_append]

theorem KeySorted.filter {α : Type} {key : α → Nat} {p : List α} (h : KeySorted key p) (f : α → Bool) :
    KeySorted key (p.filter f) :=
  List.Pairwise.sublist List.filter_sublist h

def headLo : List Slice → Nat
  | [] => 0
  | s :: _ => s.lo

/-- the slices of one chain, applied to a sorted partition inside `[A, B)` / `[A, B]`, give back (in order)
    exactly the rows at or above the chain's first lower bound -/
theorem chain_flatten {α : Type} (key : α → Nat) (A B : Nat) (closed : Bool) (p : List α)
    (hs : KeySorted key p) (hr : ∀ r ∈ p, A ≤ key r ∧ (if closed then key r ≤ B else key r < B)) :
    ∀ blk : List Slice, chainOK A B closed blk = true →
      (blk.map fun s => boundarySlice key p s.lo s.hi s.rb).flatten =
        p.filter (fun r => decide (headLo blk ≤ key r))
  | [], h => by simp [chainOK] at h
  | [s], h => by
    simp only [chainOK, Bool.and_eq_true, Bool.or_eq_true, decide_eq_true_eq] at h
    simp only [List.map_cons, List.map_nil, List.flatten_cons, List.flatten_nil, List.append_nil, headLo,
      boundarySlice]
    apply List.filter_congr
    intro r hrm
    obtain ⟨_, hup⟩ := hr r hrm
    have hupper : (decide (key r < s.hi) || (s.rb && key r == s.hi)) = true := by
      by_cases hc : closed = true
      · simp only [hc, if_true, Bool.or_eq_true, Bool.and_eq_true, decide_eq_true_eq] at hup h
        rcases h.2 with h2 | ⟨h2, h3⟩
        · simp only [Bool.or_eq_true, decide_eq_true_eq]; left; omega
        · by_cases hk : key r < s.hi
          · simp [hk]
          · have : key r = s.hi := by omega
            simp [h3, this]
      · simp only [hc, Bool.false_eq_true, if_false, decide_eq_true_eq] at hup h
        simp only [Bool.or_eq_true, decide_eq_true_eq]; left; omega
    rw [hupper, Bool.and_true]
    first | rfl | exact decide_eq_decide.mpr Iff.rfl
  | s :: t :: rest, h => by
    simp only [chainOK, Bool.and_eq_true, Bool.or_eq_true, decide_eq_true_eq, Bool.not_eq_true'] at h
    obtain ⟨⟨⟨hlo, hrb⟩, hhi⟩, hrest⟩ := h
    have ih := chain_flatten key A B closed p hs hr (t :: rest) hrest
    simp only [List.map_cons, List.flatten_cons] at ih ⊢
    rw [ih]
    simp only [headLo]
    have hslice : boundarySlice key p s.lo s.hi s.rb =
        (p.filter (fun r => decide (s.lo ≤ key r))).filter (fun r => decide (key r < s.hi)) := by
      unfold boundarySlice
      rw [List.filter_filter]
      apply List.filter_congr
      intro r _
      simp [hrb, Bool.and_comm]
    have hrest2 : p.filter (fun r => decide (t.lo ≤ key r)) =
        (p.filter (fun r => decide (s.lo ≤ key r))).filter (fun r => decide (s.hi ≤ key r)) := by
      rw [List.filter_filter, ← hhi]
      apply List.filter_congr
      intro r hrm
      have hA := (hr r hrm).1
      by_cases hk : s.hi ≤ key r
      · have : s.lo ≤ key r := by rcases hlo with h1 | h1 <;> omega
        simp [hk, this]
      · simp [hk]
    have key2 := filter_split_sorted key s.hi _ (hs.filter (fun r => decide (s.lo ≤ key r)))
    rw [← hslice, ← hrest2] at key2
    exact key2

/-! ### all blocks -/

theorem mapM_eq_map {α β : Type} (f : α → Option β) (g : α → β) :
    ∀ l : List α, (∀ x ∈ l, f x = some (g x)) → l.mapM f = some (l.map g)
  | [], _ => rfl
  | x :: xs, h => by
    have h1 := h x List.mem_cons_self
    have h2 := mapM_eq_map f g xs (fun y hy => h y (List.mem_cons_of_mem _ hy))
    simp [List.mapM_cons, h1, h2]

theorem mapM_append_some {α β : Type} (f : α → Option β) :
    ∀ (l1 l2 : List α) (r1 r2 : List β), l1.mapM f = some r1 → l2.mapM f = some r2 →
      (l1 ++ l2).mapM f = some (r1 ++ r2)
  | [], l2, r1, r2, h1, h2 => by
    simp at h1; subst h1; simpa using h2
  | x :: xs, l2, r1, r2, h1, h2 => by
    simp only [List.mapM_cons, Option.bind_eq_bind, Option.bind_eq_some_iff, Option.pure_def,
      Option.some.injEq] at h1
    obtain ⟨y, hy, ys, hys, rfl⟩ := h1
    have ih := mapM_append_some f xs l2 ys r2 hys h2
    simp [List.mapM_cons, hy, ih]

theorem mem_takeWhile_prop {α : Type} (f : α → Bool) : ∀ (l : List α) (x : α), x ∈ l.takeWhile f → f x = true
  | [], _, h => by simp at h
  | y :: ys, x, h => by
    simp only [List.takeWhile_cons] at h
    split at h
    · rename_i hy
      rcases List.mem_cons.mp h with rfl | h
      · exact hy
      · exact mem_takeWhile_prop f ys x h
    · simp at h

/-- one `out1` task evaluated on the partitions -/
def pieceOf {α : Type} (key : α → Nat) (all : List (List α)) (s : Slice) : Option (List α) :=
  (all[s.src]?).map fun p => boundarySlice key p s.lo s.hi s.rb

/-- partition `m + i` exists, is sorted by index and lies in the `i`-th interval (the last one closed) -/
def PartsIn {α : Type} (key : α → Nat) (all : List (List α)) (prs : List (Nat × Nat)) (m : Nat) : Prop :=
  ∀ i A B, prs[i]? = some (A, B) → ∃ p, all[m + i]? = some p ∧ KeySorted key p ∧
    ∀ r ∈ p, A ≤ key r ∧ (if i + 1 = prs.length then key r ≤ B else key r < B)

theorem blocks_flatten {α : Type} (key : α → Nat) (all : List (List α)) :
    ∀ (prs : List (Nat × Nat)) (m : Nat) (sl : List Slice), blocksOK prs m sl = true → PartsIn key all prs m →
      ∃ pieces, sl.mapM (pieceOf key all) = some pieces ∧
        pieces.flatten = ((all.drop m).take prs.length).flatten
  | [], m, sl, h, _ => by
    simp only [blocksOK, List.isEmpty_iff] at h
    subst h
    exact ⟨[], rfl, by simp⟩
  | (A, B) :: rest, m, sl, h, hp => by
    simp only [blocksOK, Bool.and_eq_true] at h
    obtain ⟨hblk, hrest⟩ := h
    obtain ⟨p0, hp0, hs0, hr0⟩ := hp 0 A B rfl
    simp only [Nat.add_zero] at hp0
    have hp' : PartsIn key all rest (m + 1) := by
      intro i A' B' hi
      obtain ⟨p, h1, h2, h3⟩ := hp (i + 1) A' B' (by simpa using hi)
      refine ⟨p, by rw [← h1]; congr 1; omega, h2, ?_⟩
      intro r hr
      have := h3 r hr
      simp only [List.length_cons, Nat.add_right_cancel_iff] at this
      exact this
    obtain ⟨pieces', hm', hf'⟩ := blocks_flatten key all rest (m + 1) _ hrest hp'
    -- the block of partition `m`
    have hblk' := hblk
    unfold blockOK at hblk'
    cases hb : sl.takeWhile (·.src == m) with
    | nil => rw [hb] at hblk'; simp at hblk'
    | cons s0 blk' =>
      rw [hb] at hblk'
      simp only [Bool.and_eq_true, decide_eq_true_eq] at hblk'
      obtain ⟨hlo0, hchain⟩ := hblk'
      have hr0' : ∀ r ∈ p0, A ≤ key r ∧ (if rest.isEmpty then key r ≤ B else key r < B) := by
        intro r hr
        have := hr0 r hr
        refine ⟨this.1, ?_⟩
        cases rest with
        | nil => simpa using this.2
        | cons _ _ => simpa using this.2
      have hflat := chain_flatten key A B rest.isEmpty p0 hs0 hr0' (s0 :: blk') hchain
      have hfull : p0.filter (fun r => decide (headLo (s0 :: blk') ≤ key r)) = p0 := by
        rw [List.filter_eq_self]
        intro r hr
        have := (hr0 r hr).1
        simp only [headLo]
        exact decide_eq_true (by omega)
      rw [hfull] at hflat
      have hmap : (s0 :: blk').mapM (pieceOf key all) =
          some ((s0 :: blk').map fun s => boundarySlice key p0 s.lo s.hi s.rb) := by
        apply mapM_eq_map
        intro s hs
        have hsrc : s.src = m := by
          have : s ∈ sl.takeWhile (·.src == m) := by rw [hb]; exact hs
          simpa using mem_takeWhile_prop _ _ _ this
        unfold pieceOf
        rw [hsrc, hp0]; rfl
      refine ⟨((s0 :: blk').map fun s => boundarySlice key p0 s.lo s.hi s.rb) ++ pieces', ?_, ?_⟩
      · have := mapM_append_some (pieceOf key all) _ _ _ _ hmap hm'
        have hsl : s0 :: blk' ++ sl.dropWhile (·.src == m) = sl := by
          rw [← hb]; exact List.takeWhile_append_dropWhile
        rw [hsl] at this
        exact this
      · rw [List.flatten_append, hflat, hf']
        have hm : m < all.length := (List.getElem?_eq_some_iff.mp hp0).1
        have hp0' : all[m] = p0 := (List.getElem?_eq_some_iff.mp hp0).2
        rw [List.drop_eq_getElem_cons hm, List.length_cons, List.take_succ_cons, List.flatten_cons, hp0']

/-! ### grouping the pieces into the new partitions -/

theorem flatten_map_flatten {β : Type} (g : Nat → List β) :
    ∀ outIdx : List (List Nat), (outIdx.map fun ks => (ks.map g).flatten).flatten = (outIdx.flatten.map g).flatten
  | [] => rfl
  | ks :: rest => by
    simp only [List.map_cons, List.flatten_cons, List.map_append, List.flatten_append,
      flatten_map_flatten g rest]

theorem range_map_getD {β : Type} (pieces : List (List β)) :
    (List.range pieces.length).map (fun k => pieces.getD k []) = pieces := by
  apply List.ext_getElem?
  intro i
  rcases Nat.lt_or_ge i pieces.length with h | h
  · simp [h, List.getD_eq_getElem?_getD]
  · simp [h]

theorem out_eval {β : Type} (pieces : List (List β)) (outIdx : List (List Nat))
    (h : ∀ ks ∈ outIdx, ∀ k ∈ ks, k < pieces.length) :
    outIdx.mapM (fun ks => (ks.mapM fun k => pieces[k]?).map List.flatten) =
      some (outIdx.map fun ks => (ks.map fun k => pieces.getD k []).flatten) := by
  apply mapM_eq_map
  intro ks hks
  have : ks.mapM (fun k => pieces[k]?) = some (ks.map fun k => pieces.getD k []) := by
    apply mapM_eq_map
    intro k hk
    have hlt := h ks hks k hk
    simp [List.getD_eq_getElem?_getD, List.getElem?_eq_getElem hlt]
  rw [this]; rfl

theorem groupsFit_get (a : List Nat) (sl : List Slice) :
    ∀ (prs : List (Nat × Nat)) (outs : List (List Nat)), groupsFit a sl prs outs = true →
      prs.length = outs.length ∧
      ∀ j lo hi ks, prs[j]? = some (lo, hi) → outs[j]? = some ks →
        groupFits a sl lo hi (decide (j + 1 = prs.length)) ks = true
  | [], [], _ => ⟨rfl, by intro j lo hi ks h; simp at h⟩
  | [], _ :: _, h => by simp [groupsFit] at h
  | _ :: _, [], h => by simp [groupsFit] at h
  | (lo0, hi0) :: rest, ks0 :: more, h => by
    simp only [groupsFit, Bool.and_eq_true] at h
    obtain ⟨h0, hrest⟩ := h
    obtain ⟨ihl, ih⟩ := groupsFit_get a sl rest more hrest
    refine ⟨by simp [ihl], ?_⟩
    intro j lo hi ks hj hk
    cases j with
    | zero =>
      simp only [List.getElem?_cons_zero, Option.some.injEq, Prod.mk.injEq] at hj hk
      obtain ⟨rfl, rfl⟩ := hj
      subst hk
      have : decide (0 + 1 = ((lo0, hi0) :: rest).length) = rest.isEmpty := by
        cases rest <;> simp
      rw [this]; exact h0
    | succ j =>
      simp only [List.getElem?_cons_succ] at hj hk
      have := ih j lo hi ks hj hk
      simpa using this

theorem mem_boundarySlice {α : Type} {key : α → Nat} {p : List α} {lo hi : Nat} {rb : Bool} {r : α}
    (h : r ∈ boundarySlice key p lo hi rb) :
    r ∈ p ∧ lo ≤ key r ∧ (key r < hi ∨ (rb = true ∧ key r = hi)) := by
  unfold boundarySlice at h
  simp only [List.mem_filter, Bool.and_eq_true, Bool.or_eq_true, decide_eq_true_eq, beq_iff_eq] at h
  exact h

/-- **soundness of the layer certificate.** For every frame truthful for the old divisions `a` whose partitions
    are in index order, a layer passing `layerOK a b` evaluates (no missing key), returns the rows of the frame in
    the same order, and its partitions are truthful for the new divisions `b`. -/
theorem layer_sound {α : Type} (key : α → Nat) (parts : List (List α)) (a b : List Nat) (L : DLayer)
    (ht : Truthful key a parts) (hsorted : ∀ p ∈ parts, KeySorted key p)
    (hb : b.Pairwise (· ≤ ·)) (hb1 : b ≠ []) (hok : layerOK a b L = true) :
    ∃ out, evalDivisions key parts L = some out ∧ out.flatten = parts.flatten ∧ Truthful key b out := by
  obtain ⟨hlen, _, hrows⟩ := ht
  simp only [layerOK, Bool.and_eq_true, beq_iff_eq] at hok
  obtain ⟨⟨hrange, hblocks⟩, hfit⟩ := hok
  have hpl : (pairs a).length = parts.length := by rw [pairs_length]; omega
  -- the pieces
  have hin : PartsIn key parts (pairs a) 0 := by
    intro i A B hi
    obtain ⟨hA, hB⟩ := (pairs_getElem? a i A B).mp hi
    have hilt : i < parts.length := by
      have := (List.getElem?_eq_some_iff.mp hB).1; omega
    refine ⟨parts[i], by simp [List.getElem?_eq_getElem hilt], hsorted _ (List.getElem_mem hilt), ?_⟩
    intro r hr
    have := hrows i parts[i] A B (List.getElem?_eq_getElem hilt) hA hB r hr
    refine ⟨this.1, ?_⟩
    rw [hpl]
    split
    · rcases this.2 with h | h <;> omega
    · rcases this.2 with h | h <;> omega
  obtain ⟨pieces, hpieces, hpflat⟩ := blocks_flatten key parts (pairs a) 0 L.slices hblocks hin
  have hpflat' : pieces.flatten = parts.flatten := by
    rw [hpflat, hpl]; simp
  obtain ⟨hplen, hpget⟩ := mapM_getElem? _ _ _ hpieces
  have hbound : ∀ ks ∈ L.out, ∀ k ∈ ks, k < pieces.length := by
    intro ks hks k hk
    have : k ∈ L.out.flatten := List.mem_flatten.mpr ⟨ks, hks, hk⟩
    rw [hrange] at this
    rw [hplen]; simpa using this
  refine ⟨L.out.map fun ks => (ks.map fun k => pieces.getD k []).flatten, ?_, ?_, ?_⟩
  · unfold evalDivisions
    have : (L.slices.mapM fun s => (parts[s.src]?).map fun p => boundarySlice key p s.lo s.hi s.rb) = some pieces :=
      hpieces
    rw [this]
    exact out_eval pieces L.out hbound
  · rw [flatten_map_flatten, hrange, ← hplen, range_map_getD, hpflat']
  · obtain ⟨hgl, hget⟩ := groupsFit_get a L.slices (pairs b) L.out hfit
    have hbl : 0 < b.length := List.length_pos_iff.mpr hb1
    have hprl : (pairs b).length = b.length - 1 := pairs_length b
    refine ⟨by simp only [List.length_map]; omega, hb, ?_⟩
    intro j p lo hi hp hlo hhi r hr
    simp only [List.getElem?_map, Option.map_eq_some_iff] at hp
    obtain ⟨ks, hks, rfl⟩ := hp
    have hj := (pairs_getElem? b j lo hi).mpr ⟨hlo, hhi⟩
    have hfits := hget j lo hi ks hj hks
    obtain ⟨pc, hpc, hrpc⟩ := List.mem_flatten.mp hr
    obtain ⟨k, hk, rfl⟩ := List.mem_map.mp hpc
    unfold groupFits at hfits
    have hfk := List.all_eq_true.mp hfits k hk
    cases hsk : L.slices[k]? with
    | none => rw [hsk] at hfk; simp at hfk
    | some s =>
      rw [hsk] at hfk
      simp only at hfk
      cases hA : a[s.src]? with
      | none => rw [hA] at hfk; simp at hfk
      | some A =>
        cases hB : a[s.src + 1]? with
        | none => rw [hA, hB] at hfk; simp at hfk
        | some B =>
          rw [hA, hB] at hfk
          simp only at hfk
          obtain ⟨y, hy, hfy⟩ := hpget k s hsk
          have hgd : pieces.getD k [] = y := by simp [List.getD_eq_getElem?_getD, hy]
          rw [hgd] at hrpc
          have hfy' : (parts[s.src]?).map (fun p => boundarySlice key p s.lo s.hi s.rb) = some y := hfy
          simp only [Option.map_eq_some_iff] at hfy'
          obtain ⟨pm, hpm, rfl⟩ := hfy'
          obtain ⟨hrp, hrlo, hrhi⟩ := mem_boundarySlice hrpc
          have htr := hrows s.src pm A B hpm hA hB r hrp
          simp only [pieceFits, Bool.and_eq_true, Bool.or_eq_true, decide_eq_true_eq, Bool.not_eq_true'] at hfk
          simp only [List.length_map]
          obtain ⟨hlow, hup⟩ := hfk
          refine ⟨by rcases hlow with h | h <;> omega, ?_⟩
          have hjl : (j + 1 = (pairs b).length) ↔ (j + 1 = L.out.length) := by rw [hgl]
          rcases hup with ⟨h1, h2⟩ | ⟨h1, h2⟩
          · rcases hrhi with h3 | ⟨h3, h4⟩
            · left; omega
            · rcases h2 with (h2 | h2) | h2
              · rw [h3] at h2; cases h2
              · right; exact ⟨hjl.mp h2, by omega⟩
              · left; omega
          · rcases htr.2 with h3 | ⟨h3, h4⟩
            · left; omega
            · rcases h2 with (h2 | h2) | h2
              · exfalso
                have : s.src + 2 ≠ a.length := by simpa using h2
                omega
              · right; exact ⟨hjl.mp h2, by omega⟩
              · left; omega

end Dask.Repart
