import DaskModel.Model.TreeReduce
/-! Helper lemmas for C37: `partition_all` and monoid folds. -/
namespace Dask.TreeReduce

theorem partitionAllAux_flatten (k : Nat) (hk : 1 ≤ k) :
    ∀ (fuel : Nat) (xs : List α), xs.length ≤ fuel → (partitionAllAux k fuel xs).flatten = xs := by
  intro fuel
  induction fuel with
  | zero => intro xs h; have : xs = [] := List.length_eq_zero_iff.mp (by omega); simp [partitionAllAux, this]
  | succ fuel ih =>
    intro xs h
    simp only [partitionAllAux]
    cases xs with
    | nil => simp
    | cons x rest =>
      simp only [List.isEmpty_cons, Bool.false_eq_true, if_false, List.flatten_cons]
      rw [ih _ (by simp only [List.length_drop, List.length_cons] at h ⊢; omega)]
      exact List.take_append_drop k (x :: rest)

theorem partitionAll_flatten (k : Nat) (hk : 1 ≤ k) (xs : List α) : (partitionAll k xs).flatten = xs :=
  partitionAllAux_flatten k hk xs.length xs (Nat.le_refl _)

theorem partitionAllAux_nonempty (k : Nat) (hk : 1 ≤ k) :
    ∀ (fuel : Nat) (xs : List α), ∀ b ∈ partitionAllAux k fuel xs, b ≠ [] := by
  intro fuel
  induction fuel with
  | zero => intro xs b hb; simp [partitionAllAux] at hb
  | succ fuel ih =>
    intro xs b hb
    simp only [partitionAllAux] at hb
    cases xs with
    | nil => simp at hb
    | cons x rest =>
      simp only [List.isEmpty_cons, Bool.false_eq_true, if_false, List.mem_cons] at hb
      rcases hb with hb | hb
      · subst hb
        cases k with
        | zero => omega
        | succ k => simp
      · exact ih _ b hb

theorem partitionAll_nonempty (k : Nat) (hk : 1 ≤ k) (xs : List α) : ∀ b ∈ partitionAll k xs, b ≠ [] :=
  partitionAllAux_nonempty k hk xs.length xs

/-- with batches of at least two, the number of batches is at most half the number of keys (rounded up) -/
theorem partitionAllAux_length (k : Nat) (hk : 2 ≤ k) :
    ∀ (fuel : Nat) (xs : List α), 2 * (partitionAllAux k fuel xs).length ≤ xs.length + 1 := by
  intro fuel
  induction fuel with
  | zero => intro xs; simp [partitionAllAux]
  | succ fuel ih =>
    intro xs
    simp only [partitionAllAux]
    cases xs with
    | nil => simp
    | cons x rest =>
      simp only [List.isEmpty_cons, Bool.false_eq_true, if_false, List.length_cons]
      have := ih ((x :: rest).drop k)
      simp only [List.length_drop, List.length_cons] at this
      by_cases hlen : k ≤ rest.length + 1
      · omega
      · have hd : (x :: rest).drop k = [] := List.drop_eq_nil_of_le (by simp only [List.length_cons]; omega)
        rw [hd]
        cases fuel <;> simp [partitionAllAux]

theorem partitionAll_length_lt (k : Nat) (hk : 2 ≤ k) (xs : List α) (h : k < xs.length) :
    (partitionAll k xs).length < xs.length := by
  have := partitionAllAux_length k hk xs.length xs
  unfold partitionAll
  omega

theorem partitionAll_ne_nil (k : Nat) (xs : List α) (h : xs ≠ []) : partitionAll k xs ≠ [] := by
  cases xs with
  | nil => exact absurd rfl h
  | cons x rest => simp [partitionAll, partitionAllAux]

/-- a monoid, as a bare structure (no Mathlib in the model cone) -/
structure Mon (M : Type) where
  op : M → M → M
  e : M
  assoc : ∀ a b c, op (op a b) c = op a (op b c)
  left_id : ∀ a, op e a = a
  right_id : ∀ a, op a e = a

def Mon.fold {M} (m : Mon M) (l : List M) : M := l.foldr m.op m.e

theorem Mon.fold_append {M} (m : Mon M) (a b : List M) : m.fold (a ++ b) = m.op (m.fold a) (m.fold b) := by
  induction a with
  | nil => simp [Mon.fold, m.left_id]
  | cons x xs ih =>
    simp only [Mon.fold, List.cons_append, List.foldr_cons] at ih ⊢
    rw [ih, m.assoc]

theorem Mon.fold_flatten {M} (m : Mon M) (ls : List (List M)) : m.fold (ls.map m.fold) = m.fold ls.flatten := by
  induction ls with
  | nil => simp [Mon.fold]
  | cons l ls ih =>
    simp only [List.map_cons, List.flatten_cons, Mon.fold_append]
    rw [← ih]
    simp [Mon.fold]

/-- a monoid homomorphism from blocks (lists under ++) -/
structure Hom {M ρ} (m : Mon M) (μ : List ρ → M) : Prop where
  nil : μ [] = m.e
  append : ∀ p q, μ (p ++ q) = m.op (μ p) (μ q)

theorem Hom.flatten {M ρ} {m : Mon M} {μ : List ρ → M} (hμ : Hom m μ) (parts : List (List ρ)) :
    m.fold (parts.map μ) = μ parts.flatten := by
  induction parts with
  | nil => simp [Mon.fold, hμ.nil]
  | cons p ps ih =>
    simp only [List.map_cons, List.flatten_cons, hμ.append]
    rw [← ih]
    simp [Mon.fold]

end Dask.TreeReduce
