import DaskModel.Model.Order
import DaskModel.Lemmas.ToposortTotal
/-! Invariants of the normalisation loop of `order` (`strip`): dependents of a stripped non-task leaf were stripped
before it (so the descending priorities `expected_len - 1 - j` respect dependencies). -/
namespace Dask.GraphAlg

theorem Path.snoc {g : Graph} {a b c : Key} (p : Path g a b) (e : Edge g b c) : Path g a c := by
  induction p with
  | single e' => exact Path.cons e' (Path.single e)
  | cons e' _ ih => exact Path.cons e' (ih e)

theorem Path.trans {g : Graph} {a b c : Key} (p : Path g a b) (q : Path g b c) : Path g a c := by
  induction p with
  | single e' => exact Path.cons e' q
  | cons e' _ ih => exact Path.cons e' (ih q)

/-- the first edge of a cycle leads to a key on a cycle -/
theorem Path.cycle_first {g : Graph} {a : Key} (p : Path g a a) : ∃ x, Edge g a x ∧ Path g x x := by
  cases p with
  | single e => exact ⟨a, e, Path.single e⟩
  | cons e q => exact ⟨_, e, q.snoc e⟩

/-- the last edge of a path -/
theorem Path.last {g : Graph} {a b : Key} (p : Path g a b) : ∃ j, Edge g j b ∧ (j = a ∨ Path g a j) := by
  induction p with
  | single e => exact ⟨_, e, Or.inl rfl⟩
  | cons e _ ih =>
    obtain ⟨j, hj, h⟩ := ih
    rcases h with rfl | h
    · exact ⟨j, hj, Or.inr (Path.single e)⟩
    · exact ⟨j, hj, Or.inr (Path.cons e h)⟩

/-- the last edge of a cycle comes from a key on a cycle -/
theorem Path.cycle_last {g : Graph} {a : Key} (p : Path g a a) : ∃ j, Edge g j a ∧ Path g j j := by
  obtain ⟨j, hj, h⟩ := p.last
  rcases h with rfl | h
  · exact ⟨_, hj, p⟩
  · exact ⟨j, hj, (Path.single hj).trans h⟩

end Dask.GraphAlg

namespace Dask.Order
open Dask.GraphAlg

theorem edge_depsOf {g : Graph} {a b : Key} (h : Edge g a b) : b ∈ depsOf g a := by
  obtain ⟨ds, h1, h2⟩ := h
  unfold deps? at h1
  simp [depsOf, h1, h2]

theorem edge_mem_keys {g : Graph} {a b : Key} (h : Edge g a b) : a ∈ g.map Prod.fst := by
  obtain ⟨ds, h1, _⟩ := h
  exact lookup_some_mem_keys g a ds h1

structure SInv (g : Graph) (st : StripSt) : Prop where
  cover : ∀ k ∈ g.map Prod.fst, k ∈ st.alive ∨ k ∈ st.removed
  aliveKeys : ∀ k ∈ st.alive, k ∈ g.map Prod.fst
  disj : ∀ k ∈ st.alive, k ∉ st.removed
  aliveNodup : st.alive.Nodup
  strippedRemoved : ∀ x ∈ st.stripped, x ∈ st.removed
  rootsClosed : ∀ r ∈ st.removed, r ∉ st.stripped → ∀ d ∈ depsOf g r, d ∈ st.removed
  /-- every dependent of a stripped leaf was stripped earlier -/
  before : ∀ A x B, st.stripped = A ++ x :: B → ∀ j ∈ g.map Prod.fst, x ∈ depsOf g j → j ∈ A
  strippedNodup : st.stripped.Nodup
  strippedDeps : ∀ x ∈ st.stripped, 2 ≤ (depsOf g x).length
  removedKeys : ∀ k ∈ st.removed, k ∈ g.map Prod.fst
  /-- a key on a dependency cycle is never removed (neither stripped as a leaf nor removed as a data root) -/
  noCyc : ∀ r ∈ st.removed, ¬ Path g r r

theorem curDeps_eq (g : Graph) (st : StripSt) (k : Key) :
    curDeps g st k = (depsOf g k).filter (fun d => !st.removed.contains d) := rfl

theorem mem_curDependents (g : Graph) (st : StripSt) (k j : Key) :
    j ∈ curDependents g st k ↔ j ∈ st.alive ∧ k ∈ depsOf g j := by
  simp [curDependents, depsOf]

/-- splitting `l ++ [y] = A ++ x :: B` -/
theorem append_singleton_split {l A B : List Key} {x y : Key} (h : l ++ [y] = A ++ x :: B) :
    (B = [] ∧ x = y ∧ A = l) ∨ ∃ B', B = B' ++ [y] ∧ l = A ++ x :: B' := by
  induction l generalizing A with
  | nil =>
    cases A with
    | nil => simp at h; exact Or.inl ⟨h.2, h.1.symm, rfl⟩
    | cons a A' =>
      exfalso
      have := congrArg List.length h
      simp at this
  | cons z l ih =>
    cases A with
    | nil =>
      simp only [List.cons_append, List.nil_append, List.cons.injEq] at h
      exact Or.inr ⟨l, h.2.symm, by simp [h.1]⟩
    | cons a A' =>
      simp only [List.cons_append, List.cons.injEq] at h
      rcases ih h.2 with ⟨h1, h2, h3⟩ | ⟨B', h1, h2⟩
      · exact Or.inl ⟨h1, h2, by simp [h.1, h3]⟩
      · exact Or.inr ⟨B', h1, by simp [h.1, h2]⟩

/-- stripping an alive leaf with at least two current dependencies preserves the invariant -/
theorem strip_leaf_inv {g : Graph} {st : StripSt} (hi : SInv g st) {leaf : Key} (hal : leaf ∈ st.alive)
    (hleaf : curDependents g st leaf = []) (hdeg : (curDeps g st leaf).length > 1) :
    SInv g { st with alive := st.alive.erase leaf, removed := leaf :: st.removed, stripped := st.stripped ++ [leaf] } := by
  have hnotS : leaf ∉ st.stripped := fun h => hi.disj leaf hal (hi.strippedRemoved leaf h)
  have hdepsLen : 2 ≤ (depsOf g leaf).length := by
    have := List.length_filter_le (fun d => !st.removed.contains d) (depsOf g leaf)
    rw [curDeps_eq] at hdeg; omega
  -- every dependent of the leaf is already stripped
  have hdependents : ∀ j ∈ g.map Prod.fst, leaf ∈ depsOf g j → j ∈ st.stripped := by
    intro j hj hd
    rcases hi.cover j hj with h | h
    · have : j ∈ curDependents g st leaf := (mem_curDependents g st leaf j).mpr ⟨h, hd⟩
      rw [hleaf] at this; simp at this
    · refine Classical.byContradiction fun hns => ?_
      exact hi.disj leaf hal (hi.rootsClosed j h hns leaf hd)
  refine ⟨?_, ?_, ?_, hi.aliveNodup.erase _, ?_, ?_, ?_, ?_, ?_, ?_, ?_⟩
  · intro k hk
    rcases hi.cover k hk with h | h
    · by_cases hkl : k = leaf
      · exact Or.inr (by simp [hkl])
      · exact Or.inl ((List.mem_erase_of_ne hkl).mpr h)
    · exact Or.inr (List.mem_cons_of_mem _ h)
  · intro k hk; exact hi.aliveKeys k (List.mem_of_mem_erase hk)
  · intro k hk hr
    have hk' := (hi.aliveNodup.mem_erase_iff).mp hk
    rcases List.mem_cons.mp hr with h | h
    · exact hk'.1 h
    · exact hi.disj k hk'.2 h
  · intro x hx
    rcases List.mem_append.mp hx with h | h
    · exact List.mem_cons_of_mem _ (hi.strippedRemoved x h)
    · simp at h; simp [h]
  · intro r hr hns d hd
    have hns' : r ∉ st.stripped := fun h => hns (List.mem_append_left _ h)
    rcases List.mem_cons.mp hr with h | h
    · exact absurd (by simp [h]) hns
    · exact List.mem_cons_of_mem _ (hi.rootsClosed r h hns' d hd)
  · intro A x B hsplit j hj hd
    simp only at hsplit
    rcases append_singleton_split hsplit with ⟨_, hx, hA⟩ | ⟨B', _, hl⟩
    · subst hx; subst hA; exact hdependents j hj hd
    · exact hi.before A x B' hl j hj hd
  · rw [List.nodup_append]
    refine ⟨hi.strippedNodup, by simp, ?_⟩
    intro a ha b hb
    simp at hb; subst hb
    exact fun e => hnotS (e ▸ ha)
  · intro x hx
    rcases List.mem_append.mp hx with h | h
    · exact hi.strippedDeps x h
    · simp at h; subst h; exact hdepsLen
  · intro k hk
    rcases List.mem_cons.mp hk with h | h
    · subst h; exact hi.aliveKeys _ hal
    · exact hi.removedKeys k h
  · intro r hr p
    rcases List.mem_cons.mp hr with h | h
    · subst h
      -- the cycle enters the leaf from a dependent that is itself on a cycle, hence still alive
      obtain ⟨j, hj, pj⟩ := p.cycle_last
      rcases hi.cover j (edge_mem_keys hj) with h | h
      · have : j ∈ curDependents g st r := (mem_curDependents g st r j).mpr ⟨h, edge_depsOf hj⟩
        rw [hleaf] at this; simp at this
      · exact hi.noCyc j h pj
    · exact hi.noCyc r h p

/-- removing an alive root (no current dependencies) preserves the invariant -/
theorem remove_root_inv {g : Graph} {st : StripSt} (hi : SInv g st) {root : Key} (hal : root ∈ st.alive)
    (hroot : curDeps g st root = []) (extra : List (Key × Key)) :
    SInv g { st with alive := st.alive.erase root, removed := root :: st.removed, dataRoots := st.dataRoots ++ extra } := by
  have hnotS : root ∉ st.stripped := fun h => hi.disj root hal (hi.strippedRemoved root h)
  refine ⟨?_, ?_, ?_, hi.aliveNodup.erase _, ?_, ?_, hi.before, hi.strippedNodup, hi.strippedDeps, ?_, ?_⟩
  · intro k hk
    rcases hi.cover k hk with h | h
    · by_cases hkl : k = root
      · exact Or.inr (by simp [hkl])
      · exact Or.inl ((List.mem_erase_of_ne hkl).mpr h)
    · exact Or.inr (List.mem_cons_of_mem _ h)
  · intro k hk; exact hi.aliveKeys k (List.mem_of_mem_erase hk)
  · intro k hk hr
    have hk' := (hi.aliveNodup.mem_erase_iff).mp hk
    rcases List.mem_cons.mp hr with h | h
    · exact hk'.1 h
    · exact hi.disj k hk'.2 h
  · intro x hx; exact List.mem_cons_of_mem _ (hi.strippedRemoved x hx)
  · intro r hr hns d hd
    rcases List.mem_cons.mp hr with h | h
    · subst h
      -- all dependencies of the root are already removed
      have : d ∉ curDeps g st r := by rw [hroot]; simp
      rw [curDeps_eq, List.mem_filter] at this
      have hrem : d ∈ st.removed := by
        refine Classical.byContradiction fun hc => this ⟨hd, ?_⟩
        simpa using hc
      exact List.mem_cons_of_mem _ hrem
    · exact List.mem_cons_of_mem _ (hi.rootsClosed r h hns d hd)
  · intro k hk
    rcases List.mem_cons.mp hk with h | h
    · subst h; exact hi.aliveKeys _ hal
    · exact hi.removedKeys k h
  · intro r hr p
    rcases List.mem_cons.mp hr with h | h
    · subst h
      -- the cycle leaves the root through a dependency that is itself on a cycle, hence not removed
      obtain ⟨x, hx, px⟩ := p.cycle_first
      have hd := edge_depsOf hx
      have : x ∉ curDeps g st r := by rw [hroot]; simp
      rw [curDeps_eq, List.mem_filter] at this
      have hrem : x ∈ st.removed := by
        refine Classical.byContradiction fun hc => this ⟨hd, ?_⟩
        simpa using hc
      exact hi.noCyc x hrem px
    · exact hi.noCyc r h p

end Dask.Order

namespace Dask.Order
open Dask.GraphAlg

theorem curDependents_erase_nil (g : Graph) (st : StripSt) (x l : Key) (r : List Key) (s : List Key)
    (d : List (Key × Key)) (h : curDependents g st l = []) :
    curDependents g { alive := st.alive.erase x, removed := r, stripped := s, dataRoots := d } l = [] := by
  rw [List.eq_nil_iff_forall_not_mem] at h ⊢
  intro j hj
  rw [mem_curDependents] at hj
  exact h j ((mem_curDependents g st l j).mpr ⟨List.mem_of_mem_erase hj.1, hj.2⟩)

theorem curDeps_more_removed_nil (g : Graph) (st : StripSt) (x l : Key) (a s : List Key) (d : List (Key × Key))
    (h : curDeps g st l = []) :
    curDeps g { alive := a, removed := x :: st.removed, stripped := s, dataRoots := d } l = [] := by
  rw [curDeps_eq] at h ⊢
  rw [List.filter_eq_nil_iff] at h ⊢
  intro y hy
  have := h y hy
  simp at this ⊢
  exact fun _ => this

theorem leafSweep_inv (g : Graph) (isTask : Key → Bool) : ∀ (leaves : List Key) (st : StripSt) (any : Bool),
    SInv g st → leaves.Nodup → (∀ l ∈ leaves, l ∈ st.alive ∧ curDependents g st l = []) →
    SInv g (leafSweep g isTask leaves st any).1
  | [], st, any, hi, _, _ => by simpa [leafSweep] using hi
  | leaf :: rest, st, any, hi, hn, hl => by
    have hn' := List.nodup_cons.mp hn
    have hrest : ∀ l ∈ rest, l ∈ st.alive ∧ curDependents g st l = [] :=
      fun l h => hl l (List.mem_cons_of_mem _ h)
    unfold leafSweep
    split
    · exact leafSweep_inv g isTask rest st any hi hn'.2 hrest
    · split
      · rename_i hc
        simp only [Bool.and_eq_true, Bool.not_eq_true', decide_eq_true_eq] at hc
        have hleaf := hl leaf (by simp)
        refine leafSweep_inv g isTask rest _ true (strip_leaf_inv hi hleaf.1 hleaf.2 hc.2) hn'.2 ?_
        intro l hlr
        have hne : l ≠ leaf := fun e => hn'.1 (e ▸ hlr)
        refine ⟨(List.mem_erase_of_ne hne).mpr (hrest l hlr).1, ?_⟩
        exact curDependents_erase_nil g st leaf l _ _ _ (hrest l hlr).2
      · exact leafSweep_inv g isTask rest st any hi hn'.2 hrest

theorem rootSweep_inv (g : Graph) (isTask : Key → Bool) : ∀ (roots : List Key) (st : StripSt),
    SInv g st → roots.Nodup → (∀ r ∈ roots, r ∈ st.alive ∧ curDeps g st r = []) →
    SInv g (rootSweep g isTask roots st)
  | [], st, hi, _, _ => by simpa [rootSweep] using hi
  | root :: rest, st, hi, hn, hr => by
    have hn' := List.nodup_cons.mp hn
    have hrest : ∀ r ∈ rest, r ∈ st.alive ∧ curDeps g st r = [] :=
      fun r h => hr r (List.mem_cons_of_mem _ h)
    unfold rootSweep
    simp only
    split
    · exact rootSweep_inv g isTask rest st hi hn'.2 hrest
    · split
      · have hroot := hr root (by simp)
        refine rootSweep_inv g isTask rest _ (remove_root_inv hi hroot.1 hroot.2 _) hn'.2 ?_
        intro r hrr
        have hne : r ≠ root := fun e => hn'.1 (e ▸ hrr)
        refine ⟨(List.mem_erase_of_ne hne).mpr (hrest r hrr).1, ?_⟩
        exact curDeps_more_removed_nil g st root r _ _ _ (hrest r hrr).2
      · exact rootSweep_inv g isTask rest st hi hn'.2 hrest

theorem stripLoop_inv (g : Graph) (isTask : Key → Bool) : ∀ (fuel : Nat) (st : StripSt), SInv g st →
    SInv g (stripLoop g isTask fuel st)
  | 0, st, hi => by simpa [stripLoop] using hi
  | fuel + 1, st, hi => by
    unfold stripLoop
    simp only
    have h1 : SInv g (leafSweep g isTask (st.alive.filter (fun k => (curDependents g st k).isEmpty)) st false).1 := by
      apply leafSweep_inv g isTask _ st false hi (hi.aliveNodup.filter _)
      intro l hl
      rw [List.mem_filter] at hl
      exact ⟨hl.1, by simpa [List.isEmpty_iff] using hl.2⟩
    generalize hls : leafSweep g isTask (st.alive.filter (fun k => (curDependents g st k).isEmpty)) st false = r at h1
    obtain ⟨st1, any⟩ := r
    simp only at h1 ⊢
    have h2 : SInv g (rootSweep g isTask (st1.alive.filter (fun k => (curDeps g st1 k).isEmpty)) st1) := by
      apply rootSweep_inv g isTask _ st1 h1 (h1.aliveNodup.filter _)
      intro r hr
      rw [List.mem_filter] at hr
      exact ⟨hr.1, by simpa [List.isEmpty_iff] using hr.2⟩
    split
    · exact stripLoop_inv g isTask fuel _ h2
    · exact h2

/-- the invariant holds for the result of the normalisation loop -/
theorem strip_inv (g : Graph) (isTask : Key → Bool) (hn : (g.map Prod.fst).Nodup) : SInv g (strip g isTask) := by
  unfold strip
  apply stripLoop_inv
  refine ⟨fun k hk => Or.inl hk, fun k hk => hk, by simp, hn, by simp, by simp, ?_, by simp, by simp, by simp, by simp⟩
  intro A x B h
  simp at h

end Dask.Order

namespace Dask.Order
open Dask.GraphAlg

/-! ### the priorities the frame hands out -/

theorem lookup_append' (l1 l2 : List (Key × Nat)) (k : Key) :
    (l1 ++ l2).lookup k = match l1.lookup k with
      | some v => some v
      | none => l2.lookup k := by
  induction l1 with
  | nil => simp
  | cons e rest ih =>
    obtain ⟨k0, v0⟩ := e
    simp only [List.cons_append, List.lookup]
    cases (k == k0) <;> simp [ih]

theorem stripAssign_keys (n : Nat) : ∀ (j : Nat) (S : List Key), (stripAssign n j S).map Prod.fst = S
  | _, [] => rfl
  | j, k :: ks => by simp [stripAssign, stripAssign_keys n (j + 1) ks]

theorem coreAssign_keys : ∀ (i : Nat) (C : List Key), (coreAssign i C).map Prod.fst = C
  | _, [] => rfl
  | i, k :: ks => by simp [coreAssign, coreAssign_keys (i + 1) ks]

theorem lookup_none_of_not_mem_keys : ∀ (p : List (Key × Nat)) (k : Key), k ∉ p.map Prod.fst → p.lookup k = none
  | [], _, _ => rfl
  | (k0, v0) :: rest, k, h => by
    simp only [List.map_cons, List.mem_cons, not_or] at h
    have : (k == k0) = false := by simpa using h.1
    simp only [List.lookup, this]
    exact lookup_none_of_not_mem_keys rest k h.2

theorem lookup_stripAssign (n : Nat) : ∀ (A : List Key) (x : Key) (B : List Key) (j : Nat), x ∉ A →
    (stripAssign n j (A ++ x :: B)).lookup x = some (stripPrio n (j + A.length))
  | [], x, B, j, _ => by simp [stripAssign, List.lookup]
  | a :: A, x, B, j, h => by
    simp only [List.mem_cons, not_or] at h
    have hne : (x == a) = false := by simpa using h.1
    simp only [List.cons_append, stripAssign, List.lookup, hne, lookup_stripAssign n A x B (j + 1) h.2,
      List.length_cons]
    congr 2; omega

theorem lookup_coreAssign : ∀ (A : List Key) (x : Key) (B : List Key) (i : Nat), x ∉ A →
    (coreAssign i (A ++ x :: B)).lookup x = some (i + A.length)
  | [], x, B, i, _ => by simp [coreAssign, List.lookup]
  | a :: A, x, B, i, h => by
    simp only [List.mem_cons, not_or] at h
    have hne : (x == a) = false := by simpa using h.1
    simp only [List.cons_append, coreAssign, List.lookup, hne, lookup_coreAssign A x B (i + 1) h.2,
      List.length_cons]
    congr 1; omega

theorem exists_first_occurrence : ∀ (l : List Key) (x : Key), x ∈ l → ∃ A B, l = A ++ x :: B ∧ x ∉ A
  | [], _, h => by simp at h
  | y :: l, x, h => by
    by_cases hxy : x = y
    · subst hxy; exact ⟨[], l, rfl, by simp⟩
    · have hm : x ∈ l := by
        rcases List.mem_cons.mp h with h | h
        · exact absurd h hxy
        · exact h
      obtain ⟨A, B, h1, h2⟩ := exists_first_occurrence l x hm
      exact ⟨y :: A, B, by simp [h1], by simp [hxy, h2]⟩

theorem split_same_length {A A' B B' : List Key} {k k' : Key} (h : A ++ k :: B = A' ++ k' :: B')
    (hl : A.length = A'.length) : k = k' := by
  have := List.append_inj h hl
  simp at this
  exact this.2.1

theorem split_nodup_unique {l A B A' B' : List Key} {x : Key} (hn : l.Nodup) (h1 : l = A ++ x :: B)
    (h2 : l = A' ++ x :: B') : A = A' := by
  subst h1
  induction A generalizing A' with
  | nil =>
    cases A' with
    | nil => rfl
    | cons a A'' =>
      simp only [List.nil_append, List.cons_append, List.cons.injEq] at h2
      exfalso
      have := List.nodup_cons.mp hn
      apply this.1
      rw [h2.2]; simp [h2.1]
  | cons a A ih =>
    cases A' with
    | nil =>
      simp only [List.nil_append, List.cons_append, List.cons.injEq] at h2
      exfalso
      have := List.nodup_cons.mp hn
      apply this.1
      rw [← h2.1]; simp
    | cons a' A'' =>
      simp only [List.cons_append, List.cons.injEq] at h2
      have hn' := (List.nodup_cons.mp hn).2
      rw [h2.1, ih hn' h2.2]

end Dask.Order

namespace Dask.Order
open Dask.GraphAlg

/-- what the heuristic core of `order` must deliver (validated on every real output, not proved): it emits every
    remaining internal key exactly once, each after its dependencies among them -/
structure CoreOK (g : Graph) (ext S core : List Key) : Prop where
  nodup : core.Nodup
  dom : ∀ k, k ∈ core ↔ (k ∈ g.map Prod.fst ∧ k ∉ S ∧ k ∉ ext)
  topo : ∀ pre k post, core = pre ++ k :: post → ∀ d ∈ depsOf g k, d ∈ core → d ∈ pre

theorem not_mem_prefix_of_nodup {A B : List Key} {x : Key} (h : (A ++ x :: B).Nodup) : x ∉ A := by
  intro hx
  rw [List.nodup_append] at h
  exact h.2.2 x hx x (by simp) rfl

/-- facts about the frame's priority dict, collected once -/
structure FrameFacts (g : Graph) (ext S core : List Key) (p : List (Key × Nat)) : Prop where
  keys : p.map Prod.fst = S ++ core
  nodup : (S ++ core).Nodup
  len : S.length + core.length ≤ g.length
  lookS : ∀ A x B, S = A ++ x :: B → p.lookup x = some (stripPrio g.length A.length)
  lookC : ∀ A x B, core = A ++ x :: B → p.lookup x = some A.length

theorem frame_facts (g : Graph) (isTask : Key → Bool) (ext core : List Key) (hn : (g.map Prod.fst).Nodup)
    (hc : CoreOK g ext (strip g isTask).stripped core) :
    FrameFacts g ext (strip g isTask).stripped core (framePrios g.length (strip g isTask).stripped core) := by
  have hi := strip_inv g isTask hn
  have hSkeys : ∀ x ∈ (strip g isTask).stripped, x ∈ g.map Prod.fst :=
    fun x hx => hi.removedKeys x (hi.strippedRemoved x hx)
  have hnd : ((strip g isTask).stripped ++ core).Nodup := by
    rw [List.nodup_append]
    refine ⟨hi.strippedNodup, hc.nodup, ?_⟩
    intro a ha b hb e
    subst e
    exact ((hc.dom a).mp hb).2.1 ha
  refine ⟨?_, hnd, ?_, ?_, ?_⟩
  · simp [framePrios, stripAssign_keys, coreAssign_keys]
  · have : ((strip g isTask).stripped ++ core).length ≤ (g.map Prod.fst).length := by
      apply List.Nodup.length_le_of_subset hnd
      intro x hx
      rcases List.mem_append.mp hx with h | h
      · exact hSkeys x h
      · exact ((hc.dom x).mp h).1
    simpa using this
  · intro A x B hS
    have hxA : x ∉ A := not_mem_prefix_of_nodup (hS ▸ hi.strippedNodup)
    unfold framePrios
    rw [lookup_append', hS, lookup_stripAssign g.length A x B 0 hxA]
    simp
  · intro A x B hC
    have hxA : x ∉ A := not_mem_prefix_of_nodup (hC ▸ hc.nodup)
    have hxS : x ∉ (strip g isTask).stripped := ((hc.dom x).mp (by rw [hC]; simp)).2.1
    unfold framePrios
    rw [lookup_append', lookup_none_of_not_mem_keys _ x (by rw [stripAssign_keys]; exact hxS), hC,
      lookup_coreAssign A x B 0 hxA]
    simp

end Dask.Order
