import DaskModel.Model.CsvOpts
import DaskModel.Props.C47
/-! Lemmas for C47 (options): pandas at line level on a block vs on the file, the blocks that do not start a file,
    `_header_row`. -/
set_option linter.unusedSimpArgs false
namespace Dask.CsvOpts
open Dask.TextBlocks Dask.Csv

theorem mlines_eq_lines (t : List Nat) : mlines t = lines NL t := rfl

/-- the lines that count, on a list of lines -/
def kept (s : Nat) (ls : List (List Nat)) : List (List Nat) := (ls.drop s).filter fun l => !isBlank l

theorem keptLines_eq (kw : Kw) (t : List Nat) : keptLines kw t = kept kw.skiprows (mlines t) := rfl

theorem kept_append (s : Nat) (a b : List (List Nat)) (hs : s ≤ a.length) : kept s (a ++ b) = kept s a ++ kept 0 b := by
  unfold kept
  rw [List.drop_append_of_le_length hs, List.filter_append, List.drop_zero]

theorem kept_zero_append (a b : List (List Nat)) : kept 0 (a ++ b) = kept 0 a ++ kept 0 b :=
  kept_append 0 a b (Nat.zero_le _)

theorem kept_zero_flatten (Ls : List (List (List Nat))) : kept 0 Ls.flatten = (Ls.map (kept 0)).flatten := by
  induction Ls with
  | nil => rfl
  | cons a Ls ih => rw [List.flatten_cons, kept_zero_append, ih, List.map_cons, List.flatten_cons]

/-- what pandas returns when the keywords' demands are met -/
def firstFrame (kw : Kw) (K0 : List (List Nat)) : Frame :=
  match resolve kw with
  | none => ⟨none, K0⟩
  | some h => ⟨if kw.names then none else K0[h]?.map stripNL, K0.drop (h + 1)⟩

/-- "the lines contain what the keywords consume" -/
def Covers (kw : Kw) (K0 : List (List Nat)) : Prop :=
  match resolve kw with
  | some h => h < K0.length
  | none => kw.names = true ∨ K0 ≠ []

/-- pandas on the first block and on the whole file: the whole frame is the first block's frame with the later lines
    appended, provided the first block contains what the keywords consume -/
theorem pdOf_append (kw : Kw) (K0 R : List (List Nat)) (H : Covers kw K0) :
    pdOf kw K0 = some (firstFrame kw K0) ∧
    pdOf kw (K0 ++ R) = some ⟨(firstFrame kw K0).cols, (firstFrame kw K0).rows ++ R⟩ := by
  unfold Covers at H
  unfold firstFrame pdOf
  cases hr : resolve kw with
  | none =>
    rw [hr] at H
    simp only []
    cases K0 with
    | nil =>
      rcases H with hn | hne
      · cases R <;> simp [hn]
      · exact absurd rfl hne
    | cons k K0 => simp
  | some h =>
    rw [hr] at H
    simp only []
    have hne : K0 ≠ [] := by intro h0; subst h0; simp at H
    have h1 : (K0.isEmpty) = false := by cases K0 <;> simp_all
    have h2 : (K0 ++ R).isEmpty = false := by cases K0 <;> simp_all
    have h3 : h < (K0 ++ R).length := by rw [List.length_append]; omega
    simp only [h1, h2, H, h3, Bool.false_eq_true, if_false, if_true, List.getElem?_append_left H,
      List.drop_append_of_le_length (show h + 1 ≤ K0.length by omega), and_self]

/-! ### blocks that do not start a file -/

/-- a proper header line: one non-blank line with its terminator -/
def HdrLine (hdr : List Nat) : Prop := ∃ pre, hdr = pre ++ NL ∧ 10 ∉ pre ∧ isBlank pre = false

theorem isBlank_append_NL (p : List Nat) : isBlank (p ++ NL) = isBlank p := by
  simp [isBlank, NL, List.all_append]

theorem stripNL_append_NL (p : List Nat) : stripNL (p ++ NL) = p := by
  simp [stripNL, NL]

theorem stripNL_of_not_mem (p : List Nat) (h : 10 ∉ p) : stripNL p = p := by
  unfold stripNL
  have : ¬ p.getLast? = some 10 := by
    intro hl
    exact h (List.mem_of_getLast? hl)
  simp [this]

theorem mlines_hdr_append (hdr b : List Nat) (h : HdrLine hdr) : mlines (hdr ++ b) = hdr :: mlines b := by
  obtain ⟨pre, rfl, hpre, _⟩ := h
  rw [mlines_eq_lines, mlines_eq_lines, lines_append C47.NL_ne C47.NL_bf _ _ (Or.inr (Or.inr ⟨pre, rfl⟩)),
    C47.lines_header_line pre hpre]
  rfl

/-- the columns of a partition that does not start a file -/
def restCols (u : Kw) (hdr : List Nat) : Option (List Nat) :=
  if u.names then none else match effHeader u with | .none => none | _ => some (stripNL hdr)

/-- what `read_pandas` hands to the later blocks fits the keywords -/
def RestOK (u : Kw) (hdr : List Nat) (hc : Option (List Nat)) : Prop :=
  u.names = true ∨ (effHeader u = .none ∧ hdr = [] ∧ hc = none) ∨ (effHeader u ≠ .none ∧ HdrLine hdr)

theorem resolve_restKw_names (u : Kw) (hn : u.names = true) : resolve (restKw u) = none := by
  unfold resolve restKw
  cases effHeader u <;> simp [hn]

theorem rest_frame (u : Kw) (hdr : List Nat) (hc : Option (List Nat)) (b : List Nat) (h : RestOK u hdr hc) :
    blockFrame restKw u hdr hc false b = some ⟨restCols u hdr, kept 0 (mlines b)⟩ := by
  rcases h with hn | ⟨hE, rfl, rfl⟩ | ⟨hE, hl⟩
  · -- names given: no header written, every line is data
    have hk : keptLines (restKw u) b = kept 0 (mlines b) := rfl
    simp only [blockFrame, blockBytes, writeHeader, emptyData, hn, pdFrame, hk, restCols, pdOf,
      resolve_restKw_names u hn, Bool.not_false, Bool.true_and, Bool.not_true, Bool.and_false,
      Bool.false_eq_true, if_false, if_true, show (restKw u).names = true from hn]
    cases hkk : kept 0 (mlines b) <;> simp
  · -- header=None without names: nothing written, nothing consumed
    by_cases hn : u.names = true
    · have hk : keptLines (restKw u) b = kept 0 (mlines b) := rfl
      simp only [blockFrame, blockBytes, writeHeader, emptyData, hn, pdFrame, hk, restCols, pdOf,
        resolve_restKw_names u hn, Bool.not_false, Bool.true_and, Bool.not_true, Bool.and_false,
        Bool.false_eq_true, if_false, if_true, show (restKw u).names = true from hn]
      cases hkk : kept 0 (mlines b) <;> simp
    · have hn' : u.names = false := by simpa using hn
      have hk : keptLines (restKw u) ([] ++ b) = kept 0 (mlines b) := rfl
      have hr : resolve (restKw u) = none := by simp [resolve, restKw, hE]
      simp only [blockFrame, blockBytes, writeHeader, emptyData, hn', pdFrame, hk, restCols, pdOf, hr, hE,
        Bool.not_false, Bool.true_and, Bool.and_true, Bool.false_eq_true, if_false, if_true,
        show (restKw u).names = false from hn']
      cases hkk : kept 0 (mlines b) <;> simp
  · by_cases hn : u.names = true
    · have hk : keptLines (restKw u) b = kept 0 (mlines b) := rfl
      simp only [blockFrame, blockBytes, writeHeader, emptyData, hn, pdFrame, hk, restCols, pdOf,
        resolve_restKw_names u hn, Bool.not_false, Bool.true_and, Bool.not_true, Bool.and_false,
        Bool.false_eq_true, if_false, if_true, show (restKw u).names = true from hn]
      cases hkk : kept 0 (mlines b) <;> simp
    · have hn' : u.names = false := by simpa using hn
      obtain ⟨pre, rfl, hpre, hnb⟩ := hl
      have hk : keptLines (restKw u) ((pre ++ NL) ++ b) = (pre ++ NL) :: kept 0 (mlines b) := by
        show kept 0 (mlines ((pre ++ NL) ++ b)) = _
        rw [mlines_hdr_append _ _ ⟨pre, rfl, hpre, hnb⟩]
        simp [kept, isBlank_append_NL, hnb]
      have hr : resolve (restKw u) = some 0 := by
        unfold resolve restKw
        cases hh : effHeader u <;> simp_all
      have hrc : restCols u (pre ++ NL) = some pre := by
        unfold restCols
        cases hh : effHeader u <;> simp_all [stripNL_append_NL]
      simp only [blockFrame, blockBytes, writeHeader, emptyData, hn', pdFrame, hk, hrc, pdOf, hr,
        Bool.not_false, Bool.true_and, Bool.and_true, Bool.false_eq_true, if_false, if_true,
        show (restKw u).names = false from hn']
      simp [stripNL_append_NL]

theorem framesOf_rest (u : Kw) (hdr : List Nat) (hc : Option (List Nat)) (h : RestOK u hdr hc) :
    ∀ bs : List (List Nat), framesOf restKw u hdr hc false bs =
      some (bs.map fun b => ⟨restCols u hdr, kept 0 (mlines b)⟩)
  | [] => rfl
  | b :: bs => by
    simp only [framesOf, rest_frame u hdr hc b h, framesOf_rest u hdr hc h bs, List.map_cons]

/-! ### the first block and the whole file -/

theorem resolve_firstKw (u : Kw) : resolve (firstKw u) = resolve u := by
  unfold resolve firstKw effHeader
  cases hh : u.header with
  | none => cases hn : u.names <;> simp
  | some x => cases x <;> simp

theorem pdFrame_firstKw (u : Kw) (t : List Nat) : pdFrame (firstKw u) t = pdFrame u t := by
  have hk : keptLines (firstKw u) t = keptLines u t := rfl
  have hnm : (firstKw u).names = u.names := rfl
  unfold pdFrame pdOf
  rw [hk, resolve_firstKw, hnm]

/-- the first block of the file contains the rows the keywords consume (`skiprows`, the header row) -/
def FirstCovers (u : Kw) : List (List Nat) → Prop
  | [] => u.names = true
  | b0 :: _ => u.skiprows ≤ (mlines b0).length ∧ Covers u (keptLines u b0)

/-- a file shorter than the sample size is sampled whole -/
theorem sampleOf_short (n : Nat) (data : List Nat) (h : data.length ≤ n) : sampleOf n NL data = data := by
  unfold sampleOf
  rw [List.take_of_length_le h]
  simp [sampleLoop, List.drop_of_length_le h]

theorem coversB_iff (kw : Kw) (K0 : List (List Nat)) : coversB kw K0 = true ↔ Covers kw K0 := by
  unfold coversB Covers
  cases resolve kw with
  | none => cases K0 <;> simp
  | some h => simp

/-- the executable check the harness evaluates is the hypothesis of the theorems -/
theorem firstCoversB_iff (u : Kw) (blocks : List (List Nat)) : firstCoversB u blocks = true ↔ FirstCovers u blocks := by
  cases blocks with
  | nil => simp [firstCoversB, FirstCovers]
  | cons b0 bs => simp [firstCoversB, FirstCovers, coversB_iff]

theorem flatMap_rows_map (c : Option (List Nat)) (g : List Nat → List (List Nat)) (bs : List (List Nat)) :
    (bs.map fun b => (⟨c, g b⟩ : Frame)).flatMap (·.rows) = (bs.map g).flatten := by
  induction bs with
  | nil => rfl
  | cons b bs ih => simp only [List.map_cons, List.flatMap_cons, List.flatten_cons, ih]

/-! ### the header row `read_pandas` picks (`_header_row`) is the one pandas uses -/

theorem pySplitAux_no_nl : ∀ (t acc : List Nat), 10 ∉ acc → ∀ p ∈ pySplitAux NL 0 acc t, 10 ∉ p
  | [], acc, hacc, p, hp => by
    simp only [pySplitAux, List.mem_singleton] at hp
    subst hp
    simpa using hacc
  | c :: cs, acc, hacc, p, hp => by
    unfold pySplitAux at hp
    by_cases hc : NL.isPrefixOf (c :: cs) = true
    · simp only [hc, if_true, List.mem_cons] at hp
      rcases hp with rfl | hp
      · simpa using hacc
      · exact pySplitAux_no_nl cs [] (by simp) p (by simpa [NL] using hp)
    · simp only [hc, if_false] at hp
      have hc10 : c ≠ 10 := by
        intro h10; apply hc; subst h10; simp [NL]
      exact pySplitAux_no_nl cs (c :: acc) (by simp [hacc, Ne.symm hc10]) p hp

theorem kept_append' (s : Nat) (a b : List (List Nat)) : kept s (a ++ b) = kept s a ++ kept (s - a.length) b := by
  unfold kept
  rw [List.drop_append, List.filter_append]

theorem kept_blank_single (n : Nat) : kept n [([] : List Nat)] = [] := by
  cases n <;> simp [kept, isBlank]

theorem map_kept (f : List Nat → List Nat) (s : Nat) (X : List (List Nat)) (hf : ∀ x ∈ X, isBlank (f x) = isBlank x) :
    (kept s X).map f = kept s (X.map f) := by
  unfold kept
  rw [← List.map_drop, List.filter_map]
  congr 1
  apply List.filter_congr
  intro x hx
  simp [hf x (List.mem_of_mem_drop hx)]

theorem kept_join_strip (s : Nat) (ps : List (List Nat)) (hne : ps ≠ []) (hnl : ∀ p ∈ ps, 10 ∉ p) :
    (kept s (ps.dropLast.map (· ++ NL) ++ lastPart ps)).map stripNL = kept s ps := by
  obtain ⟨init, last, rfl⟩ : ∃ init last, ps = init ++ [last] :=
    ⟨ps.dropLast, ps.getLast hne, (List.dropLast_concat_getLast hne).symm⟩
  have hlp : lastPart (init ++ [last]) = if last.isEmpty then [] else [last] := by
    unfold lastPart
    simp only [List.length_append, List.length_singleton, Nat.add_sub_cancel, List.drop_left']
    cases hl : last.isEmpty <;> simp [hl]
  rw [List.dropLast_concat, hlp]
  -- the candidate list `M` with the last part kept
  have hA : kept s (init.map (· ++ NL) ++ (if last.isEmpty then [] else [last])) =
      kept s (init.map (· ++ NL) ++ [last]) := by
    cases hl : last.isEmpty
    · simp
    · have : last = [] := by simpa using hl
      subst this
      rw [kept_append' s _ [[]], kept_blank_single]
      simp
  rw [hA, map_kept stripNL s]
  · congr 1
    rw [List.map_append, List.map_map]
    have h1 : List.map (stripNL ∘ fun x => x ++ NL) init = init := by
      conv => rhs; rw [← List.map_id init]
      apply List.map_congr_left
      intro p _
      exact stripNL_append_NL p
    rw [h1, List.map_singleton, stripNL_of_not_mem last (hnl last (by simp))]
  · intro x hx
    rcases List.mem_append.mp hx with hx | hx
    · obtain ⟨p, _, rfl⟩ := List.mem_map.mp hx
      rw [stripNL_append_NL, isBlank_append_NL]
    · have : x = last := by simpa using hx
      subst this
      rw [stripNL_of_not_mem x (hnl x (by simp))]

/-- the lines that count, terminators stripped, are the parts of `split` that count -/
theorem kept_mlines_strip (s : Nat) (t : List Nat) :
    (kept s (mlines t)).map stripNL = kept s (pySplitAux NL 0 [] t) :=
  kept_join_strip s _ (pySplitAux_ne_nil NL 0 [] t) (pySplitAux_no_nl t [] (by simp))

theorem dropWhile_eq_drop {α : Type} (p : α → Bool) : ∀ X : List α, X.dropWhile p = X.drop (X.takeWhile p).length
  | [] => rfl
  | x :: X => by
    cases hp : p x
    · simp [List.dropWhile_cons, List.takeWhile_cons, hp]
    · simp [List.dropWhile_cons, List.takeWhile_cons, hp, dropWhile_eq_drop p X]

theorem filter_not_dropWhile {α : Type} (p : α → Bool) : ∀ X : List α,
    X.filter (fun l => !p l) = (X.dropWhile p).filter (fun l => !p l)
  | [] => rfl
  | x :: X => by
    cases hp : p x
    · simp [List.dropWhile_cons, hp]
    · simp [List.dropWhile_cons, List.filter_cons, hp, filter_not_dropWhile p X]

theorem dropWhile_head {α : Type} (p : α → Bool) : ∀ (X : List α) (y : α) (ys : List α),
    X.dropWhile p = y :: ys → p y = false
  | [], _, _, h => by simp at h
  | x :: X, y, ys, h => by
    cases hp : p x
    · simp [List.dropWhile_cons, hp] at h
      rw [← h.1]; exact hp
    · simp [List.dropWhile_cons, hp] at h
      exact dropWhile_head p X y ys h

/-- skipping the blank lines at `s`: the lines that count start at the first non-blank one -/
theorem kept_blanksAt (ps : List (List Nat)) (s : Nat) :
    (ps.length ≤ s + blanksAt ps s ∧ kept s ps = []) ∨
    ∃ y, ps[s + blanksAt ps s]? = some y ∧ isBlank y = false ∧ kept s ps = y :: kept (s + blanksAt ps s + 1) ps := by
  unfold blanksAt kept
  generalize hX : ps.drop s = X
  have hdw : X.dropWhile isBlank = ps.drop (s + (X.takeWhile isBlank).length) := by
    rw [← List.drop_drop, hX]
    exact dropWhile_eq_drop isBlank X
  have hfil := filter_not_dropWhile isBlank X
  cases hd : X.dropWhile isBlank with
  | nil =>
    left
    rw [hd] at hdw
    refine ⟨?_, by rw [hfil, hd]; rfl⟩
    have := congrArg List.length hdw
    simp at this
    omega
  | cons y ys =>
    right
    have hy : isBlank y = false := dropWhile_head isBlank X y ys hd
    rw [hd] at hdw
    refine ⟨y, ?_, hy, ?_⟩
    · rw [← List.head?_drop, ← hdw]; rfl
    · rw [hfil, hd, List.filter_cons]
      simp only [hy, Bool.not_false, if_true]
      congr 1
      have : ys = ps.drop (s + (X.takeWhile isBlank).length + 1) := by
        rw [← List.drop_drop, ← hdw]; rfl
      rw [this]

/-- `_header_row` finds the `h`-th line that counts -/
theorem headerRowAux_spec (ps : List (List Nat)) : ∀ (h s : Nat) (x : List Nat), (kept s ps)[h]? = some x →
    headerRowAux ps h s < ps.length ∧ ps[headerRowAux ps h s]? = some x ∧ isBlank x = false
  | 0, s, x, hx => by
    rcases kept_blanksAt ps s with ⟨_, hk⟩ | ⟨y, hy, hb, hk⟩
    · rw [hk] at hx; simp at hx
    · rw [hk] at hx
      simp only [List.getElem?_cons_zero, Option.some.injEq] at hx
      subst hx
      refine ⟨?_, hy, hb⟩
      have := List.getElem?_eq_some_iff.mp hy
      exact this.1
  | h + 1, s, x, hx => by
    rcases kept_blanksAt ps s with ⟨_, hk⟩ | ⟨y, _, _, hk⟩
    · rw [hk] at hx; simp at hx
    · rw [hk, List.getElem?_cons_succ] at hx
      exact headerRowAux_spec ps h _ x hx

theorem resolve_some_eff (u : Kw) (h : Nat) (hr : resolve u = some h) :
    effHeader u ≠ .none ∧ headerInt u = h := by
  unfold resolve at hr
  unfold headerInt effHeader
  cases hh : u.header with
  | none => cases hn : u.names <;> simp_all
  | some x => cases x <;> cases hn : u.names <;> simp_all

theorem pdOf_cols_none (kw : Kw) (K : List (List Nat)) (f : Frame) (hf : pdOf kw K = some f)
    (h : resolve kw = none ∨ kw.names = true) : f.cols = none := by
  unfold pdOf at hf
  cases hK : K.isEmpty
  · rw [hK] at hf
    simp only [Bool.false_eq_true, if_false] at hf
    cases hr : resolve kw with
    | none => rw [hr] at hf; simp only [Option.some.injEq] at hf; rw [← hf]
    | some x =>
      rw [hr] at hf
      rcases h with h | h
      · rw [hr] at h; exact absurd h (by simp)
      · by_cases hx : x < K.length
        · simp only [hx, if_true, h, Option.some.injEq] at hf; rw [← hf]
        · simp [hx] at hf
  · rw [hK] at hf
    simp only [if_true] at hf
    by_cases hn : kw.names = true
    · simp only [hn, if_true, Option.some.injEq] at hf; rw [← hf]
    · simp [hn] at hf

theorem pdOf_cols_some (kw : Kw) (K : List (List Nat)) (W : Frame) (h : Nat) (hr : resolve kw = some h)
    (hn : kw.names = false) (hW : pdOf kw K = some W) : W.cols = K[h]?.map stripNL := by
  unfold pdOf at hW
  rw [hr] at hW
  cases hK : K.isEmpty
  · rw [hK] at hW
    simp only [Bool.false_eq_true, if_false] at hW
    by_cases hx : h < K.length
    · simp only [hx, if_true, hn, Option.some.injEq] at hW; rw [← hW]; simp
    · simp [hx] at hW
  · rw [hK] at hW
    simp [hn] at hW

theorem effHeader_none_of_resolve (u : Kw) (hr : resolve u = none) (hn : u.names = false) : effHeader u = .none := by
  unfold resolve at hr
  unfold effHeader
  cases hh : u.header with
  | none => simp_all
  | some x => cases x <;> simp_all

end Dask.CsvOpts
