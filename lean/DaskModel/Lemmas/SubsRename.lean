import DaskModel.Lemmas.Subs
/-! Outputs of `fuse` / `fuse_linear` with key renaming: `rv[new] = rv[old]; rv[old] = new`, references to `old`
    possibly replaced by `new`, `old` possibly deleted. Soundness of the checker `fuseOKR`. -/
namespace Dask.TaskTerm

/-- the valuation extended to the new names -/
def extendR (R : List (Obj × Obj)) (ρ : Obj → Option Obj) : Obj → Option Obj := fun x =>
  match R.find? (fun on => on.2 == x) with
  | some on => ρ on.1
  | none => ρ x

/-- a key that is not a task tuple evaluates, as a term, to its value -/
theorem evalObj_key (K : List Obj) (env : Obj → Option Obj) (k : Obj) (hin : inKeys K k = true)
    (hnt : k.isTask = false) : evalObj K env k = env k := by
  cases k with
  | int n => simp [evalObj, hin]
  | str s => simp [evalObj, hin]
  | tuple xs =>
    cases xs with
    | nil => simp [evalObj, hin]
    | cons x xs =>
      have hc : x.callable = false := by simpa [Obj.isTask, isTaskList] using hnt
      simp [evalObj, hc, hin]
  | none => simp [inKeys, Obj.keyTyped] at hin
  | fn f => simp [inKeys, Obj.keyTyped] at hin
  | quoted v => simp [inKeys, Obj.keyTyped] at hin
  | list xs => simp [inKeys, Obj.keyTyped] at hin
  | dict kvs => simp [inKeys, Obj.keyTyped] at hin
  | app f a k => simp [inKeys, Obj.keyTyped] at hin

theorem normR_eval (U : List Obj) (env : Obj → Option Obj) : ∀ (R : List (Obj × Obj)),
    (∀ on ∈ R, inKeys U on.1 = true ∧ inKeys U on.2 = true ∧ env on.1 = env on.2 ∧ on.2.isTask = false) → ∀ t,
    evalObj U env (normR R t) = evalObj U env t
  | [], _, t => rfl
  | on :: R, h, t => by
    have h1 := h on (by simp)
    unfold normR
    simp only [List.foldl_cons]
    have ih := normR_eval U env R (fun x hx => h x (List.mem_cons_of_mem _ hx)) (subs on.1 on.2 t)
    unfold normR at ih
    rw [ih]
    apply subs_eval U env on.1 on.2 h1.1
    rw [evalObj_key U env on.2 h1.2.1 h1.2.2.2, h1.2.2.1]

theorem nodupObjs_nodup : ∀ l : List Obj, nodupObjs l = true → l.Nodup
  | [], _ => List.nodup_nil
  | x :: xs, h => by
    simp only [nodupObjs, Bool.and_eq_true, Bool.not_eq_true'] at h
    refine List.nodup_cons.mpr ⟨?_, nodupObjs_nodup xs h.2⟩
    intro hm
    have : xs.contains x = true := by simpa using hm
    rw [this] at h; exact absurd h.1 (by simp)

theorem find_new_none (R : List (Obj × Obj)) (x : Obj) (h : ∀ on ∈ R, on.2 ≠ x) :
    R.find? (fun on => on.2 == x) = none := by
  rw [List.find?_eq_none]
  intro on hon
  simpa using h on hon

theorem find_new_some : ∀ (R : List (Obj × Obj)), (R.map Prod.snd).Nodup → ∀ on ∈ R,
    R.find? (fun o => o.2 == on.2) = some on
  | [], _, _, h => by simp at h
  | o :: R, hn, on, hm => by
    simp only [List.map_cons, List.nodup_cons] at hn
    rcases List.mem_cons.mp hm with rfl | hm'
    · simp [List.find?]
    · have hne : (o.2 == on.2) = false := by
        rw [Bool.eq_false_iff]; intro hc
        exact hn.1 ((eq_of_beq hc) ▸ List.mem_map.mpr ⟨on, hm', rfl⟩)
      simp only [List.find?, hne]
      exact find_new_some R hn.2 on hm'

/-- **Soundness of the checker for renamed outputs**: if `fuseOKR g h S R req` accepts, every valuation `ρ` that
    satisfies the equations of the input graph, extended by `new ↦ ρ old`, satisfies the equations of the output graph
    over the output's own key set; the requested keys are kept. -/
theorem fuseOKR_sound (g h : LGraph) (S : List Obj) (R : List (Obj × Obj)) (req : List Obj)
    (hok : fuseOKR g h S R req = true) (hKt : ∀ k ∈ g.map Prod.fst, k.keyTyped = true)
    (cache ρ : Obj → Option Obj) (hsol : Solution g (g.map Prod.fst) cache ρ) :
    (∀ k ∈ req, k ∈ h.map Prod.fst) ∧
    ∀ k t, (k, t) ∈ h → extendR R ρ k = evalObj (h.map Prod.fst) (extendR R ρ) t := by
  unfold fuseOKR at hok
  simp only [Bool.and_eq_true, List.all_eq_true, List.contains_eq_mem, decide_eq_true_eq, Bool.not_eq_true',
    decide_eq_false_iff_not] at hok
  obtain ⟨⟨⟨⟨⟨hR, hnd⟩, hent⟩, hdang⟩, hreq⟩, hS⟩ := hok
  have hndup := nodupObjs_nodup _ hnd
  refine ⟨hreq, ?_⟩
  -- abbreviations
  generalize hK : g.map Prod.fst = K at *
  generalize hK' : h.map Prod.fst = K' at *
  let U := K ++ R.map Prod.snd
  let ρ' := extendR R ρ
  have hRold : ∀ on ∈ R, inKeys K on.1 = true := fun on hon => (hR on hon).1.1.1.1.1
  have hRnewK : ∀ on ∈ R, on.2 ∉ K := fun on hon => (hR on hon).1.1.1.1.2
  have hRkt : ∀ on ∈ R, on.2.keyTyped = true := fun on hon => (hR on hon).1.1.1.2
  have hRh : ∀ on ∈ R, on.2.hashable = true := fun on hon => (hR on hon).1.1.2
  have hRnt : ∀ on ∈ R, on.2.isTask = false := fun on hon => (hR on hon).1.2
  have hRinK' : ∀ on ∈ R, on.2 ∈ K' := fun on hon => (hR on hon).2
  have hUt : ∀ k ∈ U, k.keyTyped = true := by
    intro k hk
    rcases List.mem_append.mp hk with h1 | h1
    · exact hKt k h1
    · obtain ⟨on, hon, rfl⟩ := List.mem_map.mp h1
      exact hRkt on hon
  have hKU : ∀ k ∈ K, k ∈ U := fun k hk => List.mem_append_left _ hk
  have F1 : ∀ x ∈ K, ρ' x = ρ x := by
    intro x hx
    show extendR R ρ x = ρ x
    unfold extendR
    rw [find_new_none R x (fun on hon e => hRnewK on hon (e ▸ hx))]
  have F2 : ∀ on ∈ R, ρ' on.2 = ρ on.1 := by
    intro on hon
    show extendR R ρ on.2 = ρ on.1
    unfold extendR
    rw [find_new_some R hndup on hon]
  have hinU_old : ∀ on ∈ R, inKeys U on.1 = true := by
    intro on hon
    have := inKeys_props (hRold on hon)
    unfold inKeys
    simp only [Bool.and_eq_true, List.contains_eq_mem, decide_eq_true_eq]
    exact ⟨⟨this.1, this.2.1⟩, hKU _ this.2.2⟩
  have hinU_new : ∀ on ∈ R, inKeys U on.2 = true := by
    intro on hon
    unfold inKeys
    simp only [Bool.and_eq_true, List.contains_eq_mem, decide_eq_true_eq]
    exact ⟨⟨hRkt on hon, hRh on hon⟩, List.mem_append_right _ (List.mem_map.mpr ⟨on, hon, rfl⟩)⟩
  have hnorm : ∀ t, evalObj U ρ' (normR R t) = evalObj U ρ' t := by
    apply normR_eval U ρ' R
    intro on hon
    refine ⟨hinU_old on hon, hinU_new on hon, ?_, hRnt on hon⟩
    rw [F2 on hon, F1 on.1 (inKeys_props (hRold on hon)).2.2]
  -- every key of the output is a key of `U`
  have hK'U : ∀ k ∈ K', k ∈ U := by
    intro k hk
    rw [← hK'] at hk
    obtain ⟨⟨k', t'⟩, hm, rfl⟩ := List.mem_map.mp hk
    have := hent (k', t') hm
    simp only at this
    cases hf : R.find? (fun on => on.2 == k') with
    | some on =>
      have hon := List.mem_of_find?_eq_some hf
      have : on.2 = k' := by have := List.find?_some hf; simpa using this
      exact List.mem_append_right _ (List.mem_map.mpr ⟨on, hon, this⟩)
    | none =>
      rw [hf] at this
      dsimp only at this
      cases hl : g.lookup k' with
      | none => rw [hl] at this; cases this
      | some t0 =>
        apply List.mem_append_left
        rw [← hK]
        exact lookup_isSome_mem_keys g k' (by simp [hl])
  -- the common core: a term that passes `termOK` against the final term of `k0` has the value of `k0`
  have core : ∀ (t t0 k0 : Obj), g.lookup k0 = some t0 →
      (normR R t == normR R (finalTerm g K S (g.length + 1) t0)) = true →
      (∀ d ∈ legacyRefs U (finalTerm g K S (g.length + 1) t0), d ∈ K) →
      (∀ d ∈ legacyRefs U t, d ∈ K') → evalObj K' ρ' t = ρ k0 := by
    intro t t0 k0 hl hn hft hd
    have e1 : evalObj K' ρ' t = evalObj U ρ' t :=
      evalObj_restrict U K' ρ' ρ' hK'U hUt (fun _ _ => rfl) t hd
    have e2 : evalObj K ρ (finalTerm g K S (g.length + 1) t0) = evalObj U ρ' (finalTerm g K S (g.length + 1) t0) :=
      evalObj_restrict U K ρ ρ' hKU hUt (fun d hdK => (F1 d hdK).symm) _ hft
    have hρ : ρ k0 = evalObj K ρ t0 := by
      have := hsol k0; rw [hl] at this; exact this
    rw [e1, ← hnorm t, eq_of_beq hn, hnorm, ← e2, finalTerm_eval g K S cache ρ hsol hS (g.length + 1) t0, hρ]
  intro k t hkt
  have hk1 := hent (k, t) hkt
  have hk2 := hdang (k, t) hkt
  simp only at hk1 hk2
  cases hf : R.find? (fun on => on.2 == k) with
  | some on =>
    rw [hf] at hk1
    dsimp only at hk1
    have hon := List.mem_of_find?_eq_some hf
    have hk : on.2 = k := by have := List.find?_some hf; simpa using this
    cases hl : g.lookup on.1 with
    | none => rw [hl] at hk1; cases hk1
    | some t0 =>
      rw [hl] at hk1
      simp only [Bool.and_eq_true, List.all_eq_true, decide_eq_true_eq] at hk1
      show ρ' k = _
      rw [← hk, F2 on hon]
      exact (core t t0 on.1 hl hk1.1 hk1.2 hk2).symm
  | none =>
    rw [hf] at hk1
    dsimp only at hk1
    cases hl : g.lookup k with
    | none => rw [hl] at hk1; cases hk1
    | some t0 =>
      rw [hl] at hk1
      have hkK : k ∈ K := by rw [← hK]; exact lookup_isSome_mem_keys g k (by simp [hl])
      simp only [Bool.or_eq_true, List.any_eq_true, Bool.and_eq_true, List.all_eq_true,
        decide_eq_true_eq, beq_iff_eq] at hk1
      show ρ' k = _
      rw [F1 k hkK]
      rcases hk1 with ⟨on, hon, h1, h2⟩ | hk1
      · -- the alias `old: new`
        subst h2
        have hinK' : inKeys K' on.2 = true := by
          unfold inKeys
          simp only [Bool.and_eq_true, List.contains_eq_mem, decide_eq_true_eq]
          exact ⟨⟨hRkt on hon, hRh on hon⟩, hRinK' on hon⟩
        rw [evalObj_key K' ρ' on.2 hinK' (hRnt on hon), F2 on hon, h1]
      · exact (core t t0 k hl (by simpa using hk1.1) hk1.2 hk2).symm

end Dask.TaskTerm
