import DaskModel.Props.C18b
import DaskModel.Model.KeyName
/-!
Helper lemmas for `Props/C13xNames.lean`: the C18 model of `dask.utils.key_split` (`Model/KeySplit.lean`, theorems of
`Props/C18b.lean`) applied to keys of the form `prefix-token`, generalised from an all-alphabetic first word to what the
source tests (`words[0][0].isalpha()`: only the first character of the first word).
-/
namespace Dask.KeySplitTok
open Dask.KeySplit Dask.PyStr Dask.Bytes Dask.C18 Dask.KeyName

/-- a token as `tokenize` makes them: 32 lower-case hex characters -/
def IsToken (t : List Char) : Prop := t.length = 32 ∧ t.all isHexDigit = true

/-- a token holding at least one decimal digit (all but `(6/16)^32` of the 32-hex strings) -/
def GoodTok (t : List Char) : Prop := IsToken t ∧ t.any isDigit = true

theorem digit_not_alpha (c : Char) (h : isDigit c = true) : isAlpha c = false := by
  simp only [isDigit, isAlpha, Bool.and_eq_true, decide_eq_true_eq, Char.le_def] at *
  simp only [Bool.or_eq_false_iff, Bool.and_eq_false_iff, decide_eq_false_iff_not]
  have h1 : c.val.toNat ≤ 57 := UInt32.le_iff_toNat_le.mp h.2
  constructor
  · left; intro h2
    have : 97 ≤ c.val.toNat := UInt32.le_iff_toNat_le.mp h2
    omega
  · left; intro h2
    have : 65 ≤ c.val.toNat := UInt32.le_iff_toNat_le.mp h2
    omega

/-- the loop of `key_split` stops at a token that holds a digit -/
theorem token_not_kept (t : List Char) (h : t.any isDigit = true) : ¬ Keeps t := by
  intro hk
  obtain ⟨c, hc, hd⟩ := List.any_eq_true.mp h
  have ha := hk.1
  simp only [isWordAlpha, Bool.and_eq_true, List.all_eq_true] at ha
  have := ha.2 c hc
  rw [digit_not_alpha c hd] at this
  exact absurd this (by decide)

theorem token_no_dash (t : List Char) (h : IsToken t) : '-' ∉ t := by
  intro hm
  have hall : ∀ c ∈ t, isHexDigit c = true := by simpa using h.2
  exact (hexDigit_props _ (hall _ hm)).1 rfl

theorem tailJoin_append (ws : List (List Char)) (t : List Char) : tailJoin (ws ++ [t]) = tailJoin ws ++ '-' :: t := by
  simp [tailJoin]

/-- `prefix-token` is the joined word list with the token as one more word -/
theorem mkName_joinDash (w0 : List Char) (ws : List (List Char)) (t : List Char) :
    mkName (joinDash (w0 :: ws)) t = joinDash (w0 :: ws ++ t :: []) := by
  rw [List.cons_append, joinDash_cons, joinDash_cons w0 (ws ++ [t]), tailJoin_append]
  simp [mkName]

/-- **`key_split` on `w0-w1-…-wk-stop-…` in the generality of the source**: the first word only has to be free of
dashes; what the function starts from is `startOf` (the word itself if it starts with a letter, else its cleaned first
comma piece), which must be non-empty and not start with `<`; the words `w1…wk` are kept, `stop` is not. -/
theorem key_split_strips (c0 : Char) (r0 : List Char) (ws more : List (List Char)) (stop : List Char)
    (hnd0 : '-' ∉ c0 :: r0) (hws : ∀ w ∈ ws, Keeps w) (hstop : ¬ Keeps stop)
    (hnd : '-' ∉ stop ∧ ∀ m ∈ more, '-' ∉ m)
    (d0 : Char) (rest : List Char) (hstart : startOf c0 (c0 :: r0) = d0 :: rest) (hlt : d0 ≠ '<')
    (hdata : ¬ ((d0 :: rest ++ tailJoin ws).length = 32 ∧ (d0 :: rest ++ tailJoin ws).all isHexDigit = true)) :
    keySplitCore (joinDash ((c0 :: r0) :: ws ++ stop :: more)) = some (d0 :: rest ++ tailJoin ws) := by
  have hsplit : splitL '-' (joinDash ((c0 :: r0) :: ws ++ stop :: more)) = (c0 :: r0) :: ws ++ stop :: more := by
    apply splitL_joinDash _ (by simp)
    intro w hw
    simp only [List.cons_append, List.mem_cons, List.mem_append] at hw
    rcases hw with rfl | hw | rfl | hw
    · exact hnd0
    · exact alpha_no_dash _ (hws w hw).1
    · exact hnd.1
    · exact hnd.2 w hw
  have hext : extend (d0 :: rest) (ws ++ stop :: more) = (d0 :: rest) ++ tailJoin ws := by
    rw [extend_keeps ws hws]
    simp only [extend]
    have : (isWordAlpha stop && !looksHex8 stop) = false := by
      cases ha : isWordAlpha stop <;> cases hh : looksHex8 stop <;> simp
      exact hstop ⟨ha, hh⟩
    simp [this]
  unfold keySplitCore
  rw [hsplit]
  simp only [List.cons_append, hstart, hext]
  have hd : ((d0 :: (rest ++ tailJoin ws)).length == 32 && (d0 :: (rest ++ tailJoin ws)).all isHexDigit) = false := by
    cases h1 : ((d0 :: (rest ++ tailJoin ws)).length == 32) <;> cases h2 : (d0 :: (rest ++ tailJoin ws)).all isHexDigit <;> simp
    apply hdata
    simp only [List.cons_append]
    exact ⟨by simpa using h1, h2⟩
  simp only [hd, Bool.false_eq_true, if_false]
  split
  · rename_i heq; cases heq
  · rename_i heq
    simp only [List.cons.injEq] at heq
    exact absurd heq.1 hlt
  · rfl

/-- a prefix as the constructors write them: dash-joined words, the first starting with a letter (and free of dashes:
    `from_sequence`, `array`, `p_tag2`), the further ones alphabetic and not hex-like (`bag-from-delayed`), and the whole
    not itself 32 hex characters -/
structure WellNamed (p : List Char) : Prop where
  words : ∃ (c0 : Char) (r0 : List Char) (ws : List (List Char)),
    p = joinDash ((c0 :: r0) :: ws) ∧ isAlpha c0 = true ∧ '-' ∉ c0 :: r0 ∧ ∀ w ∈ ws, Keeps w
  notData : ¬ IsToken p

theorem keySplitCore_mkName (p t : List Char) (hp : WellNamed p) (ht : GoodTok t) :
    keySplitCore (mkName p t) = some p := by
  obtain ⟨⟨c0, r0, ws, rfl, hc0, hnd0, hws⟩, hnot⟩ := hp
  rw [mkName_joinDash]
  have hstart : startOf c0 (c0 :: r0) = c0 :: r0 := by simp [startOf, hc0]
  have := key_split_strips c0 r0 ws [] t hnd0 hws (token_not_kept t ht.2) ⟨token_no_dash t ht.1, by simp⟩
    c0 r0 hstart (isAlpha_ne_lt c0 hc0) (by rw [← joinDash_cons]; exact hnot)
  rw [this, joinDash_cons]

theorem isAlpha_of_wellNamed_head (p : List Char) (hp : WellNamed p) : p ≠ [] := by
  obtain ⟨⟨c0, r0, ws, rfl, _, _, _⟩, _⟩ := hp
  rw [joinDash_cons]; simp

end Dask.KeySplitTok
