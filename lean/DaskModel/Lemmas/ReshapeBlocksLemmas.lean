import DaskModel.Model.ReshapeRechunk
import DaskModel.Lemmas.StructuralLemmas
/-! Lemmas about `blocksFlat` (the block-level semantics of `reshape`'s graph), `lowerAll`, contiguous groups (C24). -/
namespace Dask.Reshape
open Dask.Chunks Dask.Structural

theorem prod_nil : prod [] = 1 := rfl
theorem prod_cons (a : Nat) (l : List Nat) : prod (a :: l) = a * prod l := rfl
theorem prod_append (a b : List Nat) : prod (a ++ b) = prod a * prod b := by
  induction a with
  | nil => simp [prod]
  | cons x a ih => simp only [List.cons_append, prod_cons, ih, Nat.mul_assoc]

theorem size_nil : size [] = 1 := rfl
theorem size_cons (c : List Nat) (g : List (List Nat)) : size (c :: g) = sum c * size g := rfl
theorem nBlocks_nil : nBlocks [] = 1 := rfl
theorem nBlocks_cons (c : List Nat) (g : List (List Nat)) : nBlocks (c :: g) = c.length * nBlocks g := rfl
theorem size_append (a b : List (List Nat)) : size (a ++ b) = size a * size b := by
  unfold size; rw [List.map_append, prod_append]
theorem nBlocks_append (a b : List (List Nat)) : nBlocks (a ++ b) = nBlocks a * nBlocks b := by
  unfold nBlocks; rw [List.map_append, prod_append]

/-! rowsOf -/
theorem length_rowsOf {α} (len : Nat) : ∀ (n : Nat) (flat : List α), (rowsOf len n flat).length = n
  | 0, _ => rfl
  | n + 1, flat => by simp [rowsOf, length_rowsOf len n]

theorem rowsOf_flatten {α} (len : Nat) : ∀ (n : Nat) (flat : List α), flat.length = n * len → (rowsOf len n flat).flatten = flat
  | 0, flat, h => by
    have : flat = [] := List.eq_nil_of_length_eq_zero (by simpa using h)
    subst this; rfl
  | n + 1, flat, h => by
    simp only [rowsOf, List.flatten_cons]
    rw [rowsOf_flatten len n (flat.drop len) (by simp [h, Nat.succ_mul]), List.take_append_drop]

theorem rowsOf_row_length {α} (len : Nat) : ∀ (n : Nat) (flat : List α), flat.length = n * len →
    ∀ r ∈ rowsOf len n flat, r.length = len
  | 0, _, _, r, hr => by simp [rowsOf] at hr
  | n + 1, flat, h, r, hr => by
    simp only [rowsOf, List.mem_cons] at hr
    rcases hr with rfl | hr
    · simp [h, Nat.succ_mul]
    · exact rowsOf_row_length len n (flat.drop len) (by simp [h, Nat.succ_mul]) r hr

theorem rowsOf_of_rows {α} (len : Nat) : ∀ (rows : List (List α)), (∀ r ∈ rows, r.length = len) →
    rowsOf len rows.length rows.flatten = rows
  | [], _ => rfl
  | r :: rows, h => by
    have hr : r.length = len := h r (by simp)
    simp only [List.length_cons, rowsOf, List.flatten_cons]
    rw [List.take_append_of_le_length (by omega), List.take_of_length_le (by omega),
      List.drop_append_of_le_length (by omega), List.drop_of_length_le (by omega), List.nil_append,
      rowsOf_of_rows len rows (fun r hr => h r (by simp [hr]))]

/-! zipConcat -/
theorem zipConcat_singleton {α} (K : Nat) (l : List (List α)) (h : l.length = K) : zipConcat K [l] = l := by
  unfold zipConcat
  subst h
  apply List.ext_getElem
  · simp
  · intro i h1 h2
    simp only [List.length_map, List.length_range] at h1
    simp [List.getD_eq_getElem?_getD, List.getElem?_eq_getElem h1]

theorem length_zipConcat {α} (K : Nat) (ls : List (List (List α))) : (zipConcat K ls).length = K := by
  simp [zipConcat]

theorem length_flatMap_const {α β} (K : Nat) (f : α → List β) : ∀ (l : List α), (∀ x ∈ l, (f x).length = K) →
    (l.flatMap f).length = l.length * K
  | [], _ => by simp
  | x :: l, h => by
    simp only [List.flatMap_cons, List.length_append, List.length_cons]
    rw [h x (by simp), length_flatMap_const K f l (fun y hy => h y (by simp [hy])), Nat.succ_mul]; omega

theorem length_splitBy {α} : ∀ (cs : List Nat) (xs : List α), (splitBy cs xs).length = cs.length
  | [], _ => rfl
  | c :: cs, xs => by simp [splitBy, length_splitBy cs]

theorem length_blocksFlat {α} (m : Nat) : ∀ (dims : List (List Nat)) (flat : List α),
    (blocksFlat m dims flat).length = nBlocks dims
  | [], _ => rfl
  | c :: rest, flat => by
    simp only [blocksFlat]
    rw [length_flatMap_const (nBlocks rest) _ _ (fun rc _ => length_zipConcat _ _), length_splitBy, nBlocks_cons]


/-! all-ones / single-chunk axes -/
theorem allOnes_eq {c : List Nat} (h : allOnes c = true) : c = List.replicate c.length 1 := by
  induction c with
  | nil => rfl
  | cons x c ih =>
    simp only [allOnes, List.all_cons, Bool.and_eq_true, beq_iff_eq] at h
    simp only [List.length_cons, List.replicate_succ]
    rw [h.1]; congr 1
    exact ih (by simpa [allOnes] using h.2)

theorem sum_replicate_one (n : Nat) : sum (List.replicate n 1) = n := by
  rw [sum_replicate]; omega

theorem splitBy_ones {α} : ∀ (rows : List α), splitBy (List.replicate rows.length 1) rows = rows.map (fun r => [r])
  | [] => rfl
  | r :: rows => by
    simp only [List.length_cons, List.replicate_succ, splitBy, List.map_cons, List.take_succ_cons, List.take_zero,
      List.drop_succ_cons, List.drop_zero]
    rw [splitBy_ones rows]

def singles (g : List (List Nat)) : Bool := g.all (fun d => d.length == 1)

theorem singles_cons {d : List Nat} {g : List (List Nat)} (h : singles (d :: g) = true) :
    (∃ s, d = [s]) ∧ singles g = true := by
  simp only [singles, List.all_cons, Bool.and_eq_true, beq_iff_eq] at h
  refine ⟨?_, by simpa [singles] using h.2⟩
  match d, h.1 with
  | [s], _ => exact ⟨s, rfl⟩

theorem lowerAll_singles : ∀ (g : List (List Nat)), singles g = true → lowerAll g = [size g]
  | [], _ => rfl
  | d :: g, h => by
    obtain ⟨⟨s, rfl⟩, hg⟩ := singles_cons h
    simp [lowerAll, lowerAll_singles g hg, size_cons, sum]

theorem nBlocks_singles : ∀ (g : List (List Nat)), singles g = true → nBlocks g = 1
  | [], _ => rfl
  | d :: g, h => by
    obtain ⟨⟨s, rfl⟩, hg⟩ := singles_cons h
    simp [nBlocks_cons, nBlocks_singles g hg]

theorem contig_singles : ∀ (g : List (List Nat)), singles g = true → contig g = true
  | [], _ => rfl
  | d :: g, h => by
    obtain ⟨⟨s, rfl⟩, hg⟩ := singles_cons h
    unfold contig
    split
    · exact contig_singles g hg
    · exact hg

theorem contig_cons {c : List Nat} {g : List (List Nat)} (h : contig (c :: g) = true) :
    (allOnes c = true ∧ contig g = true) ∨ (singles g = true) := by
  unfold contig at h
  split at h
  · rename_i h1; exact Or.inl ⟨h1, h⟩
  · exact Or.inr h

theorem sum_map_mul (l : List Nat) (k : Nat) : sum (l.map (· * k)) = sum l * k := by
  induction l with
  | nil => simp [sum]
  | cons x l ih => simp only [List.map_cons, sum_cons, ih, Nat.add_mul]

theorem sum_map_mul_left (l : List Nat) (x : Nat) : sum (l.map (fun y => x * y)) = x * sum l := by
  induction l with
  | nil => simp [sum]
  | cons y l ih => simp only [List.map_cons, sum_cons, ih, Nat.mul_add]

theorem sum_flatMap_lower (c l : List Nat) : sum (c.flatMap (fun x => l.map (fun y => x * y))) = sum c * sum l := by
  induction c with
  | nil => simp [sum]
  | cons x c ih => simp only [List.flatMap_cons, sum_append, sum_cons, ih, Nat.add_mul, sum_map_mul_left]

theorem sum_lowerAll : ∀ (g : List (List Nat)), sum (lowerAll g) = size g
  | [] => rfl
  | c :: g => by rw [lowerAll, sum_flatMap_lower, sum_lowerAll g, size_cons]

theorem length_lowerAll : ∀ (g : List (List Nat)), (lowerAll g).length = nBlocks g
  | [] => rfl
  | c :: g => by
    rw [lowerAll, length_flatMap_const (nBlocks g) _ _ (fun x _ => by simp [length_lowerAll g]), nBlocks_cons]


/-! list plumbing -/
theorem zip_flatten_replicate {β γ δ} (L : List γ) (f : β → List δ) : ∀ (rows : List β),
    (∀ row ∈ rows, (f row).length = L.length) →
    (List.replicate rows.length L).flatten.zip (rows.flatMap f) = rows.flatMap (fun row => L.zip (f row))
  | [], _ => by simp
  | r :: rows, h => by
    simp only [List.length_cons, List.replicate_succ, List.flatten_cons, List.flatMap_cons]
    rw [List.zip_append (by rw [h r (by simp)]), zip_flatten_replicate L f rows (fun row hr => h row (by simp [hr]))]

theorem getD_zipConcat {α} (K : Nat) (ls : List (List (List α))) (k : Nat) (hk : k < K) :
    (zipConcat K ls).getD k [] = (ls.map (fun l => l.getD k [])).flatten := by
  unfold zipConcat
  rw [List.getD_eq_getElem?_getD, List.getElem?_map, List.getElem?_range hk]
  rfl

theorem zipConcat_nest {α β} (K : Nat) (h : β → List (List (List α))) (ls : List β) :
    zipConcat K (ls.map (fun l => zipConcat K (h l))) = zipConcat K (ls.flatMap h) := by
  unfold zipConcat
  apply List.map_congr_left
  intro k hk
  have hk : k < K := by simpa using hk
  induction ls with
  | nil => rfl
  | cons l ls ih =>
    simp only [List.map_cons, List.flatten_cons, List.flatMap_cons, List.map_append, List.flatten_append] at ih ⊢
    rw [ih]
    congr 1
    exact getD_zipConcat K (h l) k hk

theorem rowsOf_add {α} (M : Nat) : ∀ (a b : Nat) (xs ys : List α), xs.length = a * M →
    rowsOf M (a + b) (xs ++ ys) = rowsOf M a xs ++ rowsOf M b ys
  | 0, b, xs, ys, h => by
    have : xs = [] := List.eq_nil_of_length_eq_zero (by simpa using h)
    subst this; simp [rowsOf]
  | a + 1, b, xs, ys, h => by
    have e : a + 1 + b = (a + b) + 1 := by omega
    have hl : M ≤ xs.length := by rw [h, Nat.succ_mul]; omega
    rw [e]
    simp only [rowsOf, List.cons_append]
    rw [List.take_append_of_le_length hl, List.drop_append_of_le_length hl,
      rowsOf_add M a b (xs.drop M) ys (by simp [h, Nat.succ_mul])]

theorem rowsOf_flatten_rows {α} (M sg : Nat) : ∀ (rc : List (List α)), (∀ r ∈ rc, r.length = sg * M) →
    rowsOf M (rc.length * sg) rc.flatten = rc.flatMap (rowsOf M sg)
  | [], _ => by simp [rowsOf]
  | r :: rc, h => by
    simp only [List.length_cons, List.flatten_cons, List.flatMap_cons]
    have e : (rc.length + 1) * sg = sg + rc.length * sg := by rw [Nat.succ_mul]; omega
    rw [e, rowsOf_add M sg (rc.length * sg) r rc.flatten (h r (by simp)),
      rowsOf_flatten_rows M sg rc (fun r hr => h r (by simp [hr]))]

theorem mem_zip_splitBy {α} : ∀ (c : List Nat) (rows : List α) (x : Nat) (rc : List α), rows.length = sum c →
    (x, rc) ∈ c.zip (splitBy c rows) → rc.length = x ∧ ∀ r ∈ rc, r ∈ rows
  | [], _, _, _, _, h => by simp at h
  | c0 :: c, rows, x, rc, hl, h => by
    rw [sum_cons] at hl
    simp only [splitBy, List.zip_cons_cons, List.mem_cons, Prod.mk.injEq] at h
    rcases h with ⟨rfl, rfl⟩ | h
    · exact ⟨by simp; omega, fun r hr => List.mem_of_mem_take hr⟩
    · obtain ⟨h1, h2⟩ := mem_zip_splitBy c (rows.drop c0) x rc (by simp; omega) h
      exact ⟨h1, fun r hr => List.mem_of_mem_drop (h2 r hr)⟩

theorem lowerAll_ones (n : Nat) (g : List (List Nat)) :
    lowerAll (List.replicate n 1 :: g) = (List.replicate n (lowerAll g)).flatten := by
  simp only [lowerAll]
  induction n with
  | zero => rfl
  | succ n ih => simp only [List.replicate_succ, List.flatMap_cons, List.flatten_cons, ih, Nat.one_mul, List.map_id']

theorem map_snd_zip_splitBy {α} (c : List Nat) (rows : List α) : (c.zip (splitBy c rows)).map (·.2) = splitBy c rows := by
  rw [List.map_snd_zip]; rw [length_splitBy]; exact Nat.le_refl _

end Dask.Reshape
