import DaskModel.Model.FusedName
/-! Collision analysis of the fused-key names. -/
namespace Dask.FusedName

theorem joinDash_append_last (ps : List (List Char)) (last : List Char) :
    ∃ pre, joinDash (ps ++ [last]) = pre ++ last ∧ ∀ last', joinDash (ps ++ [last']) = pre ++ last' := by
  induction ps with
  | nil => exact ⟨[], by simp [joinDash], fun _ => by simp [joinDash]⟩
  | cons p ps ih =>
    obtain ⟨pre, h1, h2⟩ := ih
    cases hps : ps ++ [last] with
    | nil => simp at hps
    | cons y r =>
      refine ⟨p ++ '-' :: pre, ?_, ?_⟩
      · simp only [List.cons_append, hps, joinDash]
        rw [← hps, h1]; simp
      · intro last'
        cases hps' : ps ++ [last'] with
        | nil => simp at hps'
        | cons y' r' =>
          simp only [List.cons_append, hps', joinDash]
          rw [← hps', h2 last']; simp

/-- the concatenated name is a fixed prefix (the sorted other names) followed by the full name of the top key -/
theorem concatName_eq (names : List (List Char)) (firstName : List Char) :
    ∃ pre, ∀ last, concatName names firstName last = pre ++ last := by
  obtain ⟨pre, _, h⟩ := joinDash_append_last (otherNames names firstName) []
  exact ⟨pre, fun last => h last⟩

/-- **chains with the same op names but different top keys get different concatenated names** -/
theorem concatName_inj_last (names : List (List Char)) (firstName a b : List Char)
    (h : concatName names firstName a = concatName names firstName b) : a = b := by
  obtain ⟨pre, hp⟩ := concatName_eq names firstName
  rw [hp a, hp b] at h
  exact List.append_cancel_left h

theorem enforceLimit_some (t c : Nat) (digest : List Char → List Char) (a : List Char) :
    enforceLimit (some t) c digest a = if a.length > t then a.take c ++ '-' :: digest a else a := rfl

/-- **exact collision characterisation of `_enforce_max_key_limit`**: with a limit `t` and a cut length `c` such that a
    cut name is longer than any uncut one (`t < c + 1 + |digest|`), two names get the same key iff they are equal, or
    both are over-long, agree on the first `c` characters and have the same digest. -/
theorem enforceLimit_eq_iff (t c : Nat) (digest : List Char → List Char) (a b : List Char) (hc : c ≤ t)
    (hlen : ∀ x, t < c + 1 + (digest x).length) :
    enforceLimit (some t) c digest a = enforceLimit (some t) c digest b ↔
      a = b ∨ (t < a.length ∧ t < b.length ∧ a.take c = b.take c ∧ digest a = digest b) := by
  rw [enforceLimit_some, enforceLimit_some]
  by_cases ha : a.length > t <;> by_cases hb : b.length > t
  · rw [if_pos ha, if_pos hb]
    constructor
    · intro h
      right
      have hl : (a.take c).length = (b.take c).length := by
        simp only [List.length_take]; omega
      have := List.append_inj h hl
      exact ⟨ha, hb, this.1, by simpa using this.2⟩
    · rintro (rfl | ⟨_, _, h1, h2⟩)
      · rfl
      · rw [h1, h2]
  · rw [if_pos ha, if_neg hb]
    constructor
    · intro h
      exfalso
      have := congrArg List.length h
      simp only [List.length_append, List.length_take, List.length_cons] at this
      have := hlen a
      omega
    · rintro (rfl | ⟨_, h, _, _⟩)
      · exact absurd ha hb
      · exact absurd h hb
  · rw [if_neg ha, if_pos hb]
    constructor
    · intro h
      exfalso
      have := congrArg List.length h
      simp only [List.length_append, List.length_take, List.length_cons] at this
      have := hlen b
      omega
    · rintro (rfl | ⟨h, _, _, _⟩)
      · exact absurd hb ha
      · exact absurd h ha
  · rw [if_neg ha, if_neg hb]
    constructor
    · intro h; exact Or.inl h
    · rintro (h | ⟨h, _, _, _⟩)
      · exact h
      · exact absurd h ha

/-- with an injective digest the renamer never maps two names to one key -/
theorem enforceLimit_injective (t c : Nat) (digest : List Char → List Char) (hc : c ≤ t)
    (hlen : ∀ x, t < c + 1 + (digest x).length) (hinj : ∀ x y, digest x = digest y → x = y) (a b : List Char)
    (h : enforceLimit (some t) c digest a = enforceLimit (some t) c digest b) : a = b := by
  rcases (enforceLimit_eq_iff t c digest a b hc hlen).mp h with h | ⟨_, _, _, h⟩
  · exact h
  · exact hinj a b h

/-- the result never exceeds `max(t, c + 1 + |digest|)` characters -/
theorem enforceLimit_length (t c : Nat) (digest : List Char → List Char) (a : List Char) :
    (enforceLimit (some t) c digest a).length ≤ max t (c + 1 + (digest a).length) := by
  rw [enforceLimit_some]
  by_cases h : a.length > t
  · rw [if_pos h]
    simp only [List.length_append, List.length_take, List.length_cons]
    omega
  · rw [if_neg h]
    omega

end Dask.FusedName
