import DaskModel.Lemmas.ConfigAlias
/-! Lemmas for histories over the identity-carrying config model: folds of updates, `_assign`, `sync`. -/
namespace Dask.ConfigAlias
open Dask.Config

/-! ### folds of updates (merge, refresh) -/

theorem eraseL_nil : eraseL [] = [] := by simp [eraseL]

theorem foldUpd_erase (p : Priority) : ∀ (ds : List HDict) (acc : HDict) (nx : Nat),
    (foldUpd hupdate p ds acc nx).map (fun r => eraseL r.1) = vfoldUpd p (ds.map eraseL) (eraseL acc)
  | [], acc, nx => by simp [foldUpd, vfoldUpd]
  | d :: ds, acc, nx => by
    have h := hupdate_erase p d acc none nx
    simp only [foldUpd, List.map_cons, vfoldUpd, update]
    rw [← h]
    cases hupdate p d acc none nx with
    | none => simp
    | some r => simp only [Option.map_some]; exact foldUpd_erase p ds r.1 r.2

theorem foldUpd_ids (p : Priority) : ∀ (ds : List HDict) (acc : HDict) (nx : Nat) (r : HDict) (nx' : Nat),
    foldUpd hupdate p ds acc nx = some (r, nx') → nx ≤ nx' ∧ ∀ i ∈ idsL r, i ∈ idsL acc ∨ (nx ≤ i ∧ i < nx')
  | [], acc, nx, r, nx' => by
    intro h
    simp only [foldUpd, Option.some.injEq, Prod.mk.injEq] at h
    obtain ⟨rfl, rfl⟩ := h
    exact ⟨Nat.le_refl _, fun i hi => Or.inl hi⟩
  | d :: ds, acc, nx, r, nx' => by
    intro h
    simp only [foldUpd] at h
    cases hu : hupdate p d acc none nx with
    | none => rw [hu] at h; simp at h
    | some res =>
      obtain ⟨a, n1⟩ := res
      rw [hu] at h
      obtain ⟨a1, a2⟩ := hupdate_ids p d acc none nx a n1 hu
      obtain ⟨b1, b2⟩ := foldUpd_ids p ds a n1 r nx' h
      refine ⟨by omega, fun i hi => ?_⟩
      rcases b2 i hi with h3 | h3
      · rcases a2 i h3 with h4 | h4
        · exact Or.inl h4
        · right; omega
      · right; omega

/-- `merge` of `Model/Config.lean` is the fold -/
theorem merge_eq_vfoldUpd (ds : List Dict) : merge ds = vfoldUpd .new ds [] := by
  unfold merge
  suffices h : ∀ (ds : List Dict) (acc : Dict),
      ds.foldl (fun acc d => acc.bind fun r => update .new r d none) (some acc) = vfoldUpd .new ds acc from h ds []
  intro ds
  induction ds with
  | nil => intro acc; simp [vfoldUpd]
  | cons d ds ih =>
    intro acc
    simp only [List.foldl_cons, Option.bind_some, vfoldUpd]
    cases hu : update .new acc d none with
    | some r => exact ih r
    | none =>
      simp only []
      clear ih hu
      induction ds with
      | nil => rfl
      | cons d' ds' ih' => simpa using ih'

/-! ### set._assign with identities -/

theorem hassign_erase : ∀ (keys : List String) (c : Int) (d : HDict) (nx : Nat),
    (hassign keys c d nx).map (fun r => eraseL r.1) = (assign keys (.leaf c) (eraseL d) [] false).map (·.1)
  | [], c, d, nx => by simp [hassign, assign]
  | [k], c, d, nx => by simp [hassign, assign, canonicalName_eraseL, eraseL_dset, HCfg.erase]
  | k :: k2 :: ks, c, d, nx => by
    simp only [hassign, assign, canonicalName_eraseL, dget_eraseL]
    cases hg : dget d (canonicalName k d) with
    | none =>
      simp only [Option.map_none]
      have ih := hassign_erase (k2 :: ks) c [] (nx + 1)
      rw [eraseL_nil] at ih
      rw [assign_path] at ih ⊢
      cases ha : hassign (k2 :: ks) c [] (nx + 1) with
      | none =>
        rw [ha] at ih
        simp only [Option.map_none] at ih
        cases hb : assign (k2 :: ks) (.leaf c) [] [] false with
        | none => simp
        | some r => rw [hb] at ih; simp at ih
      | some r =>
        rw [ha] at ih
        cases hb : assign (k2 :: ks) (.leaf c) [] [] false with
        | none => rw [hb] at ih; simp at ih
        | some r' =>
          rw [hb] at ih
          simp only [Option.map_some, Option.some.injEq] at ih
          simp [eraseL_dset, HCfg.erase, ih]
    | some v =>
      cases v with
      | leaf x => simp [HCfg.erase]
      | node i sub =>
        simp only [Option.map_some, HCfg.erase]
        have ih := hassign_erase (k2 :: ks) c sub nx
        rw [assign_path] at ih ⊢
        cases ha : hassign (k2 :: ks) c sub nx with
        | none =>
          rw [ha] at ih
          simp only [Option.map_none] at ih
          cases hb : assign (k2 :: ks) (.leaf c) (eraseL sub) [] false with
          | none => simp
          | some r => rw [hb] at ih; simp at ih
        | some r =>
          rw [ha] at ih
          cases hb : assign (k2 :: ks) (.leaf c) (eraseL sub) [] false with
          | none => rw [hb] at ih; simp at ih
          | some r' =>
            rw [hb] at ih
            simp only [Option.map_some, Option.some.injEq] at ih
            simp [eraseL_dset, HCfg.erase, ih]

theorem hassign_ids : ∀ (keys : List String) (c : Int) (d : HDict) (nx : Nat) (r : HDict) (nx' : Nat),
    hassign keys c d nx = some (r, nx') → nx ≤ nx' ∧ ∀ i ∈ idsL r, i ∈ idsL d ∨ (nx ≤ i ∧ i < nx')
  | [], c, d, nx, r, nx' => by simp [hassign]
  | [k], c, d, nx, r, nx' => by
    intro h
    simp only [hassign, Option.some.injEq, Prod.mk.injEq] at h
    obtain ⟨rfl, rfl⟩ := h
    refine ⟨Nat.le_refl _, fun i hi => ?_⟩
    rcases mem_idsL_dset d _ _ i hi with h | h
    · exact Or.inl h
    · simp [HCfg.ids] at h
  | k :: k2 :: ks, c, d, nx, r, nx' => by
    intro h
    simp only [hassign] at h
    cases hg : dget d (canonicalName k d) with
    | none =>
      rw [hg] at h
      simp only [] at h
      cases ha : hassign (k2 :: ks) c [] (nx + 1) with
      | none => rw [ha] at h; simp at h
      | some res =>
        obtain ⟨sub, n1⟩ := res
        rw [ha] at h
        simp only [Option.some.injEq, Prod.mk.injEq] at h
        obtain ⟨rfl, rfl⟩ := h
        obtain ⟨a1, a2⟩ := hassign_ids (k2 :: ks) c [] (nx + 1) sub n1 ha
        refine ⟨by omega, fun i hi => ?_⟩
        rcases mem_idsL_dset d _ _ i hi with h | h
        · exact Or.inl h
        · simp only [HCfg.ids, List.mem_cons] at h
          rcases h with h | h
          · right; omega
          · rcases a2 i h with h5 | h5
            · simp [idsL] at h5
            · right; omega
    | some v =>
      rw [hg] at h
      cases v with
      | leaf x => simp at h
      | node j sub =>
        simp only [] at h
        cases ha : hassign (k2 :: ks) c sub nx with
        | none => rw [ha] at h; simp at h
        | some res =>
          obtain ⟨sub', n1⟩ := res
          rw [ha] at h
          simp only [Option.some.injEq, Prod.mk.injEq] at h
          obtain ⟨rfl, rfl⟩ := h
          obtain ⟨a1, a2⟩ := hassign_ids (k2 :: ks) c sub nx sub' n1 ha
          refine ⟨a1, fun i hi => ?_⟩
          rcases mem_idsL_dset d _ _ i hi with h | h
          · exact Or.inl h
          · simp only [HCfg.ids, List.mem_cons] at h
            rcases h with h | h
            · exact Or.inl (mem_idsL_of_dget d _ _ hg i (by simp [HCfg.ids, h]))
            · rcases a2 i h with h5 | h5
              · exact Or.inl (mem_idsL_of_dget d _ _ hg i (by simp [HCfg.ids, h5]))
              · exact Or.inr h5

/-! ### in-place mutation seen through other references -/

mutual
theorem find_none_of_not_mem (i : Nat) : ∀ (c : HCfg), i ∉ c.ids → c.find i = none
  | .leaf _, _ => by simp [HCfg.find]
  | .node j es, h => by
    simp only [HCfg.ids, List.mem_cons, not_or] at h
    simp only [HCfg.find]
    rw [if_neg (fun e => h.1 e.symm)]
    exact findL_none_of_not_mem i es h.2
theorem findL_none_of_not_mem (i : Nat) : ∀ (d : HDict), i ∉ idsL d → findL i d = none
  | [], _ => by simp [findL]
  | kv :: r, h => by
    simp only [idsL, List.mem_append, not_or] at h
    simp only [findL]
    rw [find_none_of_not_mem i kv.2 h.1]
    exact findL_none_of_not_mem i r h.2
end

mutual
/-- a reference none of whose dict objects was touched shows what it showed before -/
theorem sync_of_disjoint (res : HCfg) : ∀ (w : HCfg), (∀ i ∈ w.ids, i ∉ res.ids) → HCfg.sync res w = w
  | .leaf _, _ => by simp [HCfg.sync]
  | .node j es, h => by
    simp only [HCfg.sync]
    rw [find_none_of_not_mem j res (h j (by simp [HCfg.ids]))]
    simp only [Option.getD_none]
    rw [syncL_of_disjoint res es (fun i hi => h i (by simp [HCfg.ids, hi]))]
theorem syncL_of_disjoint (res : HCfg) : ∀ (d : HDict), (∀ i ∈ idsL d, i ∉ res.ids) → syncL res d = d
  | [], _ => by simp [syncL]
  | kv :: r, h => by
    simp only [syncL]
    rw [sync_of_disjoint res kv.2 (fun i hi => h i (by simp [idsL, hi])),
        syncL_of_disjoint res r (fun i hi => h i (by simp [idsL, hi]))]
end

end Dask.ConfigAlias
