import DaskModel.Model.ArrPads
import DaskModel.Lemmas.SliceRange
/-! C26: the slices the boundary functions cut select exactly the closed-form index maps `padLeft` / `padRight`
    (wrap-around, mirror, edge), for every depth `1 ≤ d ≤ n`. -/
namespace Dask.ArrOverlap
open Dask.Slice1D

theorem rangeUp_one : ∀ (k : Nat) (a : Int), rangeUp a (a + k) 1 = (List.range k).map (fun (i : Nat) => a + (i : Int)) := by
  intro k
  induction k with
  | zero => intro a; rw [rangeUp_nil (by simp)]; rfl
  | succ k ih =>
    intro a
    rw [rangeUp_unfold a _ 1 (by decide)]
    have h : a < a + ((k + 1 : Nat) : Int) := by omega
    simp only [h, if_true, List.range_succ_eq_map, List.map_cons, List.map_map]
    congr 1
    · simp
    · have e : a + ((k + 1 : Nat) : Int) = (a + 1) + (k : Int) := by omega
      rw [e, ih (a + 1)]
      apply List.map_congr_left
      intro i _
      simp only [Function.comp, Nat.succ_eq_add_one, Int.natCast_add]
      omega

theorem rangeDown_one : ∀ (k : Nat) (a : Int), rangeDown a (a - k) (-1) = (List.range k).map (fun (i : Nat) => a - (i : Int)) := by
  intro k
  induction k with
  | zero => intro a; rw [rangeDown_nil (by simp)]; rfl
  | succ k ih =>
    intro a
    rw [rangeDown_unfold a _ (-1) (by decide)]
    have h : a - ((k + 1 : Nat) : Int) < a := by omega
    simp only [h, if_true, List.range_succ_eq_map, List.map_cons, List.map_map]
    congr 1
    · simp
    · have e : a - ((k + 1 : Nat) : Int) = (a + -1) - (k : Int) := by omega
      rw [e, ih (a + -1)]
      apply List.map_congr_left
      intro i _
      simp only [Function.comp, Nat.succ_eq_add_one, Int.natCast_add]
      omega

/-- closed forms of the slices used by the boundary functions (axis length `n`, `1 ≤ d ≤ n`) -/
theorem slice_tail (d n : Nat) (h1 : 1 ≤ d) (h2 : d ≤ n) :
    pySliceIdx n ⟨some (-(d : Int)), none, none⟩ = some ((List.range d).map fun (i : Nat) => ((n - d : Nat) : Int) + i) := by
  have hneg : (-(d : Int)) < 0 := by omega
  simp only [pySliceIdx, pyIndices, Option.getD, pyRange, hneg, if_true]
  simp only [show ¬ ((1 : Int) = 0) by decide, show ¬ ((1 : Int) < 0) by decide, show (0 : Int) < 1 by decide, if_false, if_true]
  have e1 : max (-(d : Int) + (n : Int)) 0 = ((n - d : Nat) : Int) := by omega
  have e2 : (n : Int) = ((n - d : Nat) : Int) + (d : Int) := by omega
  rw [e1]
  conv => lhs; rw [e2]
  rw [rangeUp_one]

theorem slice_head (d n : Nat) (h2 : d ≤ n) :
    pySliceIdx n ⟨some 0, some (d : Int), none⟩ = some ((List.range d).map fun (i : Nat) => (i : Int)) := by
  have hd : ¬ ((d : Int) < 0) := by omega
  simp only [pySliceIdx, pyIndices, Option.getD, pyRange, hd, if_false]
  simp only [show ¬ ((1 : Int) = 0) by decide, show ¬ ((1 : Int) < 0) by decide, show (0 : Int) < 1 by decide,
    show ¬ ((0 : Int) < 0) by decide, if_false, if_true]
  have e1 : min (0 : Int) (n : Int) = 0 := by omega
  have e2 : min (d : Int) (n : Int) = 0 + (d : Int) := by omega
  rw [e1, e2, rangeUp_one]
  simp

theorem slice_mirror_left (d n : Nat) (h1 : 1 ≤ d) (h2 : d ≤ n) :
    pySliceIdx n ⟨some ((d : Int) - 1), none, some (-1)⟩ = some ((List.range d).map fun (i : Nat) => ((d - 1 - i : Nat) : Int)) := by
  have hd : ¬ ((d : Int) - 1 < 0) := by omega
  simp only [pySliceIdx, pyIndices, Option.getD, pyRange, hd, if_false]
  simp only [show ¬ ((-1 : Int) = 0) by decide, show ((-1 : Int) < 0) by decide, show ¬ ((0 : Int) < -1) by decide, if_false, if_true]
  have e1 : min ((d : Int) - 1) ((n : Int) - 1) = (d : Int) - 1 := by omega
  have h := rangeDown_one d ((d : Int) - 1)
  have e2 : ((d : Int) - 1) - (d : Int) = -1 := by omega
  rw [e2] at h
  rw [e1, h]
  congr 1
  apply List.map_congr_left
  intro i hi
  rw [List.mem_range] at hi
  omega

theorem slice_mirror_right (d n : Nat) (h1 : 1 ≤ d) (h2 : d ≤ n) :
    pySliceIdx n ⟨some (-1), some (-(d : Int) - 1), some (-1)⟩ = some ((List.range d).map fun (i : Nat) => ((n - 1 - i : Nat) : Int)) := by
  have hd : (-(d : Int) - 1 < 0) := by omega
  simp only [pySliceIdx, pyIndices, Option.getD, pyRange, hd, if_true]
  simp only [show ¬ ((-1 : Int) = 0) by decide, show ((-1 : Int) < 0) by decide, show ¬ ((0 : Int) < -1) by decide, if_false, if_true]
  have e1 : max (-1 + (n : Int)) (-1) = (n : Int) - 1 := by omega
  have e2 : max (-(d : Int) - 1 + (n : Int)) (-1) = ((n : Int) - 1) - (d : Int) := by omega
  rw [e1, e2, rangeDown_one]
  congr 1
  apply List.map_congr_left
  intro i hi
  rw [List.mem_range] at hi
  omega

/-- **The boundary kinds are the index maps** `padLeft` / `padRight`: wrap-around (periodic), mirror (reflect), edge
    (nearest), fill (constant) — for every axis length `n` and depth `1 ≤ d ≤ n`. -/
theorem codeLeft_eq (k : Kind) (d n : Nat) (h1 : 1 ≤ d) (h2 : d ≤ n) :
    codeLeft k d n = some ((padLeft k d n).map (Option.map fun (p : Nat) => (p : Int))) := by
  cases k with
  | periodic =>
    simp only [codeLeft, padLeft, slice_tail d n h1 h2, Option.map_some, List.map_map]
    congr 1
  | reflect =>
    simp only [codeLeft, padLeft]
    by_cases hd : d = 1
    · subst hd
      rw [if_pos rfl]
      have h : pySliceIdx n ⟨some 0, some 1, none⟩ = some ((List.range 1).map fun (i : Nat) => (i : Int)) := by
        simpa using slice_head 1 n h2
      rw [h]
      rfl
    · rw [if_neg hd, slice_mirror_left d n h1 h2]
      simp only [Option.map_some, List.map_map]
      rfl
  | nearest =>
    simp only [codeLeft, padLeft]
    have h : pySliceIdx n ⟨some 0, some 1, none⟩ = some ((List.range 1).map fun (i : Nat) => (i : Int)) := by
      simpa using slice_head 1 n (by omega)
    rw [h]
    simp only [Option.map_some, List.range_one, List.map_cons, List.map_nil, List.flatMap_cons, List.flatMap_nil,
      List.append_nil, List.map_map]
    congr 1
    symm
    rw [List.eq_replicate_iff]
    constructor
    · simp
    · intro b hb
      simp only [List.mem_map, Function.comp] at hb
      obtain ⟨_, _, rfl⟩ := hb
      rfl
  | constant =>
    simp only [codeLeft, padLeft, List.map_map]
    congr 1
    symm
    rw [List.eq_replicate_iff]
    constructor
    · simp
    · intro b hb
      simp only [List.mem_map, Function.comp] at hb
      obtain ⟨_, _, rfl⟩ := hb
      rfl

theorem codeRight_eq (k : Kind) (d n : Nat) (h1 : 1 ≤ d) (h2 : d ≤ n) :
    codeRight k d n = some ((padRight k d n).map (Option.map fun (p : Nat) => (p : Int))) := by
  cases k with
  | periodic =>
    simp only [codeRight, padRight, slice_head d n h2, Option.map_some, List.map_map]
    rfl
  | reflect =>
    simp only [codeRight, padRight, slice_mirror_right d n h1 h2, Option.map_some, List.map_map]
    rfl
  | nearest =>
    simp only [codeRight, padRight]
    have h : pySliceIdx n ⟨some (-1), some (-2), some (-1)⟩
        = some ((List.range 1).map fun (i : Nat) => ((n - 1 - i : Nat) : Int)) := by
      have := slice_mirror_right 1 n (by omega) (by omega)
      simpa using this
    rw [h]
    simp only [Option.map_some, List.range_one, List.map_cons, List.map_nil, List.flatMap_cons, List.flatMap_nil,
      List.append_nil, List.map_map]
    congr 1
    symm
    rw [List.eq_replicate_iff]
    constructor
    · simp
    · intro b hb
      simp only [List.mem_map, Function.comp] at hb
      obtain ⟨_, _, rfl⟩ := hb
      simp
  | constant =>
    simp only [codeRight, padRight, List.map_map]
    congr 1
    symm
    rw [List.eq_replicate_iff]
    constructor
    · simp
    · intro b hb
      simp only [List.mem_map, Function.comp] at hb
      obtain ⟨_, _, rfl⟩ := hb
      rfl

end Dask.ArrOverlap

namespace Dask.ArrOverlap

/-- NumPy's `np.pad` index maps (`wrap`, `symmetric`, `edge`, `constant`) for a pad of `d ≤ n` cells on both sides:
    the source position of cell `i` of the padded axis (`none` = the fill value) -/
def npPadIndex (k : Kind) (d n i : Nat) : Option Nat :=
  match k with
  | .periodic => some ((i + n - d) % n)
  | .reflect => if i < d then some (d - 1 - i) else if i < d + n then some (i - d) else some (2 * n + d - 1 - i)
  | .nearest => if i < d then some 0 else if i < d + n then some (i - d) else some (n - 1)
  | .constant => if i < d ∨ d + n ≤ i then none else some (i - d)

theorem padPositions_get (k : Kind) (d n i : Nat) (h1 : 1 ≤ d) (h2 : d ≤ n) (hi : i < n + 2 * d) :
    (padPositions k d n)[i]? = some (npPadIndex k d n i) := by
  unfold padPositions
  have hL : (padLeft k d n).length = d := by cases k <;> simp [padLeft]
  have hM : ((List.range n).map some).length = n := by simp
  by_cases c1 : i < d
  · rw [List.append_assoc, List.getElem?_append_left (by omega)]
    cases k <;> simp only [padLeft, npPadIndex, List.getElem?_map, List.getElem?_range c1, Option.map_some, c1, if_true,
      true_or]
    · -- periodic: (i + n - d) % n = n - d + i
      congr 2
      have : i + n - d = n - d + i := by omega
      rw [this, Nat.mod_eq_of_lt (by omega)]
  · by_cases c2 : i < d + n
    · rw [List.append_assoc, List.getElem?_append_right (by omega), List.getElem?_append_left (by rw [hL, hM]; omega), hL,
        List.getElem?_map, List.getElem?_range (by omega)]
      have c3 : ¬ (d + n ≤ i) := by omega
      cases k <;> simp only [npPadIndex, Option.map_some, c1, c2, c3, if_false, if_true, false_or]
      · congr 2
        have : i + n - d = (i - d) + n := by omega
        rw [this, Nat.add_mod_right, Nat.mod_eq_of_lt (by omega)]
    · have hR : i - (padLeft k d n ++ (List.range n).map some).length < d := by
        rw [List.length_append, hL, hM]; omega
      rw [List.getElem?_append_right (by rw [List.length_append, hL, hM]; omega), List.length_append, hL, hM]
      have hj : i - (d + n) < d := by omega
      have c3 : d + n ≤ i := by omega
      cases k <;> simp only [padRight, npPadIndex, List.getElem?_map, List.getElem?_range hj, Option.map_some, c1, c2, c3,
        if_false, if_true, false_or, or_true]
      · congr 2
        have : i + n - d = (i - (d + n)) + n + n := by omega
        rw [this, Nat.add_mod_right, Nat.add_mod_right, Nat.mod_eq_of_lt (by omega)]
      · congr 2; omega

end Dask.ArrOverlap
